package main

// Models added for C06 (shachain store codec): encoding/binary.Write and
// encoding/binary.Read for fixed-size integers, including *named* integer
// types (shachain.index), which the real functions only handle through
// reflect. Semantics follow encoding/binary: Write produces the n bytes in the
// given order and hands them to w.Write in one call; Read does
// io.ReadFull(r, n bytes), returns its error unchanged, otherwise stores the
// decoded integer through the pointer. Any other data shape runs the real
// function body.

import (
	"go/types"
	"math/big"
	"os"
	"strings"
	"sync"

	"golang.org/x/tools/go/ssa"
)

func init() {
	models["encoding/binary.Write"] = modelBinaryWriteC06
	models["encoding/binary.Read"] = modelBinaryReadC06
}

func c06LittleEndian(order Value) (little bool, ok bool) {
	iv, isI := order.(*IfaceV)
	if !isI || iv.T == nil {
		return false, false
	}
	s := iv.T.String()
	switch {
	case strings.HasSuffix(s, "encoding/binary.bigEndian"):
		return false, true
	case strings.HasSuffix(s, "encoding/binary.littleEndian"):
		return true, true
	}
	return false, false
}

func modelBinaryWriteC06(ex *Exec, fn *ssa.Function, args []Value, caller *Frame) (Value, *goPanic) {
	real := func() (Value, *goPanic) { return ex.runFunction(fn, args, nil, caller, false) }
	w, okW := args[0].(*IfaceV)
	data, okD := args[2].(*IfaceV)
	little, okO := c06LittleEndian(args[1])
	if !okW || !okD || !okO || w.T == nil || data.T == nil {
		return real()
	}
	var val *Term
	if width, _, isInt := isInteger(data.T); isInt {
		t, isT := data.V.(*Term)
		if !isT || t.Sort.W != width {
			return real()
		}
		val = t
	} else if pt, isP := data.T.Underlying().(*types.Pointer); isP {
		width, _, isInt := isInteger(pt.Elem())
		p, isPV := data.V.(*PtrV)
		if !isInt || !isPV || p.Obj == nil {
			return real()
		}
		v, gp := ex.load(p, 0, caller)
		if gp != nil {
			return nil, gp
		}
		t, isT := v.(*Term)
		if !isT || t.Sort.W != width {
			return real()
		}
		val = t
	} else {
		return real()
	}
	n := val.Sort.W / 8
	buf := ex.makeSlice(types.Typ[types.Uint8], n, n)
	arr := &ArrayV{E: make([]Value, n)}
	for i := 0; i < n; i++ {
		be := Extract(8*(n-i)-1, 8*(n-i-1), val) // i-th byte, most significant first
		if little {
			arr.E[n-1-i] = be
		} else {
			arr.E[i] = be
		}
	}
	buf.Obj.V = arr
	m := ex.prog.LookupMethod(w.T, nil, "Write")
	if m == nil {
		panic(unsupported("binary.Write: no Write method on " + w.T.String()))
	}
	r, gp := ex.callFunction(m, []Value{w.V, buf}, nil, caller)
	if gp != nil {
		return nil, gp
	}
	return r.(*TupleV).E[1], nil
}

func modelBinaryReadC06(ex *Exec, fn *ssa.Function, args []Value, caller *Frame) (Value, *goPanic) {
	real := func() (Value, *goPanic) { return ex.runFunction(fn, args, nil, caller, false) }
	r, okR := args[0].(*IfaceV)
	data, okD := args[2].(*IfaceV)
	little, okO := c06LittleEndian(args[1])
	if !okR || !okD || !okO || r.T == nil || data.T == nil {
		return real()
	}
	pt, isP := data.T.Underlying().(*types.Pointer)
	if !isP {
		return real()
	}
	width, _, isInt := isInteger(pt.Elem())
	p, isPV := data.V.(*PtrV)
	if !isInt || !isPV || p.Obj == nil {
		return real()
	}
	ioPkg := ex.prog.ImportedPackage("io")
	if ioPkg == nil || ioPkg.Func("ReadFull") == nil {
		return real()
	}
	n := width / 8
	buf := ex.makeSlice(types.Typ[types.Uint8], n, n)
	res, gp := ex.callFunction(ioPkg.Func("ReadFull"), []Value{r, buf}, nil, caller)
	if gp != nil {
		return nil, gp
	}
	errV := res.(*TupleV).E[1]
	if ei, isI := errV.(*IfaceV); !isI || ei.T != nil {
		return errV, nil
	}
	bs := bytesOf(ex, buf)
	var val *Term
	for i := 0; i < n; i++ {
		b := bs[i]
		if little {
			b = bs[n-1-i]
		}
		if val == nil {
			val = b
		} else {
			val = Concat(val, b)
		}
	}
	if gp := ex.store(p, val, 0, caller); gp != nil {
		return nil, gp
	}
	return &IfaceV{}, nil
}

// wideArrayEq: == on two arrays of bit-vector elements where at least one side
// is the element-wise split of a single wider term (e.g. the 32 bytes of one
// hash application): build the one wide equality instead of the conjunction of
// element equalities. Same meaning; lets the solver's congruence closure see
// f(x) = f(y) directly. Returns nil when the shape does not apply.
func wideArrayEq(x, y *ArrayV) *Term {
	if len(x.E) < 2 || len(x.E) != len(y.E) {
		return nil
	}
	var cx, cy *Term
	for i := range x.E {
		a, okA := x.E[i].(*Term)
		b, okB := y.E[i].(*Term)
		if !okA || !okB || a.Sort.K != KBV || b.Sort != a.Sort {
			return nil
		}
		if i == 0 {
			cx, cy = a, b
		} else {
			cx, cy = Concat(cx, a), Concat(cy, b)
		}
	}
	if cx.Op == OpConcat && cy.Op == OpConcat {
		return nil
	}
	if cx.Sort != cy.Sort {
		return nil
	}
	return Eq(cx, cy)
}

// Refuted-branch memo (used by feasibleM): when pc-slice ∧ c was answered
// unsat, remember c together with the IDs of the slice. A later feasibility
// question for the same (hash-consed) c is answered "infeasible" without a
// solver call provided every remembered assertion is still part of the path
// condition (the path condition then implies the refuted conjunction; axiom
// instantiation only adds assumptions). Loops that re-test the same bits of an
// index (shachain countTrailingZeros) otherwise cost one query per iteration.
var refutedMemo = struct {
	ex   *Exec
	deps map[int][]int
}{}

func (ex *Exec) knownInfeasible(c *Term) bool {
	if refutedMemo.ex != ex || refutedMemo.deps == nil {
		return false
	}
	deps, ok := refutedMemo.deps[c.ID]
	if !ok {
		return false
	}
	have := make(map[int]bool, len(ex.pc))
	for _, t := range ex.pc {
		have[t.ID] = true
	}
	for _, d := range deps {
		if !have[d] {
			return false
		}
	}
	return true
}

func (ex *Exec) noteInfeasible(c *Term, sl []*Term) {
	if refutedMemo.ex != ex || refutedMemo.deps == nil {
		refutedMemo.ex = ex
		refutedMemo.deps = map[int][]int{}
	}
	ids := make([]int, len(sl))
	for i, t := range sl {
		ids[i] = t.ID
	}
	refutedMemo.deps[c.ID] = ids
}

// ---------------------------------------------------------------------------
// Known-bits constant folding (hooked into bin() in term.go).
//
// kb(t) computes, bottom-up and memoised by term ID, which bits of a
// bit-vector term have the same value for every assignment (LLVM
// computeKnownBits style, sound under-approximation: a bit is reported only
// when the rules below prove it). bin() asks kbFold before building a new
// term: if every bit of the result is known, the constant is returned
// instead. This turns bit tests such as ((h<<8 | 0x80) >> 3) & 1 into
// constants, so that loops testing the low bits of a partly concrete index
// (shachain.countTrailingZeros, deriveBitTransformations) need no solver
// call per iteration. VERIF_NO_KB=1 switches it off.
// ---------------------------------------------------------------------------

type kbits struct{ z, o *big.Int } // masks of bits known 0 / known 1

var (
	kbMemo    = map[int]kbits{}
	kbMu      sync.Mutex
	kbOff     = os.Getenv("VERIF_NO_KB") != ""
	kbNothing = kbits{new(big.Int), new(big.Int)}
)

func kbConst(v *big.Int, w int) kbits {
	return kbits{z: new(big.Int).AndNot(mask(w), v), o: new(big.Int).Set(v)}
}

func kb(t *Term) kbits {
	if t.Sort.K != KBV {
		return kbNothing
	}
	if t.Op == OpConst {
		return kbConst(t.Val, t.Sort.W)
	}
	kbMu.Lock()
	r, ok := kbMemo[t.ID]
	kbMu.Unlock()
	if ok {
		return r
	}
	r = kbCompute(t)
	kbMu.Lock()
	kbMemo[t.ID] = r
	kbMu.Unlock()
	return r
}

func kbCompute(t *Term) kbits {
	w := t.Sort.W
	switch t.Op {
	case OpBAnd, OpBOr, OpBXor, OpShl, OpLShr, OpAdd, OpSub:
		return kbOp(t.Op, t.Args[0], t.Args[1])
	case OpBNot:
		a := kb(t.Args[0])
		return kbits{z: a.o, o: a.z}
	case OpZExt:
		a := kb(t.Args[0])
		iw := t.Args[0].Sort.W
		hi := new(big.Int).AndNot(mask(w), mask(iw))
		return kbits{z: new(big.Int).Or(a.z, hi), o: a.o}
	case OpExtract:
		a := kb(t.Args[0])
		m := mask(w)
		z := new(big.Int).Rsh(a.z, uint(t.I1))
		o := new(big.Int).Rsh(a.o, uint(t.I1))
		return kbits{z: z.And(z, m), o: o.And(o, m)}
	case OpConcat:
		a, b := kb(t.Args[0]), kb(t.Args[1])
		lw := uint(t.Args[1].Sort.W)
		z := new(big.Int).Lsh(a.z, lw)
		o := new(big.Int).Lsh(a.o, lw)
		return kbits{z: z.Or(z, b.z), o: o.Or(o, b.o)}
	case OpIte:
		a, b := kb(t.Args[1]), kb(t.Args[2])
		return kbits{z: new(big.Int).And(a.z, b.z), o: new(big.Int).And(a.o, b.o)}
	}
	return kbNothing
}

// kbOp: known bits of (op a b) for two operands of the same width.
func kbOp(op Op, ta, tb *Term) kbits {
	w := ta.Sort.W
	m := mask(w)
	switch op {
	case OpBAnd:
		a, b := kb(ta), kb(tb)
		return kbits{z: new(big.Int).Or(a.z, b.z), o: new(big.Int).And(a.o, b.o)}
	case OpBOr:
		a, b := kb(ta), kb(tb)
		return kbits{z: new(big.Int).And(a.z, b.z), o: new(big.Int).Or(a.o, b.o)}
	case OpBXor:
		a, b := kb(ta), kb(tb)
		ka := new(big.Int).Or(a.z, a.o)
		kbb := new(big.Int).Or(b.z, b.o)
		k := ka.And(ka, kbb)
		v := new(big.Int).Xor(a.o, b.o)
		v.And(v, k)
		return kbits{z: new(big.Int).AndNot(k, v), o: v}
	case OpShl, OpLShr:
		if !tb.IsConst() {
			return kbNothing
		}
		if tb.Val.Cmp(big.NewInt(int64(w))) >= 0 {
			return kbConst(new(big.Int), w)
		}
		c := uint(tb.Val.Uint64())
		a := kb(ta)
		if op == OpShl {
			z := new(big.Int).Lsh(a.z, c)
			z.Or(z, mask(int(c)))
			z.And(z, m)
			o := new(big.Int).Lsh(a.o, c)
			o.And(o, m)
			return kbits{z: z, o: o}
		}
		z := new(big.Int).Rsh(a.z, c)
		z.Or(z, new(big.Int).AndNot(m, new(big.Int).Rsh(m, c)))
		return kbits{z: z, o: new(big.Int).Rsh(a.o, c)}
	case OpAdd, OpSub:
		a, b := kb(ta), kb(tb)
		carry := 0 // 0 / 1 known, -1 unknown
		if op == OpSub {
			// a - b = a + ^b + 1
			b = kbits{z: b.o, o: b.z}
			carry = 1
		}
		if a.z.Sign() == 0 && a.o.Sign() == 0 || b.z.Sign() == 0 && b.o.Sign() == 0 {
			return kbNothing
		}
		z, o := new(big.Int), new(big.Int)
		for i := 0; i < w; i++ {
			ai, bi := -1, -1
			if a.z.Bit(i) == 1 {
				ai = 0
			} else if a.o.Bit(i) == 1 {
				ai = 1
			}
			if b.z.Bit(i) == 1 {
				bi = 0
			} else if b.o.Bit(i) == 1 {
				bi = 1
			}
			if ai >= 0 && bi >= 0 && carry >= 0 {
				s := ai + bi + carry
				if s&1 == 1 {
					o.SetBit(o, i, 1)
				} else {
					z.SetBit(z, i, 1)
				}
				carry = s >> 1
				continue
			}
			// sum bit unknown; carry out is known only if two of the three
			// inputs are known and equal
			n0, n1 := 0, 0
			for _, x := range [3]int{ai, bi, carry} {
				if x == 0 {
					n0++
				} else if x == 1 {
					n1++
				}
			}
			switch {
			case n0 >= 2:
				carry = 0
			case n1 >= 2:
				carry = 1
			default:
				carry = -1
			}
		}
		return kbits{z: z, o: o}
	}
	return kbNothing
}

// kbFold returns the constant value of (op a b) if all its bits are known.
func kbFold(op Op, a, b *Term) *Term {
	if kbOff {
		return nil
	}
	switch op {
	case OpBAnd, OpBOr, OpBXor, OpShl, OpLShr, OpAdd, OpSub:
	default:
		return nil
	}
	r := kbOp(op, a, b)
	w := a.Sort.W
	if new(big.Int).Or(r.z, r.o).Cmp(mask(w)) != 0 {
		return nil
	}
	return BVBig(r.o, w)
}

// kbDistinct: the two bit-vector terms can never be equal because some bit is
// known to be 0 in one of them and known to be 1 in the other.
func kbDistinct(a, b *Term) bool {
	if kbOff || a.Sort.W > 64 {
		return false
	}
	ka := kb(a)
	if ka.z.Sign() == 0 && ka.o.Sign() == 0 {
		return false
	}
	k2 := kb(b)
	if k2.z.Sign() == 0 && k2.o.Sign() == 0 {
		return false
	}
	if new(big.Int).And(ka.z, k2.o).Sign() != 0 {
		return true
	}
	return new(big.Int).And(ka.o, k2.z).Sign() != 0
}
