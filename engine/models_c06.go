package main

// Models added for C06 (shachain store codec): encoding/binary.Write and
// encoding/binary.Read for fixed-size integers, including *named* integer
// types (shachain.index), which the real functions only handle through
// reflect. Semantics follow encoding/binary: Write produces the n bytes in the
// given order and hands them to w.Write in one call; Read does
// io.ReadFull(r, n bytes), returns its error unchanged, otherwise stores the
// decoded integer through the pointer. Any other data shape runs the real
// function body.

import (
	"go/types"
	"strings"

	"golang.org/x/tools/go/ssa"
)

func init() {
	models["encoding/binary.Write"] = modelBinaryWriteC06
	models["encoding/binary.Read"] = modelBinaryReadC06
}

func c06LittleEndian(order Value) (little bool, ok bool) {
	iv, isI := order.(*IfaceV)
	if !isI || iv.T == nil {
		return false, false
	}
	s := iv.T.String()
	switch {
	case strings.HasSuffix(s, "encoding/binary.bigEndian"):
		return false, true
	case strings.HasSuffix(s, "encoding/binary.littleEndian"):
		return true, true
	}
	return false, false
}

func modelBinaryWriteC06(ex *Exec, fn *ssa.Function, args []Value, caller *Frame) (Value, *goPanic) {
	real := func() (Value, *goPanic) { return ex.runFunction(fn, args, nil, caller, false) }
	w, okW := args[0].(*IfaceV)
	data, okD := args[2].(*IfaceV)
	little, okO := c06LittleEndian(args[1])
	if !okW || !okD || !okO || w.T == nil || data.T == nil {
		return real()
	}
	var val *Term
	if width, _, isInt := isInteger(data.T); isInt {
		t, isT := data.V.(*Term)
		if !isT || t.Sort.W != width {
			return real()
		}
		val = t
	} else if pt, isP := data.T.Underlying().(*types.Pointer); isP {
		width, _, isInt := isInteger(pt.Elem())
		p, isPV := data.V.(*PtrV)
		if !isInt || !isPV || p.Obj == nil {
			return real()
		}
		v, gp := ex.load(p, 0, caller)
		if gp != nil {
			return nil, gp
		}
		t, isT := v.(*Term)
		if !isT || t.Sort.W != width {
			return real()
		}
		val = t
	} else {
		return real()
	}
	n := val.Sort.W / 8
	buf := ex.makeSlice(types.Typ[types.Uint8], n, n)
	arr := &ArrayV{E: make([]Value, n)}
	for i := 0; i < n; i++ {
		be := Extract(8*(n-i)-1, 8*(n-i-1), val) // i-th byte, most significant first
		if little {
			arr.E[n-1-i] = be
		} else {
			arr.E[i] = be
		}
	}
	buf.Obj.V = arr
	m := ex.prog.LookupMethod(w.T, nil, "Write")
	if m == nil {
		panic(unsupported("binary.Write: no Write method on " + w.T.String()))
	}
	r, gp := ex.callFunction(m, []Value{w.V, buf}, nil, caller)
	if gp != nil {
		return nil, gp
	}
	return r.(*TupleV).E[1], nil
}

func modelBinaryReadC06(ex *Exec, fn *ssa.Function, args []Value, caller *Frame) (Value, *goPanic) {
	real := func() (Value, *goPanic) { return ex.runFunction(fn, args, nil, caller, false) }
	r, okR := args[0].(*IfaceV)
	data, okD := args[2].(*IfaceV)
	little, okO := c06LittleEndian(args[1])
	if !okR || !okD || !okO || r.T == nil || data.T == nil {
		return real()
	}
	pt, isP := data.T.Underlying().(*types.Pointer)
	if !isP {
		return real()
	}
	width, _, isInt := isInteger(pt.Elem())
	p, isPV := data.V.(*PtrV)
	if !isInt || !isPV || p.Obj == nil {
		return real()
	}
	ioPkg := ex.prog.ImportedPackage("io")
	if ioPkg == nil || ioPkg.Func("ReadFull") == nil {
		return real()
	}
	n := width / 8
	buf := ex.makeSlice(types.Typ[types.Uint8], n, n)
	res, gp := ex.callFunction(ioPkg.Func("ReadFull"), []Value{r, buf}, nil, caller)
	if gp != nil {
		return nil, gp
	}
	errV := res.(*TupleV).E[1]
	if ei, isI := errV.(*IfaceV); !isI || ei.T != nil {
		return errV, nil
	}
	bs := bytesOf(ex, buf)
	var val *Term
	for i := 0; i < n; i++ {
		b := bs[i]
		if little {
			b = bs[n-1-i]
		}
		if val == nil {
			val = b
		} else {
			val = Concat(val, b)
		}
	}
	if gp := ex.store(p, val, 0, caller); gp != nil {
		return nil, gp
	}
	return &IfaceV{}, nil
}

// wideArrayEq: == on two arrays of bit-vector elements where at least one side
// is the element-wise split of a single wider term (e.g. the 32 bytes of one
// hash application): build the one wide equality instead of the conjunction of
// element equalities. Same meaning; lets the solver's congruence closure see
// f(x) = f(y) directly. Returns nil when the shape does not apply.
func wideArrayEq(x, y *ArrayV) *Term {
	if len(x.E) < 2 || len(x.E) != len(y.E) {
		return nil
	}
	var cx, cy *Term
	for i := range x.E {
		a, okA := x.E[i].(*Term)
		b, okB := y.E[i].(*Term)
		if !okA || !okB || a.Sort.K != KBV || b.Sort != a.Sort {
			return nil
		}
		if i == 0 {
			cx, cy = a, b
		} else {
			cx, cy = Concat(cx, a), Concat(cy, b)
		}
	}
	if cx.Op == OpConcat && cy.Op == OpConcat {
		return nil
	}
	if cx.Sort != cy.Sort {
		return nil
	}
	return Eq(cx, cy)
}
