package main

// gosmt: bounded symbolic execution of Go (go/ssa) harness functions with an
// SMT solver deciding every obligation.
//
//   gosmt run -dir /repo -pkg ./htlcswitch -overlay ov.json -entry VerifX[,VerifY]
//             [-fix choice:name=3]... [-quick-ms 3000] [-hard-ms 20000]
//             [-max-paths N] [-timeout 600] [-concrete values.json] -out res.json
//   gosmt selftest

import (
	"encoding/json"
	"flag"
	"fmt"
	"math/big"
	"os"
	"runtime/debug"
	"sort"
	"strings"
	"syscall"
	"time"

	"golang.org/x/tools/go/packages"
	"golang.org/x/tools/go/ssa"
	"golang.org/x/tools/go/ssa/ssautil"
)

type multiFlag []string

func (m *multiFlag) String() string     { return strings.Join(*m, ",") }
func (m *multiFlag) Set(s string) error { *m = append(*m, s); return nil }

type EntryResult struct {
	Entry        string          `json:"entry"`
	Fixed        map[string]int  `json:"fixed,omitempty"`
	Paths        int             `json:"paths"`
	EndKinds     map[string]int  `json:"end_kinds"`
	Obligations  int             `json:"obligations"`
	Discharged   int             `json:"discharged"`
	Trivial      int             `json:"trivial"`
	Decisions    int             `json:"decisions"`
	IfConverted  int             `json:"if_converted"`
	IfConvAbort  int             `json:"if_conv_aborted"`
	MergedCalls  int             `json:"merged_calls"`
	Violations   []*Violation    `json:"violations"`
	Inconclusive []*Inconclusive `json:"inconclusive"`
	Witnesses    []*Witness      `json:"witnesses"`
	ReachLabels  []string        `json:"reach_labels"`
	AssertSites  map[string]int  `json:"assert_sites"`
	Functions    map[string]int  `json:"functions"`
	Stubs        map[string]int  `json:"stubs"`
	Models       map[string]int  `json:"models"`
	Axioms       map[string]int  `json:"axioms"`
	Assumptions  []string        `json:"assumptions"`
	Unwind       int             `json:"unwind"`
	Solver       SolverStats     `json:"solver"`
	SolverS      float64         `json:"solver_s"`
	WallS        float64         `json:"wall_s"`
	LoadS        float64         `json:"load_s"`
	Crashed      string          `json:"crashed,omitempty"`
	CrossChecked int             `json:"cross_checked"`
	CrossDisagr  int             `json:"cross_disagreements"`
}

type RunResult struct {
	Dir      string            `json:"dir"`
	Pkg      string            `json:"pkg"`
	Entries  []*EntryResult    `json:"entries"`
	Solvers  map[string]string `json:"solver_versions"`
	LoadS    float64           `json:"load_s"`
	GoFiles  int               `json:"go_files"`
	NumFuncs int               `json:"ssa_functions"`
}

func loadProgram(dir string, pkgs []string, overlayFile string, tests bool) (*ssa.Program, []*ssa.Package, error) {
	overlay := map[string][]byte{}
	if overlayFile != "" {
		raw, err := os.ReadFile(overlayFile)
		if err != nil {
			return nil, nil, err
		}
		var ov struct{ Replace map[string]string }
		if err := json.Unmarshal(raw, &ov); err != nil {
			return nil, nil, err
		}
		for virt, real := range ov.Replace {
			b, err := os.ReadFile(real)
			if err != nil {
				return nil, nil, err
			}
			overlay[virt] = b
		}
	}
	cfg := &packages.Config{
		Mode:    packages.LoadAllSyntax,
		Dir:     dir,
		Overlay: overlay,
		Tests:   tests,
		Env: append(os.Environ(), "GOFLAGS=-mod=mod", "GOPROXY=off", "GOTOOLCHAIN=local",
			"PATH=/root/go/pkg/mod/golang.org/toolchain@v0.0.1-go1.25.13.linux-amd64/bin:"+os.Getenv("PATH")),
	}
	initial, err := packages.Load(cfg, pkgs...)
	if err != nil {
		return nil, nil, err
	}
	nerr := 0
	packages.Visit(initial, nil, func(p *packages.Package) {
		for _, e := range p.Errors {
			if nerr < 20 {
				fmt.Fprintf(os.Stderr, "load error: %v\n", e)
			}
			nerr++
		}
	})
	if nerr > 0 {
		return nil, nil, fmt.Errorf("%d package load errors (harness does not compile against the current tree?)", nerr)
	}
	prog, spkgs := ssautil.AllPackages(initial, ssa.InstantiateGenerics)
	prog.Build()
	return prog, spkgs, nil
}

func main() {
	if len(os.Args) < 2 {
		fmt.Fprintln(os.Stderr, "usage: gosmt run|selftest ...")
		os.Exit(2)
	}
	debug.SetGCPercent(200)
	switch os.Args[1] {
	case "run":
		os.Exit(cmdRun(os.Args[2:]))
	default:
		fmt.Fprintln(os.Stderr, "unknown command", os.Args[1])
		os.Exit(2)
	}
}

func cmdRun(args []string) int {
	fs := flag.NewFlagSet("run", flag.ExitOnError)
	dir := fs.String("dir", "/repo", "module directory")
	pkg := fs.String("pkg", ".", "package pattern")
	overlay := fs.String("overlay", "", "overlay json")
	entries := fs.String("entry", "", "comma-separated harness entry functions")
	out := fs.String("out", "", "result json")
	quickMs := fs.Int("quick-ms", 3000, "first-attempt solver timeout")
	hardMs := fs.Int("hard-ms", 20000, "portfolio solver timeout")
	maxPaths := fs.Int("max-paths", 200000, "path budget per entry")
	timeout := fs.Int("timeout", 1200, "seconds per entry")
	concreteF := fs.String("concrete", "", "json file of concrete input values: run without solver")
	verbose := fs.Bool("v", false, "verbose")
	cross := fs.Bool("cross", false, "cross-check unsat answers with a second solver")
	dump := fs.String("dump", "", "directory for slow/unknown queries")
	noDivElim := fs.Bool("no-div-elim", false, "do not rewrite division by constants")
	var fixes multiFlag
	fs.Var(&fixes, "fix", "pin a vChoice: name=value")
	fs.Parse(args)
	ElimConstDiv = !*noDivElim

	release := acquireSlot()
	defer release()
	t0 := time.Now()
	prog, spkgs, err := loadProgram(*dir, []string{*pkg}, *overlay, false)
	if err != nil {
		fmt.Fprintln(os.Stderr, "LOAD-FAILED:", err)
		return 3
	}
	loadS := time.Since(t0).Seconds()
	var target *ssa.Package
	for _, p := range spkgs {
		if p != nil {
			target = p
		}
	}
	if target == nil {
		fmt.Fprintln(os.Stderr, "LOAD-FAILED: no package")
		return 3
	}
	res := &RunResult{Dir: *dir, Pkg: *pkg, Solvers: solverVersions(), LoadS: loadS}
	nf := 0
	for range ssautil.AllFunctions(prog) {
		nf++
	}
	res.NumFuncs = nf
	fixed := map[string]int{}
	for _, f := range fixes {
		kv := strings.SplitN(f, "=", 2)
		var v int
		fmt.Sscanf(kv[1], "%d", &v)
		fixed["choice:"+kv[0]] = v
	}
	var concrete map[string]*big.Int
	if *concreteF != "" {
		raw, err := os.ReadFile(*concreteF)
		if err != nil {
			fmt.Fprintln(os.Stderr, err)
			return 3
		}
		var m struct {
			Values map[string]string `json:"values"`
		}
		if err := json.Unmarshal(raw, &m); err != nil {
			fmt.Fprintln(os.Stderr, err)
			return 3
		}
		concrete = map[string]*big.Int{}
		for k, v := range m.Values {
			if strings.HasPrefix(v, "f:") {
				bi, _ := new(big.Int).SetString(v[2:], 10)
				concrete[k] = bi
				continue
			}
			bi, ok := new(big.Int).SetString(v, 10)
			if !ok {
				fmt.Fprintln(os.Stderr, "bad concrete value", k, v)
				return 3
			}
			concrete[k] = bi
		}
	}
	rc := 0
	for _, en := range strings.Split(*entries, ",") {
		fn := target.Func(en)
		if fn == nil {
			fmt.Fprintf(os.Stderr, "LOAD-FAILED: entry %s not found in %s\n", en, target.Pkg.Path())
			return 3
		}
		er := runEntry(prog, fn, en, fixed, concrete, *quickMs, *hardMs, *maxPaths, *timeout, *verbose, *cross, *dump)
		er.LoadS = loadS
		res.Entries = append(res.Entries, er)
		if len(er.Violations) > 0 {
			rc = 1
		} else if (len(er.Inconclusive) > 0 || er.Crashed != "") && rc == 0 {
			rc = 2
		}
		fmt.Printf("entry %s: paths=%d obligations=%d discharged=%d violations=%d inconclusive=%d queries=%d solver=%.1fs wall=%.1fs ends=%v\n",
			en, er.Paths, er.Obligations, er.Discharged, len(er.Violations), len(er.Inconclusive), er.Solver.Queries, er.SolverS, er.WallS, er.EndKinds)
		for _, v := range er.Violations {
			fmt.Printf("  violation: %s %q at %s\n", v.Kind, v.Msg, v.Site)
		}
		for _, v := range er.Inconclusive {
			fmt.Printf("  inconclusive: %s %q %s\n", v.Kind, v.Msg, v.Site)
		}
		if er.Crashed != "" {
			fmt.Printf("  crashed: %s\n", er.Crashed)
		}
	}
	if *out != "" {
		b, _ := json.MarshalIndent(res, "", " ")
		if err := os.WriteFile(*out, b, 0o644); err != nil {
			fmt.Fprintln(os.Stderr, err)
			return 3
		}
	}
	return rc
}

func runEntry(prog *ssa.Program, fn *ssa.Function, name string, fixed map[string]int, concrete map[string]*big.Int,
	quickMs, hardMs, maxPaths, timeout int, verbose, cross bool, dump string) (er *EntryResult) {
	solver := NewSolverSet(quickMs, hardMs)
	solver.CrossChk = cross
	solver.DumpDir = dump
	defer solver.Close()
	TT.vars = map[string]*Term{}
	ex := NewExec(prog, solver)
	ex.fixed = fixed
	ex.concrete = concrete
	ex.maxPaths = maxPaths
	ex.verbose = verbose
	ex.deadline = time.Now().Add(time.Duration(timeout) * time.Second)
	t0 := time.Now()
	er = &EntryResult{Entry: name, Fixed: fixed}
	func() {
		defer func() {
			if r := recover(); r != nil {
				er.Crashed = fmt.Sprintf("%v\n%s", r, debug.Stack())
			}
		}()
		ex.Explore(fn)
	}()
	er.Paths = ex.paths
	er.EndKinds = ex.endKinds
	er.Obligations = ex.obligations
	er.Discharged = ex.discharged
	er.Trivial = ex.trivial
	er.Decisions = ex.branchDec
	er.IfConverted = ex.ifconvOK
	er.IfConvAbort = ex.ifconvAbort
	er.MergedCalls = ex.mergedCalls
	er.Violations = ex.violations
	er.Inconclusive = ex.inconclusive
	for _, w := range ex.witnesses {
		er.Witnesses = append(er.Witnesses, w)
	}
	sort.Slice(er.Witnesses, func(i, j int) bool { return er.Witnesses[i].Label < er.Witnesses[j].Label })
	for l := range ex.reachLabels {
		er.ReachLabels = append(er.ReachLabels, l)
	}
	sort.Strings(er.ReachLabels)
	er.AssertSites = ex.assertSites
	er.Functions = ex.funcsEntered
	er.Stubs = ex.stubsUsed
	er.Models = ex.modelsUsed
	er.Axioms = ex.axiomsUsed
	for a := range ex.assumptions {
		er.Assumptions = append(er.Assumptions, a)
	}
	sort.Strings(er.Assumptions)
	er.Unwind = ex.unwind
	er.Solver = solver.Stats
	er.SolverS = solver.Stats.Time.Seconds()
	er.WallS = time.Since(t0).Seconds()
	er.CrossChecked = solver.CrossN
	er.CrossDisagr = solver.CrossDis
	if er.Witnesses == nil {
		er.Witnesses = []*Witness{}
	}
	if er.ReachLabels == nil {
		er.ReachLabels = []string{}
	}
	if er.Violations == nil {
		er.Violations = []*Violation{}
	}
	if er.Inconclusive == nil {
		er.Inconclusive = []*Inconclusive{}
	}
	return er
}

// acquireSlot limits the number of gosmt processes running at the same time
// on this machine (each one also races several solver processes).
func acquireSlot() func() {
	n := 14
	if v := os.Getenv("VERIF_SLOTS"); v != "" {
		fmt.Sscanf(v, "%d", &n)
	}
	if n <= 0 {
		return func() {}
	}
	dir := "/tmp/gosmt.slots"
	os.MkdirAll(dir, 0o777)
	for {
		for i := 0; i < n; i++ {
			f, err := os.OpenFile(fmt.Sprintf("%s/slot-%d", dir, i), os.O_CREATE|os.O_RDWR, 0o666)
			if err != nil {
				continue
			}
			if err := syscall.Flock(int(f.Fd()), syscall.LOCK_EX|syscall.LOCK_NB); err == nil {
				return func() { syscall.Flock(int(f.Fd()), syscall.LOCK_UN); f.Close() }
			}
			f.Close()
		}
		time.Sleep(2 * time.Second)
	}
}
