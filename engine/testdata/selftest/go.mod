module selftest

go 1.25.13
