package selftest

import (
	"bytes"
	"crypto/sha256"
	"encoding/binary"
	"errors"
	"fmt"
	"sort"
	"sync"
)

// ---- arithmetic ----

func OK_AddCommutes() {
	a, b := vU64("a"), vU64("b")
	vAssert(a+b == b+a, "add commutes")
}

func BAD_AddNoWrap() {
	a, b := vU64("a"), vU64("b")
	vAssert(a+b >= a, "no wrap")
}

func OK_SignedDiv() {
	a := vI32("a")
	vAssume(a != -2147483648)
	q := a / -1
	vAssert(q == -a, "div by -1")
	vAssert((-7)/2 == -3 && (-7)%2 == -1, "const trunc div")
	c, b := vI8("c"), vI8("b")
	vAssume(b != 0 && !(c == -128 && b == -1))
	vAssert((c/b)*b+(c%b) == c, "div/rem law")
	d := vI64("d")
	vAssert(d/1000000*1000000+d%1000000 == d, "div/rem law, constant divisor (division elimination)")
	e := vU64("e")
	vAssert(e/1000*1000+e%1000 == e && e%1000 < 1000, "unsigned constant divisor")
}

func BAD_DivZero() {
	a, b := vU32("a"), vU32("b")
	_ = a / b
}

func OK_Shifts() {
	x := vU32("x")
	s := vU8("s")
	vAssume(s >= 32)
	vAssert(x<<s == 0, "oversized shift is zero")
	vAssert(x>>s == 0, "oversized shift is zero")
	y := vI32("y")
	vAssume(y < 0)
	vAssert(y>>s == -1, "arithmetic shift saturates")
	var k uint64 = 40
	vAssert(x<<k == 0, "wide count")
	z := vU64("z")
	vAssert((z<<8)>>8 == z&0x00ffffffffffffff, "shl/shr")
}

func OK_Conversions() {
	a := vI8("a")
	vAssert(int64(a) == int64(int32(a)), "sext")
	b := vU8("b")
	vAssert(uint64(b) < 256, "zext")
	c := vU64("c")
	vAssert(uint8(c) == uint8(c&0xff), "trunc")
	d := vI32("d")
	vAssume(d < 0)
	vAssert(uint32(d) >= 1<<31, "reinterpret")
	vAssert(uint64(d) >= 1<<63, "sext then reinterpret")
}

func BAD_OverflowCheck() {
	vOverflow("selftest.mulAdd")
	_ = mulAdd(vU64("a"), vU64("b"))
}

func OK_OverflowCheck() {
	vOverflow("selftest.mulAdd")
	a, b := vU64("a"), vU64("b")
	vAssume(a < 1<<31 && b < 1<<31)
	_ = mulAdd(a, b)
}

func mulAdd(a, b uint64) uint64 { return a*b + a }

// ---- control flow, merging ----

func clamp(x, lo, hi uint32) uint32 {
	if x < lo {
		return lo
	}
	if x > hi {
		return hi
	}
	return x
}

func OK_Clamp() {
	x, lo, hi := vU32("x"), vU32("lo"), vU32("hi")
	vAssume(lo <= hi)
	r := clamp(x, lo, hi)
	vAssert(r >= lo && r <= hi, "clamped")
	vAssert((x >= lo && x <= hi) == (r == x) || lo == hi || r == x, "identity inside")
}

func BAD_Clamp() {
	x, lo, hi := vU32("x"), vU32("lo"), vU32("hi")
	r := clamp(x, lo, hi)
	vAssert(r >= lo && r <= hi, "clamped without lo<=hi")
}

func OK_Loop() {
	n := vU8("n")
	vAssume(n <= 10)
	s := 0
	for i := 0; i < int(n); i++ {
		s += i
	}
	vAssert(s == int(n)*(int(n)-1)/2, "gauss")
}

func BAD_LoopAssert() {
	n := vU8("n")
	vAssume(n <= 10)
	s := 0
	for i := 0; i < int(n); i++ {
		s += 2
	}
	vAssert(s != 14, "never 14")
}

func OK_ShortCircuit() {
	a, b, c := vU16("a"), vU16("b"), vU16("c")
	x := a < b && b < c
	y := a < b || b < c
	if x {
		vAssert(a < c, "transitive")
	}
	vAssert(!x || y, "and implies or")
}

// ---- structs, pointers, slices, arrays ----

type pt struct {
	X, Y uint32
	Tag  [4]byte
}

func (p *pt) swap() { p.X, p.Y = p.Y, p.X }
func (p pt) sum() uint64 { return uint64(p.X) + uint64(p.Y) }

func OK_Structs() {
	p := &pt{X: vU32("x"), Y: vU32("y")}
	q := *p
	p.swap()
	vAssert(p.X == q.Y && p.Y == q.X, "swap")
	vAssert(p.sum() == q.sum(), "sum invariant")
	p.Tag[2] = 7
	vAssert(q.Tag[2] == 0 && p.Tag[2] == 7, "value copy")
	vAssert(*p != q || q.X == q.Y, "struct compare")
}

func OK_Slices() {
	b := vBytes("b", 4)
	c := make([]byte, 2, 8)
	c = append(c, b...)
	vAssert(len(c) == 6 && c[2] == b[0] && c[5] == b[3], "append")
	d := c[1:3]
	d[1] = 9
	vAssert(c[2] == 9, "alias")
	e := append([]byte(nil), c...)
	e[0] = 1
	vAssert(c[0] == 0, "no alias after copy")
	n := copy(c, b[1:])
	vAssert(n == 3 && c[0] == b[1], "copy")
	var arr [4]byte
	copy(arr[:], b)
	vAssert(arr == [4]byte{b[0], b[1], b[2], b[3]}, "array from slice")
}

func BAD_Bounds() {
	b := vBytes("b", 4)
	i := vU8("i")
	vAssume(i <= 4)
	_ = b[i]
}

func OK_SymbolicIndex() {
	b := vBytes("b", 4)
	i := vU8("i")
	vAssume(i < 4)
	v := b[i]
	vAssert(v == b[0] || v == b[1] || v == b[2] || v == b[3], "one of")
}

func OK_Binary() {
	v := vU64("v")
	var buf [8]byte
	binary.BigEndian.PutUint64(buf[:], v)
	vAssert(binary.BigEndian.Uint64(buf[:]) == v, "roundtrip")
	vAssert(buf[0] == byte(v>>56), "msb first")
	w := vU16("w")
	binary.LittleEndian.PutUint16(buf[2:], w)
	vAssert(binary.LittleEndian.Uint16(buf[2:4]) == w, "le16")
}

func OK_BytesBuffer() {
	var bb bytes.Buffer
	b := vBytes("b", 3)
	bb.Write(b)
	bb.WriteByte(0x42)
	out := bb.Bytes()
	vAssert(len(out) == 4 && out[3] == 0x42 && out[1] == b[1], "buffer")
	r := bytes.NewReader(out)
	var two [2]byte
	n, err := r.Read(two[:])
	vAssert(n == 2 && err == nil && two[1] == b[1], "reader")
	vAssert(bytes.Equal(out[:3], b), "equal")
}

// ---- maps ----

func OK_Maps() {
	m := map[uint64]uint32{}
	k1, k2 := vU64("k1"), vU64("k2")
	m[k1] = 1
	m[k2] = 2
	if k1 == k2 {
		vAssert(len(m) == 1 && m[k1] == 2, "overwrite")
	} else {
		vAssert(len(m) == 2 && m[k1] == 1, "distinct")
	}
	_, ok := m[vU64("k3")]
	_ = ok
	delete(m, k1)
	_, ok1 := m[k1]
	vAssert(!ok1, "deleted")
	cnt := 0
	for range m {
		cnt++
	}
	vAssert(cnt == len(m), "range count")
}

func BAD_Maps() {
	m := map[uint64]bool{}
	k1, k2 := vU64("k1"), vU64("k2")
	m[k1] = true
	vAssert(!m[k2], "k2 never present")
}

// ---- interfaces, closures, defers, panics, errors ----

type shape interface{ area() uint64 }
type sq struct{ s uint32 }
type rc struct{ w, h uint32 }

func (s sq) area() uint64  { return uint64(s.s) * uint64(s.s) }
func (r *rc) area() uint64 { return uint64(r.w) * uint64(r.h) }

func OK_Interfaces() {
	var sh shape = sq{vU32("s")}
	a := sh.area()
	if r, ok := sh.(*rc); ok {
		_ = r
		vAssert(false, "wrong type")
	}
	sh = &rc{vU32("w"), 2}
	switch x := sh.(type) {
	case sq:
		vAssert(false, "not sq")
	case *rc:
		vAssert(x.area() == 2*uint64(x.w), "rc area")
	}
	_ = a
	var e error
	vAssert(e == nil, "nil iface")
}

func OK_Closures() {
	x := vU32("x")
	acc := uint32(0)
	add := func(d uint32) { acc += d }
	add(x)
	add(1)
	vAssert(acc == x+1, "closure capture")
	fs := []func() uint32{}
	for i := uint32(0); i < 3; i++ {
		fs = append(fs, func() uint32 { return i })
	}
	vAssert(fs[0]() == 0 && fs[2]() == 2, "per-iteration capture")
}

var errSentinel = errors.New("sentinel")

type myErr struct{ code uint16 }

func (m *myErr) Error() string { return "myerr" }

func mayFail(x uint32) (r uint32, err error) {
	defer func() {
		if rec := recover(); rec != nil {
			err = errSentinel
		}
	}()
	if x == 7 {
		panic("seven")
	}
	if x == 8 {
		return 0, &myErr{code: 8}
	}
	if x == 9 {
		return 0, fmt.Errorf("wrapped: %w", errSentinel)
	}
	return x + 1, nil
}

func OK_DeferRecoverErrors() {
	x := vU32("x")
	r, err := mayFail(x)
	switch {
	case x == 7:
		vAssert(err == errSentinel, "recovered")
	case x == 8:
		var me *myErr
		vAssert(errors.As(err, &me) && me.code == 8, "errors.As")
		vAssert(!errors.Is(err, errSentinel), "not sentinel")
	case x == 9:
		vAssert(errors.Is(err, errSentinel), "errors.Is through %w")
		vAssert(err != errSentinel, "wrapped is distinct")
	default:
		vAssert(err == nil && r == x+1, "normal")
	}
}

func BAD_Panic() {
	x := vU32("x")
	if x == 0xdeadbeef {
		panic("boom")
	}
}

func BAD_NilDeref() {
	var p *pt
	if vBool("b") {
		p = &pt{}
	}
	_ = p.X
}

func deferOrder() (s []int) {
	for i := 0; i < 3; i++ {
		defer func() { s = append(s, i) }()
	}
	return nil
}

func OK_DeferOrder() {
	s := deferOrder()
	vAssert(len(s) == 3 && s[0] == 2 && s[2] == 0, "LIFO")
}

// ---- crypto models, UF ----

func OK_Sha() {
	b := vBytes("b", 4)
	h1 := sha256.Sum256(b)
	h2 := sha256.Sum256(append([]byte{}, b...))
	vAssert(h1 == h2, "deterministic")
	h := sha256.New()
	h.Write(b[:2])
	h.Write(b[2:])
	var h3 [32]byte
	copy(h3[:], h.Sum(nil))
	vAssert(h3 == h1, "streaming equals one-shot")
}

func BAD_ShaCollisionFree() {
	a, b := vBytes("a", 2), vBytes("b", 2)
	vAssume(a[0] != b[0])
	vAssert(sha256.Sum256(a) != sha256.Sum256(b), "needs injectivity")
}

func OK_ShaInjective() {
	vInjective("sha256")
	a, b := vBytes("a", 2), vBytes("b", 2)
	vAssume(a[0] != b[0])
	vAssert(sha256.Sum256(a) != sha256.Sum256(b), "holds with injectivity")
}

// ---- misc: sort, sync, choice, strings ----

type byVal []uint16

func (b byVal) Len() int           { return len(b) }
func (b byVal) Less(i, j int) bool { return b[i] < b[j] }
func (b byVal) Swap(i, j int)      { b[i], b[j] = b[j], b[i] }

func OK_Sort() {
	v := byVal{vU16("a"), vU16("b"), vU16("c")}
	sort.Sort(v)
	vAssert(v[0] <= v[1] && v[1] <= v[2], "sorted")
}

func OK_SyncAndChoice() {
	var mu sync.Mutex
	var once sync.Once
	n := 0
	for i := 0; i < 3; i++ {
		mu.Lock()
		once.Do(func() { n++ })
		mu.Unlock()
	}
	vAssert(n == 1, "once")
	k := vChoice("k", 3)
	arr := make([]uint8, k)
	vAssert(len(arr) == k && k < 3, "choice")
	s := "ab"
	s += "c"
	vAssert(len(s) == 3 && s[2] == 'c' && s == "abc", "strings")
}

func BAD_Choice() {
	k := vChoice("k", 4)
	vAssert(k != 3, "choice 3 reachable")
}

func OK_Chan() {
	ch := make(chan uint32, 2)
	ch <- vU32("a")
	ch <- 5
	x := <-ch
	y := <-ch
	vAssert(y == 5 && x == x, "fifo")
	select {
	case <-ch:
		vAssert(false, "empty")
	default:
	}
	close(ch)
	_, ok := <-ch
	vAssert(!ok, "closed")
}

func OK_Float() {
	a := vU32("a")
	f := float64(a) * 0.5
	vAssert(f >= 0 && f <= 2147483648.0, "range")
	vAssert(uint64(float64(a)) == uint64(a), "exact for 32-bit")
}

func BAD_Float() {
	a := vU64("a")
	vAssert(uint64(float64(a)) == a, "not exact for 64-bit")
}

func OK_Reach() {
	x := vU8("x")
	if x > 200 {
		vReach("big")
	} else {
		vReach("small")
	}
}

func OK_Generic() {
	a, b := vU32("a"), vU32("b")
	vAssert(gmax(a, b) >= a && gmax(a, b) >= b, "generic max")
	o := some(a)
	vAssert(o.isSome && o.val == a, "generic struct")
}

func gmax[T uint32 | uint64](a, b T) T {
	if a > b {
		return a
	}
	return b
}

type opt[T any] struct {
	isSome bool
	val    T
}

func some[T any](v T) opt[T] { return opt[T]{true, v} }

func isEven(x uint32) bool {
	if x%2 == 0 {
		return true
	}
	return false
}

func OK_MergedCall() {
	vMerge("selftest.isEven")
	n := 0
	for i := 0; i < 6; i++ {
		if isEven(vU32("x")) {
			n++
		}
	}
	vAssert(n <= 6, "count")
}

// product lemmas: range questions over symbolic*symbolic products
func OK_ProductRange() {
	vOverflow("selftest.feeLike")
	amt, rate := vU64("amt"), vI64("rate")
	vAssume(amt <= 2_100_000_000_000 && rate >= -10_000_000 && rate <= 10_000_000)
	f := feeLike(int64(amt), rate, vI32("base"))
	vAssert(f <= 21_100_000_000_000+2147483647 && f >= -21_100_000_000_000-2147483648, "fee range")
}

func BAD_ProductRange() {
	vOverflow("selftest.feeLike")
	amt, rate := vU64("amt"), vI64("rate")
	vAssume(amt <= 1<<62 && rate >= -10_000_000 && rate <= 10_000_000)
	_ = feeLike(int64(amt), rate, vI32("base"))
}

func feeLike(a, rate int64, base int32) int64 {
	fee := int64(base)
	fee += rate * (a / 1000000)
	fee += rate * (a % 1000000) / 1000000
	return fee
}
