// Code generated from /verif/prelude/prelude.go.tmpl. Harness intrinsics.
//
// Symbolically (gosmt) every function below is intercepted by name and its
// body is ignored. Natively (go test -overlay, replay of a solver model) the
// bodies read the recorded values from the JSON file named by VERIF_REPLAY.

package selftest

import (
	vsha "crypto/sha256"
	vjson "encoding/json"
	vfmt "fmt"
	vmath "math"
	vbig "math/big"
	vos "os"
)

type vReplayT struct {
	Values map[string]string `json:"values"`
	loaded bool
	counts map[string]int
	Failed []string
	Reached []string
	Observed []string
	Skipped bool
}

var vReplay vReplayT

func vLoad() {
	if vReplay.loaded {
		return
	}
	vReplay.loaded = true
	vReplay.counts = map[string]int{}
	if f := vos.Getenv("VERIF_REPLAY"); f != "" {
		raw, err := vos.ReadFile(f)
		if err != nil {
			panic(err)
		}
		if err := vjson.Unmarshal(raw, &vReplay); err != nil {
			panic(err)
		}
	}
	if vReplay.Values == nil {
		vReplay.Values = map[string]string{}
	}
}

// vReset is called by the generated replay test before each harness run.
func vReset() {
	vLoad()
	vReplay.counts = map[string]int{}
	vReplay.Failed = nil
	vReplay.Reached = nil
	vReplay.Observed = nil
	vReplay.Skipped = false
}

type vSkip struct{}

func vName(base string) string {
	vLoad()
	k := vReplay.counts[base]
	vReplay.counts[base] = k + 1
	if k == 0 {
		return base
	}
	return vfmt.Sprintf("%s#%d", base, k)
}

func vRaw(name string) *vbig.Int {
	n := vName(name)
	s, ok := vReplay.Values[n]
	if !ok {
		return new(vbig.Int)
	}
	if len(s) > 2 && s[:2] == "f:" {
		s = s[2:]
	}
	v, ok := new(vbig.Int).SetString(s, 10)
	if !ok {
		panic("bad replay value for " + n + ": " + s)
	}
	return v
}

func vBool(name string) bool  { return vRaw(name).Sign() != 0 }
func vU8(name string) uint8   { return uint8(vRaw(name).Uint64()) }
func vU16(name string) uint16 { return uint16(vRaw(name).Uint64()) }
func vU32(name string) uint32 { return uint32(vRaw(name).Uint64()) }
func vU64(name string) uint64 { return vRaw(name).Uint64() }
func vI8(name string) int8    { return int8(vRaw(name).Uint64()) }
func vI16(name string) int16  { return int16(vRaw(name).Uint64()) }
func vI32(name string) int32  { return int32(vRaw(name).Uint64()) }
func vI64(name string) int64  { return int64(vRaw(name).Uint64()) }
func vInt(name string) int    { return int(vRaw(name).Uint64()) }
func vF64(name string) float64 {
	return vmath.Float64frombits(vRaw(name).Uint64())
}

func vBytes(name string, n int) []byte {
	b := make([]byte, n)
	for i := range b {
		b[i] = byte(vRaw(vfmt.Sprintf("%s[%d]", name, i)).Uint64())
	}
	return b
}

// vChoice is a concrete case split: the engine explores every value in [0,n).
func vChoice(name string, n int) int {
	v := int(vRaw("choice:" + name).Int64())
	if v < 0 || v >= n {
		panic("replay: choice out of range for " + name)
	}
	return v
}

func vAssume(c bool) {
	if !c {
		vReplay.Skipped = true
		panic(vSkip{})
	}
}

func vAssert(c bool, msg string) {
	if !c {
		vReplay.Failed = append(vReplay.Failed, "assert: "+msg)
	}
}

func vLemma(c bool, msg string) {
	if !c {
		vReplay.Failed = append(vReplay.Failed, "lemma: "+msg)
	}
}

func vReach(label string) { vReplay.Reached = append(vReplay.Reached, label) }

func vObserve(name string, v interface{}) {
	vReplay.Observed = append(vReplay.Observed, vfmt.Sprintf("%s=%v", name, v))
}

// Configuration intrinsics: meaningful only to the symbolic engine.
func vStub(fn string)       {}
func vNoop(fn string)       {}
func vOverflow(fn string)   {}
func vMerge(fn string)      {}
func vGoInline(fn string)   {}
func vInjective(uf string)  {}
func vUnwind(n int)         {}
func vAssumption(s string)  {}
func vReplace(fn, by string) {}

// vNative is false under the symbolic engine and true in native replay: it
// guards oracles that only the native run can evaluate (math/big).
func vNative() bool { return true }

// vHash is an ideal hash: an uninterpreted function symbolically, SHA-256
// (domain-separated by name and length-prefixed parts, truncated/extended to
// out bytes) natively.
func vHash(name string, out int, parts ...[]byte) []byte {
	h := vsha.New()
	h.Write([]byte(name))
	for _, p := range parts {
		h.Write([]byte{byte(len(p) >> 8), byte(len(p))})
		h.Write(p)
	}
	sum := h.Sum(nil)
	res := make([]byte, out)
	for i := range res {
		res[i] = sum[i%32] ^ byte(i/32)
	}
	return res
}

// vRun executes one harness entry natively and reports what happened.
func vRun(entry func()) (failed []string, reached []string, observed []string, skipped bool, panicked interface{}) {
	vReset()
	func() {
		defer func() {
			if r := recover(); r != nil {
				if _, ok := r.(vSkip); ok {
					return
				}
				panicked = r
			}
		}()
		entry()
	}()
	return vReplay.Failed, vReplay.Reached, vReplay.Observed, vReplay.Skipped, panicked
}
