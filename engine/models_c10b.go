package main

// Models added for property C10, second batch (gossip messages).
//
// fmt.Errorf with more than one %w verb: the stock model (modelErrorf) keeps
// only the first wrapped operand, so errors.Is(err, x) is false for the later
// ones (lnwire.ChannelUpdate1.Decode returns
// fmt.Errorf("%w: %w", ErrParsingExtraTLVBytes, err)). Like the standard
// library this model returns a *fmt.wrapErrors holding every operand of a %w
// verb in order; the real errors.is walks its Unwrap() []error. One %w or none:
// the stock model.

import (
	"go/types"
	"strings"

	"golang.org/x/tools/go/ssa"
)

// wVerbArgs returns the argument indexes consumed by %w verbs of a format
// (plain verbs only: no explicit argument indexes, no '*' widths).
func wVerbArgs(format string) []int {
	var out []int
	arg := 0
	for i := 0; i < len(format); i++ {
		if format[i] != '%' {
			continue
		}
		i++
		for i < len(format) && strings.IndexByte("+-# 0123456789.", format[i]) >= 0 {
			i++
		}
		if i >= len(format) {
			break
		}
		if format[i] == '%' {
			continue
		}
		if format[i] == 'w' {
			out = append(out, arg)
		}
		arg++
	}
	return out
}

func modelErrorfMulti(ex *Exec, fn *ssa.Function, args []Value, caller *Frame) (Value, *goPanic) {
	s, ok := args[0].(*StringV)
	if !ok || !s.Concrete() {
		return modelErrorf(ex, fn, args, caller)
	}
	format := s.GoString()
	idx := wVerbArgs(format)
	fmtPkg := ex.prog.ImportedPackage("fmt")
	if len(idx) < 2 || fmtPkg == nil || fmtPkg.Type("wrapErrors") == nil {
		return modelErrorf(ex, fn, args, caller)
	}
	operands := ex.sliceElems(args[1].(*SliceV))
	errT := types.Universe.Lookup("error").Type()
	errIface := errT.Underlying().(*types.Interface)
	var errs []Value
	for _, k := range idx {
		if k >= len(operands) {
			return modelErrorf(ex, fn, args, caller)
		}
		iv, ok := operands[k].(*IfaceV)
		if !ok || iv.T == nil || !types.Implements(iv.T, errIface) {
			continue // like fmt: a %w operand that is not an error is not wrapped
		}
		errs = append(errs, iv)
	}
	if len(errs) < 2 {
		return modelErrorf(ex, fn, args, caller)
	}
	sl := ex.makeSlice(errT, len(errs), len(errs))
	for i, e := range errs {
		ex.sliceSet(sl, i, e)
	}
	wt := fmtPkg.Type("wrapErrors").Type()
	o := ex.newObject(wt, &StructV{F: []Value{&StringV{S: "fmt.Errorf(" + format + ")"}, sl}}, "wrapErrors")
	return &IfaceV{T: types.NewPointer(wt), V: &PtrV{Obj: o}}, nil
}

func init() {
	models["fmt.Errorf"] = modelErrorfMulti
}
