package main

// Product abstraction (added for C19, routing fee arithmetic).
//
// Queries over chained fee computations  amt*rate/1e6, rate*(amt/1e6), ...
// contain several 64- and 128-bit symbolic*symbolic multipliers; bit-blasting
// them costs seconds to minutes per query although almost every obligation
// ("this sum does not overflow", "this branch is infeasible") only needs the
// *range* of each product. Before the real query is sent, tryAbstract asks a
// weaker one: every symbolic*symbolic product t is replaced by a fresh
// variable v_t that is only known to lie in the range the exact product has
// for the operand intervals derived from the query's own top-level bounds
// (intervals.go); each such range fact is verified by the solver on fresh
// variables (verifyProduct, cached). A 2w-bit product of extended operands is
// tied to the w-bit product of the same operands when the exact range fits in
// w bits. The abstracted query has more models than the original one, hence
//   abstract unsat  =>  original unsat                      (used as verdict)
//   abstract sat    =>  nothing, unless the model restricted to the original
//                       variables satisfies the original conjuncts under
//                       concrete evaluation (then it is a real model).
// Anything else falls through to the unchanged solver path.

import (
	"fmt"
	"math/big"
	"os"
)

// ProductAbstraction is off by default so that other properties' runs are not
// affected; it is switched on for the routing package (C19) and by
// VERIF_ABSTRACT=1.
var ProductAbstraction = false

func init() {
	if os.Getenv("VERIF_ABSTRACT") == "1" {
		ProductAbstraction = true
	}
	for i, a := range os.Args {
		if a == "-pkg" && i+1 < len(os.Args) && os.Args[i+1] == "./routing" {
			ProductAbstraction = os.Getenv("VERIF_ABSTRACT") != "0"
		}
	}
}

var absTried, absUnsat, absSat int
var absDebug = os.Getenv("VERIF_ABSDEBUG") != ""

// absCheck is the hook called from (*SolverSet).Check after the cache lookups.
func (s *SolverSet) absCheck(live []*Term, key string, wantModel bool) (Result, map[string]*Term, bool) {
	r, m := s.tryAbstract(live, wantModel)
	if r == Unknown {
		return Unknown, nil, false
	}
	s.Stats.Queries++
	if r == Unsat {
		s.Stats.Unsat++
	} else {
		s.Stats.Sat++
	}
	s.Stats.BySolver["z3-abstract"]++
	s.cache[key] = r
	return r, m, true
}

type absProd struct {
	t *Term
	v *Term
}

func prodCorners(alo, ahi, blo, bhi *big.Int) (*big.Int, *big.Int) {
	ps := []*big.Int{new(big.Int).Mul(alo, blo), new(big.Int).Mul(alo, bhi),
		new(big.Int).Mul(ahi, blo), new(big.Int).Mul(ahi, bhi)}
	lo, hi := ps[0], ps[0]
	for _, p := range ps[1:] {
		lo, hi = minB(lo, p), maxB(hi, p)
	}
	return lo, hi
}

func fitsSigned(lo, hi *big.Int, w int) bool {
	f := fullIval(w)
	return lo.Cmp(f.slo) >= 0 && hi.Cmp(f.shi) <= 0
}

func fitsUnsigned(lo, hi *big.Int, w int) bool {
	return lo.Sign() >= 0 && hi.Cmp(mask(w)) <= 0
}

// tryAbstract returns (Unsat, nil) when the abstracted query is unsatisfiable,
// (Sat, model) when an abstract model is a verified model of the original
// query, and (Unknown, nil) otherwise.
func (s *SolverSet) tryAbstract(live []*Term, wantModel bool) (Result, map[string]*Term) {
	if !ProductAbstraction || s.inLemma {
		return Unknown, nil
	}
	// collect the products
	var prods []*Term
	seen := map[int]bool{}
	st := append([]*Term{}, live...)
	for len(st) > 0 {
		t := st[len(st)-1]
		st = st[:len(st)-1]
		if seen[t.ID] {
			continue
		}
		seen[t.ID] = true
		if t.Sort.K == KFP || t.Op == OpUF {
			return Unknown, nil
		}
		if t.Op == OpMul && !t.Args[0].IsConst() && !t.Args[1].IsConst() && t.Sort.W >= 16 {
			prods = append(prods, t)
		}
		st = append(st, t.Args...)
	}
	if len(prods) == 0 || len(prods) > 256 {
		return Unknown, nil
	}
	ctx := &ivalCtx{bounds: map[int]ival{}, memo: map[int]ival{}}
	for _, a := range live {
		ctx.collect(a, true)
	}
	fresh := map[int]*Term{}
	for _, t := range prods {
		fresh[t.ID] = Var(fmt.Sprintf("$ab%d", t.ID), t.Sort)
	}
	var side []*Term
	for _, t := range prods {
		W := t.Sort.W
		v := fresh[t.ID]
		a, b := ctx.of(t.Args[0]), ctx.of(t.Args[1])
		// width at which the range fact is verified: operands are w-bit
		// values (possibly extended to W = 2w bits)
		vw := W
		ext := OpConst // OpSExt / OpZExt when both operands are extensions from <= W/2 bits
		if W%2 == 0 && t.Args[0].Op == t.Args[1].Op && (t.Args[0].Op == OpSExt || t.Args[0].Op == OpZExt) &&
			t.Args[0].Args[0].Sort.W <= W/2 && t.Args[1].Args[0].Sort.W <= W/2 {
			vw = W / 2
			ext = t.Args[0].Op
		}
		if vw > 64 {
			continue // would need a > 128-bit multiplier to verify: leave v unconstrained
		}
		// signed reading
		if ext != OpZExt && fitsSigned(a.slo, a.shi, vw) && fitsSigned(b.slo, b.shi, vw) &&
			!(a.isFull(W) || b.isFull(W)) {
			lo, hi := prodCorners(a.slo, a.shi, b.slo, b.shi)
			if fitsSigned(lo, hi, W) && s.verifyProduct(vw, true, a.slo, a.shi, b.slo, b.shi, lo, hi) {
				side = append(side, SLe(BVBig(lo, W), v), SLe(v, BVBig(hi, W)))
				if ext == OpSExt && fitsSigned(lo, hi, vw) {
					n := Mul(SExt(t.Args[0].Args[0], vw), SExt(t.Args[1].Args[0], vw))
					if nv, ok := fresh[n.ID]; ok {
						side = append(side, Eq(v, SExt(nv, W)))
					}
				}
			}
		}
		// unsigned reading
		if ext != OpSExt && fitsUnsigned(a.ulo, a.uhi, vw) && fitsUnsigned(b.ulo, b.uhi, vw) &&
			!(a.isFull(W) || b.isFull(W)) {
			lo, hi := new(big.Int).Mul(a.ulo, b.ulo), new(big.Int).Mul(a.uhi, b.uhi)
			if fitsUnsigned(lo, hi, W) && s.verifyProduct(vw, false, a.ulo, a.uhi, b.ulo, b.uhi, lo, hi) {
				side = append(side, ULe(BVBig(lo, W), v), ULe(v, BVBig(hi, W)))
				if ext == OpZExt && fitsUnsigned(lo, hi, vw) {
					n := Mul(ZExt(t.Args[0].Args[0], vw), ZExt(t.Args[1].Args[0], vw))
					if nv, ok := fresh[n.ID]; ok {
						side = append(side, Eq(v, ZExt(nv, W)))
					}
				}
			}
		}
	}
	// rewrite
	memo := map[int]*Term{}
	var rw func(t *Term) *Term
	rw = func(t *Term) *Term {
		if t.IsConst() || t.Op == OpVar {
			return t
		}
		if r, ok := memo[t.ID]; ok {
			return r
		}
		var res *Term
		if v, ok := fresh[t.ID]; ok {
			res = v
		} else {
			args := make([]*Term, len(t.Args))
			changed := false
			for i, x := range t.Args {
				args[i] = rw(x)
				if args[i] != x {
					changed = true
				}
			}
			if changed {
				res = rebuild(t, args)
			} else {
				res = t
			}
		}
		memo[t.ID] = res
		return res
	}
	abs := make([]*Term, 0, len(live)+len(side))
	for _, a := range live {
		r := rw(a)
		if r.IsFalse() {
			return Unsat, nil
		}
		if !r.IsTrue() {
			abs = append(abs, r)
		}
	}
	abs = append(abs, side...)
	abs2 := elimDiv(abs)
	script, vars := Script(abs2)
	ms := s.QuickMs
	if ms < 5000 {
		ms = 5000
	}
	absTried++
	res, model := s.askZ3(script, vars, true, ms)
	if absDebug {
		fmt.Printf("ABS q: prods=%d side=%d -> %v\n", len(prods), len(side), res)
		if res != Unsat {
			fmt.Printf("ABS   goal: %s\n", live[len(live)-1].Pretty(5))
		}
		if res != Unsat && s.DumpDir != "" {
			os.WriteFile(fmt.Sprintf("%s/abs%d-%v.smt2", s.DumpDir, absTried, res), []byte(script+"(check-sat)\n"), 0o644)
		}
	}
	switch res {
	case Unsat:
		absUnsat++
		return Unsat, nil
	case Sat:
		if model == nil {
			return Unknown, nil
		}
		// is the abstract model a model of the original query?
		_, ovars := Script(live)
		m := map[string]*Term{}
		for _, v := range ovars {
			if val, ok := model[v.Name]; ok {
				m[v.Name] = val
			} else if v.Sort.K == KBool {
				m[v.Name] = tFalse
			} else {
				m[v.Name] = BV(0, v.Sort.W)
			}
		}
		if absHolds(live, m) {
			absSat++
			return Sat, m
		}
		// Second attempt: keep the abstract model's values for the
		// variables of the smaller operand of every product (typically
		// the fee rates), which makes every product linear, and solve
		// the original query for the remaining variables.
		fixVars := map[string]*Term{}
		for _, t := range prods {
			v0, v1 := termVars(t.Args[0]), termVars(t.Args[1])
			if len(v1) < len(v0) {
				v0 = v1
			}
			for _, v := range v0 {
				fixVars[v.Name] = v
			}
		}
		// candidate values for the fixed variables: the abstract model's,
		// all zero, all one, the largest value the top-level bounds allow
		for attempt := 0; attempt < 4; attempt++ {
			fix := map[string]*Term{}
			for name, v := range fixVars {
				if v.Sort.K != KBV {
					fix[name] = m[name]
					continue
				}
				switch attempt {
				case 0:
					fix[name] = m[name]
				case 1:
					fix[name] = BV(0, v.Sort.W)
				case 2:
					fix[name] = BV(1, v.Sort.W)
				case 3:
					iv := ctx.of(v)
					if iv.shi.Sign() >= 0 && iv.shi.Cmp(iv.uhi) <= 0 {
						fix[name] = BVBig(iv.shi, v.Sort.W)
					} else {
						fix[name] = BVBig(iv.uhi, v.Sort.W)
					}
				}
			}
			if mm, ok := s.absLinear(live, ovars, fix, m, ms); ok {
				absSat++
				return Sat, mm
			}
		}
	}
	return Unknown, nil
}

// absLinear substitutes the fixed values, solves the (now product-free) rest
// and validates the combined assignment on the original conjuncts.
func (s *SolverSet) absLinear(live []*Term, ovars []*Term, fix map[string]*Term, base map[string]*Term, ms int) (map[string]*Term, bool) {
	smemo := map[int]*Term{}
	var sub func(t *Term) *Term
	sub = func(t *Term) *Term {
		if t.IsConst() {
			return t
		}
		if t.Op == OpVar {
			if c, ok := fix[t.Name]; ok && c != nil {
				return c
			}
			return t
		}
		if r, ok := smemo[t.ID]; ok {
			return r
		}
		args := make([]*Term, len(t.Args))
		changed := false
		for i, x := range t.Args {
			args[i] = sub(x)
			if args[i] != x {
				changed = true
			}
		}
		res := t
		if changed {
			res = rebuild(t, args)
		}
		smemo[t.ID] = res
		return res
	}
	var lin []*Term
	for _, a := range live {
		r := sub(a)
		if r.IsFalse() {
			return nil, false
		}
		if !r.IsTrue() {
			lin = append(lin, r)
		}
	}
	m2 := map[string]*Term{}
	if len(lin) > 0 {
		lscript, lvars := Script(elimDiv(lin))
		r2, mm := s.askZ3(lscript, lvars, true, ms)
		if absDebug {
			fmt.Printf("ABS lin: fixed=%d -> %v\n", len(fix), r2)
		}
		if r2 != Sat || mm == nil {
			return nil, false
		}
		m2 = mm
	}
	out := map[string]*Term{}
	for _, v := range ovars {
		if c, ok := fix[v.Name]; ok && c != nil {
			out[v.Name] = c
		} else if val, ok := m2[v.Name]; ok {
			out[v.Name] = val
		} else if val, ok := base[v.Name]; ok {
			out[v.Name] = val
		}
	}
	if absHolds(live, out) {
		return out, true
	}
	return nil, false
}

func absHolds(live []*Term, m map[string]*Term) bool {
	ev := map[int]*Term{}
	for _, a := range live {
		if !Eval(a, m, ev).IsTrue() {
			return false
		}
	}
	return true
}

func termVars(t *Term) []*Term {
	var out []*Term
	seen := map[int]bool{}
	st := []*Term{t}
	for len(st) > 0 {
		x := st[len(st)-1]
		st = st[:len(st)-1]
		if seen[x.ID] {
			continue
		}
		seen[x.ID] = true
		if x.Op == OpVar {
			out = append(out, x)
		}
		st = append(st, x.Args...)
	}
	return out
}
