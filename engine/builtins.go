package main

import (
	"fmt"
	"go/token"
	"go/types"
	"math/big"
	"strings"

	"golang.org/x/tools/go/ssa"
)

type hres struct {
	val Value
	p   *goPanic
}

func isLoggerType(t types.Type) bool {
	n, ok := t.(*types.Named)
	if !ok {
		return false
	}
	if n.Obj().Pkg() == nil {
		return false
	}
	p := n.Obj().Pkg().Path()
	return n.Obj().Name() == "Logger" && strings.HasPrefix(p, "github.com/btcsuite/btclog")
}

func (ex *Exec) prepareCall(fr *Frame, c *ssa.CallCommon) (*FuncV, []Value) {
	args := make([]Value, len(c.Args))
	for i, a := range c.Args {
		args[i] = ex.eval(fr, a)
	}
	if c.IsInvoke() {
		recv := ex.eval(fr, c.Value)
		if isLoggerType(c.Value.Type()) {
			return &FuncV{Builtin: "$noop:" + fmt.Sprint(c.Signature().Results().Len())}, args
		}
		iv, ok := recv.(*IfaceV)
		if !ok {
			panic(unsupported(fmt.Sprintf("invoke on %T", recv)))
		}
		if iv.T == nil {
			return &FuncV{Builtin: "$nilinvoke"}, args
		}
		fn := ex.prog.LookupMethod(iv.T, c.Method.Pkg(), c.Method.Name())
		if fn == nil {
			panic(unsupported(fmt.Sprintf("method %s not found on %s", c.Method.Name(), iv.T)))
		}
		return &FuncV{Fn: fn, Recv: iv.V, HasRecv: true}, args
	}
	v := ex.eval(fr, c.Value)
	fv, ok := v.(*FuncV)
	if !ok {
		if _, isP := v.(*PoisonV); isP {
			panic(unsupported("call of poisoned function value"))
		}
		panic(fmt.Sprintf("internal: call of %T", v))
	}
	return fv, args
}

func (ex *Exec) doCall(fr *Frame, c *ssa.CallCommon, site ssa.Instruction) (Value, *goPanic) {
	fv, args := ex.prepareCall(fr, c)
	if strings.HasPrefix(fv.Builtin, "$noop") {
		return zeroOfTuple(c.Signature().Results()), nil
	}
	if fv.Builtin == "$nilinvoke" {
		return nil, ex.rtPanic("invoke of method "+c.Method.Name()+" on nil interface", site.Pos(), fr)
	}
	return ex.callValue(fr, fv, args, site)
}

func zeroOfTuple(res *types.Tuple) Value {
	switch res.Len() {
	case 0:
		return nil
	case 1:
		return zeroValue(res.At(0).Type())
	}
	return zeroValue(res)
}

// ---------- Go builtins ----------

func (ex *Exec) callBuiltin(fr *Frame, name string, args []Value, site ssa.Instruction) (Value, *goPanic) {
	pos := token.NoPos
	if site != nil {
		pos = site.Pos()
	}
	for _, a := range args {
		if pv, ok := a.(*PoisonV); ok {
			return pv, nil
		}
	}
	switch name {
	case "len":
		switch x := args[0].(type) {
		case *SliceV:
			return BVI(int64(x.Len), 64), nil
		case *StringV:
			return BVI(int64(x.Len()), 64), nil
		case *ArrayV:
			return BVI(int64(len(x.E)), 64), nil
		case *MapV:
			return BVI(int64(mapLen(x)), 64), nil
		case *ChanV:
			if x.C == nil {
				return BVI(0, 64), nil
			}
			return BVI(int64(len(x.C.Buf)), 64), nil
		case *PtrV: // *array
			if x.Obj == nil {
				return BVI(0, 64), nil
			}
			return BVI(int64(len(getPath(x.Obj.V, x.Path).(*ArrayV).E)), 64), nil
		}
	case "cap":
		switch x := args[0].(type) {
		case *SliceV:
			return BVI(int64(x.Cap), 64), nil
		case *ArrayV:
			return BVI(int64(len(x.E)), 64), nil
		case *ChanV:
			if x.C == nil {
				return BVI(0, 64), nil
			}
			return BVI(int64(x.C.Cap), 64), nil
		}
	case "append":
		s := args[0].(*SliceV)
		var add []Value
		switch y := args[1].(type) {
		case *SliceV:
			add = append(add, ex.sliceElems(y)...)
		case *StringV:
			for i := 0; i < y.Len(); i++ {
				add = append(add, y.Byte(i))
			}
		}
		if len(add) == 0 {
			return s, nil
		}
		if s.Obj != nil && s.Len+len(add) <= s.Cap {
			for i, v := range add {
				s.Obj.V = setPath(s.Obj.V, appendPath(s.Base, s.Off+s.Len+i), v)
			}
			return &SliceV{Obj: s.Obj, Base: s.Base, Off: s.Off, Len: s.Len + len(add), Cap: s.Cap}, nil
		}
		nl := s.Len + len(add)
		nc := 2 * s.Cap
		if nc < nl {
			nc = nl
		}
		var et types.Type
		if c, ok := site.(*ssa.Call); ok {
			et = c.Type().Underlying().(*types.Slice).Elem()
		} else if d, ok := site.(*ssa.Defer); ok {
			et = d.Call.Args[0].Type().Underlying().(*types.Slice).Elem()
		} else {
			panic(unsupported("append in unusual position"))
		}
		ns := ex.makeSlice(et, nl, nc)
		arr := ns.Obj.V.(*ArrayV)
		copy(arr.E, ex.sliceElems(s))
		copy(arr.E[s.Len:], add)
		return ns, nil
	case "copy":
		d := args[0].(*SliceV)
		var src []Value
		switch y := args[1].(type) {
		case *SliceV:
			src = append(src, ex.sliceElems(y)...) // copy first: handles overlap
		case *StringV:
			for i := 0; i < y.Len(); i++ {
				src = append(src, y.Byte(i))
			}
		}
		n := len(src)
		if d.Len < n {
			n = d.Len
		}
		if n > 0 {
			arr := getPath(d.Obj.V, d.Base).(*ArrayV)
			na := &ArrayV{E: make([]Value, len(arr.E))}
			copy(na.E, arr.E)
			copy(na.E[d.Off:d.Off+n], src[:n])
			d.Obj.V = setPath(d.Obj.V, d.Base, na)
		}
		return BVI(int64(n), 64), nil
	case "delete":
		ex.mapDelete(args[0].(*MapV), args[1])
		return nil, nil
	case "clear":
		switch x := args[0].(type) {
		case *MapV:
			if x.M != nil {
				for i := range x.M.Del {
					x.M.Del[i] = true
				}
			}
			return nil, nil
		case *SliceV:
			if x.Len > 0 {
				arr := getPath(x.Obj.V, x.Base).(*ArrayV)
				et := x.Obj.T
				_ = et
				for i := 0; i < x.Len; i++ {
					z := zeroLike(arr.E[x.Off+i])
					ex.sliceSet(x, i, z)
				}
			}
			return nil, nil
		}
	case "close":
		ch := args[0].(*ChanV)
		if ch.C == nil {
			return nil, ex.rtPanic("close of nil channel", pos, fr)
		}
		if ch.C.Closed {
			return nil, ex.rtPanic("close of closed channel", pos, fr)
		}
		ch.C.Closed = true
		return nil, nil
	case "panic":
		return nil, &goPanic{val: args[0], msg: "panic: " + panicText(args[0]), pos: pos, fn: ex.fnName(fr.fn)}
	case "recover":
		// valid only in a frame called directly as a deferred call while the
		// deferring frame is panicking
		if fr != nil && fr.deferCall && fr.caller != nil && fr.caller.panicking != nil {
			p := fr.caller.panicking
			fr.caller.panicking = nil
			if p.val == nil {
				return &IfaceV{T: types.Typ[types.String], V: &StringV{S: p.msg}}, nil
			}
			return p.val, nil
		}
		return &IfaceV{}, nil
	case "print", "println":
		return nil, nil
	case "min", "max":
		signed := false
		if c, ok := site.(*ssa.Call); ok {
			_, signed, _ = isInteger(c.Type())
			if isStringT(c.Type()) {
				panic(unsupported("min/max on strings"))
			}
		}
		r := args[0].(*Term)
		for _, a := range args[1:] {
			t := a.(*Term)
			var less *Term
			switch {
			case r.Sort.K == KFP:
				less = fpCmp(OpFPLt, t, r)
			case signed:
				less = SLt(t, r)
			default:
				less = ULt(t, r)
			}
			if name == "max" {
				less = Not(less)
				if r.Sort.K == KFP {
					less = fpCmp(OpFPLt, r, t)
				} else {
					// strictly greater
					if signed {
						less = SLt(r, t)
					} else {
						less = ULt(r, t)
					}
				}
			}
			r = Ite(less, t, r)
		}
		return r, nil
	case "ssa:wrapnilchk":
		if p, ok := args[0].(*PtrV); ok && p.Obj == nil {
			return nil, ex.rtPanic("value method called using nil pointer", pos, fr)
		}
		return args[0], nil
	}
	panic(unsupported(fmt.Sprintf("builtin %s on %T", name, args[0])))
}

func zeroLike(v Value) Value {
	switch x := v.(type) {
	case *Term:
		switch x.Sort.K {
		case KBool:
			return tFalse
		case KBV:
			return BV(0, x.Sort.W)
		default:
			return FPConst(0)
		}
	case *StructV:
		r := &StructV{F: make([]Value, len(x.F))}
		for i := range x.F {
			r.F[i] = zeroLike(x.F[i])
		}
		return r
	case *ArrayV:
		r := &ArrayV{E: make([]Value, len(x.E))}
		for i := range x.E {
			r.E[i] = zeroLike(x.E[i])
		}
		return r
	case *PtrV:
		return &PtrV{}
	case *SliceV:
		return &SliceV{}
	case *StringV:
		return &StringV{}
	case *MapV:
		return &MapV{}
	case *IfaceV:
		return &IfaceV{}
	case *FuncV:
		return &FuncV{}
	case *ChanV:
		return &ChanV{}
	}
	panic(unsupported(fmt.Sprintf("zeroLike %T", v)))
}

// ---------- nondeterministic inputs ----------

func (ex *Exec) freshName(base string) string {
	k := ex.ndCount[base]
	ex.ndCount[base] = k + 1
	if k == 0 {
		return base
	}
	return fmt.Sprintf("%s#%d", base, k)
}

func (ex *Exec) input(name string, s Sort) *Term {
	n := ex.freshName(name)
	if cv, ok := ex.concrete[n]; ok {
		switch s.K {
		case KBool:
			return Bool(cv.Sign() != 0)
		case KBV:
			return BVBig(cv, s.W)
		default:
			return TT.intern(&Term{Op: OpFPConst, Sort: SFP, Val: new(big.Int).Set(cv)})
		}
	}
	if ex.concrete != nil {
		// concrete mode: unspecified inputs are zero
		switch s.K {
		case KBool:
			return tFalse
		case KBV:
			return BV(0, s.W)
		default:
			return FPConst(0)
		}
	}
	v := Var(n, s)
	if !ex.inputSeen[n] {
		ex.inputSeen[n] = true
		ex.inputs = append(ex.inputs, v)
	}
	return v
}

// freshValue builds an arbitrary value of type t from fresh inputs.
func (ex *Exec) freshValue(t types.Type, name string) Value {
	switch u := t.Underlying().(type) {
	case *types.Basic:
		if u.Info()&types.IsBoolean != 0 {
			return ex.input(name, SBool)
		}
		if u.Info()&types.IsInteger != 0 {
			w, _ := intWidth(u)
			return ex.input(name, SBV(w))
		}
		if u.Info()&types.IsFloat != 0 {
			return ex.input(name, SFP)
		}
	case *types.Struct:
		s := &StructV{F: make([]Value, u.NumFields())}
		for i := range s.F {
			s.F[i] = ex.freshValue(u.Field(i).Type(), name+"."+u.Field(i).Name())
		}
		return s
	case *types.Array:
		a := &ArrayV{E: make([]Value, u.Len())}
		for i := range a.E {
			a.E[i] = ex.freshValue(u.Elem(), fmt.Sprintf("%s[%d]", name, i))
		}
		return a
	case *types.Interface:
		if types.Identical(t, types.Universe.Lookup("error").Type()) {
			isErr := ex.input(name+".iserr", SBool)
			if ex.branch(isErr) {
				return ex.stubError(name)
			}
			return &IfaceV{}
		}
	case *types.Tuple:
		tv := &TupleV{E: make([]Value, u.Len())}
		for i := range tv.E {
			tv.E[i] = ex.freshValue(u.At(i).Type(), fmt.Sprintf("%s.r%d", name, i))
		}
		return tv
	}
	panic(unsupported("fresh value of type " + t.String() + " for " + name))
}

var errorStringType types.Type

func (ex *Exec) stubError(text string) Value {
	// a value of type *errors.errorString
	if errorStringType == nil {
		pkg := ex.prog.ImportedPackage("errors")
		if pkg == nil {
			panic(unsupported("package errors not loaded"))
		}
		errorStringType = types.NewPointer(pkg.Type("errorString").Type())
	}
	o := ex.newObject(errorStringType.(*types.Pointer).Elem(), &StructV{F: []Value{&StringV{S: text}}}, "stub-error")
	return &IfaceV{T: errorStringType, V: &PtrV{Obj: o}}
}

func strArg(v Value) string {
	s, ok := v.(*StringV)
	if !ok || !s.Concrete() {
		panic(unsupported("intrinsic needs a constant string argument"))
	}
	return s.GoString()
}

func (ex *Exec) intArg(v Value) int {
	t := v.(*Term)
	if !t.IsConst() {
		panic(unsupported("intrinsic needs a constant int argument"))
	}
	return int(t.Signed().Int64())
}

var intrinsicSorts = map[string]Sort{
	"vBool": SBool, "vU8": SBV(8), "vU16": SBV(16), "vU32": SBV(32), "vU64": SBV(64),
	"vI8": SBV(8), "vI16": SBV(16), "vI32": SBV(32), "vI64": SBV(64), "vInt": SBV(64), "vF64": SFP,
}

func callerPos(caller *Frame) (token.Pos, string) {
	// position of the call instruction in the caller frame is not tracked
	// separately; use the function position as a fallback
	if caller == nil {
		return token.NoPos, ""
	}
	return caller.fn.Pos(), caller.fn.String()
}

// intrinsic handles the harness prelude functions. ok=false: not an intrinsic.
func (ex *Exec) intrinsic(fn *ssa.Function, args []Value, caller *Frame) (hres, bool) {
	n := fn.Name()
	if len(n) < 2 || n[0] != 'v' || n[1] < 'A' || n[1] > 'Z' || fn.Signature.Recv() != nil {
		return hres{}, false
	}
	if s, ok := intrinsicSorts[n]; ok {
		return hres{val: ex.input(strArg(args[0]), s)}, true
	}
	site := token.NoPos
	fnn := ""
	if caller != nil {
		site = ex.curCallPos(caller)
		fnn = ex.fnName(caller.fn)
	}
	switch n {
	case "vBytes":
		name := strArg(args[0])
		k := ex.intArg(args[1])
		s := ex.makeSlice(types.Typ[types.Uint8], k, k)
		arr := &ArrayV{E: make([]Value, k)}
		for i := range arr.E {
			arr.E[i] = ex.input(fmt.Sprintf("%s[%d]", name, i), SBV(8))
		}
		s.Obj.V = arr
		return hres{val: s}, true
	case "vChoice":
		name := ex.freshName("choice:" + strArg(args[0]))
		k := ex.intArg(args[1])
		if fx, ok := ex.fixed[name]; ok {
			// pinned by -fix (shard): still record it as an input so that
			// witnesses/counterexamples replay natively with the same value
			fv := Var(name, SBV(64))
			if !ex.inputSeen[name] {
				ex.inputSeen[name] = true
				ex.inputs = append(ex.inputs, fv)
			}
			if ex.pathModel != nil {
				ex.pathModel[name] = BVI(int64(fx), 64)
			}
			ex.pc = append(ex.pc, Eq(fv, BVI(int64(fx), 64)))
			return hres{val: BVI(int64(fx), 64)}, true
		}
		if cv, ok := ex.concrete[name]; ok {
			return hres{val: BVI(cv.Int64(), 64)}, true
		}
		// record as input so that replay knows the value
		c := ex.chooseFree("vChoice "+name, k)
		v := Var(name, SBV(64))
		if !ex.inputSeen[name] {
			ex.inputSeen[name] = true
			ex.inputs = append(ex.inputs, v)
		}
		if ex.pathModel != nil {
			ex.pathModel[name] = BVI(int64(c), 64)
		}
		ex.pc = append(ex.pc, Eq(v, BVI(int64(c), 64)))
		return hres{val: BVI(int64(c), 64)}, true
	case "vAssume":
		c := args[0].(*Term)
		if c.IsFalse() {
			ex.end("assume", "")
		}
		if !c.IsTrue() {
			ok, m := ex.feasibleM(c)
			if !ok {
				ex.end("assume", "")
			}
			ex.addPC(c, m)
		}
		return hres{}, true
	case "vAssert":
		ex.obligation(args[0].(*Term), "assert", strArg(args[1]), site, fnn)
		return hres{}, true
	case "vLemma":
		ex.obligation(args[0].(*Term), "lemma", strArg(args[1]), site, fnn)
		return hres{}, true
	case "vReach":
		label := strArg(args[0])
		ex.reachLabels[label] = true
		if _, ok := ex.witnesses[label]; !ok {
			r, m, _ := ex.solver.Check(ex.withAxioms(append([]*Term{}, ex.pc...)), true)
			if r == Sat {
				fm := ex.fullModel(m)
				ex.witnesses[label] = &Witness{Label: label, Model: modelStrings(fm), Observe: ex.observeMap(fm)}
			} else if r == Unsat {
				ex.end("infeasible", "reach label on infeasible path")
			}
		}
		return hres{}, true
	case "vObserve":
		name := strArg(args[0])
		ex.observes = append(ex.observes, observed{name, args[1]})
		return hres{}, true
	case "vStub":
		ex.stubs[strArg(args[0])] = true
		return hres{}, true
	case "vNoop":
		ex.noops[strArg(args[0])] = true
		return hres{}, true
	case "vOverflow":
		ex.ovf = append(ex.ovf, strArg(args[0]))
		return hres{}, true
	case "vReplace":
		ex.replace[strArg(args[0])] = strArg(args[1])
		return hres{}, true
	case "vNative":
		return hres{val: tFalse}, true
	case "vMerge":
		ex.merge[strArg(args[0])] = true
		return hres{}, true
	case "vGoInline":
		ex.goInline[strArg(args[0])] = true
		return hres{}, true
	case "vInjective":
		ex.injective[strArg(args[0])] = true
		ex.assumptions["UF "+strArg(args[0])+" is injective (collision-free), instantiated on the applications in each query"] = true
		return hres{}, true
	case "vUnwind":
		ex.unwind = ex.intArg(args[0])
		return hres{}, true
	case "vAssumption":
		ex.assumptions[strArg(args[0])] = true
		return hres{}, true
	case "vHash":
		// vHash(name string, out int, parts ...[]byte) []byte : ideal hash (UF)
		name := strArg(args[0])
		outN := ex.intArg(args[1])
		parts := args[2].(*SliceV)
		var bits *Term
		for _, pv := range ex.sliceElems(parts) {
			for _, b := range ex.sliceElems(pv.(*SliceV)) {
				if bits == nil {
					bits = b.(*Term)
				} else {
					bits = Concat(bits, b.(*Term))
				}
			}
		}
		if bits == nil {
			bits = BV(0, 8)
		}
		out := UF(name, SBV(8*outN), bits)
		ex.modelsUsed["UF:"+name]++
		res := ex.makeSlice(types.Typ[types.Uint8], outN, outN)
		arr := &ArrayV{E: make([]Value, outN)}
		for i := 0; i < outN; i++ {
			arr.E[i] = Extract(8*(outN-i)-1, 8*(outN-i-1), out)
		}
		res.Obj.V = arr
		return hres{val: res}, true
	}
	return hres{}, false
}

// curCallPos returns the source position of the call the frame is executing.
func (ex *Exec) curCallPos(fr *Frame) token.Pos {
	return fr.curPos
}

// ---------- interception: intrinsics, stubs, models ----------

func (ex *Exec) intercept(fn *ssa.Function, name string, args []Value, caller *Frame) (hres, bool) {
	if h, ok := ex.intrinsic(fn, args, caller); ok {
		return h, true
	}
	if rn, ok := ex.replace[name]; ok {
		rf := ex.lookupFunc(rn)
		if rf == nil {
			panic(unsupported("vReplace target not found: " + rn))
		}
		ex.stubsUsed["replace:"+name+" -> "+rn]++
		v, p := ex.runFunction(rf, args, nil, caller, false)
		return hres{v, p}, true
	}
	if ex.noops[name] {
		ex.stubsUsed["noop:"+name]++
		return hres{val: zeroOfTuple(fn.Signature.Results())}, true
	}
	if ex.stubs[name] {
		ex.stubsUsed["stub:"+name]++
		res := fn.Signature.Results()
		short := name
		if i := strings.LastIndex(short, "."); i >= 0 {
			short = short[i+1:]
		}
		switch res.Len() {
		case 0:
			return hres{}, true
		case 1:
			return hres{val: ex.freshValue(res.At(0).Type(), "stub:"+short)}, true
		}
		return hres{val: ex.freshValue(res, "stub:"+short)}, true
	}
	if m, ok := models[name]; ok {
		ex.modelsUsed[name]++
		v, p := m(ex, fn, args, caller)
		return hres{v, p}, true
	}
	if strings.HasPrefix(name, "sync/atomic.") || strings.HasPrefix(name, "(*sync/atomic.") {
		if v, p, ok := ex.atomicModel(fn, name, args, caller); ok {
			ex.modelsUsed["sync/atomic"]++
			return hres{v, p}, true
		}
	}
	return hres{}, false
}

type modelFn func(ex *Exec, fn *ssa.Function, args []Value, caller *Frame) (Value, *goPanic)

var models map[string]modelFn

func noopModel(ex *Exec, fn *ssa.Function, args []Value, caller *Frame) (Value, *goPanic) {
	return zeroOfTuple(fn.Signature.Results()), nil
}

func opaqueString(s string) modelFn {
	return func(ex *Exec, fn *ssa.Function, args []Value, caller *Frame) (Value, *goPanic) {
		return &StringV{S: s}, nil
	}
}

func bytesOf(ex *Exec, v Value) []*Term {
	s := v.(*SliceV)
	el := ex.sliceElems(s)
	r := make([]*Term, len(el))
	for i, e := range el {
		r[i] = e.(*Term)
	}
	return r
}

func concatBytes(bs []*Term) *Term {
	if len(bs) == 0 {
		return nil
	}
	r := bs[0]
	for _, b := range bs[1:] {
		r = Concat(r, b)
	}
	return r
}

func ufBytes(name string, outN int, in []*Term) *ArrayV {
	var out *Term
	if len(in) == 0 {
		out = UF(name+"0", SBV(8*outN))
	} else {
		out = UF(name, SBV(8*outN), concatBytes(in))
	}
	arr := &ArrayV{E: make([]Value, outN)}
	for i := 0; i < outN; i++ {
		arr.E[i] = Extract(8*(outN-i)-1, 8*(outN-i-1), out)
	}
	return arr
}

func init() {
	models = map[string]modelFn{
		"fmt.Sprintf":  opaqueString("<fmt.Sprintf>"),
		"fmt.Sprint":   opaqueString("<fmt.Sprint>"),
		"fmt.Sprintln": opaqueString("<fmt.Sprintln>"),
		"fmt.Println":  noopModel, "fmt.Printf": noopModel, "fmt.Print": noopModel,
		"fmt.Fprintf": noopModel, "fmt.Fprintln": noopModel, "fmt.Fprint": noopModel,
		"fmt.Errorf":         modelErrorf,
		"errors.Is":          modelErrorsIs,
		"errors.As":          modelErrorsAs,
		"(*sync.Mutex).Lock": noopModel, "(*sync.Mutex).Unlock": noopModel,
		"(*sync.Mutex).TryLock": func(ex *Exec, fn *ssa.Function, args []Value, caller *Frame) (Value, *goPanic) {
			return tTrue, nil
		},
		"(*sync.RWMutex).Lock": noopModel, "(*sync.RWMutex).Unlock": noopModel,
		"(*sync.RWMutex).RLock": noopModel, "(*sync.RWMutex).RUnlock": noopModel,
		"(*sync.WaitGroup).Add": noopModel, "(*sync.WaitGroup).Done": noopModel, "(*sync.WaitGroup).Wait": noopModel,
		"(*sync.Once).Do":   modelOnceDo,
		"(*sync.Pool).Get":  modelPoolGet,
		"(*sync.Pool).Put":  noopModel,
		"runtime.Gosched":   noopModel,
		"runtime.KeepAlive": noopModel, "runtime.SetFinalizer": noopModel,
		"time.Now":                              modelTimeNow,
		"time.Sleep":                            noopModel,
		"crypto/sha256.Sum256":                  modelSha256Sum,
		"crypto/internal/fips140/sha256.New":    modelSha256New,
		"(*crypto/internal/fips140/sha256.Digest).Write":     modelHashWrite,
		"(*crypto/internal/fips140/sha256.Digest).Sum":       modelHashSum,
		"(*crypto/internal/fips140/sha256.Digest).Reset":     modelHashReset,
		"(*crypto/internal/fips140/sha256.Digest).Size":      modelHashSize,
		"(*crypto/internal/fips140/sha256.Digest).BlockSize": modelHashBlockSize,
		"golang.org/x/crypto/ripemd160.New":                  modelRipemdNew,
		"(*golang.org/x/crypto/ripemd160.digest).Write":      modelHashWrite,
		"(*golang.org/x/crypto/ripemd160.digest).Sum":        modelHashSum,
		"(*golang.org/x/crypto/ripemd160.digest).Reset":      modelHashReset,
		"bytes.Compare":                                      modelBytesCompare,
		"internal/bytealg.Compare":                           modelBytesCompare,
		"bytes.Equal":                                        modelBytesEqual,
		"internal/bytealg.Equal":                             modelBytesEqual,
		"math.Float64frombits": func(ex *Exec, fn *ssa.Function, args []Value, caller *Frame) (Value, *goPanic) {
			return FPFromBits(args[0].(*Term)), nil
		},
		"math.Float64bits": func(ex *Exec, fn *ssa.Function, args []Value, caller *Frame) (Value, *goPanic) {
			t := args[0].(*Term)
			if t.Op == OpFPConst {
				return BVBig(t.Val, 64), nil
			}
			if t.Op == OpFPFromBits {
				return t.Args[0], nil
			}
			panic(unsupported("math.Float64bits of symbolic float"))
		},
		"os.Getenv": opaqueString(""),
	}
}

func modelErrorf(ex *Exec, fn *ssa.Function, args []Value, caller *Frame) (Value, *goPanic) {
	format := "<symbolic>"
	if s, ok := args[0].(*StringV); ok && s.Concrete() {
		format = s.GoString()
	}
	var wrapped Value
	if strings.Contains(format, "%w") {
		// the wrapped operand: first argument of error type
		for _, a := range ex.sliceElems(args[1].(*SliceV)) {
			iv, ok := a.(*IfaceV)
			if !ok || iv.T == nil {
				continue
			}
			if types.Implements(iv.T, types.Universe.Lookup("error").Type().Underlying().(*types.Interface)) {
				wrapped = iv
				break
			}
		}
	}
	fmtPkg := ex.prog.ImportedPackage("fmt")
	if wrapped != nil && fmtPkg != nil && fmtPkg.Type("wrapError") != nil {
		wt := fmtPkg.Type("wrapError").Type()
		o := ex.newObject(wt, &StructV{F: []Value{&StringV{S: "fmt.Errorf(" + format + ")"}, wrapped}}, "wrapError")
		return &IfaceV{T: types.NewPointer(wt), V: &PtrV{Obj: o}}, nil
	}
	return ex.stubError("fmt.Errorf(" + format + ")"), nil
}

func dynComparable(t types.Type) bool { return types.Comparable(t) }

func modelErrorsIs(ex *Exec, fn *ssa.Function, args []Value, caller *Frame) (Value, *goPanic) {
	err, target := args[0].(*IfaceV), args[1].(*IfaceV)
	if err.T == nil || target.T == nil {
		return Bool(err.T == nil && target.T == nil), nil
	}
	is := fn.Pkg.Func("is")
	if is == nil {
		panic(unsupported("errors.is not found"))
	}
	return ex.callFunction(is, []Value{err, target, Bool(dynComparable(target.T))}, nil, caller)
}

func modelErrorsAs(ex *Exec, fn *ssa.Function, args []Value, caller *Frame) (Value, *goPanic) {
	err := args[0].(*IfaceV)
	tgt := args[1].(*IfaceV)
	if tgt.T == nil {
		return nil, ex.rtPanic("errors: target cannot be nil", token.NoPos, caller)
	}
	pt, ok := tgt.T.Underlying().(*types.Pointer)
	if !ok {
		return nil, ex.rtPanic("errors: target must be a non-nil pointer", token.NoPos, caller)
	}
	tt := pt.Elem()
	errIface := types.Universe.Lookup("error").Type().Underlying().(*types.Interface)
	for depth := 0; depth < 32; depth++ {
		if err.T == nil {
			return tFalse, nil
		}
		match := false
		var val Value
		if types.IsInterface(tt) {
			if types.Implements(err.T, tt.Underlying().(*types.Interface)) {
				match, val = true, err
			}
		} else if types.Identical(err.T, tt) {
			match, val = true, err.V
		}
		if match {
			if p := ex.store(tgt.V.(*PtrV), val, token.NoPos, caller); p != nil {
				return nil, p
			}
			return tTrue, nil
		}
		// As method
		if m := ex.lookupMethodOrNil(err.T, nil, "As"); m != nil && m.Signature.Params().Len() == 1 {
			r, p := ex.callFunction(m, []Value{err.V, tgt}, nil, caller)
			if p != nil {
				return nil, p
			}
			if ex.branch(r.(*Term)) {
				return tTrue, nil
			}
		}
		um := ex.lookupMethodOrNil(err.T, nil, "Unwrap")
		if um == nil || um.Signature.Results().Len() != 1 {
			return tFalse, nil
		}
		if !types.Implements(um.Signature.Results().At(0).Type(), errIface) {
			panic(unsupported("errors.As through Unwrap() []error"))
		}
		r, p := ex.callFunction(um, []Value{err.V}, nil, caller)
		if p != nil {
			return nil, p
		}
		err = r.(*IfaceV)
	}
	panic(unsupported("errors.As: chain too long"))
}

func modelOnceDo(ex *Exec, fn *ssa.Function, args []Value, caller *Frame) (Value, *goPanic) {
	o := args[0].(*PtrV)
	key := o.Obj
	if len(o.Path) > 0 {
		// distinguish several Once fields inside one object
		key = ex.onceKey(o)
	}
	if ex.onceDone[key] {
		return nil, nil
	}
	ex.onceDone[key] = true
	return ex.callValue(caller, args[1].(*FuncV), nil, nil)
}

func (ex *Exec) onceKey(p *PtrV) *Object {
	k := fmt.Sprintf("once:%d:%v", p.Obj.ID, p.Path)
	if ex.onceKeys == nil {
		ex.onceKeys = map[string]*Object{}
	}
	if o, ok := ex.onceKeys[k]; ok {
		return o
	}
	o := &Object{ID: -1, Name: k}
	ex.onceKeys[k] = o
	return o
}

func modelPoolGet(ex *Exec, fn *ssa.Function, args []Value, caller *Frame) (Value, *goPanic) {
	p := args[0].(*PtrV)
	pool, gp := ex.load(p, token.NoPos, caller)
	if gp != nil {
		return nil, gp
	}
	st := fn.Signature.Recv().Type().(*types.Pointer).Elem().Underlying().(*types.Struct)
	for i := 0; i < st.NumFields(); i++ {
		if st.Field(i).Name() == "New" {
			nf := pool.(*StructV).F[i].(*FuncV)
			if isNilValue(nf) {
				return &IfaceV{}, nil
			}
			return ex.callValue(caller, nf, nil, nil)
		}
	}
	return &IfaceV{}, nil
}

func modelTimeNow(ex *Exec, fn *ssa.Function, args []Value, caller *Frame) (Value, *goPanic) {
	// time.Time{wall: 0, ext: seconds since year 1, loc: nil}; non-decreasing
	name := fmt.Sprintf("time.Now#%d", ex.nowCount)
	ex.nowCount++
	ext := ex.input(name, SBV(64))
	lo := BVI(63_000_000_000, 64) // ~ year 1997
	hi := BVI(70_000_000_000, 64) // ~ year 2219
	ex.addPC(And(SLe(lo, ext), SLe(ext, hi)), nil)
	if ex.lastNow != nil {
		ex.addPC(SLe(ex.lastNow, ext), nil)
	}
	ex.lastNow = ext
	ex.assumptions["time.Now returns arbitrary non-decreasing whole-second instants between 1997 and 2219"] = true
	return &StructV{F: []Value{BV(0, 64), ext, &PtrV{}}}, nil
}

func modelSha256Sum(ex *Exec, fn *ssa.Function, args []Value, caller *Frame) (Value, *goPanic) {
	return ufBytes("sha256", 32, bytesOf(ex, args[0])), nil
}

func modelSha256New(ex *Exec, fn *ssa.Function, args []Value, caller *Frame) (Value, *goPanic) {
	pt := fn.Signature.Results().At(0).Type().(*types.Pointer)
	o := ex.newObject(pt.Elem(), zeroValue(pt.Elem()), "sha256.Digest")
	ex.hashObjs[o] = &HashObj{Kind: "sha256"}
	return &PtrV{Obj: o}, nil
}

func modelRipemdNew(ex *Exec, fn *ssa.Function, args []Value, caller *Frame) (Value, *goPanic) {
	// returns hash.Hash holding *ripemd160.digest
	dt := fn.Pkg.Type("digest").Type()
	o := ex.newObject(dt, zeroValue(dt), "ripemd160.digest")
	ex.hashObjs[o] = &HashObj{Kind: "ripemd160"}
	return &IfaceV{T: types.NewPointer(dt), V: &PtrV{Obj: o}}, nil
}

func (ex *Exec) hashOf(v Value) *HashObj {
	p := v.(*PtrV)
	h, ok := ex.hashObjs[p.Obj]
	if !ok {
		panic(unsupported("hash object not created through a modelled constructor"))
	}
	return h
}

func modelHashWrite(ex *Exec, fn *ssa.Function, args []Value, caller *Frame) (Value, *goPanic) {
	h := ex.hashOf(args[0])
	bs := bytesOf(ex, args[1])
	h.Data = append(h.Data, bs...)
	return &TupleV{E: []Value{BVI(int64(len(bs)), 64), &IfaceV{}}}, nil
}

func modelHashSum(ex *Exec, fn *ssa.Function, args []Value, caller *Frame) (Value, *goPanic) {
	h := ex.hashOf(args[0])
	n := 32
	if h.Kind == "ripemd160" {
		n = 20
	}
	sum := ufBytes(h.Kind, n, h.Data)
	prefix := args[1].(*SliceV)
	res := ex.makeSlice(types.Typ[types.Uint8], prefix.Len+n, prefix.Len+n)
	arr := &ArrayV{E: make([]Value, prefix.Len+n)}
	copy(arr.E, ex.sliceElems(prefix))
	copy(arr.E[prefix.Len:], sum.E)
	res.Obj.V = arr
	return res, nil
}

func modelHashReset(ex *Exec, fn *ssa.Function, args []Value, caller *Frame) (Value, *goPanic) {
	ex.hashOf(args[0]).Data = nil
	return nil, nil
}

func modelHashSize(ex *Exec, fn *ssa.Function, args []Value, caller *Frame) (Value, *goPanic) {
	return BVI(32, 64), nil
}

func modelHashBlockSize(ex *Exec, fn *ssa.Function, args []Value, caller *Frame) (Value, *goPanic) {
	return BVI(64, 64), nil
}

func bytesLike(ex *Exec, v Value) []*Term {
	switch x := v.(type) {
	case *SliceV:
		return bytesOf(ex, x)
	case *StringV:
		r := make([]*Term, x.Len())
		for i := range r {
			r[i] = x.Byte(i)
		}
		return r
	}
	panic(unsupported(fmt.Sprintf("bytes of %T", v)))
}

func modelBytesCompare(ex *Exec, fn *ssa.Function, args []Value, caller *Frame) (Value, *goPanic) {
	a, b := bytesLike(ex, args[0]), bytesLike(ex, args[1])
	// lexicographic comparison as an ite chain from the end
	var r *Term
	switch {
	case len(a) < len(b):
		r = BVI(-1, 64)
	case len(a) > len(b):
		r = BVI(1, 64)
	default:
		r = BVI(0, 64)
	}
	n := len(a)
	if len(b) < n {
		n = len(b)
	}
	for i := n - 1; i >= 0; i-- {
		r = Ite(ULt(a[i], b[i]), BVI(-1, 64), Ite(ULt(b[i], a[i]), BVI(1, 64), r))
	}
	return r, nil
}

func modelBytesEqual(ex *Exec, fn *ssa.Function, args []Value, caller *Frame) (Value, *goPanic) {
	a, b := bytesLike(ex, args[0]), bytesLike(ex, args[1])
	if len(a) != len(b) {
		return tFalse, nil
	}
	r := tTrue
	for i := range a {
		r = And(r, Eq(a[i], b[i]))
	}
	return r, nil
}

// atomicModel treats sync/atomic operations as plain sequential memory
// operations (the engine is single-threaded).
func (ex *Exec) atomicModel(fn *ssa.Function, name string, args []Value, caller *Frame) (Value, *goPanic, bool) {
	short := fn.Name()
	if fn.Signature.Recv() != nil {
		// typed atomics: struct{ _ noCopy; v T } – the value field is the last field
		p := args[0].(*PtrV)
		if p.Obj == nil {
			return nil, ex.rtPanic("nil pointer dereference (atomic)", token.NoPos, caller), true
		}
		st, ok := fn.Signature.Recv().Type().(*types.Pointer).Elem().Underlying().(*types.Struct)
		if !ok {
			return nil, nil, false
		}
		fi := -1
		for i := 0; i < st.NumFields(); i++ {
			if st.Field(i).Name() == "v" {
				fi = i
			}
		}
		if fi < 0 {
			return nil, nil, false
		}
		fp := &PtrV{Obj: p.Obj, Path: appendPath(p.Path, fi)}
		cur, _ := ex.load(fp, token.NoPos, caller)
		isBool := st.Field(fi).Type().Underlying() == types.Typ[types.Uint32] && strings.Contains(name, "atomic.Bool)")
		switch short {
		case "Load":
			if isBool {
				return Ne(cur.(*Term), BV(0, 32)), nil, true
			}
			if pv, ok := cur.(*PtrV); ok && strings.Contains(name, "atomic.Pointer[") {
				return pv, nil, true
			}
			return cur, nil, true
		case "Store":
			v := args[1]
			if isBool {
				v = Ite(v.(*Term), BV(1, 32), BV(0, 32))
			}
			ex.store(fp, v, token.NoPos, caller)
			return nil, nil, true
		case "Add":
			nv := Add(cur.(*Term), args[1].(*Term))
			ex.store(fp, nv, token.NoPos, caller)
			return nv, nil, true
		case "Swap":
			v := args[1]
			old := cur
			if isBool {
				v = Ite(v.(*Term), BV(1, 32), BV(0, 32))
				old = Ne(cur.(*Term), BV(0, 32))
			}
			ex.store(fp, v, token.NoPos, caller)
			return old, nil, true
		case "CompareAndSwap":
			old, nv := args[1], args[2]
			if isBool {
				old = Ite(old.(*Term), BV(1, 32), BV(0, 32))
				nv = Ite(nv.(*Term), BV(1, 32), BV(0, 32))
			}
			eq := valueEq(cur, old)
			if ex.branch(eq) {
				ex.store(fp, nv, token.NoPos, caller)
				return tTrue, nil, true
			}
			return tFalse, nil, true
		}
		return nil, nil, false
	}
	// function forms: AddInt32(addr, delta) etc.
	if len(args) == 0 {
		return nil, nil, false
	}
	p, ok := args[0].(*PtrV)
	if !ok {
		return nil, nil, false
	}
	switch {
	case strings.HasPrefix(short, "Load"):
		v, gp := ex.load(p, token.NoPos, caller)
		return v, gp, true
	case strings.HasPrefix(short, "Store"):
		return nil, ex.store(p, args[1], token.NoPos, caller), true
	case strings.HasPrefix(short, "Add"):
		cur, gp := ex.load(p, token.NoPos, caller)
		if gp != nil {
			return nil, gp, true
		}
		nv := Add(cur.(*Term), args[1].(*Term))
		ex.store(p, nv, token.NoPos, caller)
		return nv, nil, true
	case strings.HasPrefix(short, "Swap"):
		cur, gp := ex.load(p, token.NoPos, caller)
		if gp != nil {
			return nil, gp, true
		}
		ex.store(p, args[1], token.NoPos, caller)
		return cur, nil, true
	case strings.HasPrefix(short, "CompareAndSwap"):
		cur, gp := ex.load(p, token.NoPos, caller)
		if gp != nil {
			return nil, gp, true
		}
		if ex.branch(valueEq(cur, args[1])) {
			ex.store(p, args[2], token.NoPos, caller)
			return tTrue, nil, true
		}
		return tFalse, nil, true
	}
	return nil, nil, false
}

func (ex *Exec) lookupFunc(name string) *ssa.Function {
	if ex.funcIndex == nil {
		ex.funcIndex = map[string]*ssa.Function{}
		for _, p := range ex.prog.AllPackages() {
			for _, m := range p.Members {
				if f, ok := m.(*ssa.Function); ok {
					ex.funcIndex[f.String()] = f
				}
			}
		}
	}
	return ex.funcIndex[name]
}
