package main

// Solver layer: persistent `z3 -in` for the bulk of queries, and a portfolio
// race (z3 5.x, cvc5, cvc5 with bv-as-int) for queries z3 4.8 does not answer
// quickly. Any "(error" in solver output makes the answer Unknown.

import (
	"bufio"
	"bytes"
	"context"
	"fmt"
	"io"
	"math/big"
	"os"
	"os/exec"
	"strings"
	"sync"
	"time"
)

type Result int

const (
	Unknown Result = iota
	Sat
	Unsat
)

func (r Result) String() string { return [...]string{"unknown", "sat", "unsat"}[r] }

type SolverStats struct {
	Queries     int
	Sat         int
	Unsat       int
	Unknown     int
	CacheHits   int
	Time        time.Duration
	Escalations int
	BySolver    map[string]int
	MaxQuery    time.Duration
}

type proc struct {
	name string
	cmd  *exec.Cmd
	in   io.WriteCloser
	out  *bufio.Reader
	n    int
}

func startProc(name string, args ...string) (*proc, error) {
	cmd := exec.Command(name, args...)
	in, err := cmd.StdinPipe()
	if err != nil {
		return nil, err
	}
	out, err := cmd.StdoutPipe()
	if err != nil {
		return nil, err
	}
	cmd.Stderr = cmd.Stdout
	if err := cmd.Start(); err != nil {
		return nil, err
	}
	return &proc{name: name, cmd: cmd, in: in, out: bufio.NewReaderSize(out, 1<<20)}, nil
}

func (p *proc) kill() {
	if p == nil || p.cmd == nil {
		return
	}
	p.in.Close()
	p.cmd.Process.Kill()
	p.cmd.Wait()
}

type SolverSet struct {
	mu       sync.Mutex
	z3       *proc
	Stats    SolverStats
	cache    map[string]Result
	QuickMs  int // first attempt on persistent z3
	HardMs   int // portfolio timeout
	DumpDir  string
	Versions map[string]string
	CrossChk bool // re-ask unsat answers to a second solver
	CrossDis int
	CrossN   int
	inLemma    bool
	lemmaCache map[string]bool
	LemmaN     int
}

func NewSolverSet(quickMs, hardMs int) *SolverSet {
	return &SolverSet{cache: map[string]Result{}, QuickMs: quickMs, HardMs: hardMs,
		Stats: SolverStats{BySolver: map[string]int{}}}
}

func (s *SolverSet) Close() {
	if s.z3 != nil {
		s.z3.kill()
		s.z3 = nil
	}
}

type feat struct {
	fp     bool
	nonlin bool
	div    bool // (C01) contains quotient/remainder variables introduced by elimDiv: integer reasoning (cvc5-int) usually wins
	uf     bool
}

func features(asserts []*Term) feat {
	var f feat
	seen := map[int]bool{}
	var st []*Term
	st = append(st, asserts...)
	for len(st) > 0 {
		t := st[len(st)-1]
		st = st[:len(st)-1]
		if seen[t.ID] {
			continue
		}
		seen[t.ID] = true
		switch t.Op {
		case OpMul, OpUDiv, OpURem, OpSDiv, OpSRem:
			if !t.Args[0].IsConst() && !t.Args[1].IsConst() {
				f.nonlin = true
			}
			if t.Op != OpMul && !t.Args[0].IsConst() {
				// division of a symbolic value (even by a constant) is hard for bit-blasters
				if t.Sort.W >= 32 {
					f.nonlin = true
				}
			}
			if t.Op == OpMul && t.Sort.W >= 64 && !t.Args[0].IsConst() && t.Args[1].IsConst() && t.Args[1].Val.BitLen() > 16 {
				f.nonlin = true
			}
		case OpUF:
			f.uf = true
		case OpVar:
			if strings.HasPrefix(t.Name, "$dq") {
				f.div = true
			}
		}
		if t.Sort.K == KFP {
			f.fp = true
		}
		st = append(st, t.Args...)
	}
	return f
}

// Check decides satisfiability of the conjunction of asserts. If wantModel and
// the result is Sat, a model of the variables is returned.
func (s *SolverSet) Check(asserts []*Term, wantModel bool) (Result, map[string]*Term, string) {
	// trivial cases
	var live []*Term
	for _, a := range asserts {
		if a.IsFalse() {
			return Unsat, nil, "trivial"
		}
		if !a.IsTrue() {
			live = append(live, a)
		}
	}
	if len(live) == 0 {
		return Sat, map[string]*Term{}, "trivial"
	}
	key := cacheKey(live)
	if r, ok := s.cache[key]; ok && (!wantModel || r == Unsat) {
		// an unsat answer needs no model: reuse it also when a model was asked for
		s.Stats.CacheHits++
		return r, nil, "cache"
	}
	if m, ok := s.cachedSatModel(key); ok && wantModel { // models_c12.go
		s.Stats.CacheHits++
		return Sat, m, "cache"
	}
	if r, m, ok := s.absCheck(live, key, wantModel); ok { // models_c19.go: product abstraction (off unless enabled)
		return r, m, "z3-abstract"
	}
	live2 := elimDiv(append(append([]*Term{}, live...), s.productLemmas(live)...))
	script, vars := Script(live2)
	ft := features(live2)
	start := time.Now()
	s.Stats.Queries++
	var res Result
	var model map[string]*Term
	who := "z3"
	if !ft.fp && !ft.nonlin {
		res, model = s.askZ3(script, vars, wantModel, s.QuickMs)
	}
	if res == Unknown {
		s.Stats.Escalations++
		res, model, who = s.race(script, vars, wantModel, ft)
	}
	d := time.Since(start)
	s.Stats.Time += d
	if d > s.Stats.MaxQuery {
		s.Stats.MaxQuery = d
	}
	switch res {
	case Sat:
		s.Stats.Sat++
	case Unsat:
		s.Stats.Unsat++
	default:
		s.Stats.Unknown++
	}
	s.Stats.BySolver[who]++
	if res != Unknown {
		s.cache[key] = res
	}
	if res == Sat && wantModel {
		s.rememberSatModel(key, model) // models_c12.go
	}
	if s.DumpDir != "" && (res == Unknown || d > 5*time.Second) {
		os.WriteFile(fmt.Sprintf("%s/q%d-%s.smt2", s.DumpDir, s.Stats.Queries, res), []byte(script+"(check-sat)\n"), 0o644)
	}
	if res == Unsat && s.CrossChk && who == "z3" {
		s.CrossN++
		r2, _, _ := s.oneShot(context.Background(), "cvc5", []string{"--incremental", fmt.Sprintf("--tlimit-per=%d", s.HardMs)}, script, vars, false, s.HardMs)
		if r2 == Sat {
			s.CrossDis++
			delete(s.cache, key) // never serve a disputed unsat from the cache
			return Unknown, nil, "solver-disagreement"
		}
	}
	return res, model, who
}

func cacheKey(ts []*Term) string {
	ids := make([]int, len(ts))
	for i, t := range ts {
		ids[i] = t.ID
	}
	// order-insensitive
	for i := 1; i < len(ids); i++ {
		for j := i; j > 0 && ids[j] < ids[j-1]; j-- {
			ids[j], ids[j-1] = ids[j-1], ids[j]
		}
	}
	var sb strings.Builder
	for _, id := range ids {
		fmt.Fprintf(&sb, "%d,", id)
	}
	return sb.String()
}

func getValueCmd(vars []*Term) string {
	if len(vars) == 0 {
		return ""
	}
	var sb strings.Builder
	sb.WriteString("(get-value (")
	for _, v := range vars {
		sb.WriteString(smtName(v.Name))
		sb.WriteByte(' ')
	}
	sb.WriteString("))\n")
	return sb.String()
}

func (s *SolverSet) askZ3(script string, vars []*Term, wantModel bool, ms int) (Result, map[string]*Term) {
	for attempt := 0; attempt < 2; attempt++ {
		if s.z3 == nil {
			p, err := startProc("z3", "-in")
			if err != nil {
				return Unknown, nil
			}
			s.z3 = p
		}
		r, m, ok := s.z3.query(script, vars, wantModel, ms)
		if ok {
			return r, m
		}
		s.z3.kill()
		s.z3 = nil
		if attempt == 0 && r == Unknown {
			// process died or timed out hard: do not retry a hard time-out
			return Unknown, nil
		}
	}
	return Unknown, nil
}

// query sends one stateless query to a persistent solver. ok=false means the
// process is no longer usable.
func (p *proc) query(script string, vars []*Term, wantModel bool, ms int) (Result, map[string]*Term, bool) {
	p.n++
	tag := fmt.Sprintf("<<done-%d>>", p.n)
	var sb strings.Builder
	sb.WriteString("(reset)\n")
	fmt.Fprintf(&sb, "(set-option :timeout %d)\n", ms)
	sb.WriteString(script)
	sb.WriteString("(check-sat)\n")
	fmt.Fprintf(&sb, "(echo \"%s\")\n", tag)
	type lineRes struct {
		lines []string
		err   error
	}
	readUntil := func(tag string) ([]string, error) {
		var lines []string
		for {
			l, err := p.out.ReadString('\n')
			if err != nil {
				return lines, err
			}
			l = strings.TrimSpace(l)
			if strings.Contains(l, tag) {
				return lines, nil
			}
			if l != "" {
				lines = append(lines, l)
			}
		}
	}
	ch := make(chan lineRes, 1)
	if _, err := io.WriteString(p.in, sb.String()); err != nil {
		return Unknown, nil, false
	}
	go func() {
		l, e := readUntil(tag)
		ch <- lineRes{l, e}
	}()
	var lr lineRes
	select {
	case lr = <-ch:
	case <-time.After(time.Duration(ms)*time.Millisecond + 3*time.Second):
		return Unknown, nil, false
	}
	if lr.err != nil {
		return Unknown, nil, false
	}
	res := Unknown
	for _, l := range lr.lines {
		if strings.HasPrefix(l, "(error") {
			return Unknown, nil, true
		}
	}
	for _, l := range lr.lines {
		switch l {
		case "sat":
			res = Sat
		case "unsat":
			res = Unsat
		}
	}
	if res != Sat || !wantModel || len(vars) == 0 {
		return res, map[string]*Term{}, true
	}
	p.n++
	tag = fmt.Sprintf("<<done-%d>>", p.n)
	if _, err := io.WriteString(p.in, getValueCmd(vars)+fmt.Sprintf("(echo \"%s\")\n", tag)); err != nil {
		return Unknown, nil, false
	}
	lines, err := readUntil(tag)
	if err != nil {
		return Unknown, nil, false
	}
	m, err := parseModel(strings.Join(lines, "\n"), vars)
	if err != nil {
		return Unknown, nil, true
	}
	return Sat, m, true
}

type raceRes struct {
	r   Result
	m   map[string]*Term
	who string
}

func (s *SolverSet) race(script string, vars []*Term, wantModel bool, ft feat) (Result, map[string]*Term, string) {
	ctx, cancel := context.WithCancel(context.Background())
	defer cancel()
	type cand struct {
		who  string
		bin  string
		args []string
	}
	var cands []cand
	tl := fmt.Sprintf("--tlimit-per=%d", s.HardMs)
	if ft.fp {
		cands = append(cands, cand{"cvc5", "cvc5", []string{"--incremental", tl, "--fp-exp"}})
		cands = append(cands, cand{"z3-new", "z3-new", []string{"-in"}})
	} else {
		cands = append(cands, cand{"z3-new", "z3-new", []string{"-in"}})
		cands = append(cands, cand{"cvc5", "cvc5", []string{"--incremental", tl}})
		cands = append(cands, cand{"cvc5-int", "cvc5", []string{"--incremental", tl, "--solve-bv-as-int=sum"}})
	}
	// two stages, so that at most two solver processes run per query
	stages := [][]cand{cands}
	if len(cands) > 2 {
		first := []cand{cands[0], cands[1]}
		if (ft.nonlin || ft.div) && !ft.fp {
			first = []cand{cands[0], cands[2]} // z3-new + cvc5-int
		}
		var rest []cand
		for _, c := range cands {
			if c.who != first[0].who && c.who != first[1].who {
				rest = append(rest, c)
			}
		}
		stages = [][]cand{first, rest}
	}
	for _, stage := range stages {
		ch := make(chan raceRes, len(stage))
		sctx, scancel := context.WithCancel(ctx)
		for _, c := range stage {
			c := c
			go func() {
				r, m, _ := s.oneShot(sctx, c.bin, c.args, script, vars, wantModel, s.HardMs)
				ch <- raceRes{r, m, c.who}
			}()
		}
		var win *raceRes
		for range stage {
			rr := <-ch
			if rr.r != Unknown && win == nil {
				w := rr
				win = &w
				scancel()
			}
		}
		scancel()
		if win != nil {
			return win.r, win.m, win.who
		}
	}
	return Unknown, nil, "none"
}

func (s *SolverSet) oneShot(ctx context.Context, bin string, args []string, script string, vars []*Term, wantModel bool, ms int) (Result, map[string]*Term, error) {
	// The limit is CPU time (ulimit -t), so that a loaded machine does not turn
	// answers into time-outs; the wall-clock guard is ten times that.
	cpuS := (ms + 999) / 1000
	if cpuS < 1 {
		cpuS = 1
	}
	cctx, cancel := context.WithTimeout(ctx, time.Duration(10*cpuS)*time.Second+5*time.Second)
	defer cancel()
	var clean []string
	for _, a := range args {
		if !strings.HasPrefix(a, "--tlimit") {
			clean = append(clean, a)
		}
	}
	sh := fmt.Sprintf("ulimit -t %d; exec %s %s", cpuS, bin, strings.Join(clean, " "))
	cmd := exec.CommandContext(cctx, "/bin/bash", "-c", sh)
	var in bytes.Buffer
	isZ3 := strings.HasPrefix(bin, "z3")
	if !isZ3 {
		in.WriteString("(set-option :produce-models true)\n(set-logic ALL)\n")
	}
	in.WriteString(script)
	in.WriteString("(check-sat)\n")
	if wantModel {
		in.WriteString(getValueCmd(vars))
	}
	cmd.Stdin = &in
	out, _ := cmd.CombinedOutput()
	text := string(out)
	lines := strings.Split(text, "\n")
	res := Unknown
	rest := ""
	pre := ""
	for i, l := range lines {
		l = strings.TrimSpace(l)
		if l == "sat" || l == "unsat" || l == "unknown" || l == "timeout" {
			if l == "sat" {
				res = Sat
			} else if l == "unsat" {
				res = Unsat
			}
			rest = strings.Join(lines[i+1:], "\n")
			break
		}
		pre += l + "\n"
	}
	if strings.Contains(pre, "(error") {
		return Unknown, nil, fmt.Errorf("solver error: %s", pre)
	}
	if res == Unsat {
		return Unsat, nil, nil
	}
	if res == Sat {
		if !wantModel || len(vars) == 0 {
			return Sat, map[string]*Term{}, nil
		}
		m, err := parseModel(rest, vars)
		if err != nil {
			return Unknown, nil, err
		}
		return Sat, m, nil
	}
	return Unknown, nil, nil
}

// ---------- s-expression model parsing ----------

type sexp struct {
	atom string
	list []*sexp
}

func parseSexp(s string, i int) (*sexp, int, error) {
	for i < len(s) && (s[i] == ' ' || s[i] == '\n' || s[i] == '\t' || s[i] == '\r') {
		i++
	}
	if i >= len(s) {
		return nil, i, io.EOF
	}
	if s[i] == '(' {
		i++
		e := &sexp{list: []*sexp{}}
		for {
			for i < len(s) && (s[i] == ' ' || s[i] == '\n' || s[i] == '\t' || s[i] == '\r') {
				i++
			}
			if i >= len(s) {
				return nil, i, fmt.Errorf("unterminated list")
			}
			if s[i] == ')' {
				return e, i + 1, nil
			}
			c, j, err := parseSexp(s, i)
			if err != nil {
				return nil, j, err
			}
			e.list = append(e.list, c)
			i = j
		}
	}
	if s[i] == '|' {
		j := strings.IndexByte(s[i+1:], '|')
		if j < 0 {
			return nil, i, fmt.Errorf("unterminated quoted symbol")
		}
		return &sexp{atom: s[i+1 : i+1+j]}, i + j + 2, nil
	}
	j := i
	for j < len(s) && !strings.ContainsRune(" \n\t\r()", rune(s[j])) {
		j++
	}
	return &sexp{atom: s[i:j]}, j, nil
}

func parseBVAtom(a string) (*big.Int, int, bool) {
	if strings.HasPrefix(a, "#x") {
		v, ok := new(big.Int).SetString(a[2:], 16)
		return v, 4 * (len(a) - 2), ok
	}
	if strings.HasPrefix(a, "#b") {
		v, ok := new(big.Int).SetString(a[2:], 2)
		return v, len(a) - 2, ok
	}
	return nil, 0, false
}

func parseValue(e *sexp, s Sort) (*Term, error) {
	switch s.K {
	case KBool:
		if e.atom == "true" {
			return tTrue, nil
		}
		if e.atom == "false" {
			return tFalse, nil
		}
	case KBV:
		if e.atom != "" {
			if v, _, ok := parseBVAtom(e.atom); ok {
				return BVBig(v, s.W), nil
			}
		} else if len(e.list) == 3 && e.list[0].atom == "_" && strings.HasPrefix(e.list[1].atom, "bv") {
			v, ok := new(big.Int).SetString(e.list[1].atom[2:], 10)
			if ok {
				return BVBig(v, s.W), nil
			}
		}
	case KFP:
		if len(e.list) == 4 && e.list[0].atom == "fp" {
			sg, _, ok1 := parseBVAtom(e.list[1].atom)
			ex, _, ok2 := parseBVAtom(e.list[2].atom)
			mt, _, ok3 := parseBVAtom(e.list[3].atom)
			if ok1 && ok2 && ok3 {
				bits := sg.Uint64()<<63 | ex.Uint64()<<52 | mt.Uint64()
				return TT.intern(&Term{Op: OpFPConst, Sort: SFP, Val: new(big.Int).SetUint64(bits)}), nil
			}
		}
		if len(e.list) == 4 && e.list[0].atom == "_" {
			switch e.list[1].atom {
			case "+zero":
				return FPConst(0), nil
			case "-zero":
				return TT.intern(&Term{Op: OpFPConst, Sort: SFP, Val: new(big.Int).SetUint64(1 << 63)}), nil
			case "+oo":
				return TT.intern(&Term{Op: OpFPConst, Sort: SFP, Val: new(big.Int).SetUint64(0x7ff0000000000000)}), nil
			case "-oo":
				return TT.intern(&Term{Op: OpFPConst, Sort: SFP, Val: new(big.Int).SetUint64(0xfff0000000000000)}), nil
			case "NaN":
				return TT.intern(&Term{Op: OpFPConst, Sort: SFP, Val: new(big.Int).SetUint64(0x7ff8000000000001)}), nil
			}
		}
	}
	return nil, fmt.Errorf("cannot parse model value %v for sort %v", e, s)
}

func parseModel(text string, vars []*Term) (map[string]*Term, error) {
	if strings.Contains(text, "(error") {
		return nil, fmt.Errorf("solver error in model: %s", text)
	}
	byName := map[string]*Term{}
	for _, v := range vars {
		byName[v.Name] = v
	}
	m := map[string]*Term{}
	i := 0
	for {
		e, j, err := parseSexp(text, i)
		if err == io.EOF {
			break
		}
		if err != nil {
			return nil, err
		}
		i = j
		if e.atom != "" {
			continue
		}
		for _, pr := range e.list {
			if len(pr.list) != 2 {
				continue
			}
			v, ok := byName[pr.list[0].atom]
			if !ok {
				continue
			}
			val, err := parseValue(pr.list[1], v.Sort)
			if err != nil {
				return nil, err
			}
			m[v.Name] = val
		}
	}
	if len(m) != len(vars) {
		return nil, fmt.Errorf("model has %d of %d variables", len(m), len(vars))
	}
	return m, nil
}

func solverVersions() map[string]string {
	v := map[string]string{}
	for _, c := range [][]string{{"z3", "--version"}, {"z3-new", "--version"}, {"cvc5", "--version"}} {
		out, err := exec.Command(c[0], c[1:]...).Output()
		if err == nil {
			v[c[0]] = strings.TrimSpace(strings.SplitN(string(out), "\n", 2)[0])
		}
	}
	return v
}
