package main

// Models added for property C02 (reload of persisted channel state).
//
// secp256k1.DecompressY(x, odd, resultY): decoding a compressed public key
// needs a modular square root (a 256-step field exponentiation). The channel
// codecs store the peer's identity key and the revocation points in compressed
// form; the C02 harnesses use fixed, concrete curve points for them, so the
// square root is a pure concrete computation that the interpreter would
// re-run (3-9 times per path). For a CONCRETE x this model computes the same
// function with math/big: y = sqrt(x^3+7) mod p with the requested parity,
// written to resultY in normalised 10x26-bit limbs; false when x^3+7 is not a
// square. Any symbolic limb: the real function body runs.

import (
	"math/big"

	"golang.org/x/tools/go/ssa"
)

func init() {
	models["github.com/decred/dcrd/dcrec/secp256k1/v4.DecompressY"] = modelC02DecompressY
}

var c02FieldPrime = func() *big.Int {
	p := new(big.Int).Lsh(big.NewInt(1), 256)
	p.Sub(p, new(big.Int).Lsh(big.NewInt(1), 32))
	return p.Sub(p, big.NewInt(977))
}()

func modelC02DecompressY(ex *Exec, fn *ssa.Function, args []Value, caller *Frame) (Value, *goPanic) {
	real := func() (Value, *goPanic) { return ex.runFunction(fn, args, nil, caller, false) }
	if len(args) != 3 {
		return real()
	}
	xp, ok1 := args[0].(*PtrV)
	odd, ok2 := args[1].(*Term)
	rp, ok3 := args[2].(*PtrV)
	if !ok1 || !ok2 || !ok3 || xp.Obj == nil || rp.Obj == nil || !(odd.IsTrue() || odd.IsFalse()) {
		return real()
	}
	xv, gp := ex.load(xp, 0, caller)
	if gp != nil {
		return nil, gp
	}
	sv, ok := xv.(*StructV)
	if !ok || len(sv.F) != 1 {
		return real()
	}
	arr, ok := sv.F[0].(*ArrayV)
	if !ok || len(arr.E) != 10 {
		return real()
	}
	x := new(big.Int)
	for i := 9; i >= 0; i-- {
		t, ok := arr.E[i].(*Term)
		if !ok || t.Op != OpConst || t.Sort.W != 32 {
			return real()
		}
		x.Lsh(x, 26)
		x.Add(x, t.Val)
	}
	p := c02FieldPrime
	x.Mod(x, p)
	rhs := new(big.Int).Exp(x, big.NewInt(3), p)
	rhs.Add(rhs, big.NewInt(7)).Mod(rhs, p)
	y := new(big.Int).ModSqrt(rhs, p)
	if y == nil {
		// the real function leaves a non-root candidate in resultY, which no
		// caller reads after a false result
		return tFalse, nil
	}
	if (y.Bit(0) == 1) != odd.IsTrue() {
		y.Sub(p, y).Mod(y, p)
	}
	limbs := &ArrayV{E: make([]Value, 10)}
	m26 := big.NewInt(1<<26 - 1)
	rest := new(big.Int).Set(y)
	for i := 0; i < 10; i++ {
		limbs.E[i] = BVBig(new(big.Int).And(rest, m26), 32)
		rest.Rsh(rest, 26)
	}
	if gp := ex.store(rp, &StructV{F: []Value{limbs}}, 0, caller); gp != nil {
		return nil, gp
	}
	return tTrue, nil
}
