package main

// Models added for property C17 (cooperative close).

import (
	"golang.org/x/tools/go/ssa"
)

func init() {
	models["github.com/btcsuite/btcd/txscript/v2.MakeScriptTokenizer"] = modelC17MakeTokenizer
}

// txscript has `func init() { opcodeArrayRef = &opcodeArray }`. The engine
// skips user init() functions, so the tokenizer would dereference a nil
// table. This model performs exactly that assignment and then runs the real
// MakeScriptTokenizer body.
func modelC17MakeTokenizer(ex *Exec, fn *ssa.Function, args []Value, caller *Frame) (Value, *goPanic) {
	if fn.Pkg != nil {
		ref, _ := fn.Pkg.Members["opcodeArrayRef"].(*ssa.Global)
		arr, _ := fn.Pkg.Members["opcodeArray"].(*ssa.Global)
		if ref != nil && arr != nil {
			ro := ex.globalObj(ref)
			ao := ex.globalObj(arr)
			if pv, ok := ro.V.(*PtrV); ok && pv.Obj == nil {
				ro.V = &PtrV{Obj: ao}
			}
		}
	}
	return ex.runFunction(fn, args, nil, caller, false)
}
