package main

import (
	"go/types"

	"golang.org/x/tools/go/ssa"
)

// lookupMethodOrNil is (*ssa.Program).LookupMethod that returns nil instead of
// panicking when T has no method of that name (errors.As on an error value
// whose type has neither As nor Unwrap, e.g. *errors.errorString).
func (ex *Exec) lookupMethodOrNil(T types.Type, pkg *types.Package, name string) *ssa.Function {
	sel := ex.prog.MethodSets.MethodSet(T).Lookup(pkg, name)
	if sel == nil {
		return nil
	}
	return ex.prog.MethodValue(sel)
}
