package main

// Hash-consed SMT term DAG with constant folding and light simplification.
// Integers are bit-vectors with Go's wrap-around semantics; booleans are Bool;
// float64 is (_ FloatingPoint 11 53).

import (
	"fmt"
	"math"
	"math/big"
	"sort"
	"strings"
	"sync"
)

type Kind uint8

const (
	KBool Kind = iota
	KBV
	KFP
)

type Sort struct {
	K Kind
	W int
}

func (s Sort) String() string {
	switch s.K {
	case KBool:
		return "Bool"
	case KBV:
		return fmt.Sprintf("(_ BitVec %d)", s.W)
	default:
		return "(_ FloatingPoint 11 53)"
	}
}

var SBool = Sort{KBool, 0}
var SFP = Sort{KFP, 64}

func SBV(w int) Sort { return Sort{KBV, w} }

type Op uint8

const (
	OpConst Op = iota
	OpVar
	OpNot
	OpAnd
	OpOr
	OpIte
	OpEq
	OpAdd
	OpSub
	OpMul
	OpUDiv
	OpURem
	OpSDiv
	OpSRem
	OpBAnd
	OpBOr
	OpBXor
	OpBNot
	OpNeg
	OpShl
	OpLShr
	OpAShr
	OpULt
	OpULe
	OpSLt
	OpSLe
	OpExtract
	OpConcat
	OpZExt
	OpSExt
	OpUF
	// floating point
	OpFPConst
	OpFPAdd
	OpFPSub
	OpFPMul
	OpFPDiv
	OpFPNeg
	OpFPLt
	OpFPLe
	OpFPEq
	OpFPFromSBV // int -> float
	OpFPFromUBV
	OpFPToSBV // float -> int (RTZ), I0 = width
	OpFPToUBV
	OpFPIsNaN
	OpFPFromBits // reinterpret bv64 as fp
)

var opNames = map[Op]string{
	OpNot: "not", OpAnd: "and", OpOr: "or", OpIte: "ite", OpEq: "=",
	OpAdd: "bvadd", OpSub: "bvsub", OpMul: "bvmul", OpUDiv: "bvudiv", OpURem: "bvurem",
	OpSDiv: "bvsdiv", OpSRem: "bvsrem", OpBAnd: "bvand", OpBOr: "bvor", OpBXor: "bvxor",
	OpBNot: "bvnot", OpNeg: "bvneg", OpShl: "bvshl", OpLShr: "bvlshr", OpAShr: "bvashr",
	OpULt: "bvult", OpULe: "bvule", OpSLt: "bvslt", OpSLe: "bvsle", OpConcat: "concat",
	OpFPAdd: "fp.add RNE", OpFPSub: "fp.sub RNE", OpFPMul: "fp.mul RNE", OpFPDiv: "fp.div RNE",
	OpFPNeg: "fp.neg", OpFPLt: "fp.lt", OpFPLe: "fp.leq", OpFPEq: "fp.eq", OpFPIsNaN: "fp.isNaN",
}

type Term struct {
	ID   int
	Op   Op
	Sort Sort
	Args []*Term
	Val  *big.Int // OpConst: unsigned value (bool: 0/1). OpFPConst: raw IEEE bits
	Name string   // OpVar / OpUF
	I0   int      // extract hi / ext amount / conversion width
	I1   int      // extract lo
}

type TermTable struct {
	mu    sync.Mutex // intern is called from the solver-race goroutines (parseModel) too
	byKey map[string]*Term
	next  int
	vars  map[string]*Term
	ufs   map[string]*ufDecl
}

type ufDecl struct {
	name string
	args []Sort
	res  Sort
}

var TT = &TermTable{byKey: map[string]*Term{}, vars: map[string]*Term{}, ufs: map[string]*ufDecl{}}

func (tt *TermTable) intern(t *Term) *Term {
	var sb strings.Builder
	fmt.Fprintf(&sb, "%d|%d.%d|%d|%d|%s|", t.Op, t.Sort.K, t.Sort.W, t.I0, t.I1, t.Name)
	if t.Val != nil {
		sb.WriteString(t.Val.Text(16))
	}
	for _, a := range t.Args {
		fmt.Fprintf(&sb, "|%d", a.ID)
	}
	k := sb.String()
	tt.mu.Lock()
	defer tt.mu.Unlock()
	if e, ok := tt.byKey[k]; ok {
		return e
	}
	t.ID = tt.next
	tt.next++
	tt.byKey[k] = t
	return t
}

func mk(op Op, s Sort, args ...*Term) *Term {
	return TT.intern(&Term{Op: op, Sort: s, Args: args})
}

// ---------- constants ----------

var (
	tTrue  = TT.intern(&Term{Op: OpConst, Sort: SBool, Val: big.NewInt(1)})
	tFalse = TT.intern(&Term{Op: OpConst, Sort: SBool, Val: big.NewInt(0)})
)

func Bool(b bool) *Term {
	if b {
		return tTrue
	}
	return tFalse
}

func mask(w int) *big.Int {
	m := new(big.Int).Lsh(big.NewInt(1), uint(w))
	return m.Sub(m, big.NewInt(1))
}

func BVBig(v *big.Int, w int) *Term {
	x := new(big.Int).And(v, mask(w)) // works for negative too (two's complement semantics of And on big.Int)
	if v.Sign() < 0 {
		m := new(big.Int).Lsh(big.NewInt(1), uint(w))
		x = new(big.Int).Mod(v, m)
	}
	return TT.intern(&Term{Op: OpConst, Sort: SBV(w), Val: x})
}

func BV(v uint64, w int) *Term { return BVBig(new(big.Int).SetUint64(v), w) }
func BVI(v int64, w int) *Term { return BVBig(big.NewInt(v), w) }

func FPConst(f float64) *Term {
	return TT.intern(&Term{Op: OpFPConst, Sort: SFP, Val: new(big.Int).SetUint64(math.Float64bits(f))})
}

func (t *Term) IsConst() bool { return t.Op == OpConst || t.Op == OpFPConst }
func (t *Term) IsTrue() bool  { return t == tTrue }
func (t *Term) IsFalse() bool { return t == tFalse }

// Uint64 value of a constant BV (low 64 bits).
func (t *Term) U64() uint64 { return t.Val.Uint64() }

// signed value of constant BV
func (t *Term) Signed() *big.Int {
	v := new(big.Int).Set(t.Val)
	if t.Sort.K == KBV && v.Bit(t.Sort.W-1) == 1 {
		v.Sub(v, new(big.Int).Lsh(big.NewInt(1), uint(t.Sort.W)))
	}
	return v
}

func (t *Term) Float() float64 { return math.Float64frombits(t.Val.Uint64()) }

// ---------- variables / UFs ----------

func Var(name string, s Sort) *Term {
	if v, ok := TT.vars[name]; ok {
		if v.Sort != s {
			panic(fmt.Sprintf("variable %s redeclared with different sort %v vs %v", name, v.Sort, s))
		}
		return v
	}
	v := TT.intern(&Term{Op: OpVar, Sort: s, Name: name})
	TT.vars[name] = v
	return v
}

func UF(name string, res Sort, args ...*Term) *Term {
	as := make([]Sort, len(args))
	for i, a := range args {
		as[i] = a.Sort
	}
	full := name
	for _, a := range as {
		if a.K == KBV {
			full += fmt.Sprintf("_%d", a.W)
		} else if a.K == KBool {
			full += "_b"
		} else {
			full += "_f"
		}
	}
	if _, ok := TT.ufs[full]; !ok {
		TT.ufs[full] = &ufDecl{name: full, args: as, res: res}
	}
	return TT.intern(&Term{Op: OpUF, Sort: res, Name: full, Args: args})
}

// ---------- boolean ----------

func Not(a *Term) *Term {
	if a.IsConst() {
		return Bool(a.Val.Sign() == 0)
	}
	if a.Op == OpNot {
		return a.Args[0]
	}
	return mk(OpNot, SBool, a)
}

func And(a, b *Term) *Term {
	if a.IsFalse() || b.IsFalse() {
		return tFalse
	}
	if a.IsTrue() {
		return b
	}
	if b.IsTrue() {
		return a
	}
	if a == b {
		return a
	}
	if (a.Op == OpNot && a.Args[0] == b) || (b.Op == OpNot && b.Args[0] == a) {
		return tFalse
	}
	if a.ID > b.ID {
		a, b = b, a
	}
	return mk(OpAnd, SBool, a, b)
}

func Or(a, b *Term) *Term {
	if a.IsTrue() || b.IsTrue() {
		return tTrue
	}
	if a.IsFalse() {
		return b
	}
	if b.IsFalse() {
		return a
	}
	if a == b {
		return a
	}
	if (a.Op == OpNot && a.Args[0] == b) || (b.Op == OpNot && b.Args[0] == a) {
		return tTrue
	}
	if a.ID > b.ID {
		a, b = b, a
	}
	return mk(OpOr, SBool, a, b)
}

func AndN(ts ...*Term) *Term {
	r := tTrue
	for _, t := range ts {
		r = And(r, t)
	}
	return r
}

func Implies(a, b *Term) *Term { return Or(Not(a), b) }

func Ite(c, a, b *Term) *Term {
	if c.IsTrue() {
		return a
	}
	if c.IsFalse() {
		return b
	}
	if a == b {
		return a
	}
	if a.Sort != b.Sort {
		panic(fmt.Sprintf("ite sort mismatch %v %v", a.Sort, b.Sort))
	}
	if a.Sort.K == KBool {
		if a.IsTrue() && b.IsFalse() {
			return c
		}
		if a.IsFalse() && b.IsTrue() {
			return Not(c)
		}
		if a.IsTrue() {
			return Or(c, b)
		}
		if a.IsFalse() {
			return And(Not(c), b)
		}
		if b.IsTrue() {
			return Or(Not(c), a)
		}
		if b.IsFalse() {
			return And(c, a)
		}
	}
	if c.Op == OpNot {
		return Ite(c.Args[0], b, a)
	}
	return mk(OpIte, a.Sort, c, a, b)
}

func Eq(a, b *Term) *Term {
	if a == b {
		if a.Sort.K == KFP {
			// bitwise identity of the same term: equal as SMT values (note: not fp.eq)
			return tTrue
		}
		return tTrue
	}
	if a.Sort != b.Sort {
		panic(fmt.Sprintf("eq sort mismatch %v %v", a.Sort, b.Sort))
	}
	if a.IsConst() && b.IsConst() {
		return Bool(a.Val.Cmp(b.Val) == 0)
	}
	if a.Sort.K == KBV && kbDistinct(a, b) { // models_c06.go: some bit is known 0 in one and known 1 in the other
		return tFalse
	}
	if a.Sort.K == KBool {
		if a.IsTrue() {
			return b
		}
		if b.IsTrue() {
			return a
		}
		if a.IsFalse() {
			return Not(b)
		}
		if b.IsFalse() {
			return Not(a)
		}
	}
	if a.ID > b.ID {
		a, b = b, a
	}
	return mk(OpEq, SBool, a, b)
}

func Ne(a, b *Term) *Term { return Not(Eq(a, b)) }

// ---------- bit-vector arithmetic ----------

func bin(op Op, a, b *Term) *Term {
	if a.Sort != b.Sort || a.Sort.K != KBV {
		panic(fmt.Sprintf("bv op %v sort mismatch %v %v", opNames[op], a.Sort, b.Sort))
	}
	w := a.Sort.W
	if a.IsConst() && b.IsConst() {
		x, y := a.Val, b.Val
		r := new(big.Int)
		switch op {
		case OpAdd:
			r.Add(x, y)
		case OpSub:
			r.Sub(x, y)
		case OpMul:
			r.Mul(x, y)
		case OpUDiv:
			if y.Sign() == 0 {
				return BVBig(mask(w), w)
			}
			r.Quo(x, y)
		case OpURem:
			if y.Sign() == 0 {
				return a
			}
			r.Rem(x, y)
		case OpSDiv:
			sx, sy := a.Signed(), b.Signed()
			if sy.Sign() == 0 {
				if sx.Sign() >= 0 {
					return BVBig(mask(w), w)
				}
				return BV(1, w)
			}
			r.Quo(sx, sy)
		case OpSRem:
			sx, sy := a.Signed(), b.Signed()
			if sy.Sign() == 0 {
				return a
			}
			r.Rem(sx, sy)
		case OpBAnd:
			r.And(x, y)
		case OpBOr:
			r.Or(x, y)
		case OpBXor:
			r.Xor(x, y)
		case OpShl:
			if y.Cmp(big.NewInt(int64(w))) >= 0 {
				return BV(0, w)
			}
			r.Lsh(x, uint(y.Uint64()))
		case OpLShr:
			if y.Cmp(big.NewInt(int64(w))) >= 0 {
				return BV(0, w)
			}
			r.Rsh(x, uint(y.Uint64()))
		case OpAShr:
			sx := a.Signed()
			sh := uint(w)
			if y.Cmp(big.NewInt(int64(w))) < 0 {
				sh = uint(y.Uint64())
			}
			r.Rsh(sx, sh)
		}
		return BVBig(r, w)
	}
	// identities
	switch op {
	case OpAdd:
		if a.IsConst() && a.Val.Sign() == 0 {
			return b
		}
		if b.IsConst() && b.Val.Sign() == 0 {
			return a
		}
		if a.IsConst() { // constants to the right for normalisation
			a, b = b, a
		}
	case OpSub:
		if b.IsConst() && b.Val.Sign() == 0 {
			return a
		}
		if a == b {
			return BV(0, w)
		}
	case OpMul:
		if a.IsConst() {
			a, b = b, a
		}
		if b.IsConst() {
			if b.Val.Sign() == 0 {
				return b
			}
			if b.Val.Cmp(big.NewInt(1)) == 0 {
				return a
			}
		}
	case OpUDiv, OpSDiv:
		if b.IsConst() && b.Val.Cmp(big.NewInt(1)) == 0 {
			return a
		}
	case OpBAnd:
		if a.IsConst() {
			a, b = b, a
		}
		if b.IsConst() {
			if b.Val.Sign() == 0 {
				return b
			}
			if b.Val.Cmp(mask(w)) == 0 {
				return a
			}
		}
		if a == b {
			return a
		}
	case OpBOr:
		if a.IsConst() {
			a, b = b, a
		}
		if b.IsConst() {
			if b.Val.Sign() == 0 {
				return a
			}
			if b.Val.Cmp(mask(w)) == 0 {
				return b
			}
		}
		if a == b {
			return a
		}
	case OpBXor:
		if a.IsConst() {
			a, b = b, a
		}
		if b.IsConst() && b.Val.Sign() == 0 {
			return a
		}
		if a == b {
			return BV(0, w)
		}
	case OpShl, OpLShr, OpAShr:
		if b.IsConst() && b.Val.Sign() == 0 {
			return a
		}
		if b.IsConst() && op != OpAShr && b.Val.Cmp(big.NewInt(int64(w))) >= 0 {
			return BV(0, w)
		}
	}
	if r := kbFold(op, a, b); r != nil { // models_c06.go: every bit of the result is known
		return r
	}
	return mk(op, a.Sort, a, b)
}

func Add(a, b *Term) *Term  { return bin(OpAdd, a, b) }
func Sub(a, b *Term) *Term  { return bin(OpSub, a, b) }
func Mul(a, b *Term) *Term  { return bin(OpMul, a, b) }
func UDiv(a, b *Term) *Term { return bin(OpUDiv, a, b) }
func URem(a, b *Term) *Term { return bin(OpURem, a, b) }
func SDiv(a, b *Term) *Term { return bin(OpSDiv, a, b) }
func SRem(a, b *Term) *Term { return bin(OpSRem, a, b) }
func BAnd(a, b *Term) *Term { return bin(OpBAnd, a, b) }
func BOr(a, b *Term) *Term  { return bin(OpBOr, a, b) }
func BXor(a, b *Term) *Term { return bin(OpBXor, a, b) }
func Shl(a, b *Term) *Term  { return bin(OpShl, a, b) }
func LShr(a, b *Term) *Term { return bin(OpLShr, a, b) }
func AShr(a, b *Term) *Term { return bin(OpAShr, a, b) }

func BNot(a *Term) *Term {
	if a.IsConst() {
		return BVBig(new(big.Int).Xor(a.Val, mask(a.Sort.W)), a.Sort.W)
	}
	if a.Op == OpBNot {
		return a.Args[0]
	}
	return mk(OpBNot, a.Sort, a)
}

func Neg(a *Term) *Term {
	if a.IsConst() {
		return BVBig(new(big.Int).Neg(a.Val), a.Sort.W)
	}
	return mk(OpNeg, a.Sort, a)
}

func cmp(op Op, a, b *Term) *Term {
	if a.Sort != b.Sort || a.Sort.K != KBV {
		panic(fmt.Sprintf("bv cmp sort mismatch %v %v", a.Sort, b.Sort))
	}
	if a.IsConst() && b.IsConst() {
		switch op {
		case OpULt:
			return Bool(a.Val.Cmp(b.Val) < 0)
		case OpULe:
			return Bool(a.Val.Cmp(b.Val) <= 0)
		case OpSLt:
			return Bool(a.Signed().Cmp(b.Signed()) < 0)
		case OpSLe:
			return Bool(a.Signed().Cmp(b.Signed()) <= 0)
		}
	}
	if a == b {
		return Bool(op == OpULe || op == OpSLe)
	}
	if op == OpULt && b.IsConst() && b.Val.Sign() == 0 {
		return tFalse
	}
	if op == OpULe && a.IsConst() && a.Val.Sign() == 0 {
		return tTrue
	}
	// canonical form: only strict comparisons exist as nodes, a <= b is
	// not(b < a); this makes "x <= c" and "!(x > c)" the same term.
	if op == OpULe {
		return Not(cmp(OpULt, b, a))
	}
	if op == OpSLe {
		return Not(cmp(OpSLt, b, a))
	}
	return mk(op, SBool, a, b)
}

func ULt(a, b *Term) *Term { return cmp(OpULt, a, b) }
func ULe(a, b *Term) *Term { return cmp(OpULe, a, b) }
func SLt(a, b *Term) *Term { return cmp(OpSLt, a, b) }
func SLe(a, b *Term) *Term { return cmp(OpSLe, a, b) }
func UGt(a, b *Term) *Term { return cmp(OpULt, b, a) }
func UGe(a, b *Term) *Term { return cmp(OpULe, b, a) }
func SGt(a, b *Term) *Term { return cmp(OpSLt, b, a) }
func SGe(a, b *Term) *Term { return cmp(OpSLe, b, a) }

func Extract(hi, lo int, a *Term) *Term {
	w := a.Sort.W
	if lo == 0 && hi == w-1 {
		return a
	}
	if hi >= w || lo < 0 || hi < lo {
		panic(fmt.Sprintf("bad extract %d %d of width %d", hi, lo, w))
	}
	nw := hi - lo + 1
	if a.IsConst() {
		return BVBig(new(big.Int).Rsh(a.Val, uint(lo)), nw)
	}
	switch a.Op {
	case OpExtract:
		return Extract(a.I1+hi, a.I1+lo, a.Args[0])
	case OpConcat:
		lw := a.Args[1].Sort.W
		if hi < lw {
			return Extract(hi, lo, a.Args[1])
		}
		if lo >= lw {
			return Extract(hi-lw, lo-lw, a.Args[0])
		}
	case OpZExt:
		iw := a.Args[0].Sort.W
		if hi < iw {
			return Extract(hi, lo, a.Args[0])
		}
		if lo >= iw {
			return BV(0, nw)
		}
	case OpSExt:
		iw := a.Args[0].Sort.W
		if hi < iw {
			return Extract(hi, lo, a.Args[0])
		}
	case OpIte:
		if a.Args[1].IsConst() || a.Args[2].IsConst() {
			return Ite(a.Args[0], Extract(hi, lo, a.Args[1]), Extract(hi, lo, a.Args[2]))
		}
	case OpBAnd, OpBOr, OpBXor:
		// push extract through bitwise ops when one side is constant (byte codecs)
		if a.Args[1].IsConst() {
			return bin(a.Op, Extract(hi, lo, a.Args[0]), Extract(hi, lo, a.Args[1]))
		}
	}
	return TT.intern(&Term{Op: OpExtract, Sort: SBV(nw), Args: []*Term{a}, I0: hi, I1: lo})
}

func Concat(a, b *Term) *Term { // a high, b low
	if a.IsConst() && b.IsConst() {
		v := new(big.Int).Lsh(a.Val, uint(b.Sort.W))
		v.Or(v, b.Val)
		return BVBig(v, a.Sort.W+b.Sort.W)
	}
	if a.Op == OpExtract && b.Op == OpExtract && a.Args[0] == b.Args[0] && a.I1 == b.I0+1 {
		return Extract(a.I0, b.I1, a.Args[0])
	}
	// (concat a (concat b1 b2)) with a,b1 adjacent extracts
	if a.Op == OpExtract && b.Op == OpConcat && b.Args[0].Op == OpExtract &&
		a.Args[0] == b.Args[0].Args[0] && a.I1 == b.Args[0].I0+1 {
		return Concat(Extract(a.I0, b.Args[0].I1, a.Args[0]), b.Args[1])
	}
	if a.Op == OpConcat && a.Args[1].Op == OpExtract && b.Op == OpExtract &&
		a.Args[1].Args[0] == b.Args[0] && a.Args[1].I1 == b.I0+1 {
		return Concat(a.Args[0], Extract(a.Args[1].I0, b.I1, b.Args[0]))
	}
	if a.IsConst() && a.Val.Sign() == 0 {
		return ZExt(b, a.Sort.W+b.Sort.W)
	}
	return mk(OpConcat, SBV(a.Sort.W+b.Sort.W), a, b)
}

func ZExt(a *Term, w int) *Term {
	if a.Sort.W == w {
		return a
	}
	if a.Sort.W > w {
		return Extract(w-1, 0, a)
	}
	if a.IsConst() {
		return BVBig(a.Val, w)
	}
	if a.Op == OpZExt {
		return ZExt(a.Args[0], w)
	}
	return TT.intern(&Term{Op: OpZExt, Sort: SBV(w), Args: []*Term{a}, I0: w - a.Sort.W})
}

func SExt(a *Term, w int) *Term {
	if a.Sort.W == w {
		return a
	}
	if a.Sort.W > w {
		return Extract(w-1, 0, a)
	}
	if a.IsConst() {
		return BVBig(a.Signed(), w)
	}
	return TT.intern(&Term{Op: OpSExt, Sort: SBV(w), Args: []*Term{a}, I0: w - a.Sort.W})
}

// ---------- floating point ----------

func fpBin(op Op, a, b *Term) *Term {
	if a.Op == OpFPConst && b.Op == OpFPConst {
		x, y := a.Float(), b.Float()
		switch op {
		case OpFPAdd:
			return FPConst(x + y)
		case OpFPSub:
			return FPConst(x - y)
		case OpFPMul:
			return FPConst(x * y)
		case OpFPDiv:
			return FPConst(x / y)
		}
	}
	return mk(op, SFP, a, b)
}

func fpCmp(op Op, a, b *Term) *Term {
	if a.Op == OpFPConst && b.Op == OpFPConst {
		x, y := a.Float(), b.Float()
		switch op {
		case OpFPLt:
			return Bool(x < y)
		case OpFPLe:
			return Bool(x <= y)
		case OpFPEq:
			return Bool(x == y)
		}
	}
	return mk(op, SBool, a, b)
}

func FPNeg(a *Term) *Term {
	if a.Op == OpFPConst {
		return FPConst(-a.Float())
	}
	return mk(OpFPNeg, SFP, a)
}

func FPFromInt(a *Term, signed bool) *Term {
	if a.IsConst() {
		if signed {
			f, _ := new(big.Float).SetInt(a.Signed()).Float64()
			return FPConst(f)
		}
		f, _ := new(big.Float).SetInt(a.Val).Float64()
		return FPConst(f)
	}
	if signed {
		return mk(OpFPFromSBV, SFP, a)
	}
	return mk(OpFPFromUBV, SFP, a)
}

// FPToInt converts with truncation toward zero. For out-of-range values Go's
// behaviour is implementation-defined; callers add a range obligation.
func FPToInt(a *Term, w int, signed bool) *Term {
	if a.Op == OpFPConst {
		f := a.Float()
		bf := new(big.Float).SetFloat64(math.Trunc(f))
		bi, _ := bf.Int(nil)
		return BVBig(bi, w)
	}
	op := OpFPToUBV
	if signed {
		op = OpFPToSBV
	}
	return TT.intern(&Term{Op: op, Sort: SBV(w), Args: []*Term{a}, I0: w})
}

func FPFromBits(a *Term) *Term {
	if a.IsConst() {
		return FPConst(math.Float64frombits(a.Val.Uint64()))
	}
	return mk(OpFPFromBits, SFP, a)
}

// ---------- printing ----------

func constStr(t *Term) string {
	switch t.Sort.K {
	case KBool:
		if t.Val.Sign() != 0 {
			return "true"
		}
		return "false"
	case KBV:
		if t.Sort.W%4 == 0 {
			s := t.Val.Text(16)
			return "#x" + strings.Repeat("0", t.Sort.W/4-len(s)) + s
		}
		s := t.Val.Text(2)
		return "#b" + strings.Repeat("0", t.Sort.W-len(s)) + s
	default:
		bits := t.Val.Uint64()
		return fmt.Sprintf("(fp #b%01b #b%011b #x%013x)", bits>>63, (bits>>52)&0x7ff, bits&((1<<52)-1))
	}
}

func smtName(n string) string { return "|" + n + "|" }

func ref(t *Term) string {
	switch t.Op {
	case OpConst, OpFPConst:
		return constStr(t)
	case OpVar:
		return smtName(t.Name)
	}
	return fmt.Sprintf("t%d", t.ID)
}

func body(t *Term) string {
	var sb strings.Builder
	args := func() {
		for _, a := range t.Args {
			sb.WriteByte(' ')
			sb.WriteString(ref(a))
		}
	}
	switch t.Op {
	case OpExtract:
		fmt.Fprintf(&sb, "((_ extract %d %d)", t.I0, t.I1)
	case OpZExt:
		fmt.Fprintf(&sb, "((_ zero_extend %d)", t.I0)
	case OpSExt:
		fmt.Fprintf(&sb, "((_ sign_extend %d)", t.I0)
	case OpUF:
		if len(t.Args) == 0 {
			return smtName(t.Name)
		}
		fmt.Fprintf(&sb, "(%s", smtName(t.Name))
	case OpFPFromSBV:
		sb.WriteString("((_ to_fp 11 53) RNE")
	case OpFPFromUBV:
		sb.WriteString("((_ to_fp_unsigned 11 53) RNE")
	case OpFPToSBV:
		fmt.Fprintf(&sb, "((_ fp.to_sbv %d) RTZ", t.I0)
	case OpFPToUBV:
		fmt.Fprintf(&sb, "((_ fp.to_ubv %d) RTZ", t.I0)
	case OpFPFromBits:
		sb.WriteString("((_ to_fp 11 53)")
	default:
		n, ok := opNames[t.Op]
		if !ok {
			panic(fmt.Sprintf("no smt name for op %d", t.Op))
		}
		fmt.Fprintf(&sb, "(%s", n)
	}
	args()
	sb.WriteByte(')')
	return sb.String()
}

// Script renders the cone of influence of the given boolean terms as an
// SMT-LIB2 script asserting all of them. vars returns the variables used.
func Script(asserts []*Term) (string, []*Term) {
	var sb strings.Builder
	seen := map[int]bool{}
	var order []*Term
	var vars []*Term
	ufs := map[string]bool{}
	// iterative post-order
	type fr struct {
		t *Term
		i int
	}
	for _, root := range asserts {
		if seen[root.ID] {
			continue
		}
		st := []fr{{root, 0}}
		seen[root.ID] = true
		for len(st) > 0 {
			f := &st[len(st)-1]
			if f.i < len(f.t.Args) {
				a := f.t.Args[f.i]
				f.i++
				if !seen[a.ID] {
					seen[a.ID] = true
					st = append(st, fr{a, 0})
				}
				continue
			}
			t := f.t
			st = st[:len(st)-1]
			switch t.Op {
			case OpConst, OpFPConst:
			case OpVar:
				vars = append(vars, t)
			default:
				if t.Op == OpUF {
					ufs[t.Name] = true
				}
				order = append(order, t)
			}
		}
	}
	sort.Slice(vars, func(i, j int) bool { return vars[i].ID < vars[j].ID })
	for _, v := range vars {
		fmt.Fprintf(&sb, "(declare-const %s %s)\n", smtName(v.Name), v.Sort)
	}
	var ufn []string
	for n := range ufs {
		ufn = append(ufn, n)
	}
	sort.Strings(ufn)
	for _, n := range ufn {
		d := TT.ufs[n]
		var as []string
		for _, a := range d.args {
			as = append(as, a.String())
		}
		fmt.Fprintf(&sb, "(declare-fun %s (%s) %s)\n", smtName(n), strings.Join(as, " "), d.res)
	}
	for _, t := range order {
		fmt.Fprintf(&sb, "(define-fun t%d () %s %s)\n", t.ID, t.Sort, body(t))
	}
	for _, a := range asserts {
		fmt.Fprintf(&sb, "(assert %s)\n", ref(a))
	}
	return sb.String(), vars
}

// Eval evaluates a term under a model of its variables (used for checking
// models and for concretising observed values).
func Eval(t *Term, model map[string]*Term, memo map[int]*Term) *Term {
	if t.IsConst() {
		return t
	}
	if r, ok := memo[t.ID]; ok {
		return r
	}
	var r *Term
	if t.Op == OpVar {
		if v, ok := model[t.Name]; ok {
			r = v
		} else {
			switch t.Sort.K {
			case KBool:
				r = tFalse
			case KBV:
				r = BV(0, t.Sort.W)
			default:
				r = FPConst(0)
			}
		}
		memo[t.ID] = r
		return r
	}
	args := make([]*Term, len(t.Args))
	for i, a := range t.Args {
		args[i] = Eval(a, model, memo)
	}
	r = rebuild(t, args)
	memo[t.ID] = r
	return r
}

func rebuild(t *Term, a []*Term) *Term {
	switch t.Op {
	case OpNot:
		return Not(a[0])
	case OpAnd:
		return And(a[0], a[1])
	case OpOr:
		return Or(a[0], a[1])
	case OpIte:
		return Ite(a[0], a[1], a[2])
	case OpEq:
		return Eq(a[0], a[1])
	case OpAdd, OpSub, OpMul, OpUDiv, OpURem, OpSDiv, OpSRem, OpBAnd, OpBOr, OpBXor, OpShl, OpLShr, OpAShr:
		return bin(t.Op, a[0], a[1])
	case OpBNot:
		return BNot(a[0])
	case OpNeg:
		return Neg(a[0])
	case OpULt, OpULe, OpSLt, OpSLe:
		return cmp(t.Op, a[0], a[1])
	case OpExtract:
		return Extract(t.I0, t.I1, a[0])
	case OpConcat:
		return Concat(a[0], a[1])
	case OpZExt:
		return ZExt(a[0], t.Sort.W)
	case OpSExt:
		return SExt(a[0], t.Sort.W)
	case OpUF:
		return TT.intern(&Term{Op: OpUF, Sort: t.Sort, Name: t.Name, Args: a})
	case OpFPAdd, OpFPSub, OpFPMul, OpFPDiv:
		return fpBin(t.Op, a[0], a[1])
	case OpFPNeg:
		return FPNeg(a[0])
	case OpFPLt, OpFPLe, OpFPEq:
		return fpCmp(t.Op, a[0], a[1])
	case OpFPFromSBV:
		return FPFromInt(a[0], true)
	case OpFPFromUBV:
		return FPFromInt(a[0], false)
	case OpFPToSBV:
		return FPToInt(a[0], t.I0, true)
	case OpFPToUBV:
		return FPToInt(a[0], t.I0, false)
	case OpFPFromBits:
		return FPFromBits(a[0])
	case OpFPIsNaN:
		if a[0].Op == OpFPConst {
			return Bool(math.IsNaN(a[0].Float()))
		}
		return mk(OpFPIsNaN, SBool, a[0])
	}
	panic("rebuild: unhandled op")
}

func (t *Term) String() string {
	if t.IsConst() {
		if t.Sort.K == KBV {
			return t.Val.String()
		}
		if t.Sort.K == KFP {
			return fmt.Sprint(t.Float())
		}
		return constStr(t)
	}
	if t.Op == OpVar {
		return t.Name
	}
	return fmt.Sprintf("t%d:%s", t.ID, opNames[t.Op])
}

// Pretty prints a bounded-depth expression for diagnostics.
func (t *Term) Pretty(depth int) string {
	if t.IsConst() || t.Op == OpVar || depth == 0 {
		return t.String()
	}
	var parts []string
	for _, a := range t.Args {
		parts = append(parts, a.Pretty(depth-1))
	}
	n := opNames[t.Op]
	switch t.Op {
	case OpExtract:
		n = fmt.Sprintf("extract[%d:%d]", t.I0, t.I1)
	case OpZExt:
		n = "zext"
	case OpSExt:
		n = "sext"
	case OpUF:
		n = t.Name
	}
	return "(" + n + " " + strings.Join(parts, " ") + ")"
}
