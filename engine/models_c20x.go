package main

// Models added for C20x (gossiper handleChanUpdate): sync.Map.
//
// neutrino's cache/lru (the gossiper's prematureChannelUpdates, recentRejects,
// futureMsgs and ban caches) keeps its index in a sync.Map, which since Go 1.24
// is internal/sync.HashTrieMap (unsafe pointers, abi type hashing). In the
// single-threaded engine a sync.Map is an ordinary map[any]any: the model keeps
// one association list (the engine's MapObj, same forking on symbolic keys as
// the built-in map) per sync.Map object.

import (
	"fmt"
	"go/types"
	"reflect"

	"golang.org/x/tools/go/ssa"
)

type syncMapKey struct {
	obj  *Object
	path string
}

var (
	syncMapObjs   = map[syncMapKey]*MapObj{}
	syncMapPathID uintptr
)

// syncMapOf returns the association list behind the *sync.Map receiver.
// Heap objects are per path, so the table is dropped when a new path starts
// (resetPath allocates a fresh onceDone map for every path).
func syncMapOf(ex *Exec, recv Value) *MapObj {
	id := reflect.ValueOf(ex.onceDone).Pointer()
	if id != syncMapPathID {
		syncMapPathID = id
		syncMapObjs = map[syncMapKey]*MapObj{}
	}
	p, ok := recv.(*PtrV)
	if !ok || p.Obj == nil {
		panic(unsupported("sync.Map method on a nil receiver"))
	}
	k := syncMapKey{p.Obj, fmt.Sprint(p.Path)}
	m := syncMapObjs[k]
	if m == nil {
		ex.objCount++
		m = &MapObj{ID: ex.objCount}
		syncMapObjs[k] = m
	}
	return m
}

func init() {
	anyT := types.NewInterfaceType(nil, nil)
	models["(*sync.Map).Load"] = func(ex *Exec, fn *ssa.Function, args []Value, caller *Frame) (Value, *goPanic) {
		v, ok := ex.mapLookup(&MapV{M: syncMapOf(ex, args[0])}, args[1], anyT)
		return &TupleV{E: []Value{v, Bool(ok)}}, nil
	}
	models["(*sync.Map).Store"] = func(ex *Exec, fn *ssa.Function, args []Value, caller *Frame) (Value, *goPanic) {
		ex.mapUpdate(&MapV{M: syncMapOf(ex, args[0])}, args[1], args[2])
		return nil, nil
	}
	models["(*sync.Map).Delete"] = func(ex *Exec, fn *ssa.Function, args []Value, caller *Frame) (Value, *goPanic) {
		ex.mapDelete(&MapV{M: syncMapOf(ex, args[0])}, args[1])
		return nil, nil
	}
	models["(*sync.Map).LoadAndDelete"] = func(ex *Exec, fn *ssa.Function, args []Value, caller *Frame) (Value, *goPanic) {
		m := syncMapOf(ex, args[0])
		i := ex.mapFind(m, args[1])
		if i < 0 {
			return &TupleV{E: []Value{zeroValue(anyT), tFalse}}, nil
		}
		v := m.Vals[i]
		m.Del[i] = true
		return &TupleV{E: []Value{v, tTrue}}, nil
	}
	models["(*sync.Map).LoadOrStore"] = func(ex *Exec, fn *ssa.Function, args []Value, caller *Frame) (Value, *goPanic) {
		m := syncMapOf(ex, args[0])
		i := ex.mapFind(m, args[1])
		if i >= 0 {
			return &TupleV{E: []Value{m.Vals[i], tTrue}}, nil
		}
		m.Keys = append(m.Keys, args[1])
		m.Vals = append(m.Vals, args[2])
		m.Del = append(m.Del, false)
		return &TupleV{E: []Value{args[2], tFalse}}, nil
	}
	// Range visits a snapshot in insertion order (Go's order is unspecified).
	models["(*sync.Map).Range"] = func(ex *Exec, fn *ssa.Function, args []Value, caller *Frame) (Value, *goPanic) {
		m := syncMapOf(ex, args[0])
		f := args[1].(*FuncV)
		n := len(m.Keys)
		for i := 0; i < n; i++ {
			if m.Del[i] {
				continue
			}
			r, p := ex.callValue(caller, f, []Value{m.Keys[i], m.Vals[i]}, nil)
			if p != nil {
				return nil, p
			}
			t, ok := r.(*Term)
			if !ok {
				panic(unsupported("sync.Map.Range: callback result"))
			}
			if t.IsFalse() {
				break
			}
			if !t.IsTrue() {
				panic(unsupported("sync.Map.Range: symbolic stop condition"))
			}
		}
		return nil, nil
	}
}
