package main

import (
	"fmt"

	"golang.org/x/tools/go/ssa"
)

// math/rand as an arbitrary choice: Intn(n) returns any value in [0, n).
func init() {
	intn := func(w int) modelFn {
		return func(ex *Exec, fn *ssa.Function, args []Value, caller *Frame) (Value, *goPanic) {
			n := args[len(args)-1].(*Term)
			v := ex.input(fmt.Sprintf("rand.Intn"), SBV(w))
			zero := BV(0, w)
			ex.addPC(And(SLe(zero, v), SLt(v, n)), nil)
			ex.assumptions["math/rand Intn returns an arbitrary value in [0,n)"] = true
			return v, nil
		}
	}
	models["math/rand.Intn"] = intn(64)
	models["math/rand.Int63n"] = intn(64)
	models["math/rand.Int31n"] = intn(32)
	models["(*math/rand.Rand).Intn"] = intn(64)
	models["math/rand/v2.IntN"] = intn(64)
	// go-spew is reflection based and only produces diagnostic text
	for _, n := range []string{"Sdump", "Sprintf", "Sprint", "Sprintln"} {
		models["github.com/davecgh/go-spew/spew."+n] = opaqueString("<spew." + n + ">")
		models["(*github.com/davecgh/go-spew/spew.ConfigState)."+n] = opaqueString("<spew." + n + ">")
	}
	for _, n := range []string{"Dump", "Printf", "Println", "Fdump", "Fprintf"} {
		models["github.com/davecgh/go-spew/spew."+n] = noopModel
		models["(*github.com/davecgh/go-spew/spew.ConfigState)."+n] = noopModel
	}
}
