package main

// C11, handshake/split harness (harness/C11/zz_verif_c11_split.go): refinement of
// the ideal AEAD Open of models_c11.go for paths that carry SEVERAL key
// schedules (two directions, two Machines).
//
// models_c11.go builds the plaintext of a successful Open as an ite-chain over
// ALL Seals of the path with a ciphertext of the same length:
//     ite(same_0, p_0, ite(same_1, p_1, ... aeaddec(k,n,c)))
// With one key and constant nonces every same_i folds to true/false. With two
// symbolic keys k, k' a Seal under k' is a candidate whenever the solver is free
// to choose k' = k and aeadenc(k,n,p') = aeadenc(k,n,p) for p' != p (aeadenc is
// an arbitrary function, not a bijection per (k,n) as the real cipher is) -
// a spurious "the peer read another plaintext" that never replays.
//
// Refinement (sound for any real cipher, where Dec(k,n,.) is a function and
// therefore all Seals with equal (k,n,c) have the same plaintext): if the
// ciphertext being opened is LITERALLY (term identity) the output of a Seal of
// this path under the literally same key and nonce, that Seal's plaintext is
// the result and the other Seals are not consulted.
//
// Registered over the entry of models_c11.go (init() of this file runs later:
// the go tool passes files in file-name order, "models_c11.go" < "models_c11b.go").

import "golang.org/x/tools/go/ssa"

func modelC11bOpen(ex *Exec, fn *ssa.Function, args []Value, caller *Frame) (Value, *goPanic) {
	key, gp := c11Key(ex, args[0], caller)
	nonceS, okN := args[2].(*SliceV)
	ctS, okC := args[3].(*SliceV)
	if gp == nil && okN && okC && nonceS.Len == 12 && ctS.Len > 16 {
		k, n := c11Cat(key), c11Cat(c11Bytes(ex, nonceS))
		all := c11Bytes(ex, ctS)
		m := len(all) - 16
		cc := c11Cat(all[:m])
		sl := c11Seals(ex)
		for i := len(*sl) - 1; i >= 0; i-- {
			s := (*sl)[i]
			if len(s.c) != m || !Eq(s.k, k).IsTrue() || !Eq(s.n, n).IsTrue() || !Eq(c11Cat(s.c), cc).IsTrue() {
				continue
			}
			saved := *sl
			*sl = []c11SealRec{s}
			defer func() {
				if c11Log.ex == ex && len(c11Log.seals) == 1 {
					c11Log.seals = saved
				}
			}()
			break
		}
	}
	return modelC11Open(ex, fn, args, caller)
}

func init() {
	models["(*golang.org/x/crypto/chacha20poly1305.chacha20poly1305).open"] = modelC11bOpen
}
