package main

// C11, handshake/split harness (harness/C11/zz_verif_c11_split.go): refinement of
// the ideal AEAD Open of models_c11.go for paths that carry SEVERAL key
// schedules (two directions, two Machines).
//
// models_c11.go builds the plaintext of a successful Open as an ite-chain over
// ALL Seals of the path with a ciphertext of the same length:
//     ite(same_0, p_0, ite(same_1, p_1, ... aeaddec(k,n,c)))
// With one key and constant nonces every same_i folds to true/false. With two
// symbolic keys k, k' a Seal under k' is a candidate whenever the solver is free
// to choose k' = k and aeadenc(k,n,p') = aeadenc(k,n,p) for p' != p (aeadenc is
// an arbitrary function, not a bijection per (k,n) as the real cipher is) -
// a spurious "the peer read another plaintext" that never replays.
//
// Refinement (sound for any real cipher, where Dec(k,n,.) is a function and
// therefore all Seals with equal (k,n,c) have the same plaintext): if the
// ciphertext being opened is LITERALLY (term identity) the output of a Seal of
// this path under the literally same key and nonce, that Seal's plaintext is
// the result and the other Seals are not consulted.
//
// Registered over the entry of models_c11.go (init() of this file runs later:
// the go tool passes files in file-name order, "models_c11.go" < "models_c11b.go").

import (
	"go/token"
	"go/types"
	"os"
	"strings"

	"golang.org/x/tools/go/ssa"
)

func modelC11bOpen(ex *Exec, fn *ssa.Function, args []Value, caller *Frame) (Value, *goPanic) {
	key, gp := c11Key(ex, args[0], caller)
	nonceS, okN := args[2].(*SliceV)
	ctS, okC := args[3].(*SliceV)
	if gp == nil && okN && okC && nonceS.Len == 12 && ctS.Len > 16 {
		k, n := c11Cat(key), c11Cat(c11Bytes(ex, nonceS))
		all := c11Bytes(ex, ctS)
		m := len(all) - 16
		cc := c11Cat(all[:m])
		sl := c11Seals(ex)
		for i := len(*sl) - 1; i >= 0; i-- {
			s := (*sl)[i]
			if len(s.c) != m || !Eq(s.k, k).IsTrue() || !Eq(s.n, n).IsTrue() || !Eq(c11Cat(s.c), cc).IsTrue() {
				continue
			}
			saved := *sl
			*sl = []c11SealRec{s}
			defer func() {
				if c11Log.ex == ex && len(c11Log.seals) == 1 {
					c11Log.seals = saved
				}
			}()
			break
		}
	}
	return modelC11Open(ex, fn, args, caller)
}

// ---------- ideal secp256k1 (DESIGN.md §3.5: ECDH with commutativity) ----------
//
// Used by the three-act handshake entry. Scalars and points are OPAQUE; their
// identity is carried inside the ordinary Go values, so copies made by real
// code (FieldVal.Set, struct assignment, AsJacobian, NewPublicKey) keep it:
//
//   PrivateKey.Key.n[0..7]   = the 32 key bytes, big-endian, 4 per limb (no reduction mod N:
//                              the harness assumes the bytes denote a value in [1, N-1])
//   FieldVal.n[0..7], n[8]   = 256-bit payload, kind tag
//       kind 1: point a*G,      x = (a, 1), y = 0
//       kind 2: point a*b*G,    x = (lo, 2), y = (hi, 2) with {lo, hi} = {a, b} ordered by term
//                               id, i.e. ScalarMult(a, b*G) and ScalarMult(b, a*G) are the SAME value
//   SerializeCompressed      = pubser(a) resp. dhser(lo, hi): uninterpreted 33-byte strings
//   ParsePubKey              = inverse of pubser on bytes that literally are a pubser(a);
//                              anything else (a manipulated key) is unsupported -> INCONCLUSIVE
//
// Everything else of the ECDH path (keychain.PrivKeyECDH.ECDH, AsJacobian,
// NewPublicKey, sha256) runs as ordinary code.

const (
	c11bKindPub = 1
	c11bKindDH  = 2
)

func c11bFieldVal(payload *Term, kind uint64) Value {
	n := make([]Value, 10)
	for i := 0; i < 8; i++ {
		n[i] = Extract(32*(8-i)-1, 32*(7-i), payload)
	}
	n[8] = BV(kind, 32)
	n[9] = BV(0, 32)
	return &StructV{F: []Value{&ArrayV{E: n}}}
}

func c11bZeroField() Value {
	n := make([]Value, 10)
	for i := range n {
		n[i] = BV(0, 32)
	}
	return &StructV{F: []Value{&ArrayV{E: n}}}
}

func c11bLimbs(v Value, cnt int) []*Term {
	arr := v.(*StructV).F[0].(*ArrayV)
	r := make([]*Term, cnt)
	for i := 0; i < cnt; i++ {
		r[i] = arr.E[i].(*Term)
	}
	return r
}

// c11bField decodes a carrier; kind 0 = not a carrier.
func c11bField(v Value) (payload *Term, kind uint64) {
	l := c11bLimbs(v, 10)
	if !l[8].IsConst() || !l[9].IsConst() || l[9].Val.Sign() != 0 {
		return nil, 0
	}
	k := l[8].Val.Uint64()
	if k != c11bKindPub && k != c11bKindDH {
		return nil, 0
	}
	return c11Cat(l[:8]), k
}

func c11bNote(ex *Exec) {
	ex.assumptions["secp256k1 idealised: private keys are their 32 bytes (assumed in [1, N-1]); a*G and a*(b*G) are opaque values, a*(b*G) = b*(a*G) by construction; SerializeCompressed = uninterpreted pubser(a) / dhser({a,b}); ParsePubKey inverts pubser on unmodified bytes only"] = true
}

func c11bType(fn *ssa.Function, name string) types.Type {
	m := fn.Pkg.Type(name)
	if m == nil {
		panic(unsupported("secp256k1 model: type " + name + " not found"))
	}
	return m.Type()
}

func modelC11bPrivFromBytes(ex *Exec, fn *ssa.Function, args []Value, caller *Frame) (Value, *goPanic) {
	b := c11Bytes(ex, args[0])
	if len(b) != 32 {
		panic(unsupported("secp256k1 model: PrivKeyFromBytes needs 32 bytes"))
	}
	n := make([]Value, 8)
	for i := range n {
		n[i] = c11Cat(b[4*i : 4*i+4])
	}
	t := c11bType(fn, "PrivateKey")
	v := &StructV{F: []Value{&StructV{F: []Value{&ArrayV{E: n}}}}}
	c11bNote(ex)
	return &PtrV{Obj: ex.newObject(t, v, "secp256k1.PrivateKey")}, nil
}

func c11bNewPub(ex *Exec, fn *ssa.Function, a *Term) Value {
	t := c11bType(fn, "PublicKey")
	v := &StructV{F: []Value{c11bFieldVal(a, c11bKindPub), c11bZeroField()}}
	return &PtrV{Obj: ex.newObject(t, v, "secp256k1.PublicKey")}
}

func modelC11bPubKey(ex *Exec, fn *ssa.Function, args []Value, caller *Frame) (Value, *goPanic) {
	v, gp := ex.load(args[0].(*PtrV), token.NoPos, caller)
	if gp != nil {
		return nil, gp
	}
	a := c11Cat(c11bLimbs(v.(*StructV).F[0], 8))
	c11bNote(ex)
	return c11bNewPub(ex, fn, a), nil
}

func modelC11bScalarMult(ex *Exec, fn *ssa.Function, args []Value, caller *Frame) (Value, *goPanic) {
	kv, gp := ex.load(args[0].(*PtrV), token.NoPos, caller)
	if gp != nil {
		return nil, gp
	}
	pv, gp := ex.load(args[1].(*PtrV), token.NoPos, caller)
	if gp != nil {
		return nil, gp
	}
	a := c11Cat(c11bLimbs(kv, 8))
	b, kind := c11bField(pv.(*StructV).F[0])
	if kind != c11bKindPub {
		panic(unsupported("secp256k1 model: ScalarMultNonConst on a point that is not a*G"))
	}
	lo, hi := a, b
	if hi.ID < lo.ID {
		lo, hi = hi, lo
	}
	one := c11bZeroField()
	one.(*StructV).F[0].(*ArrayV).E[0] = BV(1, 32)
	res := &StructV{F: []Value{c11bFieldVal(lo, c11bKindDH), c11bFieldVal(hi, c11bKindDH), one}}
	c11bNote(ex)
	return nil, ex.store(args[2].(*PtrV), res, token.NoPos, caller)
}

func modelC11bToAffine(ex *Exec, fn *ssa.Function, args []Value, caller *Frame) (Value, *goPanic) {
	v, gp := ex.load(args[0].(*PtrV), token.NoPos, caller)
	if gp != nil {
		return nil, gp
	}
	if _, kind := c11bField(v.(*StructV).F[0]); kind == 0 {
		panic(unsupported("secp256k1 model: ToAffine on a point not produced by the model"))
	}
	return nil, nil
}

func modelC11bSerialize(ex *Exec, fn *ssa.Function, args []Value, caller *Frame) (Value, *goPanic) {
	p := args[0].(*StructV)
	x, kind := c11bField(p.F[0])
	var out *Term
	switch kind {
	case c11bKindPub:
		out = UF("pubser", SBV(264), x)
	case c11bKindDH:
		y, _ := c11bField(p.F[1])
		out = UF("dhser", SBV(264), x, y)
	default:
		panic(unsupported("secp256k1 model: SerializeCompressed of a key not produced by the model"))
	}
	s := ex.makeSlice(types.Typ[types.Uint8], 33, 33)
	c11Write(s, c11Split(out, 33))
	c11bNote(ex)
	return s, nil
}

func modelC11bParsePubKey(ex *Exec, fn *ssa.Function, args []Value, caller *Frame) (Value, *goPanic) {
	b := c11Bytes(ex, args[0])
	if len(b) == 33 {
		if t := c11Cat(b); t.Op == OpUF && strings.HasPrefix(t.Name, "pubser") && len(t.Args) == 1 {
			c11bNote(ex)
			return &TupleV{E: []Value{c11bNewPub(ex, fn, t.Args[0]), &IfaceV{}}}, nil
		}
	}
	panic(unsupported("secp256k1 model: ParsePubKey of bytes that are not literally a serialised model key (manipulated keys are outside)"))
}

// c11bSecpWanted: the secp256k1 model replaces real curve code, which other
// properties execute concretely; it is registered only for the brontide
// package (or VERIF_C11_SECP=1).
func c11bSecpWanted() bool {
	if v := os.Getenv("VERIF_C11_SECP"); v != "" {
		return v == "1"
	}
	dir, pkg := "", ""
	for i, a := range os.Args {
		if i+1 < len(os.Args) {
			switch a {
			case "-dir":
				dir = os.Args[i+1]
			case "-pkg":
				pkg = os.Args[i+1]
			}
		}
	}
	full := strings.TrimRight(dir, "/") + "/" + strings.TrimPrefix(pkg, "./")
	full = strings.TrimRight(strings.TrimSuffix(full, "."), "/")
	return strings.HasSuffix(full, "/brontide")
}

func init() {
	models["(*golang.org/x/crypto/chacha20poly1305.chacha20poly1305).open"] = modelC11bOpen
	if !c11bSecpWanted() {
		return
	}
	const secp = "github.com/decred/dcrd/dcrec/secp256k1/v4."
	models[secp+"PrivKeyFromBytes"] = modelC11bPrivFromBytes
	models["(*"+secp+"PrivateKey).PubKey"] = modelC11bPubKey
	models[secp+"ScalarMultNonConst"] = modelC11bScalarMult
	models["(*"+secp+"JacobianPoint).ToAffine"] = modelC11bToAffine
	models["("+secp+"PublicKey).SerializeCompressed"] = modelC11bSerialize
	models[secp+"ParsePubKey"] = modelC11bParsePubKey
}
