package main

// Elimination of division/remainder by a constant: bit-blasting a 64-bit
// divider stalls every available back end, while the definitional extension
//   x = q*c + r, 0 <= r < c, no wrap
// with fresh q, r only needs a constant multiplier. q and r are uniquely
// determined by x, so the rewritten query is equisatisfiable.

import (
	"fmt"
	"math/big"
)

var ElimConstDiv = true

func isPow2(v *big.Int) bool {
	return v.Sign() > 0 && new(big.Int).And(v, new(big.Int).Sub(v, big.NewInt(1))).Sign() == 0
}

func elimDiv(asserts []*Term) []*Term {
	if !ElimConstDiv {
		return asserts
	}
	memo := map[int]*Term{}
	var side []*Term
	defs := map[string][2]*Term{} // key: op-kind + x id + c -> (q, r)
	var rw func(t *Term) *Term
	rw = func(t *Term) *Term {
		if t.IsConst() || t.Op == OpVar {
			return t
		}
		if r, ok := memo[t.ID]; ok {
			return r
		}
		args := make([]*Term, len(t.Args))
		changed := false
		for i, a := range t.Args {
			args[i] = rw(a)
			if args[i] != a {
				changed = true
			}
		}
		var res *Term
		switch t.Op {
		case OpUDiv, OpURem, OpSDiv, OpSRem:
			x, c := args[0], args[1]
			if c.IsConst() && !x.IsConst() && c.Sort.W >= 16 {
				signed := t.Op == OpSDiv || t.Op == OpSRem
				cv := c.Val
				if signed {
					cv = c.Signed()
				}
				if cv.Sign() > 0 && !isPow2(cv) {
					w := x.Sort.W
					key := fmt.Sprintf("%v|%d|%s", signed, x.ID, cv.String())
					qr, ok := defs[key]
					if !ok {
						q := Var(fmt.Sprintf("$dq%d_%d_%s", btoi(signed), x.ID, cv.String()), SBV(w))
						r := Var(fmt.Sprintf("$dr%d_%d_%s", btoi(signed), x.ID, cv.String()), SBV(w))
						qc := Mul(q, c)
						zero := BV(0, w)
						if !signed {
							qmax := new(big.Int).Quo(mask(w), cv)
							side = append(side,
								ULe(q, BVBig(qmax, w)), // q*c does not wrap
								ULe(qc, x),             // q*c <= x
								Eq(r, Sub(x, qc)),
								ULt(r, c))
						} else {
							maxI := new(big.Int).Sub(new(big.Int).Lsh(big.NewInt(1), uint(w-1)), big.NewInt(1))
							qmax := new(big.Int).Quo(maxI, cv)
							negc := BVBig(new(big.Int).Neg(cv), w)
							side = append(side,
								SLe(BVBig(new(big.Int).Neg(qmax), w), q), SLe(q, BVBig(qmax, w)),
								Eq(r, Sub(x, qc)),
								Ite(SGe(x, zero),
									AndN(SLe(zero, qc), SLe(qc, x), SLe(zero, r), SLt(r, c)),
									AndN(SLe(x, qc), SLe(qc, zero), SLe(r, zero), SLt(negc, r))))
						}
						qr = [2]*Term{q, r}
						defs[key] = qr
					}
					if t.Op == OpUDiv || t.Op == OpSDiv {
						res = qr[0]
					} else {
						res = qr[1]
					}
				}
			}
		}
		if res == nil {
			if changed {
				res = rebuild(t, args)
			} else {
				res = t
			}
		}
		memo[t.ID] = res
		return res
	}
	out := make([]*Term, 0, len(asserts))
	for _, a := range asserts {
		out = append(out, rw(a))
	}
	return append(out, side...)
}

func btoi(b bool) int {
	if b {
		return 1
	}
	return 0
}
