package main

// Product lemmas. Bit-blasting a 64x64 multiplication whose operands are both
// symbolic makes range questions ("does this sum overflow?") very slow, while
// the isolated fact "x in [a,b], y in [c,d]  =>  x*y in [lo,hi]" is cheap.
// Before a query is sent, every symbolic*symbolic product t = x*y in it gets a
// redundant conjunct lo <= t <= hi, where the operand ranges come from a
// simple interval analysis of the query's own top-level bounds and the
// product range is *verified by the solver* on fresh variables (cached). The
// lemma is implied by the query, so verdicts are unchanged; it only prunes.

import (
	"fmt"
	"math/big"
)

var ProductLemmas = true

type ival struct {
	ulo, uhi *big.Int // unsigned view
	slo, shi *big.Int // signed view
}

func fullIval(w int) ival {
	return ival{big.NewInt(0), mask(w), new(big.Int).Neg(new(big.Int).Lsh(big.NewInt(1), uint(w-1))),
		new(big.Int).Sub(new(big.Int).Lsh(big.NewInt(1), uint(w-1)), big.NewInt(1))}
}

func (v ival) normalize(w int) ival {
	f := fullIval(w)
	if v.ulo == nil || v.uhi == nil || v.ulo.Sign() < 0 || v.uhi.Cmp(f.uhi) > 0 || v.ulo.Cmp(v.uhi) > 0 {
		v.ulo, v.uhi = f.ulo, f.uhi
	}
	if v.slo == nil || v.shi == nil || v.slo.Cmp(f.slo) < 0 || v.shi.Cmp(f.shi) > 0 || v.slo.Cmp(v.shi) > 0 {
		v.slo, v.shi = f.slo, f.shi
	}
	// exchange information between the views
	half := new(big.Int).Lsh(big.NewInt(1), uint(w-1))
	if v.uhi.Cmp(half) < 0 { // unsigned values below 2^(w-1): signed == unsigned
		if v.slo.Cmp(v.ulo) < 0 {
			v.slo = v.ulo
		}
		if v.shi.Cmp(v.uhi) > 0 {
			v.shi = v.uhi
		}
	}
	if v.slo.Sign() >= 0 { // non-negative signed: unsigned == signed
		if v.ulo.Cmp(v.slo) < 0 {
			v.ulo = v.slo
		}
		if v.uhi.Cmp(v.shi) > 0 {
			v.uhi = v.shi
		}
	}
	if v.ulo.Cmp(v.uhi) > 0 || v.slo.Cmp(v.shi) > 0 {
		return f // inconsistent (query is unsat anyway): say nothing
	}
	return v
}

func (v ival) isFull(w int) bool {
	f := fullIval(w)
	return v.ulo.Cmp(f.ulo) == 0 && v.uhi.Cmp(f.uhi) == 0 && v.slo.Cmp(f.slo) == 0 && v.shi.Cmp(f.shi) == 0
}

type ivalCtx struct {
	bounds map[int]ival
	memo   map[int]ival
}

func meet(a, b ival) ival {
	r := a
	if b.ulo.Cmp(r.ulo) > 0 {
		r.ulo = b.ulo
	}
	if b.uhi.Cmp(r.uhi) < 0 {
		r.uhi = b.uhi
	}
	if b.slo.Cmp(r.slo) > 0 {
		r.slo = b.slo
	}
	if b.shi.Cmp(r.shi) < 0 {
		r.shi = b.shi
	}
	return r
}

func (c *ivalCtx) restrict(t *Term, f func(v *ival)) {
	if t.Sort.K != KBV || t.IsConst() {
		return
	}
	v, ok := c.bounds[t.ID]
	if !ok {
		v = fullIval(t.Sort.W)
	}
	f(&v)
	c.bounds[t.ID] = v.normalize(t.Sort.W)
}

func maxB(a, b *big.Int) *big.Int {
	if a.Cmp(b) >= 0 {
		return a
	}
	return b
}
func minB(a, b *big.Int) *big.Int {
	if a.Cmp(b) <= 0 {
		return a
	}
	return b
}

// collect bound atoms from a conjunct that is known to hold.
func (c *ivalCtx) collect(t *Term, positive bool) {
	one := big.NewInt(1)
	switch t.Op {
	case OpAnd:
		if positive {
			c.collect(t.Args[0], true)
			c.collect(t.Args[1], true)
		}
	case OpOr:
		if !positive {
			c.collect(t.Args[0], false)
			c.collect(t.Args[1], false)
		}
	case OpNot:
		c.collect(t.Args[0], !positive)
	case OpEq:
		if positive && t.Args[0].Sort.K == KBV {
			a, b := t.Args[0], t.Args[1]
			if a.IsConst() {
				a, b = b, a
			}
			if b.IsConst() {
				c.restrict(a, func(v *ival) {
					v.ulo, v.uhi = b.Val, b.Val
					v.slo, v.shi = b.Signed(), b.Signed()
				})
			}
		}
	case OpULt, OpULe, OpSLt, OpSLe:
		a, b := t.Args[0], t.Args[1]
		signed := t.Op == OpSLt || t.Op == OpSLe
		strict := t.Op == OpULt || t.Op == OpSLt
		if !positive { // not(a < b) == b <= a ; not(a <= b) == b < a
			a, b = b, a
			strict = !strict
		}
		val := func(k *Term) *big.Int {
			if signed {
				return k.Signed()
			}
			return k.Val
		}
		if b.IsConst() && !a.IsConst() { // a (<|<=) const
			hi := new(big.Int).Set(val(b))
			if strict {
				hi.Sub(hi, one)
			}
			c.restrict(a, func(v *ival) {
				if signed {
					v.shi = minB(v.shi, hi)
				} else {
					v.uhi = minB(v.uhi, hi)
				}
			})
		} else if a.IsConst() && !b.IsConst() { // const (<|<=) b
			lo := new(big.Int).Set(val(a))
			if strict {
				lo.Add(lo, one)
			}
			c.restrict(b, func(v *ival) {
				if signed {
					v.slo = maxB(v.slo, lo)
				} else {
					v.ulo = maxB(v.ulo, lo)
				}
			})
		}
	}
}

func (c *ivalCtx) of(t *Term) ival {
	w := t.Sort.W
	if t.IsConst() {
		return ival{t.Val, t.Val, t.Signed(), t.Signed()}
	}
	if v, ok := c.memo[t.ID]; ok {
		return v
	}
	c.memo[t.ID] = fullIval(w) // cycle guard (DAG: not needed, but cheap)
	r := fullIval(w)
	f := fullIval(w)
	switch t.Op {
	case OpZExt:
		a := c.of(t.Args[0])
		r = ival{a.ulo, a.uhi, a.ulo, a.uhi}
	case OpSExt:
		a := c.of(t.Args[0])
		r.slo, r.shi = a.slo, a.shi
	case OpExtract:
		if t.I1 == 0 {
			a := c.of(t.Args[0])
			if a.uhi.Cmp(f.uhi) <= 0 {
				r.ulo, r.uhi = a.ulo, a.uhi
			}
			if a.slo.Cmp(f.slo) >= 0 && a.shi.Cmp(f.shi) <= 0 {
				r.slo, r.shi = a.slo, a.shi
			}
		}
	case OpIte:
		a, b := c.of(t.Args[1]), c.of(t.Args[2])
		r = ival{minB(a.ulo, b.ulo), maxB(a.uhi, b.uhi), minB(a.slo, b.slo), maxB(a.shi, b.shi)}
	case OpAdd:
		a, b := c.of(t.Args[0]), c.of(t.Args[1])
		if hi := new(big.Int).Add(a.uhi, b.uhi); hi.Cmp(f.uhi) <= 0 {
			r.ulo, r.uhi = new(big.Int).Add(a.ulo, b.ulo), hi
		}
		lo, hi := new(big.Int).Add(a.slo, b.slo), new(big.Int).Add(a.shi, b.shi)
		if lo.Cmp(f.slo) >= 0 && hi.Cmp(f.shi) <= 0 {
			r.slo, r.shi = lo, hi
		}
	case OpSub:
		a, b := c.of(t.Args[0]), c.of(t.Args[1])
		if a.ulo.Cmp(b.uhi) >= 0 {
			r.ulo, r.uhi = new(big.Int).Sub(a.ulo, b.uhi), new(big.Int).Sub(a.uhi, b.ulo)
		}
		lo, hi := new(big.Int).Sub(a.slo, b.shi), new(big.Int).Sub(a.shi, b.slo)
		if lo.Cmp(f.slo) >= 0 && hi.Cmp(f.shi) <= 0 {
			r.slo, r.shi = lo, hi
		}
	case OpMul:
		a, b := c.of(t.Args[0]), c.of(t.Args[1])
		if hi := new(big.Int).Mul(a.uhi, b.uhi); hi.Cmp(f.uhi) <= 0 {
			r.ulo, r.uhi = new(big.Int).Mul(a.ulo, b.ulo), hi
		}
		ps := []*big.Int{new(big.Int).Mul(a.slo, b.slo), new(big.Int).Mul(a.slo, b.shi),
			new(big.Int).Mul(a.shi, b.slo), new(big.Int).Mul(a.shi, b.shi)}
		lo, hi := ps[0], ps[0]
		for _, p := range ps[1:] {
			lo, hi = minB(lo, p), maxB(hi, p)
		}
		if lo.Cmp(f.slo) >= 0 && hi.Cmp(f.shi) <= 0 {
			r.slo, r.shi = lo, hi
		}
	case OpUDiv:
		a := c.of(t.Args[0])
		if d := t.Args[1]; d.IsConst() && d.Val.Sign() > 0 {
			r.ulo, r.uhi = new(big.Int).Quo(a.ulo, d.Val), new(big.Int).Quo(a.uhi, d.Val)
		} else {
			r.uhi = a.uhi
		}
	case OpURem:
		if d := t.Args[1]; d.IsConst() && d.Val.Sign() > 0 {
			r.uhi = new(big.Int).Sub(d.Val, big.NewInt(1))
		}
	case OpSDiv:
		a := c.of(t.Args[0])
		if d := t.Args[1]; d.IsConst() && d.Signed().Sign() > 0 {
			r.slo, r.shi = new(big.Int).Quo(a.slo, d.Signed()), new(big.Int).Quo(a.shi, d.Signed())
		}
	case OpSRem:
		a := c.of(t.Args[0])
		if d := t.Args[1]; d.IsConst() && d.Signed().Sign() > 0 {
			m := new(big.Int).Sub(d.Signed(), big.NewInt(1))
			r.slo, r.shi = new(big.Int).Neg(m), m
			if a.slo.Sign() >= 0 {
				r.slo = big.NewInt(0)
			}
			if a.shi.Sign() <= 0 {
				r.shi = big.NewInt(0)
			}
		}
	case OpBAnd:
		a, b := c.of(t.Args[0]), c.of(t.Args[1])
		r.uhi = minB(a.uhi, b.uhi)
	case OpLShr:
		a := c.of(t.Args[0])
		r.uhi = a.uhi
	}
	r = r.normalize(w)
	if b, ok := c.bounds[t.ID]; ok {
		r = meet(r, b).normalize(w)
	}
	c.memo[t.ID] = r
	return r
}

// productLemmas returns verified range conjuncts for the symbolic products in
// the cone of asserts.
func (s *SolverSet) productLemmas(asserts []*Term) []*Term {
	if !ProductLemmas || s.inLemma {
		return nil
	}
	ctx := &ivalCtx{bounds: map[int]ival{}, memo: map[int]ival{}}
	for _, a := range asserts {
		ctx.collect(a, true)
	}
	var prods []*Term
	seen := map[int]bool{}
	var st []*Term
	st = append(st, asserts...)
	for len(st) > 0 {
		t := st[len(st)-1]
		st = st[:len(st)-1]
		if seen[t.ID] {
			continue
		}
		seen[t.ID] = true
		if t.Op == OpMul && !t.Args[0].IsConst() && !t.Args[1].IsConst() && t.Sort.W >= 16 {
			prods = append(prods, t)
		}
		st = append(st, t.Args...)
	}
	if len(prods) == 0 || len(prods) > 64 {
		return nil
	}
	var out []*Term
	for _, t := range prods {
		w := t.Sort.W
		a, b := ctx.of(t.Args[0]), ctx.of(t.Args[1])
		if a.isFull(w) || b.isFull(w) {
			continue
		}
		p := ctx.of(t)
		f := fullIval(w)
		// signed product range
		if p.slo.Cmp(f.slo) > 0 || p.shi.Cmp(f.shi) < 0 {
			if s.verifyProduct(w, true, a.slo, a.shi, b.slo, b.shi, p.slo, p.shi) {
				out = append(out, SLe(BVBig(p.slo, w), t), SLe(t, BVBig(p.shi, w)))
				s.LemmaN++
			}
		}
		if p.ulo.Cmp(f.ulo) > 0 || p.uhi.Cmp(f.uhi) < 0 {
			if s.verifyProduct(w, false, a.ulo, a.uhi, b.ulo, b.uhi, p.ulo, p.uhi) {
				out = append(out, ULe(BVBig(p.ulo, w), t), ULe(t, BVBig(p.uhi, w)))
				s.LemmaN++
			}
		}
	}
	return out
}

// verifyProduct asks the solver whether x in [xl,xh], y in [yl,yh] implies
// x*y (w-bit, wrapping) in [pl,ph], in the signed or unsigned reading.
func (s *SolverSet) verifyProduct(w int, signed bool, xl, xh, yl, yh, pl, ph *big.Int) bool {
	key := fmt.Sprintf("%d|%v|%s|%s|%s|%s|%s|%s", w, signed, xl, xh, yl, yh, pl, ph)
	if r, ok := s.lemmaCache[key]; ok {
		return r
	}
	x := Var(fmt.Sprintf("$lx%d", w), SBV(w))
	y := Var(fmt.Sprintf("$ly%d", w), SBV(w))
	le := ULe
	if signed {
		le = SLe
	}
	c := func(v *big.Int) *Term { return BVBig(v, w) }
	// exact (2w-bit) product must lie in the range: this also rules out wrap
	var wide, lo2, hi2 *Term
	if signed {
		wide = Mul(SExt(x, 2*w), SExt(y, 2*w))
		lo2, hi2 = BVBig(pl, 2*w), BVBig(ph, 2*w)
	} else {
		wide = Mul(ZExt(x, 2*w), ZExt(y, 2*w))
		lo2, hi2 = BVBig(pl, 2*w), BVBig(ph, 2*w)
	}
	q := []*Term{le(c(xl), x), le(x, c(xh)), le(c(yl), y), le(y, c(yh)),
		Not(And(le(lo2, wide), le(wide, hi2)))}
	s.inLemma = true
	r, _, _ := s.Check(q, false)
	s.inLemma = false
	ok := r == Unsat
	if s.lemmaCache == nil {
		s.lemmaCache = map[string]bool{}
	}
	s.lemmaCache[key] = ok
	return ok
}
