package main

// Sat-model cache (added for C12): SolverSet.Check reuses the model of an
// earlier "sat" answer for the identical set of assertions (terms are
// hash-consed, so equal ids = equal terms). Without it every re-execution of a
// path prefix re-asks the solver for vAssume and for the decisions inside
// vMerge'd callees, because the result cache only served model-less queries.
var satModelCache = map[*SolverSet]map[string]map[string]*Term{}

func (s *SolverSet) cachedSatModel(key string) (map[string]*Term, bool) {
	m, ok := satModelCache[s][key]
	return m, ok
}

func (s *SolverSet) rememberSatModel(key string, m map[string]*Term) {
	if m == nil {
		return
	}
	c := satModelCache[s]
	if c == nil {
		// one live SolverSet at a time (runEntry): drop older caches
		for k := range satModelCache {
			delete(satModelCache, k)
		}
		c = map[string]map[string]*Term{}
		satModelCache[s] = c
	}
	c[key] = m
}
