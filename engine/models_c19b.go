package main

// Model added for property C19, findPath extension (h-C19b).
//
// routing.getProbabilityBasedDist(weight int64, probability, penalty float64):
//
//	dist := float64(weight) + penalty/probability
//	if dist > 9e18 { return infinity }
//	return int64(dist)
//
// findPath calls it with a symbolic integer weight and (in the C19 harness)
// concrete floats. Executed literally this puts an IEEE-754 term
// fp.to_sbv(fp.add(to_fp(weight), c)) into every later heap comparison, and
// each such query costs 7-10 s in the only solver that answers it (cvc5).
//
// For concrete probability > 0 and penalty, c = penalty/probability is a
// concrete double. If 0 <= c < 2^48 and frac(c) < 1 - 2^-4, then for every
// integer 0 <= w <= 2^49:
//   * float64(w) is exact (|w| < 2^53);
//   * s = w + c < 2^50, so the doubles around s are spaced at most 2^-3 apart;
//     w+floor(c) and w+floor(c)+1 are themselves doubles, round-to-nearest is
//     monotone, hence w+floor(c) <= fl(s) <= w+floor(c)+1, and the upper value
//     is only hit if s >= w+floor(c)+1-2^-4, i.e. frac(c) >= 1-2^-4: excluded;
//   * fl(s) < 2^50 < 9e18, and truncation gives exactly w + floor(c).
// So the function's value is the integer term weight + floor(c) on that range.
//
// The model
//   1. applies only if probability and penalty are concrete and c satisfies
//      the side conditions (otherwise the real body is executed as before);
//   2. re-validates the closed form against the REAL function body of the
//      current tree: the body is executed by the engine on concrete sample
//      weights (0, 1, 2^49, ...) and must return w + floor(c) (or infinity for
//      probability 0) on each of them; if it does not (getProbabilityBasedDist
//      was changed), the path ends INCONCLUSIVE "unsupported";
//   3. asks the solver whether weight can leave [0, 2^49] under the path
//      condition; if it can, this is recorded as INCONCLUSIVE (never silently
//      assumed) and the path continues on the in-range side.

import (
	"fmt"
	"math"

	"golang.org/x/tools/go/ssa"
)

const c19bDistFn = "github.com/lightningnetwork/lnd/routing.getProbabilityBasedDist"

var c19bChecked = map[[2]uint64]bool{}

func init() {
	models[c19bDistFn] = modelC19bProbDist
}

func modelC19bProbDist(ex *Exec, fn *ssa.Function, args []Value, caller *Frame) (Value, *goPanic) {
	w, ok0 := args[0].(*Term)
	prob, ok1 := args[1].(*Term)
	pen, ok2 := args[2].(*Term)
	if !ok0 || !ok1 || !ok2 || w.IsConst() || prob.Op != OpFPConst || pen.Op != OpFPConst || ex.tolerant > 0 {
		return ex.runFunction(fn, args, nil, caller, false)
	}
	p, q := prob.Float(), pen.Float()
	if !(p > 0) || math.IsNaN(q) {
		return ex.runFunction(fn, args, nil, caller, false)
	}
	c := q / p
	k := math.Floor(c)
	if !(c >= 0) || !(c < float64(uint64(1)<<48)) || !(c-k < 1-1.0/16) {
		return ex.runFunction(fn, args, nil, caller, false)
	}
	ki := int64(k)
	key := [2]uint64{math.Float64bits(p), math.Float64bits(q)}
	if !c19bChecked[key] {
		for _, s := range []int64{0, 1, 2, 999, 1<<20 + 7, 999_999_999_999, 1<<49 - 1, 1 << 49} {
			r, gp := ex.runFunction(fn, []Value{BVI(s, 64), prob, pen}, nil, caller, false)
			rt, isT := r.(*Term)
			if gp != nil || !isT || !rt.IsConst() || rt.Signed().Int64() != s+ki {
				panic(unsupported(fmt.Sprintf("getProbabilityBasedDist model: real body disagrees with weight+floor(penalty/probability) at weight=%d (penalty=%v probability=%v)", s, q, p)))
			}
		}
		c19bChecked[key] = true
	}
	inRange := And(SLe(BVI(0, 64), w), SLe(w, BVI(1<<49, 64)))
	if ex.feasible(Not(inRange)) {
		ex.addInconclusive("unsupported", "getProbabilityBasedDist model: weight may leave [0, 2^49]", ex.posStr(ex.curCallPos(caller)))
		ex.assume(inRange)
	}
	return Add(w, BVI(ki, 64)), nil
}
