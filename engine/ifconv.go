package main

// If-conversion ("pure-diamond merging"): when the region between a symbolic
// branch and its immediate post-dominator consists only of side-effect-free,
// non-trapping instructions, both arms are evaluated under guards and the
// phis at the join become ite terms, so && / || / clamps do not fork paths.

import (
	"go/token"
	"go/types"

	"golang.org/x/tools/go/ssa"
)

type pdomInfo struct {
	ipdom   []int // immediate post-dominator block index, -1 = exit
	regions map[int]*region
}

type region struct {
	ok     bool
	blocks []*ssa.BasicBlock // topological order, excluding the branch block and the join
	join   *ssa.BasicBlock
}

func (ex *Exec) pdomOf(fn *ssa.Function) *pdomInfo {
	if pi, ok := ex.pdom[fn]; ok {
		return pi
	}
	n := len(fn.Blocks)
	exit := n
	// post-dominator sets via iterative intersection on indices, using the
	// classic Cooper-Harvey-Kennedy algorithm on the reverse CFG.
	succs := make([][]int, n+1)
	preds := make([][]int, n+1) // preds in reverse graph = succs in CFG
	for _, b := range fn.Blocks {
		if len(b.Succs) == 0 {
			succs[b.Index] = []int{exit}
		}
		for _, s := range b.Succs {
			succs[b.Index] = append(succs[b.Index], s.Index)
		}
	}
	for i := 0; i <= n; i++ {
		for _, s := range succs[i] {
			preds[s] = append(preds[s], i)
		}
	}
	// reverse post-order of the reverse graph starting from exit
	order := []int{}
	seen := make([]bool, n+1)
	var dfs func(int)
	dfs = func(u int) {
		seen[u] = true
		for _, v := range preds[u] {
			if !seen[v] {
				dfs(v)
			}
		}
		order = append(order, u)
	}
	dfs(exit)
	rpoNum := make([]int, n+1)
	for i := range rpoNum {
		rpoNum[i] = -1
	}
	for i, u := range order {
		rpoNum[u] = i // post-order number
	}
	idom := make([]int, n+1)
	for i := range idom {
		idom[i] = -2
	}
	idom[exit] = exit
	intersect := func(a, b int) int {
		for a != b {
			for rpoNum[a] < rpoNum[b] {
				a = idom[a]
			}
			for rpoNum[b] < rpoNum[a] {
				b = idom[b]
			}
		}
		return a
	}
	changed := true
	for changed {
		changed = false
		for i := len(order) - 2; i >= 0; i-- {
			u := order[i]
			newIdom := -2
			for _, s := range succs[u] {
				if idom[s] == -2 {
					continue
				}
				if newIdom == -2 {
					newIdom = s
				} else {
					newIdom = intersect(s, newIdom)
				}
			}
			if newIdom != -2 && idom[u] != newIdom {
				idom[u] = newIdom
				changed = true
			}
		}
	}
	pi := &pdomInfo{ipdom: make([]int, n), regions: map[int]*region{}}
	for i := 0; i < n; i++ {
		if idom[i] == exit || idom[i] == -2 {
			pi.ipdom[i] = -1
		} else {
			pi.ipdom[i] = idom[i]
		}
	}
	ex.pdom[fn] = pi
	return pi
}

func pureInstr(in ssa.Instruction) bool {
	switch x := in.(type) {
	case *ssa.Phi, *ssa.DebugRef, *ssa.ChangeType, *ssa.ChangeInterface, *ssa.MakeInterface,
		*ssa.Field, *ssa.FieldAddr, *ssa.Extract, *ssa.Convert, *ssa.BinOp:
		return true
	case *ssa.UnOp:
		return x.Op != token.ARROW
	case *ssa.Index, *ssa.IndexAddr:
		return true // dynamic check: concrete in-range index
	case *ssa.TypeAssert:
		return x.CommaOk
	case *ssa.Call:
		if b, ok := x.Call.Value.(*ssa.Builtin); ok {
			switch b.Name() {
			case "len", "cap", "min", "max":
				return true
			}
		}
		return false
	case *ssa.Jump, *ssa.If:
		return true
	}
	return false
}

func (ex *Exec) regionOf(fn *ssa.Function, b *ssa.BasicBlock) *region {
	pi := ex.pdomOf(fn)
	if r, ok := pi.regions[b.Index]; ok {
		return r
	}
	r := &region{}
	pi.regions[b.Index] = r
	j := pi.ipdom[b.Index]
	if j < 0 {
		return r
	}
	join := fn.Blocks[j]
	// collect blocks on paths from b to join
	inRegion := map[*ssa.BasicBlock]bool{}
	var order []*ssa.BasicBlock
	state := map[*ssa.BasicBlock]int{}
	okRegion := true
	var dfs func(u *ssa.BasicBlock)
	dfs = func(u *ssa.BasicBlock) {
		if !okRegion {
			return
		}
		state[u] = 1
		for _, s := range u.Succs {
			if s == join {
				continue
			}
			if s == b || state[s] == 1 {
				okRegion = false // cycle
				return
			}
			if state[s] == 0 {
				if len(inRegion) > 24 {
					okRegion = false
					return
				}
				inRegion[s] = true
				dfs(s)
			}
		}
		state[u] = 2
		if u != b {
			order = append(order, u)
		}
	}
	dfs(b)
	if !okRegion {
		return r
	}
	for blk := range inRegion {
		for _, in := range blk.Instrs {
			if !pureInstr(in) {
				return r
			}
		}
		if len(blk.Succs) == 0 {
			return r
		}
	}
	// reverse post-order = topological order
	for i, k := 0, len(order)-1; i < k; i, k = i+1, k-1 {
		order[i], order[k] = order[k], order[i]
	}
	r.ok = true
	r.blocks = order
	r.join = join
	return r
}

type ifconvAbort struct{}

// tryIfConvert evaluates the region after the If in block b under guards.
// Returns the join block (with its phis already evaluated) or nil.
func (ex *Exec) tryIfConvert(fr *Frame, b *ssa.BasicBlock, cond *Term) (join *ssa.BasicBlock) {
	r := ex.regionOf(fr.fn, b)
	if !r.ok {
		return nil
	}
	// speculative evaluation writes only to fr.env entries of region values
	// (each SSA value is defined once), so aborting needs no roll-back besides
	// the obligations counter, which is not touched here.
	defer func() {
		if rec := recover(); rec != nil {
			switch rec.(type) {
			case ifconvAbort, *unsupportedErr:
				ex.ifconvAbort++
				join = nil
				return
			}
			panic(rec)
		}
	}()
	type edge struct {
		from *ssa.BasicBlock
		to   *ssa.BasicBlock
	}
	guard := map[*ssa.BasicBlock]*Term{b: tTrue}
	edgeG := map[edge]*Term{}
	addEdges := func(u *ssa.BasicBlock, c *Term) {
		g := guard[u]
		if len(u.Succs) == 1 {
			edgeG[edge{u, u.Succs[0]}] = g
			return
		}
		// If with both successors equal is possible
		if u.Succs[0] == u.Succs[1] {
			edgeG[edge{u, u.Succs[0]}] = g
			return
		}
		edgeG[edge{u, u.Succs[0]}] = And(g, c)
		edgeG[edge{u, u.Succs[1]}] = And(g, Not(c))
	}
	addEdges(b, cond)
	evalPhis := func(blk *ssa.BasicBlock) {
		var vals []Value
		var phis []*ssa.Phi
		for _, in := range blk.Instrs {
			phi, ok := in.(*ssa.Phi)
			if !ok {
				break
			}
			var res Value
			first := true
			for k := len(blk.Preds) - 1; k >= 0; k-- {
				p := blk.Preds[k]
				g, ok := edgeG[edge{p, blk}]
				if !ok {
					continue // edge from outside the region
				}
				if g.IsFalse() {
					continue
				}
				v := ex.eval(fr, phi.Edges[k])
				if first {
					res = v
					first = false
					continue
				}
				m, ok := iteValue(g, v, res)
				if !ok {
					panic(ifconvAbort{})
				}
				res = m
			}
			if first {
				panic(ifconvAbort{})
			}
			phis = append(phis, phi)
			vals = append(vals, res)
		}
		for i, phi := range phis {
			fr.env[phi] = vals[i]
		}
	}
	for _, blk := range r.blocks {
		g := tFalse
		for _, p := range blk.Preds {
			if eg, ok := edgeG[edge{p, blk}]; ok {
				g = Or(g, eg)
			} else {
				// a predecessor outside the region: not a clean diamond
				panic(ifconvAbort{})
			}
		}
		guard[blk] = g
		evalPhis(blk)
		var c *Term
		for _, in := range blk.Instrs {
			switch x := in.(type) {
			case *ssa.Phi, *ssa.DebugRef, *ssa.Jump:
				continue
			case *ssa.If:
				cv, ok := ex.eval(fr, x.Cond).(*Term)
				if !ok {
					panic(ifconvAbort{})
				}
				c = cv
				continue
			}
			ex.specStep(fr, in)
		}
		addEdges(blk, c)
	}
	evalPhis(r.join)
	ex.ifconvOK++
	return r.join
}

// specStep evaluates a pure instruction speculatively; anything that could
// trap or fork aborts the if-conversion.
func (ex *Exec) specStep(fr *Frame, in ssa.Instruction) {
	switch x := in.(type) {
	case *ssa.BinOp:
		switch x.Op {
		case token.QUO, token.REM:
			y, ok := ex.eval(fr, x.Y).(*Term)
			if !ok || !y.IsConst() || y.Val.Sign() == 0 {
				panic(ifconvAbort{})
			}
		case token.SHL, token.SHR:
			if _, signed, _ := isInteger(x.Y.Type()); signed {
				y, ok := ex.eval(fr, x.Y).(*Term)
				if !ok || !y.IsConst() {
					panic(ifconvAbort{})
				}
			}
		case token.ADD, token.SUB, token.MUL:
			if ex.ovfActive(fr) {
				panic(ifconvAbort{})
			}
		}
	case *ssa.UnOp:
		if x.Op == token.MUL {
			p, ok := ex.eval(fr, x.X).(*PtrV)
			if !ok || p.Obj == nil {
				panic(ifconvAbort{})
			}
		}
		if x.Op == token.SUB && ex.ovfActive(fr) {
			panic(ifconvAbort{})
		}
	case *ssa.FieldAddr:
		p, ok := ex.eval(fr, x.X).(*PtrV)
		if !ok || p.Obj == nil {
			panic(ifconvAbort{})
		}
	case *ssa.Convert:
		if ex.ovfActive(fr) {
			panic(ifconvAbort{})
		}
	case *ssa.Index:
		idx, ok := ex.eval(fr, x.Index).(*Term)
		if !ok || !idx.IsConst() {
			panic(ifconvAbort{})
		}
		n := 0
		switch a := ex.eval(fr, x.X).(type) {
		case *ArrayV:
			n = len(a.E)
		case *StringV:
			n = a.Len()
		default:
			panic(ifconvAbort{})
		}
		if idx.Signed().Sign() < 0 || idx.Signed().Int64() >= int64(n) {
			panic(ifconvAbort{})
		}
	case *ssa.IndexAddr:
		idx, ok := ex.eval(fr, x.Index).(*Term)
		if !ok || !idx.IsConst() {
			panic(ifconvAbort{})
		}
		n := 0
		switch a := ex.eval(fr, x.X).(type) {
		case *SliceV:
			n = a.Len
		case *PtrV:
			if a.Obj == nil {
				panic(ifconvAbort{})
			}
			n = int(x.X.Type().Underlying().(*types.Pointer).Elem().Underlying().(*types.Array).Len())
		default:
			panic(ifconvAbort{})
		}
		if idx.Signed().Sign() < 0 || idx.Signed().Int64() >= int64(n) {
			panic(ifconvAbort{})
		}
	}
	if p := ex.step(fr, in); p != nil {
		panic(ifconvAbort{})
	}
}
