package main

// Ideal models for property C11 (brontide transport): ChaCha20-Poly1305 AEAD
// and HKDF as uninterpreted functions (DESIGN.md §3.5).
//
//   seal(k,n,ad,p)  = aeadenc(k,n,p) ‖ aeadmac(k,n,ad',c')        (c' , ad' length-prefixed)
//   open(k,n,ad,c‖t) succeeds iff t = aeadmac(k,n,ad',c'); then the plaintext is
//                     p_i for the i-th seal of this path with (k,n,c) = (k_i,n_i,c_i)
//                     (Dec∘Enc = id, instantiated per seal), otherwise aeaddec(k,n,c).
//   hkdf(secret,salt) = 32-byte blocks hkdf(secret,salt,i), i = 1,2,…  (info must be empty)
//
// Collision-freeness of aeadmac is NOT built in: a harness that needs
// "tampering is rejected" states vInjective("aeadmac").
//
// Only the unexported workers (*chacha20poly1305).seal/.open are replaced; the
// exported Seal/Open wrappers (nonce-length and minimum-length checks) run as
// ordinary code.

import (
	"fmt"
	"go/token"
	"go/types"
	"math/big"
	"strconv"
	"strings"

	"golang.org/x/tools/go/ssa"
)

type c11SealRec struct {
	k, n *Term
	c    []*Term
	p    []*Term
}

// seals performed on the current path (reset when the path counter moves on).
var c11Log struct {
	ex    *Exec
	path  int
	seals []c11SealRec
}

func c11Seals(ex *Exec) *[]c11SealRec {
	if c11Log.ex != ex || c11Log.path != ex.paths {
		c11Log.ex, c11Log.path, c11Log.seals = ex, ex.paths, nil
	}
	return &c11Log.seals
}

// c11Cat concatenates byte terms (first byte most significant); runs of
// constant bytes are folded in one step so that long constant inputs stay cheap.
func c11Cat(bs []*Term) *Term {
	var r *Term
	add := func(t *Term) {
		if r == nil {
			r = t
		} else {
			r = Concat(r, t)
		}
	}
	for i := 0; i < len(bs); {
		if !bs[i].IsConst() {
			add(bs[i])
			i++
			continue
		}
		j := i
		v := new(big.Int)
		for j < len(bs) && bs[j].IsConst() {
			v.Lsh(v, 8)
			v.Or(v, bs[j].Val)
			j++
		}
		add(BVBig(v, 8*(j-i)))
		i = j
	}
	return r
}

// c11Lp is the length-prefixed encoding of a byte string (never empty).
func c11Lp(bs []*Term) *Term {
	l := BV(uint64(len(bs)), 32)
	if len(bs) == 0 {
		return l
	}
	return Concat(l, c11Cat(bs))
}

func c11Split(t *Term, n int) []Value {
	out := make([]Value, n)
	for i := 0; i < n; i++ {
		out[i] = Extract(8*(n-i)-1, 8*(n-i-1), t)
	}
	return out
}

func c11Key(ex *Exec, recv Value, caller *Frame) ([]*Term, *goPanic) {
	p := recv.(*PtrV)
	v, gp := ex.load(p, token.NoPos, caller)
	if gp != nil {
		return nil, gp
	}
	arr := v.(*StructV).F[0].(*ArrayV)
	k := make([]*Term, len(arr.E))
	for i, e := range arr.E {
		k[i] = e.(*Term)
	}
	return k, nil
}

func c11Bytes(ex *Exec, v Value) []*Term {
	s := v.(*SliceV)
	el := ex.sliceElems(s)
	r := make([]*Term, len(el))
	for i, e := range el {
		r[i] = e.(*Term)
	}
	return r
}

// c11Overlap mirrors x/crypto/internal/alias on our slice values.
func c11Overlap(x, y *SliceV, inexact bool) bool {
	if x.Len == 0 || y.Len == 0 || x.Obj == nil || x.Obj != y.Obj || !samePath(x.Base, y.Base) {
		return false
	}
	if inexact && x.Off == y.Off {
		return false
	}
	return x.Off < y.Off+y.Len && y.Off < x.Off+x.Len
}

// c11Append is sliceForAppend: returns head (dst extended by n) and tail.
func c11Append(ex *Exec, dst *SliceV, n int) (head, tail *SliceV) {
	total := dst.Len + n
	if dst.Obj != nil && dst.Cap >= total {
		head = &SliceV{Obj: dst.Obj, Base: dst.Base, Off: dst.Off, Len: total, Cap: dst.Cap}
	} else {
		head = ex.makeSlice(types.Typ[types.Uint8], total, total)
		if dst.Len > 0 {
			arr := head.Obj.V.(*ArrayV)
			copy(arr.E, ex.sliceElems(dst))
		}
	}
	tail = &SliceV{Obj: head.Obj, Base: head.Base, Off: head.Off + dst.Len, Len: n, Cap: head.Cap - dst.Len}
	return
}

func c11Write(s *SliceV, vals []Value) {
	if len(vals) == 0 {
		return
	}
	arr := getPath(s.Obj.V, s.Base).(*ArrayV)
	na := &ArrayV{E: make([]Value, len(arr.E))}
	copy(na.E, arr.E)
	copy(na.E[s.Off:s.Off+len(vals)], vals)
	s.Obj.V = setPath(s.Obj.V, s.Base, na)
}

func c11Panic(ex *Exec, msg string, caller *Frame) *goPanic {
	fn := ""
	if caller != nil {
		fn = ex.fnName(caller.fn)
	}
	pos := token.NoPos
	if caller != nil {
		pos = caller.curPos
	}
	return &goPanic{val: &IfaceV{T: types.Typ[types.String], V: &StringV{S: msg}}, msg: "panic: " + msg, pos: pos, fn: fn}
}

func c11Mac(k, n *Term, ad, c []*Term) *Term {
	return UF("aeadmac", SBV(128), k, n, c11Lp(ad), c11Lp(c))
}

func modelC11Seal(ex *Exec, fn *ssa.Function, args []Value, caller *Frame) (Value, *goPanic) {
	key, gp := c11Key(ex, args[0], caller)
	if gp != nil {
		return nil, gp
	}
	dst, nonceS, ptS, adS := args[1].(*SliceV), args[2].(*SliceV), args[3].(*SliceV), args[4].(*SliceV)
	if nonceS.Len != 12 {
		panic(unsupported("aead model: nonce length != 12"))
	}
	k, n := c11Cat(key), c11Cat(c11Bytes(ex, nonceS))
	pt, ad := c11Bytes(ex, ptS), c11Bytes(ex, adS)
	head, out := c11Append(ex, dst, len(pt)+16)
	if c11Overlap(out, ptS, true) {
		return nil, c11Panic(ex, "chacha20poly1305: invalid buffer overlap of output and input", caller)
	}
	if c11Overlap(out, adS, false) {
		return nil, c11Panic(ex, "chacha20poly1305: invalid buffer overlap of output and additional data", caller)
	}
	var ct []*Term
	var vals []Value
	if len(pt) > 0 {
		enc := UF("aeadenc", SBV(8*len(pt)), k, n, c11Cat(pt))
		vals = c11Split(enc, len(pt))
		ct = make([]*Term, len(pt))
		for i := range ct {
			ct[i] = vals[i].(*Term)
		}
	}
	vals = append(vals, c11Split(c11Mac(k, n, ad, ct), 16)...)
	c11Write(out, vals)
	sl := c11Seals(ex)
	*sl = append(*sl, c11SealRec{k: k, n: n, c: ct, p: pt})
	ex.assumptions["AEAD ChaCha20-Poly1305 idealised: Seal = aeadenc(k,n,p) ‖ aeadmac(k,n,ad,c); Open succeeds iff the tag equals aeadmac(k,n,ad,c) and then returns the plaintext of the Seal with the same (k,n,c) (else an uninterpreted aeaddec(k,n,c))"] = true
	return head, nil
}

func c11ErrOpen(ex *Exec, fn *ssa.Function) Value {
	const text = "chacha20poly1305: message authentication failed"
	if fn.Pkg != nil {
		if g := fn.Pkg.Var("errOpen"); g != nil {
			o := ex.globalObj(g)
			if iv, ok := o.V.(*IfaceV); ok && iv.T != nil {
				return iv
			}
		}
	}
	return ex.stubError(text)
}

func modelC11Open(ex *Exec, fn *ssa.Function, args []Value, caller *Frame) (Value, *goPanic) {
	key, gp := c11Key(ex, args[0], caller)
	if gp != nil {
		return nil, gp
	}
	dst, nonceS, ctS, adS := args[1].(*SliceV), args[2].(*SliceV), args[3].(*SliceV), args[4].(*SliceV)
	if nonceS.Len != 12 {
		panic(unsupported("aead model: nonce length != 12"))
	}
	if ctS.Len < 16 {
		panic(unsupported("aead model: open called with fewer than 16 bytes"))
	}
	k, n := c11Cat(key), c11Cat(c11Bytes(ex, nonceS))
	all := append([]*Term{}, c11Bytes(ex, ctS)...)
	ad := c11Bytes(ex, adS)
	m := len(all) - 16
	ct, tag := all[:m], all[m:]
	head, out := c11Append(ex, dst, m)
	ctOnly := &SliceV{Obj: ctS.Obj, Base: ctS.Base, Off: ctS.Off, Len: m, Cap: ctS.Cap}
	if c11Overlap(out, ctOnly, true) {
		return nil, c11Panic(ex, "chacha20poly1305: invalid buffer overlap of output and input", caller)
	}
	if c11Overlap(out, adS, false) {
		return nil, c11Panic(ex, "chacha20poly1305: invalid buffer overlap of output and additional data", caller)
	}
	ok := Eq(c11Cat(tag), c11Mac(k, n, ad, ct))
	if !ex.branch(ok) {
		z := make([]Value, m)
		for i := range z {
			z[i] = BV(0, 8)
		}
		c11Write(out, z)
		return &TupleV{E: []Value{&SliceV{}, c11ErrOpen(ex, fn)}}, nil
	}
	if m > 0 {
		cc := c11Cat(ct)
		dec := UF("aeaddec", SBV(8*m), k, n, cc)
		pv := c11Split(dec, m)
		seals := *c11Seals(ex)
		for i := len(seals) - 1; i >= 0; i-- {
			s := seals[i]
			if len(s.c) != m {
				continue
			}
			same := And(And(Eq(k, s.k), Eq(n, s.n)), Eq(cc, c11Cat(s.c)))
			if same.IsFalse() {
				continue
			}
			for j := range pv {
				pv[j] = Ite(same, s.p[j], pv[j].(*Term))
			}
		}
		c11Write(out, pv)
	}
	return &TupleV{E: []Value{head, &IfaceV{}}}, nil
}

// ---------- HKDF ----------

func c11FuncName(v Value) string {
	if fv, ok := v.(*FuncV); ok && fv.Fn != nil {
		return fv.Fn.String()
	}
	return "?"
}

func modelC11HkdfNew(ex *Exec, fn *ssa.Function, args []Value, caller *Frame) (Value, *goPanic) {
	if h := c11FuncName(args[0]); h != "crypto/sha256.New" {
		panic(unsupported("hkdf model: hash constructor " + h))
	}
	secret, salt, info := c11Bytes(ex, args[1]), c11Bytes(ex, args[2]), c11Bytes(ex, args[3])
	if len(info) != 0 {
		panic(unsupported("hkdf model: non-empty info"))
	}
	rt := fn.Pkg.Type("hkdfReader")
	if rt == nil {
		panic(unsupported("hkdf model: type hkdfReader not found"))
	}
	t := rt.Type()
	o := ex.newObject(t, zeroValue(t), "hkdfReader")
	data := append(append([]*Term{}, secret...), salt...)
	ex.hashObjs[o] = &HashObj{Kind: fmt.Sprintf("hkdf:%d:%d:0", len(secret), len(salt)), Data: data}
	ex.assumptions["HKDF-SHA256 idealised: 32-byte output blocks are an uninterpreted function hkdf(secret, salt, block index)"] = true
	return &IfaceV{T: types.NewPointer(t), V: &PtrV{Obj: o}}, nil
}

func modelC11HkdfRead(ex *Exec, fn *ssa.Function, args []Value, caller *Frame) (Value, *goPanic) {
	p := args[0].(*PtrV)
	if p.Obj == nil {
		return nil, ex.rtPanic("nil pointer dereference (hkdfReader)", token.NoPos, caller)
	}
	h, ok := ex.hashObjs[p.Obj]
	if !ok || !strings.HasPrefix(h.Kind, "hkdf:") {
		panic(unsupported("hkdf model: reader not created by hkdf.New"))
	}
	f := strings.Split(h.Kind, ":")
	nSecret, _ := strconv.Atoi(f[1])
	nSalt, _ := strconv.Atoi(f[2])
	pos, _ := strconv.Atoi(f[3])
	buf := args[1].(*SliceV)
	need := buf.Len
	if pos+need > 255*32 {
		panic(unsupported("hkdf model: more than 255 blocks"))
	}
	secret, salt := h.Data[:nSecret], h.Data[nSecret:nSecret+nSalt]
	vals := make([]Value, need)
	blocks := map[int]*Term{}
	for i := 0; i < need; i++ {
		idx := pos + i
		b := idx/32 + 1
		blk, ok := blocks[b]
		if !ok {
			switch {
			case nSecret == 0 && nSalt == 0:
				blk = UF("hkdfEE", SBV(256), BV(uint64(b), 8))
			case nSecret == 0:
				blk = UF("hkdfE", SBV(256), c11Cat(salt), BV(uint64(b), 8))
			case nSalt == 0:
				blk = UF("hkdfS", SBV(256), c11Cat(secret), BV(uint64(b), 8))
			default:
				blk = UF("hkdf", SBV(256), c11Cat(secret), c11Cat(salt), BV(uint64(b), 8))
			}
			blocks[b] = blk
		}
		w := idx % 32
		vals[i] = Extract(8*(32-w)-1, 8*(32-w-1), blk)
	}
	if need > 0 {
		c11Write(buf, vals)
	}
	h.Kind = fmt.Sprintf("hkdf:%d:%d:%d", nSecret, nSalt, pos+need)
	return &TupleV{E: []Value{BVI(int64(need), 64), &IfaceV{}}}, nil
}

func init() {
	models["(*golang.org/x/crypto/chacha20poly1305.chacha20poly1305).seal"] = modelC11Seal
	models["(*golang.org/x/crypto/chacha20poly1305.chacha20poly1305).open"] = modelC11Open
	models["golang.org/x/crypto/hkdf.New"] = modelC11HkdfNew
	models["(*golang.org/x/crypto/hkdf.hkdfReader).Read"] = modelC11HkdfRead
}
