package main

// Symbolic interpreter over go/ssa. Depth-first exploration by re-execution:
// a path is identified by its sequence of decisions; after a path ends the last
// decision with an unexplored feasible alternative is advanced and the harness
// is executed again from the start (deterministically reproducing the prefix).

import (
	"fmt"
	"go/constant"
	"go/token"
	"go/types"
	"math/big"
	"sort"
	"strings"
	"time"

	"golang.org/x/tools/go/ssa"
)

type decision struct {
	n    int   // number of alternatives
	cur  int   // alternative taken
	feas []int // 0 unknown-yet, 1 feasible, 2 infeasible
	vals []*big.Int
	kind string
	models []map[string]*Term
}

type pathEnd struct {
	kind string // "assume", "infeasible", "unsupported", "blocked", "unwind", "budget", "done", "violation-stop"
	msg  string
}

type goPanic struct {
	val     Value
	msg     string
	runtime bool
	pos     token.Pos
	fn      string
}

type deferred struct {
	fv   *FuncV
	args []Value
	inst *ssa.Defer
}

type Frame struct {
	fn        *ssa.Function
	env       map[ssa.Value]Value
	block     *ssa.BasicBlock
	prev      *ssa.BasicBlock
	defers    []deferred
	caller    *Frame
	deferCall bool // this frame is a deferred call run by caller's RunDefers / panic unwinding
	panicking *goPanic
	results   Value
	loops     map[*ssa.BasicBlock]int
	phiDone   bool
	depth     int
	curPos    token.Pos
}

type Violation struct {
	Kind    string                 `json:"kind"`
	Msg     string                 `json:"msg"`
	Site    string                 `json:"site"`
	Func    string                 `json:"func"`
	Model   map[string]string      `json:"model"`
	Choices []int                  `json:"choices"`
	Observe map[string]interface{} `json:"observe,omitempty"`
	Path    int                    `json:"path"`
}

type Inconclusive struct {
	Kind string `json:"kind"`
	Msg  string `json:"msg"`
	Site string `json:"site"`
}

type Witness struct {
	Label   string                 `json:"label"`
	Model   map[string]string      `json:"model"`
	Observe map[string]interface{} `json:"observe,omitempty"`
}

type observed struct {
	name string
	val  Value
}

type Exec struct {
	prog   *ssa.Program
	solver *SolverSet

	// exploration state (persistent across paths)
	decisions []decision
	paths     int
	maxPaths  int
	deadline  time.Time

	// per-path state
	pos       int
	pc        []*Term
	ndCount   map[string]int
	inputs    []*Term
	inputSeen map[string]bool
	objCount  int
	steps     int
	maxSteps  int
	observes  []observed
	depth     int

	// harness configuration (set by intrinsics at start of each path)
	stubs     map[string]bool
	noops     map[string]bool
	ovf       []string
	merge     map[string]bool
	goInline  map[string]bool
	unwind    int
	injective map[string]bool
	fixed     map[string]int // pinned vChoice values (sharding)
	concrete  map[string]*big.Int

	// globals
	globals    map[*ssa.Global]*Object
	globalInit map[*ssa.Package]int // 0 not started, 1 running, 2 done
	tolerant   int

	// results
	violations   []*Violation
	vioSites     map[string]bool
	inconclusive []*Inconclusive
	incSites     map[string]bool
	witnesses    map[string]*Witness
	reachLabels  map[string]bool
	assertSites  map[string]int // site -> times discharged
	obligations  int
	discharged   int
	trivial      int
	branchDec    int
	endKinds     map[string]int
	funcsEntered map[string]int // function -> #instructions
	stubsUsed    map[string]int
	modelsUsed   map[string]int
	axiomsUsed   map[string]int
	assumptions  map[string]bool
	pdom         map[*ssa.Function]*pdomInfo
	ifconvOK     int
	ifconvAbort  int
	mergedCalls  int
	verbose      bool
	onceDone     map[*Object]bool
	hashObjs     map[*Object]*HashObj
	nowCount     int
	lastNow      *Term
	onceKeys     map[string]*Object
	initWritten  map[*Object]bool
	cur          *Frame
	known        map[int]int8
	knownLen     int
	replace      map[string]string
	funcIndex    map[string]*ssa.Function
	varCache     map[int][]int
	ufIDs        map[string]int
	noSlice      bool
	proven       map[int][]map[int]bool
	pcHas        map[int]bool
	provenHits   int
	pathModel    map[string]*Term
	pmHits       int
	pmEvals      int
	fnNameCache  map[*ssa.Function]string
}

func NewExec(prog *ssa.Program, solver *SolverSet) *Exec {
	return &Exec{
		prog: prog, solver: solver,
		maxPaths: 200000, maxSteps: 5_000_000, unwind: 64,
		globals: map[*ssa.Global]*Object{}, globalInit: map[*ssa.Package]int{},
		vioSites: map[string]bool{}, incSites: map[string]bool{},
		witnesses: map[string]*Witness{}, reachLabels: map[string]bool{},
		assertSites: map[string]int{}, endKinds: map[string]int{},
		funcsEntered: map[string]int{}, stubsUsed: map[string]int{}, modelsUsed: map[string]int{},
		axiomsUsed: map[string]int{}, assumptions: map[string]bool{},
		pdom: map[*ssa.Function]*pdomInfo{}, fixed: map[string]int{},
		fnNameCache: map[*ssa.Function]string{},
	}
}

func (ex *Exec) fnName(fn *ssa.Function) string {
	if n, ok := ex.fnNameCache[fn]; ok {
		return n
	}
	n := fn.String()
	ex.fnNameCache[fn] = n
	return n
}

func (ex *Exec) posStr(p token.Pos) string {
	if !p.IsValid() {
		return "?"
	}
	ps := ex.prog.Fset.Position(p)
	f := ps.Filename
	if i := strings.Index(f, "/repo/"); i >= 0 {
		f = f[i+6:]
	}
	return fmt.Sprintf("%s:%d", f, ps.Line)
}

// ---------- exploration driver ----------

func (ex *Exec) Explore(entry *ssa.Function) {
	for {
		if ex.paths >= ex.maxPaths {
			ex.addInconclusive("budget", fmt.Sprintf("path budget %d exhausted", ex.maxPaths), "")
			return
		}
		if !ex.deadline.IsZero() && time.Now().After(ex.deadline) {
			ex.addInconclusive("budget", "time budget exhausted", "")
			return
		}
		ex.runPath(entry)
		ex.paths++
		// backtrack
		i := len(ex.decisions) - 1
		for ; i >= 0; i-- {
			d := &ex.decisions[i]
			next := -1
			for j := d.cur + 1; j < d.n; j++ {
				if d.feas[j] != 2 {
					next = j
					break
				}
			}
			if next >= 0 {
				d.cur = next
				ex.decisions = ex.decisions[:i+1]
				break
			}
		}
		if i < 0 {
			return
		}
	}
}

func (ex *Exec) resetPath() {
	ex.pos = 0
	ex.pc = ex.pc[:0]
	ex.ndCount = map[string]int{}
	ex.inputs = nil
	ex.inputSeen = map[string]bool{}
	ex.steps = 0
	ex.observes = nil
	ex.depth = 0
	ex.stubs = map[string]bool{}
	ex.noops = map[string]bool{}
	ex.ovf = nil
	ex.merge = map[string]bool{}
	ex.replace = map[string]string{}
	ex.goInline = map[string]bool{}
	ex.injective = map[string]bool{}
	ex.onceDone = map[*Object]bool{}
	ex.hashObjs = map[*Object]*HashObj{}
	ex.nowCount = 0
	ex.known = nil
	ex.knownLen = 0
	ex.pathModel = map[string]*Term{}
	ex.lastNow = nil
	ex.onceKeys = nil
	// globals: re-initialise lazily for every path (heap objects are per path)
	ex.globals = map[*ssa.Global]*Object{}
	ex.globalInit = map[*ssa.Package]int{}
}

func (ex *Exec) runPath(entry *ssa.Function) {
	ex.resetPath()
	kind := "done"
	func() {
		defer func() {
			if r := recover(); r != nil {
				switch e := r.(type) {
				case *pathEnd:
					kind = e.kind
					if e.kind == "unsupported" || e.kind == "blocked" || e.kind == "unwind" || e.kind == "budget" {
						ex.addInconclusive(e.kind, e.msg, "")
					}
				case *unsupportedErr:
					kind = "unsupported"
					where := ""
					if ex.cur != nil {
						where = ex.fnName(ex.cur.fn) + " " + ex.posStr(ex.cur.curPos)
						n := 0
						for f := ex.cur.caller; f != nil && n < 6; f = f.caller {
							where += " <- " + f.fn.Name() + ":" + ex.posStr(f.curPos)
							n++
						}
					}
					ex.addInconclusive("unsupported", e.msg, where)
				default:
					panic(r)
				}
			}
		}()
		_, p := ex.callFunction(entry, nil, nil, nil)
		if p != nil {
			kind = "panic"
			ex.reportPanic(p)
		}
	}()
	ex.endKinds[kind]++
	if ex.verbose {
		fmt.Printf("path %d end=%s decisions=%d steps=%d\n", ex.paths, kind, len(ex.decisions), ex.steps)
	}
}

func (ex *Exec) end(kind, msg string) {
	panic(&pathEnd{kind, msg})
}

func (ex *Exec) addInconclusive(kind, msg, site string) {
	key := kind + "|" + msg + "|" + site
	if ex.incSites[key] {
		return
	}
	ex.incSites[key] = true
	ex.inconclusive = append(ex.inconclusive, &Inconclusive{kind, msg, site})
}

// ---------- decisions ----------

func (ex *Exec) curChoices() []int {
	r := make([]int, ex.pos)
	for i := 0; i < ex.pos && i < len(ex.decisions); i++ {
		r[i] = ex.decisions[i].cur
	}
	return r
}

// feasible asks whether pc ∧ c is satisfiable. Unknown counts as feasible.
func (ex *Exec) feasible(c *Term) bool {
	ok, _ := ex.feasibleM(c)
	return ok
}

// holdsInPathModel reports whether the current path model (a full assignment
// satisfying the path condition) also satisfies c.
func (ex *Exec) holdsInPathModel(c *Term) bool {
	if ex.pathModel == nil {
		return false
	}
	ex.pmEvals++
	return Eval(c, ex.pathModel, map[int]*Term{}).IsTrue()
}

// feasibleM decides whether pc ∧ c is satisfiable; when the solver was needed
// and answered sat, the model of the slice is returned.
func (ex *Exec) feasibleM(c *Term) (bool, map[string]*Term) {
	if c.IsTrue() {
		return true, nil
	}
	if c.IsFalse() {
		return false, nil
	}
	if ex.holdsInPathModel(c) {
		ex.pmHits++
		return true, nil
	}
	sl := ex.slice(c)
	if ex.knownInfeasible(c) { // models_c06.go: c was refuted earlier under assertions that are all still in pc
		return false, nil
	}
	r, m, _ := ex.solver.Check(ex.withAxioms(append(sl, c)), true)
	if r == Sat {
		return true, m
	}
	if r == Unsat {
		ex.noteInfeasible(c, sl)
	}
	return r != Unsat, nil
}

// addPC appends c to the path condition and keeps the path model valid.
func (ex *Exec) addPC(c *Term, m map[string]*Term) {
	if c.IsTrue() {
		return
	}
	if ex.pathModel != nil && !ex.holdsInPathModel(c) {
		if m == nil {
			r, mm, _ := ex.solver.Check(ex.withAxioms(append(ex.slice(c), c)), true)
			switch r {
			case Sat:
				m = mm
			case Unsat:
				ex.end("infeasible", "")
			}
		}
		if m != nil {
			for k, v := range m {
				ex.pathModel[k] = v
			}
			if !ex.holdsInPathModel(c) {
				// e.g. uninterpreted functions: the model cannot be evaluated
				ex.pathModel = nil
			}
		} else {
			ex.pathModel = nil
		}
	}
	ex.pc = append(ex.pc, c)
}

func (ex *Exec) assume(c *Term) {
	if c.IsTrue() {
		return
	}
	if c.IsFalse() {
		ex.end("infeasible", "")
	}
	ex.addPC(c, nil)
}

// choose makes an n-way decision; conds[i] is the condition under which
// alternative i applies (they should be exhaustive under pc).
func (ex *Exec) choose(kind string, conds []*Term) int {
	// constant short-cuts
	nTrue, last := 0, -1
	for i, c := range conds {
		if c.IsTrue() {
			return i
		}
		if !c.IsFalse() {
			nTrue++
			last = i
		}
	}
	if nTrue == 0 {
		ex.end("infeasible", "no alternative")
	}
	_ = last
	if ex.pos < len(ex.decisions) {
		d := &ex.decisions[ex.pos]
		ex.pos++
		if d.n != len(conds) {
			panic(fmt.Sprintf("non-deterministic re-execution: decision %d has %d alts, now %d (%s vs %s)", ex.pos-1, d.n, len(conds), d.kind, kind))
		}
		if conds[d.cur].IsFalse() {
			ex.end("infeasible", "")
		}
		ex.addPC(conds[d.cur], d.models[d.cur])
		return d.cur
	}
	d := decision{n: len(conds), feas: make([]int, len(conds)), kind: kind, cur: -1, models: make([]map[string]*Term, len(conds))}
	nFeas := 0
	for i, c := range conds {
		if c.IsFalse() {
			d.feas[i] = 2
			continue
		}
		if ok, m := ex.feasibleM(c); ok {
			d.feas[i] = 1
			d.models[i] = m
		} else {
			d.feas[i] = 2
		}
		if d.feas[i] == 1 {
			nFeas++
			if d.cur < 0 {
				d.cur = i
			}
		}
	}
	if d.cur < 0 {
		ex.end("infeasible", "no feasible alternative")
	}
	ex.branchDec++
	ex.decisions = append(ex.decisions, d)
	ex.pos++
	ex.addPC(conds[d.cur], d.models[d.cur])
	return d.cur
}

func (ex *Exec) branch(c *Term) bool {
	if c.IsTrue() {
		return true
	}
	if c.IsFalse() {
		return false
	}
	return ex.choose("if", []*Term{c, Not(c)}) == 0
}

// concretize forks over the feasible values of t (at most limit of them).
func (ex *Exec) concretize(t *Term, limit int, what string) int {
	if t.IsConst() {
		return int(t.Signed().Int64())
	}
	if ex.pos < len(ex.decisions) {
		d := &ex.decisions[ex.pos]
		ex.pos++
		v := d.vals[d.cur]
		ex.assume(Eq(t, BVBig(v, t.Sort.W)))
		return int(v.Int64())
	}
	var vals []*big.Int
	extra := []*Term{}
	for {
		q := append(append([]*Term{}, ex.pc...), extra...)
		// need the value of t: introduce an equality with a fresh variable
		pv := Var(fmt.Sprintf("$conc%d", t.ID), t.Sort)
		q = append(q, Eq(pv, t))
		r, m, _ := ex.solver.Check(ex.withAxioms(q), true)
		if r == Unsat {
			break
		}
		if r == Unknown {
			ex.end("unsupported", "concretize: solver unknown for "+what)
		}
		v := m[pv.Name]
		if v == nil {
			v = BV(0, t.Sort.W)
		}
		vals = append(vals, new(big.Int).Set(v.Val))
		extra = append(extra, Ne(t, v))
		if len(vals) > limit {
			ex.end("unsupported", fmt.Sprintf("concretize: more than %d values for %s", limit, what))
		}
	}
	if len(vals) == 0 {
		ex.end("infeasible", "concretize")
	}
	sort.Slice(vals, func(i, j int) bool { return vals[i].Cmp(vals[j]) < 0 })
	d := decision{n: len(vals), feas: make([]int, len(vals)), vals: vals, kind: "concretize " + what}
	for i := range d.feas {
		d.feas[i] = 1
	}
	ex.branchDec++
	ex.decisions = append(ex.decisions, d)
	ex.pos++
	ex.assume(Eq(t, BVBig(vals[0], t.Sort.W)))
	return int(vals[0].Int64())
}

// ---------- obligations ----------

func modelStrings(m map[string]*Term) map[string]string {
	r := map[string]string{}
	for k, v := range m {
		if strings.HasPrefix(k, "$") {
			continue
		}
		switch v.Sort.K {
		case KBool:
			if v.IsTrue() {
				r[k] = "1"
			} else {
				r[k] = "0"
			}
		case KBV:
			r[k] = v.Val.String()
		default:
			r[k] = fmt.Sprintf("f:%d", v.Val.Uint64())
		}
	}
	return r
}

// fullModel returns a model for all inputs of the current path, given a model
// of the variables of some query (inputs not in the query default to zero).
func (ex *Exec) fullModel(m map[string]*Term) map[string]*Term {
	r := map[string]*Term{}
	for _, in := range ex.inputs {
		if v, ok := m[in.Name]; ok {
			r[in.Name] = v
		} else {
			switch in.Sort.K {
			case KBool:
				r[in.Name] = tFalse
			case KBV:
				r[in.Name] = BV(0, in.Sort.W)
			default:
				r[in.Name] = FPConst(0)
			}
		}
	}
	return r
}

func (ex *Exec) observeMap(m map[string]*Term) map[string]interface{} {
	if len(ex.observes) == 0 {
		return nil
	}
	r := map[string]interface{}{}
	for _, o := range ex.observes {
		r[o.name] = describe(o.val, m)
	}
	return r
}

// obligation checks that cond holds on the current path for every input.
// Returns after assuming cond.
func (ex *Exec) obligation(cond *Term, kind, msg string, pos token.Pos, fn string) {
	site := ex.posStr(pos)
	key := kind + "|" + site + "|" + msg
	ex.obligations++
	if cond.IsTrue() {
		ex.trivial++
		ex.discharged++
		ex.assertSites[key]++
		return
	}
	if ex.vioSites[key] {
		// already reported for this site: just continue on the holding side
		ex.assumeOrEnd(cond)
		return
	}
	ex.pcHas = map[int]bool{}
	for _, t := range ex.pc {
		ex.pcHas[t.ID] = true
	}
	if ex.provenUnder(cond, nil) {
		ex.provenHits++
		ex.discharged++
		ex.assertSites[key]++
		ex.assumeOrEnd(cond)
		return
	}
	sl := ex.slice(cond)
	q := append(append([]*Term{}, sl...), Not(cond))
	r, m, _ := ex.solver.Check(ex.withAxioms(q), len(sl) == len(ex.pc))
	if r == Sat && len(sl) != len(ex.pc) {
		// need a model of the whole path condition
		q = append(append([]*Term{}, ex.pc...), Not(cond))
		r, m, _ = ex.solver.Check(ex.withAxioms(q), true)
		if r == Unsat {
			r = Unknown // slice sat but full unsat: path condition inconsistent
		}
	}
	switch r {
	case Unsat:
		ex.discharged++
		ex.assertSites[key]++
		ex.rememberProven(cond, sl)
	case Sat:
		fm := ex.fullModel(m)
		ex.vioSites[key] = true
		ex.violations = append(ex.violations, &Violation{
			Kind: kind, Msg: msg, Site: site, Func: fn, Model: modelStrings(fm),
			Choices: ex.curChoices(), Observe: ex.observeMap(fm), Path: ex.paths,
		})
		if ex.verbose {
			fmt.Printf("VIOLATION-CANDIDATE %s %s at %s\n", kind, msg, site)
		}
	default:
		ex.addInconclusive("solver-unknown", kind+": "+msg, site)
	}
	ex.assumeOrEnd(cond)
}

func (ex *Exec) assumeOrEnd(cond *Term) {
	if cond.IsFalse() {
		ex.end("violation-stop", "")
	}
	if cond.IsTrue() {
		return
	}
	ok, m := ex.feasibleM(cond)
	if !ok {
		ex.end("violation-stop", "")
	}
	ex.addPC(cond, m)
}

func (ex *Exec) reportPanic(p *goPanic) {
	site := ex.posStr(p.pos)
	key := "panic|" + site + "|" + p.msg
	ex.obligations++
	if ex.vioSites[key] {
		return
	}
	r, m, _ := ex.solver.Check(ex.withAxioms(append([]*Term{}, ex.pc...)), true)
	if r == Unsat {
		ex.discharged++
		return
	}
	if r == Unknown {
		ex.addInconclusive("solver-unknown", "panic path: "+p.msg, site)
		return
	}
	fm := ex.fullModel(m)
	ex.vioSites[key] = true
	ex.violations = append(ex.violations, &Violation{
		Kind: "panic", Msg: p.msg, Site: site, Func: p.fn, Model: modelStrings(fm),
		Choices: ex.curChoices(), Observe: ex.observeMap(fm), Path: ex.paths,
	})
}

// withAxioms appends instantiated axioms (UF injectivity) relevant to q.
func (ex *Exec) withAxioms(q []*Term) []*Term {
	if len(ex.injective) == 0 {
		return q
	}
	apps := map[string][]*Term{}
	seen := map[int]bool{}
	var st []*Term
	st = append(st, q...)
	for len(st) > 0 {
		t := st[len(st)-1]
		st = st[:len(st)-1]
		if seen[t.ID] {
			continue
		}
		seen[t.ID] = true
		if t.Op == OpUF {
			base := t.Name
			if i := strings.IndexByte(base, '_'); i >= 0 {
				base = base[:i]
			}
			if ex.injective[base] {
				apps[t.Name] = append(apps[t.Name], t)
			}
		}
		st = append(st, t.Args...)
	}
	for name, as := range apps {
		sort.Slice(as, func(i, j int) bool { return as[i].ID < as[j].ID })
		if len(as) > 12 {
			// many applications: the pairwise instantiation is quadratic. Use the
			// equisatisfiable left-inverse form inv_k(f(x1..xn)) = xk (linear).
			for _, a := range as {
				for k, arg := range a.Args {
					q = append(q, Eq(UF(fmt.Sprintf("inv%d.%s", k, name), arg.Sort, a), arg))
					ex.axiomsUsed["injective:"+name]++
				}
			}
			continue
		}
		for i := 0; i < len(as); i++ {
			for j := i + 1; j < len(as); j++ {
				same := tTrue
				for k := range as[i].Args {
					same = And(same, Eq(as[i].Args[k], as[j].Args[k]))
				}
				ax := Implies(Eq(as[i], as[j]), same)
				if !ax.IsTrue() {
					q = append(q, ax)
					ex.axiomsUsed["injective:"+name]++
				}
			}
		}
	}
	return q
}

// ---------- values of SSA operands ----------

func (ex *Exec) newObject(t types.Type, v Value, name string) *Object {
	ex.objCount++
	return &Object{ID: ex.objCount, V: v, T: t, Name: name}
}

func (ex *Exec) constValue(c *ssa.Const) Value {
	t := c.Type()
	if c.Value == nil {
		return zeroValue(t)
	}
	switch u := t.Underlying().(type) {
	case *types.Basic:
		switch {
		case u.Info()&types.IsBoolean != 0:
			return Bool(constant.BoolVal(c.Value))
		case u.Info()&types.IsInteger != 0:
			w, _ := intWidth(u)
			v := constant.ToInt(c.Value)
			bi, ok := new(big.Int).SetString(v.ExactString(), 10)
			if !ok {
				panic(unsupported("integer constant " + v.ExactString()))
			}
			return BVBig(bi, w)
		case u.Info()&types.IsFloat != 0:
			f, _ := constant.Float64Val(c.Value)
			return FPConst(f)
		case u.Info()&types.IsString != 0:
			return &StringV{S: constant.StringVal(c.Value)}
		}
	}
	panic(unsupported("constant of type " + t.String()))
}

func (ex *Exec) eval(fr *Frame, v ssa.Value) Value {
	switch x := v.(type) {
	case *ssa.Const:
		return ex.constValue(x)
	case *ssa.Global:
		return &PtrV{Obj: ex.globalObj(x)}
	case *ssa.Function:
		return &FuncV{Fn: x}
	case *ssa.Builtin:
		return &FuncV{Builtin: x.Name()}
	}
	r, ok := fr.env[v]
	if !ok {
		panic(fmt.Sprintf("internal: no value for %s (%T) in %s", v.Name(), v, fr.fn))
	}
	if pv, isP := r.(*PoisonV); isP && ex.tolerant == 0 {
		panic(unsupported("use of a value that could not be computed during package initialisation: " + pv.Why))
	}
	return r
}

func (ex *Exec) globalObj(g *ssa.Global) *Object {
	if o, ok := ex.globals[g]; ok {
		return o
	}
	elem := g.Type().(*types.Pointer).Elem()
	o := ex.newObject(elem, zeroValue(elem), g.String())
	ex.globals[g] = o
	if g.Pkg != nil {
		ex.initPackage(g.Pkg)
	}
	return o
}

// initPackage runs the synthetic package initialiser in tolerant mode.
func (ex *Exec) initPackage(p *ssa.Package) {
	if ex.globalInit[p] != 0 {
		return
	}
	ex.globalInit[p] = 1
	initFn := p.Func("init")
	if initFn == nil || initFn.Blocks == nil {
		ex.globalInit[p] = 2
		return
	}
	ex.tolerant++
	savedPC, savedPos := len(ex.pc), ex.pos
	savedWritten := ex.initWritten
	ex.initWritten = map[*Object]bool{}
	func() {
		defer func() {
			if r := recover(); r != nil {
				why := ""
				switch e := r.(type) {
				case *unsupportedErr:
					why = e.msg
				case *pathEnd:
					why = e.kind + " " + e.msg
				default:
					panic(r)
				}
				// initialisation stopped early: every global of the package not
				// yet written is poisoned (never silently zero)
				for _, m := range p.Members {
					if g, ok := m.(*ssa.Global); ok {
						o, ok := ex.globals[g]
						if !ok {
							elem := g.Type().(*types.Pointer).Elem()
							o = ex.newObject(elem, nil, g.String())
							ex.globals[g] = o
							o.V = &PoisonV{"init of " + p.Pkg.Path() + " stopped: " + why}
						} else if !ex.initWritten[o] {
							o.V = &PoisonV{"init of " + p.Pkg.Path() + " stopped: " + why}
						}
					}
				}
			}
		}()
		ex.runFunction(initFn, nil, nil, nil, false)
	}()
	ex.initWritten = savedWritten
	_ = savedPos
	ex.pc = ex.pc[:savedPC]
	ex.known = nil
	ex.tolerant--
	ex.globalInit[p] = 2
}

func (ex *Exec) load(p *PtrV, pos token.Pos, fr *Frame) (Value, *goPanic) {
	if p.Obj == nil {
		return nil, ex.rtPanic("nil pointer dereference", pos, fr)
	}
	if pv, isP := p.Obj.V.(*PoisonV); isP {
		if ex.tolerant == 0 {
			panic(unsupported("read of global " + p.Obj.Name + ": " + pv.Why))
		}
		return pv, nil
	}
	return getPath(p.Obj.V, p.Path), nil
}

func (ex *Exec) store(p *PtrV, v Value, pos token.Pos, fr *Frame) *goPanic {
	if p.Obj == nil {
		return ex.rtPanic("nil pointer dereference (store)", pos, fr)
	}
	if ex.tolerant > 0 && ex.initWritten != nil {
		ex.initWritten[p.Obj] = true
	}
	if _, isP := p.Obj.V.(*PoisonV); isP && len(p.Path) > 0 {
		return nil
	}
	p.Obj.V = setPath(p.Obj.V, p.Path, v)
	return nil
}

func (ex *Exec) rtPanic(msg string, pos token.Pos, fr *Frame) *goPanic {
	fn := ""
	if fr != nil {
		fn = ex.fnName(fr.fn)
	}
	return &goPanic{msg: "runtime error: " + msg, runtime: true, pos: pos, fn: fn,
		val: &IfaceV{T: types.Typ[types.String], V: &StringV{S: "runtime error: " + msg}}}
}

// ---------- calls ----------

func (ex *Exec) callValue(fr *Frame, fv *FuncV, args []Value, site ssa.Instruction) (Value, *goPanic) {
	if fv.Builtin != "" {
		return ex.callBuiltin(fr, fv.Builtin, args, site)
	}
	if fv.Fn == nil {
		pos := token.NoPos
		if site != nil {
			pos = site.Pos()
		}
		return nil, ex.rtPanic("call of nil function", pos, fr)
	}
	if fv.HasRecv {
		args = append([]Value{fv.Recv}, args...)
	}
	return ex.callFunction(fv.Fn, args, fv.Env, fr)
}

func (ex *Exec) callFunction(fn *ssa.Function, args []Value, env []Value, caller *Frame) (Value, *goPanic) {
	name := ex.fnName(fn)
	if h, ok := ex.intercept(fn, name, args, caller); ok {
		return h.val, h.p
	}
	if ex.tolerant > 0 && fn.Signature.Recv() == nil && fn.Signature.Params().Len() == 0 &&
		(fn.Name() == "init" || strings.HasPrefix(fn.Name(), "init#")) && caller != nil {
		return nil, nil
	}
	if fn.Blocks == nil {
		if ex.tolerant > 0 {
			return poisonFor(fn.Signature.Results()), nil
		}
		panic(unsupported("call to function without body: " + name))
	}
	if ex.merge[name] && ex.tolerant == 0 {
		return ex.mergedCall(fn, args, env, caller)
	}
	return ex.runFunction(fn, args, env, caller, false)
}

func poisonFor(res *types.Tuple) Value {
	switch res.Len() {
	case 0:
		return nil
	case 1:
		return &PoisonV{"external"}
	}
	t := &TupleV{E: make([]Value, res.Len())}
	for i := range t.E {
		t.E[i] = &PoisonV{"external"}
	}
	return t
}

func (ex *Exec) runFunction(fn *ssa.Function, args []Value, env []Value, caller *Frame, deferCall bool) (Value, *goPanic) {
	if _, ok := ex.funcsEntered[ex.fnName(fn)]; !ok {
		n := 0
		for _, b := range fn.Blocks {
			n += len(b.Instrs)
		}
		ex.funcsEntered[ex.fnName(fn)] = n
	}
	fr := &Frame{fn: fn, env: make(map[ssa.Value]Value, 16), caller: caller, deferCall: deferCall}
	if caller != nil {
		fr.depth = caller.depth + 1
	}
	if fr.depth > 400 {
		ex.end("unsupported", "call depth > 400 in "+ex.fnName(fn))
	}
	if len(args) != len(fn.Params) {
		panic(fmt.Sprintf("internal: %s called with %d args, wants %d", fn, len(args), len(fn.Params)))
	}
	for i, p := range fn.Params {
		fr.env[p] = args[i]
	}
	for i, fv := range fn.FreeVars {
		fr.env[fv] = env[i]
	}
	fr.block = fn.Blocks[0]
	return ex.runFrame(fr)
}

// runFrame executes until the function returns or panics out.
func (ex *Exec) runFrame(fr *Frame) (Value, *goPanic) {
	for {
		ret, val, p := ex.runBlock(fr)
		if p != nil {
			// panic raised in this frame: run defers, maybe recover
			fr.panicking = p
			if gp := ex.runDefers(fr); gp != nil {
				// a deferred call panicked anew: replaces the current panic
				fr.panicking = gp
			}
			if fr.panicking != nil {
				return nil, fr.panicking
			}
			// recovered
			if fr.fn.Recover != nil {
				fr.prev = fr.block
				fr.block = fr.fn.Recover
				fr.phiDone = false
				continue
			}
			return zeroResults(fr.fn), nil
		}
		if ret {
			return val, nil
		}
	}
}

func zeroResults(fn *ssa.Function) Value {
	res := fn.Signature.Results()
	switch res.Len() {
	case 0:
		return nil
	case 1:
		return zeroValue(res.At(0).Type())
	}
	return zeroValue(res)
}

func (ex *Exec) runDefers(fr *Frame) *goPanic {
	for len(fr.defers) > 0 {
		d := fr.defers[len(fr.defers)-1]
		fr.defers = fr.defers[:len(fr.defers)-1]
		var p *goPanic
		if d.fv.Builtin != "" {
			_, p = ex.callBuiltin(fr, d.fv.Builtin, d.args, d.inst)
		} else if d.fv.Fn == nil {
			p = ex.rtPanic("deferred call of nil function", d.inst.Pos(), fr)
		} else {
			args := d.args
			if d.fv.HasRecv {
				args = append([]Value{d.fv.Recv}, args...)
			}
			name := ex.fnName(d.fv.Fn)
			if h, ok := ex.intercept(d.fv.Fn, name, args, fr); ok {
				p = h.p
			} else if d.fv.Fn.Blocks == nil {
				panic(unsupported("deferred call to function without body: " + name))
			} else {
				_, p = ex.runFunction(d.fv.Fn, args, d.fv.Env, fr, true)
			}
		}
		if p != nil {
			fr.panicking = p
		}
	}
	return nil
}

// runBlock executes the current block. Returns (returned, value, panic).
func (ex *Exec) runBlock(fr *Frame) (bool, Value, *goPanic) {
	b := fr.block
	instrs := b.Instrs
	i := 0
	// phis first, in parallel
	if !fr.phiDone {
		var phiVals []Value
		for i < len(instrs) {
			phi, ok := instrs[i].(*ssa.Phi)
			if !ok {
				break
			}
			idx := -1
			for k, pb := range b.Preds {
				if pb == fr.prev {
					idx = k
					break
				}
			}
			if idx < 0 {
				panic(fmt.Sprintf("internal: phi in %s block %d: predecessor not found", fr.fn, b.Index))
			}
			phiVals = append(phiVals, ex.eval(fr, phi.Edges[idx]))
			i++
		}
		for k := 0; k < i; k++ {
			fr.env[instrs[k].(*ssa.Phi)] = phiVals[k]
		}
	} else {
		for i < len(instrs) {
			if _, ok := instrs[i].(*ssa.Phi); !ok {
				break
			}
			i++
		}
		fr.phiDone = false
	}
	for ; i < len(instrs); i++ {
		ex.steps++
		if p := instrs[i].Pos(); p.IsValid() {
			fr.curPos = p
		}
		ex.cur = fr
		if ex.steps > ex.maxSteps {
			ex.end("budget", fmt.Sprintf("step budget %d exhausted", ex.maxSteps))
		}
		switch in := instrs[i].(type) {
		case *ssa.Jump:
			ex.gotoBlock(fr, b.Succs[0])
			return false, nil, nil
		case *ssa.If:
			cv := ex.eval(fr, in.Cond)
			c, ok := cv.(*Term)
			if !ok {
				if _, isP := cv.(*PoisonV); isP {
					panic(unsupported("branch on poisoned value"))
				}
				panic(fmt.Sprintf("internal: if on %T", cv))
			}
			if !c.IsConst() && ex.tolerant == 0 {
				// (C01) a condition that is literally part of the path
				// condition (or its negation) is already decided: follow
				// that side instead of building an ite / asking the solver.
				if nc, dec := Not(c), 0; true {
					for _, t := range ex.pc {
						if t == c {
							dec = 1
							break
						}
						if t == nc {
							dec = 2
							break
						}
					}
					if dec != 0 {
						ex.gotoBlock(fr, b.Succs[dec-1])
						return false, nil, nil
					}
				}
				if j := ex.tryIfConvert(fr, b, c); j != nil {
					fr.prev = nil
					fr.block = j
					fr.phiDone = true
					ex.countLoop(fr, j)
					return false, nil, nil
				}
			}
			if ex.branch(c) {
				ex.gotoBlock(fr, b.Succs[0])
			} else {
				ex.gotoBlock(fr, b.Succs[1])
			}
			return false, nil, nil
		case *ssa.Return:
			var val Value
			switch len(in.Results) {
			case 0:
			case 1:
				val = ex.eval(fr, in.Results[0])
			default:
				t := &TupleV{E: make([]Value, len(in.Results))}
				for k, r := range in.Results {
					t.E[k] = ex.eval(fr, r)
				}
				val = t
			}
			return true, val, nil
		case *ssa.Panic:
			v := ex.eval(fr, in.X)
			return false, nil, &goPanic{val: v, msg: "panic: " + panicText(v), pos: in.Pos(), fn: ex.fnName(fr.fn)}
		case *ssa.RunDefers:
			if p := ex.runDefers(fr); p != nil {
				return false, nil, p
			}
			if fr.panicking != nil {
				p := fr.panicking
				fr.panicking = nil
				return false, nil, p
			}
		default:
			if p := ex.step(fr, instrs[i]); p != nil {
				return false, nil, p
			}
		}
	}
	panic("internal: block without terminator")
}

func panicText(v Value) string {
	if iv, ok := v.(*IfaceV); ok && iv.T != nil {
		if s, ok := iv.V.(*StringV); ok {
			return s.GoString()
		}
		return iv.T.String()
	}
	return "?"
}

func (ex *Exec) countLoop(fr *Frame, to *ssa.BasicBlock) {
	if fr.loops == nil {
		fr.loops = map[*ssa.BasicBlock]int{}
	}
	fr.loops[to]++
	if fr.loops[to] > ex.unwind+1 {
		ex.end("unwind", fmt.Sprintf("unwinding bound %d exceeded in %s block %d", ex.unwind, ex.fnName(fr.fn), to.Index))
	}
}

func (ex *Exec) gotoBlock(fr *Frame, to *ssa.BasicBlock) {
	if to.Index <= fr.block.Index { // potential back edge
		ex.countLoop(fr, to)
	}
	fr.prev = fr.block
	fr.block = to
}

// ---------- merged (summarised) calls ----------

type subResult struct {
	cond *Term
	val  Value
	p    *goPanic
}

// mergedCall explores all paths of a side-effect-free callee and merges the
// results into one value with ite, so that the caller does not fork.
func (ex *Exec) mergedCall(fn *ssa.Function, args []Value, env []Value, caller *Frame) (Value, *goPanic) {
	savedDec, savedPos := ex.decisions, ex.pos
	basePC := len(ex.pc)
	var results []subResult
	ex.decisions = nil
	for {
		ex.pos = 0
		ex.pc = ex.pc[:basePC]
		ex.known = nil
		var val Value
		var p *goPanic
		ended := false
		func() {
			defer func() {
				if r := recover(); r != nil {
					if pe, ok := r.(*pathEnd); ok && (pe.kind == "infeasible" || pe.kind == "assume" || pe.kind == "violation-stop") {
						ended = true
						return
					}
					// restore before propagating
					ex.decisions, ex.pos = savedDec, savedPos
					panic(r)
				}
			}()
			val, p = ex.runFunction(fn, args, env, caller, false)
		}()
		if !ended {
			c := tTrue
			for _, t := range ex.pc[basePC:] {
				c = And(c, t)
			}
			results = append(results, subResult{c, val, p})
		}
		// backtrack nested
		i := len(ex.decisions) - 1
		for ; i >= 0; i-- {
			d := &ex.decisions[i]
			next := -1
			for j := d.cur + 1; j < d.n; j++ {
				if d.feas[j] != 2 {
					next = j
					break
				}
			}
			if next >= 0 {
				d.cur = next
				ex.decisions = ex.decisions[:i+1]
				break
			}
		}
		if i < 0 {
			break
		}
		if len(results) > 4096 {
			ex.decisions, ex.pos = savedDec, savedPos
			ex.end("unsupported", "merged call has more than 4096 paths: "+ex.fnName(fn))
		}
	}
	ex.decisions, ex.pos = savedDec, savedPos
	ex.pc = ex.pc[:basePC]
	ex.known = nil
	ex.mergedCalls++
	if len(results) == 0 {
		ex.end("infeasible", "merged call: no feasible path")
	}
	// separate panicking results: they become real forks of the caller
	var normal []subResult
	var panics []subResult
	for _, r := range results {
		if r.p != nil {
			panics = append(panics, r)
		} else {
			normal = append(normal, r)
		}
	}
	normCond := tFalse
	for _, r := range normal {
		normCond = Or(normCond, r.cond)
	}
	conds := []*Term{normCond}
	for _, r := range panics {
		conds = append(conds, r.cond)
	}
	pick := 0
	if len(panics) > 0 {
		pick = ex.choose("merged-call", conds)
	} else {
		ex.assume(normCond)
	}
	if pick > 0 {
		return nil, panics[pick-1].p
	}
	// merge normal results (last one is the default)
	merged := normal[len(normal)-1].val
	for i := len(normal) - 2; i >= 0; i-- {
		if merged == nil && normal[i].val == nil {
			continue
		}
		m, ok := iteValue(normal[i].cond, normal[i].val, merged)
		if !ok {
			// cannot merge: fall back to forking over the results
			var cs []*Term
			for _, r := range normal {
				cs = append(cs, r.cond)
			}
			k := ex.choose("merged-call-fallback", cs)
			return normal[k].val, nil
		}
		merged = m
	}
	return merged, nil
}

// ---------- path-condition slicing (independence optimisation) ----------

// varsOf returns the sorted ids of the variables (and UF symbols, as negative
// pseudo-ids) occurring in t.
func (ex *Exec) varsOf(t *Term) []int {
	if ex.varCache == nil {
		ex.varCache = map[int][]int{}
		ex.ufIDs = map[string]int{}
	}
	if v, ok := ex.varCache[t.ID]; ok {
		return v
	}
	var res []int
	switch {
	case t.IsConst():
	case t.Op == OpVar:
		res = []int{t.ID}
	default:
		set := map[int]bool{}
		if t.Op == OpUF {
			base := t.Name
			if i := strings.IndexByte(base, '_'); i >= 0 {
				base = base[:i]
			}
			id, ok := ex.ufIDs[base]
			if !ok {
				id = -(len(ex.ufIDs) + 1)
				ex.ufIDs[base] = id
			}
			set[id] = true
		}
		for _, a := range t.Args {
			for _, v := range ex.varsOf(a) {
				set[v] = true
			}
		}
		res = make([]int, 0, len(set))
		for v := range set {
			res = append(res, v)
		}
		sort.Ints(res)
	}
	ex.varCache[t.ID] = res
	return res
}

// slice returns the conjuncts of the path condition that are (transitively)
// connected to cond through shared variables. Sound because the path
// condition itself is satisfiable: independent conjuncts cannot influence the
// satisfiability of the connected component.
func (ex *Exec) slice(cond *Term) []*Term {
	if ex.noSlice {
		return append([]*Term{}, ex.pc...)
	}
	cur := map[int]bool{}
	for _, v := range ex.varsOf(cond) {
		cur[v] = true
	}
	taken := make([]bool, len(ex.pc))
	var out []*Term
	for changed := true; changed; {
		changed = false
		for i, c := range ex.pc {
			if taken[i] {
				continue
			}
			vs := ex.varsOf(c)
			hit := len(vs) == 0
			for _, v := range vs {
				if cur[v] {
					hit = true
					break
				}
			}
			if hit {
				taken[i] = true
				changed = true
				for _, v := range vs {
					cur[v] = true
				}
			}
		}
	}
	for i, c := range ex.pc {
		if taken[i] {
			out = append(out, c)
		}
	}
	return out
}

// proven remembers obligations already discharged under a subset of the
// current path condition.
func (ex *Exec) provenUnder(cond *Term, sl []*Term) bool {
	for _, set := range ex.proven[cond.ID] {
		// set ⊆ current pc ?
		ok := true
		for id := range set {
			if !ex.pcHas[id] {
				ok = false
				break
			}
		}
		if ok {
			return true
		}
	}
	return false
}

func (ex *Exec) rememberProven(cond *Term, sl []*Term) {
	if ex.proven == nil {
		ex.proven = map[int][]map[int]bool{}
	}
	set := map[int]bool{}
	for _, t := range sl {
		set[t.ID] = true
	}
	if len(ex.proven[cond.ID]) < 64 {
		ex.proven[cond.ID] = append(ex.proven[cond.ID], set)
	}
}

// knownValue reports whether the boolean term c is syntactically decided by
// the conjuncts of the path condition (1 true, -1 false, 0 unknown).
func (ex *Exec) knownValue(c *Term) int8 {
	if ex.known == nil || ex.knownLen != len(ex.pc) {
		// (re)build incrementally or from scratch
		if ex.known == nil || ex.knownLen > len(ex.pc) {
			ex.known = map[int]int8{}
			ex.knownLen = 0
		}
		var add func(t *Term, pos bool)
		add = func(t *Term, pos bool) {
			switch {
			case t.Op == OpNot:
				add(t.Args[0], !pos)
			case t.Op == OpAnd && pos:
				add(t.Args[0], true)
				add(t.Args[1], true)
			case t.Op == OpOr && !pos:
				add(t.Args[0], false)
				add(t.Args[1], false)
			default:
				if pos {
					ex.known[t.ID] = 1
				} else {
					ex.known[t.ID] = -1
				}
			}
		}
		for _, t := range ex.pc[ex.knownLen:] {
			add(t, true)
		}
		ex.knownLen = len(ex.pc)
	}
	if c.Op == OpNot {
		return -ex.known[c.Args[0].ID]
	}
	return ex.known[c.ID]
}
