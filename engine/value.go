package main

// Run-time values of the symbolic interpreter. Shapes are concrete, scalars
// are SMT terms. Aggregate values (StructV, ArrayV) are immutable trees;
// stores rebuild the spine.

import (
	"fmt"
	"go/types"
	"strings"

	"golang.org/x/tools/go/ssa"
)

type Value interface{}

type StructV struct{ F []Value }
type ArrayV struct{ E []Value }

type Object struct {
	ID   int
	V    Value
	T    types.Type
	Name string
}

type PtrV struct {
	Obj  *Object
	Path []int
	// Fn != nil: pointer obtained from a function (unsupported deref)
}

type SliceV struct {
	Obj  *Object // nil => nil slice
	Base []int   // path to the backing array inside Obj
	Off  int
	Len  int
	Cap  int
}

type StringV struct {
	S string
	B []*Term // non-nil: symbolic bytes (S unused)
}

type MapObj struct {
	ID   int
	Keys []Value
	Vals []Value
	Del  []bool
}

type MapV struct{ M *MapObj }

type IfaceV struct {
	T types.Type // nil => nil interface
	V Value
}

type FuncV struct {
	Fn      *ssa.Function
	Env     []Value
	Builtin string
	Recv    Value // bound method receiver (Fn is the method)
	HasRecv bool
}

type ChanObj struct {
	ID     int
	Buf    []Value
	Cap    int
	Closed bool
}

type ChanV struct{ C *ChanObj }

type TupleV struct{ E []Value }

// IterV is the state of a Range over a map or string.
type IterV struct {
	Keys []Value
	Vals []Value
	Pos  int
	Str  bool
}

// PoisonV marks a value produced by an unsupported construct during tolerant
// (package initialiser) execution.
type PoisonV struct{ Why string }

// HashV models a streaming hash object (sha256.New etc.).
type HashObj struct {
	Kind string
	Data []*Term
}

func isNilValue(v Value) bool {
	switch x := v.(type) {
	case *PtrV:
		return x.Obj == nil
	case *SliceV:
		return x.Obj == nil
	case *MapV:
		return x.M == nil
	case *IfaceV:
		return x.T == nil
	case *FuncV:
		return x.Fn == nil && x.Builtin == ""
	case *ChanV:
		return x.C == nil
	case nil:
		return true
	}
	return false
}

func intWidth(t *types.Basic) (int, bool) { // width, signed
	switch t.Kind() {
	case types.Int8:
		return 8, true
	case types.Int16:
		return 16, true
	case types.Int32:
		return 32, true
	case types.Int64, types.Int:
		return 64, true
	case types.Uint8:
		return 8, false
	case types.Uint16:
		return 16, false
	case types.Uint32:
		return 32, false
	case types.Uint64, types.Uint, types.Uintptr:
		return 64, false
	case types.UntypedInt, types.UntypedRune:
		return 64, true
	}
	return 0, false
}

func isInteger(t types.Type) (w int, signed bool, ok bool) {
	b, isb := t.Underlying().(*types.Basic)
	if !isb || b.Info()&types.IsInteger == 0 {
		return 0, false, false
	}
	w, signed = intWidth(b)
	return w, signed, w != 0
}

func isFloat(t types.Type) bool {
	b, ok := t.Underlying().(*types.Basic)
	return ok && b.Info()&types.IsFloat != 0
}

func isBoolT(t types.Type) bool {
	b, ok := t.Underlying().(*types.Basic)
	return ok && b.Info()&types.IsBoolean != 0
}

func isStringT(t types.Type) bool {
	b, ok := t.Underlying().(*types.Basic)
	return ok && b.Info()&types.IsString != 0
}

func zeroValue(t types.Type) Value {
	switch u := t.Underlying().(type) {
	case *types.Basic:
		if u.Info()&types.IsBoolean != 0 {
			return tFalse
		}
		if u.Info()&types.IsInteger != 0 {
			w, _ := intWidth(u)
			return BV(0, w)
		}
		if u.Info()&types.IsFloat != 0 {
			return FPConst(0)
		}
		if u.Info()&types.IsString != 0 {
			return &StringV{}
		}
		if u.Kind() == types.UnsafePointer {
			return &PtrV{}
		}
		if u.Kind() == types.UntypedNil {
			return &IfaceV{}
		}
		panic(unsupported("zero value of basic type " + u.String()))
	case *types.Struct:
		s := &StructV{F: make([]Value, u.NumFields())}
		for i := range s.F {
			s.F[i] = zeroValue(u.Field(i).Type())
		}
		return s
	case *types.Array:
		n := int(u.Len())
		a := &ArrayV{E: make([]Value, n)}
		if n > 0 {
			z := zeroValue(u.Elem())
			for i := range a.E {
				a.E[i] = z
			}
		}
		return a
	case *types.Pointer:
		return &PtrV{}
	case *types.Slice:
		return &SliceV{}
	case *types.Map:
		return &MapV{}
	case *types.Interface:
		return &IfaceV{}
	case *types.Signature:
		return &FuncV{}
	case *types.Chan:
		return &ChanV{}
	case *types.Tuple:
		tv := &TupleV{E: make([]Value, u.Len())}
		for i := range tv.E {
			tv.E[i] = zeroValue(u.At(i).Type())
		}
		return tv
	}
	panic(unsupported("zero value of type " + t.String()))
}

type unsupportedErr struct{ msg string }

func unsupported(msg string) *unsupportedErr { return &unsupportedErr{msg} }
func (u *unsupportedErr) Error() string       { return "unsupported: " + u.msg }

// getPath / setPath navigate immutable aggregate trees.
func getPath(v Value, path []int) Value {
	for _, i := range path {
		switch x := v.(type) {
		case *StructV:
			v = x.F[i]
		case *ArrayV:
			v = x.E[i]
		default:
			panic(unsupported(fmt.Sprintf("getPath through %T", v)))
		}
	}
	return v
}

func setPath(v Value, path []int, nv Value) Value {
	if len(path) == 0 {
		return nv
	}
	i := path[0]
	switch x := v.(type) {
	case *StructV:
		c := &StructV{F: make([]Value, len(x.F))}
		copy(c.F, x.F)
		c.F[i] = setPath(x.F[i], path[1:], nv)
		return c
	case *ArrayV:
		c := &ArrayV{E: make([]Value, len(x.E))}
		copy(c.E, x.E)
		c.E[i] = setPath(x.E[i], path[1:], nv)
		return c
	}
	panic(unsupported(fmt.Sprintf("setPath through %T", v)))
}

func appendPath(p []int, i ...int) []int {
	n := make([]int, 0, len(p)+len(i))
	n = append(n, p...)
	return append(n, i...)
}

func samePath(a, b []int) bool {
	if len(a) != len(b) {
		return false
	}
	for i := range a {
		if a[i] != b[i] {
			return false
		}
	}
	return true
}

// valueEq builds the boolean term for Go's == on two values of the same type.
func valueEq(a, b Value) *Term {
	switch x := a.(type) {
	case *Term:
		y, ok := b.(*Term)
		if !ok {
			panic(unsupported(fmt.Sprintf("== between %T and %T", a, b)))
		}
		if x.Sort.K == KFP {
			return fpCmp(OpFPEq, x, y)
		}
		return Eq(x, y)
	case *StructV:
		y := b.(*StructV)
		r := tTrue
		for i := range x.F {
			r = And(r, valueEq(x.F[i], y.F[i]))
		}
		return r
	case *ArrayV:
		y := b.(*ArrayV)
		if w := wideArrayEq(x, y); w != nil { // models_c06.go: one wide equality when a side is the split of one term
			return w
		}
		r := tTrue
		for i := range x.E {
			r = And(r, valueEq(x.E[i], y.E[i]))
		}
		return r
	case *PtrV:
		y, ok := b.(*PtrV)
		if !ok {
			panic(unsupported(fmt.Sprintf("== between %T and %T", a, b)))
		}
		return Bool(x.Obj == y.Obj && samePath(x.Path, y.Path))
	case *StringV:
		y := b.(*StringV)
		return stringEq(x, y)
	case *IfaceV:
		y, ok := b.(*IfaceV)
		if !ok {
			panic(unsupported(fmt.Sprintf("== between %T and %T", a, b)))
		}
		if x.T == nil || y.T == nil {
			return Bool(x.T == nil && y.T == nil)
		}
		if !types.Identical(x.T, y.T) {
			return tFalse
		}
		return valueEq(x.V, y.V)
	case *SliceV:
		y := b.(*SliceV)
		if x.Obj == nil || y.Obj == nil {
			return Bool(x.Obj == nil && y.Obj == nil)
		}
		panic(unsupported("slice comparison to non-nil"))
	case *MapV:
		y := b.(*MapV)
		if x.M == nil || y.M == nil {
			return Bool(x.M == nil && y.M == nil)
		}
		return Bool(x.M == y.M)
	case *FuncV:
		y := b.(*FuncV)
		if isNilValue(x) || isNilValue(y) {
			return Bool(isNilValue(x) && isNilValue(y))
		}
		panic(unsupported("func comparison to non-nil"))
	case *ChanV:
		y := b.(*ChanV)
		return Bool(x.C == y.C)
	}
	panic(unsupported(fmt.Sprintf("== on %T", a)))
}

func (s *StringV) Len() int {
	if s.B != nil {
		return len(s.B)
	}
	return len(s.S)
}

func (s *StringV) Byte(i int) *Term {
	if s.B != nil {
		return s.B[i]
	}
	return BV(uint64(s.S[i]), 8)
}

func (s *StringV) Concrete() bool {
	if s.B == nil {
		return true
	}
	for _, b := range s.B {
		if !b.IsConst() {
			return false
		}
	}
	return true
}

func (s *StringV) GoString() string {
	if s.B == nil {
		return s.S
	}
	var sb strings.Builder
	for _, b := range s.B {
		if b.IsConst() {
			sb.WriteByte(byte(b.U64()))
		} else {
			sb.WriteByte('?')
		}
	}
	return sb.String()
}

func stringEq(x, y *StringV) *Term {
	if x.Len() != y.Len() {
		return tFalse
	}
	if x.B == nil && y.B == nil {
		return Bool(x.S == y.S)
	}
	r := tTrue
	for i := 0; i < x.Len(); i++ {
		r = And(r, Eq(x.Byte(i), y.Byte(i)))
	}
	return r
}

// iteValue merges two values of identical shape under a condition.
func iteValue(c *Term, a, b Value) (Value, bool) {
	if c.IsTrue() {
		return a, true
	}
	if c.IsFalse() {
		return b, true
	}
	switch x := a.(type) {
	case *Term:
		y, ok := b.(*Term)
		if !ok || x.Sort != y.Sort {
			return nil, false
		}
		return Ite(c, x, y), true
	case *StructV:
		y, ok := b.(*StructV)
		if !ok || len(x.F) != len(y.F) {
			return nil, false
		}
		if x == y {
			return x, true
		}
		r := &StructV{F: make([]Value, len(x.F))}
		for i := range x.F {
			v, ok := iteValue(c, x.F[i], y.F[i])
			if !ok {
				return nil, false
			}
			r.F[i] = v
		}
		return r, true
	case *ArrayV:
		y, ok := b.(*ArrayV)
		if !ok || len(x.E) != len(y.E) {
			return nil, false
		}
		if x == y {
			return x, true
		}
		r := &ArrayV{E: make([]Value, len(x.E))}
		for i := range x.E {
			v, ok := iteValue(c, x.E[i], y.E[i])
			if !ok {
				return nil, false
			}
			r.E[i] = v
		}
		return r, true
	case *PtrV:
		y, ok := b.(*PtrV)
		if ok && x.Obj == y.Obj && samePath(x.Path, y.Path) {
			return x, true
		}
	case *StringV:
		y, ok := b.(*StringV)
		if ok && x.B == nil && y.B == nil && x.S == y.S {
			return x, true
		}
		if ok && x.Len() == y.Len() {
			r := &StringV{B: make([]*Term, x.Len())}
			for i := range r.B {
				r.B[i] = Ite(c, x.Byte(i), y.Byte(i))
			}
			return r, true
		}
	case *IfaceV:
		y, ok := b.(*IfaceV)
		if !ok {
			return nil, false
		}
		if x.T == nil && y.T == nil {
			return x, true
		}
		if x.T != nil && y.T != nil && types.Identical(x.T, y.T) {
			v, ok := iteValue(c, x.V, y.V)
			if ok {
				return &IfaceV{T: x.T, V: v}, true
			}
		}
	case *SliceV:
		y, ok := b.(*SliceV)
		if ok && x.Obj == y.Obj && samePath(x.Base, y.Base) && x.Off == y.Off && x.Len == y.Len && x.Cap == y.Cap {
			return x, true
		}
	case *MapV:
		y, ok := b.(*MapV)
		if ok && x.M == y.M {
			return x, true
		}
	case *FuncV:
		y, ok := b.(*FuncV)
		if ok && x == y {
			return x, true
		}
		if ok && isNilValue(x) && isNilValue(y) {
			return x, true
		}
	case *TupleV:
		y, ok := b.(*TupleV)
		if !ok || len(x.E) != len(y.E) {
			return nil, false
		}
		r := &TupleV{E: make([]Value, len(x.E))}
		for i := range x.E {
			v, ok := iteValue(c, x.E[i], y.E[i])
			if !ok {
				return nil, false
			}
			r.E[i] = v
		}
		return r, true
	case *ChanV:
		y, ok := b.(*ChanV)
		if ok && x.C == y.C {
			return x, true
		}
	}
	return nil, false
}

// describe renders a value for diagnostics / vObserve.
func describe(v Value, model map[string]*Term) interface{} {
	memo := map[int]*Term{}
	var d func(v Value, depth int) interface{}
	d = func(v Value, depth int) interface{} {
		if depth > 6 {
			return "…"
		}
		switch x := v.(type) {
		case *Term:
			t := x
			if model != nil {
				t = Eval(x, model, memo)
			}
			if t.IsConst() {
				switch t.Sort.K {
				case KBool:
					return t.IsTrue()
				case KBV:
					return t.Val.String()
				default:
					return t.Float()
				}
			}
			return t.Pretty(3)
		case *StructV:
			var r []interface{}
			for _, f := range x.F {
				r = append(r, d(f, depth+1))
			}
			return r
		case *ArrayV:
			var r []interface{}
			for _, f := range x.E {
				r = append(r, d(f, depth+1))
			}
			return r
		case *StringV:
			return x.GoString()
		case *PtrV:
			if x.Obj == nil {
				return "nil"
			}
			return fmt.Sprintf("&obj%d%v", x.Obj.ID, x.Path)
		case *IfaceV:
			if x.T == nil {
				return "nil"
			}
			return map[string]interface{}{"type": x.T.String(), "value": d(x.V, depth+1)}
		case *SliceV:
			if x.Obj == nil {
				return "nil-slice"
			}
			arr := getPath(x.Obj.V, x.Base).(*ArrayV)
			var r []interface{}
			for i := 0; i < x.Len; i++ {
				r = append(r, d(arr.E[x.Off+i], depth+1))
			}
			return r
		case *TupleV:
			var r []interface{}
			for _, f := range x.E {
				r = append(r, d(f, depth+1))
			}
			return r
		}
		return fmt.Sprintf("%T", v)
	}
	return d(v, 0)
}
