package main

// Models added for property C10 (wire codecs).
//
// sort.Slice / sort.SliceStable: the standard library implements them with
// internal/reflectlite (Swapper, ValueOf) which the engine cannot execute.
// The model sorts the backing array in place with an insertion sort that calls
// the real `less` closure (which may fork on symbolic keys). The result is a
// permutation sorted under `less`; for keys that compare equal the relative
// order is the stable one (sort.Slice leaves it unspecified).

import (
	"fmt"

	"golang.org/x/tools/go/ssa"
)

func modelSortSlice(ex *Exec, fn *ssa.Function, args []Value, caller *Frame) (Value, *goPanic) {
	iv, ok := args[0].(*IfaceV)
	if !ok || iv.T == nil {
		panic(unsupported("sort.Slice of a nil interface"))
	}
	s, ok := iv.V.(*SliceV)
	if !ok {
		panic(unsupported(fmt.Sprintf("sort.Slice of %T", iv.V)))
	}
	less, ok := args[1].(*FuncV)
	if !ok {
		panic(unsupported("sort.Slice: less is not a function value"))
	}
	for i := 1; i < s.Len; i++ {
		for j := i; j > 0; j-- {
			r, p := ex.callValue(caller, less, []Value{BVI(int64(j), 64), BVI(int64(j-1), 64)}, nil)
			if p != nil {
				return nil, p
			}
			if !ex.branch(r.(*Term)) {
				break
			}
			el := ex.sliceElems(s)
			a, b := el[j], el[j-1]
			ex.sliceSet(s, j, b)
			ex.sliceSet(s, j-1, a)
		}
	}
	return nil, nil
}

func init() {
	models["sort.Slice"] = modelSortSlice
	models["sort.SliceStable"] = modelSortSlice
}
