package main

import (
	"fmt"
	"go/token"
	"go/types"
	"math/big"
	"runtime"
	"strings"

	"golang.org/x/tools/go/ssa"
)

func (ex *Exec) ovfActive(fr *Frame) bool {
	if len(ex.ovf) == 0 {
		return false
	}
	n := ex.fnName(fr.fn)
	for _, p := range ex.ovf {
		if p == n || (strings.HasSuffix(p, "*") && strings.HasPrefix(n, p[:len(p)-1])) {
			return true
		}
	}
	return false
}

// step executes one non-control instruction.
func (ex *Exec) step(fr *Frame, instr ssa.Instruction) (gp *goPanic) {
	if ex.tolerant > 0 {
		defer func() {
			if r := recover(); r != nil {
				_, isRT := r.(runtime.Error)
				if _, ok := r.(*unsupportedErr); ok || isRT {
					if v, isV := instr.(ssa.Value); isV {
						fr.env[v] = &PoisonV{"unsupported in init"}
					}
					gp = nil
					return
				}
				panic(r)
			}
		}()
	}
	switch in := instr.(type) {
	case *ssa.DebugRef:
		return nil
	case *ssa.Alloc:
		et := in.Type().(*types.Pointer).Elem()
		o := ex.newObject(et, zeroValue(et), in.Comment)
		fr.env[in] = &PtrV{Obj: o}
	case *ssa.BinOp:
		v, p := ex.binop(fr, in.Op, ex.eval(fr, in.X), ex.eval(fr, in.Y), in.X.Type(), in.Y.Type(), in.Pos())
		if p != nil {
			return p
		}
		fr.env[in] = v
	case *ssa.UnOp:
		x := ex.eval(fr, in.X)
		if pv, ok := x.(*PoisonV); ok {
			fr.env[in] = pv
			return nil
		}
		switch in.Op {
		case token.MUL:
			v, p := ex.load(x.(*PtrV), in.Pos(), fr)
			if p != nil {
				return p
			}
			fr.env[in] = v
		case token.NOT:
			fr.env[in] = Not(x.(*Term))
		case token.SUB:
			t := x.(*Term)
			if t.Sort.K == KFP {
				fr.env[in] = FPNeg(t)
			} else {
				if ex.ovfActive(fr) {
					if _, signed, _ := isInteger(in.X.Type()); signed {
						ex.obligation(Ne(t, BVBig(new(big.Int).Lsh(big.NewInt(1), uint(t.Sort.W-1)), t.Sort.W)), "overflow", "negation overflows", in.Pos(), ex.fnName(fr.fn))
					}
				}
				fr.env[in] = Neg(t)
			}
		case token.XOR:
			fr.env[in] = BNot(x.(*Term))
		case token.ARROW:
			v, ok, p := ex.chanRecv(fr, x.(*ChanV), in.Pos())
			if p != nil {
				return p
			}
			if in.CommaOk {
				fr.env[in] = &TupleV{E: []Value{v, Bool(ok)}}
			} else {
				fr.env[in] = v
			}
		default:
			panic(unsupported("unop " + in.Op.String()))
		}
	case *ssa.Call:
		v, p := ex.doCall(fr, &in.Call, in)
		if p != nil {
			return p
		}
		fr.env[in] = v
	case *ssa.ChangeInterface:
		fr.env[in] = ex.eval(fr, in.X)
	case *ssa.ChangeType:
		fr.env[in] = ex.eval(fr, in.X)
	case *ssa.Convert:
		fr.env[in] = ex.convert(fr, ex.eval(fr, in.X), in.X.Type(), in.Type(), in.Pos())
	case *ssa.MultiConvert:
		fr.env[in] = ex.convert(fr, ex.eval(fr, in.X), in.X.Type(), in.Type(), in.Pos())
	case *ssa.Defer:
		fv, args := ex.prepareCall(fr, &in.Call)
		fr.defers = append(fr.defers, deferred{fv: fv, args: args, inst: in})
	case *ssa.Go:
		fv, args := ex.prepareCall(fr, &in.Call)
		name := "?"
		if fv.Fn != nil {
			name = ex.fnName(fv.Fn)
		}
		if ex.goInline[name] || ex.goInline["*"] {
			_, p := ex.callValue(fr, fv, args, in)
			if p != nil {
				return p
			}
			return nil
		}
		if ex.noops[name] {
			return nil
		}
		panic(unsupported("go statement: " + name))
	case *ssa.Extract:
		t := ex.eval(fr, in.Tuple)
		if pv, ok := t.(*PoisonV); ok {
			fr.env[in] = pv
			return nil
		}
		fr.env[in] = t.(*TupleV).E[in.Index]
	case *ssa.Field:
		x := ex.eval(fr, in.X)
		if pv, ok := x.(*PoisonV); ok {
			fr.env[in] = pv
			return nil
		}
		fr.env[in] = x.(*StructV).F[in.Field]
	case *ssa.FieldAddr:
		x := ex.eval(fr, in.X)
		if pv, ok := x.(*PoisonV); ok {
			fr.env[in] = pv
			return nil
		}
		p := x.(*PtrV)
		if p.Obj == nil {
			return ex.rtPanic("nil pointer dereference (field address)", in.Pos(), fr)
		}
		fr.env[in] = &PtrV{Obj: p.Obj, Path: appendPath(p.Path, in.Field)}
	case *ssa.Index:
		x := ex.eval(fr, in.X)
		idx := ex.eval(fr, in.Index).(*Term)
		switch a := x.(type) {
		case *ArrayV:
			k, p := ex.indexCheck(fr, idx, in.Index.Type(), len(a.E), in.Pos())
			if p != nil {
				return p
			}
			fr.env[in] = a.E[k]
		case *StringV:
			k, p := ex.indexCheck(fr, idx, in.Index.Type(), a.Len(), in.Pos())
			if p != nil {
				return p
			}
			fr.env[in] = a.Byte(k)
		default:
			panic(unsupported(fmt.Sprintf("Index on %T", x)))
		}
	case *ssa.IndexAddr:
		x := ex.eval(fr, in.X)
		if pv, ok := x.(*PoisonV); ok {
			fr.env[in] = pv
			return nil
		}
		idx := ex.eval(fr, in.Index).(*Term)
		switch a := x.(type) {
		case *SliceV:
			k, p := ex.indexCheck(fr, idx, in.Index.Type(), a.Len, in.Pos())
			if p != nil {
				return p
			}
			fr.env[in] = &PtrV{Obj: a.Obj, Path: appendPath(a.Base, a.Off+k)}
		case *PtrV:
			if a.Obj == nil {
				return ex.rtPanic("nil pointer dereference (index address)", in.Pos(), fr)
			}
			n := int(in.X.Type().Underlying().(*types.Pointer).Elem().Underlying().(*types.Array).Len())
			k, p := ex.indexCheck(fr, idx, in.Index.Type(), n, in.Pos())
			if p != nil {
				return p
			}
			fr.env[in] = &PtrV{Obj: a.Obj, Path: appendPath(a.Path, k)}
		default:
			panic(unsupported(fmt.Sprintf("IndexAddr on %T", x)))
		}
	case *ssa.Lookup:
		x := ex.eval(fr, in.X)
		switch m := x.(type) {
		case *StringV:
			idx := ex.eval(fr, in.Index).(*Term)
			k, p := ex.indexCheck(fr, idx, in.Index.Type(), m.Len(), in.Pos())
			if p != nil {
				return p
			}
			fr.env[in] = m.Byte(k)
		case *MapV:
			key := ex.eval(fr, in.Index)
			vt := in.X.Type().Underlying().(*types.Map).Elem()
			v, ok := ex.mapLookup(m, key, vt)
			if in.CommaOk {
				fr.env[in] = &TupleV{E: []Value{v, Bool(ok)}}
			} else {
				fr.env[in] = v
			}
		case *PoisonV:
			fr.env[in] = m
		default:
			panic(unsupported(fmt.Sprintf("Lookup on %T", x)))
		}
	case *ssa.MakeClosure:
		env := make([]Value, len(in.Bindings))
		for i, b := range in.Bindings {
			env[i] = ex.eval(fr, b)
		}
		fr.env[in] = &FuncV{Fn: in.Fn.(*ssa.Function), Env: env}
	case *ssa.MakeInterface:
		fr.env[in] = &IfaceV{T: in.X.Type(), V: ex.eval(fr, in.X)}
	case *ssa.MakeMap:
		ex.objCount++
		fr.env[in] = &MapV{M: &MapObj{ID: ex.objCount}}
	case *ssa.MakeChan:
		n := ex.concretize(ex.eval(fr, in.Size).(*Term), 8, "chan size")
		ex.objCount++
		fr.env[in] = &ChanV{C: &ChanObj{ID: ex.objCount, Cap: n}}
	case *ssa.MakeSlice:
		et := in.Type().Underlying().(*types.Slice).Elem()
		ln := ex.concretize(ex.eval(fr, in.Len).(*Term), 64, "make len")
		cp := ex.concretize(ex.eval(fr, in.Cap).(*Term), 64, "make cap")
		if ln < 0 || cp < ln {
			return ex.rtPanic("makeslice: len out of range", in.Pos(), fr)
		}
		if cp > 1<<20 {
			panic(unsupported(fmt.Sprintf("make of %d elements", cp)))
		}
		fr.env[in] = ex.makeSlice(et, ln, cp)
	case *ssa.MapUpdate:
		m := ex.eval(fr, in.Map)
		if _, ok := m.(*PoisonV); ok {
			return nil
		}
		mv := m.(*MapV)
		if mv.M == nil {
			return ex.rtPanic("assignment to entry in nil map", in.Pos(), fr)
		}
		ex.mapUpdate(mv, ex.eval(fr, in.Key), ex.eval(fr, in.Value))
	case *ssa.Range:
		x := ex.eval(fr, in.X)
		switch m := x.(type) {
		case *MapV:
			it := &IterV{}
			if m.M != nil {
				for i := range m.M.Keys {
					if !m.M.Del[i] {
						it.Keys = append(it.Keys, m.M.Keys[i])
						it.Vals = append(it.Vals, m.M.Vals[i])
					}
				}
			}
			fr.env[in] = it
		case *StringV:
			if !m.Concrete() {
				panic(unsupported("range over symbolic string"))
			}
			it := &IterV{Str: true}
			s := m.GoString()
			for i, r := range s {
				it.Keys = append(it.Keys, BVI(int64(i), 64))
				it.Vals = append(it.Vals, BVI(int64(r), 32))
			}
			fr.env[in] = it
		default:
			panic(unsupported(fmt.Sprintf("Range on %T", x)))
		}
	case *ssa.Next:
		it := ex.eval(fr, in.Iter).(*IterV)
		tt := in.Type().(*types.Tuple)
		if it.Pos >= len(it.Keys) {
			k := zeroOrInvalid(tt.At(1).Type())
			v := zeroOrInvalid(tt.At(2).Type())
			fr.env[in] = &TupleV{E: []Value{tFalse, k, v}}
		} else {
			fr.env[in] = &TupleV{E: []Value{tTrue, it.Keys[it.Pos], it.Vals[it.Pos]}}
			it.Pos++
		}
	case *ssa.Select:
		return ex.doSelect(fr, in)
	case *ssa.Send:
		ch := ex.eval(fr, in.Chan).(*ChanV)
		return ex.chanSend(fr, ch, ex.eval(fr, in.X), in.Pos())
	case *ssa.Slice:
		v, p := ex.sliceOp(fr, in)
		if p != nil {
			return p
		}
		fr.env[in] = v
	case *ssa.SliceToArrayPointer:
		s := ex.eval(fr, in.X).(*SliceV)
		n := int(in.Type().Underlying().(*types.Pointer).Elem().Underlying().(*types.Array).Len())
		if s.Len < n {
			return ex.rtPanic("slice to array pointer: length too short", in.Pos(), fr)
		}
		if s.Obj == nil {
			fr.env[in] = &PtrV{}
			return nil
		}
		// the array pointer aliases the slice's backing store: supported when the
		// slice starts at offset 0 of a backing array of exactly n elements.
		arr := getPath(s.Obj.V, s.Base).(*ArrayV)
		if s.Off == 0 && len(arr.E) == n {
			fr.env[in] = &PtrV{Obj: s.Obj, Path: s.Base}
		} else {
			panic(unsupported("slice-to-array-pointer into the middle of a backing array"))
		}
	case *ssa.Store:
		a := ex.eval(fr, in.Addr)
		if _, ok := a.(*PoisonV); ok {
			return nil
		}
		return ex.store(a.(*PtrV), ex.eval(fr, in.Val), in.Pos(), fr)
	case *ssa.TypeAssert:
		x := ex.eval(fr, in.X)
		if pv, ok := x.(*PoisonV); ok {
			fr.env[in] = pv
			return nil
		}
		iv := x.(*IfaceV)
		ok := false
		var res Value
		if iv.T != nil {
			if types.IsInterface(in.AssertedType) {
				if types.Implements(iv.T, in.AssertedType.Underlying().(*types.Interface)) {
					ok, res = true, iv
				}
			} else if types.Identical(iv.T, in.AssertedType) {
				ok, res = true, iv.V
			}
		}
		if in.CommaOk {
			if !ok {
				res = zeroValue(in.AssertedType)
			}
			fr.env[in] = &TupleV{E: []Value{res, Bool(ok)}}
		} else {
			if !ok {
				return ex.rtPanic(fmt.Sprintf("interface conversion: %v is not %v", iv.T, in.AssertedType), in.Pos(), fr)
			}
			fr.env[in] = res
		}
	default:
		panic(unsupported(fmt.Sprintf("instruction %T", instr)))
	}
	return nil
}

func zeroOrInvalid(t types.Type) Value {
	if b, ok := t.(*types.Basic); ok && b.Kind() == types.Invalid {
		return nil
	}
	return zeroValue(t)
}

func (ex *Exec) makeSlice(et types.Type, ln, cp int) *SliceV {
	arr := &ArrayV{E: make([]Value, cp)}
	if cp > 0 {
		z := zeroValue(et)
		for i := range arr.E {
			arr.E[i] = z
		}
	}
	o := ex.newObject(types.NewArray(et, int64(cp)), arr, "make")
	return &SliceV{Obj: o, Len: ln, Cap: cp}
}

// indexCheck turns an index term into a concrete index, with a bounds
// obligation; a definitely out-of-range index is a Go panic.
func (ex *Exec) indexCheck(fr *Frame, idx *Term, it types.Type, n int, pos token.Pos) (int, *goPanic) {
	_, signed, _ := isInteger(it)
	idx64 := idx
	if idx.Sort.W < 64 {
		if signed {
			idx64 = SExt(idx, 64)
		} else {
			idx64 = ZExt(idx, 64)
		}
	}
	if idx64.IsConst() {
		v := idx64.Signed()
		if !signed {
			v = idx64.Val
		}
		if v.Sign() < 0 || v.Cmp(big.NewInt(int64(n))) >= 0 {
			return 0, ex.rtPanic(fmt.Sprintf("index out of range [%v] with length %d", v, n), pos, fr)
		}
		return int(v.Int64()), nil
	}
	inRange := ULt(idx64, BV(uint64(n), 64))
	ex.obligation(inRange, "bounds", fmt.Sprintf("index out of range (length %d)", n), pos, ex.fnName(fr.fn))
	if n > 4096 {
		panic(unsupported("symbolic index into more than 4096 elements"))
	}
	return ex.concretize(idx64, 4096, "index"), nil
}

func (ex *Exec) sliceOp(fr *Frame, in *ssa.Slice) (Value, *goPanic) {
	x := ex.eval(fr, in.X)
	getIdx := func(v ssa.Value, def int) int {
		if v == nil {
			return def
		}
		return ex.concretize(ex.eval(fr, v).(*Term), 64, "slice bound")
	}
	switch s := x.(type) {
	case *StringV:
		lo := getIdx(in.Low, 0)
		hi := getIdx(in.High, s.Len())
		if lo < 0 || hi < lo || hi > s.Len() {
			return nil, ex.rtPanic("slice bounds out of range (string)", in.Pos(), fr)
		}
		if s.B != nil {
			return &StringV{B: s.B[lo:hi]}, nil
		}
		return &StringV{S: s.S[lo:hi]}, nil
	case *SliceV:
		lo := getIdx(in.Low, 0)
		hi := getIdx(in.High, s.Len)
		mx := getIdx(in.Max, s.Cap)
		if lo < 0 || hi < lo || mx < hi || mx > s.Cap {
			return nil, ex.rtPanic(fmt.Sprintf("slice bounds out of range [%d:%d:%d] with capacity %d", lo, hi, mx, s.Cap), in.Pos(), fr)
		}
		if s.Obj == nil {
			return &SliceV{}, nil
		}
		return &SliceV{Obj: s.Obj, Base: s.Base, Off: s.Off + lo, Len: hi - lo, Cap: mx - lo}, nil
	case *PtrV:
		if s.Obj == nil {
			return nil, ex.rtPanic("nil pointer dereference (slicing *array)", in.Pos(), fr)
		}
		n := int(in.X.Type().Underlying().(*types.Pointer).Elem().Underlying().(*types.Array).Len())
		lo := getIdx(in.Low, 0)
		hi := getIdx(in.High, n)
		mx := getIdx(in.Max, n)
		if lo < 0 || hi < lo || mx < hi || mx > n {
			return nil, ex.rtPanic("slice bounds out of range (array)", in.Pos(), fr)
		}
		return &SliceV{Obj: s.Obj, Base: s.Path, Off: lo, Len: hi - lo, Cap: mx - lo}, nil
	}
	panic(unsupported(fmt.Sprintf("Slice on %T", x)))
}

func (ex *Exec) sliceElems(s *SliceV) []Value {
	if s.Obj == nil || s.Len == 0 {
		return nil
	}
	arr := getPath(s.Obj.V, s.Base).(*ArrayV)
	return arr.E[s.Off : s.Off+s.Len]
}

func (ex *Exec) sliceSet(s *SliceV, i int, v Value) {
	s.Obj.V = setPath(s.Obj.V, appendPath(s.Base, s.Off+i), v)
}

// ---------- arithmetic ----------

func (ex *Exec) binop(fr *Frame, op token.Token, x, y Value, xt, yt types.Type, pos token.Pos) (Value, *goPanic) {
	if pv, ok := x.(*PoisonV); ok {
		return pv, nil
	}
	if pv, ok := y.(*PoisonV); ok {
		return pv, nil
	}
	switch op {
	case token.EQL:
		return valueEq(x, y), nil
	case token.NEQ:
		return Not(valueEq(x, y)), nil
	}
	// strings
	if sx, ok := x.(*StringV); ok {
		sy := y.(*StringV)
		switch op {
		case token.ADD:
			if sx.B == nil && sy.B == nil {
				return &StringV{S: sx.S + sy.S}, nil
			}
			r := &StringV{B: []*Term{}}
			for i := 0; i < sx.Len(); i++ {
				r.B = append(r.B, sx.Byte(i))
			}
			for i := 0; i < sy.Len(); i++ {
				r.B = append(r.B, sy.Byte(i))
			}
			return r, nil
		case token.LSS, token.LEQ, token.GTR, token.GEQ:
			if sx.Concrete() && sy.Concrete() {
				a, b := sx.GoString(), sy.GoString()
				switch op {
				case token.LSS:
					return Bool(a < b), nil
				case token.LEQ:
					return Bool(a <= b), nil
				case token.GTR:
					return Bool(a > b), nil
				default:
					return Bool(a >= b), nil
				}
			}
		}
		panic(unsupported("string op " + op.String()))
	}
	a, ok1 := x.(*Term)
	b, ok2 := y.(*Term)
	if !ok1 || !ok2 {
		panic(unsupported(fmt.Sprintf("binop %s on %T, %T", op, x, y)))
	}
	if a.Sort.K == KBool {
		switch op {
		case token.AND, token.LAND:
			return And(a, b), nil
		case token.OR, token.LOR:
			return Or(a, b), nil
		}
		panic(unsupported("bool op " + op.String()))
	}
	if a.Sort.K == KFP {
		switch op {
		case token.ADD:
			return fpBin(OpFPAdd, a, b), nil
		case token.SUB:
			return fpBin(OpFPSub, a, b), nil
		case token.MUL:
			return fpBin(OpFPMul, a, b), nil
		case token.QUO:
			return fpBin(OpFPDiv, a, b), nil
		case token.LSS:
			return fpCmp(OpFPLt, a, b), nil
		case token.LEQ:
			return fpCmp(OpFPLe, a, b), nil
		case token.GTR:
			return fpCmp(OpFPLt, b, a), nil
		case token.GEQ:
			return fpCmp(OpFPLe, b, a), nil
		}
		panic(unsupported("float op " + op.String()))
	}
	w, signed, _ := isInteger(xt)
	if w == 0 {
		w, signed = a.Sort.W, false
	}
	fn := ex.fnName(fr.fn)
	chk := ex.ovfActive(fr)
	switch op {
	case token.ADD:
		r := Add(a, b)
		if chk {
			if signed {
				// overflow iff operands have same sign and result differs
				sa, sb, sr := Extract(w-1, w-1, a), Extract(w-1, w-1, b), Extract(w-1, w-1, r)
				ex.obligation(Or(Ne(sa, sb), Eq(sa, sr)), "overflow", "signed addition overflows", pos, fn)
			} else {
				ex.obligation(ULe(a, r), "overflow", "unsigned addition overflows", pos, fn)
			}
		}
		return r, nil
	case token.SUB:
		r := Sub(a, b)
		if chk {
			if signed {
				sa, sb, sr := Extract(w-1, w-1, a), Extract(w-1, w-1, b), Extract(w-1, w-1, r)
				ex.obligation(Or(Eq(sa, sb), Eq(sa, sr)), "overflow", "signed subtraction overflows", pos, fn)
			} else {
				ex.obligation(ULe(b, a), "overflow", "unsigned subtraction underflows", pos, fn)
			}
		}
		return r, nil
	case token.MUL:
		r := Mul(a, b)
		if chk && !(a.IsConst() && b.IsConst()) {
			var ok *Term
			if signed {
				wide := Mul(SExt(a, 2*w), SExt(b, 2*w))
				ok = Eq(SExt(r, 2*w), wide)
			} else {
				wide := Mul(ZExt(a, 2*w), ZExt(b, 2*w))
				ok = Eq(Extract(2*w-1, w, wide), BV(0, w))
			}
			ex.obligation(ok, "overflow", "multiplication overflows", pos, fn)
		}
		return r, nil
	case token.QUO, token.REM:
		if b.IsConst() && b.Val.Sign() == 0 {
			return nil, ex.rtPanic("integer divide by zero", pos, fr)
		}
		if !b.IsConst() {
			ex.obligation(Ne(b, BV(0, w)), "divzero", "integer divide by zero", pos, fn)
		}
		if op == token.QUO {
			if signed {
				return SDiv(a, b), nil
			}
			return UDiv(a, b), nil
		}
		if signed {
			return SRem(a, b), nil
		}
		return URem(a, b), nil
	case token.AND:
		return BAnd(a, b), nil
	case token.OR:
		return BOr(a, b), nil
	case token.XOR:
		return BXor(a, b), nil
	case token.AND_NOT:
		return BAnd(a, BNot(b)), nil
	case token.SHL, token.SHR:
		_, ysigned, _ := isInteger(yt)
		if ysigned {
			if b.IsConst() {
				if b.Signed().Sign() < 0 {
					return nil, ex.rtPanic("negative shift amount", pos, fr)
				}
			} else {
				ex.obligation(SGe(b, BV(0, b.Sort.W)), "shift", "negative shift amount", pos, fn)
			}
		}
		// bring the shift count to width w, saturating
		var cnt *Term
		if b.Sort.W == w {
			cnt = b
		} else if b.Sort.W < w {
			cnt = ZExt(b, w)
		} else {
			big := UGe(b, BV(uint64(w), b.Sort.W))
			cnt = Ite(big, BV(uint64(w), w), Extract(w-1, 0, b))
		}
		if op == token.SHL {
			return Shl(a, cnt), nil
		}
		if signed {
			return AShr(a, cnt), nil
		}
		return LShr(a, cnt), nil
	case token.LSS:
		if signed {
			return SLt(a, b), nil
		}
		return ULt(a, b), nil
	case token.LEQ:
		if signed {
			return SLe(a, b), nil
		}
		return ULe(a, b), nil
	case token.GTR:
		if signed {
			return SGt(a, b), nil
		}
		return UGt(a, b), nil
	case token.GEQ:
		if signed {
			return SGe(a, b), nil
		}
		return UGe(a, b), nil
	}
	panic(unsupported("binop " + op.String()))
}

func (ex *Exec) convert(fr *Frame, x Value, from, to types.Type, pos token.Pos) Value {
	if pv, ok := x.(*PoisonV); ok {
		return pv
	}
	fu, tu := from.Underlying(), to.Underlying()
	// integer conversions
	if fw, fsigned, ok := isInteger(from); ok {
		t := x.(*Term)
		if tw, tsigned, ok := isInteger(to); ok {
			var r *Term
			if tw <= fw {
				r = Extract(tw-1, 0, t)
			} else if fsigned {
				r = SExt(t, tw)
			} else {
				r = ZExt(t, tw)
			}
			if ex.ovfActive(fr) && !t.IsConst() {
				// value-preserving?
				var ok *Term = tTrue
				switch {
				case tw < fw:
					if tsigned {
						ok = Eq(SExt(r, fw), t)
						if !fsigned {
							ok = And(ok, Eq(Extract(tw-1, tw-1, r), BV(0, 1)))
						}
					} else {
						ok = Eq(ZExt(r, fw), t)
					}
				case tw == fw && fsigned != tsigned:
					ok = Eq(Extract(fw-1, fw-1, t), BV(0, 1))
				case tw > fw && fsigned && !tsigned:
					ok = Eq(Extract(fw-1, fw-1, t), BV(0, 1))
				}
				ex.obligation(ok, "overflow", fmt.Sprintf("conversion %s -> %s changes the value", from, to), pos, ex.fnName(fr.fn))
			}
			return r
		}
		if isFloat(to) {
			if b := tu.(*types.Basic); b.Kind() == types.Float32 {
				panic(unsupported("float32"))
			}
			return FPFromInt(t, fsigned)
		}
		if isStringT(to) {
			if t.IsConst() {
				return &StringV{S: string(rune(t.Signed().Int64()))}
			}
			panic(unsupported("string(symbolic rune)"))
		}
		if b, ok := tu.(*types.Basic); ok && b.Kind() == types.UnsafePointer {
			panic(unsupported("uintptr -> unsafe.Pointer"))
		}
	}
	if isFloat(from) {
		t := x.(*Term)
		if isFloat(to) {
			if b := tu.(*types.Basic); b.Kind() == types.Float32 {
				panic(unsupported("float32"))
			}
			return t
		}
		if tw, tsigned, ok := isInteger(to); ok {
			if ex.ovfActive(fr) && !t.IsConst() {
				// in range (Go's result is implementation-defined otherwise)
				var lo, hi float64
				if tsigned {
					lo, hi = -float64(uint64(1)<<uint(tw-1)), float64(uint64(1)<<uint(tw-1))
				} else {
					lo, hi = -1, float64(uint64(1)<<uint(tw-1))*2
				}
				var okc *Term
				if tsigned {
					okc = And(fpCmp(OpFPLe, FPConst(lo), t), fpCmp(OpFPLt, t, FPConst(hi)))
				} else {
					okc = And(fpCmp(OpFPLt, FPConst(lo), t), fpCmp(OpFPLt, t, FPConst(hi)))
				}
				ex.obligation(okc, "overflow", fmt.Sprintf("float conversion to %s out of range", to), pos, ex.fnName(fr.fn))
			}
			return FPToInt(t, tw, tsigned)
		}
	}
	// string <-> []byte
	if isStringT(from) {
		s := x.(*StringV)
		if sl, ok := tu.(*types.Slice); ok {
			if b, ok := sl.Elem().Underlying().(*types.Basic); ok && b.Kind() == types.Uint8 {
				res := ex.makeSlice(sl.Elem(), s.Len(), s.Len())
				if s.Len() > 0 {
					arr := &ArrayV{E: make([]Value, s.Len())}
					for i := range arr.E {
						arr.E[i] = s.Byte(i)
					}
					res.Obj.V = arr
				}
				return res
			}
			if b, ok := sl.Elem().Underlying().(*types.Basic); ok && b.Kind() == types.Int32 && s.Concrete() {
				rs := []rune(s.GoString())
				res := ex.makeSlice(sl.Elem(), len(rs), len(rs))
				arr := &ArrayV{E: make([]Value, len(rs))}
				for i := range arr.E {
					arr.E[i] = BVI(int64(rs[i]), 32)
				}
				res.Obj.V = arr
				return res
			}
		}
		if isStringT(to) {
			return s
		}
	}
	if sl, ok := fu.(*types.Slice); ok && isStringT(to) {
		s := x.(*SliceV)
		if b, ok := sl.Elem().Underlying().(*types.Basic); ok && b.Kind() == types.Uint8 {
			el := ex.sliceElems(s)
			allConst := true
			bs := make([]*Term, len(el))
			for i, e := range el {
				bs[i] = e.(*Term)
				if !bs[i].IsConst() {
					allConst = false
				}
			}
			if allConst {
				raw := make([]byte, len(bs))
				for i := range bs {
					raw[i] = byte(bs[i].U64())
				}
				return &StringV{S: string(raw)}
			}
			return &StringV{B: bs}
		}
	}
	// pointer <-> unsafe.Pointer: identity on our pointer values
	if _, ok := x.(*PtrV); ok {
		return x
	}
	// slice -> array (Go 1.20)
	if _, ok := fu.(*types.Slice); ok {
		if at, ok := tu.(*types.Array); ok {
			s := x.(*SliceV)
			if s.Len < int(at.Len()) {
				panic(unsupported("slice to array conversion: short slice"))
			}
			el := ex.sliceElems(s)
			arr := &ArrayV{E: make([]Value, at.Len())}
			copy(arr.E, el[:at.Len()])
			return arr
		}
	}
	panic(unsupported(fmt.Sprintf("conversion %s -> %s", from, to)))
}

// ---------- maps ----------

func (ex *Exec) mapFind(m *MapObj, key Value) int {
	// returns index of the entry equal to key, or -1. Forks when equality is symbolic.
	var conds []*Term
	var idxs []int
	none := tTrue
	for i := range m.Keys {
		if m.Del[i] {
			continue
		}
		eq := valueEq(key, m.Keys[i])
		if eq.IsFalse() {
			continue
		}
		if eq.IsTrue() {
			if len(conds) == 0 {
				return i
			}
			conds = append(conds, And(none, eq))
			idxs = append(idxs, i)
			none = tFalse
			break
		}
		conds = append(conds, And(none, eq))
		idxs = append(idxs, i)
		none = And(none, Not(eq))
	}
	if len(conds) == 0 {
		return -1
	}
	conds = append(conds, none)
	idxs = append(idxs, -1)
	k := ex.choose("map-key", conds)
	return idxs[k]
}

func (ex *Exec) mapLookup(mv *MapV, key Value, vt types.Type) (Value, bool) {
	if mv.M == nil {
		return zeroValue(vt), false
	}
	i := ex.mapFind(mv.M, key)
	if i < 0 {
		return zeroValue(vt), false
	}
	return mv.M.Vals[i], true
}

func (ex *Exec) mapUpdate(mv *MapV, key, val Value) {
	i := ex.mapFind(mv.M, key)
	if i >= 0 {
		mv.M.Vals[i] = val
		return
	}
	mv.M.Keys = append(mv.M.Keys, key)
	mv.M.Vals = append(mv.M.Vals, val)
	mv.M.Del = append(mv.M.Del, false)
}

func (ex *Exec) mapDelete(mv *MapV, key Value) {
	if mv.M == nil {
		return
	}
	i := ex.mapFind(mv.M, key)
	if i >= 0 {
		mv.M.Del[i] = true
	}
}

func mapLen(mv *MapV) int {
	if mv.M == nil {
		return 0
	}
	n := 0
	for _, d := range mv.M.Del {
		if !d {
			n++
		}
	}
	return n
}

// ---------- channels (single-threaded model) ----------

func (ex *Exec) chanSend(fr *Frame, ch *ChanV, v Value, pos token.Pos) *goPanic {
	if ch.C == nil {
		ex.end("blocked", "send on nil channel at "+ex.posStr(pos))
	}
	if ch.C.Closed {
		return ex.rtPanic("send on closed channel", pos, fr)
	}
	if len(ch.C.Buf) >= ch.C.Cap {
		ex.end("blocked", "send would block at "+ex.posStr(pos))
	}
	ch.C.Buf = append(ch.C.Buf, v)
	return nil
}

func (ex *Exec) chanRecv(fr *Frame, ch *ChanV, pos token.Pos) (Value, bool, *goPanic) {
	if ch.C == nil {
		ex.end("blocked", "receive on nil channel at "+ex.posStr(pos))
	}
	if len(ch.C.Buf) > 0 {
		v := ch.C.Buf[0]
		ch.C.Buf = ch.C.Buf[1:]
		return v, true, nil
	}
	if ch.C.Closed {
		return nil, false, nil
	}
	ex.end("blocked", "receive would block at "+ex.posStr(pos))
	return nil, false, nil
}

func (ex *Exec) doSelect(fr *Frame, in *ssa.Select) *goPanic {
	type rdy struct{ idx int }
	var ready []int
	for i, st := range in.States {
		ch := ex.eval(fr, st.Chan).(*ChanV)
		if ch.C == nil {
			continue
		}
		if st.Dir == types.SendOnly {
			if ch.C.Closed || len(ch.C.Buf) < ch.C.Cap {
				ready = append(ready, i)
			}
		} else {
			if len(ch.C.Buf) > 0 || ch.C.Closed {
				ready = append(ready, i)
			}
		}
	}
	tt := in.Type().(*types.Tuple)
	res := &TupleV{E: make([]Value, tt.Len())}
	for k := 2; k < tt.Len(); k++ {
		res.E[k] = zeroValue(tt.At(k).Type())
	}
	res.E[1] = tFalse
	if len(ready) == 0 {
		if !in.Blocking {
			res.E[0] = BVI(-1, 64)
			fr.env[in] = res
			return nil
		}
		ex.end("blocked", "select would block at "+ex.posStr(in.Pos()))
	}
	pick := ready[0]
	if len(ready) > 1 {
		conds := make([]*Term, len(ready))
		for i := range conds {
			conds[i] = tTrue
		}
		// all alternatives are feasible: pure non-determinism
		pick = ready[ex.chooseFree("select", len(ready))]
	}
	st := in.States[pick]
	ch := ex.eval(fr, st.Chan).(*ChanV)
	res.E[0] = BVI(int64(pick), 64)
	if st.Dir == types.SendOnly {
		if p := ex.chanSend(fr, ch, ex.eval(fr, st.Send), in.Pos()); p != nil {
			return p
		}
	} else {
		v, ok, p := ex.chanRecv(fr, ch, in.Pos())
		if p != nil {
			return p
		}
		res.E[1] = Bool(ok)
		// position of this receive among receive states
		k := 2
		for i := 0; i < pick; i++ {
			if in.States[i].Dir == types.RecvOnly {
				k++
			}
		}
		if ok {
			res.E[k] = v
		}
	}
	fr.env[in] = res
	return nil
}

// chooseFree makes an n-way decision whose alternatives are all feasible.
func (ex *Exec) chooseFree(kind string, n int) int {
	if n == 1 {
		return 0
	}
	if ex.pos < len(ex.decisions) {
		d := &ex.decisions[ex.pos]
		ex.pos++
		return d.cur
	}
	d := decision{n: n, feas: make([]int, n), kind: kind}
	for i := range d.feas {
		d.feas[i] = 1
	}
	ex.decisions = append(ex.decisions, d)
	ex.pos++
	return 0
}
