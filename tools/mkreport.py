#!/usr/bin/env python3
"""Print the per-property result table and the seeded-change detection table (markdown) from
harness/*/spec.json, evidence/*.json and seeded/*/meta.json."""
import json, os, glob
V = os.path.dirname(os.path.dirname(os.path.abspath(__file__)))
props = [json.loads(l) for l in open(os.path.join(V, "properties.jsonl"))]
print("| prop | entries (quick) | paths | obligations (discharged) | solver queries | native replays | wall s (tier) |")
print("|---|---|---|---|---|---|---|")
for p in props:
    pid = p["id"]
    ev = os.path.join(V, "evidence", pid + ".json")
    sp = os.path.join(V, "harness", pid, "spec.json")
    if not os.path.exists(sp):
        print("| %s | not applicable | | | | | |" % pid)
        continue
    s = json.load(open(sp))
    n = sum(1 for u in s["units"] for e in u["entries"] if "quick" in (e.get("tiers", ["quick", "thorough"]) if isinstance(e, dict) else ["quick"]))
    if os.path.exists(ev):
        e = json.load(open(ev)); c = e["coverage"]
        print("| %s | %d | %d | %d (%d) | %d | %d | %.0f (%s) |" % (pid, n, c.get("states", 0), c.get("obligations", 0), c.get("discharged", 0),
              c.get("queries", {}).get("total", 0), c.get("traces_validated_against_impl", 0), e["wall_s"], e["tier"]))
    else:
        print("| %s | %d | - | - | - | - | - |" % (pid, n))
print()
print("| seeded change | what it breaks (short) | confirmed (builds / existing tests pass / demo fails with, passes without) | check verdict | detecting entry |")
print("|---|---|---|---|---|")
for d in sorted(glob.glob(os.path.join(V, "seeded", "C*-*"))):
    m = json.load(open(os.path.join(d, "meta.json")))
    ck = m.get("check", {})
    det = ck.get("detail") or []
    ent = ""
    if det:
        import re
        mm = re.search(r"entry=(\S+)", det[0]); ent = mm.group(1) if mm else ""
    verdict = "DETECTED (exit 1, replayed)" if m.get("detected") else ("not detected (exit %s)" % ck.get("exit"))
    conf = "%s / %s / %s, %s" % (m.get("builds"), m.get("existing_tests_pass"), m.get("demo_fails_with_patch"), m.get("demo_passes_without_patch"))
    what = (m.get("what_breaks") or "")[:140].replace("|", "/").replace("\n", " ")
    print("| %s | %s… | %s | %s | %s |" % (os.path.basename(d), what, conf, verdict, ent))
