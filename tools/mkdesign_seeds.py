#!/usr/bin/env python3
"""Regenerate DESIGN.md §13.5 (between the markers) from seeded/*/meta.json."""
import json, os, glob, re
V = os.path.dirname(os.path.dirname(os.path.abspath(__file__)))
B, E = "<!-- SEEDED-TABLE-BEGIN -->", "<!-- SEEDED-TABLE-END -->"

def short(t, n):
    t = re.sub(r"\s+", " ", (t or "")).replace("|", "/")
    return t if len(t) <= n else t[: n - 1].rsplit(" ", 1)[0] + " …"

rows, det, tot, byprop = [], 0, 0, {}
def keyf(d):
    b = os.path.basename(d); p, n = b.split("-"); return (p, int(n))
for d in sorted(glob.glob(os.path.join(V, "seeded", "C*-*")), key=keyf):
    m = json.load(open(os.path.join(d, "meta.json")))
    sid = os.path.basename(d)
    ck = m.get("check") or {}
    ent = ""
    for l in ck.get("detail") or []:
        mm = re.search(r"entry=(\S+)", l)
        if mm:
            ent = mm.group(1); break
    ok = bool(m.get("detected"))
    tot += 1; det += ok
    p = sid.split("-")[0]
    a = byprop.setdefault(p, [0, 0]); a[1] += 1; a[0] += ok
    chk = ""
    mm = re.search(r"vcheck (\S+)", ck.get("cmd", ""))
    if mm and mm.group(1) != p:
        chk = " (run as %s)" % mm.group(1)
    verdict = ("detected: `%s`%s" % (ent, chk)) if ok else ("**not detected** (exit %s)" % ck.get("exit"))
    files = ", ".join(os.path.basename(f) for f in (m.get("files_touched") or []))
    rows.append("| %s | %s | %s | %s | %s |" % (sid, files, short(m.get("what_breaks"), 170), short(m.get("needs_to_manifest"), 120), verdict))

out = [B, "",
       "%d of %d confirmed seeded changes are detected by the registered quick checks (exit 1, `VIOLATION` line, counterexample replayed natively against the changed tree). Per property: %s." % (
           det, tot, ", ".join("%s %d/%d" % (p, a[0], a[1]) for p, a in sorted(byprop.items()))),
       "",
       "| seed | file(s) | what the change breaks | what it needs to manifest | verdict of `vcheck <prop> --tier quick` |",
       "|---|---|---|---|---|"] + rows + ["", E]
p = os.path.join(V, "DESIGN.md")
s = open(p).read()
if B in s:
    s = s[: s.index(B)] + "\n".join(out) + s[s.index(E) + len(E):]
else:
    raise SystemExit("markers missing in DESIGN.md")
open(p, "w").write(s)
print("seeded table: %d/%d detected" % (det, tot))
