#!/usr/bin/env python3
"""Regenerate /verif/MANIFEST.json from harness/*/spec.json ("claim" blocks) and tools/not_applicable.json."""
import json, os, glob
V = os.path.dirname(os.path.dirname(os.path.abspath(__file__)))
props = [json.loads(l) for l in open(os.path.join(V, "properties.jsonl"))]
na = json.load(open(os.path.join(V, "tools", "not_applicable.json")))
checks, served, napp = [], [], []
for p in props:
    pid = p["id"]
    sp = os.path.join(V, "harness", pid, "spec.json")
    claim = None
    if os.path.exists(sp):
        spj = json.load(open(sp))
        claim = spj.get("claim") if spj.get("ready") else None
    if claim:
        served.append(pid)
        c = {"property_id": pid,
             "quick_cmd": "cd /verif && ./vcheck %s --tier quick" % pid,
             "evidence_file": "/verif/evidence/%s.json" % pid,
             "replay_cmd_template": "cd /verif && ./vcheck replay %s {path}" % pid,
             "engine": "gosmt",
             "level_claimed": {"category": "model_checking", "text": claim["text"], "design_ref": claim.get("design_ref", "DESIGN.md §7 " + pid)},
             "level_note": claim["note"],
             "technique": claim.get("technique", "SMT-based bounded symbolic execution of the real code's go/ssa (gosmt: z3/cvc5 decide every obligation), counterexamples replayed natively")}
        if claim.get("thorough", True):
            c["thorough_cmd"] = "cd /verif && ./vcheck %s --tier thorough" % pid
        checks.append(c)
    else:
        napp.append({"property_id": pid, "reason": na.get(pid, "check not built yet")})
m = {"version": 1,
     "setup_cmd": "cd /verif && ./vcheck build && ./vcheck selftest",
     "hooks": {"guard": "verif",
               "enable": "none needed: harness files are injected into the package under test through go/packages Overlay (symbolic run) and `go test -overlay` (native replay); /repo is never modified by the checks",
               "baseline_off_cmd": "for m in $(cat /w/out/gomods.txt); do MF=$(cd /repo/$m && . /w/out/goenv.sh && gomodflag); (cd /repo/$m && go test $MF -json -vet=off -count=1 -timeout 25m ./...); done",
               "source_commits": [], "add_only": True},
     "engines": [{"name": "gosmt", "path": "/verif/engine", "serves_properties": served,
                  "kind_free_text": "Go SSA -> SMT-LIB2 bounded symbolic executor written for this task (x/tools go/ssa v0.29.0; z3 4.8.12, z3 5.1.0, cvc5 1.0.3 as deciding back ends), driver /verif/vcheck, native replay through `go test -overlay`"}],
     "checks": checks,
     "not_applicable": napp,
     "notes": "All checks use one technique family: solver-based bounded symbolic execution of the real lnd code. See /verif/DESIGN.md; known findings in /verif/known_findings.json; seeded changes in /verif/seeded/."}
json.dump(m, open(os.path.join(V, "MANIFEST.json"), "w"), indent=1)
print("claimed:", served)
print("not applicable:", [x["property_id"] for x in napp])
