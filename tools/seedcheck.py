#!/usr/bin/env python3
"""Confirm a seeded change and run the /verif check against it.

  seedcheck.py <prop> <inbox-dir> <n> [--skip-existing-tests]

Steps (all in a scratch worktree /tmp/sc-<prop>-<n>, removed at the end):
 1. patch<n>.diff applies, `go build ./...` of the touched module succeeds
 2. the existing tests of the touched packages (baseline invocation, compared with
    BASELINE.json stable_pass) still pass with the patch
 3. the demonstration fails with the patch and passes without it
 4. `VERIF_REPO=<worktree> ./vcheck <prop> --tier quick` is run and its verdict recorded
Writes /verif/seeded/<prop>-<n>/{patch.diff,demo_test.go,meta.json}.
"""
import json, os, re, shutil, subprocess, sys, time
V = os.path.dirname(os.path.dirname(os.path.abspath(__file__)))
GOBIN = "/root/go/pkg/mod/golang.org/toolchain@v0.0.1-go1.25.13.linux-amd64/bin"
env = dict(os.environ, PATH=GOBIN + ":" + os.environ["PATH"], GOTOOLCHAIN="local", GOFLAGS="-mod=mod", GOPROXY="off")

def run(cmd, cwd, timeout=3600, extra=None):
    e = dict(env)
    if extra:
        e.update(extra)
    r = subprocess.run(cmd, cwd=cwd, env=e, capture_output=True, text=True, shell=isinstance(cmd, str), timeout=timeout)
    return r.returncode, r.stdout + r.stderr

def main():
    prop, inbox, n = sys.argv[1], sys.argv[2], int(sys.argv[3])
    skip = "--skip-existing-tests" in sys.argv
    chk = prop
    if "--check" in sys.argv:
        chk = sys.argv[sys.argv.index("--check") + 1]
    tier = "quick"
    outn = n
    if "--as" in sys.argv:
        outn = int(sys.argv[sys.argv.index("--as") + 1])
    metas = json.load(open(os.path.join(inbox, "meta.json")))
    meta = metas[n - 1]
    patch = os.path.join(inbox, meta["patch"])
    demo = os.path.join(inbox, meta["demo"])
    wt = "/tmp/sc-%s-%d" % (prop.lower(), outn)
    subprocess.run(["git", "-C", "/repo", "worktree", "remove", "--force", wt], capture_output=True)
    rc, out = run(["git", "-C", "/repo", "worktree", "add", "--detach", wt], "/")
    assert rc == 0, out
    res = {"property": prop, "patch": "patch.diff", "demo": "demo_test.go", "what_breaks": meta.get("what_breaks"),
           "needs_to_manifest": meta.get("needs_to_manifest"), "files_touched": meta.get("files_touched"), "ran": []}
    try:
        rc, out = run(["git", "apply", patch], wt)
        res["ran"].append("git apply patch: rc=%d" % rc)
        assert rc == 0, out
        # nested modules (tlv, ...): run go in the directory of the nearest go.mod
        def modof(f):
            d = os.path.dirname(f)
            while d and not os.path.exists(os.path.join(wt, d, "go.mod")):
                d = os.path.dirname(d)
            return d
        mods = {modof(f) for f in meta["files_touched"]}
        assert len(mods) == 1, mods
        sub = mods.pop()
        moddir = os.path.join(wt, sub) if sub else wt
        rel = lambda p: os.path.relpath(p, sub) if sub else p
        pkgs = sorted({"./" + rel(os.path.dirname(f)) for f in meta["files_touched"]})
        if sub:
            meta["demo_pkg"] = "./" + rel(os.path.normpath(meta["demo_pkg"]))
        rc, out = run("go build ./...", moddir, 3600)
        res["ran"].append("go build ./...: rc=%d" % rc)
        res["builds"] = rc == 0
        assert rc == 0, out[-2000:]
        base = set(json.load(open("/root/.vp/BASELINE.json"))["stable_pass"])
        if not skip:
            t0 = time.time()
            rc, out = run("go test -json -vet=off -count=1 -timeout 25m " + " ".join(p + "/..." for p in pkgs), moddir, 7200)
            failed = set()
            for line in out.splitlines():
                try:
                    ev = json.loads(line)
                except Exception:
                    continue
                if ev.get("Action") == "fail" and ev.get("Test"):
                    failed.add(ev["Package"] + "::" + ev["Test"])
            broke = sorted(failed & base)
            res["ran"].append("go test -vet=off -count=1 %s: %d failing tests, %d of them in the stable baseline (%.0fs)" % (
                " ".join(p + "/..." for p in pkgs), len(failed), len(broke), time.time() - t0))
            res["existing_tests_pass"] = not broke
            res["baseline_tests_broken"] = broke[:10]
        # demonstration
        dpkg = meta["demo_pkg"]
        dst = os.path.join(moddir, dpkg, "zz_seed_%d_test.go" % n)
        shutil.copy(demo, dst)
        m = re.search(r"-run\s+(\S+)", meta["demo_run"])
        runpat = m.group(1) if m else "TestSeed"
        mt = re.search(r"-tags[= ]\s*(\S+)", meta["demo_run"])
        tags = ("-tags %s " % mt.group(1).strip("'\"")) if mt else ""
        cmd = "go test %s-count=1 -vet=off -run '%s' %s" % (tags, runpat, dpkg)
        rc1, out1 = run(cmd, moddir, 3600)
        res["ran"].append("with patch: %s -> rc=%d" % (cmd, rc1))
        run(["git", "apply", "-R", patch], wt)
        rc2, out2 = run(cmd, moddir, 3600)
        res["ran"].append("without patch: %s -> rc=%d" % (cmd, rc2))
        res["demo_fails_with_patch"] = rc1 != 0
        res["demo_passes_without_patch"] = rc2 == 0
        os.remove(dst)
        run(["git", "apply", patch], wt)
        # the check
        t0 = time.time()
        evf = os.path.join(V, "evidence", chk + ".json")
        saved = open(evf).read() if os.path.exists(evf) else None
        rc, out = run([os.path.join(V, "vcheck"), chk, "--tier", tier], V, 7200, {"VERIF_REPO": wt})
        if saved is not None:
            pass  # vcheck writes no evidence for runs against another tree (VERIF_REPO); restoring here clobbered concurrent evidence runs  # evidence must describe runs against /repo only
        viol = [l for l in out.splitlines() if l.startswith("VIOLATION")]
        inc = [l for l in out.splitlines() if l.startswith("INCONCLUSIVE")]
        res["check"] = {"cmd": "VERIF_REPO=%s ./vcheck %s --tier %s" % (wt, chk, tier), "exit": rc, "violations": viol[:5],
                        "inconclusive": inc[:5], "detail": [l for l in out.splitlines() if l.startswith("  entry=")][:5],
                        "wall_s": round(time.time() - t0)}
        res["detected"] = rc == 1 and bool(viol)
    finally:
        subprocess.run(["git", "-C", "/repo", "worktree", "remove", "--force", wt], capture_output=True)
    out_dir = os.path.join(V, "seeded", "%s-%d" % (prop, outn))
    os.makedirs(out_dir, exist_ok=True)
    prev_p = os.path.join(out_dir, "meta.json")
    if os.path.exists(prev_p):
        prev = json.load(open(prev_p))
        hist = prev.get("history", [])
        hist.append({"detected": prev.get("detected"), "check": prev.get("check")})
        res["history"] = hist
        if skip:
            for k in ("existing_tests_pass", "baseline_tests_broken"):
                if prev.get(k) is not None:
                    res[k] = prev[k]
            res["ran"] = [l for l in prev.get("ran", []) if l.startswith("go test -vet=off")] + res["ran"]
    shutil.copy(patch, os.path.join(out_dir, "patch.diff"))
    shutil.copy(demo, os.path.join(out_dir, "demo_test.go"))
    # restore evidence written by the check run against the mutated tree? evidence is rewritten by the next real run.
    json.dump(res, open(os.path.join(out_dir, "meta.json"), "w"), indent=1)
    print(json.dumps({k: res.get(k) for k in ("builds", "existing_tests_pass", "demo_fails_with_patch", "demo_passes_without_patch", "detected")}))
    print(res.get("check"))

main()
