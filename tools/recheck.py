#!/usr/bin/env python3
"""Re-run a /verif check against an already confirmed seeded change.

  recheck.py <seed-id> [--check <prop>] [--tier quick|thorough] [--only entry,entry]

Applies /verif/seeded/<seed-id>/patch.diff in a scratch worktree /tmp/rc-<seed-id> (removed at the
end), runs `VERIF_REPO=<worktree> ./vcheck <prop> --tier <tier>` and records the verdict in meta.json
(the previous verdict moves to meta["history"]). Evidence files are restored afterwards: evidence
describes runs against /repo only.
"""
import json, os, subprocess, sys, time
V = os.path.dirname(os.path.dirname(os.path.abspath(__file__)))

def main():
    sid = sys.argv[1]
    prop = sid.split("-")[0]
    chk, tier, only = prop, "quick", None
    if "--check" in sys.argv:
        chk = sys.argv[sys.argv.index("--check") + 1]
    if "--tier" in sys.argv:
        tier = sys.argv[sys.argv.index("--tier") + 1]
    if "--only" in sys.argv:
        only = sys.argv[sys.argv.index("--only") + 1]
    d = os.path.join(V, "seeded", sid)
    meta = json.load(open(os.path.join(d, "meta.json")))
    wt = "/tmp/rc-" + sid.lower()
    subprocess.run(["git", "-C", "/repo", "worktree", "remove", "--force", wt], capture_output=True)
    r = subprocess.run(["git", "-C", "/repo", "worktree", "add", "--detach", wt], capture_output=True, text=True)
    assert r.returncode == 0, r.stderr
    try:
        r = subprocess.run(["git", "apply", os.path.join(d, "patch.diff")], cwd=wt, capture_output=True, text=True)
        assert r.returncode == 0, r.stderr
        evf = os.path.join(V, "evidence", chk + ".json")
        saved = open(evf).read() if os.path.exists(evf) else None
        env = dict(os.environ, VERIF_REPO=wt)
        if only:
            env["VERIF_ONLY"] = only
        t0 = time.time()
        r = subprocess.run([os.path.join(V, "vcheck"), chk, "--tier", tier], cwd=V, env=env, capture_output=True, text=True)
        out = r.stdout + r.stderr
        if saved is not None:
            pass  # vcheck writes no evidence for runs against another tree (VERIF_REPO); restoring here clobbered concurrent evidence runs
        viol = [l for l in out.splitlines() if l.startswith("VIOLATION")]
        inc = [l for l in out.splitlines() if l.startswith("INCONCLUSIVE")]
        check = {"cmd": "VERIF_REPO=%s %s./vcheck %s --tier %s" % (wt, ("VERIF_ONLY=%s " % only) if only else "", chk, tier),
                 "exit": r.returncode, "violations": viol[:5], "inconclusive": inc[:5],
                 "detail": [l for l in out.splitlines() if l.startswith("  entry=")][:5], "wall_s": round(time.time() - t0)}
    finally:
        subprocess.run(["git", "-C", "/repo", "worktree", "remove", "--force", wt], capture_output=True)
    hist = meta.get("history", [])
    hist.append({"detected": meta.get("detected"), "check": meta.get("check")})
    meta["history"] = hist
    meta["check"] = check
    meta["detected"] = check["exit"] == 1 and bool(viol)
    json.dump(meta, open(os.path.join(d, "meta.json"), "w"), indent=1)
    print(sid, "detected" if meta["detected"] else "NOT detected", json.dumps(check)[:600])

main()
