#!/usr/bin/env python3
"""merge_seed2.py Cxx : append /tmp/seed2-cxx/SEED_OUT (round 3) to /verif/seeded/_inbox/Cxx as patches 3 and 4."""
import json, os, shutil, sys, re
pid = sys.argv[1]
src = "/tmp/seed3-%s/SEED_OUT" % pid.lower()
dst = "/verif/seeded/_inbox/%s" % pid
ms = json.load(open(os.path.join(dst, "meta.json")))
new = json.load(open(os.path.join(src, "meta.json")))
base = len(ms)
for i, m in enumerate(new):
    k = base + i + 1
    shutil.copy(os.path.join(src, m["patch"]), os.path.join(dst, "patch%d.diff" % k))
    shutil.copy(os.path.join(src, m["demo"]), os.path.join(dst, "demo%d_test.go" % k))
    m["patch"] = "patch%d.diff" % k
    m["demo"] = "demo%d_test.go" % k
    m["round"] = 3
    ms.append(m)
json.dump(ms, open(os.path.join(dst, "meta.json"), "w"), indent=1)
print(pid, "now has", len(ms), "seeds")
