export PATH=/root/go/pkg/mod/golang.org/toolchain@v0.0.1-go1.25.13.linux-amd64/bin:$PATH GOTOOLCHAIN=local GOFLAGS=-mod=mod GOPROXY=off
