package invoices

// C15, AMP part (reduced claim): one HTLC with an AMP record arrives at an
// open AMP invoice that holds 0..2 HTLCs of the same or of another set.
// Obligation (1) only: a preimage is released (to the arriving HTLC or to a
// held one) only if the accepted HTLCs of the set carry the invoice's payment
// address, declare one common total >= value, sum to at least the total, the
// arriving one leaves the expiry margin, and every released preimage hashes to
// the payment hash of the HTLC it is released for. HTLC states move forward.
// No representation invariant is assumed for AMP invoices beyond the shape
// built here.

import (
	"github.com/lightningnetwork/lnd/amp"
	"github.com/lightningnetwork/lnd/lntypes"
	"github.com/lightningnetwork/lnd/lnwire"
	"github.com/lightningnetwork/lnd/record"
)

type c15A struct {
	key          CircuitKey
	amt, total   lnwire.MilliSatoshi
	state        HtlcState
	inSet        bool // same set id as the arriving HTLC
	honest       bool // payment hash is the one derived from the shares
	share        [32]byte
	index        uint32
	hash         lntypes.Hash
	expiry       uint32
	acceptHeight uint32
}

func c15Xor(a, b [32]byte) [32]byte {
	var r [32]byte
	for i := range r {
		r[i] = a[i] ^ b[i]
	}
	return r
}

// VerifC15Amp: 0..1 recorded HTLCs; VerifC15AmpN2: exactly 2 (thorough tier).
func VerifC15Amp()   { c15AmpEvent(0, 1) }
func VerifC15AmpN2() { c15AmpEvent(2, 2) }

func c15AmpEvent(minN, maxN int) {
	vInjective("sha256")
	vAssumption("open AMP invoice with 0..2 recorded AMP HTLCs (same or other set, any state); arriving HTLC carries MPP+AMP records; payment hashes either derived from the shares as a payer does (amp.DeriveChild) or different from the derived ones; amounts <= 21e6 BTC, heights < 2^31-2^17, deltas in [0,65535]")

	setS := [32]byte{1}
	setO := [32]byte{2}

	n := minN + vChoice("nHtlc", maxN-minN+1)
	value := lnwire.MilliSatoshi(vU64("value"))
	payAddr := c15Arr32(vBytes("payAddr", 32))
	finalDelta := vI32("finalCltvDelta")
	vAssume(value <= c15MaxMsat)
	vAssume(finalDelta >= 0 && finalDelta <= c15MaxDelta)
	// an invoice is indexed by payment address only if it is not the blank one
	vAssume(payAddr != BlankPayAddr)

	// the arriving HTLC
	amt := lnwire.MilliSatoshi(vU64("amt"))
	expiry := vU32("expiry")
	height := vI32("height")
	rejectDelta := vI32("finalCltvRejectDelta")
	total := lnwire.MilliSatoshi(vU64("mppTotal"))
	addr := c15Arr32(vBytes("mppAddr", 32))
	share := c15Arr32(vBytes("share", 32))
	index := vU32("childIndex")
	honestNew := vChoice("honest", 2) == 1
	vAssume(amt <= c15MaxMsat)
	vAssume(height >= 0 && height < c15MaxHeight)
	vAssume(rejectDelta >= 0 && rejectDelta <= c15MaxDelta)

	var hs [2]c15A
	root := share
	for j := 0; j < n; j++ {
		h := c15A{
			key:          c15Key(j + 1),
			amt:          lnwire.MilliSatoshi(vU64("hAmt")),
			total:        lnwire.MilliSatoshi(vU64("hTotal")),
			state:        HtlcState(vChoice("hState", 3)),
			inSet:        vChoice("hInSet", 2) == 1,
			honest:       vChoice("hHonest", 2) == 1,
			share:        c15Arr32(vBytes("hShare", 32)),
			index:        vU32("hIndex"),
			expiry:       vU32("hExpiry"),
			acceptHeight: vU32("hAcceptHeight"),
		}
		vAssume(h.amt <= c15MaxMsat)
		if h.inSet && h.state == HtlcStateAccepted {
			root = c15Xor(root, h.share)
		}
		hs[j] = h
	}
	// payment hashes: what a payer derives from the root seed, or something else
	derive := func(sh [32]byte, idx uint32) *amp.Child {
		return amp.DeriveChild(amp.Share(root), amp.ChildDesc{Share: amp.Share(sh), Index: idx})
	}
	hash := derive(share, index).Hash
	if !honestNew {
		hash = lntypes.Hash(c15Arr32(vBytes("hash", 32)))
		vAssume(hash != derive(share, index).Hash)
	}

	inv := &Invoice{
		Terms: ContractTerm{
			FinalCltvDelta: finalDelta,
			Value:          value,
			PaymentAddr:    payAddr,
			Features: lnwire.NewFeatureVector(lnwire.NewRawFeatureVector(
				lnwire.TLVOnionPayloadRequired, lnwire.PaymentAddrRequired, lnwire.AMPRequired,
			), nil),
		},
		AddIndex: 1,
		State:    ContractOpen,
		Htlcs:    make(map[CircuitKey]*InvoiceHTLC),
		AMPState: make(AMPInvoiceState),
	}
	allHonest := honestNew
	for j := 0; j < n; j++ {
		h := &hs[j]
		sid := setO
		if h.inSet {
			sid = setS
		}
		ih := &InvoiceHTLC{
			Amt: h.amt, MppTotalAmt: h.total, AcceptHeight: h.acceptHeight, Expiry: h.expiry,
			State: h.state, CustomRecords: make(record.CustomSet),
			AMP: &InvoiceHtlcAMPData{Record: *record.NewAMP(h.share, sid, h.index)},
		}
		switch {
		case h.state == HtlcStateSettled:
			// a settled AMP HTLC stores the preimage of its hash
			pre := lntypes.Preimage(c15Arr32(vBytes("hPreimage", 32)))
			h.hash = pre.Hash()
			ih.AMP.Preimage = &pre
		case h.inSet && h.state == HtlcStateAccepted && h.honest:
			h.hash = derive(h.share, h.index).Hash
		default:
			h.hash = lntypes.Hash(c15Arr32(vBytes("hHash", 32)))
			if h.inSet && h.state == HtlcStateAccepted {
				vAssume(h.hash != derive(h.share, h.index).Hash)
				allHonest = false
			}
		}
		ih.AMP.Hash = h.hash
		inv.Htlcs[h.key] = ih
		st, ok := inv.AMPState[sid]
		if !ok {
			st = InvoiceStateAMP{State: h.state, InvoiceKeys: make(map[CircuitKey]struct{})}
		}
		st.InvoiceKeys[h.key] = struct{}{}
		if h.state == HtlcStateAccepted {
			st.AmtPaid += h.amt
		}
		inv.AMPState[sid] = st
	}

	db := &c15DB{hash: lntypes.Hash{0xff}, inv: inv}
	key := c15Key(100)
	ctx := &invoiceUpdateCtx{
		hash:                 hash,
		circuitKey:           key,
		amtPaid:              amt,
		expiry:               expiry,
		currentHeight:        height,
		finalCltvRejectDelta: rejectDelta,
		customRecords:        make(record.CustomSet),
		mpp:                  record.NewMPP(total, addr),
		amp:                  record.NewAMP(share, setS, index),
	}
	reg := c15Registry(db, rejectDelta)
	ch := make(chan interface{}, 16)
	for j := 0; j < n; j++ {
		if hs[j].state == HtlcStateAccepted {
			reg.hodlSubscribe(ch, hs[j].key)
		}
	}

	res, _, err := reg.notifyExitHopHtlcLocked(ctx, ch)
	post := db.inv

	// ---- reference ----
	maxDelta := rejectDelta
	if finalDelta > maxDelta {
		maxDelta = finalDelta
	}
	expOK := uint64(expiry) >= uint64(height)+uint64(maxDelta)
	var sumAcc lnwire.MilliSatoshi
	allTotalsEq := true
	nSet := 0
	for j := 0; j < n; j++ {
		if hs[j].inSet && hs[j].state == HtlcStateAccepted {
			nSet++
			sumAcc += hs[j].amt
			allTotalsEq = allTotalsEq && hs[j].total == total
		}
	}
	shardOK := addr == payAddr && total != 0 && total >= value && allTotalsEq && expOK
	setOK := shardOK && uint64(sumAcc)+uint64(amt) >= uint64(total)

	// ---- HTLC states move forward; other sets are not touched by a settle ----
	settles, fails := 0, 0
	var gotSettle, gotFail [4]bool
	for len(ch) > 0 {
		m := <-ch
		switch r := m.(type) {
		case *HtlcSettleResolution:
			settles++
			id := r.CircuitKey().HtlcID
			vAssert(id >= 1 && int(id) <= n, "settle for an unknown HTLC")
			if id >= 1 && int(id) <= n {
				h := hs[id-1]
				gotSettle[id] = true
				vAssert(h.inSet && h.state == HtlcStateAccepted, "(1) only accepted HTLCs of the arriving HTLC's set are settled")
				vAssert(r.Preimage.Hash() == h.hash, "(1) the preimage released for a held AMP HTLC hashes to that HTLC's payment hash")
				ph, ok := post.Htlcs[h.key]
				vAssert(ok && ph.State == HtlcStateSettled, "(1) a settle is delivered only for an HTLC recorded as settled")
			}
		case *HtlcFailResolution:
			fails++
			id := r.CircuitKey().HtlcID
			if id >= 1 && int(id) <= n {
				gotFail[id] = true
				ph, ok := post.Htlcs[hs[id-1].key]
				vAssert(ok && ph.State == HtlcStateCanceled, "(2) a cancel is delivered only for an HTLC recorded as canceled")
			}
		default:
			vAssert(false, "unexpected message on the hodl channel")
		}
	}
	for j := 0; j < n; j++ {
		ph, ok := post.Htlcs[hs[j].key]
		vAssert(ok, "(2) a recorded HTLC is never dropped")
		if !ok {
			continue
		}
		vAssert(c15HtlcStep(hs[j].state, ph.State), "(2) HTLC state only moves accepted -> settled|canceled")
		vAssert(ph.Amt == hs[j].amt && ph.AMP != nil && ph.AMP.Hash == hs[j].hash, "(2) amount and payment hash of a recorded HTLC never change")
		vAssert(!(gotSettle[j+1] && gotFail[j+1]), "(2) no HTLC is both settled and canceled")
		if ph.State == HtlcStateSettled && hs[j].state == HtlcStateAccepted {
			vAssert(ph.AMP.Preimage != nil && ph.AMP.Preimage.Hash() == hs[j].hash, "(1) a newly settled AMP HTLC stores a preimage of its payment hash")
		}
	}
	vAssert(post.State != ContractSettled && post.State != ContractAccepted, "an AMP invoice is never settled/accepted as a whole")

	if err != nil {
		vAssert(res == nil && settles == 0 && fails == 0, "an error releases nothing")
		vReach("amp-error")
		return
	}
	newHtlc, recorded := post.Htlcs[key]
	switch r := res.(type) {
	case *HtlcSettleResolution:
		vAssert(setOK, "(1) AMP settle only when address, common total >= value, set sum >= total and expiry margin all hold")
		vAssert(r.Preimage.Hash() == hash, "(1) the released preimage hashes to the arriving HTLC's payment hash")
		vAssert(allHonest, "(1) AMP settle only when every payment hash of the set is the one derived from the shares")
		vAssert(recorded && newHtlc.State == HtlcStateSettled && newHtlc.Amt == amt && newHtlc.AMP != nil &&
			newHtlc.AMP.Hash == hash && newHtlc.AMP.Preimage != nil && *newHtlc.AMP.Preimage == r.Preimage,
			"(1) the settled AMP HTLC is recorded as settled with its hash and preimage")
		vAssert(settles == nSet, "every held HTLC of the completed set is told to settle")
		if nSet > 0 {
			vReach("amp-settle-set")
		} else {
			vReach("amp-settle-single")
		}
	case *htlcAcceptResolution:
		vAssert(shardOK, "(1) an AMP HTLC joins the set only with the invoice's address, a total >= value equal to the set's, and the expiry margin")
		vAssert(recorded && newHtlc.State == HtlcStateAccepted && newHtlc.Amt == amt, "an accepted HTLC is recorded as accepted")
		vAssert(settles == 0, "(1) nothing is settled when the arriving HTLC is only held")
		vReach("amp-partial")
	case *HtlcFailResolution:
		vAssert(settles == 0, "(1) nothing is settled when the arriving HTLC is failed")
		vAssert(!recorded || newHtlc.State == HtlcStateCanceled, "a failed HTLC is not recorded as accepted or settled")
		if r.Outcome == ResultAmpReconstruction {
			vAssert(!allHonest, "reconstruction fails only if some payment hash is not the derived one")
			vReach("amp-reconstruction-failed")
		} else {
			vReach("amp-fail")
		}
	default:
		vAssert(false, "no resolution and no error")
	}
}
