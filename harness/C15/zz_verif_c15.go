package invoices

// Harness for C15: a preimage is released only for a fully and correctly paid
// invoice.
//
// Unit (all real lnd code, executed symbolically by gosmt):
//   (*InvoiceRegistry).notifyExitHopHtlcLocked  -> resolveReplayedHtlc, updateInvoice,
//        updateMpp, updateLegacy, isValidKeySend, Invoice.HTLCSet, notifyHodlSubscribers
//   (*InvoiceRegistry).SettleHodlInvoice, cancelInvoiceImpl, cancelSingleHtlc
//   UpdateInvoice -> addHTLCs, cancelHTLCs, settleHodlInvoice, cancelInvoice,
//        getUpdatedInvoiceState, getUpdatedHtlcState, canCancelSingleHtlc,
//        resolveHtlc, updateInvoiceAmtPaid, CopyInvoice
//   lntypes.Preimage.Hash/Matches (sha256 = uninterpreted, collision-free function)
//
// Fakes (behind interfaces lnd already has): c15DB (InvoiceDB holding exactly one
// invoice, transactional: an update that returns an error leaves the stored
// invoice untouched, as both real stores do), c15Updater (InvoiceUpdater that
// records what a store would persist), c15Interceptor (HtlcInterceptor that
// never modifies anything).

import (
	"context"
	"errors"
	"time"

	"github.com/btcsuite/btcd/chainhash/v2"
	"github.com/lightningnetwork/lnd/lntypes"
	"github.com/lightningnetwork/lnd/lnwire"
	"github.com/lightningnetwork/lnd/record"
)

// c15MaxMsat: 21e6 BTC in msat. The amount carried by one HTLC is bounded by
// the capacity of the channel it arrives on, hence by the money supply.
const c15MaxMsat = lnwire.MilliSatoshi(2_100_000_000_000_000_000)

// c15MaxDelta: routing.MaxCLTVDelta (math.MaxUint16) is the largest final CLTV
// delta invoicesrpc.AddInvoice accepts; the registry-wide reject delta is a
// small configured constant (lncfg.DefaultFinalCltvRejectDelta).
const c15MaxDelta = 65535

// c15MaxHeight: block heights are int32 in this code; the domain stops 2^17
// below the int32 limit so that height+delta is exact in int32.
const c15MaxHeight = 1<<31 - 1<<17

// c15MinN..c15MaxN: number of HTLCs already recorded on the invoice (set by the entry).
var c15MinN, c15MaxN = 0, 2

// ---------------------------------------------------------------------------
// fakes
// ---------------------------------------------------------------------------

// c15Updater is the fake InvoiceUpdater. It keeps what a store that persists
// exactly what it is told (the SQL store) would hold afterwards.
type c15Updater struct {
	state     ContractState
	preimage  *lntypes.Preimage
	amtPaid   lnwire.MilliSatoshi
	htlcState map[CircuitKey]HtlcState
	htlcAmt   map[CircuitKey]lnwire.MilliSatoshi
	calls     int
	finalized int
}

func c15NewUpdater(inv *Invoice) *c15Updater {
	u := &c15Updater{
		state:     inv.State,
		preimage:  inv.Terms.PaymentPreimage,
		amtPaid:   inv.AmtPaid,
		htlcState: make(map[CircuitKey]HtlcState),
		htlcAmt:   make(map[CircuitKey]lnwire.MilliSatoshi),
	}
	for k, h := range inv.Htlcs {
		u.htlcState[k] = h.State
		u.htlcAmt[k] = h.Amt
	}
	return u
}

func (u *c15Updater) AddHtlc(key CircuitKey, h *InvoiceHTLC) error {
	u.calls++
	u.htlcState[key] = h.State
	u.htlcAmt[key] = h.Amt
	return nil
}

func (u *c15Updater) ResolveHtlc(key CircuitKey, s HtlcState, _ time.Time) error {
	u.calls++
	u.htlcState[key] = s
	return nil
}

func (u *c15Updater) AddAmpHtlcPreimage(_ [32]byte, _ CircuitKey, _ lntypes.Preimage) error {
	u.calls++
	return nil
}

func (u *c15Updater) UpdateInvoiceState(s ContractState, p *lntypes.Preimage) error {
	u.calls++
	u.state = s
	if p != nil {
		u.preimage = p
	}
	return nil
}

func (u *c15Updater) UpdateInvoiceAmtPaid(a lnwire.MilliSatoshi) error {
	u.calls++
	u.amtPaid = a
	return nil
}

func (u *c15Updater) UpdateAmpState(_ [32]byte, _ InvoiceStateAMP, _ CircuitKey) error {
	u.calls++
	return nil
}

func (u *c15Updater) Finalize(_ UpdateType) error {
	u.finalized++
	return nil
}

// c15DB is the fake InvoiceDB: one invoice stored under payment hash `hash`.
type c15DB struct {
	hash    lntypes.Hash
	inv     *Invoice
	upd     *c15Updater
	updates int
	failed  int
}

var errC15Unused = errors.New("c15: not part of the unit")

func (d *c15DB) AddInvoice(context.Context, *Invoice, lntypes.Hash) (uint64, error) {
	return 0, errC15Unused
}
func (d *c15DB) InvoicesAddedSince(context.Context, uint64) ([]Invoice, error) {
	return nil, errC15Unused
}
func (d *c15DB) FetchPendingInvoices(context.Context) (map[lntypes.Hash]Invoice, error) {
	return nil, errC15Unused
}
func (d *c15DB) QueryInvoices(context.Context, InvoiceQuery) (InvoiceSlice, error) {
	return InvoiceSlice{}, errC15Unused
}
func (d *c15DB) InvoicesSettledSince(context.Context, uint64) ([]Invoice, error) {
	return nil, errC15Unused
}
func (d *c15DB) DeleteInvoice(context.Context, []InvoiceDeleteRef) error { return errC15Unused }
func (d *c15DB) DeleteCanceledInvoices(context.Context) error            { return errC15Unused }

// found mirrors fetchInvoiceNumByRef for a store with one invoice: a reference
// that names a payment hash finds the invoice iff the hash is its key; a
// reference by payment address alone finds it iff the address is the invoice's.
func (d *c15DB) found(ref InvoiceRef) bool {
	h := ref.PayHash()
	if h != nil {
		return *h == d.hash
	}
	// AMP HTLCs name the invoice by payment address only
	a := ref.PayAddr()
	return a != nil && *a != BlankPayAddr && *a == d.inv.Terms.PaymentAddr
}

func (d *c15DB) LookupInvoice(_ context.Context, ref InvoiceRef) (Invoice, error) {
	if !d.found(ref) {
		return Invoice{}, ErrInvoiceNotFound
	}
	c, err := CopyInvoice(d.inv)
	if err != nil {
		return Invoice{}, err
	}
	return *c, nil
}

func (d *c15DB) UpdateInvoice(_ context.Context, ref InvoiceRef, hint *SetID,
	cb InvoiceUpdateCallback) (*Invoice, error) {

	if !d.found(ref) {
		return nil, ErrInvoiceNotFound
	}
	// work on a copy: a failed transaction leaves the stored invoice as it was
	work, err := CopyInvoice(d.inv)
	if err != nil {
		return nil, err
	}
	// like both stores: with a set id hint only the HTLCs of that set of an
	// AMP invoice are fetched
	if hint != nil && work.IsAMP() {
		for k, h := range work.Htlcs {
			if h.AMP == nil || h.AMP.Record.SetID() != [32]byte(*hint) {
				delete(work.Htlcs, k)
			}
		}
	}
	upd := c15NewUpdater(work)
	d.updates++
	res, err := UpdateInvoice(ref.PayHash(), work, time.Time{}, cb, upd)
	if err != nil {
		d.failed++
		return nil, err
	}
	// the HTLCs that were not fetched stay as they are
	stored, err := CopyInvoice(res)
	if err != nil {
		return nil, err
	}
	for k, h := range d.inv.Htlcs {
		if _, ok := stored.Htlcs[k]; !ok {
			stored.Htlcs[k] = h
		}
	}
	d.inv = stored
	if upd.calls > 0 || upd.finalized > 0 {
		d.upd = upd
	}
	return res, nil
}

// c15Interceptor is the fake HtlcInterceptor. With respond == false it behaves
// like a registry without an interceptor client (the callback is not called).
type c15Interceptor struct {
	respond bool
	resp    HtlcModifyResponse
}

func (c c15Interceptor) Intercept(_ HtlcModifyRequest, cb func(HtlcModifyResponse)) error {
	if c.respond {
		cb(c.resp)
	}
	return nil
}

func c15Registry(db *c15DB, rejectDelta int32) *InvoiceRegistry {
	return c15RegistryIC(db, rejectDelta, c15Interceptor{})
}

func c15RegistryIC(db *c15DB, rejectDelta int32, ic c15Interceptor) *InvoiceRegistry {
	return &InvoiceRegistry{
		idb: db,
		cfg: &RegistryConfig{
			FinalCltvRejectDelta: rejectDelta,
			HtlcInterceptor:      ic,
		},
		notificationClients:       make(map[uint32]*InvoiceSubscription),
		singleNotificationClients: make(map[uint32]*SingleInvoiceSubscription),
		invoiceEvents:             make(chan *invoiceEvent, 16),
		hodlSubscriptions:         make(map[CircuitKey]map[chan<- interface{}]struct{}),
		hodlReverseSubscriptions:  make(map[chan<- interface{}]map[CircuitKey]struct{}),
		htlcAutoReleaseChan:       make(chan *htlcReleaseEvent, 16),
		quit:                      make(chan struct{}),
	}
}

// ---------------------------------------------------------------------------
// symbolic pre-state
// ---------------------------------------------------------------------------

type c15H struct {
	key          CircuitKey
	amt, total   lnwire.MilliSatoshi
	state        HtlcState
	expiry       uint32
	acceptHeight uint32
}

// c15Pre keeps the drawn scalars of the pre-state; the oracle reads these, not
// the Invoice object the code under test mutates.
type c15Pre struct {
	state      ContractState
	hodl       bool
	addrReq    bool
	value      lnwire.MilliSatoshi
	amtPaid    lnwire.MilliSatoshi
	payAddr    [32]byte
	finalDelta int32
	secret     lntypes.Preimage // the preimage of the payment hash (known to the payer; to us iff hasPre)
	hasPre     bool
	hash       lntypes.Hash
	n          int
	h          [4]c15H
}

func c15Key(j int) CircuitKey {
	return CircuitKey{ChanID: lnwire.NewShortChanIDFromInt(7), HtlcID: uint64(j)}
}

func c15Arr32(b []byte) [32]byte {
	var a [32]byte
	copy(a[:], b)
	return a
}

// c15Inv is the representation invariant of a stored non-AMP invoice: what
// every history of AddInvoice / NotifyExitHopHtlc / SettleHodlInvoice /
// CancelInvoice / cancelSingleHtlc establishes. It is ASSUMED of the pre-state
// and ASSERTED of the post-state of every step (so the claim is inductive).
//
//   - a regular invoice knows its preimage and the preimage hashes to the key it
//     is stored under (invoicesrpc.AddInvoice / processKeySend derive the hash
//     from the preimage); a hold invoice learns it when it is settled;
//   - every recorded HTLC had Expiry >= AcceptHeight + Terms.FinalCltvDelta (in Z);
//   - Open:     no settled HTLC; the accepted HTLCs are one MPP set in progress:
//     common non-zero total >= Terms.Value and amounts summing below it;
//   - Accepted: hold invoice, no settled HTLC, >= 1 accepted HTLC,
//     AmtPaid = sum(accepted) >= Terms.Value;
//   - Settled:  no accepted HTLC, >= 1 settled HTLC, AmtPaid = sum(settled) >= Terms.Value;
//   - Canceled: every HTLC canceled.
func c15Inv(inv *Invoice, hash lntypes.Hash) bool {
	ok := true
	var sumAcc, sumSet, T lnwire.MilliSatoshi
	nAcc, nSet := 0, 0
	sameT := true
	for _, h := range inv.Htlcs {
		ok = ok && h.Amt <= c15MaxMsat && h.AMP == nil
		// every recorded HTLC left the invoice's final CLTV margin when it was accepted
		ok = ok && uint64(h.Expiry) >= uint64(h.AcceptHeight)+uint64(uint32(inv.Terms.FinalCltvDelta))
		switch h.State {
		case HtlcStateAccepted:
			if nAcc == 0 {
				T = h.MppTotalAmt
			} else {
				sameT = sameT && h.MppTotalAmt == T
			}
			nAcc++
			sumAcc += h.Amt
		case HtlcStateSettled:
			nSet++
			sumSet += h.Amt
		case HtlcStateCanceled:
		default:
			return false
		}
	}
	pre := inv.Terms.PaymentPreimage
	if pre != nil {
		ok = ok && pre.Hash() == hash
	}
	if !inv.HodlInvoice && pre == nil {
		return false
	}
	if inv.HodlInvoice && (pre != nil) != (inv.State == ContractSettled) {
		return false
	}
	switch inv.State {
	case ContractOpen:
		if nSet != 0 {
			return false
		}
		if nAcc > 0 {
			ok = ok && sameT && T != 0 && T >= inv.Terms.Value && sumAcc < T
		}
	case ContractAccepted:
		if !inv.HodlInvoice || nSet != 0 || nAcc == 0 {
			return false
		}
		ok = ok && inv.AmtPaid == sumAcc && inv.AmtPaid >= inv.Terms.Value
	case ContractSettled:
		if nAcc != 0 || nSet == 0 || pre == nil {
			return false
		}
		ok = ok && inv.AmtPaid == sumSet && inv.AmtPaid >= inv.Terms.Value
	case ContractCanceled:
		if nAcc != 0 || nSet != 0 {
			return false
		}
	default:
		return false
	}
	return ok
}

// c15MakePre draws the pre-state. Shapes (states, number of HTLCs, flags) are
// concrete case splits; every scalar is symbolic.
func c15MakePre() (*c15Pre, *Invoice) {
	p := &c15Pre{}
	p.state = ContractState(vChoice("invState", 4))
	p.hodl = vChoice("hodl", 2) == 1
	p.addrReq = vChoice("addrReq", 2) == 1
	p.n = c15MinN + vChoice("nHtlc", c15MaxN-c15MinN+1)
	p.value = lnwire.MilliSatoshi(vU64("value"))
	p.amtPaid = lnwire.MilliSatoshi(vU64("amtPaid"))
	p.payAddr = c15Arr32(vBytes("payAddr", 32))
	p.finalDelta = vI32("finalCltvDelta")
	p.secret = lntypes.Preimage(c15Arr32(vBytes("preimage", 32)))
	p.hash = p.secret.Hash()
	p.hasPre = !p.hodl || p.state == ContractSettled

	// invoicesrpc.AddInvoice: value <= MaxPaymentMSat-ish; anything up to the
	// money supply is covered. 0 = zero-amount invoice.
	vAssume(p.value <= c15MaxMsat)
	vAssume(p.finalDelta >= 0 && p.finalDelta <= c15MaxDelta)

	var bits []lnwire.FeatureBit
	bits = append(bits, lnwire.TLVOnionPayloadRequired)
	if p.addrReq {
		bits = append(bits, lnwire.PaymentAddrRequired)
	} else {
		bits = append(bits, lnwire.PaymentAddrOptional)
	}
	inv := &Invoice{
		Terms: ContractTerm{
			FinalCltvDelta: p.finalDelta,
			Value:          p.value,
			PaymentAddr:    p.payAddr,
			Features:       lnwire.NewFeatureVector(lnwire.NewRawFeatureVector(bits...), nil),
		},
		AddIndex:    1,
		State:       p.state,
		AmtPaid:     p.amtPaid,
		Htlcs:       make(map[CircuitKey]*InvoiceHTLC),
		AMPState:    make(AMPInvoiceState),
		HodlInvoice: p.hodl,
	}
	if p.hasPre {
		pre := p.secret
		inv.Terms.PaymentPreimage = &pre
	}
	for j := 0; j < p.n; j++ {
		h := c15H{
			key:          c15Key(j + 1),
			amt:          lnwire.MilliSatoshi(vU64("hAmt")),
			total:        lnwire.MilliSatoshi(vU64("hTotal")),
			state:        HtlcState(vChoice("hState", 3)),
			expiry:       vU32("hExpiry"),
			acceptHeight: vU32("hAcceptHeight"),
		}
		vAssume(h.acceptHeight < c15MaxHeight) // it is uint32(int32 height)
		p.h[j] = h
		inv.Htlcs[h.key] = &InvoiceHTLC{
			Amt:           h.amt,
			MppTotalAmt:   h.total,
			AcceptHeight:  h.acceptHeight,
			Expiry:        h.expiry,
			State:         h.state,
			CustomRecords: make(record.CustomSet),
		}
	}
	vAssume(c15Inv(inv, p.hash))
	return p, inv
}

func c15Config() {
	vInjective("sha256")
	vAssumption("non-AMP invoice (regular / hold / zero-amount; payment address required or optional) with up to 2 (quick) / 3 (thorough) recorded HTLCs satisfying the representation invariant c15Inv; amounts <= 21e6 BTC, block heights < 2^31-2^17, CLTV deltas in [0,65535]; mpp total_msat any uint64")
	vAssumption("fake InvoiceDB with one invoice and transactional updates; fake InvoiceUpdater recording what is persisted; HtlcInterceptor that does not intervene; sha256 ideal (collision-free)")
}

// ---------------------------------------------------------------------------
// generic step obligations (2) (3) + store agreement
// ---------------------------------------------------------------------------

func c15StateStep(a, b ContractState) bool {
	switch a {
	case ContractOpen:
		return true
	case ContractAccepted:
		return b != ContractOpen
	default:
		return a == b
	}
}

func c15HtlcStep(a, b HtlcState) bool {
	return a == b || a == HtlcStateAccepted
}

// c15Step checks what must hold of every step. newKey is the circuit key the
// step may add (nil: none).
func c15Step(p *c15Pre, db *c15DB, newKey *CircuitKey) *Invoice {
	post := db.inv
	vAssert(c15StateStep(p.state, post.State), "(2) invoice state only moves forward: open, accepted, then settled or canceled")
	cnt := 0
	for j := 0; j < p.n; j++ {
		h, ok := post.Htlcs[p.h[j].key]
		vAssert(ok, "(2) a recorded HTLC is never dropped")
		if !ok {
			continue
		}
		cnt++
		vAssert(c15HtlcStep(p.h[j].state, h.State), "(2) HTLC state only moves accepted -> settled|canceled; settled and canceled are final")
		vAssert(h.Amt == p.h[j].amt && h.MppTotalAmt == p.h[j].total && h.Expiry == p.h[j].expiry &&
			h.AcceptHeight == p.h[j].acceptHeight, "(2) amounts, totals and expiries of recorded HTLCs never change")
	}
	extra := len(post.Htlcs) - cnt
	if newKey == nil {
		vAssert(extra == 0, "(2) no HTLC appears without an HTLC event")
	} else {
		_, has := post.Htlcs[*newKey]
		vAssert(extra == 0 || (extra == 1 && has), "(2) at most the arriving HTLC is added")
	}
	vAssert(post.Terms.Value == p.value && post.Terms.PaymentAddr == p.payAddr && post.HodlInvoice == p.hodl,
		"(2) invoice terms never change")
	vAssert(c15Inv(post, p.hash), "(2)(3) post-state satisfies the representation invariant (AmtPaid = sum of settled resp. accepted HTLCs >= value, preimage hashes to the payment hash, states consistent)")
	// what the store was told equals what the registry sees
	if db.upd != nil {
		u := db.upd
		same := u.state == post.State && u.amtPaid == post.AmtPaid && len(u.htlcState) == len(post.Htlcs)
		if post.Terms.PaymentPreimage != nil {
			same = same && u.preimage != nil && *u.preimage == *post.Terms.PaymentPreimage
		} else {
			same = same && u.preimage == nil
		}
		for k, h := range post.Htlcs {
			s, ok := u.htlcState[k]
			same = same && ok && s == h.State && u.htlcAmt[k] == h.Amt
		}
		vAssert(same, "(store) the InvoiceUpdater was told every change made to the in-memory invoice")
		vAssert(u.finalized == 1, "(store) the update was finalized exactly once")
	}
	return post
}

// c15Unchanged: the stored invoice is exactly the pre-state.
func c15Unchanged(p *c15Pre, db *c15DB) bool {
	post := db.inv
	same := post.State == p.state && post.AmtPaid == p.amtPaid && len(post.Htlcs) == p.n &&
		(post.Terms.PaymentPreimage != nil) == p.hasPre
	for j := 0; j < p.n; j++ {
		h, ok := post.Htlcs[p.h[j].key]
		same = same && ok
		if ok {
			same = same && h.State == p.h[j].state && h.Amt == p.h[j].amt
		}
	}
	return same
}

// c15Drain reads the resolutions delivered to the links on the hodl channel and
// checks them against the post-state. It returns how many settles were seen.
func c15Drain(p *c15Pre, post *Invoice, ch chan interface{}) (settles, fails int) {
	var seenSettle, seenFail [8]bool
	for len(ch) > 0 {
		m := <-ch
		switch r := m.(type) {
		case *HtlcSettleResolution:
			settles++
			k := r.CircuitKey()
			h, ok := post.Htlcs[k]
			vAssert(ok && h.State == HtlcStateSettled, "(1) a settle is delivered only for an HTLC recorded as settled")
			vAssert(r.Preimage.Hash() == p.hash, "(1) the preimage delivered to a link hashes to the payment hash")
			if k.HtlcID < 8 {
				seenSettle[k.HtlcID] = true
			}
		case *HtlcFailResolution:
			fails++
			k := r.CircuitKey()
			h, ok := post.Htlcs[k]
			vAssert(ok && h.State == HtlcStateCanceled, "(2) a cancel is delivered only for an HTLC recorded as canceled")
			if k.HtlcID < 8 {
				seenFail[k.HtlcID] = true
			}
		default:
			vAssert(false, "unexpected message on the hodl channel")
		}
	}
	for i := 0; i < 8; i++ {
		vAssert(!(seenSettle[i] && seenFail[i]), "(2) no HTLC is both settled and canceled")
	}
	return
}

// c15Subscribe subscribes one link channel to every recorded HTLC, whatever its
// state (only held HTLCs have a subscriber in practice; listening to all of
// them also exposes a resolution sent for the wrong HTLC).
func c15Subscribe(p *c15Pre, reg *InvoiceRegistry, ch chan interface{}) {
	for j := 0; j < p.n; j++ {
		reg.hodlSubscribe(ch, p.h[j].key)
	}
}

// ---------------------------------------------------------------------------
// event 1: an HTLC arrives (new or replayed)
// ---------------------------------------------------------------------------

const (
	c15Legacy = iota
	c15Keysend
	c15Mpp
	c15Blinded
)

// VerifC15Htlc: NotifyExitHopHtlc's locked core on a symbolic stored invoice
// with 0..2 recorded HTLCs, no interceptor client.
func VerifC15Htlc() { c15MinN, c15MaxN = 0, 2; c15HtlcEvent(false) }

// VerifC15HtlcN3: the same with exactly 3 recorded HTLCs (thorough tier).
func VerifC15HtlcN3() { c15MinN, c15MaxN = 3, 3; c15HtlcEvent(false) }

// VerifC15HtlcIntercept: an interceptor client answers: it either replaces the
// amount the HTLC is worth (any non-zero value) or cancels the HTLC set.
func VerifC15HtlcIntercept() { c15MinN, c15MaxN = 0, 2; c15HtlcEvent(true) }

func c15HtlcEvent(intercept bool) {
	c15Config()
	p, inv := c15MakePre()
	db := &c15DB{hash: p.hash, inv: inv}

	kind := vChoice("payload", 4)
	kc := vChoice("key", c15MaxN+1)
	if kc > p.n {
		return
	}
	isNew := kc == 0
	key := c15Key(100)
	if !isNew {
		key = p.h[kc-1].key
	}
	amt := lnwire.MilliSatoshi(vU64("amt"))
	expiry := vU32("expiry")
	height := vI32("height")
	rejectDelta := vI32("finalCltvRejectDelta")
	total := lnwire.MilliSatoshi(vU64("mppTotal"))
	addr := c15Arr32(vBytes("mppAddr", 32))
	ksPre := lntypes.Preimage(c15Arr32(vBytes("keysendPreimage", 32)))
	vAssume(amt <= c15MaxMsat)
	vAssume(height >= 0 && height < c15MaxHeight)
	vAssume(rejectDelta >= 0 && rejectDelta <= c15MaxDelta)

	ctx := &invoiceUpdateCtx{
		hash:                 p.hash, // the lookup by payment hash found this invoice
		circuitKey:           key,
		amtPaid:              amt,
		expiry:               expiry,
		currentHeight:        height,
		finalCltvRejectDelta: rejectDelta,
		customRecords:        make(record.CustomSet),
	}
	switch kind {
	case c15Keysend:
		ctx.customRecords[record.KeySendType] = ksPre[:]
	case c15Mpp:
		ctx.mpp = record.NewMPP(total, addr)
	case c15Blinded:
		id := chainhash.Hash(addr)
		ctx.pathID = &id
		ctx.totalAmtMsat = total
	}

	ic := c15Interceptor{}
	cancelSet := false
	if intercept {
		ic.respond = true
		if vChoice("interceptCancelsSet", 2) == 1 {
			cancelSet = true
			ic.resp.CancelSet = true
		} else {
			// the client decides what the HTLC is worth (custom channels); 0 = keep
			ic.resp.AmountPaid = lnwire.MilliSatoshi(vU64("interceptAmt"))
			vAssume(ic.resp.AmountPaid <= c15MaxMsat)
			if ic.resp.AmountPaid != 0 {
				amt = ic.resp.AmountPaid
			}
		}
	}

	reg := c15RegistryIC(db, rejectDelta, ic)
	ch := make(chan interface{}, 16)
	c15Subscribe(p, reg, ch)

	res, _, err := reg.notifyExitHopHtlcLocked(ctx, ch)

	var nk *CircuitKey
	if isNew {
		nk = &key
	}
	post := c15Step(p, db, nk)
	settles, _ := c15Drain(p, post, ch)

	if err != nil {
		vReach("error")
		vAssert(res == nil, "an error carries no resolution")
		vAssert(c15Unchanged(p, db), "an update that fails changes nothing")
		return
	}

	// ---- reference: the conditions of the property, from the drawn scalars ----
	maxDelta := rejectDelta
	if p.finalDelta > maxDelta {
		maxDelta = p.finalDelta
	}
	expOK := uint64(expiry) >= uint64(height)+uint64(maxDelta) // in Z: no operand exceeds 2^32
	var sumAcc lnwire.MilliSatoshi                             // <= 4*2.1e18 < 2^64
	allTotalsEq, mppPending := true, false
	for j := 0; j < p.n; j++ {
		if p.h[j].state == HtlcStateAccepted {
			sumAcc += p.h[j].amt
			allTotalsEq = allTotalsEq && p.h[j].total == total
			mppPending = mppPending || p.h[j].total > 0
		}
	}
	shardOK := p.state == ContractOpen && addr == p.payAddr && total != 0 && total >= p.value &&
		allTotalsEq && expOK
	mppOK := shardOK && uint64(sumAcc)+uint64(amt) >= uint64(total)
	keysendOK := kind == c15Keysend && ksPre.Hash() == p.hash
	legOK := p.state != ContractCanceled && amt >= p.value && (!p.addrReq || keysendOK) && !mppPending && expOK
	payOK, holdOK := legOK, legOK
	if kind == c15Mpp || kind == c15Blinded {
		payOK, holdOK = mppOK, shardOK
	}

	newHtlc, recorded := post.Htlcs[key]

	if !isNew {
		// (4) replay
		vAssert(c15Unchanged(p, db) && db.upd == nil, "(4) a replayed HTLC changes nothing")
		// (the registry re-announces the settled HTLCs of a settled invoice on a
		// replayed settle; c15Drain has checked those against the stored state)
		vAssert(settles == 0 || p.h[kc-1].state == HtlcStateSettled, "(4) a replayed held/canceled HTLC releases nothing")
		switch p.h[kc-1].state {
		case HtlcStateCanceled:
			r, ok := res.(*HtlcFailResolution)
			vAssert(ok && r.Outcome == ResultReplayToCanceled, "(4) replay of a canceled HTLC is failed again")
			vReach("replay-canceled")
		case HtlcStateAccepted:
			r, ok := res.(*htlcAcceptResolution)
			vAssert(ok && r.outcome == resultReplayToAccepted, "(4) replay of an accepted HTLC stays held")
			vReach("replay-accepted")
		case HtlcStateSettled:
			r, ok := res.(*HtlcSettleResolution)
			vAssert(ok && r.Preimage.Hash() == p.hash, "(4) replay of a settled HTLC is settled again with a preimage of its hash")
			vReach("replay-settled")
		}
		return
	}

	if cancelSet {
		// the interceptor client refused the set: nothing is settled, the
		// arriving HTLC is failed, the accepted HTLCs of an open invoice are
		// canceled, the invoice state is untouched
		r, ok := res.(*HtlcFailResolution)
		vAssert(ok && !recorded && settles == 0 && post.State == p.state, "(1) a set refused by the interceptor releases nothing")
		if p.state == ContractOpen {
			vAssert(ok && r.Outcome == ExternalValidationFailed, "refused set fails with ExternalValidationFailed")
			for j := 0; j < p.n; j++ {
				want := p.h[j].state
				if want == HtlcStateAccepted {
					want = HtlcStateCanceled
				}
				vAssert(post.Htlcs[p.h[j].key].State == want, "the accepted HTLCs of a refused set are canceled")
			}
			vReach("intercept-cancel-set")
		} else {
			vAssert(c15Unchanged(p, db), "a refused set on a non-open invoice changes nothing")
			vReach("intercept-cancel-not-open")
		}
		return
	}

	// (1) a state change to accepted/settled needs a fully and correctly paid set
	if post.State != p.state && (post.State == ContractSettled || post.State == ContractAccepted) {
		vAssert(payOK, "(1) invoice moves to accepted/settled only when address, common total >= value, set sum >= total and expiry margin all hold")
	}

	switch r := res.(type) {
	case *HtlcSettleResolution:
		vAssert(payOK, "(1) settle only when address, common total >= value, set sum >= total and expiry margin all hold")
		vAssert(r.Preimage.Hash() == ctx.hash, "(1) the released preimage hashes to the HTLC's payment hash")
		vAssert(r.CircuitKey() == key, "settle names the arriving HTLC")
		vAssert(recorded && newHtlc.State == HtlcStateSettled && newHtlc.Amt == amt && post.State == ContractSettled,
			"(1) a settled HTLC is recorded as settled with its amount on a settled invoice")
		switch {
		case p.state == ContractSettled:
			vReach("settle-duplicate")
		case kind == c15Mpp && settles > 0:
			vReach("settle-mpp-set")
		case kind == c15Mpp:
			vReach("settle-mpp-single")
		case kind == c15Blinded:
			vReach("settle-blinded")
		case kind == c15Keysend && p.addrReq:
			vReach("settle-keysend")
		default:
			vReach("settle-legacy")
		}
	case *htlcAcceptResolution:
		vAssert(recorded && newHtlc.State == HtlcStateAccepted && newHtlc.Amt == amt, "an accepted HTLC is recorded as accepted with its amount")
		vAssert(holdOK, "(1) an HTLC joins the set only with the invoice's address, a total >= value equal to the set's, and the expiry margin")
		vAssert(settles == 0, "(1) nothing is settled when the arriving HTLC is only held")
		if post.State == ContractAccepted && p.state == ContractOpen {
			vReach("hold-accepted")
		} else if post.State == ContractOpen {
			vAssert(kind == c15Mpp || kind == c15Blinded, "only an MPP shard is held on an open invoice")
			vReach("mpp-partial")
		} else {
			vReach("hold-duplicate")
		}
	case *HtlcFailResolution:
		vAssert(!recorded, "a failed HTLC is not recorded")
		vAssert(c15Unchanged(p, db), "a failed HTLC changes nothing")
		vAssert(settles == 0, "(1) nothing is settled when the arriving HTLC is failed")
		vReach("fail")
	default:
		vAssert(false, "no resolution and no error")
	}
}

// ---------------------------------------------------------------------------
// event 2: SettleHodlInvoice(preimage)
// ---------------------------------------------------------------------------

// VerifC15SettleHodl: the real SettleHodlInvoice with an arbitrary preimage on
// a symbolic stored invoice.
func VerifC15SettleHodl()   { c15MinN, c15MaxN = 0, 2; c15SettleHodlEvent() }
func VerifC15SettleHodlN3() { c15MinN, c15MaxN = 3, 3; c15SettleHodlEvent() }

func c15SettleHodlEvent() {
	c15Config()
	p, inv := c15MakePre()
	db := &c15DB{hash: p.hash, inv: inv}
	pre := lntypes.Preimage(c15Arr32(vBytes("settlePreimage", 32)))

	reg := c15Registry(db, 0)
	ch := make(chan interface{}, 16)
	c15Subscribe(p, reg, ch)

	err := reg.SettleHodlInvoice(context.Background(), pre)

	post := c15Step(p, db, nil)
	settles, fails := c15Drain(p, post, ch)

	if err != nil {
		vAssert(c15Unchanged(p, db), "a refused settlement changes nothing")
		vAssert(settles == 0 && fails == 0, "(1) a refused settlement releases nothing")
		if pre.Hash() != p.hash {
			vReach("settle-unknown-hash")
		} else {
			vReach("settle-refused")
		}
		return
	}
	// (1) the hold invoice is settled only from Accepted (= fully paid, by the
	// invariant: AmtPaid = sum(accepted) >= value) with a preimage of its hash
	vAssert(p.hodl && p.state == ContractAccepted, "(1) a hold invoice is settled only after it was accepted (fully paid)")
	vAssert(pre.Hash() == p.hash, "(1) a hold invoice is settled only with a preimage of its payment hash")
	vAssert(post.State == ContractSettled && post.Terms.PaymentPreimage != nil && *post.Terms.PaymentPreimage == pre,
		"the settled hold invoice records the preimage")
	nAcc := 0
	for j := 0; j < p.n; j++ {
		if p.h[j].state == HtlcStateAccepted {
			nAcc++
			vAssert(post.Htlcs[p.h[j].key].State == HtlcStateSettled, "every accepted HTLC of the settled hold invoice is settled")
		}
	}
	vAssert(settles == nAcc && fails == 0, "every accepted HTLC is told to settle, nothing else is notified")
	vReach("hold-settled")
}

// ---------------------------------------------------------------------------
// event 3: CancelInvoice (forced or not)
// ---------------------------------------------------------------------------

func VerifC15Cancel()   { c15MinN, c15MaxN = 0, 2; c15CancelEvent() }
func VerifC15CancelN3() { c15MinN, c15MaxN = 3, 3; c15CancelEvent() }

func c15CancelEvent() {
	c15Config()
	p, inv := c15MakePre()
	db := &c15DB{hash: p.hash, inv: inv}
	force := vChoice("cancelAccepted", 2) == 1

	reg := c15Registry(db, 0)
	ch := make(chan interface{}, 16)
	c15Subscribe(p, reg, ch)

	err := reg.cancelInvoiceImpl(context.Background(), p.hash, force)

	post := c15Step(p, db, nil)
	settles, fails := c15Drain(p, post, ch)
	vAssert(settles == 0, "(1) canceling never releases a preimage")

	doCancel := p.state == ContractOpen || (p.state == ContractAccepted && force)
	if !doCancel {
		vAssert(c15Unchanged(p, db) && fails == 0, "cancel of a settled/canceled/not-forced accepted invoice changes nothing")
		vAssert((err != nil) == (p.state == ContractSettled), "only the cancel of a settled invoice is an error")
		vReach("cancel-noop")
		return
	}
	vAssert(err == nil, "cancel of an open or (forced) accepted invoice succeeds")
	vAssert(post.State == ContractCanceled, "the invoice is canceled")
	nAcc := 0
	for j := 0; j < p.n; j++ {
		if p.h[j].state == HtlcStateAccepted {
			nAcc++
		}
		vAssert(post.Htlcs[p.h[j].key].State == HtlcStateCanceled, "every HTLC of a canceled invoice is canceled")
	}
	vAssert(nAcc <= fails && fails == p.n, "every HTLC of the canceled invoice is told to cancel")
	vReach("canceled")
}

// ---------------------------------------------------------------------------
// event 4: cancelSingleHtlc (MPP set timeout)
// ---------------------------------------------------------------------------

func VerifC15CancelHtlc()   { c15MinN, c15MaxN = 0, 2; c15CancelHtlcEvent() }
func VerifC15CancelHtlcN3() { c15MinN, c15MaxN = 3, 3; c15CancelHtlcEvent() }

func c15CancelHtlcEvent() {
	c15Config()
	p, inv := c15MakePre()
	db := &c15DB{hash: p.hash, inv: inv}
	kc := vChoice("key", c15MaxN+1)
	if kc > p.n {
		return
	}
	key := c15Key(100)
	if kc > 0 {
		key = p.h[kc-1].key
	}

	reg := c15Registry(db, 0)
	ch := make(chan interface{}, 16)
	c15Subscribe(p, reg, ch)

	err := reg.cancelSingleHtlc(InvoiceRefByHash(p.hash), key, ResultMppTimeout)

	post := c15Step(p, db, nil)
	settles, fails := c15Drain(p, post, ch)
	vAssert(settles == 0, "(1) a set timeout never releases a preimage")

	if kc > 0 && p.state == ContractOpen && p.h[kc-1].state == HtlcStateAccepted {
		vAssert(err == nil, "an accepted HTLC of an open invoice can be canceled")
		vAssert(post.State == ContractOpen, "the invoice stays open")
		for j := 0; j < p.n; j++ {
			want := p.h[j].state
			if j == kc-1 {
				want = HtlcStateCanceled
			}
			vAssert(post.Htlcs[p.h[j].key].State == want, "exactly the timed-out HTLC is canceled")
		}
		vAssert(fails == 1, "the link holding the HTLC is told to cancel it")
		vReach("htlc-canceled")
		return
	}
	vAssert(c15Unchanged(p, db) && fails == 0, "a set timeout on a resolved HTLC or a non-open invoice changes nothing")
	if err != nil {
		vAssert(kc == 0 && p.state == ContractOpen, "only an unknown HTLC on an open invoice is an error")
	}
	vReach("htlc-cancel-noop")
}
