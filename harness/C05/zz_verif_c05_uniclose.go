package lnwallet

// Harness for C05-K3: reacting to a REMOTE commitment that confirmed - the
// HTLC trim decision must use the parameters of the commitment that confirmed.
//
// Unit executed symbolically (real lnd code): NewUnilateralCloseSummary,
// DeriveCommitmentKeys, extractHtlcResolutions, HtlcIsDust, HtlcTimeoutFee /
// HtlcSuccessFee, newOutgoingHtlcResolution / newIncomingHtlcResolution
// (remote-commitment branch), genHtlcScript, CommitScriptToRemote,
// NewAnchorResolution / CommitScriptAnchors, input.FindScriptOutputIndex,
// (*OpenChannel).ShortChanID / ChanSyncMsg (fails on the fake producer; the
// real code logs and goes on), wire.MsgTx.TxHash (uninterpreted SHA-256).
// Fakes: input.Signer (never called here), shachain.Producer / Store (return
// an error). Opaque key/script model: zz_verif_c05_vm.go.
//
// Scenario (BOLT-2 update_fee, BOLT-5 "Unilateral Close Handling: Remote
// Commitment Transaction"): the peer (channel initiator) has a commitment
// stored in chanState.RemoteCommitment and, possibly, a PENDING not-yet-revoked
// next commitment that carries a fee update. Either one may confirm. The
// chain watcher passes the one that confirmed as `remoteCommit`.
//
// Oracle (BOLT-3 "Trimmed Outputs" for the commitment that confirmed): the
// HTLC has an output on the confirmed transaction iff
//     amount_sat >= dust_limit(remote) + second-level fee(feerate OF THAT
//     COMMITMENT, weight by type/direction);
// the harness builds the confirmed transaction accordingly (HTLC output
// present iff untrimmed, stored OutputIndex -1 iff trimmed). Obligation:
//   - a resolution exists iff the HTLC has an output on the confirmed
//     commitment; it is of the right kind (they offered -> incoming/success,
//     they received -> outgoing/timeout), claims (confirmed txid, its output
//     index) and its sign descriptor is exactly that output (BOLT-3 script
//     from the keys of the confirmed commitment point, whole-satoshi amount);
//   - in particular when the stored commitment's fee rate would decide
//     otherwise (amount between the two trim thresholds);
//   - our to_remote output, when present, is found with its value; nothing
//     is reported when it is absent.

import (
	"bytes"
	"errors"

	"github.com/btcsuite/btcd/btcutil/v2"
	"github.com/btcsuite/btcd/chainhash/v2"
	"github.com/btcsuite/btcd/txscript/v2"
	"github.com/btcsuite/btcd/wire/v2"
	"github.com/lightningnetwork/lnd/chainntnfs"
	"github.com/lightningnetwork/lnd/channeldb"
	"github.com/lightningnetwork/lnd/chanstate"
	"github.com/lightningnetwork/lnd/fn/v2"
	"github.com/lightningnetwork/lnd/input"
	"github.com/lightningnetwork/lnd/keychain"
	"github.com/lightningnetwork/lnd/lnwire"
	"github.com/lightningnetwork/lnd/shachain"
)

type c05NoProducer struct{ shachain.Producer }

func (c05NoProducer) AtIndex(uint64) (*chainhash.Hash, error) {
	return nil, errors.New("c05: no producer in this harness")
}

type c05NoStore struct{ shachain.Store }

func (c05NoStore) LookUp(uint64) (*chainhash.Hash, error) {
	return nil, errors.New("c05: no revocation store in this harness")
}

// channel types of this entry: the ones whose second-level transactions pay a
// fee (legacy, tweakless, anchors) and zero-fee anchors (threshold does not
// depend on the fee rate).
var c05UniTypes = []uint64{
	0,
	1 << 1,
	1<<1 | c05AnchorBit,
	1<<1 | c05AnchorBit | c05ZeroFeeBit,
}

func VerifC05UniClose() {
	vmConfig()
	vOverflow("(github.com/lightningnetwork/lnd/lnwallet/chainfee.SatPerKWeight).FeeForWeight")
	vOverflow("github.com/lightningnetwork/lnd/lnwallet.c05RefFee")

	ctRaw := c05UniTypes[vChoice("chanType", len(c05UniTypes))]
	ct := channeldb.ChannelType(ctRaw)
	incoming := vChoice("incoming", 2) == 1 // incoming to us = the peer offered it
	outIdx := vChoice("outputIndex", 3)
	anchors := ctRaw&c05AnchorBit != 0
	tweakless := ctRaw&(1<<1) != 0

	key := func(n string) keychain.KeyDescriptor { return keychain.KeyDescriptor{PubKey: vmKey(n)} }
	dustLocal, dustRemote := int64(vU32("localDustLimit")), int64(vU32("remoteDustLimit"))
	vAssume(dustLocal >= 354 && dustRemote >= 354) // BOLT-2 minimum dust limit

	// two fee rates: the stored remote commitment's and the confirmed one's
	storedFee, confFee := vU64("storedFeePerKw"), vU64("confirmedFeePerKw")
	vAssume(storedFee <= 0xffffffff && confFee <= 0xffffffff) // feerate_per_kw is a u32
	// pending: the commitment that confirmed is the peer's pending one (one
	// height above the stored one); otherwise it IS the stored one.
	pending := vBool("confirmedIsPending")
	if !pending {
		vAssume(confFee == storedFee)
	}
	storedHeight := vU64("storedRemoteHeight")
	vAssume(storedHeight < 1<<48-1)
	confHeight := storedHeight
	if pending {
		confHeight++
	}

	// the HTLC
	sub := vU16("htlcSubSat")
	vAssume(sub < 1000)
	amtMsat := uint64(vU32("htlcSat"))*1000 + uint64(sub)
	amtSat := int64(amtMsat / 1000)
	h := channeldb.HTLC{
		Amt:           lnwire.MilliSatoshi(amtMsat),
		RefundTimeout: vU32("cltvExpiry"),
		Incoming:      incoming,
		HtlcIndex:     vU64("htlcIndex"),
	}
	copy(h.RHash[:], vBytes("paymentHash", 32))

	// BOLT-3 trimming on the REMOTE commitment: the owner (peer) needs a
	// timeout tx for HTLCs it offered (incoming to us), a success tx otherwise.
	feeConf := c05RefFee(ctRaw, confFee, incoming)
	feeStored := c05RefFee(ctRaw, storedFee, incoming)
	hasOutput := uint64(amtSat) >= uint64(dustRemote)+feeConf
	hadOutputStored := uint64(amtSat) >= uint64(dustRemote)+feeStored

	cs := &chanstate.OpenChannel{
		ChanType:    ct,
		IsInitiator: false, // update_fee is sent by the initiator: the peer
		Capacity:    btcutil.Amount(vU32("capacity")),
		ThawHeight:  vU32("thawHeight"),
		LocalChanCfg: channeldb.ChannelConfig{
			CommitmentParams:    chanstate.CommitmentParams{DustLimit: btcutil.Amount(dustLocal), CsvDelay: vU16("localCsvDelay")},
			MultiSigKey:         key("localMultiSig"),
			RevocationBasePoint: key("localRevocationBase"),
			PaymentBasePoint:    key("localPaymentBase"),
			DelayBasePoint:      key("localDelayBase"),
			HtlcBasePoint:       key("localHtlcBase"),
		},
		RemoteChanCfg: channeldb.ChannelConfig{
			CommitmentParams:    chanstate.CommitmentParams{DustLimit: btcutil.Amount(dustRemote), CsvDelay: vU16("remoteCsvDelay")},
			MultiSigKey:         key("remoteMultiSig"),
			RevocationBasePoint: key("remoteRevocationBase"),
			PaymentBasePoint:    key("remotePaymentBase"),
			DelayBasePoint:      key("remoteDelayBase"),
			HtlcBasePoint:       key("remoteHtlcBase"),
		},
		RevocationProducer: c05NoProducer{},
		RevocationStore:    c05NoStore{},
	}
	copy(cs.FundingOutpoint.Hash[:], vBytes("fundingTxid", 32))
	cs.FundingOutpoint.Index = uint32(vU16("fundingIndex"))
	cs.LocalCommitment.CommitHeight = vU64("localHeight")

	// what is stored as the peer's current commitment (as toDiskCommit would
	// have recorded it under ITS fee rate)
	hStored := h
	hStored.OutputIndex = -1
	if hadOutputStored {
		hStored.OutputIndex = int32(outIdx)
	}
	cs.RemoteCommitment = channeldb.ChannelCommitment{
		CommitHeight: storedHeight,
		FeePerKw:     btcutil.Amount(storedFee),
		CommitFee:    btcutil.Amount(vU32("storedCommitFee")),
		Htlcs:        []channeldb.HTLC{hStored},
	}

	// ---- keys of the confirmed commitment (BOLT-3 key derivation) ----
	commitPoint := vmKey("confirmedCommitPoint")
	localHtlcKey := input.TweakPubKey(cs.LocalChanCfg.HtlcBasePoint.PubKey, commitPoint)
	remoteHtlcKey := input.TweakPubKey(cs.RemoteChanCfg.HtlcBasePoint.PubKey, commitPoint)
	// remote commitment: the revocation key comes from OUR revocation base point
	revKey := input.DeriveRevocationPubkey(cs.LocalChanCfg.RevocationBasePoint.PubKey, commitPoint)
	toRemoteKey := cs.LocalChanCfg.PaymentBasePoint.PubKey
	if !tweakless {
		toRemoteKey = input.TweakPubKey(toRemoteKey, commitPoint)
	}

	var wantWS []byte
	if incoming { // they offered
		wantWS, _ = input.SenderHTLCScript(remoteHtlcKey, localHtlcKey, revKey, h.RHash[:], anchors)
	} else { // they received
		wantWS, _ = input.ReceiverHTLCScript(h.RefundTimeout, localHtlcKey, remoteHtlcKey, revKey, h.RHash[:], anchors)
	}
	wantPk, _ := input.WitnessScriptHash(wantWS)
	var toRemotePk []byte
	if anchors {
		ws, _ := input.CommitScriptToRemoteConfirmed(toRemoteKey)
		toRemotePk, _ = input.WitnessScriptHash(ws)
	} else {
		toRemotePk, _ = input.CommitScriptUnencumbered(toRemoteKey)
	}

	// ---- the transaction that confirmed: three outputs ----
	haveToRemote := vBool("haveToRemote")
	toRemoteIdx := (outIdx + 1) % 3
	toRemoteVal := int64(vU32("toRemoteValue"))
	commitTx := wire.NewMsgTx(2)
	commitTx.AddTxIn(&wire.TxIn{PreviousOutPoint: cs.FundingOutpoint, Sequence: vU32("commitSequence")})
	commitTx.LockTime = vU32("commitLockTime")
	for j := 0; j < 3; j++ {
		switch {
		case j == outIdx && hasOutput:
			commitTx.AddTxOut(&wire.TxOut{Value: amtSat, PkScript: wantPk})
		case j == toRemoteIdx && haveToRemote:
			commitTx.AddTxOut(&wire.TxOut{Value: toRemoteVal, PkScript: toRemotePk})
		default:
			pk := append([]byte{txscript.OP_0, txscript.OP_DATA_32}, vBytes("otherScript"+string(rune('0'+j)), 32)...)
			// the peer's to_local / other HTLC outputs never carry our
			// to_remote script (different template / keys)
			vAssume(!bytes.Equal(pk, toRemotePk))
			commitTx.AddTxOut(&wire.TxOut{Value: int64(vU32("otherValue" + string(rune('0'+j)))), PkScript: pk})
		}
	}
	commitTxid := commitTx.TxHash()
	h.OutputIndex = -1
	if hasOutput {
		h.OutputIndex = int32(outIdx)
	}
	confirmed := channeldb.ChannelCommitment{
		CommitHeight: confHeight,
		FeePerKw:     btcutil.Amount(confFee),
		CommitFee:    btcutil.Amount(vU32("confirmedCommitFee")),
		CommitTx:     commitTx,
		Htlcs:        []channeldb.HTLC{h},
	}
	spend := &chainntnfs.SpendDetail{
		SpentOutPoint:     &cs.FundingOutpoint,
		SpenderTxHash:     &commitTxid,
		SpendingTx:        commitTx,
		SpenderInputIndex: 0,
		SpendingHeight:    int32(vU32("spendHeight") >> 1),
	}

	signer := &c05Signer{}
	sum, err := NewUnilateralCloseSummary(
		cs, signer, spend, confirmed, commitPoint,
		fn.None[AuxLeafStore](), fn.None[AuxContractResolver](),
	)
	vAssert(err == nil && sum != nil && sum.HtlcResolutions != nil, "the close summary is built")
	if err != nil || sum == nil || sum.HtlcResolutions == nil {
		return
	}
	res := sum.HtlcResolutions

	// ---- oracle ----
	if !hasOutput {
		vAssert(len(res.IncomingHTLCs) == 0 && len(res.OutgoingHTLCs) == 0,
			"an HTLC trimmed from the commitment that confirmed gets no resolution")
		if pending && hadOutputStored {
			vReach("pending-fee-raised-trimmed")
		} else {
			vReach("trimmed")
		}
	} else {
		if incoming {
			vAssert(len(res.IncomingHTLCs) == 1 && len(res.OutgoingHTLCs) == 0,
				"an HTLC with an output on the commitment that confirmed gets its (incoming) resolution")
		} else {
			vAssert(len(res.IncomingHTLCs) == 0 && len(res.OutgoingHTLCs) == 1,
				"an HTLC with an output on the commitment that confirmed gets its (outgoing) resolution")
		}
		if (incoming && len(res.IncomingHTLCs) != 1) || (!incoming && len(res.OutgoingHTLCs) != 1) {
			return
		}
		var (
			claim wire.OutPoint
			sweep input.SignDescriptor
			csv   uint32
			noTx  bool
		)
		if incoming {
			r := &res.IncomingHTLCs[0]
			claim, sweep, csv, noTx = r.ClaimOutpoint, r.SweepSignDesc, r.CsvDelay, r.SignedSuccessTx == nil
		} else {
			r := &res.OutgoingHTLCs[0]
			claim, sweep, csv, noTx = r.ClaimOutpoint, r.SweepSignDesc, r.CsvDelay, r.SignedTimeoutTx == nil
			vAssert(r.Expiry == h.RefundTimeout, "outgoing resolution: expiry = cltv_expiry")
		}
		wantSeq := uint32(0)
		if anchors {
			wantSeq = 1
		}
		vAssert(noTx && csv == wantSeq, "their commitment: direct spend, CSV 1 with anchors else 0")
		vAssert(claim.Hash == commitTxid && claim.Index == uint32(outIdx),
			"claim outpoint = (confirmed commitment txid, HTLC output index)")
		vAssert(c05SameOut(sweep.Output, commitTx.TxOut[outIdx]) && bytes.Equal(sweep.WitnessScript, wantWS),
			"sign descriptor output = the HTLC output of the confirmed commitment (BOLT-3 script from its commitment point, whole satoshis)")
		vAssert(vmKeyEq(sweep.KeyDesc.PubKey, cs.LocalChanCfg.HtlcBasePoint.PubKey) &&
			bytes.Equal(sweep.SingleTweak, input.SingleTweakBytes(commitPoint, cs.LocalChanCfg.HtlcBasePoint.PubKey)),
			"signed with our HTLC base point + the tweak of the confirmed commitment point")
		if pending && !hadOutputStored {
			vReach("pending-fee-lowered-output-kept")
		} else if pending {
			vReach("pending-untrimmed")
		} else {
			vReach("current-untrimmed")
		}
	}
	vAssert(signer.n == 0, "nothing is signed at resolution time")

	// our own output
	if haveToRemote {
		cr := sum.CommitResolution
		vAssert(cr != nil, "our to_remote output on the confirmed commitment is found")
		if cr != nil {
			vAssert(cr.SelfOutPoint.Hash == commitTxid && cr.SelfOutPoint.Index == uint32(toRemoteIdx) &&
				c05SameOut(cr.SelfOutputSignDesc.Output, commitTx.TxOut[toRemoteIdx]) && cr.MaturityDelay == c05CsvToRemote(anchors),
				"commit resolution = our to_remote output (index, value, script, CSV 1 with anchors)")
			vAssert(int64(sum.ChannelCloseSummary.SettledBalance) == toRemoteVal, "settled balance = value of our output")
		}
		vReach("to-remote")
	}
	vAssert(sum.RemoteCommit.CommitHeight == confHeight && sum.ChannelCloseSummary.ClosingTXID == commitTxid,
		"the summary names the commitment that confirmed")
	if anchors {
		vReach("anchors")
	}
}

func c05CsvToRemote(anchors bool) uint32 {
	if anchors {
		return 1
	}
	return 0
}
