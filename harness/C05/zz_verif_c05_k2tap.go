package lnwallet

// Harness for C05-K2 on simple taproot channels (staging and final/production
// scripts): HTLC resolutions for a confirmed commitment, structural / integer
// conditions only.
//
// Unit executed symbolically (real lnd code): extractHtlcResolutions,
// newOutgoingHtlcResolution, newIncomingHtlcResolution, HtlcIsDust, genHtlcScript
// (the staging/final option selection) -> GenTaprootHtlcScript,
// CreateHtlcTimeoutTx / CreateHtlcSuccessTx -> SecondLevelHtlcScript (its own
// staging/final option selection), the SweepSignDesc construction (a third
// option selection), HtlcSigHashType, HtlcSignDetails, sweepSigHash,
// input.ParseSignature -> schnorr.ParseSignature (real parser on a fixed
// signature), input.SenderHTLCScriptTaprootTimeout /
// ReceiverHTLCScriptTaprootRedeem (witness assembly), the methods of
// input.HtlcScriptTree / SecondLevelScriptTree / ScriptTree (PkScript,
// WitnessScriptForPath, CtrlBlockForPath, TapScriptTree).
//
// Ideal script-tree model (extends zz_verif_c05_vm.go; symbolic runs only -
// natively the real builders run on real keys): input.SenderHTLCScriptTaproot,
// ReceiverHTLCScriptTaproot and TaprootSecondLevelScriptTree return a script
// tree whose leaf scripts are ideal injective functions of (template, keys,
// hash, numbers, AND the production-script option), whose tapscript root is
// an ideal function of the leaves (+ aux leaf) and whose output key is an ideal
// function of (internal key, root); MakeTaprootCtrlBlock / ControlBlock.ToBytes
// are ideal functions of (leaf script, tree root, internal key);
// PayToTaprootScript is OP_1 <identity of the output key>. The only
// TaprootScriptOpt that exists is WithProdScripts (input/script_utils.go), so
// "options present" <=> production scripts.
//
// Oracle: the K2 oracle (see zz_verif_c05_k2.go) with the BOLT-3-taproot
// shapes: zero second-level fee, sequence 1, peer sighash
// SINGLE|ANYONECANPAY, our sighash DEFAULT, witness
// <peer sig|sighash> <our sig> [<>] <leaf script> <control block>, and - the
// point of this entry - ONE script variant per channel: the HTLC output that
// is spent, the output of the HTLC-success/timeout transaction and the
// SweepSignDesc that later spends that output (pkScript, leaf script, control
// block) are all the staging variant on a staging channel and all the
// production variant on a final channel.

import (
	"bytes"

	"github.com/btcsuite/btcd/btcec/v2"
	"github.com/btcsuite/btcd/btcutil/v2"
	"github.com/btcsuite/btcd/txscript/v2"
	"github.com/btcsuite/btcd/wire/v2"
	"github.com/lightningnetwork/lnd/channeldb"
	"github.com/lightningnetwork/lnd/chanstate"
	"github.com/lightningnetwork/lnd/fn/v2"
	"github.com/lightningnetwork/lnd/input"
	"github.com/lightningnetwork/lnd/keychain"
	"github.com/lightningnetwork/lnd/lntypes"
	"github.com/lightningnetwork/lnd/lnwallet/chainfee"
	"github.com/lightningnetwork/lnd/lnwire"
)

// ---- ideal taproot script trees ----

const (
	vmTagTapSenderSuccess = iota + 40
	vmTagTapSenderTimeout
	vmTagTapReceiverSuccess
	vmTagTapReceiverTimeout
	vmTagTapSecondLevel
)

func vmProd(opts []input.TaprootScriptOpt) bool { return len(opts) > 0 }

func vmAuxID(aux input.AuxTapLeaf) []byte {
	if aux.IsSome() {
		panic("verif model: aux leaves are outside the model")
	}
	return []byte{0}
}

// vmTapTree assembles the ideal tree over the given leaf scripts.
func vmTapTree(internal *btcec.PublicKey, aux input.AuxTapLeaf, leaves ...[]byte) input.ScriptTree {
	parts := [][]byte{vmAuxID(aux)}
	parts = append(parts, leaves...)
	root := vHash("tapscriptroot", 32, parts...)
	return input.ScriptTree{
		InternalKey:   internal,
		TaprootKey:    vmNewKey(vHash("taprootoutputkey", 32, vmKeyID(internal), root)),
		TapscriptRoot: root,
		// the indexed tree is only ever handed to MakeTaprootCtrlBlock /
		// TapTweak: its identity is the root
		TapscriptTree: &txscript.IndexedTapScriptTree{RootNode: txscript.NewBaseTapLeaf(root)},
	}
}

func vmSenderHTLCScriptTaproot(senderHtlcKey, receiverHtlcKey, revokeKey *btcec.PublicKey,
	payHash []byte, whoseCommit lntypes.ChannelParty, auxLeaf input.AuxTapLeaf,
	opts ...input.TaprootScriptOpt) (*input.HtlcScriptTree, error) {

	success := vmScript(vmTagTapSenderSuccess, receiverHtlcKey, nil, nil, payHash, 0, 0, vmProd(opts))
	timeout := vmScript(vmTagTapSenderTimeout, senderHtlcKey, receiverHtlcKey, nil, nil, 0, 0, vmProd(opts))
	return &input.HtlcScriptTree{
		ScriptTree:     vmTapTree(revokeKey, auxLeaf, success, timeout),
		SuccessTapLeaf: txscript.NewBaseTapLeaf(success),
		TimeoutTapLeaf: txscript.NewBaseTapLeaf(timeout),
		AuxLeaf:        auxLeaf,
	}, nil
}

func vmReceiverHTLCScriptTaproot(cltvExpiry uint32, senderHtlcKey, receiverHtlcKey, revocationKey *btcec.PublicKey,
	payHash []byte, whoseCommit lntypes.ChannelParty, auxLeaf input.AuxTapLeaf,
	opts ...input.TaprootScriptOpt) (*input.HtlcScriptTree, error) {

	success := vmScript(vmTagTapReceiverSuccess, senderHtlcKey, receiverHtlcKey, nil, payHash, 0, 0, vmProd(opts))
	timeout := vmScript(vmTagTapReceiverTimeout, senderHtlcKey, nil, nil, nil, cltvExpiry, 0, vmProd(opts))
	return &input.HtlcScriptTree{
		ScriptTree:     vmTapTree(revocationKey, auxLeaf, success, timeout),
		SuccessTapLeaf: txscript.NewBaseTapLeaf(success),
		TimeoutTapLeaf: txscript.NewBaseTapLeaf(timeout),
		AuxLeaf:        auxLeaf,
	}, nil
}

func vmTaprootSecondLevelScriptTree(revokeKey, delayKey *btcec.PublicKey, csvDelay uint32,
	auxLeaf input.AuxTapLeaf, opts ...input.TaprootScriptOpt) (*input.SecondLevelScriptTree, error) {

	leaf := vmScript(vmTagTapSecondLevel, delayKey, nil, nil, nil, csvDelay, 0, vmProd(opts))
	return &input.SecondLevelScriptTree{
		ScriptTree:     vmTapTree(revokeKey, auxLeaf, leaf),
		SuccessTapLeaf: txscript.NewBaseTapLeaf(leaf),
		AuxLeaf:        auxLeaf,
	}, nil
}

func vmPayToTaprootScript(taprootKey *btcec.PublicKey) ([]byte, error) {
	return append([]byte{txscript.OP_1, txscript.OP_DATA_32}, vmKeyID(taprootKey)...), nil
}

func vmMakeTaprootCtrlBlock(leafScript []byte, internalKey *btcec.PublicKey,
	scriptTree *txscript.IndexedTapScriptTree) txscript.ControlBlock {

	root := scriptTree.RootNode.(txscript.TapLeaf).Script
	return txscript.ControlBlock{
		InternalKey:    internalKey,
		LeafVersion:    txscript.BaseLeafVersion,
		InclusionProof: vHash("inclusionproof", 32, leafScript, root),
	}
}

func vmControlBlockToBytes(c *txscript.ControlBlock) ([]byte, error) {
	return append([]byte{byte(c.LeafVersion)}, vHash("ctrlblock", 64, vmKeyID(c.InternalKey), c.InclusionProof)...), nil
}

func vmTapConfig() {
	vmConfig()
	const in = "github.com/lightningnetwork/lnd/input."
	const me = "github.com/lightningnetwork/lnd/lnwallet."
	for _, f := range []string{
		"SenderHTLCScriptTaproot", "ReceiverHTLCScriptTaproot", "TaprootSecondLevelScriptTree",
		"PayToTaprootScript", "MakeTaprootCtrlBlock",
	} {
		vReplace(in+f, me+"vm"+f)
	}
	vReplace("(*github.com/btcsuite/btcd/txscript/v2.ControlBlock).ToBytes", me+"vmControlBlockToBytes")
	vAssumption("ideal taproot script-tree model: input.SenderHTLCScriptTaproot, ReceiverHTLCScriptTaproot, TaprootSecondLevelScriptTree build trees whose leaf scripts are the injective ideal function of (template, keys, hash, numbers, production-script option), root = ideal function of the leaves, output key = ideal function of (internal key, root); PayToTaprootScript = OP_1 <output key identity>; MakeTaprootCtrlBlock / ControlBlock.ToBytes = ideal functions of (leaf, root, internal key); aux leaves outside (native replay: real tapscript trees on real secp256k1 keys)")
}

// the peer's HTLC signature on a taproot channel: a 64-byte schnorr signature
// (r = 1, s = 1); the real schnorr parser runs.
var c05PeerSchnorrSig = func() []byte {
	b := make([]byte, 64)
	b[31], b[63] = 1, 1
	return b
}()

var c05OurSchnorrSig = func() []byte {
	b := make([]byte, 64)
	b[31], b[63] = 7, 9
	return b
}()

type c05TapSigner struct {
	input.Signer
	n    int
	tx   *wire.MsgTx
	desc input.SignDescriptor
}

func (s *c05TapSigner) SignOutputRaw(tx *wire.MsgTx, d *input.SignDescriptor) (input.Signature, error) {
	s.n++
	s.tx, s.desc = tx, *d
	return &c05Sig{b: c05OurSchnorrSig}, nil
}

const c05TapBase = uint64(1<<1) | c05AnchorBit | c05ZeroFeeBit | c05TaprootBit

var c05TapTypes = []uint64{c05TapBase, c05TapBase | c05FinalBit}

func VerifC05ResolutionTaproot() {
	vmTapConfig()

	ctRaw := c05TapTypes[vChoice("chanType", len(c05TapTypes))]
	ct := channeldb.ChannelType(ctRaw)
	final := ctRaw&c05FinalBit != 0
	ourCommit := vChoice("whoseCommit", 2) == 0
	incoming := vChoice("incoming", 2) == 1
	outIdx := vChoice("outputIndex", 3)
	whose := lntypes.Remote
	if ourCommit {
		whose = lntypes.Local
	}
	fromInitiator := vBool("isCommitFromInitiator")
	// what BOLT-3-taproot prescribes for this channel: production scripts
	// everywhere on a final channel, staging scripts everywhere otherwise
	var opts []input.TaprootScriptOpt
	if final {
		opts = append(opts, input.WithProdScripts())
	}

	key := func(n string) keychain.KeyDescriptor { return keychain.KeyDescriptor{PubKey: vmKey(n)} }
	dustLocal, dustRemote := int64(vU32("localDustLimit")), int64(vU32("remoteDustLimit"))
	vAssume(dustLocal >= 354 && dustRemote >= 354) // BOLT-2 minimum dust limit
	localCfg := &channeldb.ChannelConfig{
		CommitmentParams: chanstate.CommitmentParams{DustLimit: btcutil.Amount(dustLocal), CsvDelay: vU16("localCsvDelay")},
		HtlcBasePoint:    key("localHtlcBase"),
		DelayBasePoint:   key("localDelayBase"),
	}
	remoteCfg := &channeldb.ChannelConfig{
		CommitmentParams: chanstate.CommitmentParams{DustLimit: btcutil.Amount(dustRemote), CsvDelay: vU16("remoteCsvDelay")},
		HtlcBasePoint:    key("remoteHtlcBase"),
		DelayBasePoint:   key("remoteDelayBase"),
	}
	keyRing := &CommitmentKeyRing{
		CommitPoint:       vmKey("commitPoint"),
		LocalHtlcKeyTweak: vBytes("localHtlcKeyTweak", 32),
		LocalHtlcKey:      vmKey("localHtlcKey"),
		RemoteHtlcKey:     vmKey("remoteHtlcKey"),
		ToLocalKey:        vmKey("toLocalKey"),
		ToRemoteKey:       vmKey("toRemoteKey"),
		RevocationKey:     vmKey("revocationKey"),
	}
	cs := &chanstate.OpenChannel{ChanType: ct, IsInitiator: fromInitiator == ourCommit}

	feeRaw := vU64("feePerKw")
	vAssume(feeRaw <= 0xffffffff) // feerate_per_kw is a u32
	feePerKw := chainfee.SatPerKWeight(feeRaw)
	leaseExpiry := vU32("leaseExpiry")
	commitHeight := vU32("commitTxHeight")

	sub := vU16("htlcSubSat")
	vAssume(sub < 1000)
	amtMsat := uint64(vU32("htlcSat"))*1000 + uint64(sub)
	h := channeldb.HTLC{
		Amt:           lnwire.MilliSatoshi(amtMsat),
		RefundTimeout: vU32("cltvExpiry"),
		OutputIndex:   int32(outIdx),
		Incoming:      incoming,
		HtlcIndex:     vU64("htlcIndex"),
		Signature:     c05PeerSchnorrSig,
	}
	copy(h.RHash[:], vBytes("paymentHash", 32))

	// the HTLC output on this commitment (BOLT-3-taproot), from the key ring
	var wantTree *input.HtlcScriptTree
	switch {
	case ourCommit && !incoming: // we offered
		wantTree, _ = input.SenderHTLCScriptTaproot(keyRing.LocalHtlcKey, keyRing.RemoteHtlcKey, keyRing.RevocationKey, h.RHash[:], whose, input.NoneTapLeaf(), opts...)
	case ourCommit && incoming: // we received
		wantTree, _ = input.ReceiverHTLCScriptTaproot(h.RefundTimeout, keyRing.RemoteHtlcKey, keyRing.LocalHtlcKey, keyRing.RevocationKey, h.RHash[:], whose, input.NoneTapLeaf(), opts...)
	case !ourCommit && incoming: // they offered
		wantTree, _ = input.SenderHTLCScriptTaproot(keyRing.RemoteHtlcKey, keyRing.LocalHtlcKey, keyRing.RevocationKey, h.RHash[:], whose, input.NoneTapLeaf(), opts...)
	default: // they received
		wantTree, _ = input.ReceiverHTLCScriptTaproot(h.RefundTimeout, keyRing.LocalHtlcKey, keyRing.RemoteHtlcKey, keyRing.RevocationKey, h.RHash[:], whose, input.NoneTapLeaf(), opts...)
	}
	// the path WE take: success (preimage) for HTLCs we receive, timeout for
	// HTLCs we offered
	path := input.ScriptPathTimeout
	if incoming {
		path = input.ScriptPathSuccess
	}
	wantPk := wantTree.PkScript()
	wantLeaf, _ := wantTree.WitnessScriptForPath(path)
	wantCtrlBlk, _ := wantTree.CtrlBlockForPath(path)
	wantCtrl, _ := wantCtrlBlk.ToBytes()
	amtSat := int64(amtMsat / 1000)

	commitTx := wire.NewMsgTx(2)
	var fund wire.OutPoint
	copy(fund.Hash[:], vBytes("fundingTxid", 32))
	commitTx.AddTxIn(&wire.TxIn{PreviousOutPoint: fund, Sequence: vU32("commitSequence")})
	commitTx.LockTime = vU32("commitLockTime")
	for j := 0; j < 3; j++ {
		if j == outIdx {
			commitTx.AddTxOut(&wire.TxOut{Value: amtSat, PkScript: wantPk})
			continue
		}
		pk := append([]byte{txscript.OP_1, txscript.OP_DATA_32}, vBytes("otherScript"+string(rune('0'+j)), 32)...)
		commitTx.AddTxOut(&wire.TxOut{Value: int64(vU32("otherValue" + string(rune('0'+j)))), PkScript: pk})
	}
	commitTxid := commitTx.TxHash()

	signer := &c05TapSigner{}
	res, err := extractHtlcResolutions(
		feePerKw, whose, signer, []channeldb.HTLC{h}, keyRing, localCfg, remoteCfg,
		commitTx, commitHeight, ct, fromInitiator, leaseExpiry, cs,
		fn.None[CommitAuxLeaves](), fn.None[AuxContractResolver](),
	)
	vAssert(err == nil && res != nil, "resolutions are extracted")
	if err != nil || res == nil {
		return
	}

	// ---- oracle ----
	ownerDust, ownerCsv := uint64(dustRemote), uint32(remoteCfg.CsvDelay)
	if ourCommit {
		ownerDust, ownerCsv = uint64(dustLocal), uint32(localCfg.CsvDelay)
	}
	// taproot channels are zero-fee-htlc-tx: the trim threshold is the dust limit
	if uint64(amtSat) < ownerDust {
		vAssert(len(res.IncomingHTLCs) == 0 && len(res.OutgoingHTLCs) == 0, "a dust HTLC has no output and gets no resolution")
		vReach("dust")
		return
	}
	if incoming {
		vAssert(len(res.IncomingHTLCs) == 1 && len(res.OutgoingHTLCs) == 0, "a received HTLC gets exactly one incoming (success) resolution")
	} else {
		vAssert(len(res.IncomingHTLCs) == 0 && len(res.OutgoingHTLCs) == 1, "an offered HTLC gets exactly one outgoing (timeout) resolution")
	}
	if (incoming && len(res.IncomingHTLCs) != 1) || (!incoming && len(res.OutgoingHTLCs) != 1) {
		return
	}
	var (
		tx       *wire.MsgTx
		details  *input.SignDetails
		csv      uint32
		claim    wire.OutPoint
		sweep    input.SignDescriptor
		expiryOK = true
	)
	if incoming {
		r := &res.IncomingHTLCs[0]
		tx, details, csv, claim, sweep = r.SignedSuccessTx, r.SignDetails, r.CsvDelay, r.ClaimOutpoint, r.SweepSignDesc
	} else {
		r := &res.OutgoingHTLCs[0]
		tx, details, csv, claim, sweep = r.SignedTimeoutTx, r.SignDetails, r.CsvDelay, r.ClaimOutpoint, r.SweepSignDesc
		expiryOK = r.Expiry == h.RefundTimeout
	}
	vAssert(expiryOK, "outgoing resolution: expiry = cltv_expiry of the HTLC")
	htlcOut := commitTx.TxOut[outIdx]

	if !ourCommit {
		// ---- their commitment: direct script-path spend ----
		vAssert(tx == nil && details == nil, "their commitment: no second-level transaction")
		vAssert(claim.Hash == commitTxid && claim.Index == uint32(outIdx), "their commitment: claim outpoint = (commitment txid, HTLC output index)")
		vAssert(csv == 1, "their commitment: CSV 1 (taproot channels have anchors)")
		vAssert(c05SameOut(sweep.Output, htlcOut) && bytes.Equal(sweep.WitnessScript, wantLeaf),
			"their commitment: sign descriptor output = the HTLC output (same staging/production variant), leaf script of our path")
		vAssert(sweep.SignMethod == input.TaprootScriptSpendSignMethod && bytes.Equal(sweep.ControlBlock, wantCtrl),
			"their commitment: script-path spend with the control block of that leaf in that tree")
		vAssert(vmKeyEq(sweep.KeyDesc.PubKey, localCfg.HtlcBasePoint.PubKey) && bytes.Equal(sweep.SingleTweak, keyRing.LocalHtlcKeyTweak) &&
			sweep.DoubleTweak == nil && sweep.HashType == txscript.SigHashDefault,
			"their commitment: signed with our HTLC base point + per-commitment tweak, SIGHASH_DEFAULT")
		vAssert(signer.n == 0, "their commitment: nothing is signed at resolution time")
		if incoming {
			vReach("remote-incoming")
		} else {
			vReach("remote-outgoing")
		}
		if final {
			vReach("final")
		} else {
			vReach("staging")
		}
		return
	}

	// ---- our commitment: second-level transaction ----
	vAssert(tx != nil, "our commitment: a second-level transaction is built")
	if tx == nil {
		return
	}
	wantLock := uint32(0)
	if !incoming {
		wantLock = h.RefundTimeout
	}
	vAssert(tx.Version == 2 && tx.LockTime == wantLock && len(tx.TxIn) == 1 && len(tx.TxOut) == 1,
		"second level: version 2, locktime = cltv_expiry (timeout) / 0 (success), one input, one output")
	if len(tx.TxIn) != 1 || len(tx.TxOut) != 1 {
		return
	}
	in, out := tx.TxIn[0], tx.TxOut[0]
	vAssert(in.PreviousOutPoint.Hash == commitTxid && in.PreviousOutPoint.Index == uint32(outIdx) && in.Sequence == 1,
		"second level: spends (commitment txid, HTLC output index) with sequence 1")
	wantSecond, _ := input.TaprootSecondLevelScriptTree(keyRing.RevocationKey, keyRing.ToLocalKey, ownerCsv, input.NoneTapLeaf(), opts...)
	wantSecondPk := wantSecond.PkScript()
	wantSecondLeaf, _ := wantSecond.WitnessScriptForPath(input.ScriptPathSuccess)
	wantSecondCtrlBlk, _ := wantSecond.CtrlBlockForPath(input.ScriptPathSuccess)
	wantSecondCtrl, _ := wantSecondCtrlBlk.ToBytes()
	vAssert(out.Value == amtSat, "second level: output value = HTLC whole satoshis (zero-fee HTLC transactions)")
	vAssert(bytes.Equal(out.PkScript, wantSecondPk),
		"second level: output script = taproot second-level tree(revocation key, our delayed key, our to_self_delay) of the channel's variant (production iff final)")

	peerHash := byte(txscript.SigHashSingle | txscript.SigHashAnyOneCanPay)
	w := in.Witness
	peerElem := append(append([]byte{}, c05PeerSchnorrSig...), peerHash)
	if incoming {
		vAssert(len(w) == 5, "second level (success): five witness elements")
		if len(w) == 5 {
			vAssert(bytes.Equal(w[0], peerElem) && bytes.Equal(w[1], c05OurSchnorrSig) && len(w[2]) == 0 &&
				bytes.Equal(w[3], wantLeaf) && bytes.Equal(w[4], wantCtrl),
				"second level (success): witness = <peer sig|SINGLE+ANYONECANPAY> <our sig> <preimage placeholder> <success leaf> <control block>")
		}
	} else {
		vAssert(len(w) == 4, "second level (timeout): four witness elements")
		if len(w) == 4 {
			vAssert(bytes.Equal(w[0], peerElem) && bytes.Equal(w[1], c05OurSchnorrSig) &&
				bytes.Equal(w[2], wantLeaf) && bytes.Equal(w[3], wantCtrl),
				"second level (timeout): witness = <peer sig|SINGLE+ANYONECANPAY> <our sig> <timeout leaf> <control block>")
		}
	}
	vAssert(signer.n == 1 && signer.tx == tx && signer.desc.InputIndex == 0 &&
		c05SameOut(signer.desc.Output, htlcOut) && bytes.Equal(signer.desc.WitnessScript, wantLeaf) &&
		signer.desc.SignMethod == input.TaprootScriptSpendSignMethod &&
		vmKeyEq(signer.desc.KeyDesc.PubKey, localCfg.HtlcBasePoint.PubKey) &&
		bytes.Equal(signer.desc.SingleTweak, keyRing.LocalHtlcKeyTweak) && signer.desc.HashType == txscript.SigHashDefault,
		"second level: our signature is requested once, over this tx, input 0, the HTLC output and our leaf, script-path, HTLC base point + tweak")
	vAssert(details != nil && byte(details.SigHashType) == peerHash && details.PeerSig != nil &&
		bytes.Equal(details.PeerSig.Serialize(), c05PeerSchnorrSig) && c05SameOut(details.SignDesc.Output, htlcOut) &&
		bytes.Equal(details.SignDesc.ControlBlock, wantCtrl),
		"sign details kept for re-signing (peer sig, SINGLE|ANYONECANPAY, the HTLC output, control block)")

	// the output of the second-level tx is what is swept after the delay
	vAssert(claim.Hash == tx.TxHash() && claim.Index == 0, "claim outpoint = (second-level txid, 0)")
	vAssert(csv == ownerCsv, "CSV delay = our to_self_delay (the commitment owner's)")
	vAssert(sweep.Output != nil && bytes.Equal(sweep.Output.PkScript, out.PkScript),
		"sweep descriptor pays-from script = the script the second-level transaction pays to (same staging/production variant on both sides)")
	vAssert(c05SameOut(sweep.Output, out) && bytes.Equal(sweep.WitnessScript, wantSecondLeaf),
		"sweep descriptor output = the second-level output (script and amount); leaf script of the channel's variant")
	vAssert(sweep.SignMethod == input.TaprootScriptSpendSignMethod && bytes.Equal(sweep.ControlBlock, wantSecondCtrl),
		"sweep descriptor: script-path spend with the control block of the second-level leaf in that tree")
	vAssert(vmKeyEq(sweep.KeyDesc.PubKey, localCfg.DelayBasePoint.PubKey) &&
		bytes.Equal(sweep.SingleTweak, input.SingleTweakBytes(keyRing.CommitPoint, localCfg.DelayBasePoint.PubKey)) &&
		sweep.DoubleTweak == nil && sweep.HashType == txscript.SigHashDefault,
		"sweep descriptor: our delay base point + per-commitment tweak, SIGHASH_DEFAULT")
	if incoming {
		vReach("local-incoming")
	} else {
		vReach("local-outgoing")
	}
	if final {
		vReach("final")
	} else {
		vReach("staging")
	}
}
