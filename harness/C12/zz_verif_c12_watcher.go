package contractcourt

// Harness for C12, third part: the chain watcher that BUILDS the CommitSet the
// arbitrator decides on (zz_verif_c12.go / zz_verif_c12_flow.go take the
// CommitSet as given).
//
// Unit (real lnd code, executed as-is): (*chainWatcher).handleCommitSpend,
// newChainSet, handleKnownLocalState, handleKnownRemoteState,
// dispatchLocalForceClose, dispatchRemoteForceClose, SubscribeChannelEvents
// (chain_watcher.go), and, composed with it (entries *Flow), the arbitrator's
// (*ChannelArbitrator).handleLocalForceCloseEvent / handleRemoteForceCloseEvent
// -> advanceState -> stateStep(StateDefault, StateContractClosed) ->
// constructChainActions / abandonForwards / failIncomingDust /
// prepContractResolutions on the event the watcher delivered.
//
// Input: the channel state "on disk" (our commitment, the peer's current
// commitment, optionally the peer's pending commitment, each with a symbolic
// HTLC set, symbolic commit heights) and a spend of the funding outpoint whose
// transaction id is symbolic (it may be the id of any of the three commitment
// transactions).
//
// Fakes behind interfaces / config hooks lnd already has (the same fakes run in
// native replay): chanstate.Store (LatestCommitments, RemoteCommitChainTip,
// RemoteRevocationStore: they refresh the in-memory OpenChannel from the fake
// disk state like channeldb does), shachain.Producer (records the requested
// index), chainWatcherConfig.auxLeafStore (records WHICH commitment and commit
// point the close-summary builder was called with), chainWatcherConfig.signer
// (native only), chainWatcherConfig.extractStateNumHint, plus the arbitrator
// fakes of zz_verif_c12_flow.go.
//
// Symbolic run only (vReplace; native replay runs the real functions on a
// channel with real secp256k1 keys): lnwallet.NewUnilateralCloseSummary and
// lnwallet.NewLocalForceCloseSummary are cut to "ask the aux leaf store like
// the real one does, then one HTLC resolution per HTLC output of the given
// commitment, keyed by (commit txid, OutputIndex)"; (*OpenChannel).ChanSyncMsg
// (feeds LastChanSyncMsg only); (*wire.MsgTx).TxHash is an ideal hash of the
// lock time (the harness transactions differ in nothing else).

import (
	"errors"
	"io"

	"github.com/btcsuite/btcd/btcec/v2"
	"github.com/btcsuite/btcd/chainhash/v2"
	"github.com/btcsuite/btcd/wire/v2"
	"github.com/lightningnetwork/lnd/chainntnfs"
	"github.com/lightningnetwork/lnd/channeldb"
	"github.com/lightningnetwork/lnd/chanstate"
	"github.com/lightningnetwork/lnd/fn/v2"
	"github.com/lightningnetwork/lnd/input"
	"github.com/lightningnetwork/lnd/keychain"
	"github.com/lightningnetwork/lnd/lntypes"
	"github.com/lightningnetwork/lnd/lnwallet"
	"github.com/lightningnetwork/lnd/lnwire"
	"github.com/lightningnetwork/lnd/shachain"
	"github.com/lightningnetwork/lnd/tlv"
)

// ---------------------------------------------------------------- fakes ----

// c12wStore: the channel state as it is on disk. Like channeldb's
// implementation, LatestCommitments and RemoteRevocationStore refresh the
// in-memory OpenChannel that is passed in.
type c12wStore struct {
	chanstate.Store

	local, remote chanstate.ChannelCommitment
	tip           *chanstate.CommitDiff // nil: no pending remote commitment
	curRev        *btcec.PublicKey
	nextRev       *btcec.PublicKey
}

func (s *c12wStore) LatestCommitments(ch *chanstate.OpenChannel) (
	*chanstate.ChannelCommitment, *chanstate.ChannelCommitment, error) {

	ch.LocalCommitment = s.local
	ch.RemoteCommitment = s.remote

	return &ch.LocalCommitment, &ch.RemoteCommitment, nil
}

func (s *c12wStore) RemoteCommitChainTip(*chanstate.OpenChannel) (
	*chanstate.CommitDiff, error) {

	if s.tip == nil {
		return nil, chanstate.ErrNoPendingCommit
	}

	return s.tip, nil
}

func (s *c12wStore) RemoteRevocationStore(ch *chanstate.OpenChannel) (
	shachain.Store, error) {

	ch.RemoteCurrentRevocation = s.curRev
	ch.RemoteNextRevocation = s.nextRev

	return ch.RevocationStore, nil
}

// FindPreviousState is what the watcher consults (through
// lnwallet.NewBreachRetribution) once a spend is neither our commitment nor
// one of the peer's two valid ones. The entries assume the spend IS one of the
// three, so getting here means a known commitment was not recognised.
func (s *c12wStore) FindPreviousState(*chanstate.OpenChannel, uint64) (
	*chanstate.RevocationLog, *chanstate.ChannelCommitment, error) {

	panic("c12w: the spend of a known commitment was not recognised " +
		"(the watcher goes on to look for a revoked state)")
}

// c12wProducer: our revocation producer; records the requested indexes.
type c12wProducer struct{ idx []uint64 }

func (p *c12wProducer) AtIndex(i uint64) (*chainhash.Hash, error) {
	p.idx = append(p.idx, i)
	h := chainhash.Hash{1}

	return &h, nil
}

func (p *c12wProducer) Encode(io.Writer) error { return nil }

// c12wLeafStore: chainWatcherConfig.auxLeafStore. The close-summary builders
// of lnwallet call FetchLeavesFromCommit exactly once with the commitment they
// were given and the key ring derived from the commit point they were given.
type c12wLeafCall struct {
	height uint64
	htlcs  []channeldb.HTLC
	point  *btcec.PublicKey
	whose  lntypes.ChannelParty
}

type c12wLeafStore struct{ calls []c12wLeafCall }

func (s *c12wLeafStore) FetchLeavesFromView(
	lnwallet.CommitDiffAuxInput) fn.Result[lnwallet.CommitDiffAuxResult] {

	return fn.Ok(lnwallet.CommitDiffAuxResult{})
}

func (s *c12wLeafStore) FetchLeavesFromCommit(_ lnwallet.AuxChanState,
	commit channeldb.ChannelCommitment, keyRing lnwallet.CommitmentKeyRing,
	whose lntypes.ChannelParty) fn.Result[lnwallet.CommitDiffAuxResult] {

	s.calls = append(s.calls, c12wLeafCall{
		height: commit.CommitHeight, htlcs: commit.Htlcs,
		point: keyRing.CommitPoint, whose: whose,
	})

	return fn.Ok(lnwallet.CommitDiffAuxResult{})
}

func (s *c12wLeafStore) FetchLeavesFromRevocation(
	*channeldb.RevocationLog) fn.Result[lnwallet.CommitDiffAuxResult] {

	return fn.Ok(lnwallet.CommitDiffAuxResult{})
}

func (s *c12wLeafStore) ApplyHtlcView(
	lnwallet.CommitDiffAuxInput) fn.Result[fn.Option[tlv.Blob]] {

	return fn.Ok(fn.None[tlv.Blob]())
}

// c12wSigner: chainWatcherConfig.signer; only the native run of
// NewLocalForceCloseSummary signs (second-level HTLC transactions).
type c12wSigner struct{ input.Signer }

// c12wSig: a minimal DER signature (r = s = 1).
var c12wSig = []byte{0x30, 0x06, 0x02, 0x01, 0x01, 0x02, 0x01, 0x01}

func (c12wSigner) SignOutputRaw(*wire.MsgTx,
	*input.SignDescriptor) (input.Signature, error) {

	return input.ParseSignature(c12wSig)
}

// ------------------------------------------------ symbolic-run replacements

// vC12WTxHash replaces (*wire.MsgTx).TxHash symbolically: an ideal hash of the
// lock time. The transactions of this harness differ in nothing else, so two
// of them have the same id exactly when the real TxHash says so.
func vC12WTxHash(tx *wire.MsgTx) chainhash.Hash {
	var h chainhash.Hash
	lt := tx.LockTime
	h[0], h[1], h[2], h[3] = byte(lt), byte(lt>>8), byte(lt>>16), byte(lt>>24)

	return h
}

var errC12WNoSync = errors.New("no chan sync msg in the symbolic run")

func vC12WChanSyncMsg(*chanstate.OpenChannel) (*lnwire.ChannelReestablish,
	error) {

	return nil, errC12WNoSync
}

// c12wResolutions: what lnwallet.extractHtlcResolutions yields for the oracle's
// purposes: one resolution per HTLC of the given commitment that has an output
// (channeldb invariant: OutputIndex < 0 exactly for the HTLCs lnwallet trims
// as dust), located at (commit txid, OutputIndex).
func c12wResolutions(commitTx *wire.MsgTx,
	htlcs []channeldb.HTLC) *lnwallet.HtlcResolutions {

	res := &lnwallet.HtlcResolutions{}
	for _, h := range htlcs {
		if h.OutputIndex < 0 {
			continue
		}
		op := wire.OutPoint{
			Hash: commitTx.TxHash(), Index: uint32(h.OutputIndex),
		}
		if h.Incoming {
			res.IncomingHTLCs = append(
				res.IncomingHTLCs,
				lnwallet.IncomingHtlcResolution{ClaimOutpoint: op},
			)
		} else {
			res.OutgoingHTLCs = append(
				res.OutgoingHTLCs,
				lnwallet.OutgoingHtlcResolution{
					ClaimOutpoint: op,
					Expiry:        h.RefundTimeout,
					SweepSignDesc: input.SignDescriptor{
						Output: &wire.TxOut{},
					},
				},
			)
		}
	}

	return res
}

// vC12WUniClose stands in for lnwallet.NewUnilateralCloseSummary.
func vC12WUniClose(chanState *chanstate.OpenChannel, _ input.Signer,
	commitSpend *chainntnfs.SpendDetail,
	remoteCommit channeldb.ChannelCommitment, commitPoint *btcec.PublicKey,
	leafStore fn.Option[lnwallet.AuxLeafStore],
	_ fn.Option[lnwallet.AuxContractResolver]) (
	*lnwallet.UnilateralCloseSummary, error) {

	leafStore.WhenSome(func(s lnwallet.AuxLeafStore) {
		s.FetchLeavesFromCommit(
			lnwallet.AuxChanState{}, remoteCommit,
			lnwallet.CommitmentKeyRing{CommitPoint: commitPoint},
			lntypes.Remote,
		)
	})

	return &lnwallet.UnilateralCloseSummary{
		SpendDetail: commitSpend,
		ChannelCloseSummary: channeldb.ChannelCloseSummary{
			ChanPoint:   chanState.FundingOutpoint,
			ClosingTXID: *commitSpend.SpenderTxHash,
			CloseHeight: uint32(commitSpend.SpendingHeight),
			CloseType:   channeldb.RemoteForceClose,
			IsPending:   true,
		},
		HtlcResolutions: c12wResolutions(
			commitSpend.SpendingTx, remoteCommit.Htlcs,
		),
		RemoteCommit: remoteCommit,
	}, nil
}

// vC12WLocalClose stands in for lnwallet.NewLocalForceCloseSummary.
func vC12WLocalClose(chanState *chanstate.OpenChannel, _ input.Signer,
	commitTx *wire.MsgTx, _ uint32, stateNum uint64,
	leafStore fn.Option[lnwallet.AuxLeafStore],
	_ fn.Option[lnwallet.AuxContractResolver]) (
	*lnwallet.LocalForceCloseSummary, error) {

	if _, err := chanState.RevocationProducer.AtIndex(stateNum); err != nil {
		return nil, err
	}
	leafStore.WhenSome(func(s lnwallet.AuxLeafStore) {
		s.FetchLeavesFromCommit(
			lnwallet.AuxChanState{}, chanState.LocalCommitment,
			lnwallet.CommitmentKeyRing{}, lntypes.Local,
		)
	})

	return &lnwallet.LocalForceCloseSummary{
		ChanPoint:    chanState.FundingOutpoint,
		CloseTx:      commitTx,
		ChanSnapshot: *chanState.Snapshot(),
		ContractResolutions: fn.Some(lnwallet.ContractResolutions{
			HtlcResolutions: c12wResolutions(
				commitTx, chanState.LocalCommitment.Htlcs,
			),
		}),
	}, nil
}

// ---------------------------------------------------------------- world ----

const (
	c12wNOut = 8 // outputs of every harness transaction

	// lock times = identities of the three commitment transactions
	c12wLockL  = 0x20000001
	c12wLockR  = 0x20000002
	c12wLockRP = 0x20000003
)

var c12wFunding = wire.OutPoint{Hash: chainhash.Hash{7}, Index: 1}

func c12wTx(lockTime uint32) *wire.MsgTx {
	tx := wire.NewMsgTx(2)
	tx.AddTxIn(&wire.TxIn{
		PreviousOutPoint: c12wFunding,
		// not a final sequence: not a cooperative close
		Sequence: 0x80000000,
	})
	for i := 0; i < c12wNOut; i++ {
		tx.AddTxOut(&wire.TxOut{Value: 20000, PkScript: []byte{0x51}})
	}
	tx.LockTime = lockTime

	return tx
}

// c12wKey: native run only (real secp256k1 key no. i).
func c12wKey(i byte) *btcec.PublicKey {
	var b [32]byte
	b[31] = i
	_, pub := btcec.PrivKeyFromBytes(b[:])

	return pub
}

func c12wChanCfg(base byte) channeldb.ChannelConfig {
	var cfg channeldb.ChannelConfig
	cfg.DustLimit = 1000
	cfg.CsvDelay = 144
	if vNative() {
		cfg.MultiSigKey = keychain.KeyDescriptor{PubKey: c12wKey(base)}
		cfg.RevocationBasePoint = keychain.KeyDescriptor{
			PubKey: c12wKey(base + 1),
		}
		cfg.PaymentBasePoint = keychain.KeyDescriptor{
			PubKey: c12wKey(base + 2),
		}
		cfg.DelayBasePoint = keychain.KeyDescriptor{
			PubKey: c12wKey(base + 3),
		}
		cfg.HtlcBasePoint = keychain.KeyDescriptor{
			PubKey: c12wKey(base + 4),
		}
	}

	return cfg
}

type c12wWorld struct {
	w       *c12World
	heights [3]uint64 // commit heights of L, R, RP
	spendLT uint32
	store   *c12wStore
	prod    *c12wProducer
	leaves  *c12wLeafStore
	ch      *chanstate.OpenChannel
	cw      *chainWatcher
	spend   *chainntnfs.SpendDetail
}

func c12wConfig() {
	c12Config()
	ln := "github.com/lightningnetwork/lnd/lnwallet."
	me := "github.com/lightningnetwork/lnd/contractcourt."
	vReplace(ln+"NewUnilateralCloseSummary", me+"vC12WUniClose")
	vReplace(ln+"NewLocalForceCloseSummary", me+"vC12WLocalClose")
	vReplace("(*github.com/lightningnetwork/lnd/chanstate.OpenChannel).ChanSyncMsg", me+"vC12WChanSyncMsg")
	vReplace("(*github.com/btcsuite/btcd/wire/v2.MsgTx).TxHash", me+"vC12WTxHash")
	vAssumption("watcher: an HTLC has OutputIndex < 0 exactly when lnwallet trims it as dust on that commitment (amount below the dust limit), output indexes are below the number of outputs of the commitment transaction and pairwise distinct per commitment; the three commitment transactions have pairwise distinct ids; the pending remote commitment has height remote+1; the state hint of a commitment transaction is its commit height")
	vAssumption("watcher, symbolic run only: lnwallet.NewUnilateralCloseSummary / NewLocalForceCloseSummary cut to one HTLC resolution per HTLC output of the commitment they are given (native replay runs the real ones on a tweakless channel with real keys); TxHash = ideal hash of the lock time; ChanSyncMsg cut")
}

// c12wNewWorld: the world of zz_verif_c12.go plus the channel, its fake disk
// state and the chain watcher.
func c12wNewWorld(f c12Family) *c12wWorld {
	w := c12NewWorld(f)
	x := &c12wWorld{w: w}

	// Domain: lnwallet decides "has an output" by amount, channeldb records
	// it as OutputIndex >= 0: tie the two (branch-free), bound the output
	// index by the number of outputs; HTLC signatures parse.
	for c := 0; c < 3; c++ {
		var with []*c12Slot
		for d := 0; d < 2; d++ {
			for i := range w.slots[c][d] {
				s := &w.slots[c][d][i]
				if !s.on {
					continue
				}
				neg := uint64(int64(s.h.OutputIndex >> 31)) // all ones if dust
				s.h.Amt = lnwire.MilliSatoshi(10_000_000 &^ neg)
				s.h.Signature = c12wSig
				w.dom = w.dom && s.h.OutputIndex < c12wNOut
				with = append(with, s)
			}
		}
		for i := range with {
			for j := i + 1; j < len(with); j++ {
				a, b := with[i], with[j]
				w.dom = w.dom && (a.h.OutputIndex != b.h.OutputIndex ||
					a.h.OutputIndex < 0 || b.h.OutputIndex < 0)
			}
		}
	}

	// Commit heights (48-bit state numbers); the pending remote commitment
	// is the successor of the current one.
	x.heights[c12L] = vU64("L.height")
	x.heights[c12R] = vU64("R.height")
	x.heights[c12RP] = x.heights[c12R] + 1
	w.dom = w.dom && x.heights[c12L] < 1<<48 && x.heights[c12R] < 1<<48-1

	// The spend: a transaction with a symbolic id, confirmed at w.height.
	x.spendLT = vU32("spend.txid")
	w.dom = w.dom && w.height < 1<<31

	x.store = &c12wStore{
		local: chanstate.ChannelCommitment{
			CommitHeight: x.heights[c12L], Htlcs: w.htlcs(c12L),
			CommitTx: c12wTx(c12wLockL),
		},
		remote: chanstate.ChannelCommitment{
			CommitHeight: x.heights[c12R], Htlcs: w.htlcs(c12R),
			CommitTx: c12wTx(c12wLockR),
		},
	}
	if w.rpExists {
		x.store.tip = &chanstate.CommitDiff{
			Commitment: chanstate.ChannelCommitment{
				CommitHeight: x.heights[c12RP],
				Htlcs:        w.htlcs(c12RP),
				CommitTx:     c12wTx(c12wLockRP),
			},
		}
	}
	x.prod = &c12wProducer{}
	x.leaves = &c12wLeafStore{}

	// The in-memory channel is the snapshot the watcher was created with:
	// stale commitments and revocation points; the store refreshes them.
	x.ch = &chanstate.OpenChannel{
		ChanType:           channeldb.SingleFunderTweaklessBit,
		FundingOutpoint:    c12wFunding,
		IsInitiator:        true,
		LocalChanCfg:       c12wChanCfg(10),
		RemoteChanCfg:      c12wChanCfg(20),
		RevocationProducer: x.prod,
		Db:                 x.store,
	}
	if vNative() {
		x.ch.IdentityPub = c12wKey(1)
		x.store.curRev = c12wKey(2)
		x.store.nextRev = c12wKey(3)
		x.ch.RemoteCurrentRevocation = c12wKey(4) // stale
		x.ch.RemoteNextRevocation = c12wKey(2)    // stale
		x.ch.RevocationStore = shachain.NewRevocationStore()
	} else {
		x.ch.IdentityPub = new(btcec.PublicKey)
		x.store.curRev = new(btcec.PublicKey)
		x.store.nextRev = new(btcec.PublicKey)
		x.ch.RemoteCurrentRevocation = new(btcec.PublicKey)
		x.ch.RemoteNextRevocation = new(btcec.PublicKey)
	}

	x.cw = &chainWatcher{
		cfg: chainWatcherConfig{
			chanState: x.ch,
			signer:    c12wSigner{},
			// the state hint of a commitment transaction is its
			// commit height
			extractStateNumHint: func(tx *wire.MsgTx,
				_ [lnwallet.StateHintSize]byte) uint64 {

				switch tx.LockTime {
				case c12wLockL:
					return x.heights[c12L]
				case c12wLockR:
					return x.heights[c12R]
				default:
					return x.heights[c12RP]
				}
			},
			auxLeafStore: fn.Some[lnwallet.AuxLeafStore](x.leaves),
		},
		quit:                make(chan struct{}),
		clientSubscriptions: make(map[uint64]*ChainEventSubscription),
	}

	tx := c12wTx(x.spendLT)
	txid := tx.TxHash()
	x.spend = &chainntnfs.SpendDetail{
		SpentOutPoint:  &c12wFunding,
		SpenderTxHash:  &txid,
		SpendingTx:     tx,
		SpendingHeight: int32(w.height),
	}

	return x
}

// c12wConfirmed: which commitment's transaction is the spend (decided by the
// harness from the transaction ids alone); the spend is assumed to be one of
// the known commitments (breach / cooperative / unknown spends: outside).
func (x *c12wWorld) confirmed() int {
	switch {
	case x.spendLT == c12wLockL:
		return c12L
	case x.spendLT == c12wLockR:
		return c12R
	case x.spendLT == c12wLockRP && x.w.rpExists:
		return c12RP
	}
	vAssume(false)

	return -1
}

// c12wSameHTLCs: the two lists hold the same HTLCs (any order).
func c12wSameHTLCs(a, b []channeldb.HTLC) bool {
	if len(a) != len(b) {
		return false
	}
	ok := true
	for i := range a {
		n := 0
		for j := range b {
			if a[i].HtlcIndex == b[j].HtlcIndex &&
				a[i].Incoming == b[j].Incoming &&
				a[i].OutputIndex == b[j].OutputIndex &&
				a[i].RefundTimeout == b[j].RefundTimeout &&
				a[i].RHash[0] == b[j].RHash[0] &&
				a[i].Amt == b[j].Amt {

				n++
			}
		}
		ok = ok && n == 1
	}

	return ok
}

// c12wResolutionsFor: res holds exactly one resolution per HTLC output of the
// commitment, located at (txid, OutputIndex), in the list of its direction.
func c12wResolutionsFor(res *lnwallet.HtlcResolutions, txid chainhash.Hash,
	htlcs []channeldb.HTLC) bool {

	if res == nil {
		return false
	}
	ok := true
	nOut, nIn := 0, 0
	for i := range htlcs {
		h := &htlcs[i]
		if h.OutputIndex < 0 {
			continue
		}
		op := wire.OutPoint{Hash: txid, Index: uint32(h.OutputIndex)}
		n := 0
		if h.Incoming {
			nIn++
			for j := range res.IncomingHTLCs {
				if res.IncomingHTLCs[j].HtlcPoint() == op {
					n++
				}
			}
		} else {
			nOut++
			for j := range res.OutgoingHTLCs {
				if res.OutgoingHTLCs[j].HtlcPoint() == op &&
					res.OutgoingHTLCs[j].Expiry == h.RefundTimeout {

					n++
				}
			}
		}
		ok = ok && n == 1
	}

	return ok && len(res.OutgoingHTLCs) == nOut && len(res.IncomingHTLCs) == nIn
}

const (
	c12wMsgKind  = "watcher: the spend of a known commitment is dispatched without error as exactly one close event of the right kind (local / remote unilateral closure) carrying the spend"
	c12wMsgKey   = "watcher: CommitSet.ConfCommitKey names the commitment whose transaction confirmed"
	c12wMsgSets  = "watcher: CommitSet.HtlcSets holds under each key exactly the HTLCs of that commitment (remote-pending only if a pending remote commitment exists)"
	c12wMsgBuilt = "watcher: the close summary is built from the confirmed commitment (its height, its HTLCs) and carries one HTLC resolution per HTLC output of it"
	c12wMsgPoint = "watcher: a remote close summary is built with the commitment point of the confirmed commitment (RemoteCurrentRevocation for the current, RemoteNextRevocation for the pending one, as stored on disk)"
	c12wMsgLocal = "watcher: a local close summary is built for the spending transaction and the state number of our commitment"
)

// c12wDispatch runs the real watcher on the spend and, with stage1, checks the
// event it delivers against the stage-1 oracle. It returns the event. Without
// stage1 (composed entries) only the kind of the event is asserted, so that
// the end-to-end statement is judged on its own (an assertion, once checked,
// is assumed on the rest of the path).
func c12wDispatch(x *c12wWorld, k int, stage1 bool) (*LocalUnilateralCloseInfo,
	*RemoteUnilateralCloseInfo, bool) {

	w := x.w
	sub := x.cw.SubscribeChannelEvents()

	err := x.cw.handleCommitSpend(x.spend)

	var (
		evL    *LocalUnilateralCloseInfo
		evR    *RemoteUnilateralCloseInfo
		nOther int
	)
	select {
	case evL = <-sub.LocalUnilateralClosure:
	default:
	}
	select {
	case evR = <-sub.RemoteUnilateralClosure:
	default:
	}
	select {
	case <-sub.CooperativeClosure:
		nOther++
	default:
	}
	select {
	case <-sub.ContractBreach:
		nOther++
	default:
	}

	okKind := err == nil && nOther == 0
	if k == c12L {
		okKind = okKind && evL != nil && evR == nil
	} else {
		okKind = okKind && evR != nil && evL == nil
	}
	vAssert(okKind, c12wMsgKind)
	if !okKind {
		return nil, nil, false
	}

	nRes := 0
	if k == c12L {
		evL.ContractResolutions.WhenSome(func(r lnwallet.ContractResolutions) {
			if r.HtlcResolutions != nil {
				nRes = len(r.HtlcResolutions.OutgoingHTLCs) +
					len(r.HtlcResolutions.IncomingHTLCs)
			}
		})
	} else if evR.HtlcResolutions != nil {
		nRes = len(evR.HtlcResolutions.OutgoingHTLCs) +
			len(evR.HtlcResolutions.IncomingHTLCs)
	}
	switch k {
	case c12L:
		vReach("watch-local")
	case c12R:
		vReach("watch-remote")
	default:
		vReach("watch-remote-pending")
	}
	if nRes > 0 {
		vReach("watch-resolutions")
	}
	if !stage1 {
		return evL, evR, true
	}

	var cs *CommitSet
	if k == c12L {
		cs = &evL.CommitSet
	} else {
		cs = &evR.CommitSet
	}

	// (1) the key
	vAssert(cs.ConfCommitKey == fn.Some(c12Keys[k]), c12wMsgKey)

	// (2) the sets
	okSets := true
	for c := 0; c < 3; c++ {
		set, has := cs.HtlcSets[c12Keys[c]]
		if c == c12RP && !w.rpExists {
			okSets = okSets && !has
			continue
		}
		okSets = okSets && has && c12wSameHTLCs(set, w.htlcs(c))
	}
	nKeys := 2
	if w.rpExists {
		nKeys = 3
	}
	okSets = okSets && len(cs.HtlcSets) == nKeys
	vAssert(okSets, c12wMsgSets)

	// (3) what the summary was built from
	txid := *x.spend.SpenderTxHash
	okCall := len(x.leaves.calls) == 1
	if okCall {
		call := x.leaves.calls[0]
		okCall = call.height == x.heights[k] &&
			c12wSameHTLCs(call.htlcs, w.htlcs(k))
		if k == c12L {
			okCall = okCall && call.whose == lntypes.Local
		} else {
			okCall = okCall && call.whose == lntypes.Remote
		}
	}
	if k == c12L {
		res := evL.ContractResolutions.UnwrapOr(
			lnwallet.ContractResolutions{},
		)
		okCall = okCall &&
			c12wSameHTLCs(evL.ChanSnapshot.Htlcs, w.htlcs(c12L)) &&
			evL.ChanSnapshot.CommitHeight == x.heights[c12L] &&
			c12wResolutionsFor(res.HtlcResolutions, txid, w.htlcs(c12L))
	} else {
		okCall = okCall &&
			evR.RemoteCommit.CommitHeight == x.heights[k] &&
			c12wSameHTLCs(evR.RemoteCommit.Htlcs, w.htlcs(k)) &&
			c12wResolutionsFor(evR.HtlcResolutions, txid, w.htlcs(k))
	}
	vAssert(okCall, c12wMsgBuilt)

	// (4) commit point / state number
	if k == c12L {
		vAssert(evL.SpendDetail == x.spend &&
			evL.CloseTx == x.spend.SpendingTx &&
			evL.ChannelCloseSummary != nil &&
			evL.ChannelCloseSummary.CloseType == channeldb.LocalForceClose &&
			evL.ChannelCloseSummary.CloseHeight == w.height &&
			evL.ChannelCloseSummary.ClosingTXID == txid &&
			len(x.prod.idx) >= 1 && x.prod.idx[0] == x.heights[c12L],
			c12wMsgLocal)
	} else {
		want := x.store.curRev
		if k == c12RP {
			want = x.store.nextRev
		}
		vAssert(len(x.leaves.calls) == 1 &&
			x.leaves.calls[0].point == want &&
			evR.SpendDetail == x.spend &&
			evR.ChannelCloseSummary.CloseType == channeldb.RemoteForceClose &&
			evR.ChannelCloseSummary.CloseHeight == w.height &&
			evR.ChannelCloseSummary.ClosingTXID == txid,
			c12wMsgPoint)
	}

	return evL, evR, true
}

// c12wDomain: the assumptions of the confirmed-commitment oracle
// (zz_verif_c12.go) for a symbolic confirmed commitment k.
func c12wDomain(x *c12wWorld, k int) {
	w := x.w
	// BOLT-2 update ordering: an offered HTLC of our commitment is on
	// whichever remote commitment confirmed.
	if k != c12L {
		for i := range w.slots[c12L][0] {
			s := &w.slots[c12L][0][i]
			if s.on {
				w.dom = w.dom && w.onCommit(k, 0, s.h.HtlcIndex)
			}
		}
	}
}

// ------------------------------------------------------- (3a) watcher only

func c12wWatcher(f c12Family) {
	c12wConfig()
	x := c12wNewWorld(f)
	k := x.confirmed()
	vAssume(x.w.dom)

	c12wDispatch(x, k, true)
}

// ---------------------------------------- (3b) watcher -> arbitrator, composed

const (
	c12wfOutRes    = "watcher-flow: an offered HTLC with an output on the commitment whose transaction confirmed gets exactly one outgoing resolver and is never failed back upstream"
	c12wfOutDust   = "watcher-flow: an offered HTLC that is dust on the commitment whose transaction confirmed is failed back upstream exactly once and gets no resolver"
	c12wfDangling  = "watcher-flow: an offered HTLC that is only on a non-confirmed commitment is failed back upstream exactly once unless its preimage is known (then not at all) and gets no resolver"
	c12wfInRes     = "watcher-flow: a received HTLC with an output on the commitment whose transaction confirmed gets exactly one incoming resolver"
	c12wfInDust    = "watcher-flow: a received dust HTLC of the confirmed commitment is closed out exactly once without resolver"
	c12wfInOther   = "watcher-flow: a received HTLC that is not on the confirmed commitment gets no resolver"
	c12wfNoExtra   = "watcher-flow: no fail-back, final outcome or resolver for anything else"
	c12wfProcessed = "watcher-flow: the close event is processed up to the launch of the resolvers, the resolutions and the commit set are logged and the channel is marked closed once"
)

func c12wFlow(f c12Family) {
	c12wConfig()
	vNoop("(*github.com/lightningnetwork/lnd/contractcourt.ChannelArbitrator).resolveContract")

	x := c12wNewWorld(f)
	w := x.w
	k := x.confirmed()
	c12wDomain(x, k)
	vAssume(w.dom)

	evL, evR, ok := c12wDispatch(x, k, false)
	if !ok {
		return
	}

	// ---- the arbitrator (fakes as in zz_verif_c12_flow.go), idle in
	// StateDefault with the link's view of the three HTLC sets
	c := w.arb
	fl := &c12Flow{step: 2}
	lg := &c12wLog{c12Log: c12Log{state: StateDefault}}
	nClosed := 0
	c.log = lg
	c.state = StateDefault
	c.cfg.Channel = c12Chan{}
	c.cfg.MarkCommitmentBroadcasted = func(*wire.MsgTx, lntypes.ChannelParty) error {
		return nil
	}
	c.cfg.PublishTx = func(*wire.MsgTx, string) error { return nil }
	c.cfg.MarkChannelClosed = func(*channeldb.ChannelCloseSummary,
		...channeldb.ChannelStatus) error {

		nClosed++
		return nil
	}
	c.cfg.DeliverResolutionMsg = func(msgs ...ResolutionMsg) error {
		for _, m := range msgs {
			fl.fails = append(fl.fails, c12FailMsg{fl.step, m.HtlcIndex})
			if m.Failure == nil || m.PreImage != nil {
				fl.settled = true
			}
		}
		return nil
	}
	c.cfg.PutFinalHtlcOutcome = func(_ lnwire.ShortChannelID, id uint64, settled bool) error {
		if settled {
			fl.settled = true
		}
		fl.finalDust = append(fl.finalDust, id)
		return nil
	}
	c.cfg.HtlcNotifier = c12Notifier{}
	c.cfg.NotifyChannelResolved = func() { fl.resolved++ }
	c.cfg.FetchHistoricalChannel = func() (*chanstate.OpenChannel, error) {
		return nil, channeldb.ErrChannelNotFound
	}
	c.cfg.FindOutgoingHTLCDeadline = func(channeldb.HTLC) fn.Option[int32] {
		return fn.None[int32]()
	}
	c.unmergedSet[LocalHtlcSet] = newHtlcSet(w.htlcs(c12L))
	c.unmergedSet[RemoteHtlcSet] = newHtlcSet(w.htlcs(c12R))
	if w.rpExists {
		c.unmergedSet[RemotePendingHtlcSet] = newHtlcSet(w.htlcs(c12RP))
	}
	c.updateActiveHTLCs()

	// ---- the real handler of the event
	var err error
	if k == c12L {
		err = c.handleLocalForceCloseEvent(evL)
	} else {
		err = c.handleRemoteForceCloseEvent(evR)
	}
	anyHTLC := len(w.htlcs(c12L))+len(w.htlcs(c12R))+len(w.htlcs(c12RP)) > 0
	okProc := err == nil && nClosed == 1 && lg.nSets == 1 && lg.res != nil &&
		c.state == lg.state && !fl.settled
	if anyHTLC {
		okProc = okProc && (c.state == StateWaitingFullResolution ||
			c.state == StateFullyResolved)
	} else {
		okProc = okProc && c.state == StateFullyResolved
	}
	vAssert(okProc, c12wfProcessed)

	// ---- oracle: as zz_verif_c12_flow.go for "no broadcast of ours", with
	// k = the commitment whose transaction the spend is.
	okOutRes, okOutDust, okDangling := true, true, true
	okInRes, okInDust, okInOther, okNoExtra := true, true, true, true
	for cc := 0; cc < 3; cc++ {
		for d := 0; d < 2; d++ {
			for i := range w.slots[cc][d] {
				s := &w.slots[cc][d][i]
				if !s.on {
					continue
				}
				idx := s.h.HtlcIndex
				onKk := w.onCommit(k, d, idx)
				dustK := w.dustOn(k, d, idx)
				known := w.known(s.h.RHash[0])

				outRes, inRes := 0, 0
				for _, r := range lg.inserted {
					switch r := r.(type) {
					case *htlcTimeoutResolver:
						if r.htlc.HtlcIndex == idx && r.htlc.Incoming == (d == 1) {
							outRes++
						}
					case *htlcOutgoingContestResolver:
						if r.htlc.HtlcIndex == idx && r.htlc.Incoming == (d == 1) {
							outRes++
						}
					case *htlcSuccessResolver:
						if r.htlc.HtlcIndex == idx && r.htlc.Incoming == (d == 1) {
							inRes++
						}
					case *htlcIncomingContestResolver:
						if r.htlc.HtlcIndex == idx && r.htlc.Incoming == (d == 1) {
							inRes++
						}
					}
				}

				if d == 0 {
					total := 0
					for _, m := range fl.fails {
						if m.idx == idx {
							total++
						}
					}
					okOutRes = okOutRes && (!(onKk && !dustK) ||
						(outRes == 1 && inRes == 0 && total == 0))
					okOutDust = okOutDust && (!(onKk && dustK) ||
						(total == 1 && outRes == 0 && inRes == 0))
					okDangling = okDangling && (onKk ||
						(outRes == 0 && inRes == 0 &&
							((known && total == 0) || (!known && total == 1))))
				} else {
					nFinal := 0
					for _, id := range fl.finalDust {
						if id == idx {
							nFinal++
						}
					}
					okInRes = okInRes && (!(onKk && !dustK) ||
						(inRes == 1 && outRes == 0 && nFinal == 0))
					okInDust = okInDust && (!(onKk && dustK) ||
						(nFinal == 1 && inRes == 0 && outRes == 0))
					okInOther = okInOther && (onKk ||
						(inRes == 0 && outRes == 0))
				}
			}
		}
	}
	for _, m := range fl.fails {
		okNoExtra = okNoExtra && (w.onCommit(c12L, 0, m.idx) ||
			w.onCommit(c12R, 0, m.idx) || w.onCommit(c12RP, 0, m.idx))
	}
	for _, id := range fl.finalDust {
		okNoExtra = okNoExtra && w.dustOn(k, 1, id)
	}
	nHtlcRes := 0
	for _, r := range lg.inserted {
		switch r.(type) {
		case *htlcTimeoutResolver, *htlcOutgoingContestResolver,
			*htlcSuccessResolver, *htlcIncomingContestResolver:

			nHtlcRes++
		default:
			okNoExtra = false
		}
	}

	vAssert(okOutRes, c12wfOutRes)
	vAssert(okOutDust, c12wfOutDust)
	vAssert(okDangling, c12wfDangling)
	vAssert(okInRes, c12wfInRes)
	vAssert(okInDust, c12wfInDust)
	vAssert(okInOther, c12wfInOther)
	vAssert(okNoExtra, c12wfNoExtra)

	if nHtlcRes > 0 {
		switch k {
		case c12L:
			vReach("wflow-local-resolvers")
		case c12R:
			vReach("wflow-remote-resolvers")
		default:
			vReach("wflow-pending-resolvers")
		}
	}
	if len(fl.fails) > 0 {
		vReach("wflow-failback")
	}
	if len(fl.finalDust) > 0 {
		vReach("wflow-received-dust-final")
	}
}

// c12wLog: the flow's in-memory ArbitratorLog, counting the commit sets logged.
type c12wLog struct {
	c12Log
	nSets int
}

func (l *c12wLog) InsertConfirmedCommitSet(*CommitSet) error {
	l.nSets++
	return nil
}

// quick: watcher alone up to 3 HTLCs in total (57 shapes), composed with the
// arbitrator up to 2 (33 shapes). thorough: watcher alone additionally up to
// C12_FULLFILL HTLCs with one per (commitment, direction) and all shapes with
// a pair (<= C12_N2FILL HTLCs), composed up to 3 HTLCs (57 shapes).
func VerifC12Watcher()     { c12wWatcher(c12Quick) }
func VerifC12WatcherFull() { c12wWatcher(c12Full1) }
func VerifC12WatcherN2()   { c12wWatcher(c12Two) }
func VerifC12WatcherFlow() {
	c12wFlow(c12Family{n: 1, maxFill: 2, parts: C12_QPARTS})
}
func VerifC12WatcherFlowFull() { c12wFlow(c12Quick4()) }

func c12Quick4() c12Family { return c12Family{n: 1, maxFill: 3, parts: C12_TPARTS} }
