package contractcourt

// Harness for C12, second half: "failed back upstream exactly once" and
// "exactly one on-chain resolver" at the level where lnd acts on the chain
// action map: the real (*ChannelArbitrator).advanceState / stateStep driven
// over the two histories that lead to StateContractClosed:
//
//   step 1  a block (chainTrigger) or a user force close (userTrigger) is
//           processed while no commitment has confirmed. Either nothing
//           happens (the arbitrator stays in StateDefault) or the local
//           commitment is broadcast (StateDefault -> StateBroadcastCommit ->
//           StateCommitmentBroadcasted), real code throughout;
//   step 2  commitment K (ours, the peer's, the peer's pending one) confirms:
//           advanceState(height2, local/remoteCloseTrigger, commitSet) runs
//           (StateDefault ->) StateContractClosed -> StateWaitingFullResolution
//           including constructChainActions, abandonForwards, failIncomingDust,
//           prepContractResolutions and the resolver constructors.
//
// Observed: every ResolutionMsg handed to cfg.DeliverResolutionMsg (the
// upstream fail-backs), every resolver handed to
// ArbitratorLog.InsertUnresolvedContracts, every PutFinalHtlcOutcome.
//
// Fakes (all behind interfaces / function-valued config fields of lnd):
// ArbitratorLog (in-memory), ArbChannel (ForceCloseChan returns an empty tx,
// no anchors), MarkCommitmentBroadcasted, PublishTx, DeliverResolutionMsg,
// PutFinalHtlcOutcome, HtlcNotifier, FetchHistoricalChannel (not found),
// FindOutgoingHTLCDeadline (none), NotifyChannelResolved, plus the fakes of
// zz_verif_c12.go.

import (
	"github.com/btcsuite/btcd/chainhash/v2"
	"github.com/btcsuite/btcd/wire/v2"
	"github.com/lightningnetwork/lnd/channeldb"
	"github.com/lightningnetwork/lnd/chanstate"
	"github.com/lightningnetwork/lnd/fn/v2"
	"github.com/lightningnetwork/lnd/graph/db/models"
	"github.com/lightningnetwork/lnd/kvdb"
	"github.com/lightningnetwork/lnd/lntypes"
	"github.com/lightningnetwork/lnd/lnwallet"
	"github.com/lightningnetwork/lnd/lnwire"
)

// c12Log: in-memory ArbitratorLog. InsertUnresolvedContracts records the
// resolvers and marks them resolved so that resolveContracts (which follows in
// stateStep) neither launches them nor loops in resolveContract: the
// resolvers themselves are outside this check.
type c12Log struct {
	state    ArbitratorState
	res      *ContractResolutions
	inserted []ContractResolver
}

func (l *c12Log) CurrentState(kvdb.RTx) (ArbitratorState, error) {
	return l.state, nil
}

func (l *c12Log) CommitState(s ArbitratorState) error {
	l.state = s
	return nil
}

func (l *c12Log) InsertUnresolvedContracts(_ []*channeldb.ResolverReport,
	resolvers ...ContractResolver) error {

	for _, r := range resolvers {
		l.inserted = append(l.inserted, r)
		switch x := r.(type) {
		case *htlcTimeoutResolver:
			x.markResolved()
		case *htlcOutgoingContestResolver:
			x.markResolved()
		case *htlcSuccessResolver:
			x.markResolved()
		case *htlcIncomingContestResolver:
			x.markResolved()
		case *commitSweepResolver:
			x.markResolved()
		case *anchorResolver:
			x.markResolved()
		case *breachResolver:
			x.markResolved()
		}
	}

	return nil
}

func (l *c12Log) FetchUnresolvedContracts() ([]ContractResolver, error) {
	return l.inserted, nil
}
func (l *c12Log) SwapContract(ContractResolver, ContractResolver) error { return nil }
func (l *c12Log) ResolveContract(ContractResolver) error                 { return nil }
func (l *c12Log) LogContractResolutions(r *ContractResolutions) error {
	l.res = r
	return nil
}
func (l *c12Log) FetchContractResolutions() (*ContractResolutions, error) {
	return l.res, nil
}
func (l *c12Log) InsertConfirmedCommitSet(*CommitSet) error { return nil }
func (l *c12Log) FetchConfirmedCommitSet(kvdb.RTx) (*CommitSet, error) {
	return nil, errNoCommitSet
}
func (l *c12Log) FetchChainActions() (ChainActionMap, error) { return nil, nil }
func (l *c12Log) WipeHistory() error                          { return nil }

type c12Chan struct{}

func (c12Chan) ForceCloseChan() (*wire.MsgTx, error) { return wire.NewMsgTx(2), nil }
func (c12Chan) NewAnchorResolutions() (*lnwallet.AnchorResolutions, error) {
	return &lnwallet.AnchorResolutions{}, nil
}

type c12Notifier struct{}

func (c12Notifier) NotifyFinalHtlcEvent(models.CircuitKey, channeldb.FinalHtlcInfo) {}

// vC12TxHash replaces (*wire.MsgTx).TxHash in the symbolic run (it is only
// used for log texts and the broadcast label).
func vC12TxHash(*wire.MsgTx) chainhash.Hash { return chainhash.Hash{} }

type c12FailMsg struct {
	step int
	idx  uint64
}

type c12Flow struct {
	step      int
	fails     []c12FailMsg
	finalDust []uint64 // PutFinalHtlcOutcome(settled=false) per HTLC index
	settled   bool     // PutFinalHtlcOutcome(settled=true) seen
	resolved  int      // NotifyChannelResolved calls
}

func c12FlowRun(f c12Family) {
	c12Config()
	// the resolvers are parked (flagged resolved) by the fake log: their goroutine is outside the unit.
	// Since the repair 7335e1d it would remove an already resolved contract from the log and signal the
	// main loop (a blocking send); symbolically it is a no-op, natively it runs and parks on that send.
	vNoop("(*github.com/lightningnetwork/lnd/contractcourt.ChannelArbitrator).resolveContract")
	vReplace("(*github.com/btcsuite/btcd/wire/v2.MsgTx).TxHash", "github.com/lightningnetwork/lnd/contractcourt.vC12TxHash")

	w := c12NewWorld(f)
	c := w.arb
	k := vChoice("confirmed", 3)
	if k == c12RP && !w.rpExists {
		vAssume(false)
	}
	trig1 := chainTrigger
	if vChoice("userForceClose", 2) == 1 {
		trig1 = userTrigger
	}
	height2 := vU32("height2")
	w.dom = w.dom && height2 >= w.height

	// Domain (as in c12Confirmed): offered HTLCs of our commitment are on the
	// remote commitment that confirmed.
	if k != c12L {
		for i := range w.slots[c12L][0] {
			s := &w.slots[c12L][0][i]
			if s.on {
				w.dom = w.dom && w.onCommit(k, 0, s.h.HtlcIndex)
			}
		}
	}
	// Domain: HTLCs with an output on the confirmed commitment have pairwise
	// distinct output indexes (they are different outputs of one tx).
	var onK []*c12Slot
	for d := 0; d < 2; d++ {
		for i := range w.slots[k][d] {
			if w.slots[k][d][i].on {
				onK = append(onK, &w.slots[k][d][i])
			}
		}
	}
	for i := range onK {
		for j := i + 1; j < len(onK); j++ {
			a, b := onK[i], onK[j]
			w.dom = w.dom && (a.h.OutputIndex != b.h.OutputIndex ||
				a.h.OutputIndex < 0 || b.h.OutputIndex < 0)
		}
	}
	vAssume(w.dom)

	fl := &c12Flow{step: 1}
	lg := &c12Log{state: StateDefault}
	c.log = lg
	c.state = StateDefault
	c.cfg.Channel = c12Chan{}
	c.cfg.MarkCommitmentBroadcasted = func(*wire.MsgTx, lntypes.ChannelParty) error {
		return nil
	}
	c.cfg.PublishTx = func(*wire.MsgTx, string) error { return nil }
	c.cfg.DeliverResolutionMsg = func(msgs ...ResolutionMsg) error {
		for _, m := range msgs {
			fl.fails = append(fl.fails, c12FailMsg{fl.step, m.HtlcIndex})
			if m.Failure == nil || m.PreImage != nil {
				fl.settled = true
			}
		}
		return nil
	}
	c.cfg.PutFinalHtlcOutcome = func(_ lnwire.ShortChannelID, id uint64, settled bool) error {
		if settled {
			fl.settled = true
		}
		fl.finalDust = append(fl.finalDust, id)
		return nil
	}
	c.cfg.HtlcNotifier = c12Notifier{}
	c.cfg.NotifyChannelResolved = func() { fl.resolved++ }
	c.cfg.FetchHistoricalChannel = func() (*chanstate.OpenChannel, error) {
		return nil, channeldb.ErrChannelNotFound
	}
	c.cfg.FindOutgoingHTLCDeadline = func(channeldb.HTLC) fn.Option[int32] {
		return fn.None[int32]()
	}

	// ---- step 1: block / user force close with no commitment confirmed
	c.unmergedSet[LocalHtlcSet] = newHtlcSet(w.htlcs(c12L))
	c.unmergedSet[RemoteHtlcSet] = newHtlcSet(w.htlcs(c12R))
	if w.rpExists {
		c.unmergedSet[RemotePendingHtlcSet] = newHtlcSet(w.htlcs(c12RP))
	}
	st1, _, err := c.advanceState(w.height, trig1, nil)
	vAssert(err == nil, "flow: step 1 succeeds")
	vAssert(st1 == StateDefault || st1 == StateCommitmentBroadcasted,
		"flow: after step 1 the arbitrator idles or has broadcast")
	broadcast := st1 == StateCommitmentBroadcasted

	// ---- step 2: commitment K confirms
	fl.step = 2
	sets := make(map[HtlcSetKey][]channeldb.HTLC)
	sets[LocalHtlcSet] = w.htlcs(c12L)
	sets[RemoteHtlcSet] = w.htlcs(c12R)
	if w.rpExists {
		sets[RemotePendingHtlcSet] = w.htlcs(c12RP)
	}
	cs := &CommitSet{ConfCommitKey: fn.Some(c12Keys[k]), HtlcSets: sets}

	// what lnwallet hands over with the close event: one resolution per HTLC
	// output of the confirmed commitment (handle*ForceCloseEvent logs them).
	res := &ContractResolutions{}
	for _, s := range onK {
		op := wire.OutPoint{Hash: res.CommitHash, Index: uint32(s.h.OutputIndex)}
		if s.h.Incoming {
			res.HtlcResolutions.IncomingHTLCs = append(
				res.HtlcResolutions.IncomingHTLCs,
				lnwallet.IncomingHtlcResolution{ClaimOutpoint: op},
			)
		} else {
			res.HtlcResolutions.OutgoingHTLCs = append(
				res.HtlcResolutions.OutgoingHTLCs,
				lnwallet.OutgoingHtlcResolution{
					ClaimOutpoint: op, Expiry: s.h.RefundTimeout,
				},
			)
		}
	}
	lg.res = res

	closeTrig := remoteCloseTrigger
	if k == c12L {
		closeTrig = localCloseTrigger
	}
	st2, _, err := c.advanceState(height2, closeTrig, cs)
	vAssert(err == nil, "flow: step 2 succeeds")
	anyHTLC := len(sets[LocalHtlcSet])+len(sets[RemoteHtlcSet])+len(sets[RemotePendingHtlcSet]) > 0
	if anyHTLC {
		vAssert(st2 == StateWaitingFullResolution || st2 == StateFullyResolved,
			"flow: the close is processed up to the launch of the resolvers")
	} else {
		vAssert(st2 == StateFullyResolved, "flow: nothing to resolve")
	}
	vAssert(!fl.settled, "flow: nothing is settled by the arbitrator itself")

	// ---- oracle
	okOutRes, okOutDust, okDangling := true, true, true
	okOutDustLeast, okDanglingLeast := true, true
	okInRes, okInDust, okInOther, okNoExtra := true, true, true, true
	for cc := 0; cc < 3; cc++ {
		for d := 0; d < 2; d++ {
			for i := range w.slots[cc][d] {
				s := &w.slots[cc][d][i]
				if !s.on {
					continue
				}
				idx := s.h.HtlcIndex
				onKk := w.onCommit(k, d, idx)
				dustK := w.dustOn(k, d, idx)
				known := w.known(s.h.RHash[0])

				outRes, inRes := 0, 0
				for _, r := range lg.inserted {
					switch x := r.(type) {
					case *htlcTimeoutResolver:
						if x.htlc.HtlcIndex == idx && x.htlc.Incoming == (d == 1) {
							outRes++
						}
					case *htlcOutgoingContestResolver:
						if x.htlc.HtlcIndex == idx && x.htlc.Incoming == (d == 1) {
							outRes++
						}
					case *htlcSuccessResolver:
						if x.htlc.HtlcIndex == idx && x.htlc.Incoming == (d == 1) {
							inRes++
						}
					case *htlcIncomingContestResolver:
						if x.htlc.HtlcIndex == idx && x.htlc.Incoming == (d == 1) {
							inRes++
						}
					}
				}

				if d == 0 {
					total, after := 0, 0
					for _, m := range fl.fails {
						if m.idx == idx {
							total++
							if m.step == 2 {
								after++
							}
						}
					}
					okOutRes = okOutRes && (!(onKk && !dustK) ||
						(outRes == 1 && inRes == 0 && after == 0))
					okOutDust = okOutDust && (!(onKk && dustK) ||
						(total <= 1 && outRes == 0 && inRes == 0))
					okOutDustLeast = okOutDustLeast &&
						(!(onKk && dustK) || total >= 1)
					okDangling = okDangling && (onKk ||
						(outRes == 0 && inRes == 0 && total <= 1 &&
							(!known || total == 0)))
					okDanglingLeast = okDanglingLeast &&
						(onKk || known || total >= 1)
				} else {
					nFinal := 0
					for _, id := range fl.finalDust {
						if id == idx {
							nFinal++
						}
					}
					okInRes = okInRes && (!(onKk && !dustK) ||
						(inRes == 1 && outRes == 0 && nFinal == 0))
					okInDust = okInDust && (!(onKk && dustK) ||
						(nFinal == 1 && inRes == 0 && outRes == 0))
					okInOther = okInOther && (onKk ||
						(inRes == 0 && outRes == 0))
				}
			}
		}
	}
	// every fail-back names an HTLC we offered; every final-outcome record a
	// received dust HTLC of the confirmed commitment
	for _, m := range fl.fails {
		okNoExtra = okNoExtra && (w.onCommit(c12L, 0, m.idx) ||
			w.onCommit(c12R, 0, m.idx) || w.onCommit(c12RP, 0, m.idx))
	}
	for _, id := range fl.finalDust {
		okNoExtra = okNoExtra && w.dustOn(k, 1, id)
	}
	nHtlcRes := 0
	for _, r := range lg.inserted {
		switch r.(type) {
		case *htlcTimeoutResolver, *htlcOutgoingContestResolver,
			*htlcSuccessResolver, *htlcIncomingContestResolver:

			nHtlcRes++
		default:
			okNoExtra = false
		}
	}

	vAssert(okOutRes, "flow: an offered HTLC with an output on the confirmed commitment gets exactly one outgoing resolver and is not failed back once that commitment has confirmed")
	vAssert(okOutDust, "flow: an offered HTLC that is dust on the confirmed commitment is failed back upstream at most once over the whole close and gets no resolver")
	if broadcast {
		vAssert(okOutDustLeast, "flow: after our own broadcast, an offered HTLC that is dust on the confirmed commitment is failed back upstream (at least once) by the time the resolvers are launched")
	} else {
		vAssert(okOutDustLeast, "flow: without a broadcast of ours, an offered HTLC that is dust on the confirmed commitment is failed back upstream (at least once) by the time the resolvers are launched")
	}
	vAssert(okDangling, "flow: an offered HTLC that is only on a non-confirmed commitment is failed back upstream at most once over the whole close, never when its preimage is known, and gets no resolver")
	if broadcast {
		vAssert(okDanglingLeast, "flow: after our own broadcast, an offered HTLC that is only on a non-confirmed commitment and whose preimage is unknown is failed back upstream (at least once) by the time the resolvers are launched")
	} else {
		vAssert(okDanglingLeast, "flow: without a broadcast of ours, an offered HTLC that is only on a non-confirmed commitment and whose preimage is unknown is failed back upstream (at least once) by the time the resolvers are launched")
	}
	vAssert(okInRes, "flow: a received HTLC with an output on the confirmed commitment gets exactly one incoming resolver")
	vAssert(okInDust, "flow: a received dust HTLC of the confirmed commitment is closed out exactly once without resolver")
	vAssert(okInOther, "flow: a received HTLC that is not on the confirmed commitment gets no resolver")
	vAssert(okNoExtra, "flow: no fail-back, final outcome or resolver for anything else")

	switch {
	case broadcast && nHtlcRes > 0:
		vReach("flow-broadcast-then-confirmed-resolvers")
	case broadcast:
		vReach("flow-broadcast-then-confirmed")
	case nHtlcRes > 0:
		vReach("flow-confirmed-in-default-resolvers")
	default:
		vReach("flow-confirmed-in-default")
	}
	if len(fl.fails) > 0 {
		vReach("flow-failback")
	}
	if len(fl.finalDust) > 0 {
		vReach("flow-received-dust-final")
	}
}

// quick: at most 2 HTLCs in total; thorough: at most 3.
func VerifC12CloseFlow()     { c12FlowRun(c12Family{n: 1, maxFill: 2, parts: 1}) }
func VerifC12CloseFlowFull() { c12FlowRun(c12Family{n: 1, maxFill: 3, parts: C12_TPARTS}) }
