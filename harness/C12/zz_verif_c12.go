package contractcourt

// Harness for C12: going on chain before HTLC deadlines and disposing of every
// HTLC exactly once.
//
// Unit (real lnd code, executed as-is): (*ChannelArbitrator).shouldGoOnChain,
// checkCommitChainActions, checkLocalChainActions, checkRemoteDanglingActions,
// checkRemoteChainActions, checkRemoteDiffActions, constructChainActions,
// isPreimageAvailable, updateActiveHTLCs, newHtlcSet,
// (*CommitSet).toActiveHTLCSets, ChainActionMap.Merge.
//
// Fakes (behind interfaces / function-valued config fields lnd already has,
// the same fakes run in native replay): cfg.PreimageDB (WitnessBeacon),
// cfg.Registry, cfg.IsForwardedHTLC, cfg.Clock.

import (
	"context"
	"time"

	"github.com/lightningnetwork/lnd/channeldb"
	"github.com/lightningnetwork/lnd/fn/v2"
	"github.com/lightningnetwork/lnd/graph/db/models"
	"github.com/lightningnetwork/lnd/htlcswitch/hop"
	"github.com/lightningnetwork/lnd/invoices"
	"github.com/lightningnetwork/lnd/lntypes"
	"github.com/lightningnetwork/lnd/lnwire"
)

// ---------------------------------------------------------------- fakes ----

// c12Beacon: preimage cache. Whether the preimage of a hash is cached is an
// arbitrary (symbolic) function of the hash: bit (hash[0] mod 8) of mask. The
// same hash always gets the same answer.
type c12Beacon struct{ mask uint8 }

func (b *c12Beacon) SubscribeUpdates(lnwire.ShortChannelID, *channeldb.HTLC,
	*hop.Payload, []byte) (*WitnessSubscription, error) {

	return nil, nil
}

func (b *c12Beacon) LookupPreimage(h lntypes.Hash) (lntypes.Preimage, bool) {
	return lntypes.Preimage{}, (b.mask>>(h[0]&7))&1 == 1
}

func (b *c12Beacon) AddPreimages(...lntypes.Preimage) error { return nil }

// c12Registry: invoice registry. Per hash (bit hash[0] mod 8): no invoice,
// invoice without a known preimage (hodl invoice) or invoice with preimage.
// noneCreated switches the "not found" error to ErrNoInvoicesCreated.
type c12Registry struct {
	found, withPre uint8
	noneCreated    bool
}

func (r *c12Registry) LookupInvoice(_ context.Context,
	h lntypes.Hash) (invoices.Invoice, error) {

	bit := h[0] & 7
	if r.noneCreated {
		return invoices.Invoice{}, invoices.ErrNoInvoicesCreated
	}
	if (r.found>>bit)&1 == 0 {
		return invoices.Invoice{}, invoices.ErrInvoiceNotFound
	}
	var inv invoices.Invoice
	if (r.withPre>>bit)&1 == 1 {
		inv.Terms.PaymentPreimage = &lntypes.Preimage{}
	}

	return inv, nil
}

func (r *c12Registry) NotifyExitHopHtlc(lntypes.Hash, lnwire.MilliSatoshi,
	uint32, int32, models.CircuitKey, chan<- interface{},
	lnwire.CustomRecords, invoices.Payload) (invoices.HtlcResolution, error) {

	return nil, nil
}

func (r *c12Registry) HodlUnsubscribeAll(chan<- interface{}) {}

// c12Clock: fixed "now".
type c12Clock struct{ now time.Time }

func (c *c12Clock) Now() time.Time                         { return c.now }
func (c *c12Clock) TickAfter(time.Duration) <-chan time.Time { return nil }

// ---------------------------------------------------------------- world ----

const (
	c12L  = 0 // our commitment
	c12R  = 1 // the peer's current commitment
	c12RP = 2 // the peer's pending commitment
)

var c12Keys = [3]HtlcSetKey{LocalHtlcSet, RemoteHtlcSet, RemotePendingHtlcSet}

type c12Slot struct {
	on bool
	h  channeldb.HTLC
}

type c12World struct {
	n        int
	slots    [3][2][]c12Slot // [commitment][0 offered / 1 received][k]
	rpExists bool
	height   uint32
	inDelta  uint32
	outDelta uint32
	pdb      uint8
	invFound uint8
	invPre   uint8
	invNone  bool
	fwdMask  uint16
	upNs     int64 // node up time in ns (exact)
	grace    time.Duration
	arb      *ChannelArbitrator
}

func c12Name(c, d, k int, field string) string {
	cs := [3]string{"L", "R", "P"}
	ds := [2]string{"out", "in"}
	ks := [4]string{"0", "1", "2", "3"}

	return cs[c] + "." + ds[d] + ks[k] + "." + field
}

// c12Known is the definition of "the node knows the preimage of hash h0".
func (w *c12World) known(h0 uint8) bool {
	bit := h0 & 7
	cached := (w.pdb>>bit)&1 == 1
	invoice := !w.invNone && (w.invFound>>bit)&1 == 1 &&
		(w.invPre>>bit)&1 == 1

	return cached || invoice
}

// forwarded: the fake IsForwardedHTLC, an arbitrary function of the index.
func (w *c12World) forwarded(idx uint64) bool {
	return (w.fwdMask>>(idx&15))&1 == 1
}

// pastCutoff: height >= expiry - delta, in unbounded arithmetic.
func c12PastCutoff(height, expiry, delta uint32) bool {
	return uint64(height)+uint64(delta) >= uint64(expiry)
}

// mustAct: the property's go-on-chain condition for an HTLC we offered.
func (w *c12World) offeredDue(h *channeldb.HTLC) bool {
	return c12PastCutoff(w.height, h.RefundTimeout, w.outDelta) &&
		(w.forwarded(h.HtlcIndex) || w.upNs > int64(w.grace))
}

func (w *c12World) receivedDue(h *channeldb.HTLC) bool {
	return c12PastCutoff(w.height, h.RefundTimeout, w.inDelta) &&
		w.known(h.RHash[0])
}

func c12NewWorld(n int) *c12World {
	w := &c12World{n: n}
	w.height = vU32("height")
	w.inDelta = vU32("inDelta")
	w.outDelta = vU32("outDelta")
	w.pdb = vU8("preimageCache")
	w.invFound = vU8("invoiceFound")
	w.invPre = vU8("invoiceWithPreimage")
	w.invNone = vBool("noInvoicesCreated")
	w.fwdMask = vU16("forwardedMask")
	w.rpExists = vBool("remotePendingExists")

	for c := 0; c < 3; c++ {
		for d := 0; d < 2; d++ {
			for k := 0; k < n; k++ {
				var s c12Slot
				s.on = vBool(c12Name(c, d, k, "on"))
				s.h.Incoming = d == 1
				s.h.HtlcIndex = vU64(c12Name(c, d, k, "idx"))
				s.h.RefundTimeout = vU32(c12Name(c, d, k, "expiry"))
				s.h.OutputIndex = vI32(c12Name(c, d, k, "outputIndex"))
				s.h.RHash[0] = vU8(c12Name(c, d, k, "hash"))
				s.h.Amt = lnwire.MilliSatoshi(1000)
				if c == c12RP && !w.rpExists {
					vAssume(!s.on)
				}
				// Domain: expiry - delta does not wrap (expiries are
				// absolute block heights, the deltas are small
				// configured block counts).
				if d == 0 {
					vAssume(s.h.RefundTimeout >= w.outDelta)
				} else {
					vAssume(s.h.RefundTimeout >= w.inDelta)
				}
				w.slots[c][d] = append(w.slots[c][d], s)
			}
		}
	}

	// Domain: HTLC indexes are distinct within one commitment and direction;
	// the same (index, direction) denotes the same HTLC (hash, expiry) on
	// every commitment. Only the output index (dust or not) may differ.
	for d := 0; d < 2; d++ {
		for c1 := 0; c1 < 3; c1++ {
			for k1 := 0; k1 < n; k1++ {
				a := &w.slots[c1][d][k1]
				for k2 := k1 + 1; k2 < n; k2++ {
					b := &w.slots[c1][d][k2]
					vAssume(a.h.HtlcIndex != b.h.HtlcIndex)
				}
				for c2 := c1 + 1; c2 < 3; c2++ {
					for k2 := 0; k2 < n; k2++ {
						b := &w.slots[c2][d][k2]
						vAssume(a.h.HtlcIndex != b.h.HtlcIndex ||
							(a.h.RefundTimeout == b.h.RefundTimeout &&
								a.h.RHash[0] == b.h.RHash[0]))
					}
				}
			}
		}
	}

	// Clock: the arbitrator was started at startSec and it is now nowSec
	// (whole seconds since the epoch, up to 2^32 = year 2106).
	startSec, nowSec := vU32("startSec"), vU32("nowSec")
	g := vI64("gracePeriodNs")
	vAssume(g >= 0 && g < 1<<62)
	w.grace = time.Duration(g)
	w.upNs = (int64(nowSec) - int64(startSec)) * 1_000_000_000

	var cfg ChannelArbitratorConfig
	cfg.IncomingBroadcastDelta = w.inDelta
	cfg.OutgoingBroadcastDelta = w.outDelta
	cfg.PreimageDB = &c12Beacon{mask: w.pdb}
	cfg.Registry = &c12Registry{
		found: w.invFound, withPre: w.invPre, noneCreated: w.invNone,
	}
	cfg.PaymentsExpirationGracePeriod = w.grace
	cfg.IsForwardedHTLC = func(_ lnwire.ShortChannelID, idx uint64) bool {
		return w.forwarded(idx)
	}
	cfg.Clock = &c12Clock{now: time.Unix(int64(nowSec), 0)}

	w.arb = &ChannelArbitrator{
		cfg:            cfg,
		startTimestamp: time.Unix(int64(startSec), 0),
		activeHTLCs:    make(map[HtlcSetKey]htlcSet),
		unmergedSet:    make(map[HtlcSetKey]htlcSet),
	}

	return w
}

// htlcs returns the HTLCs present on commitment c (offered first).
func (w *c12World) htlcs(c int) []channeldb.HTLC {
	var r []channeldb.HTLC
	for d := 0; d < 2; d++ {
		for k := range w.slots[c][d] {
			if w.slots[c][d][k].on {
				r = append(r, w.slots[c][d][k].h)
			}
		}
	}

	return r
}

// onCommit: is there a present slot for HTLC (idx, dir d) on commitment c?
func (w *c12World) onCommit(c, d int, idx uint64) bool {
	r := false
	for k := range w.slots[c][d] {
		s := &w.slots[c][d][k]
		r = r || (s.on && s.h.HtlcIndex == idx)
	}

	return r
}

// dustOn: the HTLC (idx, d) is present on c with a negative output index.
func (w *c12World) dustOn(c, d int, idx uint64) bool {
	r := false
	for k := range w.slots[c][d] {
		s := &w.slots[c][d][k]
		r = r || (s.on && s.h.HtlcIndex == idx && s.h.OutputIndex < 0)
	}

	return r
}

// vC12TimeSub replaces (time.Time).Sub in the symbolic run only (native replay
// runs the real Sub): for instants without monotonic reading whose distance
// fits a Duration (ours are < 2^32 s apart) Sub is the difference of the
// UnixNano values; the real implementation verifies its result through
// Add/Equal, whose divisions by 1e9 make every query expensive.
func vC12TimeSub(t, u time.Time) time.Duration {
	return time.Duration(t.UnixNano() - u.UnixNano())
}

func c12Config() {
	vReplace("(time.Time).Sub", "github.com/lightningnetwork/lnd/contractcourt.vC12TimeSub")
	vMerge("(*github.com/lightningnetwork/lnd/contractcourt.ChannelArbitrator).shouldGoOnChain")
	vMerge("(*github.com/lightningnetwork/lnd/contractcourt.ChannelArbitrator).isPreimageAvailable")
	vAssumption("expiry >= broadcast delta for every HTLC (expiry - delta does not wrap)")
	vAssumption("HTLC indexes distinct per commitment and direction; the same (index, direction) carries the same hash and expiry on every commitment")
	vAssumption("fakes: PreimageDB / Registry answer as an arbitrary function of hash[0] mod 8 (never an unexpected DB error); IsForwardedHTLC an arbitrary function of index mod 16; Clock fixed at an arbitrary instant")
}

func c12Count(m ChainActionMap, a ChainAction, idx uint64, incoming bool) int {
	n := 0
	for _, h := range m[a] {
		if h.HtlcIndex == idx && h.Incoming == incoming {
			n++
		}
	}

	return n
}

// ------------------------------------------------- (1) go-on-chain decision

// c12GoOnChain: no commitment confirmed, a new block arrives (chainTrigger).
// This is exactly what stateStep(StateDefault) evaluates; a non-empty map is
// the decision to force close.
func c12GoOnChain(n int) {
	c12Config()
	w := c12NewWorld(n)
	c := w.arb

	// The link's view as delivered through notifyContractUpdate.
	c.unmergedSet[LocalHtlcSet] = newHtlcSet(w.htlcs(c12L))
	c.unmergedSet[RemoteHtlcSet] = newHtlcSet(w.htlcs(c12R))
	if w.rpExists {
		c.unmergedSet[RemotePendingHtlcSet] = newHtlcSet(w.htlcs(c12RP))
	}
	c.updateActiveHTLCs()

	actions, err := c.checkLocalChainActions(
		w.height, chainTrigger, c.activeHTLCs, false,
	)
	vAssert(err == nil, "go: no error")

	want := false
	offeredDue, receivedDue, danglingDue := false, false, false
	unclaimable := false
	for k := range w.slots[c12L][0] {
		s := &w.slots[c12L][0][k]
		offeredDue = offeredDue || (s.on && w.offeredDue(&s.h))
	}
	for k := range w.slots[c12L][1] {
		s := &w.slots[c12L][1][k]
		receivedDue = receivedDue || (s.on && w.receivedDue(&s.h))
		unclaimable = unclaimable || (s.on && !w.known(s.h.RHash[0]))
	}
	for cc := c12R; cc <= c12RP; cc++ {
		for k := range w.slots[cc][0] {
			s := &w.slots[cc][0][k]
			danglingDue = danglingDue || (s.on &&
				!w.onCommit(c12L, 0, s.h.HtlcIndex) &&
				w.offeredDue(&s.h) && !w.known(s.h.RHash[0]))
		}
	}
	want = offeredDue || receivedDue || danglingDue
	goes := len(actions) != 0

	vAssert(!want || goes, "go: force close is decided once an offered HTLC (forwarded, or own after the grace period) or a claimable received HTLC is within its broadcast delta")
	vAssert(!goes || want, "go: force close is decided only for a due offered HTLC or a due received HTLC with known preimage (never for a received HTLC that cannot be claimed)")

	nOut, nIn := 0, 0
	for k := range w.slots[c12L][0] {
		if w.slots[c12L][0][k].on {
			nOut++
		}
	}
	for k := range w.slots[c12L][1] {
		if w.slots[c12L][1][k].on {
			nIn++
		}
	}
	local := len(actions[HtlcTimeoutAction]) + len(actions[HtlcOutgoingWatchAction]) +
		len(actions[HtlcIncomingWatchAction]) + len(actions[HtlcIncomingDustFinalAction])
	switch {
	case !goes:
		vReach("stay")
	case len(actions[HtlcTimeoutAction]) > 0:
		vReach("go-offered-timeout")
	case nOut == 0 && nIn > 0 && local > 0:
		vReach("go-received-claimable")
	case local == 0 && len(actions[HtlcFailDanglingAction])+len(actions[HtlcFailDustAction]) > 0:
		vReach("go-dangling-only")
	}
}

func VerifC12GoOnChain()   { c12GoOnChain(1) }
func VerifC12GoOnChainN2() { c12GoOnChain(2) }

// ------------------------------------- (2) disposition once K has confirmed

func c12Confirmed(n int, chainTrig bool) {
	c12Config()
	w := c12NewWorld(n)
	c := w.arb

	k := vChoice("confirmed", 3)
	if k == c12RP {
		vAssume(w.rpExists)
	}

	trigger := transitionTrigger(vU8("trigger"))
	if chainTrig {
		vAssume(trigger == chainTrigger)
	} else {
		// every trigger with which a confirmed commit set is evaluated
		// by stateStep, except the block-epoch trigger (separate entry).
		vAssume(trigger != chainTrigger && trigger <= breachCloseTrigger)
	}

	// Domain (BOLT-2 update ordering): an HTLC we offered reaches the peer's
	// commitment(s) before ours and leaves ours first, so an offered HTLC on
	// our commitment is also on whichever remote commitment confirmed.
	if k != c12L {
		for i := range w.slots[c12L][0] {
			s := &w.slots[c12L][0][i]
			vAssume(!s.on || w.onCommit(k, 0, s.h.HtlcIndex))
		}
	}

	// Insertion order of the sets (the engine ranges over maps in insertion
	// order; Go's order is random).
	sets := make(map[HtlcSetKey][]channeldb.HTLC)
	if vChoice("setOrder", 2) == 0 {
		sets[LocalHtlcSet] = w.htlcs(c12L)
		sets[RemoteHtlcSet] = w.htlcs(c12R)
		if w.rpExists {
			sets[RemotePendingHtlcSet] = w.htlcs(c12RP)
		}
	} else {
		if w.rpExists {
			sets[RemotePendingHtlcSet] = w.htlcs(c12RP)
		}
		sets[RemoteHtlcSet] = w.htlcs(c12R)
		sets[LocalHtlcSet] = w.htlcs(c12L)
	}
	cs := &CommitSet{ConfCommitKey: fn.Some(c12Keys[k]), HtlcSets: sets}

	actions, err := c.constructChainActions(cs, w.height, trigger)
	vAssert(err == nil, "conf: no error")

	c12CheckDisposition(w, k, actions)
}

func c12CheckDisposition(w *c12World, k int, actions ChainActionMap) {
	// (a) every HTLC known on any commitment gets exactly its disposition
	for c := 0; c < 3; c++ {
		for d := 0; d < 2; d++ {
			for i := range w.slots[c][d] {
				s := &w.slots[c][d][i]
				if !s.on {
					continue
				}
				idx, inc := s.h.HtlcIndex, d == 1
				onK := w.onCommit(k, d, idx)
				dustK := w.dustOn(k, d, idx)
				known := w.known(s.h.RHash[0])

				nTimeout := c12Count(actions, HtlcTimeoutAction, idx, inc)
				nOutWatch := c12Count(actions, HtlcOutgoingWatchAction, idx, inc)
				nClaim := c12Count(actions, HtlcClaimAction, idx, inc)
				nInWatch := c12Count(actions, HtlcIncomingWatchAction, idx, inc)
				nFailDust := c12Count(actions, HtlcFailDustAction, idx, inc)
				nFailDangling := c12Count(actions, HtlcFailDanglingAction, idx, inc)
				nDustFinal := c12Count(actions, HtlcIncomingDustFinalAction, idx, inc)
				nNone := c12Count(actions, NoAction, idx, inc)

				outRes := nTimeout + nOutWatch
				inRes := nClaim + nInWatch
				failBack := nFailDust + nFailDangling

				if d == 0 {
					vAssert(!(onK && !dustK) || (outRes == 1 && inRes == 0),
						"conf: offered HTLC with an output on the confirmed commitment gets exactly one outgoing resolver")
					vAssert(!(onK && !dustK) || failBack == 0,
						"conf: no upstream fail-back for an offered HTLC that has an output on the confirmed commitment")
					vAssert(!(onK && dustK) || (nFailDust == 1 && nFailDangling == 0),
						"conf: offered HTLC that is dust on the confirmed commitment is failed back exactly once (FailDust)")
					vAssert(!(onK && dustK) || (outRes == 0 && inRes == 0),
						"conf: offered dust HTLC gets no resolver")
					vAssert(!(!onK && !known) || failBack == 1,
						"conf: offered HTLC that is only on a non-confirmed commitment is failed back exactly once")
					vAssert(!(!onK && known) || failBack == 0,
						"conf: offered HTLC on a non-confirmed commitment is not failed back when its preimage is known")
					vAssert(onK || (outRes == 0 && inRes == 0),
						"conf: offered HTLC without an output on the confirmed commitment gets no resolver")
					vAssert(nDustFinal == 0 && nNone == 0,
						"conf: offered HTLC never in an incoming-only list")
				} else {
					vAssert(!(onK && !dustK) || (inRes == 1 && outRes == 0),
						"conf: received HTLC with an output on the confirmed commitment gets exactly one incoming resolver")
					vAssert(!(onK && !dustK) || nDustFinal == 0,
						"conf: received non-dust HTLC is not closed out as dust")
					vAssert(!(onK && dustK) || (nDustFinal == 1 && inRes == 0 && outRes == 0),
						"conf: received dust HTLC is closed out exactly once without a resolver")
					vAssert(onK || (inRes == 0 && outRes == 0 && nDustFinal == 0),
						"conf: received HTLC that is not on the confirmed commitment gets no action")
					vAssert(failBack == 0 && nNone == 0,
						"conf: received HTLC never in a fail-back list")
				}
			}
		}
	}

	// (b) nothing else is in any list; resolver entries carry the HTLC as it
	// is on the confirmed commitment (its output index there).
	for a := ChainAction(0); a <= HtlcFailDanglingAction; a++ {
		for _, h := range actions[a] {
			d := 0
			if h.Incoming {
				d = 1
			}
			somewhere := w.onCommit(c12L, d, h.HtlcIndex) ||
				w.onCommit(c12R, d, h.HtlcIndex) ||
				w.onCommit(c12RP, d, h.HtlcIndex)
			vAssert(somewhere, "conf: every entry of the action map is an HTLC of the commit set")

			switch a {
			case HtlcTimeoutAction, HtlcOutgoingWatchAction,
				HtlcIncomingWatchAction, HtlcClaimAction:

				same := false
				for i := range w.slots[k][d] {
					s := &w.slots[k][d][i]
					same = same || (s.on &&
						s.h.HtlcIndex == h.HtlcIndex &&
						s.h.OutputIndex == h.OutputIndex &&
						s.h.RefundTimeout == h.RefundTimeout &&
						s.h.RHash[0] == h.RHash[0])
				}
				vAssert(same, "conf: a resolver entry is the HTLC as it is on the confirmed commitment")
				vAssert(h.OutputIndex >= 0, "conf: a resolver entry has an output")
				if d == 0 {
					vReach("resolver-offered")
				} else {
					vReach("resolver-received")
				}
			case HtlcFailDustAction:
				vReach("fail-dust")
			case HtlcFailDanglingAction:
				vReach("fail-dangling")
			case HtlcIncomingDustFinalAction:
				vReach("received-dust-final")
			}
		}
	}
}

func VerifC12Confirmed()   { c12Confirmed(1, false) }
func VerifC12ConfirmedN2() { c12Confirmed(2, false) }

// VerifC12ConfirmedChainTrigger: the same disposition obligations when the
// confirmed commit set is evaluated with chainTrigger (restart in
// StateContractClosed, see NOTES.md).
func VerifC12ConfirmedChainTrigger() { c12Confirmed(1, true) }
