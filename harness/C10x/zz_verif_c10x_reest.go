package lnwire

// VerifC10xReestPrefix (session 5, after seed C10-12): channel_reestablish has
// two optional trailing fields that come as a pair (BOLT-2: the 32-byte
// your_last_per_commitment_secret and the 33-byte my_current_per_commitment_point
// of option_data_loss_protect) and are read by hand in Decode. Every prefix of
// a full encoding cut at or next to a field boundary is decoded: it is accepted
// exactly when it ends after the fixed part (legacy form) or after the complete
// pair, and an accepted prefix is a canonical fixpoint (re-encodes to itself).

import "bytes"

func VerifC10xReestPrefix() {
	c10xConfig()
	full := make([]byte, 0, 113)
	full = append(full, vBytes("chanID", 32)...)
	full = append(full, vBytes("nextLocalHeight", 8)...)
	full = append(full, vBytes("remoteTailHeight", 8)...)
	full = append(full, vBytes("lastRemoteSecret", 32)...)
	full = append(full, c10xKeyBytes(vChoice("key", 2))...)
	cuts := [...]int{0, 31, 47, 48, 49, 79, 80, 81, 112, 113}
	n := cuts[vChoice("cut", len(cuts))]
	in := full[:n]

	var m ChannelReestablish
	err := m.Decode(bytes.NewReader(in), 0)
	want := n == 48 || n == 113
	vAssert((err == nil) == want, "ChannelReestablish: a prefix is accepted exactly when it ends after the fixed part or after the complete secret+point pair")
	if err != nil {
		vReach("reest-refused")
		return
	}
	if n == 48 {
		vReach("reest-legacy")
		vAssert(m.LocalUnrevokedCommitPoint == nil, "ChannelReestablish: the legacy form carries no commitment point")
	} else {
		vReach("reest-full")
		vAssert(m.LocalUnrevokedCommitPoint != nil && bytes.Equal(m.LastRemoteCommitSecret[:], full[48:80]), "ChannelReestablish: secret and point are those of the input")
	}
	var w bytes.Buffer
	vAssert(m.Encode(&w, 0) == nil, "ChannelReestablish: a decoded message re-encodes")
	vAssert(bytes.Equal(w.Bytes(), in), "ChannelReestablish: an accepted input is a canonical fixpoint (re-encodes byte-identically)")
	var m2 ChannelReestablish
	vAssert(m2.Decode(bytes.NewReader(w.Bytes()), 0) == nil, "ChannelReestablish: the re-encoding decodes")
	vAssert(m2.LastRemoteCommitSecret == m.LastRemoteCommitSecret && c10xEqKey(m2.LocalUnrevokedCommitPoint, m.LocalUnrevokedCommitPoint) &&
		m2.ChanID == m.ChanID && m2.NextLocalCommitHeight == m.NextLocalCommitHeight && m2.RemoteCommitTailHeight == m.RemoteCommitTailHeight,
		"ChannelReestablish: decode(encode(decode b)) equals decode b")
}
