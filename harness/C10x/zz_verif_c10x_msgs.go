package lnwire

// Harness for C10x (extension of C10): whole-message codecs of the message
// types the registered check C10 lists as "outside":
//
//   UpdateAddHTLC, CommitSig, ChannelReady, Stfu, QueryChannelRange,
//   GossipTimestampRange, ReplyShortChanIDsEnd, AnnounceSignatures1,
//   FundingCreated, FundingSigned, Init.
//
// Two directions, same idiom as harness/C10 (helpers copied under c10x names):
//
//   VerifC10xMsgBytes   arbitrary body (fixed part + <= E extension bytes):
//                       Decode never panics, accepts exactly when the fixed
//                       part is complete and the extension is a canonical
//                       BOLT-1 TLV stream whose known records are well-formed
//                       (independent reference), then Encode succeeds within
//                       65535 bytes, decode(encode(decode b)) == decode b,
//                       encode(decode b) == b for canonical bodies, fixpoint.
//   VerifC10xMsgValue   arbitrary field values (optional records by vChoice):
//                       Encode == independent BOLT layout, Decode(Encode m) == m.
//   VerifC10xUnknownKept  (tier "finding") unknown records survive
//                       decode -> encode -> decode for the messages that
//                       rebuild ExtraData in Encode.
//
// References (c10xRef*, c10xBE, ...) are written from the BOLT text and never
// call lnd code.

import (
	"bytes"
	"errors"

	"github.com/btcsuite/btcd/btcec/v2"
	"github.com/btcsuite/btcd/chainhash/v2"
	"github.com/btcsuite/btcd/wire/v2"
	"github.com/lightningnetwork/lnd/tlv"
)

// ---------------------------------------------------------------- small helpers (copies of harness/C10)

func c10xBE(v uint64, n int) []byte {
	out := make([]byte, n)
	for i := 0; i < n; i++ {
		out[i] = byte(v >> (8 * uint(n-1-i)))
	}
	return out
}

func c10xFromBE(b []byte) uint64 {
	var v uint64
	for _, x := range b {
		v = v<<8 | uint64(x)
	}
	return v
}

func c10xCat(parts ...[]byte) []byte {
	var out []byte
	for _, p := range parts {
		out = append(out, p...)
	}
	return out
}

const (
	c10xVarOK = iota
	c10xVarEmpty
	c10xVarTruncated
	c10xVarNonMinimal
)

// c10xRefBigSizeDec classifies the prefix of b as a BOLT-1 BigSize.
func c10xRefBigSizeDec(b []byte) (int, uint64, int) {
	if len(b) == 0 {
		return c10xVarEmpty, 0, 0
	}
	var need int
	var min uint64
	switch b[0] {
	case 0xfd:
		need, min = 2, 0xfd
	case 0xfe:
		need, min = 4, 0x10000
	case 0xff:
		need, min = 8, 0x100000000
	default:
		return c10xVarOK, uint64(b[0]), 1
	}
	if len(b) < 1+need {
		return c10xVarTruncated, 0, 0
	}
	v := c10xFromBE(b[1 : 1+need])
	if v < min {
		return c10xVarNonMinimal, 0, 0
	}
	return c10xVarOK, v, 1 + need
}

func c10xRefBigSizeEnc(v uint64) []byte {
	switch {
	case v < 0xfd:
		return []byte{byte(v)}
	case v < 0x10000:
		return c10xCat([]byte{0xfd}, c10xBE(v, 2))
	case v < 0x100000000:
		return c10xCat([]byte{0xfe}, c10xBE(v, 4))
	}
	return c10xCat([]byte{0xff}, c10xBE(v, 8))
}

type c10xTLVRec struct {
	typ uint64
	val []byte
}

// reasons why the reference rejects a stream
const (
	c10xOK = iota
	c10xBadVarInt
	c10xBadTruncated
	c10xBadOrder
	c10xBadTooLarge
	c10xBadKnown
)

// c10xTLVLenMax bounds the declared record lengths of the explored domain:
// every declared length is <= c10xTLVLenMax or > 65535 (the engine enumerates
// the feasible values of an allocation size; the p2p decoder refuses > 65535
// before allocating).
const c10xTLVLenMax = 12

// c10xKnown judges the value of a record the message knows (type, declared
// length, bytes after the length); c10xOK for types it does not know.
type c10xKnown func(typ, l uint64, rest []byte) int

// c10xRefTLV walks b as a BOLT-1 TLV stream read from a peer: minimal BigSize
// type and length, strictly increasing types, declared length <= 65535, known
// records well-formed, value bytes present.
func c10xRefTLV(b []byte, known c10xKnown) (int, []c10xTLVRec) {
	var recs []c10xTLVRec
	pos := 0
	first := true
	var prev uint64
	for pos < len(b) {
		st, typ, n := c10xRefBigSizeDec(b[pos:])
		if st == c10xVarNonMinimal {
			return c10xBadVarInt, nil
		}
		if st != c10xVarOK {
			return c10xBadTruncated, nil
		}
		pos += n
		if !first && typ <= prev {
			return c10xBadOrder, nil
		}
		st, l, n := c10xRefBigSizeDec(b[pos:])
		if st == c10xVarNonMinimal {
			return c10xBadVarInt, nil
		}
		if st != c10xVarOK {
			return c10xBadTruncated, nil
		}
		pos += n
		vAssume(l <= c10xTLVLenMax || l > 65535) // explored domain, see c10xTLVLenMax
		if l > 65535 {
			return c10xBadTooLarge, nil
		}
		if known != nil {
			if why := known(typ, l, b[pos:]); why != c10xOK {
				return why, nil
			}
		}
		if l > uint64(len(b)-pos) {
			return c10xBadTruncated, nil
		}
		end := pos + int(l)
		recs = append(recs, c10xTLVRec{typ: typ, val: b[pos:end]})
		pos = end
		first, prev = false, typ
	}
	return c10xOK, recs
}

func c10xErrClass(err error, why int) {
	switch why {
	case c10xBadVarInt:
		vAssert(errors.Is(err, tlv.ErrVarIntNotCanonical), "non-minimal BigSize is ErrVarIntNotCanonical")
	case c10xBadOrder:
		vReach("bad-order")
		vAssert(errors.Is(err, tlv.ErrStreamNotCanonical), "types not strictly increasing is ErrStreamNotCanonical")
	case c10xBadTooLarge:
		vAssert(errors.Is(err, tlv.ErrRecordTooLarge), "declared record length > 65535 is ErrRecordTooLarge")
	}
}

func c10xHasUnknown(recs []c10xTLVRec, known ...uint64) bool {
	for _, r := range recs {
		k := false
		for _, t := range known {
			if r.typ == t {
				k = true
			}
		}
		if !k {
			return true
		}
	}
	return false
}

func c10xFind(recs []c10xTLVRec, typ uint64) (c10xTLVRec, bool) {
	for _, r := range recs {
		if r.typ == typ {
			return r, true
		}
	}
	return c10xTLVRec{}, false
}

// c10xFixedLen builds a judge for records of a fixed length: types[i] must
// have exactly lens[i] value bytes (lnd's decoders of these records refuse any
// other declared length before reading the value).
func c10xFixedLen(types []uint64, lens []uint64) c10xKnown {
	return func(typ, l uint64, rest []byte) int {
		for i, t := range types {
			if typ == t && l != lens[i] {
				return c10xBadKnown
			}
		}
		return c10xOK
	}
}

// ---------------------------------------------------------------- public keys (copy of harness/C10)

var c10xGx = []byte{
	0x79, 0xbe, 0x66, 0x7e, 0xf9, 0xdc, 0xbb, 0xac, 0x55, 0xa0, 0x62, 0x95, 0xce, 0x87, 0x0b, 0x07,
	0x02, 0x9b, 0xfc, 0xdb, 0x2d, 0xce, 0x28, 0xd9, 0x59, 0xf2, 0x81, 0x5b, 0x16, 0xf8, 0x17, 0x98,
}

var c10xGy = []byte{
	0x48, 0x3a, 0xda, 0x77, 0x26, 0xa3, 0xc4, 0x65, 0x5d, 0xa4, 0xfb, 0xfc, 0x0e, 0x11, 0x08, 0xa8,
	0xfd, 0x17, 0xb4, 0x48, 0xa6, 0x85, 0x54, 0x19, 0x9c, 0x47, 0xd0, 0x8f, 0xfb, 0x10, 0xd4, 0xb8,
}

// c10xKeyBytes: G, -G, and a string with an invalid format byte.
func c10xKeyBytes(k int) []byte {
	switch k {
	case 0:
		return c10xCat([]byte{2}, c10xGx)
	case 1:
		return c10xCat([]byte{3}, c10xGx)
	}
	return c10xCat([]byte{5}, c10xGx)
}

// c10xParsePubKey stands in for btcec.ParsePubKey in the symbolic run only
// (native replay runs the real function): exact on the three strings of
// c10xKeyBytes, every other input is outside the explored domain.
func c10xParsePubKey(b []byte) (*btcec.PublicKey, error) {
	if len(b) != 33 {
		vAssume(false)
	}
	if b[0] == 5 {
		return nil, errors.New("invalid public key: unsupported format: 5")
	}
	vAssume((b[0] == 2 || b[0] == 3) && bytes.Equal(b[1:], c10xGx))
	var x, y btcec.FieldVal
	x.SetByteSlice(c10xGx)
	y.SetByteSlice(c10xGy)
	if b[0] == 3 {
		y.Negate(1).Normalize()
	}
	return btcec.NewPublicKey(&x, &y), nil
}

func c10xConfig() {
	vUnwind(1500)
	vReplace("github.com/btcsuite/btcd/btcec/v2.ParsePubKey", "github.com/lightningnetwork/lnd/lnwire.c10xParsePubKey")
	vAssumption("public-key fields hold one of three concrete strings (G, -G, invalid format byte 0x05); btcec.ParsePubKey is replaced in the symbolic run by a table for exactly these strings (native replay runs the real function)")
	vAssumption("declared TLV record lengths are <= 12 or > 65535")
}

func c10xEqCustom(a, b CustomRecords) bool {
	if len(a) != len(b) {
		return false
	}
	for k, v := range a {
		w, ok := b[k]
		if !ok || !bytes.Equal(v, w) {
			return false
		}
	}
	return true
}

func c10xEqKey(a, b *btcec.PublicKey) bool {
	if a == nil || b == nil {
		return a == nil && b == nil
	}
	return a.IsEqual(b)
}

func c10xEqFV(a, b *RawFeatureVector) bool {
	if a == nil || b == nil {
		return a == nil && b == nil
	}
	if len(a.features) != len(b.features) {
		return false
	}
	for k := range a.features {
		if _, ok := b.features[k]; !ok {
			return false
		}
	}
	return true
}

func c10xEqSigs(a, b []Sig) bool {
	if len(a) != len(b) {
		return false
	}
	for i := range a {
		if a[i].bytes != b[i].bytes {
			return false
		}
	}
	return true
}

func c10xEqScidPtr(a, b *ShortChannelID) bool {
	if a == nil || b == nil {
		return a == nil && b == nil
	}
	return *a == *b
}

func c10xEqQueryOpts(a, b *QueryOptions) bool {
	if a == nil || b == nil {
		return a == nil && b == nil
	}
	x, y := RawFeatureVector(*a), RawFeatureVector(*b)
	return c10xEqFV(&x, &y)
}

// ---------------------------------------------------------------- message table

const (
	c10xAdd = iota
	c10xCommit
	c10xReady
	c10xStfu
	c10xQRange
	c10xGTS
	c10xReplyEnd
	c10xAnnSigs
	c10xFCreated
	c10xFSigned
	c10xInit
	c10xNumMsgs
)

// c10xName prefixes every obligation text with the message type.
func c10xName(i int) string {
	return []string{"UpdateAddHTLC", "CommitSig", "ChannelReady", "Stfu", "QueryChannelRange", "GossipTimestampRange",
		"ReplyShortChanIDsEnd", "AnnounceSignatures1", "FundingCreated", "FundingSigned", "Init"}[i]
}

type c10xMsg struct {
	fixed   int       // bytes before the extension
	keyOff  int       // offset of a compressed public key, -1 if none
	tlv     bool      // Decode parses the extension as a TLV stream
	known   []uint64  // record types the message knows
	judge   c10xKnown // well-formedness of the known records
	repacks bool      // Encode rebuilds ExtraData from the known records only
	mk      func() Message
	extra   func(m Message) []byte
	eq      func(a, b Message) bool // every field except the extension data
}

// c10xQOptsJudge: query_options (type 1) is a feature vector of any length.
// Explored domain: only bits 0 and 7 of each value byte may be set (the real
// decoder forks per bit).
func c10xQOptsJudge(typ, l uint64, rest []byte) int {
	if typ == 1 {
		for i := 0; i < len(rest) && uint64(i) < l; i++ {
			vAssume(rest[i]&0x7e == 0)
		}
	}
	return c10xOK
}

func c10xMsgTable(i int) c10xMsg {
	switch i {
	case c10xAdd:
		// 32 channel_id, 8 id, 8 amount_msat, 32 payment_hash, 4 cltv_expiry, 1366 onion
		return c10xMsg{fixed: 1450, keyOff: -1, tlv: true, known: []uint64{0},
			judge: c10xFixedLen([]uint64{0}, []uint64{33}),
			mk:    func() Message { return &UpdateAddHTLC{} },
			extra: func(m Message) []byte { return m.(*UpdateAddHTLC).ExtraData },
			eq: func(a, b Message) bool {
				x, y := a.(*UpdateAddHTLC), b.(*UpdateAddHTLC)
				kx, ky := x.BlindingPoint.UnwrapOrFailV, y.BlindingPoint.UnwrapOrFailV
				_, _ = kx, ky
				return x.ChanID == y.ChanID && x.ID == y.ID && x.Amount == y.Amount &&
					x.PaymentHash == y.PaymentHash && x.Expiry == y.Expiry && x.OnionBlob == y.OnionBlob &&
					x.BlindingPoint.IsSome() == y.BlindingPoint.IsSome() &&
					c10xEqCustom(x.CustomRecords, y.CustomRecords)
			}}
	case c10xCommit:
		// 32 channel_id, 64 signature, 2 num_htlcs (+ 64 each)
		return c10xMsg{fixed: 98, keyOff: -1, tlv: true, known: []uint64{2},
			judge: c10xFixedLen([]uint64{2}, []uint64{98}),
			mk:    func() Message { return &CommitSig{} },
			extra: func(m Message) []byte { return m.(*CommitSig).ExtraData },
			eq: func(a, b Message) bool {
				x, y := a.(*CommitSig), b.(*CommitSig)
				return x.ChanID == y.ChanID && x.CommitSig.bytes == y.CommitSig.bytes &&
					c10xEqSigs(x.HtlcSigs, y.HtlcSigs) && x.PartialSig == y.PartialSig &&
					c10xEqCustom(x.CustomRecords, y.CustomRecords)
			}}
	case c10xReady:
		return c10xMsg{fixed: 65, keyOff: 32, tlv: true, known: []uint64{0, 1, 2, 4}, repacks: true,
			judge: c10xFixedLen([]uint64{0, 1, 2, 4}, []uint64{66, 8, 66, 66}),
			mk:    func() Message { return &ChannelReady{} },
			extra: func(m Message) []byte { return m.(*ChannelReady).ExtraData },
			eq: func(a, b Message) bool {
				x, y := a.(*ChannelReady), b.(*ChannelReady)
				return x.ChanID == y.ChanID && c10xEqKey(x.NextPerCommitmentPoint, y.NextPerCommitmentPoint) &&
					c10xEqScidPtr(x.AliasScid, y.AliasScid) && x.NextLocalNonce == y.NextLocalNonce &&
					x.AnnouncementNodeNonce == y.AnnouncementNodeNonce &&
					x.AnnouncementBitcoinNonce == y.AnnouncementBitcoinNonce
			}}
	case c10xStfu:
		return c10xMsg{fixed: 33, keyOff: -1,
			mk:    func() Message { return &Stfu{} },
			extra: func(m Message) []byte { return m.(*Stfu).ExtraData },
			eq: func(a, b Message) bool {
				x, y := a.(*Stfu), b.(*Stfu)
				return x.ChanID == y.ChanID && x.Initiator == y.Initiator
			}}
	case c10xQRange:
		return c10xMsg{fixed: 40, keyOff: -1, tlv: true, known: []uint64{1}, repacks: true,
			judge: c10xQOptsJudge,
			mk:    func() Message { return &QueryChannelRange{} },
			extra: func(m Message) []byte { return m.(*QueryChannelRange).ExtraData },
			eq: func(a, b Message) bool {
				x, y := a.(*QueryChannelRange), b.(*QueryChannelRange)
				return x.ChainHash == y.ChainHash && x.FirstBlockHeight == y.FirstBlockHeight &&
					x.NumBlocks == y.NumBlocks && c10xEqQueryOpts(x.QueryOptions, y.QueryOptions)
			}}
	case c10xGTS:
		return c10xMsg{fixed: 40, keyOff: -1, tlv: true, known: []uint64{2, 4}, repacks: true,
			judge: c10xFixedLen([]uint64{2, 4}, []uint64{4, 4}),
			mk:    func() Message { return &GossipTimestampRange{} },
			extra: func(m Message) []byte { return m.(*GossipTimestampRange).ExtraData },
			eq: func(a, b Message) bool {
				x, y := a.(*GossipTimestampRange), b.(*GossipTimestampRange)
				return x.ChainHash == y.ChainHash && x.FirstTimestamp == y.FirstTimestamp &&
					x.TimestampRange == y.TimestampRange && x.FirstBlockHeight == y.FirstBlockHeight &&
					x.BlockRange == y.BlockRange
			}}
	case c10xReplyEnd:
		return c10xMsg{fixed: 33, keyOff: -1,
			mk:    func() Message { return &ReplyShortChanIDsEnd{} },
			extra: func(m Message) []byte { return m.(*ReplyShortChanIDsEnd).ExtraData },
			eq: func(a, b Message) bool {
				x, y := a.(*ReplyShortChanIDsEnd), b.(*ReplyShortChanIDsEnd)
				return x.ChainHash == y.ChainHash && x.Complete == y.Complete
			}}
	case c10xAnnSigs:
		return c10xMsg{fixed: 168, keyOff: -1,
			mk:    func() Message { return &AnnounceSignatures1{} },
			extra: func(m Message) []byte { return m.(*AnnounceSignatures1).ExtraOpaqueData },
			eq: func(a, b Message) bool {
				x, y := a.(*AnnounceSignatures1), b.(*AnnounceSignatures1)
				return x.ChannelID == y.ChannelID && x.ShortChannelID == y.ShortChannelID &&
					x.NodeSignature.bytes == y.NodeSignature.bytes &&
					x.BitcoinSignature.bytes == y.BitcoinSignature.bytes
			}}
	case c10xFCreated:
		// 32 temporary_channel_id, 32 funding_txid, 2 funding_output_index, 64 signature
		return c10xMsg{fixed: 130, keyOff: -1, tlv: true, known: []uint64{2}, repacks: true,
			judge: c10xFixedLen([]uint64{2}, []uint64{98}),
			mk:    func() Message { return &FundingCreated{} },
			extra: func(m Message) []byte { return m.(*FundingCreated).ExtraData },
			eq: func(a, b Message) bool {
				x, y := a.(*FundingCreated), b.(*FundingCreated)
				return x.PendingChannelID == y.PendingChannelID && x.FundingPoint == y.FundingPoint &&
					x.CommitSig.bytes == y.CommitSig.bytes && x.PartialSig == y.PartialSig
			}}
	case c10xFSigned:
		return c10xMsg{fixed: 96, keyOff: -1, tlv: true, known: []uint64{2}, repacks: true,
			judge: c10xFixedLen([]uint64{2}, []uint64{98}),
			mk:    func() Message { return &FundingSigned{} },
			extra: func(m Message) []byte { return m.(*FundingSigned).ExtraData },
			eq: func(a, b Message) bool {
				x, y := a.(*FundingSigned), b.(*FundingSigned)
				return x.ChanID == y.ChanID && x.CommitSig.bytes == y.CommitSig.bytes && x.PartialSig == y.PartialSig
			}}
	}
	// Init: 2 gflen, gf, 2 flen, f; the fixed length is decided by the body shape
	return c10xMsg{fixed: 4, keyOff: -1, tlv: true,
		mk:    func() Message { return &Init{} },
		extra: func(m Message) []byte { return m.(*Init).ExtraData },
		eq: func(a, b Message) bool {
			x, y := a.(*Init), b.(*Init)
			return c10xEqFV(x.GlobalFeatures, y.GlobalFeatures) && c10xEqFV(x.Features, y.Features) &&
				c10xEqCustom(x.CustomRecords, y.CustomRecords)
		}}
}

// c10xPart splits the message types over five processes of similar cost.
func c10xPart(msg int) int {
	switch msg {
	case c10xAdd, c10xStfu, c10xReplyEnd:
		return 0
	case c10xCommit, c10xAnnSigs, c10xFSigned:
		return 1
	case c10xReady, c10xGTS, c10xFCreated:
		return 2
	}
	if msg == c10xQRange {
		return 3
	}
	return 4 // Init
}

// c10xFeatureByte: a feature-vector byte of the explored domain (bits 0 and 7
// arbitrary, the others clear: the real decoder forks once per bit).
func c10xFeatureByte(name string) byte {
	return vU8(name) & 0x81
}

// c10xBody builds the symbolic body of message i with e extension bytes (or,
// short == true, a fixed part that is one byte short). It returns the body,
// the offset of the extension, whether the fixed part is complete and
// well-formed, and whether the body is canonical (re-encodes byte-identically
// when accepted).
func c10xBody(i int, spec c10xMsg, e int, short bool) (body []byte, tlvOff int, fixedOK, canon bool) {
	fixedOK, canon = true, true
	switch i {
	case c10xAdd:
		// the 1366-byte onion packet is concrete except for three bytes (first,
		// middle, last); everything else is symbolic
		pre := vBytes("b", 84)
		onion := make([]byte, 1366)
		for k := range onion {
			onion[k] = byte(k*7 + 1)
		}
		onion[0], onion[700], onion[1365] = vU8("o0"), vU8("o1"), vU8("o2")
		if short {
			return c10xCat(pre, onion[:1365]), 1449, false, true
		}
		return c10xCat(pre, onion, vBytes("x", e)), 1450, true, true
	case c10xCommit:
		ns := vChoice("nsig", 3)
		n := 98 + 64*ns + e
		if short {
			n = 98 + 64*ns - 1
			if ns == 0 {
				n = 97
			}
		}
		body = vBytes("b", n)
		if n < 98 {
			return body, n, false, true
		}
		decl := c10xFromBE(body[96:98])
		// explored domain: the declared number of HTLC signatures is the number
		// present, or one more (short read)
		vAssume(decl == uint64(ns) || decl == uint64(ns)+1)
		if short || decl != uint64(ns) {
			// e < 64 bytes after the signatures present: never a whole signature
			return body, n, false, true
		}
		return body, 98 + 64*ns, true, true
	case c10xInit:
		sh := vChoice("ishape", 4)
		gl := []int{0, 1, 0, 1}[sh]
		fl := []int{0, 0, 2, 1}[sh]
		g := make([]byte, gl)
		for k := range g {
			g[k] = c10xFeatureByte("g")
		}
		f := make([]byte, fl)
		for k := range f {
			f[k] = c10xFeatureByte("f")
		}
		if (gl > 0 && g[0] == 0) || (fl > 0 && f[0] == 0) {
			canon = false // a leading zero byte of a feature vector is not written back
		}
		body = c10xCat(c10xBE(uint64(gl), 2), g, c10xBE(uint64(fl), 2), f)
		if short {
			return body[:len(body)-1], len(body) - 1, false, true
		}
		tlvOff = len(body)
		return c10xCat(body, vBytes("x", e)), tlvOff, true, canon
	}
	n := spec.fixed + e
	if short {
		n = spec.fixed - 1
	}
	body = vBytes("b", n)
	if spec.keyOff >= 0 && n >= spec.keyOff+33 {
		k := vChoice("key", 3)
		if k != 0 && e != 0 {
			vAssume(false) // -G and the invalid key are explored with an empty extension only
		}
		copy(body[spec.keyOff:], c10xKeyBytes(k))
		if k == 2 {
			fixedOK = false
		}
	}
	if short {
		return body, n, false, true
	}
	if i == c10xStfu && body[32] > 1 {
		canon = false // any byte other than 1 reads as false and is written back as 0
	}
	return body, spec.fixed, fixedOK, canon
}

const c10xExtraQuick = 3
const c10xExtraDeep = 5

// VerifC10xMsgBytes: see the file comment.
func VerifC10xMsgBytes() { c10xMsgBytes(c10xExtraQuick, true) }

// VerifC10xMsgBytesDeep: the same with up to c10xExtraDeep extension bytes,
// one process per message type.
func VerifC10xMsgBytesDeep() { c10xMsgBytes(c10xExtraDeep, false) }

func c10xMsgBytes(emax int, parts bool) {
	c10xConfig()
	if parts {
		part := vChoice("part", 5)
		i := vChoice("msg", c10xNumMsgs)
		if c10xPart(i) != part {
			vAssume(false) // belongs to another process
		}
		c10xMsgBytesOne(i, emax)
		return
	}
	c10xMsgBytesOne(vChoice("msg", c10xNumMsgs), emax)
}

func c10xMsgBytesOne(i int, emax int) {
	spec := c10xMsgTable(i)
	nm := c10xName(i)
	// e = 0..emax extension bytes; the last choice is the short fixed part
	ec := vChoice("extra", emax+2)
	short := ec == emax+1
	e := ec
	if short {
		e = 0
	}
	body, tlvOff, fixedOK, canon := c10xBody(i, spec, e, short)
	why, recs := c10xOK, []c10xTLVRec(nil)
	if spec.tlv && fixedOK {
		why, recs = c10xRefTLV(body[tlvOff:], spec.judge)
	}
	if i == c10xQRange {
		// a query_options vector with a leading zero byte is not written back
		if r, ok := c10xFind(recs, 1); ok && len(r.val) > 0 && r.val[0] == 0 {
			canon = false
		}
	}
	wantOK := fixedOK && why == c10xOK
	in := append([]byte{}, body...)
	m := spec.mk()
	err := m.Decode(bytes.NewReader(in), 0)
	vObserve("msg", i)
	vAssert((err == nil) == wantOK, nm+": a body is accepted exactly when the fixed part is complete and the extension is a canonical BOLT-1 TLV stream with well-formed known records")
	if err != nil {
		vReach("reject")
		if fixedOK {
			c10xErrClass(err, why)
		}
		return
	}
	vReach("accept")
	unknown := c10xHasUnknown(recs, spec.known...)
	extra0 := append([]byte{}, spec.extra(m)...)
	if !spec.tlv || spec.repacks {
		vAssert(bytes.Equal(extra0, body[tlvOff:]), nm+": extension data are the bytes after the fixed part")
	}
	var w1 bytes.Buffer
	vAssert(m.Encode(&w1, 0) == nil, nm+": a decoded message re-encodes")
	enc1 := append([]byte{}, w1.Bytes()...)
	vAssert(len(enc1) <= 65535, nm+": encoding fits the 65535-byte message bound")
	m2 := spec.mk()
	vAssert(m2.Decode(bytes.NewReader(enc1), 0) == nil, nm+": the re-encoding decodes")
	vAssert(spec.eq(m, m2), nm+": decode(encode(decode(b))) equals decode(b) (known fields)")
	switch {
	case spec.repacks && unknown:
		// messages that rebuild ExtraData from their known records drop unknown
		// records: that case is the subject of VerifC10xUnknownKept
		vReach("repack-unknown")
	case !canon:
		vReach("non-canonical")
		vAssert(len(enc1) <= len(body), nm+": a non-canonical body re-encodes to at most its length")
		if i == c10xStfu {
			vAssert(bytes.Equal(extra0, spec.extra(m2)), nm+": decode(encode(decode(b))) equals decode(b) (extension data)")
			vAssert(bytes.Equal(enc1[:32], body[:32]) && enc1[32] == 0 && bytes.Equal(enc1[33:], body[33:]),
				"Stfu: an initiator byte other than 1 is written back as 0, everything else unchanged")
		}
	default:
		vAssert(bytes.Equal(extra0, spec.extra(m2)), nm+": decode(encode(decode(b))) equals decode(b) (extension data)")
		vAssert(bytes.Equal(enc1, body), nm+": lossless: encode(decode(b)) == b")
	}
	var w2 bytes.Buffer
	vAssert(m2.Encode(&w2, 0) == nil, nm+": the second encoding succeeds")
	vAssert(bytes.Equal(w2.Bytes(), enc1), nm+": canonical fixpoint: encode(decode(encode(decode(b)))) == encode(decode(b))")
}

// VerifC10xUnknownKept: the property demands that unknown records survive
// decode -> encode -> decode. ChannelReady, QueryChannelRange,
// GossipTimestampRange, FundingCreated and FundingSigned rebuild ExtraData
// from their known records in Encode (same family as the open known findings
// of C10 for RevokeAndAck / ChannelReestablish / ClosingSigned).
func VerifC10xUnknownKept() {
	c10xConfig()
	which := vChoice("msg", 5)
	i := []int{c10xReady, c10xQRange, c10xGTS, c10xFCreated, c10xFSigned}[which]
	spec := c10xMsgTable(i)
	e := 2 + vChoice("extra", 2)
	body, tlvOff, fixedOK, _ := c10xBody(i, spec, e, false)
	vAssume(fixedOK)
	why, recs := c10xRefTLV(body[tlvOff:], spec.judge)
	vAssume(why == c10xOK && c10xHasUnknown(recs, spec.known...))
	m := spec.mk()
	if m.Decode(bytes.NewReader(append([]byte{}, body...)), 0) != nil {
		return
	}
	extra0 := append([]byte{}, spec.extra(m)...)
	var w1 bytes.Buffer
	vAssert(m.Encode(&w1, 0) == nil, "a decoded message re-encodes")
	m2 := spec.mk()
	vAssert(m2.Decode(bytes.NewReader(w1.Bytes()), 0) == nil, "the re-encoding decodes")
	kept := bytes.Equal(extra0, spec.extra(m2))
	switch i {
	case c10xReady:
		vAssert(kept, "ChannelReady: unknown TLV records survive decode -> encode -> decode")
	case c10xQRange:
		vAssert(kept, "QueryChannelRange: unknown TLV records survive decode -> encode -> decode")
	case c10xGTS:
		vAssert(kept, "GossipTimestampRange: unknown TLV records survive decode -> encode -> decode")
	case c10xFCreated:
		vAssert(kept, "FundingCreated: unknown TLV records survive decode -> encode -> decode")
	default:
		vAssert(kept, "FundingSigned: unknown TLV records survive decode -> encode -> decode")
	}
}

// ---------------------------------------------------------------- value -> bytes -> value

func c10xChan(name string) (c ChannelID) {
	copy(c[:], vBytes(name, 32))
	return c
}

func c10xArr32(name string) (a [32]byte) {
	copy(a[:], vBytes(name, 32))
	return a
}

func c10xSig(name string) (s Sig) {
	copy(s.bytes[:], vBytes(name, 64))
	return s
}

// c10xExtraShape: ExtraData that is empty or one unknown record with a
// one-byte type (none of the avoided known types) and <= 1 value byte.
func c10xExtraShape(avoid ...uint8) ExtraOpaqueData {
	sh := vChoice("xshape", 3)
	if sh == 0 {
		return nil
	}
	t := vU8("xtype")
	vAssume(t < 0xfd)
	for _, a := range avoid {
		vAssume(t != a)
	}
	if sh == 1 {
		return ExtraOpaqueData{t, 0}
	}
	return ExtraOpaqueData{t, 1, vU8("xval")}
}

// c10xCustomShape: custom records absent or one record of an arbitrary 64-bit
// type with <= 1 value byte, its BOLT-1 encoding, and whether the type is in
// the custom range (>= 65536).
func c10xCustomShape() (CustomRecords, []byte, bool) {
	sh := vChoice("cshape", 3)
	if sh == 0 {
		return nil, nil, true
	}
	k := vU64("ctype")
	v := vBytes("cval", sh-1)
	rec := c10xCat(c10xRefBigSizeEnc(k), []byte{byte(len(v))}, v)
	return CustomRecords{k: v}, rec, k >= 65536
}

func c10xNonce() (n Musig2Nonce) {
	copy(n[:33], c10xKeyBytes(0))
	copy(n[33:], c10xKeyBytes(1))
	return n
}

// c10xPartialSig returns an optional partial-signature-with-nonce record
// (type 2, 32-byte scalar then 66-byte nonce) and its encoding.
func c10xPartialSig() (OptPartialSigWithNonceTLV, []byte) {
	var none OptPartialSigWithNonceTLV
	if vChoice("psig", 2) == 0 {
		return none, nil
	}
	var sc btcec.ModNScalar
	raw := c10xBE(0x0102030405060708, 32)
	sc.SetByteSlice(raw)
	n := c10xNonce()
	return MaybePartialSigWithNonce(NewPartialSigWithNonce(n, sc)), c10xCat([]byte{2, 98}, raw, n[:])
}

// c10xFeatures builds a feature vector from optional bits and returns it with
// its BOLT encoding without the length prefix (big-endian bit field, minimal
// length).
func c10xFeatures(name string, bits ...int) (*RawFeatureVector, []byte) {
	fv := NewRawFeatureVector()
	max := -1
	var set []int
	for _, b := range bits {
		if vBool(name) {
			fv.Set(FeatureBit(b))
			set = append(set, b)
			if b > max {
				max = b
			}
		}
	}
	if max < 0 {
		return fv, nil
	}
	data := make([]byte, max/8+1)
	for _, b := range set {
		data[len(data)-1-b/8] |= 1 << uint(b%8)
	}
	return fv, data
}

// VerifC10xMsgValue: see the file comment.
func VerifC10xMsgValue() {
	c10xConfig()
	i := vChoice("msg", c10xNumMsgs)
	spec := c10xMsgTable(i)
	nm := c10xName(i)
	var (
		m          Message
		want       []byte
		wellFormed = true
	)
	key := func() (*btcec.PublicKey, []byte) {
		kb := c10xKeyBytes(vChoice("key", 2))
		pk, err := btcec.ParsePubKey(kb)
		vAssert(err == nil, "harness key parses")
		return pk, kb
	}
	switch i {
	case c10xAdd:
		cr, crb, ok := c10xCustomShape()
		x := &UpdateAddHTLC{ChanID: c10xChan("chan"), ID: vU64("id"), Amount: MilliSatoshi(vU64("amt")),
			PaymentHash: c10xArr32("hash"), Expiry: vU32("expiry"), CustomRecords: cr, ExtraData: c10xExtraShape(0)}
		for k := range x.OnionBlob {
			x.OnionBlob[k] = byte(k*5 + 3)
		}
		x.OnionBlob[0], x.OnionBlob[683], x.OnionBlob[1365] = vU8("o0"), vU8("o1"), vU8("o2")
		var bp []byte
		if vChoice("blind", 2) == 1 {
			pk, kb := key()
			x.BlindingPoint = tlv.SomeRecordT(tlv.NewPrimitiveRecord[BlindingPointTlvType](pk))
			bp = c10xCat([]byte{0, 33}, kb)
		}
		m, wellFormed = x, ok
		want = c10xCat(x.ChanID[:], c10xBE(x.ID, 8), c10xBE(uint64(x.Amount), 8), x.PaymentHash[:],
			c10xBE(uint64(x.Expiry), 4), x.OnionBlob[:], bp, x.ExtraData, crb)
	case c10xCommit:
		cr, crb, ok := c10xCustomShape()
		x := &CommitSig{ChanID: c10xChan("chan"), CommitSig: c10xSig("sig"), CustomRecords: cr, ExtraData: c10xExtraShape(2)}
		ns := vChoice("nsig", 3)
		var sigs []byte
		for k := 0; k < ns; k++ {
			s := c10xSig("hsig")
			x.HtlcSigs = append(x.HtlcSigs, s)
			sigs = c10xCat(sigs, s.bytes[:])
		}
		ps, psb := c10xPartialSig()
		x.PartialSig = ps
		m, wellFormed = x, ok
		var ext []byte
		if len(x.ExtraData) > 0 && x.ExtraData[0] < 2 {
			ext = c10xCat(x.ExtraData, psb)
		} else {
			ext = c10xCat(psb, x.ExtraData)
		}
		want = c10xCat(x.ChanID[:], x.CommitSig.bytes[:], c10xBE(uint64(ns), 2), sigs, ext, crb)
	case c10xReady:
		pk, kb := key()
		x := &ChannelReady{ChanID: c10xChan("chan"), NextPerCommitmentPoint: pk}
		want = c10xCat(x.ChanID[:], kb)
		n := c10xNonce()
		nsh := vChoice("nonces", 3) // none / next local nonce only / all three
		if nsh == 2 {
			x.AnnouncementNodeNonce = tlv.SomeRecordT(tlv.NewRecordT[tlv.TlvType0, Musig2Nonce](n))
			want = c10xCat(want, []byte{0, 66}, n[:])
		}
		if vChoice("alias", 2) == 1 {
			// wire widths of a short channel id: 3-byte block height, 3-byte tx
			// index, 2-byte output index
			blk, tx := vU32("ablock"), vU32("atx")
			vAssume(blk < 1<<24 && tx < 1<<24)
			a := ShortChannelID{BlockHeight: blk, TxIndex: tx, TxPosition: vU16("apos")}
			x.AliasScid = &a
			want = c10xCat(want, []byte{1, 8}, c10xBE(uint64(blk), 3), c10xBE(uint64(tx), 3), c10xBE(uint64(a.TxPosition), 2))
		}
		if nsh == 2 {
			x.AnnouncementBitcoinNonce = tlv.SomeRecordT(tlv.NewRecordT[tlv.TlvType2, Musig2Nonce](n))
			want = c10xCat(want, []byte{2, 66}, n[:])
		}
		if nsh >= 1 {
			x.NextLocalNonce = SomeMusig2Nonce(n)
			want = c10xCat(want, []byte{4, 66}, n[:])
		}
		m = x
	case c10xStfu:
		x := &Stfu{ChanID: c10xChan("chan"), Initiator: vBool("initiator"), ExtraData: vBytes("x", vChoice("xlen", 4))}
		if len(x.ExtraData) == 0 {
			x.ExtraData = nil
		}
		ib := byte(0)
		if x.Initiator {
			ib = 1
		}
		m = x
		want = c10xCat(x.ChanID[:], []byte{ib}, x.ExtraData)
	case c10xQRange:
		x := &QueryChannelRange{ChainHash: chainhash.Hash(c10xArr32("chain")), FirstBlockHeight: vU32("first"), NumBlocks: vU32("num")}
		want = c10xCat(x.ChainHash[:], c10xBE(uint64(x.FirstBlockHeight), 4), c10xBE(uint64(x.NumBlocks), 4))
		if vChoice("qopts", 2) == 1 {
			fv, data := c10xFeatures("qbit", 0, 9)
			q := QueryOptions(*fv)
			x.QueryOptions = &q
			want = c10xCat(want, []byte{1, byte(len(data))}, data)
		}
		m = x
	case c10xGTS:
		x := &GossipTimestampRange{ChainHash: chainhash.Hash(c10xArr32("chain")), FirstTimestamp: vU32("first"), TimestampRange: vU32("range")}
		want = c10xCat(x.ChainHash[:], c10xBE(uint64(x.FirstTimestamp), 4), c10xBE(uint64(x.TimestampRange), 4))
		if vChoice("fb", 2) == 1 {
			v := vU32("firstblock")
			x.FirstBlockHeight = tlv.SomeRecordT(tlv.NewPrimitiveRecord[tlv.TlvType2](v))
			want = c10xCat(want, []byte{2, 4}, c10xBE(uint64(v), 4))
		}
		if vChoice("br", 2) == 1 {
			v := vU32("blockrange")
			x.BlockRange = tlv.SomeRecordT(tlv.NewPrimitiveRecord[tlv.TlvType4](v))
			want = c10xCat(want, []byte{4, 4}, c10xBE(uint64(v), 4))
		}
		m = x
	case c10xReplyEnd:
		x := &ReplyShortChanIDsEnd{ChainHash: chainhash.Hash(c10xArr32("chain")), Complete: vU8("complete"), ExtraData: vBytes("x", vChoice("xlen", 4))}
		m = x
		want = c10xCat(x.ChainHash[:], []byte{x.Complete}, x.ExtraData)
	case c10xAnnSigs:
		x := &AnnounceSignatures1{ChannelID: c10xChan("chan"),
			ShortChannelID:   ShortChannelID{BlockHeight: vU32("block"), TxIndex: vU32("tx"), TxPosition: vU16("pos")},
			NodeSignature:    c10xSig("nsig"),
			BitcoinSignature: c10xSig("bsig"), ExtraOpaqueData: vBytes("x", vChoice("xlen", 4))}
		s := x.ShortChannelID
		m, wellFormed = x, s.BlockHeight < 1<<24 && s.TxIndex < 1<<24
		want = c10xCat(x.ChannelID[:], c10xBE(uint64(s.BlockHeight), 3), c10xBE(uint64(s.TxIndex), 3), c10xBE(uint64(s.TxPosition), 2),
			x.NodeSignature.bytes[:], x.BitcoinSignature.bytes[:], x.ExtraOpaqueData)
	case c10xFCreated:
		x := &FundingCreated{PendingChannelID: c10xArr32("pending"),
			FundingPoint: wire.OutPoint{Hash: chainhash.Hash(c10xArr32("txid")), Index: vU32("index")},
			CommitSig:    c10xSig("sig")}
		ps, psb := c10xPartialSig()
		x.PartialSig = ps
		m, wellFormed = x, x.FundingPoint.Index < 1<<16
		want = c10xCat(x.PendingChannelID[:], x.FundingPoint.Hash[:], c10xBE(uint64(x.FundingPoint.Index), 2), x.CommitSig.bytes[:], psb)
	case c10xFSigned:
		x := &FundingSigned{ChanID: c10xChan("chan"), CommitSig: c10xSig("sig")}
		ps, psb := c10xPartialSig()
		x.PartialSig = ps
		m = x
		want = c10xCat(x.ChanID[:], x.CommitSig.bytes[:], psb)
	default:
		cr, crb, ok := c10xCustomShape()
		gf, gb := c10xFeatures("gbit", 3)
		ff, fb := c10xFeatures("fbit", 0, 9)
		x := &Init{GlobalFeatures: gf, Features: ff, CustomRecords: cr, ExtraData: c10xExtraShape()}
		m, wellFormed = x, ok
		want = c10xCat(c10xBE(uint64(len(gb)), 2), gb, c10xBE(uint64(len(fb)), 2), fb, x.ExtraData, crb)
	}
	vObserve("msg", i)
	var w bytes.Buffer
	err := m.Encode(&w, 0)
	vAssert((err == nil) == wellFormed, nm+": Encode succeeds exactly on well-formed values (custom record types >= 65536, field values within the wire widths)")
	if err != nil {
		vReach("refused")
		return
	}
	vReach("encoded")
	enc := append([]byte{}, w.Bytes()...)
	vAssert(len(enc) <= 65535, nm+": encoding fits the 65535-byte message bound")
	vAssert(bytes.Equal(enc, want), nm+": Encode produces the BOLT field layout followed by the TLV records in type order")
	// (messages that rebuild ExtraData store the packed known records there)
	extra0 := append([]byte{}, spec.extra(m)...)
	m2 := spec.mk()
	vAssert(m2.Decode(bytes.NewReader(enc), 0) == nil, nm+": Decode accepts what Encode wrote")
	vAssert(spec.eq(m, m2), nm+": decode(encode(m)) == m (fields, optional records, custom records)")
	vAssert(bytes.Equal(extra0, spec.extra(m2)), nm+": decode(encode(m)) == m (extension data)")
	if a, ok := m.(*UpdateAddHTLC); ok {
		b := m2.(*UpdateAddHTLC)
		if a.BlindingPoint.IsSome() {
			vAssert(b.BlindingPoint.IsSome() && c10xEqKey(a.BlindingPoint.ValOpt().UnwrapOr(nil), b.BlindingPoint.ValOpt().UnwrapOr(nil)),
				"decode(encode(m)) == m (blinding point)")
		}
	}
}

// ---------------------------------------------------------------- onion failure codec (BOLT-4)

// BOLT-4 failure-code flags and numbers, written from the specification.
const (
	c10xBADONION = 0x8000
	c10xPERM     = 0x4000
	c10xNODE     = 0x2000
)

const c10xNumFailKinds = 20

// c10xFailure returns failure message k with symbolic fields, its BOLT-4
// failure code and the BOLT-4 encoding of its fields.
func c10xFailure(k int) (FailureMessage, uint16, []byte) {
	switch k {
	case 0:
		return &FailInvalidRealm{}, c10xPERM | 1, nil
	case 1:
		return &FailTemporaryNodeFailure{}, c10xNODE | 2, nil
	case 2:
		return &FailPermanentNodeFailure{}, c10xPERM | c10xNODE | 2, nil
	case 3:
		return &FailRequiredNodeFeatureMissing{}, c10xPERM | c10xNODE | 3, nil
	case 4:
		return &FailPermanentChannelFailure{}, c10xPERM | 8, nil
	case 5:
		return &FailRequiredChannelFeatureMissing{}, c10xPERM | 9, nil
	case 6:
		return &FailUnknownNextPeer{}, c10xPERM | 10, nil
	case 7:
		return &FailIncorrectPaymentAmount{}, c10xPERM | 16, nil
	case 8:
		return &FailFinalExpiryTooSoon{}, 17, nil
	case 9:
		return &FailExpiryTooFar{}, 21, nil
	case 10:
		return &FailMPPTimeout{}, 23, nil
	case 11:
		f := &FailIncorrectDetails{amount: MilliSatoshi(vU64("amt")), height: vU32("height"),
			extraOpaqueData: vBytes("x", vChoice("xlen", 3))}
		return f, c10xPERM | 15, c10xCat(c10xBE(uint64(f.amount), 8), c10xBE(uint64(f.height), 4), f.extraOpaqueData)
	case 12:
		f := &FailFinalIncorrectCltvExpiry{CltvExpiry: vU32("cltv")}
		return f, 18, c10xBE(uint64(f.CltvExpiry), 4)
	case 13:
		f := &FailFinalIncorrectHtlcAmount{IncomingHTLCAmount: MilliSatoshi(vU64("amt"))}
		return f, 19, c10xBE(uint64(f.IncomingHTLCAmount), 8)
	case 14:
		f := &FailInvalidOnionVersion{OnionSHA256: c10xArr32("sha")}
		return f, c10xBADONION | c10xPERM | 4, f.OnionSHA256[:]
	case 15:
		f := &FailInvalidOnionHmac{OnionSHA256: c10xArr32("sha")}
		return f, c10xBADONION | c10xPERM | 5, f.OnionSHA256[:]
	case 16:
		f := &FailInvalidOnionKey{OnionSHA256: c10xArr32("sha")}
		return f, c10xBADONION | c10xPERM | 6, f.OnionSHA256[:]
	case 17:
		f := &FailInvalidBlinding{OnionSHA256: c10xArr32("sha")}
		return f, c10xBADONION | c10xPERM | 24, f.OnionSHA256[:]
	}
	// invalid_onion_payload: bigsize type, u16 offset (two kinds: one for the
	// 1-byte and one for all encodings of the type)
	f := &InvalidOnionPayload{Type: vU64("ptype"), Offset: vU16("poffset")}
	if k == 18 {
		vAssume(f.Type < 0xfd)
	}
	return f, c10xPERM | 22, c10xCat(c10xRefBigSizeEnc(f.Type), c10xBE(uint64(f.Offset), 2))
}

func c10xSameFailure(a, b FailureMessage) bool {
	switch x := a.(type) {
	case *FailIncorrectDetails:
		y, ok := b.(*FailIncorrectDetails)
		return ok && x.amount == y.amount && x.height == y.height && bytes.Equal(x.extraOpaqueData, y.extraOpaqueData)
	case *FailFinalIncorrectCltvExpiry:
		y, ok := b.(*FailFinalIncorrectCltvExpiry)
		return ok && *x == *y
	case *FailFinalIncorrectHtlcAmount:
		y, ok := b.(*FailFinalIncorrectHtlcAmount)
		return ok && *x == *y
	case *FailInvalidOnionVersion:
		y, ok := b.(*FailInvalidOnionVersion)
		return ok && *x == *y
	case *FailInvalidOnionHmac:
		y, ok := b.(*FailInvalidOnionHmac)
		return ok && *x == *y
	case *FailInvalidOnionKey:
		y, ok := b.(*FailInvalidOnionKey)
		return ok && *x == *y
	case *FailInvalidBlinding:
		y, ok := b.(*FailInvalidBlinding)
		return ok && *x == *y
	case *InvalidOnionPayload:
		y, ok := b.(*InvalidOnionPayload)
		return ok && *x == *y
	}
	// failures without fields: the code decides (asserted by the caller)
	return a.Code() == b.Code()
}

// VerifC10xFailure: for failure messages with symbolic fields EncodeFailure
// produces exactly the BOLT-4 failure packet (u16 length, u16 failure code,
// fields, u16 pad length, zero padding up to 256 bytes of message + padding),
// DecodeFailure returns an equal failure; the padding content is ignored, and
// a packet that is truncated, has a trailing byte, or whose message and
// padding total less than 256 bytes is refused; a decoded failure re-encodes
// to the canonical packet (fixpoint).
func VerifC10xFailure() {
	c10xConfig()
	k := vChoice("kind", c10xNumFailKinds)
	f, code, fields := c10xFailure(k)
	nm := c10xFailName(k)
	if k == 0 {
		// lnd numbers invalid_realm BADONION|1 where BOLT-4 has PERM|1: that is
		// the subject of VerifC10xFailureRealmCode (candidate finding); here the
		// packet layout is checked with lnd's number
		code = c10xBADONION | 1
	}
	vObserve("kind", k)
	var w bytes.Buffer
	vAssert(EncodeFailure(&w, f, 0) == nil, nm+": EncodeFailure succeeds on a failure that fits 256 bytes")
	enc := append([]byte{}, w.Bytes()...)
	l := 2 + len(fields)
	msg := c10xCat(c10xBE(uint64(code), 2), fields)
	want := c10xCat(c10xBE(uint64(l), 2), msg, c10xBE(uint64(256-l), 2), make([]byte, 256-l))
	vAssert(len(enc) == 260, nm+": a failure packet is 2 + 256 + 2 bytes")
	vAssert(bytes.Equal(enc, want), nm+": EncodeFailure produces len, BOLT-4 failure code, fields, pad len, zero padding")
	vAssert(uint16(f.Code()) == code, nm+": failure code is the BOLT-4 number")

	mode := vChoice("mode", 5)
	in := append([]byte{}, enc...)
	wantOK := true
	switch mode {
	case 1: // arbitrary padding content
		in[2+l+2] = vU8("pad0")
		in[259] = vU8("padlast")
	case 2: // truncated
		in, wantOK = in[:259], false
	case 3: // trailing byte
		in, wantOK = append(in, vU8("trail")), false
	case 4: // message + padding one byte short of 256
		in = c10xCat(c10xBE(uint64(l), 2), msg, c10xBE(uint64(255-l), 2), make([]byte, 255-l))
		wantOK = false
	}
	g, err := DecodeFailure(bytes.NewReader(in), 0)
	switch mode {
	case 0:
		vAssert(err == nil, nm+": DecodeFailure accepts what EncodeFailure wrote")
	case 1:
		vAssert(err == nil, nm+": DecodeFailure ignores the content of the padding")
	case 2:
		vAssert(err != nil, nm+": DecodeFailure refuses a truncated packet")
	case 3:
		vAssert(err != nil, nm+": DecodeFailure refuses a packet with a trailing byte")
	default:
		vAssert(err != nil, nm+": DecodeFailure refuses a packet whose message and padding total less than 256 bytes")
	}
	_ = wantOK
	if err != nil {
		vReach("reject")
		return
	}
	vReach("accept")
	vAssert(g.Code() == FailCode(code), nm+": the decoded failure has the code on the wire")
	vAssert(c10xSameFailure(f, g), nm+": DecodeFailure(EncodeFailure(f)) == f")
	var w2 bytes.Buffer
	vAssert(EncodeFailure(&w2, g, 0) == nil, nm+": a decoded failure re-encodes")
	vAssert(bytes.Equal(w2.Bytes(), enc), nm+": canonical fixpoint: the re-encoding is the zero-padded packet")
}

func c10xFailName(k int) string {
	return []string{"invalid_realm", "temporary_node_failure", "permanent_node_failure", "required_node_feature_missing",
		"permanent_channel_failure", "required_channel_feature_missing", "unknown_next_peer", "incorrect_payment_amount",
		"final_expiry_too_soon", "expiry_too_far", "mpp_timeout", "incorrect_or_unknown_payment_details",
		"final_incorrect_cltv_expiry", "final_incorrect_htlc_amount", "invalid_onion_version", "invalid_onion_hmac",
		"invalid_onion_key", "invalid_onion_blinding", "invalid_onion_payload(1-byte type)", "invalid_onion_payload"}[k]
}

// VerifC10xFailureRealmCode: the failure code EncodeFailure writes for
// FailInvalidRealm is the BOLT-4 number PERM|1 (candidate finding: lnd writes
// BADONION|1).
func VerifC10xFailureRealmCode() {
	var w bytes.Buffer
	vAssert(EncodeFailure(&w, &FailInvalidRealm{}, 0) == nil, "EncodeFailure succeeds")
	enc := w.Bytes()
	vAssert(c10xFromBE(enc[2:4]) == c10xPERM|1, "invalid_realm is written with the BOLT-4 failure code PERM|1 (0x4001)")
}
