package tlv

// Harness for C10, tlv module part (DESIGN.md §7 C10 items 1-3).
//
// Units: ReadVarInt / WriteVarInt / VarIntSize (varint.go), the truncated
// integer codecs ETUint*/DTUint*/SizeTUint* (truncated.go) and
// Stream.Decode/DecodeP2P/DecodeWithParsedTypes(P2P)/Encode (stream.go) with
// the primitive record codecs they dispatch to (primitive.go, record.go).
//
// All references below (c10Ref*) are written from the text of BOLT-1
// ("BigSize", "tu16/tu32/tu64", "TLV stream") and do not call lnd code.

import (
	"bytes"
	"io"
)

// ---------------------------------------------------------------- item 1

// c10RefBigSizeLen is the BOLT-1 BigSize length of v.
func c10RefBigSizeLen(v uint64) int {
	switch {
	case v < 0xfd:
		return 1
	case v < 0x10000:
		return 3
	case v < 0x100000000:
		return 5
	}
	return 9
}

// c10RefBigSizeEnc writes the BOLT-1 BigSize encoding of v without looking at
// lnd code: discriminant, then big-endian payload.
func c10RefBigSizeEnc(v uint64) []byte {
	n := c10RefBigSizeLen(v)
	out := make([]byte, n)
	switch n {
	case 1:
		out[0] = byte(v)
		return out
	case 3:
		out[0] = 0xfd
	case 5:
		out[0] = 0xfe
	default:
		out[0] = 0xff
	}
	for i := 1; i < n; i++ {
		out[i] = byte(v >> (8 * uint(n-1-i)))
	}
	return out
}

const (
	c10VarOK = iota
	c10VarEmpty
	c10VarTruncated
	c10VarNonMinimal
)

// c10RefBigSizeDec classifies the prefix of b as a BigSize value per BOLT-1:
// status, value, bytes consumed on success.
func c10RefBigSizeDec(b []byte) (int, uint64, int) {
	if len(b) == 0 {
		return c10VarEmpty, 0, 0
	}
	var need int
	var min uint64
	switch b[0] {
	case 0xfd:
		need, min = 2, 0xfd
	case 0xfe:
		need, min = 4, 0x10000
	case 0xff:
		need, min = 8, 0x100000000
	default:
		return c10VarOK, uint64(b[0]), 1
	}
	if len(b) < 1+need {
		return c10VarTruncated, 0, 0
	}
	var v uint64
	for i := 0; i < need; i++ {
		v = v<<8 | uint64(b[1+i])
	}
	if v < min {
		return c10VarNonMinimal, 0, 0
	}
	return c10VarOK, v, 1 + need
}

// VerifC10VarIntValue: for every uint64 v, WriteVarInt produces exactly the
// BigSize encoding, its length is VarIntSize(v), and ReadVarInt returns v and
// consumes everything.
func VerifC10VarIntValue() {
	v := vU64("v")
	var buf [8]byte
	var w bytes.Buffer
	err := WriteVarInt(&w, v, &buf)
	vAssert(err == nil, "WriteVarInt into a bytes.Buffer cannot fail")
	enc := w.Bytes()
	want := c10RefBigSizeEnc(v)
	vObserve("len", len(enc))
	vAssert(len(enc) == len(want), "WriteVarInt length is the BigSize length")
	vAssert(VarIntSize(v) == uint64(len(want)), "VarIntSize is the BigSize length")
	vAssert(bytes.Equal(enc, want), "WriteVarInt bytes are the BigSize encoding")
	switch len(enc) {
	case 1:
		vReach("len1")
	case 3:
		vReach("len3")
	case 5:
		vReach("len5")
	case 9:
		vReach("len9")
	}
	var buf2 [8]byte
	r := bytes.NewReader(enc)
	got, err := ReadVarInt(r, &buf2)
	vAssert(err == nil, "ReadVarInt accepts what WriteVarInt wrote")
	vAssert(got == v, "ReadVarInt(WriteVarInt(v)) == v")
	vAssert(r.Len() == 0, "ReadVarInt consumes the whole encoding")
}

// VerifC10VarIntBytes: for every byte string of n <= 10 bytes ReadVarInt does
// not panic, reads at most 9 bytes, accepts exactly the minimal encodings,
// returns the BigSize value and WriteVarInt reproduces the consumed bytes.
func VerifC10VarIntBytes() {
	n := vChoice("n", 11)
	b := vBytes("b", n)
	in := append([]byte{}, b...)
	r := bytes.NewReader(in)
	var buf [8]byte
	v, err := ReadVarInt(r, &buf)
	consumed := n - r.Len()
	st, rv, rl := c10RefBigSizeDec(b)
	vObserve("status", st)
	vAssert(consumed <= 9, "ReadVarInt reads at most 9 bytes")
	vAssert((err == nil) == (st == c10VarOK), "ReadVarInt accepts exactly the minimal BigSize encodings")
	switch st {
	case c10VarOK:
		vReach("ok")
		vAssert(v == rv, "decoded value is the BigSize value")
		vAssert(consumed == rl, "consumed length is the BigSize length")
		var w bytes.Buffer
		var buf2 [8]byte
		vAssert(WriteVarInt(&w, v, &buf2) == nil, "re-encode cannot fail")
		vAssert(bytes.Equal(w.Bytes(), b[:rl]), "WriteVarInt(ReadVarInt(b)) == consumed prefix of b")
	case c10VarEmpty:
		vReach("empty")
		vAssert(err == io.EOF, "empty input is io.EOF (clean end of stream)")
	case c10VarTruncated:
		vReach("truncated")
		vAssert(err == io.ErrUnexpectedEOF, "truncated payload is io.ErrUnexpectedEOF")
	case c10VarNonMinimal:
		vReach("non-minimal")
		vAssert(err == ErrVarIntNotCanonical, "non-minimal encoding is ErrVarIntNotCanonical")
	}
	if err != nil {
		vAssert(v == 0, "no value on error")
	}
}

// ---------------------------------------------------------------- item 2

// c10RefTLen is the number of bytes of v without leading zero bytes.
func c10RefTLen(v uint64) int {
	n := 0
	for v != 0 {
		n++
		v >>= 8
	}
	return n
}

// c10RefBE interprets b as a big-endian unsigned integer.
func c10RefBE(b []byte) uint64 {
	var v uint64
	for _, x := range b {
		v = v<<8 | uint64(x)
	}
	return v
}

func c10RefTEnc(v uint64) []byte {
	n := c10RefTLen(v)
	out := make([]byte, n)
	for i := 0; i < n; i++ {
		out[i] = byte(v >> (8 * uint(n-1-i)))
	}
	return out
}

// c10TEncode / c10TDecode dispatch on the width (k = 0,1,2 for 16/32/64 bit)
// through the interface-typed entry points that tlv records use.
func c10TEncode(k int, w io.Writer, v uint64, buf *[8]byte) (error, uint64) {
	switch k {
	case 0:
		x := uint16(v)
		return ETUint16(w, &x, buf), SizeTUint16(x)
	case 1:
		x := uint32(v)
		return ETUint32(w, &x, buf), SizeTUint32(x)
	}
	x := v
	return ETUint64(w, &x, buf), SizeTUint64(x)
}

func c10TDecode(k int, r io.Reader, buf *[8]byte, l uint64) (uint64, error) {
	switch k {
	case 0:
		var x uint16
		err := DTUint16(r, &x, buf, l)
		return uint64(x), err
	case 1:
		var x uint32
		err := DTUint32(r, &x, buf, l)
		return uint64(x), err
	}
	var x uint64
	err := DTUint64(r, &x, buf, l)
	return x, err
}

func c10TWidth(k int) int { return 2 << uint(k) }

// VerifC10TruncValue: for every value of the width, the encoder writes exactly
// the minimal big-endian bytes, SizeTUint* is that length and the decoder
// returns the value.
func VerifC10TruncValue() {
	k := vChoice("width", 3)
	v := vU64("v")
	wd := c10TWidth(k)
	if wd < 8 {
		vAssume(v < uint64(1)<<uint(8*wd)) // value range of the Go type
	}
	var buf [8]byte
	var w bytes.Buffer
	err, size := c10TEncode(k, &w, v, &buf)
	vAssert(err == nil, "truncated encoder into a bytes.Buffer cannot fail")
	want := c10RefTEnc(v)
	enc := w.Bytes()
	vObserve("len", len(enc))
	vAssert(len(enc) == len(want), "encoded length is the minimal length")
	vAssert(size == uint64(len(want)), "SizeTUint is the minimal length")
	vAssert(bytes.Equal(enc, want), "encoded bytes are the minimal big-endian bytes")
	if len(enc) == 0 {
		vReach("zero")
	}
	if len(enc) == wd {
		vReach("full")
	}
	var buf2 [8]byte
	r := bytes.NewReader(enc)
	got, err := c10TDecode(k, r, &buf2, uint64(len(enc)))
	vAssert(err == nil, "decoder accepts what the encoder wrote")
	vAssert(got == v, "decode(encode(v)) == v")
	vAssert(r.Len() == 0, "decoder consumes the whole encoding")
}

// VerifC10TruncBytes: for a declared length l (0..width+2 and a huge value)
// and a reader holding n arbitrary bytes, the decoder never panics, accepts
// iff l <= width, n >= l and the first byte is non-zero, yields the big-endian
// value, consumes l bytes, and the encoder reproduces them.
func VerifC10TruncBytes() {
	k := vChoice("width", 3)
	wd := c10TWidth(k)
	n := vChoice("n", wd+3)
	var l uint64
	lc := vChoice("l", wd+4)
	if lc == wd+3 {
		l = vU64("lbig")
		vAssume(l > uint64(wd+2))
	} else {
		l = uint64(lc)
	}
	b := vBytes("b", n)
	in := append([]byte{}, b...)
	r := bytes.NewReader(in)
	var buf [8]byte
	for i := range buf {
		buf[i] = vU8("scratch") // the scratch buffer holds garbage from earlier records
	}
	v, err := c10TDecode(k, r, &buf, l)
	consumed := n - r.Len()
	fits := l <= uint64(wd)
	enough := fits && uint64(n) >= l
	minimal := enough && (l == 0 || b[0] != 0)
	vAssert((err == nil) == minimal, "truncated decoder accepts iff length fits, bytes are present and there is no leading zero byte")
	if err == nil {
		vReach("accept")
		li := int(l)
		vAssert(consumed == li, "decoder consumes exactly l bytes")
		vAssert(v == c10RefBE(b[:li]), "decoded value is the big-endian value")
		var w bytes.Buffer
		var buf2 [8]byte
		e2, _ := c10TEncode(k, &w, v, &buf2)
		vAssert(e2 == nil, "re-encode cannot fail")
		vAssert(bytes.Equal(w.Bytes(), b[:li]), "encode(decode(b)) == b")
		return
	}
	switch {
	case !fits:
		vReach("too-long")
		vAssert(consumed == 0, "over-long declared length is rejected before reading")
	case !enough:
		vReach("short-read")
	default:
		vReach("non-minimal")
		vAssert(err == ErrTUintNotMinimal, "leading zero byte is ErrTUintNotMinimal")
	}
}

// ---------------------------------------------------------------- item 3

type c10Rec struct {
	typ uint64
	val []byte
}

// c10StreamLenMax bounds the declared record lengths of the explored domain
// (the engine enumerates the feasible values of an allocation size): every
// declared length is <= c10StreamLenMax or > 65535.
const c10StreamLenMax = 16

const (
	c10ModeDecode = iota
	c10ModeDecodeP2P
	c10ModeParsed
	c10ModeParsedP2P
)

// c10RefStream is the BOLT-1 canonicity predicate for a TLV stream whose
// known records are 1 (u64, 8 bytes), 2 (bytes) and 5 (u16, 2 bytes): BigSize
// type and length minimally encoded, types strictly increasing, value bytes
// present, known fixed-size records have exactly their size, and on the p2p
// path length <= 65535. While walking it restricts the domain of declared
// lengths (see c10StreamLenMax; huge selects whether lengths >= 2^63 are in).
func c10RefStream(b []byte, mode int, huge bool) (int, []c10Rec) {
	p2p := mode == c10ModeDecodeP2P || mode == c10ModeParsedP2P
	var recs []c10Rec
	pos := 0
	first := true
	var prev uint64
	for pos < len(b) {
		st, typ, n := c10RefBigSizeDec(b[pos:])
		if st == c10VarNonMinimal {
			return c10BadVarInt, nil
		}
		if st != c10VarOK {
			return c10BadTruncated, nil
		}
		pos += n
		if !first && typ <= prev {
			return c10BadOrder, nil
		}
		st, l, n := c10RefBigSizeDec(b[pos:])
		if st == c10VarNonMinimal {
			return c10BadVarInt, nil
		}
		if st != c10VarOK {
			return c10BadTruncated, nil
		}
		pos += n
		// ---- explored domain of declared lengths ----
		allocates := !p2p && (typ == 2 || (mode == c10ModeParsed && typ != 1 && typ != 5))
		if allocates {
			// make([]byte, l) / make([]byte, 0, l) with an attacker-chosen l on
			// the non-p2p path: allocation bounds are outside the claim
			vAssume(l <= c10StreamLenMax)
		} else {
			vAssume(l <= c10StreamLenMax || l > 65535)
		}
		if !huge {
			vAssume(l < 1<<63)
		}
		// ---- predicate ----
		if p2p && l > 65535 {
			return c10BadTooLarge, nil
		}
		if typ == 1 && l != 8 {
			return c10BadSize, nil
		}
		if typ == 5 && l != 2 {
			return c10BadSize, nil
		}
		if l > uint64(len(b)-pos) {
			return c10BadTruncated, nil
		}
		end := pos + int(l)
		recs = append(recs, c10Rec{typ: typ, val: b[pos:end]})
		pos = end
		first, prev = false, typ
	}
	return c10StreamOK, recs
}

// reasons why the reference rejects a stream
const (
	c10StreamOK     = iota
	c10BadVarInt    // a type or length is not minimally encoded
	c10BadTruncated // the stream ends inside a record
	c10BadOrder     // types not strictly increasing
	c10BadTooLarge  // length > 65535 on the p2p path
	c10BadSize      // known fixed-size record with another length
)

func c10StreamRun(huge bool, lmax int, maxType bool, longLen bool) {
	mode := vChoice("mode", 4)
	var n int
	if huge {
		// only the non-p2p decoder without parsed types, and only buffers that
		// start with a one-byte type followed by a 9-byte BigSize length
		if mode != c10ModeDecode {
			vAssume(false)
		}
		n = 10
	} else {
		// band 0: n = 0..L-2, band 1: n = L-1, band 2: n = L (bands exist so
		// that the long buffers can run as separate processes)
		switch vChoice("band", 3) {
		case 0:
			n = vChoice("nsmall", lmax-1)
		case 1:
			n = lmax - 1
		default:
			n = lmax
		}
	}
	if maxType {
		// buffers that start with a 9-byte BigSize type (types >= 2^32,
		// among them 2^64-1) followed by up to 4 more bytes
		n = 10 + vChoice("tail", 4)
	}
	if longLen {
		// buffers that start with a one-byte type and a 5-byte BigSize length
		// (65536 .. 2^32-1: beyond the p2p record bound) plus up to 2 bytes
		n = 6 + vChoice("tail", 3)
	}
	b := vBytes("b", n)
	if huge {
		vAssume(b[0] < 0xfd && b[1] == 0xff)
	}
	if longLen {
		vAssume(b[0] < 0xfd && b[1] == 0xfe)
	}
	if maxType {
		vAssume(b[0] == 0xff)
	}
	why, recs := c10RefStream(b, mode, huge)
	refOK := why == c10StreamOK

	var (
		u64 uint64 = 0x1122334455667788
		vb         = []byte{0xee}
		u16 uint16 = 0x99aa
	)
	s := MustNewStream(
		MakePrimitiveRecord(1, &u64),
		MakePrimitiveRecord(2, &vb),
		MakePrimitiveRecord(5, &u16),
	)
	in := append([]byte{}, b...)
	r := bytes.NewReader(in)
	var (
		err    error
		parsed TypeMap
	)
	switch mode {
	case c10ModeDecode:
		err = s.Decode(r)
	case c10ModeDecodeP2P:
		err = s.DecodeP2P(r)
	case c10ModeParsed:
		parsed, err = s.DecodeWithParsedTypes(r)
	default:
		parsed, err = s.DecodeWithParsedTypesP2P(r)
	}
	vObserve("mode", mode)
	vObserve("accepted", err == nil)
	vAssert((err == nil) == refOK, "a TLV stream is accepted exactly when it is canonical (BOLT-1 reference)")
	if err != nil {
		vReach("reject")
		// the decoder's documented error classes
		switch why {
		case c10BadVarInt:
			vAssert(err == ErrVarIntNotCanonical, "non-minimal BigSize is ErrVarIntNotCanonical")
		case c10BadOrder:
			vReach("bad-order")
			vAssert(err == ErrStreamNotCanonical, "types not strictly increasing is ErrStreamNotCanonical")
		case c10BadTooLarge:
			vReach("too-large")
			vAssert(err == ErrRecordTooLarge, "length > 65535 on the p2p path is ErrRecordTooLarge")
		case c10BadTruncated:
			vAssert(err == io.ErrUnexpectedEOF, "a stream ending inside a record is io.ErrUnexpectedEOF")
		}
		return
	}
	vReach("accept")
	vAssert(r.Len() == 0, "an accepted stream is consumed completely")

	// decoded values are the big-endian / raw value bytes of the records
	// present; absent records leave their targets untouched
	var has1, has2, has5, unknown bool
	for _, rec := range recs {
		switch rec.typ {
		case 1:
			has1 = true
			vAssert(u64 == c10RefBE(rec.val), "record 1 decodes to the big-endian u64")
		case 2:
			has2 = true
			vAssert(bytes.Equal(vb, rec.val), "record 2 decodes to its value bytes")
		case 5:
			has5 = true
			vAssert(u16 == uint16(c10RefBE(rec.val)), "record 5 decodes to the big-endian u16")
		default:
			unknown = true
		}
	}
	if !has1 {
		vAssert(u64 == 0x1122334455667788, "absent record 1 leaves its target untouched")
	}
	if !has2 {
		vAssert(len(vb) == 1 && vb[0] == 0xee, "absent record 2 leaves its target untouched")
	}
	if !has5 {
		vAssert(u16 == 0x99aa, "absent record 5 leaves its target untouched")
	}
	if len(recs) > 0 {
		vReach("records")
	}
	if unknown {
		vReach("unknown-record")
	}

	// parsed types: exactly the records present; nil for known, value bytes for unknown
	if mode == c10ModeParsed || mode == c10ModeParsedP2P {
		vAssert(len(parsed) == len(recs), "parsed-type map has one entry per record")
		for _, rec := range recs {
			v, ok := parsed[Type(rec.typ)]
			vAssert(ok, "every record present is in the parsed-type map")
			if rec.typ == 1 || rec.typ == 2 || rec.typ == 5 {
				vAssert(v == nil, "known records map to nil")
			} else {
				vAssert(v != nil && bytes.Equal(v, rec.val), "unknown records map to their value bytes")
			}
		}
	} else if unknown {
		return // Decode/DecodeP2P discard unknown records by design: nothing to re-encode from
	}

	// re-encode the decoded records plus the parsed unknown records in type order
	var out []Record
	for _, rec := range recs {
		switch rec.typ {
		case 1:
			out = append(out, MakePrimitiveRecord(1, &u64))
		case 2:
			out = append(out, MakePrimitiveRecord(2, &vb))
		case 5:
			out = append(out, MakePrimitiveRecord(5, &u16))
		default:
			v := parsed[Type(rec.typ)]
			out = append(out, MakeStaticRecord(Type(rec.typ), nil, uint64(len(v)), StubEncoder(v), nil))
		}
	}
	s2, e2 := NewStream(out...)
	vAssert(e2 == nil, "records in decoded order form a canonical stream")
	var w bytes.Buffer
	vAssert(s2.Encode(&w) == nil, "re-encode cannot fail")
	vAssert(bytes.Equal(w.Bytes(), b), "decode-then-encode reproduces the input")
	vReach("reencoded")
}

// VerifC10Stream: Stream.Decode / DecodeP2P / DecodeWithParsedTypes(P2P) on an
// arbitrary buffer of <= L bytes: no panic, terminates, accepted iff canonical,
// decoded values and parsed-type map are those of the reference parse, and
// re-encoding reproduces the input. Declared lengths < 2^63.
func VerifC10Stream() {
	c10StreamRun(false, c10StreamQuick, false, false)
}

// VerifC10StreamDeep: the same with buffers up to c10StreamDeep bytes.
func VerifC10StreamDeep() {
	c10StreamRun(false, c10StreamDeep, false, false)
}

const (
	c10StreamQuick = 5
	c10StreamDeep  = 8
)

// VerifC10StreamHugeLen: the non-p2p Decode on a 10-byte buffer holding a
// one-byte type and a 9-byte BigSize length (>= 2^32, lengths >= 2^63
// admitted): the decoder converts the length to int64 for io.CopyN.
func VerifC10StreamHugeLen() {
	c10StreamRun(true, 10, false, false)
}

// VerifC10StreamMaxType: buffers of 10..13 bytes whose first record has a
// 9-byte type (>= 2^32, including 2^64-1 after which no further record may
// follow).
func VerifC10StreamMaxType() {
	c10StreamRun(false, 13, true, false)
}

// VerifC10StreamLongLen: buffers of 6..8 bytes whose first record has a
// one-byte type and a 5-byte length (> 65535): refused with ErrRecordTooLarge
// on the p2p path, a truncated record otherwise.
func VerifC10StreamLongLen() {
	c10StreamRun(false, 8, false, true)
}
