package lnwire

// Harness for C10, lnwire part (DESIGN.md §7 C10 items 4-7).
//
// Units: ReadElement / WriteElement and the typed Write* helpers (lnwire.go,
// writer.go), and Decode/Encode of whole messages.
//
// References (c10Ref*, c10BE) are written from BOLT-1/BOLT-2 ("all data fields
// are unsigned big-endian", fixed field order) and do not call lnd code.

import (
	"bytes"
	"errors"
	"image/color"
	"io"

	"github.com/btcsuite/btcd/btcec/v2"
	"github.com/btcsuite/btcd/btcutil/v2"
	"github.com/btcsuite/btcd/chainhash/v2"
	"github.com/btcsuite/btcd/wire/v2"
	"github.com/lightningnetwork/lnd/fn/v2"
)

// c10BE is the n-byte big-endian representation of v.
func c10BE(v uint64, n int) []byte {
	out := make([]byte, n)
	for i := 0; i < n; i++ {
		out[i] = byte(v >> (8 * uint(n-1-i)))
	}
	return out
}

// c10FromBE interprets b as a big-endian unsigned integer.
func c10FromBE(b []byte) uint64 {
	var v uint64
	for _, x := range b {
		v = v<<8 | uint64(x)
	}
	return v
}

func c10Cat(parts ...[]byte) []byte {
	var out []byte
	for _, p := range parts {
		out = append(out, p...)
	}
	return out
}

// c10LenPrefixed is a BOLT "u16 len, len*byte" field.
func c10LenPrefixed(data []byte) []byte {
	return c10Cat(c10BE(uint64(len(data)), 2), data)
}

const c10NumElemKinds = 26

// ---------------------------------------------------------------- item 4, value -> bytes -> value

// VerifC10ElemValue: for every value of every fixed-width element kind (and
// length-prefixed kinds with <= 4 data bytes) WriteElement produces exactly the
// big-endian BOLT encoding (exact byte count), the typed Write* helper produces
// the same bytes, and ReadElement returns an equal value consuming everything.
// Values that do not fit the wire field (ShortChannelID parts >= 2^24, outpoint
// index >= 2^16) are refused by the encoder.
func VerifC10ElemValue() {
	kind := vChoice("kind", c10NumElemKinds)
	var (
		w, w2      bytes.Buffer
		r          *bytes.Reader
		want       []byte
		werr, rerr error
		w2err      error
		hasW2      = true
		same       bool
		wellFormed = true
	)
	rd := func(p interface{}) error {
		if werr != nil {
			return nil
		}
		r = bytes.NewReader(w.Bytes())
		return ReadElement(r, p)
	}
	vlen := func() []byte { return vBytes("data", vChoice("dlen", 5)) }
	switch kind {
	case 0:
		v := vU8("v8")
		werr, w2err = WriteElement(&w, v), WriteUint8(&w2, v)
		want = c10BE(uint64(v), 1)
		var g uint8
		rerr = rd(&g)
		same = g == v
	case 1:
		v := vU16("v16")
		werr, w2err = WriteElement(&w, v), WriteUint16(&w2, v)
		want = c10BE(uint64(v), 2)
		var g uint16
		rerr = rd(&g)
		same = g == v
	case 2:
		v := vU32("v32")
		werr, w2err = WriteElement(&w, v), WriteUint32(&w2, v)
		want = c10BE(uint64(v), 4)
		var g uint32
		rerr = rd(&g)
		same = g == v
	case 3:
		v := vU64("v64")
		werr, w2err = WriteElement(&w, v), WriteUint64(&w2, v)
		want = c10BE(v, 8)
		var g uint64
		rerr = rd(&g)
		same = g == v
	case 4:
		v := MilliSatoshi(vU64("v64"))
		werr, w2err = WriteElement(&w, v), WriteMilliSatoshi(&w2, v)
		want = c10BE(uint64(v), 8)
		var g MilliSatoshi
		rerr = rd(&g)
		same = g == v
	case 5:
		v := btcutil.Amount(vI64("v64"))
		werr, w2err = WriteElement(&w, v), WriteSatoshi(&w2, v)
		want = c10BE(uint64(v), 8)
		var g btcutil.Amount
		rerr = rd(&g)
		same = g == v
	case 6:
		v := ShortChannelID{BlockHeight: vU32("height"), TxIndex: vU32("txindex"), TxPosition: vU16("txpos")}
		wellFormed = v.BlockHeight < 1<<24 && v.TxIndex < 1<<24 // 3-byte wire fields (BOLT-7)
		werr, w2err = WriteElement(&w, v), WriteShortChannelID(&w2, v)
		want = c10Cat(c10BE(uint64(v.BlockHeight), 3), c10BE(uint64(v.TxIndex), 3), c10BE(uint64(v.TxPosition), 2))
		var g ShortChannelID
		rerr = rd(&g)
		same = g == v
	case 7:
		var v ChannelID
		copy(v[:], vBytes("v", 32))
		werr, w2err = WriteElement(&w, v), WriteChannelID(&w2, v)
		want = append([]byte{}, v[:]...)
		var g ChannelID
		rerr = rd(&g)
		same = g == v
	case 8:
		var v [33]byte
		copy(v[:], vBytes("v", 33))
		werr, hasW2 = WriteElement(&w, v), false
		want = append([]byte{}, v[:]...)
		var g [33]byte
		rerr = rd(&g)
		same = g == v
	case 9:
		v := vBytes("v", 32)
		werr, w2err = WriteElement(&w, v), WriteBytes(&w2, v)
		want = append([]byte{}, v...)
		g := make([]byte, 32)
		rerr = rd(g)
		same = bytes.Equal(g, v)
	case 10:
		var v Sig
		copy(v.bytes[:], vBytes("v", 64))
		werr, w2err = WriteElement(&w, v), WriteSig(&w2, v)
		want = append([]byte{}, v.bytes[:]...)
		var g Sig
		rerr = rd(&g)
		same = g.bytes == v.bytes // the signature type is not on the wire
	case 11:
		v := vBool("vb")
		werr, w2err = WriteElement(&w, v), WriteBool(&w2, v)
		if v {
			want = []byte{1}
		} else {
			want = []byte{0}
		}
		var g bool
		rerr = rd(&g)
		same = g == v
	case 12:
		v := FailCode(vU16("v16"))
		werr, w2err = WriteElement(&w, v), WriteFailCode(&w2, v)
		want = c10BE(uint64(v), 2)
		var g FailCode
		rerr = rd(&g)
		same = g == v
	case 13:
		v := DeliveryAddress(vlen())
		werr, w2err = WriteElement(&w, v), WriteDeliveryAddress(&w2, v)
		want = c10LenPrefixed(v)
		var g DeliveryAddress
		rerr = rd(&g)
		same = bytes.Equal(g, v)
	case 14:
		v := FundingFlag(vU8("v8"))
		werr, w2err = WriteElement(&w, v), WriteFundingFlag(&w2, v)
		want = c10BE(uint64(v), 1)
		var g FundingFlag
		rerr = rd(&g)
		same = g == v
	case 15:
		v := ChanUpdateMsgFlags(vU8("v8"))
		werr, w2err = WriteElement(&w, v), WriteChanUpdateMsgFlags(&w2, v)
		want = c10BE(uint64(v), 1)
		var g ChanUpdateMsgFlags
		rerr = rd(&g)
		same = g == v
	case 16:
		v := ChanUpdateChanFlags(vU8("v8"))
		werr, w2err = WriteElement(&w, v), WriteChanUpdateChanFlags(&w2, v)
		want = c10BE(uint64(v), 1)
		var g ChanUpdateChanFlags
		rerr = rd(&g)
		same = g == v
	case 17:
		v := QueryEncoding(vU8("v8"))
		werr, w2err = WriteElement(&w, v), WriteQueryEncoding(&w2, v)
		want = c10BE(uint64(v), 1)
		var g QueryEncoding
		rerr = rd(&g)
		same = g == v
	case 18:
		v := OpaqueReason(vlen())
		werr, w2err = WriteElement(&w, v), WriteOpaqueReason(&w2, v)
		want = c10LenPrefixed(v)
		var g OpaqueReason
		rerr = rd(&g)
		same = bytes.Equal(g, v)
	case 19:
		v := ErrorData(vlen())
		werr, w2err = WriteElement(&w, v), WriteErrorData(&w2, v)
		want = c10LenPrefixed(v)
		var g ErrorData
		rerr = rd(&g)
		same = bytes.Equal(g, v)
	case 20:
		v := WarningData(vlen())
		werr, w2err = WriteElement(&w, v), WriteWarningData(&w2, v)
		want = c10LenPrefixed(v)
		var g WarningData
		rerr = rd(&g)
		same = bytes.Equal(g, v)
	case 21:
		v := PingPayload(vlen())
		werr, w2err = WriteElement(&w, v), WritePingPayload(&w2, v)
		want = c10LenPrefixed(v)
		var g PingPayload
		rerr = rd(&g)
		same = bytes.Equal(g, v)
	case 22:
		v := PongPayload(vlen())
		werr, w2err = WriteElement(&w, v), WritePongPayload(&w2, v)
		want = c10LenPrefixed(v)
		var g PongPayload
		rerr = rd(&g)
		same = bytes.Equal(g, v)
	case 23:
		var v wire.OutPoint
		copy(v.Hash[:], vBytes("hash", 32))
		v.Index = vU32("index")
		wellFormed = v.Index < 1<<16 // 2-byte wire field (BOLT-2 funding_output_index)
		werr = WriteOutPoint(&w, v)
		hasW2 = false
		want = c10Cat(v.Hash[:], c10BE(uint64(v.Index), 2))
		var g wire.OutPoint
		rerr = rd(&g)
		same = g == v
	case 24:
		v := color.RGBA{R: vU8("r"), G: vU8("g"), B: vU8("b")}
		werr, w2err = WriteElement(&w, v), WriteColorRGBA(&w2, v)
		want = []byte{v.R, v.G, v.B}
		var g color.RGBA
		rerr = rd(&g)
		same = g == v
	case 25:
		v := PkScript(vlen())
		werr, w2err = WriteElement(&w, v), WritePkScript(&w2, v)
		want = c10Cat([]byte{byte(len(v))}, v) // Bitcoin var_int length (< 0xfd: one byte) + bytes
		var g PkScript
		rerr = rd(&g)
		same = bytes.Equal(g, v)
	}
	vObserve("kind", kind)
	vAssert((werr == nil) == wellFormed, "WriteElement succeeds exactly on values that fit the wire field")
	if hasW2 {
		vAssert((w2err == nil) == wellFormed, "typed writer succeeds exactly on values that fit the wire field")
	}
	if werr != nil {
		vReach("refused")
		return
	}
	vReach("encoded")
	vAssert(w.Len() == len(want), "WriteElement writes exactly the BOLT field width")
	vAssert(bytes.Equal(w.Bytes(), want), "WriteElement bytes are the big-endian BOLT encoding")
	if hasW2 {
		vAssert(bytes.Equal(w2.Bytes(), want), "typed writer bytes are the big-endian BOLT encoding")
	}
	vAssert(rerr == nil, "ReadElement accepts what WriteElement wrote")
	vAssert(same, "ReadElement(WriteElement(v)) == v")
	vAssert(r.Len() == 0, "ReadElement consumes exactly the encoding")
}

// ---------------------------------------------------------------- TLV reference (BOLT-1)

const (
	c10VarOK = iota
	c10VarEmpty
	c10VarTruncated
	c10VarNonMinimal
)

// c10RefBigSizeDec classifies the prefix of b as a BOLT-1 BigSize: status,
// value and bytes consumed on success.
func c10RefBigSizeDec(b []byte) (int, uint64, int) {
	if len(b) == 0 {
		return c10VarEmpty, 0, 0
	}
	var need int
	var min uint64
	switch b[0] {
	case 0xfd:
		need, min = 2, 0xfd
	case 0xfe:
		need, min = 4, 0x10000
	case 0xff:
		need, min = 8, 0x100000000
	default:
		return c10VarOK, uint64(b[0]), 1
	}
	if len(b) < 1+need {
		return c10VarTruncated, 0, 0
	}
	v := c10FromBE(b[1 : 1+need])
	if v < min {
		return c10VarNonMinimal, 0, 0
	}
	return c10VarOK, v, 1 + need
}

func c10RefBigSizeEnc(v uint64) []byte {
	switch {
	case v < 0xfd:
		return []byte{byte(v)}
	case v < 0x10000:
		return c10Cat([]byte{0xfd}, c10BE(v, 2))
	case v < 0x100000000:
		return c10Cat([]byte{0xfe}, c10BE(v, 4))
	}
	return c10Cat([]byte{0xff}, c10BE(v, 8))
}

type c10TLVRec struct {
	typ uint64
	val []byte
}

// c10TLVLenMax bounds the declared record lengths of the explored domain:
// every declared length is <= c10TLVLenMax or > 65535 (the engine enumerates
// the feasible values of an allocation size; the p2p decoder refuses > 65535
// before allocating).
const c10TLVLenMax = 12

// c10RefTLV walks b as a BOLT-1 TLV stream (canonical BigSize type and length,
// strictly increasing types, value bytes present, length <= 65535 on the p2p
// path). While walking it restricts the domain (vAssume) to declared lengths
// <= c10TLVLenMax or > 65535.
func c10RefTLV(b []byte) (bool, []c10TLVRec) {
	var recs []c10TLVRec
	pos := 0
	first := true
	var prev uint64
	for pos < len(b) {
		st, typ, n := c10RefBigSizeDec(b[pos:])
		if st != c10VarOK {
			return false, nil
		}
		pos += n
		if !first && typ <= prev {
			return false, nil
		}
		st, l, n := c10RefBigSizeDec(b[pos:])
		if st != c10VarOK {
			return false, nil
		}
		pos += n
		vAssume(l <= c10TLVLenMax || l > 65535) // explored domain, see c10TLVLenMax
		if l > 65535 {
			return false, nil
		}
		if l > uint64(len(b)-pos) {
			return false, nil
		}
		end := pos + int(l)
		recs = append(recs, c10TLVRec{typ: typ, val: b[pos:end]})
		pos = end
		first, prev = false, typ
	}
	return true, recs
}

func c10HasUnknown(recs []c10TLVRec, known ...uint64) bool {
	for _, r := range recs {
		k := false
		for _, t := range known {
			if r.typ == t {
				k = true
			}
		}
		if !k {
			return true
		}
	}
	return false
}

// ---------------------------------------------------------------- item 5: whole messages

var c10Gx = []byte{
	0x79, 0xbe, 0x66, 0x7e, 0xf9, 0xdc, 0xbb, 0xac, 0x55, 0xa0, 0x62, 0x95, 0xce, 0x87, 0x0b, 0x07,
	0x02, 0x9b, 0xfc, 0xdb, 0x2d, 0xce, 0x28, 0xd9, 0x59, 0xf2, 0x81, 0x5b, 0x16, 0xf8, 0x17, 0x98,
}

var c10Gy = []byte{
	0x48, 0x3a, 0xda, 0x77, 0x26, 0xa3, 0xc4, 0x65, 0x5d, 0xa4, 0xfb, 0xfc, 0x0e, 0x11, 0x08, 0xa8,
	0xfd, 0x17, 0xb4, 0x48, 0xa6, 0x85, 0x54, 0x19, 0x9c, 0x47, 0xd0, 0x8f, 0xfb, 0x10, 0xd4, 0xb8,
}

// c10KeyBytes returns one of three concrete 33-byte strings for a public-key
// field: the secp256k1 generator G, -G, and a string with an invalid format
// byte. (Elliptic-curve arithmetic on symbolic bytes is outside the engine;
// key bytes are therefore concrete, everything else in the body is symbolic.)
func c10KeyBytes(k int) []byte {
	switch k {
	case 0:
		return c10Cat([]byte{2}, c10Gx)
	case 1:
		return c10Cat([]byte{3}, c10Gx)
	}
	return c10Cat([]byte{5}, c10Gx) // 0x05 is not a compressed-key format byte
}

// c10ParsePubKey stands in for btcec.ParsePubKey in the symbolic run only
// (native replay runs the real function): exact on the three strings of
// c10KeyBytes, every other input is outside the explored domain. It avoids
// re-interpreting a field square root on every path.
func c10ParsePubKey(b []byte) (*btcec.PublicKey, error) {
	if len(b) != 33 {
		vAssume(false)
	}
	if b[0] == 5 {
		return nil, errors.New("invalid public key: unsupported format: 5")
	}
	vAssume((b[0] == 2 || b[0] == 3) && bytes.Equal(b[1:], c10Gx))
	var x, y btcec.FieldVal
	x.SetByteSlice(c10Gx)
	y.SetByteSlice(c10Gy)
	if b[0] == 3 {
		y.Negate(1).Normalize()
	}
	return btcec.NewPublicKey(&x, &y), nil
}

func c10Config() {
	vUnwind(200)
	vReplace("github.com/btcsuite/btcd/btcec/v2.ParsePubKey", "github.com/lightningnetwork/lnd/lnwire.c10ParsePubKey")
	vAssumption("public-key fields hold one of three concrete strings (G, -G, invalid format byte 0x05); btcec.ParsePubKey is replaced in the symbolic run by a table for exactly these strings (native replay runs the real function)")
	vAssumption("declared TLV record lengths are <= 12 or > 65535")
}

func c10EqCustom(a, b CustomRecords) bool {
	if len(a) != len(b) {
		return false
	}
	for k, v := range a {
		w, ok := b[k]
		if !ok || !bytes.Equal(v, w) {
			return false
		}
	}
	return true
}

func c10EqKey(a, b *btcec.PublicKey) bool {
	if a == nil || b == nil {
		return a == nil && b == nil
	}
	return a.IsEqual(b)
}

func c10EqLocalNonces(a, b OptLocalNonces) bool {
	if a.IsSome() != b.IsSome() {
		return false
	}
	x, y := a.UnwrapOr(LocalNoncesData{}), b.UnwrapOr(LocalNoncesData{})
	if len(x.NoncesMap) != len(y.NoncesMap) {
		return false
	}
	for k, v := range x.NoncesMap {
		w, ok := y.NoncesMap[k]
		if !ok || v != w {
			return false
		}
	}
	return true
}

// c10Msg describes one message type for the generic checks.
type c10Msg struct {
	fixed   int      // bytes before the TLV / extension part
	keyOff  int      // offset of a compressed public key, -1 if none
	tlv     bool     // Decode parses the extension as a TLV stream
	known   []uint64 // record types the message knows
	repacks bool     // Encode rebuilds ExtraData from the known records only (EncodeMessageExtraData)
	mk      func() Message
	extra   func(m Message) []byte
	// eq compares every field except ExtraData
	eq func(a, b Message) bool
}

const c10NumMsgs = 6

func c10MsgTable(i int) c10Msg {
	switch i {
	case 0:
		return c10Msg{fixed: 36, keyOff: -1,
			mk:    func() Message { return &UpdateFee{} },
			extra: func(m Message) []byte { return m.(*UpdateFee).ExtraData },
			eq: func(a, b Message) bool {
				x, y := a.(*UpdateFee), b.(*UpdateFee)
				return x.ChanID == y.ChanID && x.FeePerKw == y.FeePerKw
			}}
	case 1:
		return c10Msg{fixed: 72, keyOff: -1, tlv: true,
			mk:    func() Message { return &UpdateFulfillHTLC{} },
			extra: func(m Message) []byte { return m.(*UpdateFulfillHTLC).ExtraData },
			eq: func(a, b Message) bool {
				x, y := a.(*UpdateFulfillHTLC), b.(*UpdateFulfillHTLC)
				return x.ChanID == y.ChanID && x.ID == y.ID && x.PaymentPreimage == y.PaymentPreimage &&
					c10EqCustom(x.CustomRecords, y.CustomRecords)
			}}
	case 2:
		return c10Msg{fixed: 97, keyOff: 64, tlv: true, known: []uint64{4, 22}, repacks: true,
			mk:    func() Message { return &RevokeAndAck{} },
			extra: func(m Message) []byte { return m.(*RevokeAndAck).ExtraData },
			eq: func(a, b Message) bool {
				x, y := a.(*RevokeAndAck), b.(*RevokeAndAck)
				return x.ChanID == y.ChanID && x.Revocation == y.Revocation &&
					c10EqKey(x.NextRevocationKey, y.NextRevocationKey) &&
					x.LocalNonce == y.LocalNonce && c10EqLocalNonces(x.LocalNonces, y.LocalNonces)
			}}
	case 3:
		return c10Msg{fixed: 113, keyOff: 80, tlv: true, known: []uint64{4, 20, 22}, repacks: true,
			mk:    func() Message { return &ChannelReestablish{} },
			extra: func(m Message) []byte { return m.(*ChannelReestablish).ExtraData },
			eq: func(a, b Message) bool {
				x, y := a.(*ChannelReestablish), b.(*ChannelReestablish)
				return x.ChanID == y.ChanID && x.NextLocalCommitHeight == y.NextLocalCommitHeight &&
					x.RemoteCommitTailHeight == y.RemoteCommitTailHeight &&
					x.LastRemoteCommitSecret == y.LastRemoteCommitSecret &&
					c10EqKey(x.LocalUnrevokedCommitPoint, y.LocalUnrevokedCommitPoint) &&
					x.LocalNonce == y.LocalNonce && x.DynHeight == y.DynHeight &&
					c10EqLocalNonces(x.LocalNonces, y.LocalNonces)
			}}
	case 4:
		return c10Msg{fixed: 34, keyOff: -1, tlv: true, known: []uint64{8},
			mk:    func() Message { return &Shutdown{} },
			extra: func(m Message) []byte { return m.(*Shutdown).ExtraData },
			eq: func(a, b Message) bool {
				x, y := a.(*Shutdown), b.(*Shutdown)
				return x.ChannelID == y.ChannelID && bytes.Equal(x.Address, y.Address) &&
					x.ShutdownNonce == y.ShutdownNonce && c10EqCustom(x.CustomRecords, y.CustomRecords)
			}}
	}
	return c10Msg{fixed: 104, keyOff: -1, tlv: true, known: []uint64{6}, repacks: true,
		mk:    func() Message { return &ClosingSigned{} },
		extra: func(m Message) []byte { return m.(*ClosingSigned).ExtraData },
		eq: func(a, b Message) bool {
			x, y := a.(*ClosingSigned), b.(*ClosingSigned)
			return x.ChannelID == y.ChannelID && x.FeeSatoshis == y.FeeSatoshis &&
				x.Signature.bytes == y.Signature.bytes && x.PartialSig == y.PartialSig
		}}
}

// c10MsgBody builds the symbolic body for message i: fixed part plus e
// extension bytes (and for Shutdown an address of a <= 4 bytes, for
// ChannelReestablish also the short and truncated forms).
func c10MsgBody(i int, spec c10Msg, emax int, part int) (body []byte, tlvOff int) {
	// e = number of extension bytes, 0..emax. Bands exist so that the long
	// extensions can run as separate processes: band 0: e = 0..emax-3,
	// band k = 1..3: e = emax-3+k.
	var e int
	if emax < 3 {
		e = vChoice("extra", emax+1)
	} else {
		band := vChoice("eband", 4)
		if part >= 0 && c10QuickPart(i, band) != part {
			vAssume(false) // belongs to another process
		}
		if band == 0 {
			e = vChoice("extra", emax-2)
		} else {
			e = emax - 3 + band
		}
	}
	n := spec.fixed + e
	tlvOff = spec.fixed
	switch i {
	case 3:
		switch vChoice("shape", 4) {
		case 1: // no optional part at all (pre data-loss-protect form)
			n, tlvOff = 48+e, 48
		case 2: // truncated secret
			n, tlvOff = 48+5, 48+5
			vAssume(e == 0)
		case 3: // truncated commitment point
			n, tlvOff = 48+32+20, 48+32+20
			vAssume(e == 0)
		}
	case 4:
		a := []int{1, 0, 4}[vChoice("alen", 3)]
		if a != 1 && e > 2 {
			vAssume(false) // address lengths 0 and 4 are explored with <= 2 extension bytes
		}
		n += a
		tlvOff += a
	}
	body = vBytes("b", n)
	if spec.keyOff >= 0 && n >= spec.keyOff+33 {
		k := vChoice("key", 3)
		if k != 0 && e != 0 {
			vAssume(false) // -G and the invalid key are explored with an empty extension only
		}
		copy(body[spec.keyOff:], c10KeyBytes(k))
	}
	if i == 4 {
		// Shutdown: the declared address length decides where the TLV part
		// starts; declared lengths > 34 are refused by the decoder.
		// Explored domain: the declared length equals the address length a,
		// or is one more than the bytes present (short read), or is > 34.
		decl := c10FromBE(body[32:34])
		a := tlvOff - 34
		vAssume(decl == uint64(a) || decl == uint64(n-34+1) || decl > 34)
		if decl != uint64(a) {
			tlvOff = n
		}
	}
	return body, tlvOff
}

// VerifC10MsgBytes: for an arbitrary body (fixed part + <= E extension bytes)
// of each message type, Decode does not panic; on success Encode succeeds with
// at most 65535 bytes, decoding the re-encoding yields an equal message, and
// encoding that again yields the same bytes (canonical fixpoint). Messages
// whose extension is a TLV stream are accepted only if the stream is canonical
// per the BOLT-1 reference.
func VerifC10MsgBytes() { c10MsgBytes(c10ExtraQuick) }

// VerifC10MsgBytesDeep: the same with up to c10ExtraDeep extension bytes.
func VerifC10MsgBytesDeep() { c10MsgBytes(c10ExtraDeep) }

const (
	c10ExtraQuick = 4
	c10ExtraDeep  = 7
)

// c10QuickPart splits the message types into two parts of similar cost so
// that the quick tier needs only two processes.
func c10QuickPart(msg, band int) int {
	if msg == 3 || msg == 0 || msg == 1 {
		return 0
	}
	return 1
}

func c10MsgBytes(emax int) {
	c10Config()
	part := -1
	if emax == c10ExtraQuick {
		part = vChoice("part", 2)
	}
	i := vChoice("msg", c10NumMsgs)
	spec := c10MsgTable(i)
	body, tlvOff := c10MsgBody(i, spec, emax, part)
	tlvOK, recs := true, []c10TLVRec(nil)
	if spec.tlv && i != 3 {
		tlvOK, recs = c10RefTLV(body[tlvOff:])
	} else if i == 3 && len(body) >= 113 {
		tlvOK, recs = c10RefTLV(body[tlvOff:])
	}
	in := append([]byte{}, body...)
	m := spec.mk()
	err := m.Decode(bytes.NewReader(in), 0)
	vObserve("msg", i)
	if err != nil {
		vReach("reject")
		return
	}
	vReach("accept")
	vAssert(tlvOK, "a message is accepted only if its TLV extension is a canonical BOLT-1 stream")
	unknown := c10HasUnknown(recs, spec.known...)
	extra0 := append([]byte{}, spec.extra(m)...)
	var w1 bytes.Buffer
	vAssert(m.Encode(&w1, 0) == nil, "a decoded message re-encodes")
	enc1 := append([]byte{}, w1.Bytes()...)
	vAssert(len(enc1) <= 65535, "encoding fits the 65535-byte message bound")
	m2 := spec.mk()
	vAssert(m2.Decode(bytes.NewReader(enc1), 0) == nil, "the re-encoding decodes")
	vAssert(spec.eq(m, m2), "decode(encode(decode(b))) equals decode(b) (known fields)")
	if !(spec.repacks && unknown) {
		// messages that rebuild ExtraData from their known records drop
		// unknown records: that case is the subject of VerifC10MsgUnknownKept
		vAssert(bytes.Equal(extra0, spec.extra(m2)), "decode(encode(decode(b))) equals decode(b) (extension data)")
		vAssert(bytes.Equal(enc1, body), "lossless: encode(decode(b)) == b")
	} else {
		vReach("repack-unknown")
	}
	var w2 bytes.Buffer
	vAssert(m2.Encode(&w2, 0) == nil, "the second encoding succeeds")
	vAssert(bytes.Equal(w2.Bytes(), enc1), "canonical fixpoint: encode(decode(encode(decode(b)))) == encode(decode(b))")
}

// VerifC10MsgUnknownKept: the property demands that unknown records and
// trailing extension data survive decode -> encode -> decode. RevokeAndAck,
// ChannelReestablish and ClosingSigned rebuild ExtraData from their known
// records in Encode.
func VerifC10MsgUnknownKept() {
	c10Config()
	which := vChoice("msg", 3)
	i := []int{2, 3, 5}[which]
	spec := c10MsgTable(i)
	body, tlvOff := c10MsgBody(i, spec, 3, -1)
	vAssume(len(body) >= spec.fixed)
	_, recs := c10RefTLV(body[tlvOff:])
	in := append([]byte{}, body...)
	m := spec.mk()
	if m.Decode(bytes.NewReader(in), 0) != nil {
		return
	}
	vAssume(c10HasUnknown(recs, spec.known...))
	extra0 := append([]byte{}, spec.extra(m)...)
	var w1 bytes.Buffer
	vAssert(m.Encode(&w1, 0) == nil, "a decoded message re-encodes")
	m2 := spec.mk()
	vAssert(m2.Decode(bytes.NewReader(w1.Bytes()), 0) == nil, "the re-encoding decodes")
	kept := bytes.Equal(extra0, spec.extra(m2))
	switch i {
	case 2:
		vAssert(kept, "RevokeAndAck: unknown TLV records survive decode -> encode -> decode")
	case 3:
		vAssert(kept, "ChannelReestablish: unknown TLV records survive decode -> encode -> decode")
	default:
		vAssert(kept, "ClosingSigned: unknown TLV records survive decode -> encode -> decode")
	}
}

// ---------------------------------------------------------------- item 4, bytes -> value -> bytes

// c10ElemWidth is the wire width of a fixed-width element kind; variable
// (length-prefixed) kinds return 0, true.
func c10ElemWidth(kind int) (int, bool) {
	switch kind {
	case 0, 11, 14, 15, 16, 17:
		return 1, false
	case 1, 12:
		return 2, false
	case 2:
		return 4, false
	case 3, 4, 5, 6:
		return 8, false
	case 7, 9:
		return 32, false
	case 8:
		return 33, false
	case 10:
		return 64, false
	case 23:
		return 34, false
	case 24:
		return 3, false
	}
	return 0, true
}

// c10ElemRead reads one element of the kind from r and returns the error and
// a function re-encoding the value read.
func c10ElemRead(kind int, r io.Reader) (error, func(w *bytes.Buffer) error) {
	switch kind {
	case 0:
		var g uint8
		return ReadElement(r, &g), func(w *bytes.Buffer) error { return WriteElement(w, g) }
	case 1:
		var g uint16
		return ReadElement(r, &g), func(w *bytes.Buffer) error { return WriteElement(w, g) }
	case 2:
		var g uint32
		return ReadElement(r, &g), func(w *bytes.Buffer) error { return WriteElement(w, g) }
	case 3:
		var g uint64
		return ReadElement(r, &g), func(w *bytes.Buffer) error { return WriteElement(w, g) }
	case 4:
		var g MilliSatoshi
		return ReadElement(r, &g), func(w *bytes.Buffer) error { return WriteElement(w, g) }
	case 5:
		var g btcutil.Amount
		return ReadElement(r, &g), func(w *bytes.Buffer) error { return WriteElement(w, g) }
	case 6:
		var g ShortChannelID
		return ReadElement(r, &g), func(w *bytes.Buffer) error { return WriteElement(w, g) }
	case 7:
		var g ChannelID
		return ReadElement(r, &g), func(w *bytes.Buffer) error { return WriteElement(w, g) }
	case 8:
		var g [33]byte
		return ReadElement(r, &g), func(w *bytes.Buffer) error { return WriteElement(w, g) }
	case 9:
		g := make([]byte, 32)
		return ReadElement(r, g), func(w *bytes.Buffer) error { return WriteElement(w, g) }
	case 10:
		var g Sig
		return ReadElement(r, &g), func(w *bytes.Buffer) error { return WriteElement(w, g) }
	case 11:
		var g bool
		return ReadElement(r, &g), func(w *bytes.Buffer) error { return WriteElement(w, g) }
	case 12:
		var g FailCode
		return ReadElement(r, &g), func(w *bytes.Buffer) error { return WriteElement(w, g) }
	case 13:
		var g DeliveryAddress
		return ReadElement(r, &g), func(w *bytes.Buffer) error { return WriteElement(w, g) }
	case 14:
		var g FundingFlag
		return ReadElement(r, &g), func(w *bytes.Buffer) error { return WriteElement(w, g) }
	case 15:
		var g ChanUpdateMsgFlags
		return ReadElement(r, &g), func(w *bytes.Buffer) error { return WriteElement(w, g) }
	case 16:
		var g ChanUpdateChanFlags
		return ReadElement(r, &g), func(w *bytes.Buffer) error { return WriteElement(w, g) }
	case 17:
		var g QueryEncoding
		return ReadElement(r, &g), func(w *bytes.Buffer) error { return WriteElement(w, g) }
	case 18:
		var g OpaqueReason
		return ReadElement(r, &g), func(w *bytes.Buffer) error { return WriteElement(w, g) }
	case 19:
		var g ErrorData
		return ReadElement(r, &g), func(w *bytes.Buffer) error { return WriteElement(w, g) }
	case 20:
		var g WarningData
		return ReadElement(r, &g), func(w *bytes.Buffer) error { return WriteElement(w, g) }
	case 21:
		var g PingPayload
		return ReadElement(r, &g), func(w *bytes.Buffer) error { return WriteElement(w, g) }
	case 22:
		var g PongPayload
		return ReadElement(r, &g), func(w *bytes.Buffer) error { return WriteElement(w, g) }
	case 23:
		var g wire.OutPoint
		return ReadElement(r, &g), func(w *bytes.Buffer) error { return WriteElement(w, g) }
	case 24:
		var g color.RGBA
		return ReadElement(r, &g), func(w *bytes.Buffer) error { return WriteElement(w, g) }
	}
	var g PkScript
	return ReadElement(r, &g), func(w *bytes.Buffer) error { return WriteElement(w, g) }
}

// VerifC10ElemBytes: ReadElement on an arbitrary reader content of each kind
// never panics, accepts exactly when the field is completely present (and a
// length prefix is within its bound), consumes exactly the field, and
// WriteElement of the value read reproduces the consumed bytes (bool: the
// canonical byte). Together with VerifC10ElemValue (WriteElement is the
// injective big-endian encoding) this fixes the decoded value.
func VerifC10ElemBytes() {
	kind := vChoice("kind", c10NumElemKinds)
	width, variable := c10ElemWidth(kind)
	var n int
	if variable {
		n = vChoice("n", 8)
		if kind == 13 && n == 7 {
			n = 37 // DeliveryAddress: room for the maximum 34-byte address
		}
	} else {
		n = []int{0, width - 1, width, width + 1}[vChoice("nsel", 4)]
	}
	b := vBytes("b", n)
	wantOK := n >= width
	wantLen := width
	if variable {
		wantOK = false
		switch {
		case kind == 25: // PkScript: Bitcoin CompactSize length (canonical), at most 34
			if n >= 1 && b[0] <= 34 && int(b[0]) <= n-1 {
				wantOK, wantLen = true, 1+int(b[0])
			}
			// the longer CompactSize forms must encode >= 0xfd: never <= 34
		case n >= 2:
			decl := c10FromBE(b[:2])
			// explored domain: declared length <= 8, or (DeliveryAddress) >= 34
			if kind == 13 {
				vAssume(decl <= 8 || decl >= 34)
			} else {
				vAssume(decl <= 8)
			}
			if decl <= uint64(n-2) && (kind != 13 || decl <= 34) {
				wantOK, wantLen = true, 2+int(decl)
			}
		}
	}
	in := append([]byte{}, b...)
	r := bytes.NewReader(in)
	err, rewrite := c10ElemRead(kind, r)
	vObserve("kind", kind)
	vAssert((err == nil) == wantOK, "ReadElement accepts exactly when the whole field is present and within bounds")
	if err != nil {
		vReach("reject")
		return
	}
	vReach("accept")
	vAssert(n-r.Len() == wantLen, "ReadElement consumes exactly the field")
	var w bytes.Buffer
	vAssert(rewrite(&w) == nil, "a value read from the wire can be written")
	want := append([]byte{}, b[:wantLen]...)
	if kind == 11 && want[0] != 1 {
		want[0] = 0 // bool: every byte other than 1 reads as false
	}
	vAssert(bytes.Equal(w.Bytes(), want), "WriteElement(ReadElement(b)) reproduces the consumed bytes")
}

// ---------------------------------------------------------------- item 5, value -> bytes -> value

func c10Chan(name string) (c ChannelID) {
	copy(c[:], vBytes(name, 32))
	return c
}

func c10Arr32(name string) (a [32]byte) {
	copy(a[:], vBytes(name, 32))
	return a
}

// c10ExtraShape returns ExtraData that is either empty or one unknown record
// with a one-byte type (not one of the avoided known types) and <= 1 value byte.
func c10ExtraShape(avoid ...uint8) ExtraOpaqueData {
	switch vChoice("xshape", 3) {
	case 0:
		return nil
	case 1:
		t := vU8("xtype")
		vAssume(t < 0xfd)
		for _, a := range avoid {
			vAssume(t != a)
		}
		return ExtraOpaqueData{t, 0}
	}
	t := vU8("xtype")
	vAssume(t < 0xfd)
	for _, a := range avoid {
		vAssume(t != a)
	}
	return ExtraOpaqueData{t, 1, vU8("xval")}
}

// c10CustomShape returns custom records that are absent or hold one record
// with an arbitrary 64-bit type and <= 2 value bytes, its BOLT-1 encoding and
// whether the type is in the custom range (>= 65536).
func c10CustomShape() (CustomRecords, []byte, bool) {
	sh := vChoice("cshape", 3)
	if sh == 0 {
		return nil, nil, true
	}
	k := vU64("ctype")
	v := vBytes("cval", sh-1)
	rec := c10Cat(c10RefBigSizeEnc(k), []byte{byte(len(v))}, v)
	return CustomRecords{k: v}, rec, k >= 65536
}

func c10Nonce() (n Musig2Nonce) {
	copy(n[:33], c10KeyBytes(0))
	copy(n[33:], c10KeyBytes(1))
	return n
}

// VerifC10MsgValue: for field values of each message type (all fixed fields
// symbolic; public keys G / -G; optional records absent or present; extension
// data and custom records of the small shapes above) Encode yields exactly the
// BOLT layout, within 65535 bytes, and Decode yields an equal message with
// extension data and custom records preserved. Custom record types below 65536
// are refused by Encode.
func VerifC10MsgValue() {
	c10Config()
	i := vChoice("msg", c10NumMsgs)
	spec := c10MsgTable(i)
	var (
		m          Message
		want       []byte
		wellFormed = true
	)
	key := func() (*btcec.PublicKey, []byte) {
		kb := c10KeyBytes(vChoice("key", 2))
		pk, err := btcec.ParsePubKey(kb)
		vAssert(err == nil, "harness key parses")
		return pk, kb
	}
	switch i {
	case 0:
		x := &UpdateFee{ChanID: c10Chan("chan"), FeePerKw: vU32("feekw"), ExtraData: vBytes("x", vChoice("xlen", 4))}
		m = x
		want = c10Cat(x.ChanID[:], c10BE(uint64(x.FeePerKw), 4), x.ExtraData)
	case 1:
		cr, crb, ok := c10CustomShape()
		x := &UpdateFulfillHTLC{ChanID: c10Chan("chan"), ID: vU64("id"), PaymentPreimage: c10Arr32("preimage"),
			CustomRecords: cr, ExtraData: c10ExtraShape()}
		m, wellFormed = x, ok
		want = c10Cat(x.ChanID[:], c10BE(x.ID, 8), x.PaymentPreimage[:], x.ExtraData, crb)
	case 2:
		pk, kb := key()
		x := &RevokeAndAck{ChanID: c10Chan("chan"), Revocation: c10Arr32("rev"), NextRevocationKey: pk}
		want = c10Cat(x.ChanID[:], x.Revocation[:], kb)
		if vChoice("nonce", 2) == 1 {
			n := c10Nonce()
			x.LocalNonce = SomeMusig2Nonce(n)
			want = c10Cat(want, []byte{4, 66}, n[:])
		}
		if vChoice("nonces", 2) == 1 {
			x.LocalNonces = SomeLocalNonces(LocalNoncesData{NoncesMap: map[chainhash.Hash]Musig2Nonce{}})
			want = c10Cat(want, []byte{22, 0})
		}
		m = x
	case 3:
		x := &ChannelReestablish{ChanID: c10Chan("chan"), NextLocalCommitHeight: vU64("next"),
			RemoteCommitTailHeight: vU64("tail"), LastRemoteCommitSecret: c10Arr32("secret")}
		want = c10Cat(x.ChanID[:], c10BE(x.NextLocalCommitHeight, 8), c10BE(x.RemoteCommitTailHeight, 8))
		if vChoice("dlp", 2) == 1 {
			pk, kb := key()
			x.LocalUnrevokedCommitPoint = pk
			want = c10Cat(want, x.LastRemoteCommitSecret[:], kb)
			if vChoice("nonce", 2) == 1 {
				n := c10Nonce()
				x.LocalNonce = SomeMusig2Nonce(n)
				want = c10Cat(want, []byte{4, 66}, n[:])
			}
			if vChoice("dyn", 2) == 1 {
				h := DynHeight(vU64("dynheight"))
				x.DynHeight = fn.Some(h)
				want = c10Cat(want, []byte{20, 8}, c10BE(uint64(h), 8))
			}
			if vChoice("nonces", 2) == 1 {
				x.LocalNonces = SomeLocalNonces(LocalNoncesData{NoncesMap: map[chainhash.Hash]Musig2Nonce{}})
				want = c10Cat(want, []byte{22, 0})
			}
		} else {
			// without a commitment point the secret is not sent either
			x.LastRemoteCommitSecret = [32]byte{}
		}
		m = x
	case 4:
		cr, crb, ok := c10CustomShape()
		x := &Shutdown{ChannelID: c10Chan("chan"), Address: vBytes("addr", vChoice("alen", 5)),
			CustomRecords: cr, ExtraData: c10ExtraShape(8)}
		var nonceRec []byte
		if vChoice("nonce", 2) == 1 {
			n := c10Nonce()
			x.ShutdownNonce = SomeShutdownNonce(n)
			nonceRec = c10Cat([]byte{8, 66}, n[:])
		}
		m, wellFormed = x, ok
		// records in type order: the extension record (one-byte type) sorts
		// before or after record 8
		var ext []byte
		if len(x.ExtraData) > 0 && x.ExtraData[0] < 8 {
			ext = c10Cat(x.ExtraData, nonceRec)
		} else {
			ext = c10Cat(nonceRec, x.ExtraData)
		}
		want = c10Cat(x.ChannelID[:], c10LenPrefixed(x.Address), ext, crb)
	default:
		x := &ClosingSigned{ChannelID: c10Chan("chan"), FeeSatoshis: btcutil.Amount(vI64("feesat"))}
		copy(x.Signature.bytes[:], vBytes("sig", 64))
		want = c10Cat(x.ChannelID[:], c10BE(uint64(x.FeeSatoshis), 8), x.Signature.bytes[:])
		if vChoice("psig", 2) == 1 {
			var sc btcec.ModNScalar
			raw := c10BE(0x0102030405060708, 32)
			sc.SetByteSlice(raw)
			x.PartialSig = SomePartialSig(NewPartialSig(sc))
			want = c10Cat(want, []byte{6, 32}, raw)
		}
		m = x
	}
	vObserve("msg", i)
	extra0 := append([]byte{}, spec.extra(m)...)
	var w bytes.Buffer
	err := m.Encode(&w, 0)
	vAssert((err == nil) == wellFormed, "Encode succeeds exactly on well-formed values (custom record types >= 65536)")
	if err != nil {
		vReach("refused")
		return
	}
	vReach("encoded")
	enc := append([]byte{}, w.Bytes()...)
	vAssert(len(enc) <= 65535, "encoding fits the 65535-byte message bound")
	vAssert(bytes.Equal(enc, want), "Encode produces the BOLT field layout followed by the TLV records in type order")
	if spec.repacks {
		extra0 = append([]byte{}, spec.extra(m)...) // Encode stores the packed known records in ExtraData
	}
	m2 := spec.mk()
	vAssert(m2.Decode(bytes.NewReader(enc), 0) == nil, "Decode accepts what Encode wrote")
	vAssert(spec.eq(m, m2), "decode(encode(m)) == m (fields, optional records, custom records)")
	vAssert(bytes.Equal(extra0, spec.extra(m2)), "decode(encode(m)) == m (extension data)")
}

// ---------------------------------------------------------------- item 6: ReadMessage / WriteMessage

// VerifC10Dispatch: for every 16-bit message type, the dispatcher used by
// ReadMessage either refuses the type as unknown (only below the custom range
// 32768) or returns a message whose MsgType() is the type read; ReadMessage on
// the two type bytes followed by an empty body never panics and a message it
// returns has the type read.
func VerifC10Dispatch() {
	c10Config()
	t := vU16("type")
	msg, err := MakeEmptyMessage(MessageType(t))
	if err != nil {
		vReach("unknown")
		vAssert(t < 32768, "types in the custom range (>= 32768) always dispatch")
		_, isUnknown := err.(*UnknownMessage)
		vAssert(isUnknown, "an unregistered type is refused with UnknownMessage")
		_, err2 := ReadMessage(bytes.NewReader(c10BE(uint64(t), 2)), 0)
		vAssert(err2 != nil, "ReadMessage refuses an unregistered type")
		return
	}
	vReach("known")
	vAssert(uint16(msg.MsgType()) == t, "dispatch returns a message of the type read")
	m2, err2 := ReadMessage(bytes.NewReader(c10BE(uint64(t), 2)), 0)
	if err2 == nil {
		vReach("empty-body-accepted")
		vAssert(uint16(m2.MsgType()) == t, "ReadMessage returns a message of the type read")
	}
}

// VerifC10WriteMessageBound: a message is its 2-byte type plus the payload and
// must fit the 65535-byte transport bound (BOLT-1/BOLT-8): WriteMessage accepts
// a payload of exactly 65533 bytes and refuses 65534, restoring the buffer (two
// concrete lengths at the bound; field contents symbolic).
func VerifC10WriteMessageBound() {
	over := vChoice("over", 2)
	n := 65533 - 36 + over
	x := &UpdateFee{ChanID: c10Chan("chan"), FeePerKw: vU32("feekw"), ExtraData: make([]byte, n)}
	x.ExtraData[0] = vU8("x0")
	x.ExtraData[n-1] = vU8("xlast")
	var buf bytes.Buffer
	buf.Write([]byte{0xaa}) // earlier content of the buffer must survive
	k, err := WriteMessage(&buf, x, 0)
	if over == 1 {
		vReach("refused")
		vAssert(err != nil, "a message of 65536 bytes (type + payload) is refused")
		vAssert(k == 0 && buf.Len() == 1, "a refused message leaves the buffer as it was")
		return
	}
	vReach("written")
	vAssert(err == nil, "a message of 65535 bytes (type + payload) is accepted")
	vAssert(k == 65535 && buf.Len() == 1+k, "WriteMessage reports type + payload bytes")
	out := buf.Bytes()
	vAssert(out[0] == 0xaa && out[1] == 0 && out[2] == byte(MsgUpdateFee), "type prefix is the big-endian message type (update_fee = 134)")
	vAssert(out[3+36] == x.ExtraData[0] && out[len(out)-1] == x.ExtraData[n-1], "payload follows the type")
	m, err := ReadMessage(bytes.NewReader(out[1:]), 0)
	vAssert(err == nil, "ReadMessage accepts the maximum-size message")
	y, ok := m.(*UpdateFee)
	vAssert(ok && y.ChanID == x.ChanID && y.FeePerKw == x.FeePerKw && len(y.ExtraData) == n, "maximum-size message round-trips")
}

var _ = io.EOF
