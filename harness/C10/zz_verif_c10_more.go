package lnwire

// Harness for C10, lnwire part, second batch (DESIGN.md §7 C10 item 5 rest and
// the gossip query messages):
//
//   (a) ExtraOpaqueData.ValidateTLV and the gossip messages that validate or
//       parse their trailing extension on the p2p path (ChannelUpdate1,
//       ChannelAnnouncement1, NodeAnnouncement1);
//   (b) QueryShortChanIDs / ReplyChannelRange with the plain encoding of the
//       short channel id list and the timestamps record;
//   (c) UpdateFailMalformedHTLC, UpdateFailHTLC, Warning, Error, Ping, Pong
//       (bytes and value direction) and ChannelUpdate1 (value direction).
//
// References (c10m*) are written from BOLT-1 (BigSize, TLV stream rules) and
// BOLT-2/BOLT-7 field layouts and never call lnd code. Helpers c10BE,
// c10FromBE, c10Cat, c10LenPrefixed, c10RefBigSizeDec, c10TLVRec, c10Chan,
// c10Arr32 and c10Config come from zz_verif_c10_lnwire.go (same package).

import (
	"bytes"
	"errors"
	"io"

	"github.com/lightningnetwork/lnd/tlv"
)

// ---------------------------------------------------------------- BOLT-1 TLV reference (p2p), lnwire-side copy

// reasons why the reference rejects a stream
const (
	c10mOK           = iota
	c10mBadVarInt    // a type or length is not a minimal BigSize
	c10mBadTruncated // the stream ends inside a record
	c10mBadOrder     // types not strictly increasing
	c10mBadTooLarge  // declared length > 65535 (p2p bound of a message)
	c10mBadKnown     // a record the message knows has a malformed value
)

// c10mKnown judges the value of a record the message knows, given its type, the
// declared length and the bytes that follow the length; it returns c10mOK for
// types it does not know.
type c10mKnown func(typ, l uint64, rest []byte) int

// c10mRefTLV walks b as a BOLT-1 TLV stream read from a peer: BigSize type and
// length minimally encoded, types strictly increasing, declared length at most
// 65535 (a record cannot be longer than a message; this is judged right after
// the length has been read, before the value is looked at), value bytes
// present. While walking it restricts the explored domain (vAssume): every
// declared length is <= lenMax or > 65535 (the engine enumerates the feasible
// sizes of an allocation; lengths > 65535 are refused before any allocation).
func c10mRefTLV(b []byte, lenMax uint64, known c10mKnown) (int, []c10TLVRec) {
	var recs []c10TLVRec
	pos := 0
	first := true
	var prev uint64
	for pos < len(b) {
		st, typ, n := c10RefBigSizeDec(b[pos:])
		if st == c10VarNonMinimal {
			return c10mBadVarInt, nil
		}
		if st != c10VarOK {
			return c10mBadTruncated, nil
		}
		pos += n
		if !first && typ <= prev {
			return c10mBadOrder, nil
		}
		st, l, n := c10RefBigSizeDec(b[pos:])
		if st == c10VarNonMinimal {
			return c10mBadVarInt, nil
		}
		if st != c10VarOK {
			return c10mBadTruncated, nil
		}
		pos += n
		vAssume(l <= lenMax || l > 65535) // explored domain
		if l > 65535 {
			return c10mBadTooLarge, nil
		}
		if known != nil {
			if why := known(typ, l, b[pos:]); why != c10mOK {
				return why, nil
			}
		}
		if l > uint64(len(b)-pos) {
			return c10mBadTruncated, nil
		}
		end := pos + int(l)
		recs = append(recs, c10TLVRec{typ: typ, val: b[pos:end]})
		pos = end
		first, prev = false, typ
	}
	return c10mOK, recs
}

// c10mErrClass: the decoder's documented error classes (the callers wrap the
// tlv error, so errors.Is).
func c10mErrClass(err error, why int) {
	switch why {
	case c10mBadVarInt:
		vAssert(errors.Is(err, tlv.ErrVarIntNotCanonical), "non-minimal BigSize is ErrVarIntNotCanonical")
	case c10mBadOrder:
		vReach("bad-order")
		vAssert(errors.Is(err, tlv.ErrStreamNotCanonical), "types not strictly increasing is ErrStreamNotCanonical")
	case c10mBadTooLarge:
		vReach("too-large")
		vAssert(errors.Is(err, tlv.ErrRecordTooLarge), "declared record length > 65535 is ErrRecordTooLarge (refused before the value is allocated or read)")
	case c10mBadTruncated:
		vAssert(errors.Is(err, io.ErrUnexpectedEOF), "a stream ending inside a record is io.ErrUnexpectedEOF")
	}
}

func c10mFind(recs []c10TLVRec, typ uint64) (c10TLVRec, bool) {
	for _, r := range recs {
		if r.typ == typ {
			return r, true
		}
	}
	return c10TLVRec{}, false
}

// ---------------------------------------------------------------- extension shapes

// the four pinned over-long lengths (minimal BigSize encodings)
var c10mPinnedLen = [][]byte{
	{0xfe, 0x00, 0x01, 0x00, 0x00},                         // 2^16
	{0xff, 0x00, 0x00, 0x00, 0x01, 0x00, 0x00, 0x00, 0x00}, // 2^32
	{0xff, 0x00, 0x01, 0x00, 0x00, 0x00, 0x00, 0x00, 0x00}, // 2^48
	{0xff, 0x80, 0x00, 0x00, 0x00, 0x00, 0x00, 0x00, 0x00}, // 2^63
}

// c10mHugeLen builds an extension whose (first or second) record declares an
// over-long length: [tp 00] t <len> tail, where t, tp are one-byte types, <len>
// is a 5-byte BigSize (4 symbolic bytes), a 9-byte BigSize (8 symbolic bytes:
// every value incl. >= 2^63 and the non-minimal ones), or one of the pinned
// values 2^16, 2^32, 2^48, 2^63, and tail is 0..2 arbitrary bytes. It returns
// the index of the pinned value or -1.
func c10mHugeLen() ([]byte, int) {
	var out []byte
	if vChoice("hpre", 2) == 1 {
		tp := vU8("htp")
		vAssume(tp < 0xfd)
		out = []byte{tp, 0}
	}
	t := vU8("ht")
	vAssume(t < 0xfd)
	out = append(out, t)
	pin := -1
	switch f := vChoice("hform", 6); f {
	case 0:
		out = append(out, 0xfe)
		out = append(out, vBytes("hl", 4)...)
	case 1:
		out = append(out, 0xff)
		out = append(out, vBytes("hl", 8)...)
	default:
		pin = f - 2
		out = append(out, c10mPinnedLen[pin]...)
	}
	out = append(out, vBytes("htail", vChoice("htailn", 3))...)
	return out, pin
}

func c10mReachPin(pin int) {
	switch pin {
	case 0:
		vReach("len-2^16")
	case 1:
		vReach("len-2^32")
	case 2:
		vReach("len-2^48")
	case 3:
		vReach("len-2^63")
	}
}

// c10mArb is an arbitrary extension of 0..nmax bytes. Band 1 is the longest
// length alone so that it can run as its own process.
func c10mArb(nmax int) []byte {
	n := nmax
	if vChoice("xband", 2) == 0 {
		n = vChoice("xn", nmax)
	}
	return vBytes("x", n)
}

// c10mDomainLen is the bound of declared record lengths of the explored domain
// (see c10mRefTLV).
const c10mDomainLen = 12

// ---------------------------------------------------------------- (a) ExtraOpaqueData.ValidateTLV

// VerifC10ValidateTLV: for an arbitrary extension of <= 5 bytes, and for
// extensions holding a record with an over-long declared length (5-/9-byte
// BigSize, any value, and the pinned values 2^16, 2^32, 2^48, 2^63),
// ValidateTLV never panics, accepts exactly the canonical BOLT-1 streams,
// reports the documented error class (over-long => ErrRecordTooLarge) and
// leaves the data untouched. A nil or empty extension is valid.
func VerifC10ValidateTLV() { c10mValidateTLV(5) }

// VerifC10ValidateTLVDeep: the same with arbitrary extensions of <= 8 bytes.
func VerifC10ValidateTLVDeep() { c10mValidateTLV(8) }

func c10mValidateTLV(nmax int) {
	c10Config()
	var (
		b   []byte
		pin = -1
	)
	switch vChoice("xs", 3) {
	case 0:
		b = c10mArb(nmax)
	case 1:
		b, pin = c10mHugeLen()
	default:
		var e *ExtraOpaqueData
		vAssert(e.ValidateTLV() == nil, "a nil extension is valid")
		vReach("nil")
		return
	}
	why, _ := c10mRefTLV(b, c10mDomainLen, nil)
	e := ExtraOpaqueData(append([]byte{}, b...))
	err := e.ValidateTLV()
	vObserve("accepted", err == nil)
	vAssert((err == nil) == (why == c10mOK), "ValidateTLV accepts exactly the canonical BOLT-1 TLV streams")
	vAssert(bytes.Equal(e, b), "ValidateTLV leaves the extension data untouched")
	if err != nil {
		vReach("reject")
		c10mErrClass(err, why)
		if why == c10mBadTooLarge {
			c10mReachPin(pin)
		}
		return
	}
	vReach("accept")
}

// ---------------------------------------------------------------- (a) gossip messages with a validated extension

// c10mFeeKnown: channel_update knows record 55555 (inbound fee: two 4-byte
// signed integers).
func c10mFeeKnown(typ, l uint64, rest []byte) int {
	if typ == 55555 && l != 8 {
		return c10mBadKnown
	}
	return c10mOK
}

// c10mFeeShape: [tp 00] fd d9 03 l v[8] tail: the inbound fee record with a
// one-byte declared length l (explored: l <= 12), optionally preceded by an
// empty record of a one-byte type and followed by 0..2 arbitrary bytes.
func c10mFeeShape() []byte {
	var out []byte
	if vChoice("fpre", 2) == 1 {
		tp := vU8("ftp")
		vAssume(tp < 0xfd)
		out = []byte{tp, 0}
	}
	l := vU8("fl")
	out = append(out, 0xfd, 0xd9, 0x03, l)
	out = append(out, vBytes("fv", 8)...)
	out = append(out, vBytes("ftail", vChoice("ftailn", 3))...)
	return out
}

const (
	c10mChanUpdFixed = 128 // signature 64, chain_hash 32, short_channel_id 8, timestamp 4, flags 1+1, cltv 2, htlc_min 8, base 4, prop 4
	c10mChanAnnFixed = 430 // 4 signatures 256, feature length 2 (=0), chain_hash 32, short_channel_id 8, 4 keys 132
	c10mNodeAnnFixed = 140 // signature 64, feature length 2 (=0), timestamp 4, node_id 33, rgb 3, alias 32, address length 2 (=0)
)

func c10mEqChanUpd(x, y *ChannelUpdate1) bool {
	fx, fy := x.InboundFee.ValOpt(), y.InboundFee.ValOpt()
	return x.Signature.bytes == y.Signature.bytes && x.ChainHash == y.ChainHash &&
		x.ShortChannelID == y.ShortChannelID && x.Timestamp == y.Timestamp &&
		x.MessageFlags == y.MessageFlags && x.ChannelFlags == y.ChannelFlags &&
		x.TimeLockDelta == y.TimeLockDelta && x.HtlcMinimumMsat == y.HtlcMinimumMsat &&
		x.BaseFee == y.BaseFee && x.FeeRate == y.FeeRate && x.HtlcMaximumMsat == y.HtlcMaximumMsat &&
		fx.IsSome() == fy.IsSome() && fx.UnwrapOr(Fee{}) == fy.UnwrapOr(Fee{})
}

// VerifC10ChanUpdBytes: ChannelUpdate1.Decode on (fixed part [+ htlc_maximum]
// + extension) never panics; it accepts exactly when the fixed part is complete
// and the extension is a canonical TLV stream whose inbound-fee record (55555),
// if present, is 8 bytes; over-long records are ErrRecordTooLarge; the decoded
// inbound fee is the big-endian value; an accepted message re-encodes, the
// re-encoding decodes to an equal message, is byte-identical to the input when
// the extension holds no record unknown to lnd, and a second Encode is
// byte-identical.
func VerifC10ChanUpdBytes() { c10mChanUpdBytes(4) }

// VerifC10ChanUpdBytesDeep: the same with arbitrary extensions of <= 7 bytes.
func VerifC10ChanUpdBytesDeep() { c10mChanUpdBytes(7) }

func c10mChanUpdBytes(nmax int) {
	c10Config()
	var (
		ext []byte
		pin = -1
	)
	switch vChoice("xs", 3) {
	case 0:
		ext = c10mArb(nmax)
	case 1:
		if vChoice("cut", 2) == 1 {
			// truncated fixed part
			maxHtlc := vChoice("maxhtlc", 2)
			n := c10mChanUpdFixed - 1 + 8*maxHtlc
			b := vBytes("h", n)
			vAssume(b[108]&1 == byte(maxHtlc))
			m := &ChannelUpdate1{}
			vAssert(m.Decode(bytes.NewReader(b), 0) != nil, "a truncated channel_update is refused")
			vReach("truncated")
			return
		}
		ext, pin = c10mHugeLen()
	default:
		ext = c10mFeeShape()
	}
	maxHtlc := vChoice("maxhtlc", 2)
	fixed := c10mChanUpdFixed + 8*maxHtlc
	head := vBytes("h", fixed)
	// message_flags bit 0 (option_channel_htlc_max) decides whether
	// htlc_maximum_msat is present
	vAssume(head[108]&1 == byte(maxHtlc))
	body := c10Cat(head, ext)
	why, recs := c10mRefTLV(ext, c10mDomainLen, c10mFeeKnown)
	fee, hasFee := c10mFind(recs, 55555)
	unknown := c10HasUnknown(recs, 55555)

	m := &ChannelUpdate1{}
	err := m.Decode(bytes.NewReader(append([]byte{}, body...)), 0)
	vObserve("accepted", err == nil)
	vAssert((err == nil) == (why == c10mOK), "channel_update is accepted exactly when its extension is a canonical TLV stream with a well-formed inbound fee record")
	if err != nil {
		vReach("reject")
		vAssert(errors.Is(err, ErrParsingExtraTLVBytes), "a malformed extension is ErrParsingExtraTLVBytes")
		c10mErrClass(err, why)
		if why == c10mBadTooLarge {
			c10mReachPin(pin)
		}
		return
	}
	vReach("accept")
	vAssert(m.Timestamp == uint32(c10FromBE(head[104:108])) && m.TimeLockDelta == uint16(c10FromBE(head[110:112])) &&
		uint64(m.HtlcMinimumMsat) == c10FromBE(head[112:120]) && m.BaseFee == uint32(c10FromBE(head[120:124])) &&
		m.FeeRate == uint32(c10FromBE(head[124:128])), "decoded fields are the big-endian wire fields")
	if maxHtlc == 1 {
		vAssert(uint64(m.HtlcMaximumMsat) == c10FromBE(head[128:136]), "htlc_maximum_msat is the big-endian wire field")
	} else {
		vAssert(m.HtlcMaximumMsat == 0, "absent htlc_maximum_msat decodes to zero")
	}
	got := m.InboundFee.ValOpt()
	vAssert(got.IsSome() == hasFee, "inbound fee is set exactly when record 55555 is present")
	if hasFee {
		vReach("fee")
		f := got.UnwrapOr(Fee{})
		vAssert(f.BaseFee == int32(uint32(c10FromBE(fee.val[:4]))) && f.FeeRate == int32(uint32(c10FromBE(fee.val[4:8]))),
			"inbound fee decodes to the two big-endian 32-bit values")
	}
	vAssert(bytes.Equal(m.ExtraOpaqueData, ext), "decoded extension data are the bytes after the fixed part")

	var w1 bytes.Buffer
	vAssert(m.Encode(&w1, 0) == nil, "a decoded message re-encodes")
	enc1 := append([]byte{}, w1.Bytes()...)
	vAssert(len(enc1) <= 65535, "encoding fits the 65535-byte message bound")
	m2 := &ChannelUpdate1{}
	vAssert(m2.Decode(bytes.NewReader(enc1), 0) == nil, "the re-encoding decodes")
	vAssert(c10mEqChanUpd(m, m2), "decode(encode(decode(b))) equals decode(b) (fields, inbound fee)")
	if !unknown {
		vAssert(bytes.Equal(ext, m2.ExtraOpaqueData), "decode(encode(decode(b))) equals decode(b) (extension data)")
		vAssert(bytes.Equal(enc1, body), "lossless: encode(decode(b)) == b")
	} else {
		// Encode rebuilds the extension from the records it knows; that case
		// is the subject of VerifC10GossipUnknownKept
		vReach("repack-unknown")
	}
	var w2 bytes.Buffer
	vAssert(m2.Encode(&w2, 0) == nil, "the second encoding succeeds")
	vAssert(bytes.Equal(w2.Bytes(), enc1), "canonical fixpoint: encode(decode(encode(decode(b)))) == encode(decode(b))")
}

// c10mAlias is the concrete 32-byte alias used in node_announcement bodies
// (UTF-8 validation of symbolic bytes is outside).
func c10mAlias() []byte {
	a := make([]byte, 32)
	copy(a, "verif-c10")
	return a
}

// VerifC10AnnBytes: ChannelAnnouncement1 / NodeAnnouncement1 (feature vector
// and address list empty, alias concrete) on fixed part + extension: Decode
// never panics, accepts exactly when the fixed part is complete and the
// extension is a canonical TLV stream (ValidateTLV), over-long records are
// ErrRecordTooLarge; an accepted message re-encodes to exactly the input.
func VerifC10AnnBytes() { c10mAnnBytes(4) }

// VerifC10AnnBytesDeep: the same with arbitrary extensions of <= 7 bytes.
func VerifC10AnnBytesDeep() { c10mAnnBytes(7) }

func c10mAnnBytes(nmax int) {
	c10Config()
	which := vChoice("msg", 2)
	fixed := c10mChanAnnFixed
	if which == 1 {
		fixed = c10mNodeAnnFixed
	}
	mk := func() Message {
		if which == 0 {
			return &ChannelAnnouncement1{}
		}
		return &NodeAnnouncement1{}
	}
	pinFixed := func(h []byte) {
		if which == 0 {
			h[256], h[257] = 0, 0 // empty feature vector
			return
		}
		h[64], h[65] = 0, 0 // empty feature vector
		copy(h[106:138], c10mAlias())
		if len(h) >= 140 {
			h[138], h[139] = 0, 0 // empty address list
		}
	}
	var (
		ext []byte
		pin = -1
	)
	switch vChoice("xs", 2) {
	case 0:
		ext = c10mArb(nmax)
	default:
		if vChoice("cut", 2) == 1 {
			b := vBytes("h", fixed-1)
			pinFixed(b)
			vAssert(mk().Decode(bytes.NewReader(b), 0) != nil, "a truncated announcement is refused")
			vReach("truncated")
			return
		}
		ext, pin = c10mHugeLen()
	}
	head := vBytes("h", fixed)
	pinFixed(head)
	body := c10Cat(head, ext)
	why, _ := c10mRefTLV(ext, c10mDomainLen, nil)
	m := mk()
	err := m.Decode(bytes.NewReader(append([]byte{}, body...)), 0)
	vObserve("msg", which)
	vObserve("accepted", err == nil)
	vAssert((err == nil) == (why == c10mOK), "an announcement is accepted exactly when its extension is a canonical TLV stream")
	if err != nil {
		vReach("reject")
		c10mErrClass(err, why)
		if why == c10mBadTooLarge {
			c10mReachPin(pin)
		}
		return
	}
	vReach("accept")
	var w1 bytes.Buffer
	vAssert(m.Encode(&w1, 0) == nil, "a decoded message re-encodes")
	enc1 := append([]byte{}, w1.Bytes()...)
	vAssert(bytes.Equal(enc1, body), "lossless: encode(decode(b)) == b")
	m2 := mk()
	vAssert(m2.Decode(bytes.NewReader(enc1), 0) == nil, "the re-encoding decodes")
	if which == 0 {
		x, y := m.(*ChannelAnnouncement1), m2.(*ChannelAnnouncement1)
		vAssert(x.NodeSig1.bytes == y.NodeSig1.bytes && x.NodeSig2.bytes == y.NodeSig2.bytes &&
			x.BitcoinSig1.bytes == y.BitcoinSig1.bytes && x.BitcoinSig2.bytes == y.BitcoinSig2.bytes &&
			x.ChainHash == y.ChainHash && x.ShortChannelID == y.ShortChannelID &&
			x.NodeID1 == y.NodeID1 && x.NodeID2 == y.NodeID2 && x.BitcoinKey1 == y.BitcoinKey1 &&
			x.BitcoinKey2 == y.BitcoinKey2 && bytes.Equal(x.ExtraOpaqueData, y.ExtraOpaqueData),
			"decode(encode(decode(b))) equals decode(b)")
		vAssert(bytes.Equal(x.ExtraOpaqueData, ext), "decoded extension data are the bytes after the fixed part")
	} else {
		x, y := m.(*NodeAnnouncement1), m2.(*NodeAnnouncement1)
		vAssert(x.Signature.bytes == y.Signature.bytes && x.Timestamp == y.Timestamp && x.NodeID == y.NodeID &&
			x.RGBColor == y.RGBColor && x.Alias == y.Alias && len(x.Addresses) == 0 && len(y.Addresses) == 0 &&
			bytes.Equal(x.ExtraOpaqueData, y.ExtraOpaqueData), "decode(encode(decode(b))) equals decode(b)")
		vAssert(bytes.Equal(x.ExtraOpaqueData, ext), "decoded extension data are the bytes after the fixed part")
	}
	var w2 bytes.Buffer
	vAssert(m2.Encode(&w2, 0) == nil, "the second encoding succeeds")
	vAssert(bytes.Equal(w2.Bytes(), enc1), "canonical fixpoint")
}

// ---------------------------------------------------------------- (b) encoded short channel id lists

// c10mSCIDDeclMax bounds the declared byte length of an encoded short channel
// id list in the explored domain (the decoder allocates the declared length
// before reading; the engine enumerates the feasible sizes).
const c10mSCIDDeclMax = 20

// c10mRefSCIDList is BOLT-7 "encoded_short_ids": u16 len, then len bytes whose
// first is the encoding type; type 0 = array of 8-byte short channel ids in
// strictly ascending order. lnd documents: len = 0 is an empty list of encoding
// 0; encoding 1 (zlib) with nothing after the type byte is an empty list;
// every other encoding type is refused. zlib payloads are outside the domain.
func c10mRefSCIDList(b []byte) (ok bool, enc byte, ids []uint64, rest []byte) {
	if len(b) < 2 {
		return false, 0, nil, nil
	}
	decl := c10FromBE(b[:2])
	vAssume(decl <= c10mSCIDDeclMax) // explored domain
	if decl == 0 {
		return true, 0, nil, b[2:]
	}
	if decl > uint64(len(b)-2) {
		return false, 0, nil, nil
	}
	end := 2 + int(decl)
	p := b[2:end]
	rest = b[end:]
	enc = p[0]
	p = p[1:]
	if enc == 1 {
		vAssume(len(p) == 0) // zlib payloads are outside
		return true, 1, nil, rest
	}
	if enc != 0 {
		return false, 0, nil, nil
	}
	if len(p)%8 != 0 {
		return false, 0, nil, nil
	}
	var prev uint64
	for i := 0; i+8 <= len(p); i += 8 {
		v := c10FromBE(p[i : i+8])
		if i > 0 && v <= prev {
			return false, 0, nil, nil
		}
		ids = append(ids, v)
		prev = v
	}
	return true, 0, ids, rest
}

func c10mSCIDsEqual(got []ShortChannelID, want []uint64) bool {
	if len(got) != len(want) {
		return false
	}
	same := true
	for i := range got {
		same = same && got[i].ToUint64() == want[i]
	}
	return same
}

func c10mSCIDsSame(a, b []ShortChannelID) bool {
	if len(a) != len(b) {
		return false
	}
	same := true
	for i := range a {
		same = same && a[i] == b[i]
	}
	return same
}

// VerifC10QuerySCIDBytes: QueryShortChanIDs.Decode on an arbitrary body (chain
// hash, then up to 21 further bytes: any declared list length <= 20, up to two
// short channel ids, trailing extension bytes) never panics; accepts exactly
// the bodies whose list is well-formed (BOLT-7: whole number of ids, strictly
// ascending, known encoding); decoded ids / encoding / extension are the
// reference parse; an accepted message re-encodes (byte-identical to the input
// unless the list length was 0, which lnd re-encodes as "01 00"), the
// re-encoding decodes to an equal message and a second Encode is identical.
func VerifC10QuerySCIDBytes() {
	c10Config()
	tails := []int{0, 1, 2, 3, 9, 10, 11, 17, 18, 19}
	sel := vChoice("tail", len(tails)+3)
	var n int
	switch {
	case sel < len(tails):
		n = 34 + tails[sel]
	case sel == len(tails):
		n = 0
	case sel == len(tails)+1:
		n = 31
	default:
		n = 33
	}
	b := vBytes("b", n)
	var (
		ok   bool
		enc  byte
		ids  []uint64
		rest []byte
	)
	if n >= 34 {
		ok, enc, ids, rest = c10mRefSCIDList(b[32:])
	}
	m := &QueryShortChanIDs{}
	err := m.Decode(bytes.NewReader(append([]byte{}, b...)), 0)
	vObserve("accepted", err == nil)
	vAssert((err == nil) == ok, "query_short_channel_ids is accepted exactly when the id list is well-formed (whole ids, strictly ascending, known encoding)")
	if err != nil {
		vReach("reject")
		return
	}
	vReach("accept")
	vAssert(bytes.Equal(m.ChainHash[:], b[:32]), "chain hash is the first 32 bytes")
	vAssert(byte(m.EncodingType) == enc, "encoding type is the first byte of the list")
	vAssert(c10mSCIDsEqual(m.ShortChanIDs, ids), "decoded ids are the big-endian 8-byte entries")
	vAssert(bytes.Equal(m.ExtraData, rest), "extension data are the bytes after the list")
	if len(ids) == 2 {
		vReach("two-ids")
	}
	ids0 := append([]ShortChannelID{}, m.ShortChanIDs...)
	var w1 bytes.Buffer
	vAssert(m.Encode(&w1, 0) == nil, "a decoded message re-encodes")
	enc1 := append([]byte{}, w1.Bytes()...)
	if c10FromBE(b[32:34]) != 0 {
		vAssert(bytes.Equal(enc1, b), "lossless: encode(decode(b)) == b")
	} else {
		vReach("empty-list")
		vAssert(bytes.Equal(enc1, c10Cat(b[:32], []byte{0, 1, 0}, rest)), "an empty list re-encodes as length 1, encoding 0")
	}
	m2 := &QueryShortChanIDs{}
	vAssert(m2.Decode(bytes.NewReader(enc1), 0) == nil, "the re-encoding decodes")
	vAssert(m2.ChainHash == m.ChainHash && m2.EncodingType == QueryEncoding(enc) && c10mSCIDsSame(m2.ShortChanIDs, ids0) &&
		bytes.Equal(m2.ExtraData, rest), "decode(encode(decode(b))) equals decode(b)")
	var w2 bytes.Buffer
	vAssert(m2.Encode(&w2, 0) == nil, "the second encoding succeeds")
	vAssert(bytes.Equal(w2.Bytes(), enc1), "canonical fixpoint")
}

// c10mTimestampsKnown: reply_channel_range knows record 1 (timestamps_tlv):
// one encoding byte (0 = uncompressed) followed by 8-byte pairs.
func c10mTimestampsKnown(typ, l uint64, rest []byte) int {
	if typ != 1 {
		return c10mOK
	}
	if len(rest) == 0 {
		return c10mBadTruncated
	}
	if l == 0 || rest[0] != 0 || (l-1)%8 != 0 {
		return c10mBadKnown
	}
	return c10mOK
}

// c10mReplyDomainLen: declared record lengths of the explored domain in
// reply_channel_range extensions (room for three timestamp pairs).
const c10mReplyDomainLen = 26

// c10mTimestampsShape: t l e p[8k] [t2 00]: a record of one-byte type t
// (1 = timestamps), one-byte length l in {8k+1, 8k+2, 8k (k > 0)}, encoding
// byte e, k pairs, optionally followed by an empty record of one-byte type.
func c10mTimestampsShape() ([]byte, int) {
	k := vChoice("npairs", 4)
	t, l, e := vU8("tt"), vU8("tl"), vU8("te")
	vAssume(t < 0xfd)
	vAssume(l == byte(8*k+1) || l == byte(8*k+2) || (k > 0 && l == byte(8*k)))
	out := []byte{t, l, e}
	out = append(out, vBytes("tp", 8*k)...)
	if vChoice("ttrail", 2) == 1 {
		t2 := vU8("tt2")
		vAssume(t2 < 0xfd)
		out = append(out, t2, 0)
	}
	return out, k
}

// VerifC10ReplyRangeBytes: ReplyChannelRange.Decode on (41-byte fixed part,
// well-sized id list of 0..2 ids with arbitrary content, extension) never
// panics; accepts exactly when the list is well-formed, the extension is a
// canonical TLV stream and a timestamps record, if present, is well-formed and
// holds exactly one pair per short channel id; an accepted message re-encodes,
// the re-encoding decodes to an equal message and a second Encode is identical.
func VerifC10ReplyRangeBytes() { c10mReplyRangeBytes(3) }

// VerifC10ReplyRangeBytesDeep: the same with arbitrary extensions of <= 5 bytes.
func VerifC10ReplyRangeBytesDeep() { c10mReplyRangeBytes(5) }

func c10mReplyRangeBytes(nmax int) {
	c10Config()
	// id list: "00 00", or declared length 1+8k with k = 0..2
	var lst []byte
	nscid := 0
	if ls := vChoice("lshape", 4); ls == 0 {
		lst = []byte{0, 0}
	} else {
		nscid = ls - 1
		lst = c10Cat(c10BE(uint64(1+8*nscid), 2), vBytes("l", 1+8*nscid))
	}
	var (
		ext    []byte
		pin    = -1
		npairs = -1
	)
	switch vChoice("xs", 3) {
	case 0:
		ext = c10mArb(nmax)
	case 1:
		if vChoice("cut", 2) == 1 {
			b := vBytes("h", 40)
			m := &ReplyChannelRange{}
			vAssert(m.Decode(bytes.NewReader(b), 0) != nil, "a truncated reply_channel_range is refused")
			vReach("truncated")
			return
		}
		ext, pin = c10mHugeLen()
	default:
		ext, npairs = c10mTimestampsShape()
	}
	head := vBytes("h", 41)
	body := c10Cat(head, lst, ext)
	lok, enc, ids, rest := c10mRefSCIDList(body[41:])
	var (
		why  = c10mOK
		recs []c10TLVRec
	)
	if lok {
		why, recs = c10mRefTLV(rest, c10mReplyDomainLen, c10mTimestampsKnown)
	}
	ts, hasTS := c10mFind(recs, 1)
	unknown := c10HasUnknown(recs, 1)
	count := (len(ts.val) - 1) / 8 // number of pairs when hasTS
	want := lok && why == c10mOK && (!hasTS || count == len(ids))

	m := &ReplyChannelRange{}
	err := m.Decode(bytes.NewReader(append([]byte{}, body...)), 0)
	vObserve("accepted", err == nil)
	vObserve("npairs", npairs+1)
	vAssert((err == nil) == want, "reply_channel_range is accepted exactly when list and extension are well-formed and timestamps (if present) come one pair per short channel id")
	if err != nil {
		vReach("reject")
		if lok && why == c10mOK {
			vReach("count-mismatch")
		}
		if lok {
			c10mErrClass(err, why)
			if why == c10mBadTooLarge {
				c10mReachPin(pin)
			}
		}
		return
	}
	vReach("accept")
	vAssert(bytes.Equal(m.ChainHash[:], head[:32]) && m.FirstBlockHeight == uint32(c10FromBE(head[32:36])) &&
		m.NumBlocks == uint32(c10FromBE(head[36:40])) && m.Complete == head[40], "fixed fields are the big-endian wire fields")
	vAssert(byte(m.EncodingType) == enc && c10mSCIDsEqual(m.ShortChanIDs, ids), "decoded ids are the big-endian 8-byte entries")
	if hasTS {
		vReach("timestamps")
		vAssert(len(m.Timestamps) == len(m.ShortChanIDs), "an accepted reply holds exactly one timestamp pair per short channel id")
		same := len(m.Timestamps) == count
		for i := 0; same && i < count; i++ {
			same = m.Timestamps[i].Timestamp1 == uint32(c10FromBE(ts.val[1+8*i:5+8*i])) &&
				m.Timestamps[i].Timestamp2 == uint32(c10FromBE(ts.val[5+8*i:9+8*i]))
		}
		vAssert(same, "timestamps are the big-endian 4-byte pairs")
		if count == 2 {
			vReach("two-pairs")
		}
	} else {
		vAssert(len(m.Timestamps) == 0, "no timestamps record: no timestamps")
	}
	vAssert(bytes.Equal(m.ExtraData, rest), "decoded extension data are the bytes after the list")

	ids0 := append([]ShortChannelID{}, m.ShortChanIDs...)
	ts0 := append([]ChanUpdateTimestamps{}, m.Timestamps...)
	var w1 bytes.Buffer
	vAssert(m.Encode(&w1, 0) == nil, "a decoded message re-encodes")
	enc1 := append([]byte{}, w1.Bytes()...)
	vAssert(len(enc1) <= 65535, "encoding fits the 65535-byte message bound")
	m2 := &ReplyChannelRange{}
	vAssert(m2.Decode(bytes.NewReader(enc1), 0) == nil, "the re-encoding decodes")
	sameTS := len(m2.Timestamps) == len(ts0)
	for i := 0; sameTS && i < len(ts0); i++ {
		sameTS = m2.Timestamps[i] == ts0[i]
	}
	vAssert(m2.ChainHash == m.ChainHash && m2.FirstBlockHeight == m.FirstBlockHeight && m2.NumBlocks == m.NumBlocks &&
		m2.Complete == m.Complete && m2.EncodingType == QueryEncoding(enc) && c10mSCIDsSame(m2.ShortChanIDs, ids0) && sameTS,
		"decode(encode(decode(b))) equals decode(b) (fields, ids, timestamps)")
	switch {
	case unknown:
		// Encode rebuilds the extension from the records it knows:
		// subject of VerifC10GossipUnknownKept
		vReach("repack-unknown")
	case hasTS && count == 0:
		// a timestamps record without pairs (only legal with an empty id
		// list) is not written back: both forms mean "no timestamps"
		vReach("empty-timestamps")
		vAssert(len(m2.ExtraData) == 0, "an empty timestamps record re-encodes as no record")
	default:
		vAssert(bytes.Equal(rest, m2.ExtraData), "decode(encode(decode(b))) equals decode(b) (extension data)")
		if len(lst) > 2 {
			vAssert(bytes.Equal(enc1, body), "lossless: encode(decode(b)) == b")
		}
	}
	var w2 bytes.Buffer
	vAssert(m2.Encode(&w2, 0) == nil, "the second encoding succeeds")
	vAssert(bytes.Equal(w2.Bytes(), enc1), "canonical fixpoint")
}

// VerifC10GossipUnknownKept: the property demands that unknown records and
// trailing extension data survive decode -> encode -> decode. ChannelUpdate1
// and ReplyChannelRange rebuild their extension from the records they know in
// Encode (EncodeMessageExtraData -> PackRecords), like the three messages of
// VerifC10MsgUnknownKept.
func VerifC10GossipUnknownKept() {
	c10Config()
	which := vChoice("msg", 2)
	ext := vBytes("x", 2+vChoice("xn", 2)) // one record: t 00 / t 01 v (or two-byte garbage)
	if which == 0 {
		head := vBytes("h", c10mChanUpdFixed)
		vAssume(head[108]&1 == 0)
		_, recs := c10mRefTLV(ext, c10mDomainLen, c10mFeeKnown)
		m := &ChannelUpdate1{}
		if m.Decode(bytes.NewReader(c10Cat(head, ext)), 0) != nil {
			return
		}
		vAssume(c10HasUnknown(recs, 55555))
		var w bytes.Buffer
		vAssert(m.Encode(&w, 0) == nil, "a decoded message re-encodes")
		m2 := &ChannelUpdate1{}
		vAssert(m2.Decode(bytes.NewReader(w.Bytes()), 0) == nil, "the re-encoding decodes")
		vAssert(bytes.Equal(ext, m2.ExtraOpaqueData), "ChannelUpdate1: unknown TLV records survive decode -> encode -> decode")
		return
	}
	head := vBytes("h", 41)
	_, recs := c10mRefTLV(ext, c10mDomainLen, c10mTimestampsKnown)
	m := &ReplyChannelRange{}
	if m.Decode(bytes.NewReader(c10Cat(head, []byte{0, 1, 0}, ext)), 0) != nil {
		return
	}
	vAssume(c10HasUnknown(recs, 1))
	var w bytes.Buffer
	vAssert(m.Encode(&w, 0) == nil, "a decoded message re-encodes")
	m2 := &ReplyChannelRange{}
	vAssert(m2.Decode(bytes.NewReader(w.Bytes()), 0) == nil, "the re-encoding decodes")
	vAssert(bytes.Equal(ext, m2.ExtraData), "ReplyChannelRange: unknown TLV records survive decode -> encode -> decode")
}

// ---------------------------------------------------------------- (c) remaining fixed-layout messages, bytes -> value -> bytes

const c10mNumFixed = 6

// c10mFixedDeclMax bounds the declared length of the length-prefixed field in
// the explored domain (the decoder allocates the declared length).
const c10mFixedDeclMax = 8

// c10mFixedSpec: pre = bytes before the u16-length-prefixed field (-1: the
// message has none), hasExtra = the message keeps trailing bytes as ExtraData
// (otherwise trailing bytes are ignored by Decode).
type c10mFixedSpec struct {
	pre      int
	hasExtra bool
	mk       func() Message
	// field returns the length-prefixed field and the extension data
	field func(m Message) (data, extra []byte)
	// eq compares the fixed fields
	eq func(a, b Message) bool
}

func c10mFixedTable(i int) c10mFixedSpec {
	switch i {
	case 0:
		return c10mFixedSpec{pre: -1, hasExtra: true,
			mk:    func() Message { return &UpdateFailMalformedHTLC{} },
			field: func(m Message) ([]byte, []byte) { return nil, m.(*UpdateFailMalformedHTLC).ExtraData },
			eq: func(a, b Message) bool {
				x, y := a.(*UpdateFailMalformedHTLC), b.(*UpdateFailMalformedHTLC)
				return x.ChanID == y.ChanID && x.ID == y.ID && x.ShaOnionBlob == y.ShaOnionBlob && x.FailureCode == y.FailureCode
			}}
	case 1:
		return c10mFixedSpec{pre: 40, hasExtra: true,
			mk: func() Message { return &UpdateFailHTLC{} },
			field: func(m Message) ([]byte, []byte) {
				x := m.(*UpdateFailHTLC)
				return x.Reason, x.ExtraData
			},
			eq: func(a, b Message) bool {
				x, y := a.(*UpdateFailHTLC), b.(*UpdateFailHTLC)
				return x.ChanID == y.ChanID && x.ID == y.ID
			}}
	case 2:
		return c10mFixedSpec{pre: 32,
			mk:    func() Message { return &Warning{} },
			field: func(m Message) ([]byte, []byte) { return m.(*Warning).Data, nil },
			eq:    func(a, b Message) bool { return a.(*Warning).ChanID == b.(*Warning).ChanID }}
	case 3:
		return c10mFixedSpec{pre: 32,
			mk:    func() Message { return &Error{} },
			field: func(m Message) ([]byte, []byte) { return m.(*Error).Data, nil },
			eq:    func(a, b Message) bool { return a.(*Error).ChanID == b.(*Error).ChanID }}
	case 4:
		return c10mFixedSpec{pre: 2,
			mk:    func() Message { return &Ping{} },
			field: func(m Message) ([]byte, []byte) { return m.(*Ping).PaddingBytes, nil },
			eq:    func(a, b Message) bool { return a.(*Ping).NumPongBytes == b.(*Ping).NumPongBytes }}
	}
	return c10mFixedSpec{pre: 0,
		mk:    func() Message { return &Pong{} },
		field: func(m Message) ([]byte, []byte) { return m.(*Pong).PongBytes, nil },
		eq:    func(a, b Message) bool { return true }}
}

// VerifC10FixedBytes: UpdateFailMalformedHTLC, UpdateFailHTLC, Warning, Error,
// Ping, Pong on arbitrary bodies (fixed part, any declared field length <= 8,
// up to 6 bytes after the length; also a fixed part one byte short): Decode
// never panics, accepts exactly when every field is completely present, the
// decoded field / extension are the wire bytes, Encode reproduces the bytes
// consumed (messages without extension data ignore trailing bytes), the
// re-encoding decodes to an equal message and a second Encode is identical.
func VerifC10FixedBytes() {
	c10Config()
	i := vChoice("msg", c10mNumFixed)
	spec := c10mFixedTable(i)
	var (
		n        int
		wantOK   bool
		consumed int
	)
	short := false
	if spec.pre < 0 {
		// 32 channel id, 8 id, 32 sha256_of_onion, 2 failure_code
		switch t := vChoice("tail", 6); t {
		case 5:
			n, short = 73, true
		default:
			n = 74 + t
		}
	} else {
		switch t := vChoice("tail", 8); t {
		case 7:
			n, short = spec.pre+1, true // length field cut
		default:
			n = spec.pre + 2 + t
		}
	}
	b := vBytes("b", n)
	var data, extra []byte
	switch {
	case short:
	case spec.pre < 0:
		wantOK, consumed, extra = true, n, b[74:]
	default:
		decl := c10FromBE(b[spec.pre : spec.pre+2])
		vAssume(decl <= c10mFixedDeclMax) // explored domain
		if decl <= uint64(n-spec.pre-2) {
			wantOK = true
			end := spec.pre + 2 + int(decl)
			data = b[spec.pre+2 : end]
			consumed = end
			if spec.hasExtra {
				extra, consumed = b[end:], n
			}
		}
	}
	m := spec.mk()
	err := m.Decode(bytes.NewReader(append([]byte{}, b...)), 0)
	vObserve("msg", i)
	vAssert((err == nil) == wantOK, "the message is accepted exactly when every field is completely present")
	if err != nil {
		vReach("reject")
		return
	}
	vReach("accept")
	gd, gx := spec.field(m)
	vAssert(bytes.Equal(gd, data), "the length-prefixed field holds the declared number of wire bytes")
	vAssert(bytes.Equal(gx, extra), "extension data are the bytes after the last field")
	switch x := m.(type) {
	case *UpdateFailMalformedHTLC:
		vAssert(bytes.Equal(x.ChanID[:], b[:32]) && x.ID == c10FromBE(b[32:40]) && bytes.Equal(x.ShaOnionBlob[:], b[40:72]) &&
			uint64(x.FailureCode) == c10FromBE(b[72:74]), "fixed fields are the big-endian wire fields")
	case *UpdateFailHTLC:
		vAssert(bytes.Equal(x.ChanID[:], b[:32]) && x.ID == c10FromBE(b[32:40]), "fixed fields are the big-endian wire fields")
	case *Warning:
		vAssert(bytes.Equal(x.ChanID[:], b[:32]), "fixed fields are the big-endian wire fields")
	case *Error:
		vAssert(bytes.Equal(x.ChanID[:], b[:32]), "fixed fields are the big-endian wire fields")
	case *Ping:
		vAssert(uint64(x.NumPongBytes) == c10FromBE(b[:2]), "fixed fields are the big-endian wire fields")
	}
	if consumed < n {
		vReach("trailing-ignored")
	}
	var w1 bytes.Buffer
	vAssert(m.Encode(&w1, 0) == nil, "a decoded message re-encodes")
	enc1 := append([]byte{}, w1.Bytes()...)
	vAssert(bytes.Equal(enc1, b[:consumed]), "lossless: encode(decode(b)) == the bytes consumed")
	m2 := spec.mk()
	vAssert(m2.Decode(bytes.NewReader(enc1), 0) == nil, "the re-encoding decodes")
	d2, x2 := spec.field(m2)
	vAssert(spec.eq(m, m2) && bytes.Equal(d2, data) && bytes.Equal(x2, extra), "decode(encode(decode(b))) equals decode(b)")
	var w2 bytes.Buffer
	vAssert(m2.Encode(&w2, 0) == nil, "the second encoding succeeds")
	vAssert(bytes.Equal(w2.Bytes(), enc1), "canonical fixpoint")
}

// ---------------------------------------------------------------- (c) value -> bytes -> value

// VerifC10FixedValue: for arbitrary field values of UpdateFailMalformedHTLC,
// UpdateFailHTLC (reason <= 4 bytes), Warning / Error (data <= 4 bytes),
// Ping / Pong (<= 4 padding bytes) and ChannelUpdate1 (htlc_maximum absent /
// present by message_flags bit 0, inbound fee absent / present) Encode yields
// exactly the BOLT-2 / BOLT-1 / BOLT-7 layout within 65535 bytes, and Decode of
// it yields an equal message. ChannelUpdate1 with short channel id parts that
// do not fit 3 bytes is refused.
func VerifC10FixedValue() {
	c10Config()
	i := vChoice("msg", c10mNumFixed+1)
	var (
		m          Message
		m2         Message
		want       []byte
		wellFormed = true
		eq         func() bool
	)
	small := func(name string) []byte { return vBytes(name, vChoice("dlen", 5)) }
	switch i {
	case 0:
		x := &UpdateFailMalformedHTLC{ChanID: c10Chan("chan"), ID: vU64("id"), ShaOnionBlob: c10Arr32("sha"),
			FailureCode: FailCode(vU16("code")), ExtraData: vBytes("x", vChoice("xlen", 4))}
		y := &UpdateFailMalformedHTLC{}
		m, m2 = x, y
		want = c10Cat(x.ChanID[:], c10BE(x.ID, 8), x.ShaOnionBlob[:], c10BE(uint64(x.FailureCode), 2), x.ExtraData)
		eq = func() bool {
			return x.ChanID == y.ChanID && x.ID == y.ID && x.ShaOnionBlob == y.ShaOnionBlob &&
				x.FailureCode == y.FailureCode && bytes.Equal(x.ExtraData, y.ExtraData)
		}
	case 1:
		x := &UpdateFailHTLC{ChanID: c10Chan("chan"), ID: vU64("id"), Reason: small("data"),
			ExtraData: vBytes("x", vChoice("xlen", 4))}
		y := &UpdateFailHTLC{}
		m, m2 = x, y
		want = c10Cat(x.ChanID[:], c10BE(x.ID, 8), c10LenPrefixed(x.Reason), x.ExtraData)
		eq = func() bool {
			return x.ChanID == y.ChanID && x.ID == y.ID && bytes.Equal(x.Reason, y.Reason) && bytes.Equal(x.ExtraData, y.ExtraData)
		}
	case 2:
		x := &Warning{ChanID: c10Chan("chan"), Data: small("data")}
		y := &Warning{}
		m, m2 = x, y
		want = c10Cat(x.ChanID[:], c10LenPrefixed(x.Data))
		eq = func() bool { return x.ChanID == y.ChanID && bytes.Equal(x.Data, y.Data) }
	case 3:
		x := &Error{ChanID: c10Chan("chan"), Data: small("data")}
		y := &Error{}
		m, m2 = x, y
		want = c10Cat(x.ChanID[:], c10LenPrefixed(x.Data))
		eq = func() bool { return x.ChanID == y.ChanID && bytes.Equal(x.Data, y.Data) }
	case 4:
		x := &Ping{NumPongBytes: vU16("numpong"), PaddingBytes: small("data")}
		y := &Ping{}
		m, m2 = x, y
		want = c10Cat(c10BE(uint64(x.NumPongBytes), 2), c10LenPrefixed(x.PaddingBytes))
		eq = func() bool { return x.NumPongBytes == y.NumPongBytes && bytes.Equal(x.PaddingBytes, y.PaddingBytes) }
	case 5:
		x := &Pong{PongBytes: small("data")}
		y := &Pong{}
		m, m2 = x, y
		want = c10LenPrefixed(x.PongBytes)
		eq = func() bool { return bytes.Equal(x.PongBytes, y.PongBytes) }
	default:
		x := &ChannelUpdate1{
			ShortChannelID:  ShortChannelID{BlockHeight: vU32("height"), TxIndex: vU32("txindex"), TxPosition: vU16("txpos")},
			Timestamp:       vU32("ts"),
			MessageFlags:    ChanUpdateMsgFlags(vU8("mflags")),
			ChannelFlags:    ChanUpdateChanFlags(vU8("cflags")),
			TimeLockDelta:   vU16("cltv"),
			HtlcMinimumMsat: MilliSatoshi(vU64("min")),
			BaseFee:         vU32("base"),
			FeeRate:         vU32("rate"),
		}
		copy(x.Signature.bytes[:], vBytes("sig", 64))
		copy(x.ChainHash[:], vBytes("chain", 32))
		// 3-byte wire fields (BOLT-7 short_channel_id)
		wellFormed = x.ShortChannelID.BlockHeight < 1<<24 && x.ShortChannelID.TxIndex < 1<<24
		want = c10Cat(x.Signature.bytes[:], x.ChainHash[:],
			c10BE(uint64(x.ShortChannelID.BlockHeight), 3), c10BE(uint64(x.ShortChannelID.TxIndex), 3),
			c10BE(uint64(x.ShortChannelID.TxPosition), 2), c10BE(uint64(x.Timestamp), 4),
			[]byte{byte(x.MessageFlags), byte(x.ChannelFlags)}, c10BE(uint64(x.TimeLockDelta), 2),
			c10BE(uint64(x.HtlcMinimumMsat), 8), c10BE(uint64(x.BaseFee), 4), c10BE(uint64(x.FeeRate), 4))
		// htlc_maximum_msat is on the wire exactly when message_flags bit 0
		// (option_channel_htlc_max) is set; a value set without the flag is
		// not part of the message
		if vChoice("maxhtlc", 2) == 1 {
			vAssume(x.MessageFlags&1 == 1)
			x.HtlcMaximumMsat = MilliSatoshi(vU64("max"))
			want = c10Cat(want, c10BE(uint64(x.HtlcMaximumMsat), 8))
		} else {
			vAssume(x.MessageFlags&1 == 0)
		}
		if vChoice("fee", 2) == 1 {
			f := Fee{BaseFee: vI32("ibase"), FeeRate: vI32("irate")}
			x.InboundFee = tlv.SomeRecordT(tlv.NewRecordT[tlv.TlvType55555](f))
			want = c10Cat(want, []byte{0xfd, 0xd9, 0x03, 8}, c10BE(uint64(uint32(f.BaseFee)), 4), c10BE(uint64(uint32(f.FeeRate)), 4))
		}
		y := &ChannelUpdate1{}
		m, m2 = x, y
		eq = func() bool { return c10mEqChanUpd(x, y) }
	}
	vObserve("msg", i)
	var w bytes.Buffer
	err := m.Encode(&w, 0)
	vAssert((err == nil) == wellFormed, "Encode succeeds exactly on values that fit the wire fields")
	if err != nil {
		vReach("refused")
		return
	}
	vReach("encoded")
	enc := append([]byte{}, w.Bytes()...)
	vAssert(len(enc) <= 65535, "encoding fits the 65535-byte message bound")
	vAssert(bytes.Equal(enc, want), "Encode produces the BOLT field layout")
	vAssert(m2.Decode(bytes.NewReader(enc), 0) == nil, "Decode accepts what Encode wrote")
	vAssert(eq(), "decode(encode(m)) == m")
}
