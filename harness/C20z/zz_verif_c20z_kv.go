package graphdb

// Fake kvdb backend for harness C20z: a copy of the in-memory walletdb fake of
// harness/C16 (c20zkvDB/c20zkvTx/c20zkvB) under c20z names. It implements Update /
// View / Batch, top-level and nested buckets, Get / Put / Delete / ForEach (in
// key order), DeleteNestedBucket, CreateBucketIfNotExists, Sequence /
// SetSequence. Every other method of the walletdb interfaces is inherited from
// a nil embedded interface: calling it is a nil-dereference panic (= an
// obligation that fails). Write transactions are atomic by construction.

import (
	"bytes"
	"encoding/binary"
	"errors"

	"github.com/btcsuite/btcwallet/walletdb"
	"github.com/lightningnetwork/lnd/kvdb"
)

var errC20zKVCommit = errors.New("c20z fake kvdb: injected commit failure")

// c20zkvNode is one bucket: key/value pairs and nested buckets, each list kept
// in byte order of the keys. Byte slices are never modified in place.
type c20zkvNode struct {
	keys, vals [][]byte
	subKeys    [][]byte
	subs       []*c20zkvNode
	seq        uint64
}

func c20zkvCopy(b []byte) []byte {
	c := make([]byte, len(b))
	copy(c, b)
	return c
}

func (n *c20zkvNode) clone() *c20zkvNode {
	c := &c20zkvNode{seq: n.seq}
	c.keys = append([][]byte(nil), n.keys...)
	c.vals = append([][]byte(nil), n.vals...)
	c.subKeys = append([][]byte(nil), n.subKeys...)
	for _, s := range n.subs {
		c.subs = append(c.subs, s.clone())
	}
	return c
}

// c20zkvLess: lexicographic byte order. Leading len%8 bytes one by one, the
// rest in big-endian 8-byte words (same order, one comparison per word; the
// attempt keys are a 2-byte prefix followed by the 8-byte big-endian id).
func c20zkvLess(a, b []byte) bool {
	n := len(a)
	if len(b) < n {
		n = len(b)
	}
	i := 0
	for ; i < n%8; i++ {
		if a[i] != b[i] {
			return a[i] < b[i]
		}
	}
	for ; i+8 <= n; i += 8 {
		x, y := binary.BigEndian.Uint64(a[i:i+8]), binary.BigEndian.Uint64(b[i:i+8])
		if x != y {
			return x < y
		}
	}
	return len(a) < len(b)
}

func c20zkvIndex(keys [][]byte, k []byte) int {
	for i := range keys {
		if bytes.Equal(keys[i], k) {
			return i
		}
	}
	return -1
}

// c20zkvPos: position at which k has to be inserted to keep keys ordered.
func c20zkvPos(keys [][]byte, k []byte) int {
	pos := 0
	for pos < len(keys) && c20zkvLess(keys[pos], k) {
		pos++
	}
	return pos
}

func c20zkvInsert(list [][]byte, pos int, v []byte) [][]byte {
	out := make([][]byte, 0, len(list)+1)
	out = append(out, list[:pos]...)
	out = append(out, v)
	out = append(out, list[pos:]...)
	return out
}

func c20zkvRemove(list [][]byte, pos int) [][]byte {
	out := make([][]byte, 0, len(list))
	out = append(out, list[:pos]...)
	out = append(out, list[pos+1:]...)
	return out
}

type c20zkvDB struct {
	kvdb.Backend // nil: every method not defined below panics

	top *c20zkvNode // top-level buckets are the nested buckets of this node

	// failable: write transactions draw a symbolic commit-failure flag
	// (switched on for the operation under judgement only). injected
	// records that one of them fired.
	failable bool
	injected bool
	writeTxs int
}

type c20zkvTx struct {
	kvdb.RwTx // nil: every method not defined below panics

	db *c20zkvDB
	rw bool
}

type c20zkvB struct {
	kvdb.RwBucket // nil: every method not defined below panics

	n  *c20zkvNode
	tx *c20zkvTx
}

func (d *c20zkvDB) View(f func(tx walletdb.ReadTx) error, reset func()) error {
	reset()
	return f(&c20zkvTx{db: d})
}

// write runs one atomic read-write transaction.
func (d *c20zkvDB) write(f func(tx walletdb.ReadWriteTx) error) error {
	d.writeTxs++
	snap := d.top.clone()
	err := f(&c20zkvTx{db: d, rw: true})
	if err == nil && d.failable && vBool("kvCommitFails") {
		d.injected = true
		err = errC20zKVCommit
	}
	if err != nil {
		d.top = snap // rollback
		return err
	}
	return nil
}

func (d *c20zkvDB) Update(f func(tx walletdb.ReadWriteTx) error, reset func()) error {
	reset()
	return d.write(f)
}

// Batch: bbolt's Batch is Update for a single caller (walletdb.BatchDB).
func (d *c20zkvDB) Batch(f func(tx walletdb.ReadWriteTx) error) error {
	return d.write(f)
}

func (t *c20zkvTx) top(key []byte) *c20zkvB {
	if i := c20zkvIndex(t.db.top.subKeys, key); i >= 0 {
		return &c20zkvB{n: t.db.top.subs[i], tx: t}
	}
	return nil
}

func (t *c20zkvTx) ReadBucket(key []byte) walletdb.ReadBucket {
	if b := t.top(key); b != nil {
		return b
	}
	return nil
}

func (t *c20zkvTx) ReadWriteBucket(key []byte) walletdb.ReadWriteBucket {
	if b := t.top(key); b != nil {
		return b
	}
	return nil
}

func (t *c20zkvTx) CreateTopLevelBucket(key []byte) (walletdb.ReadWriteBucket, error) {
	root := &c20zkvB{n: t.db.top, tx: t}
	return root.CreateBucketIfNotExists(key)
}

func (b *c20zkvB) Get(key []byte) []byte {
	if i := c20zkvIndex(b.n.keys, key); i >= 0 {
		return b.n.vals[i]
	}
	return nil // unknown key, or the key of a nested bucket
}

func (b *c20zkvB) Put(key, value []byte) error {
	if !b.tx.rw {
		return walletdb.ErrTxNotWritable
	}
	if len(key) == 0 {
		return walletdb.ErrKeyRequired
	}
	if c20zkvIndex(b.n.subKeys, key) >= 0 {
		return walletdb.ErrIncompatibleValue
	}
	v := c20zkvCopy(value)
	if i := c20zkvIndex(b.n.keys, key); i >= 0 {
		vals := append([][]byte(nil), b.n.vals...)
		vals[i] = v
		b.n.vals = vals
		return nil
	}
	pos := c20zkvPos(b.n.keys, key)
	b.n.keys = c20zkvInsert(b.n.keys, pos, c20zkvCopy(key))
	b.n.vals = c20zkvInsert(b.n.vals, pos, v)
	return nil
}

func (b *c20zkvB) Delete(key []byte) error {
	if !b.tx.rw {
		return walletdb.ErrTxNotWritable
	}
	if c20zkvIndex(b.n.subKeys, key) >= 0 {
		return walletdb.ErrIncompatibleValue
	}
	i := c20zkvIndex(b.n.keys, key)
	if i < 0 {
		return nil
	}
	b.n.keys = c20zkvRemove(b.n.keys, i)
	b.n.vals = c20zkvRemove(b.n.vals, i)
	return nil
}

// ForEach: keys and nested buckets (value nil) merged in key order.
func (b *c20zkvB) ForEach(f func(k, v []byte) error) error {
	keys, vals, subKeys := b.n.keys, b.n.vals, b.n.subKeys
	i, j := 0, 0
	for i < len(keys) || j < len(subKeys) {
		if j >= len(subKeys) || (i < len(keys) && c20zkvLess(keys[i], subKeys[j])) {
			if err := f(keys[i], vals[i]); err != nil {
				return err
			}
			i++
			continue
		}
		if err := f(subKeys[j], nil); err != nil {
			return err
		}
		j++
	}
	return nil
}

func (b *c20zkvB) nested(key []byte) *c20zkvB {
	if i := c20zkvIndex(b.n.subKeys, key); i >= 0 {
		return &c20zkvB{n: b.n.subs[i], tx: b.tx}
	}
	return nil
}

func (b *c20zkvB) NestedReadBucket(key []byte) walletdb.ReadBucket {
	if s := b.nested(key); s != nil {
		return s
	}
	return nil
}

func (b *c20zkvB) NestedReadWriteBucket(key []byte) walletdb.ReadWriteBucket {
	if s := b.nested(key); s != nil {
		return s
	}
	return nil
}

func (b *c20zkvB) CreateBucketIfNotExists(key []byte) (walletdb.ReadWriteBucket, error) {
	if !b.tx.rw {
		return nil, walletdb.ErrTxNotWritable
	}
	if len(key) == 0 {
		return nil, walletdb.ErrBucketNameRequired
	}
	if s := b.nested(key); s != nil {
		return s, nil
	}
	if c20zkvIndex(b.n.keys, key) >= 0 {
		return nil, walletdb.ErrIncompatibleValue
	}
	pos := c20zkvPos(b.n.subKeys, key)
	s := &c20zkvNode{}
	b.n.subKeys = c20zkvInsert(b.n.subKeys, pos, c20zkvCopy(key))
	subs := make([]*c20zkvNode, 0, len(b.n.subs)+1)
	subs = append(subs, b.n.subs[:pos]...)
	subs = append(subs, s)
	subs = append(subs, b.n.subs[pos:]...)
	b.n.subs = subs
	return &c20zkvB{n: s, tx: b.tx}, nil
}

func (b *c20zkvB) DeleteNestedBucket(key []byte) error {
	if !b.tx.rw {
		return walletdb.ErrTxNotWritable
	}
	i := c20zkvIndex(b.n.subKeys, key)
	if i < 0 {
		return walletdb.ErrBucketNotFound
	}
	b.n.subKeys = c20zkvRemove(b.n.subKeys, i)
	subs := make([]*c20zkvNode, 0, len(b.n.subs))
	subs = append(subs, b.n.subs[:i]...)
	subs = append(subs, b.n.subs[i+1:]...)
	b.n.subs = subs
	return nil
}

func (b *c20zkvB) Sequence() uint64 { return b.n.seq }

func (b *c20zkvB) SetSequence(v uint64) error {
	if !b.tx.rw {
		return walletdb.ErrTxNotWritable
	}
	b.n.seq = v
	return nil
}

// c20zkvSame: two bucket trees hold the same keys, values and nested buckets.
func c20zkvSame(a, b *c20zkvNode) bool {
	if (a == nil) != (b == nil) {
		return false
	}
	if a == nil {
		return true
	}
	if len(a.keys) != len(b.keys) || len(a.subs) != len(b.subs) {
		return false
	}
	for i := range a.keys {
		if !bytes.Equal(a.keys[i], b.keys[i]) || !bytes.Equal(a.vals[i], b.vals[i]) {
			return false
		}
	}
	for i := range a.subs {
		if !bytes.Equal(a.subKeys[i], b.subKeys[i]) || !c20zkvSame(a.subs[i], b.subs[i]) {
			return false
		}
	}
	return true
}

func (n *c20zkvNode) sub(key []byte) *c20zkvNode {
	if n == nil {
		return nil
	}
	if i := c20zkvIndex(n.subKeys, key); i >= 0 {
		return n.subs[i]
	}
	return nil
}

// ---------------------------------------------------------------------------
// raw view of the store (harness code reading the fake; no lnd code)
// ---------------------------------------------------------------------------
