package graphdb

// Harness C20z (extension of C20, "fresh"): the freshness data that
// graph.Builder.IsStaleEdgePolicy judges a channel_update by comes from
// (*KVStore).HasV1ChannelEdge, which serves it from the reject cache. Unit:
// the real HasV1ChannelEdge (cache-miss path: edge index, zombie index,
// fetchChanEdgePolicies, deserializeChanEdgePolicy; cache-hit path), the real
// rejectCache / channelCache, the real updateEdgeCache, on a real KVStore made
// by NewKVStore over the fake kvdb of zz_verif_c20z_kv.go. The pre-state is
// written by the real tx-level writers ((*KVStore).addChannelEdge,
// updateEdgePolicy -> putChanEdgePolicy / serializeChanEdgePolicy,
// markEdgeZombie) inside one kvdb.Update, i.e. without the batch scheduler.
// The policy update that refreshes the cache mirrors what UpdateEdgePolicy
// hands to the scheduler: Do = updateEdgePolicy(tx, edge) in a kvdb.Update,
// OnCommit = c.updateEdgeCache(edge, isUpdate1).

import (
	"context"
	"encoding/hex"
	"time"

	"github.com/lightningnetwork/lnd/fn/v2"
	"github.com/lightningnetwork/lnd/graph/db/models"
	"github.com/lightningnetwork/lnd/kvdb"
	"github.com/lightningnetwork/lnd/lnwire"
	"github.com/lightningnetwork/lnd/routing/route"
)

// c20zZero: seconds of time.Time{} (what "no policy" looks like to the caller).
const c20zZero = int64(-62135596800)

// Two genuine secp256k1 points (1*G and 2*G, compressed): addChannelEdge
// stores shell nodes for both ends and parses the keys.
const (
	c20zKeyG  = "0279be667ef9dcbbac55a06295ce870b07029bfcdb2dce28d959f2815b16f81798"
	c20zKey2G = "02c6047f9441ed7d6d3045406e95c07cd85c778e4b8cef3ca7abac09b95c709ee5"
)

func c20zKey(h string) route.Vertex {
	var v route.Vertex
	b, err := hex.DecodeString(h)
	if err != nil || len(b) != 33 {
		panic("c20z: bad key constant")
	}
	copy(v[:], b)
	return v
}

func c20zPolicy(chanID uint64, dir uint8, ts int64, to route.Vertex) *models.ChannelEdgePolicy {
	return &models.ChannelEdgePolicy{
		Version:                   lnwire.GossipVersion1,
		ChannelID:                 chanID,
		LastUpdate:                time.Unix(ts, 0),
		MessageFlags:              lnwire.ChanUpdateRequiredMaxHtlc,
		ChannelFlags:              lnwire.ChanUpdateChanFlags(dir),
		TimeLockDelta:             40,
		MinHTLC:                   1,
		MaxHTLC:                   1000000,
		FeeBaseMSat:               1000,
		FeeProportionalMillionths: 1,
		ToNode:                    to,
	}
}

// c20zStale is graph.Builder.IsStaleEdgePolicy's rule for a known live edge,
// applied to the times a lookup returned (direction d, update timestamp ts).
func c20zStale(u1, u2 time.Time, d uint8, ts int64) bool {
	t := time.Unix(ts, 0)
	if d == 0 {
		return !u1.Before(t)
	}
	return !u2.Before(t)
}

func VerifC20zCache() {
	ctx := context.Background()
	db := &c20zkvDB{top: &c20zkvNode{}}
	store, err := NewKVStore(db)
	vAssert(err == nil && store != nil, "NewKVStore over the fake backend")

	n1, n2 := c20zKey(c20zKeyG), c20zKey(c20zKey2G)
	chanID := vU64("chanID")

	// shape 0: live edge with 0..2 policies; 1: zombie entry; 2: unknown.
	shape := vChoice("shape", 3)
	t1, t2 := vI64("t1"), vI64("t2")
	// channel_update timestamps are uint32 seconds on the wire.
	vAssume(t1 >= 0 && t1 < 1<<32 && t2 >= 0 && t2 < 1<<32)
	has1, has2 := false, false

	err = kvdb.Update(db, func(tx kvdb.RwTx) error {
		switch shape {
		case 0:
			info := &models.ChannelEdgeInfo{
				Version:          lnwire.GossipVersion1,
				ChannelID:        chanID,
				NodeKey1Bytes:    n1,
				NodeKey2Bytes:    n2,
				BitcoinKey1Bytes: fn.Some(n1),
				BitcoinKey2Bytes: fn.Some(n2),
				Features:         lnwire.EmptyFeatureVector(),
				Capacity:         100000,
			}
			info.ChannelPoint.Index = 1
			if err := store.addChannelEdge(tx, info); err != nil {
				return err
			}
			if vBool("has1") {
				has1 = true
				_, _, is1, err := updateEdgePolicy(tx, c20zPolicy(chanID, 0, t1, n2))
				if err != nil {
					return err
				}
				vAssert(is1, "direction 0 is node 1's policy")
			}
			if vBool("has2") {
				has2 = true
				_, _, is1, err := updateEdgePolicy(tx, c20zPolicy(chanID, 1, t2, n1))
				if err != nil {
					return err
				}
				vAssert(!is1, "direction 1 is node 2's policy")
			}
		case 1:
			edges := tx.ReadWriteBucket(edgeBucket)
			zombies, err := edges.CreateBucketIfNotExists(zombieBucket)
			if err != nil {
				return err
			}
			return markEdgeZombie(zombies, chanID, n1, n2)
		}
		return nil
	}, func() {})
	vAssert(err == nil, "pre-state written")

	// What is stored, as the caller of HasV1ChannelEdge must see it.
	w1, w2 := c20zZero, c20zZero
	if has1 {
		w1 = t1
	}
	if has2 {
		w2 = t2
	}
	wantExists, wantZombie := shape == 0, shape == 1

	// A channel_update to be judged: direction d, timestamp ts.
	d := vU8("d")
	ts := vI64("ts")
	vAssume(d <= 1 && ts >= 0 && ts < 1<<32)
	wd := w1
	if d == 1 {
		wd = w2
	}
	wantStale := ts <= wd

	// first lookup: cache miss.
	a1, a2, aEx, aZo, err := store.HasV1ChannelEdge(ctx, chanID)
	vAssert(err == nil, "first lookup succeeds")
	vAssert(aEx == wantExists && aZo == wantZombie, "miss: exists/zombie as stored")
	vAssert(a1.Unix() == w1 && a1.Nanosecond() == 0, "miss: upd1Time is the stored timestamp of direction 0 (zero time if none)")
	vAssert(a2.Unix() == w2 && a2.Nanosecond() == 0, "miss: upd2Time is the stored timestamp of direction 1 (zero time if none)")
	vAssert(a1.IsZero() == !has1 && a2.IsZero() == !has2, "miss: zero time exactly when no policy")
	_, cached := store.rejectCache.get(lnwire.GossipVersion1, chanID)
	vAssert(cached, "the first lookup fills the reject cache")

	// second lookup: cache hit.
	b1, b2, bEx, bZo, err := store.HasV1ChannelEdge(ctx, chanID)
	vAssert(err == nil, "second lookup succeeds")
	vAssert(bEx == wantExists && bZo == wantZombie, "hit: exists/zombie as stored")
	vAssert(b1.Unix() == w1 && b1.Nanosecond() == 0, "hit: upd1Time is the stored timestamp of direction 0")
	vAssert(b2.Unix() == w2 && b2.Nanosecond() == 0, "hit: upd2Time is the stored timestamp of direction 1")
	vAssert(b1.IsZero() == !has1 && b2.IsZero() == !has2, "hit: zero time exactly when no policy")

	if shape == 0 {
		vAssert(c20zStale(a1, a2, d, ts) == wantStale, "miss: update is stale iff ts <= stored timestamp of ITS direction")
		vAssert(c20zStale(b1, b2, d, ts) == wantStale, "hit: update is stale iff ts <= stored timestamp of ITS direction")
		if wantStale {
			vReach("stale")
		} else {
			vReach("fresh")
		}
	}

	switch {
	case shape == 1:
		vReach("zombie")
		return
	case shape == 2:
		vReach("unknown")
		return
	case !has1 && !has2:
		vReach("live-no-policy")
	case has1 && has2:
		vReach("live-both")
	default:
		vReach("live-one")
	}

	// A policy update of direction d with a new timestamp, as
	// UpdateEdgePolicy runs it: Do in a write transaction, then OnCommit.
	nts := vI64("newTs")
	vAssume(nts >= 0 && nts < 1<<32)
	to := n2
	if d == 1 {
		to = n1
	}
	np := c20zPolicy(chanID, d, nts, to)
	var isUpdate1 bool
	err = kvdb.Update(db, func(tx kvdb.RwTx) error {
		var err error
		_, _, isUpdate1, err = updateEdgePolicy(tx, np)
		return err
	}, func() {})
	vAssert(err == nil, "policy update written")
	store.updateEdgeCache(np, isUpdate1)

	x1, x2 := w1, w2
	if d == 0 {
		x1 = nts
	} else {
		x2 = nts
	}

	// third lookup: served from the refreshed cache entry.
	c1, c2, cEx, cZo, err := store.HasV1ChannelEdge(ctx, chanID)
	vAssert(err == nil, "third lookup succeeds")
	vAssert(cEx && !cZo, "refreshed: still a live edge")
	vAssert(c1.Unix() == x1 && c2.Unix() == x2, "refreshed: the slot of the updated direction, and only that one, carries the new timestamp")

	// The same question to a store with a cold cache over the same
	// database: the cache agrees with what is on disk.
	cold, err := NewKVStore(db)
	vAssert(err == nil, "second store")
	e1, e2, eEx, eZo, err := cold.HasV1ChannelEdge(ctx, chanID)
	vAssert(err == nil, "cold lookup succeeds")
	vAssert(eEx && !eZo && e1.Unix() == x1 && e2.Unix() == x2, "disk: the updated direction, and only that one, carries the new timestamp")
	vAssert(e1.Unix() == c1.Unix() && e2.Unix() == c2.Unix(), "cache and disk agree after a policy update")

	// A replay of the update just applied is stale on both.
	vAssert(c20zStale(c1, c2, d, nts) && c20zStale(e1, e2, d, nts), "the update just applied is stale afterwards")
	if d == 0 {
		vReach("refresh-dir0")
	} else {
		vReach("refresh-dir1")
	}
}
