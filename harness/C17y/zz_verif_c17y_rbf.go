package chancloser

// Harness for C17y (staging extension of C17): the RBF-coop ("simple close")
// state machine, states ClosingNegotiation{LocalCloseStart, LocalOfferSent,
// RemoteCloseStart, ClosePending, CloseErr}.
//
// Units executed symbolically (real lnd code): (*ClosingNegotiation).ProcessEvent,
// updateAndValidateCloseTerms, processNegotiateEvent, (*LocalCloseStart).ProcessEvent,
// (*LocalOfferSent).ProcessEvent, (*RemoteCloseStart).ProcessEvent,
// (*ClosePending).ProcessEvent, (*CloseErr).ProcessEvent, DeriveCloseTxOuts,
// LocalCanPayFees / RemoteCanPayFees / LocalAmtIsDust, encodeClosingSignatures,
// extractSigAndNonceFromClosingComplete (parseSigFields, validateSigFields,
// selectAndExtractSig), createLocalCloseeSignature, createClosingSigMessage,
// validateAndExtractSigAndNonce, prepareClosingSignatures, calcCoopCloseFee
// (SimpleCoopFeeEstimator), lnwallet.DustLimitForSize, and — as the CloseSigner —
// the real (*lnwallet.LightningChannel).CreateCloseProposal /
// CompleteCooperativeClose of two channel values holding mirrored state.
//
// Two parties A (the closer: it sends closing_complete) and B (the closee) are
// wired back to back; the harness only carries the emitted messages.

import (
	"bytes"
	"errors"

	"github.com/btcsuite/btcd/btcec/v2"
	"github.com/btcsuite/btcd/btcec/v2/ecdsa"
	"github.com/btcsuite/btcd/btcutil/v2"
	"github.com/btcsuite/btcd/chainhash/v2"
	"github.com/btcsuite/btcd/txscript/v2"
	"github.com/btcsuite/btcd/wire/v2"
	"github.com/lightningnetwork/lnd/chanstate"
	"github.com/lightningnetwork/lnd/fn/v2"
	"github.com/lightningnetwork/lnd/input"
	"github.com/lightningnetwork/lnd/keychain"
	"github.com/lightningnetwork/lnd/lntypes"
	"github.com/lightningnetwork/lnd/lnwallet"
	"github.com/lightningnetwork/lnd/lnwallet/chainfee"
	"github.com/lightningnetwork/lnd/lnwire"
	"github.com/lightningnetwork/lnd/protofsm"
	"github.com/lightningnetwork/lnd/shachain"
)

// 21e6 BTC in satoshi.
const c17yMaxSat = btcutil.Amount(2_100_000_000_000_000)

// BIP-125: highest sequence that still signals replaceability; BOLT-2
// closing_complete: "nSequence 0xFFFFFFFD".
const c17yRBFSeq = uint32(0xfffffffd)

// BOLT-3: two anchors of 330 sat, funded by the opener.
const c17yAnchors = btcutil.Amount(660)

// Bitcoin Core dust thresholds at the default 3000 sat/kvB dust relay fee:
// P2WPKH (22-byte script) 294 sat, P2WSH / P2TR (34-byte script) 330 sat.
func c17yScriptDust(n int) btcutil.Amount {
	if n == 22 {
		return 294
	}
	return 330
}

// ----------------------------------------------------------------------------
// fakes behind interfaces lnd already has
// ----------------------------------------------------------------------------

// c17yStore: chanstate.Store of a channel without pending state (only the
// native run of NewLightningChannel.restoreCommitState asks it).
type c17yStore struct{ chanstate.Store }

func (c17yStore) RemoteCommitChainTip(*chanstate.OpenChannel) (*chanstate.CommitDiff, error) {
	return nil, chanstate.ErrNoPendingCommit
}
func (c17yStore) UnsignedAckedUpdates(*chanstate.OpenChannel) ([]chanstate.LogUpdate, error) {
	return nil, nil
}
func (c17yStore) RemoteUnsignedLocalUpdates(*chanstate.OpenChannel) ([]chanstate.LogUpdate, error) {
	return nil, nil
}

// c17ySigner: input.Signer. Records every transaction it is asked to sign.
// Symbolic run: returns a fixed well-formed ECDSA signature (so the real
// lnwire.NewSigFromSignature/ToSignature code runs). Native run: really signs
// with the party's funding key (so the real script VM accepts).
type c17ySigner struct {
	input.Signer
	signed []*wire.MsgTx
	real   input.Signer
}

func (s *c17ySigner) SignOutputRaw(tx *wire.MsgTx, d *input.SignDescriptor) (input.Signature, error) {
	s.signed = append(s.signed, tx)
	if s.real != nil {
		return s.real.SignOutputRaw(tx, d)
	}
	var r, sv btcec.ModNScalar
	r.SetInt(1)
	sv.SetInt(1)
	return ecdsa.NewSignature(&r, &sv), nil
}

// c17yObs: ChanStateObserver; records MarkCoopBroadcasted.
type c17yObs struct {
	marked      []*wire.MsgTx
	markedLocal []bool
}

func (o *c17yObs) NoDanglingUpdates() bool    { return true }
func (o *c17yObs) DisableIncomingAdds() error { return nil }
func (o *c17yObs) DisableOutgoingAdds() error { return nil }
func (o *c17yObs) DisableChannel() error      { return nil }
func (o *c17yObs) MarkCoopBroadcasted(tx *wire.MsgTx, local bool) error {
	o.marked = append(o.marked, tx)
	o.markedLocal = append(o.markedLocal, local)
	return nil
}
func (o *c17yObs) MarkShutdownSent([]byte, bool) error { return nil }
func (o *c17yObs) FinalBalances() fn.Option[ShutdownBalances] {
	return fn.None[ShutdownBalances]()
}

// Symbolic stand-ins for the Bitcoin script VM (never interpreted
// symbolically; the native replay runs the real one on real signatures).
func c17yNewEngine(_ []byte, _ *wire.MsgTx, _ int, _ txscript.ScriptFlags, _ *txscript.SigCache,
	_ *txscript.TxSigHashes, _ int64, _ txscript.PrevOutputFetcher) (*txscript.Engine, error) {

	return &txscript.Engine{}, nil
}

func c17yExecute(_ *txscript.Engine) error { return nil }

// Symbolic stand-ins for three script constructors of package input that are
// written with text/template (reflection; not executable by the engine). Same
// byte layout as the real ones, hash bytes zero (only the script TYPE and SIZE
// matter to lnwallet.DustLimitForSize / mempool.GetDustThreshold, and the
// funding script only matters to the script VM). Native run: the real ones.
func c17yWPKH(_ []byte) ([]byte, error) {
	s := make([]byte, 22)
	s[0], s[1] = 0x00, 0x14
	return s, nil
}

func c17yWSH(_ []byte) ([]byte, error) {
	s := make([]byte, 34)
	s[0], s[1] = 0x00, 0x20
	return s, nil
}

func c17yMultiSig(a, b []byte) ([]byte, error) {
	s := []byte{0x52, 0x21}
	s = append(s, a...)
	s = append(s, 0x21)
	s = append(s, b...)
	s = append(s, 0x52, 0xae)
	return s, nil
}

func c17yConfig() {
	vReplace("github.com/btcsuite/btcd/txscript/v2.NewEngine", "github.com/lightningnetwork/lnd/lnwallet/chancloser.c17yNewEngine")
	vReplace("(*github.com/btcsuite/btcd/txscript/v2.Engine).Execute", "github.com/lightningnetwork/lnd/lnwallet/chancloser.c17yExecute")
	vReplace("github.com/lightningnetwork/lnd/input.WitnessPubKeyHash", "github.com/lightningnetwork/lnd/lnwallet/chancloser.c17yWPKH")
	vReplace("github.com/lightningnetwork/lnd/input.WitnessScriptHash", "github.com/lightningnetwork/lnd/lnwallet/chancloser.c17yWSH")
	vReplace("github.com/lightningnetwork/lnd/input.GenMultiSigScript", "github.com/lightningnetwork/lnd/lnwallet/chancloser.c17yMultiSig")
	// construction of the channel value only (elliptic-curve key derivation of the
	// commitment key rings; not part of the close): skipped symbolically, real natively
	vNoop("(*github.com/lightningnetwork/lnd/lnwallet.LightningChannel).restoreCommitState")
	vNoop("github.com/lightningnetwork/lnd/chanstate.DeriveMusig2Shachain")
	vNoop("github.com/lightningnetwork/lnd/lnwallet.NewCommitmentBuilder")
	// log argument (reflection)
	vNoop("github.com/davecgh/go-spew/spew.Sdump")
	vAssumption("C17y: non-taproot channel without HTLCs; both sides hold mirrored commitment balances (msat), the same commit fee and each other's dust limits; " +
		"local+remote+commitFee(+anchors) <= capacity <= 21e6 BTC (C01 conservation); Environment.BlockHeight = 0 (never set in production); " +
		"real SimpleCoopFeeEstimator; signatures: fixed well-formed ECDSA value symbolically with txscript.NewEngine/Execute replaced by 'accept' " +
		"(the obligation 'closee/closer complete the very transaction the closer signed' states when signatures verify), real keys/ECDSA/script VM natively; " +
		"messages are handed over as structs (no wire encoding)")
}

// ----------------------------------------------------------------------------
// one party
// ----------------------------------------------------------------------------

type c17yParty struct {
	env *Environment
	sg  *c17ySigner
	obs *c17yObs
	st  *ClosingNegotiation
}

func c17yKeys() (privA, privB *btcec.PrivateKey, pubA, pubB *btcec.PublicKey) {
	if vNative() {
		var kA, kB [32]byte
		for i := range kA {
			kA[i], kB[i] = 0x11, 0x22
		}
		privA, pubA = btcec.PrivKeyFromBytes(kA[:])
		privB, pubB = btcec.PrivKeyFromBytes(kB[:])
		return
	}
	// symbolic run: keys are opaque well-formed values
	return nil, nil, &btcec.PublicKey{}, &btcec.PublicKey{}
}

func c17yCfg(pub *btcec.PublicKey, dust btcutil.Amount) chanstate.ChannelConfig {
	var c chanstate.ChannelConfig
	c.DustLimit = dust
	kd := keychain.KeyDescriptor{PubKey: pub}
	c.MultiSigKey, c.RevocationBasePoint, c.PaymentBasePoint, c.DelayBasePoint, c.HtlcBasePoint = kd, kd, kd, kd, kd
	return c
}

func c17yNewParty(ct chanstate.ChannelType, isInit bool, local, remote lnwire.MilliSatoshi,
	commitFee, dustL, dustR, capacity btcutil.Amount, op wire.OutPoint, sL, sR []byte,
	priv *btcec.PrivateKey, pubL, pubR *btcec.PublicKey) *c17yParty {

	st := &chanstate.OpenChannel{
		ChanType:                ct,
		IsInitiator:             isInit,
		FundingOutpoint:         op,
		Capacity:                capacity,
		LocalChanCfg:            c17yCfg(pubL, dustL),
		RemoteChanCfg:           c17yCfg(pubR, dustR),
		RemoteCurrentRevocation: pubR,
		RevocationProducer:      shachain.NewRevocationProducer(chainhash.Hash{}),
		Db:                      c17yStore{},
	}
	st.LocalCommitment.LocalBalance = local
	st.LocalCommitment.RemoteBalance = remote
	st.LocalCommitment.CommitFee = commitFee
	st.RemoteCommitment = st.LocalCommitment
	sg := &c17ySigner{}
	if priv != nil {
		sg.real = input.NewMockSigner([]*btcec.PrivateKey{priv}, nil)
	}
	ch, err := lnwallet.NewLightningChannel(sg, st, nil)
	if err != nil || ch == nil {
		vAssert(false, "harness: NewLightningChannel failed")
		return nil
	}
	obs := &c17yObs{}
	env := &Environment{
		ChanType:     ct,
		FeeEstimator: &SimpleCoopFeeEstimator{},
		ChanObserver: obs,
		CloseSigner:  ch,
	}
	// the state ChannelFlushing.ProcessEvent(ChannelFlushed) produces
	terms := &CloseChannelTerms{
		ShutdownScripts:  ShutdownScripts{LocalDeliveryScript: sL, RemoteDeliveryScript: sR},
		ShutdownBalances: ShutdownBalances{LocalBalance: local, RemoteBalance: remote},
	}
	neg := &ClosingNegotiation{
		PeerState: lntypes.Dual[AsymmetricPeerState]{
			Local:  &LocalCloseStart{CloseChannelTerms: terms},
			Remote: &RemoteCloseStart{CloseChannelTerms: terms},
		},
		CloseChannelTerms: terms,
	}
	return &c17yParty{env: env, sg: sg, obs: obs, st: neg}
}

// step delivers one event to the composite state and then, as
// protofsm.StateMachine.applyEvents does, every internal event the transition
// emitted (in order) to the resulting state. External (daemon) events of all
// transitions are collected.
func (p *c17yParty) step(ev ProtocolEvent) (ext protofsm.DaemonEventSet, err error) {
	queue := []ProtocolEvent{ev}
	for i := 0; i < len(queue) && i < 4; i++ {
		tr, e := p.st.ProcessEvent(queue[i], p.env)
		if e != nil {
			return ext, e
		}
		next, ok := tr.NextState.(*ClosingNegotiation)
		if !ok {
			vAssert(false, "negotiation events keep the machine in ClosingNegotiation")
			return ext, nil
		}
		p.st = next
		out := tr.NewEvents.UnwrapOr(RbfEvent{})
		ext = append(ext, out.ExternalEvents...)
		queue = append(queue, out.InternalEvent...)
	}
	return ext, nil
}

type c17yOut struct {
	nSend, nMsgs, nBcast int
	cc                   *lnwire.ClosingComplete
	cs                   *lnwire.ClosingSig
	btx                  *wire.MsgTx
}

func c17ySplit(ext protofsm.DaemonEventSet) c17yOut {
	var o c17yOut
	for _, d := range ext {
		switch e := d.(type) {
		case *protofsm.SendMsgEvent[ProtocolEvent]:
			o.nSend++
			for _, m := range e.Msgs {
				o.nMsgs++
				switch mm := m.(type) {
				case *lnwire.ClosingComplete:
					o.cc = mm
				case *lnwire.ClosingSig:
					o.cs = mm
				}
			}
		case *protofsm.BroadcastTxn:
			o.nBcast++
			o.btx = e.Tx
		}
	}
	return o
}

// same transaction up to the witness
func c17ySameTx(a, b *wire.MsgTx) bool {
	if a == nil || b == nil {
		return false
	}
	if a.Version != b.Version || a.LockTime != b.LockTime || len(a.TxIn) != len(b.TxIn) || len(a.TxOut) != len(b.TxOut) {
		return false
	}
	same := true
	for i := range a.TxIn {
		same = same && a.TxIn[i].PreviousOutPoint == b.TxIn[i].PreviousOutPoint &&
			a.TxIn[i].Sequence == b.TxIn[i].Sequence &&
			bytes.Equal(a.TxIn[i].SignatureScript, b.TxIn[i].SignatureScript)
	}
	for i := range a.TxOut {
		same = same && a.TxOut[i].Value == b.TxOut[i].Value && bytes.Equal(a.TxOut[i].PkScript, b.TxOut[i].PkScript)
	}
	return same
}

// field kinds of closing_complete / closing_sig: 1 closer_output_only
// (CloserNoClosee), 2 closee_output_only (NoCloserClosee), 3
// closer_and_closee_outputs; n = number of populated fields.
func c17yFields(s lnwire.ClosingSigs) (kind, n int) {
	if s.CloserNoClosee.IsSome() {
		kind, n = 1, n+1
	}
	if s.NoCloserClosee.IsSome() {
		kind, n = 2, n+1
	}
	if s.CloserAndClosee.IsSome() {
		kind, n = 3, n+1
	}
	return
}

func c17yAmt(name string) btcutil.Amount {
	v := btcutil.Amount(vI64(name))
	vAssume(v >= 0 && v <= c17yMaxSat)
	return v
}

// realistic delivery scripts: P2WPKH (22 bytes) / P2WSH (34 bytes) / P2TR (34
// bytes, version 1) with a symbolic program.
func c17yScript(name string, n int, v1 bool) []byte {
	s := vBytes(name, n)
	s[0] = 0x00
	if v1 {
		s[0] = 0x51
	}
	s[1] = byte(n - 2)
	return s
}

var c17yLens = [][2]int{{22, 22}, {22, 34}, {34, 22}, {34, 34}}

type c17yWorld struct {
	a, b           *c17yParty
	aInit          bool
	aSat, bSat     btcutil.Amount
	owedA0, owedB  btcutil.Amount // what each side is owed before the close fee
	dustA, dustB   btcutil.Amount // channel-config dust limits (owner's)
	sdA, sdB       btcutil.Amount // script-size dust limits (owner's script)
	sA, sB         []byte
	op             wire.OutPoint
	capacity       btcutil.Amount
	strict         bool
}

func c17yWorldNew(strict bool, nShapes int) *c17yWorld {
	c17yConfig()
	w := &c17yWorld{strict: strict}
	// channel type: static-remote-key, or anchors (zero-fee HTLC) — both non-taproot
	ct := chanstate.SingleFunderTweaklessBit
	anch := btcutil.Amount(0)
	if vChoice("anchors", 2) == 1 {
		ct = chanstate.SingleFunderTweaklessBit | chanstate.AnchorOutputsBit | chanstate.ZeroHtlcTxFeeBit
		anch = c17yAnchors
	}
	w.aInit = vChoice("aIsInitiator", 2) == 1
	w.capacity = c17yAmt("capacity")
	commitFee := c17yAmt("commitFee")
	aMsat := lnwire.MilliSatoshi(vU64("aBalanceMsat"))
	bMsat := lnwire.MilliSatoshi(vU64("bBalanceMsat"))
	vAssume(aMsat <= 2_100_000_000_000_000_000 && bMsat <= 2_100_000_000_000_000_000)
	w.aSat, w.bSat = btcutil.Amount(aMsat/1000), btcutil.Amount(bMsat/1000)
	// commitment-level conservation (C01), as in the registered C17 check
	vAssume(commitFee <= w.capacity)
	vAssume(w.aSat+w.bSat+commitFee+anch <= w.capacity)
	w.dustA, w.dustB = c17yAmt("aDust"), c17yAmt("bDust")
	copy(w.op.Hash[:], vBytes("fundingTxid", 32))
	w.op.Index = vU32("fundingIndex")

	shape := vChoice("scriptLens", nShapes)
	w.sA = c17yScript("aScript", c17yLens[shape][0], false)
	w.sB = c17yScript("bScript", c17yLens[shape][1], shape == 3)
	w.sdA, w.sdB = c17yScriptDust(len(w.sA)), c17yScriptDust(len(w.sB))

	w.owedA0, w.owedB = w.aSat, w.bSat
	if w.aInit {
		w.owedA0 += commitFee + anch
	} else {
		w.owedB += commitFee + anch
	}

	privA, privB, pubA, pubB := c17yKeys()
	w.a = c17yNewParty(ct, w.aInit, aMsat, bMsat, commitFee, w.dustA, w.dustB, w.capacity, w.op, w.sA, w.sB, privA, pubA, pubB)
	w.b = c17yNewParty(ct, !w.aInit, bMsat, aMsat, commitFee, w.dustB, w.dustA, w.capacity, w.op, w.sB, w.sA, privB, pubB, pubA)
	return w
}

// c17yCheckTx: the transaction the closer signed for `fee`.
func (w *c17yWorld) checkTx(tx *wire.MsgTx, fee btcutil.Amount, lock uint32) (haveA, haveB bool) {
	owedA := w.owedA0 - fee
	vAssert(owedA >= 0, "the closer's share covers the fee it signs for")
	vAssert(tx.Version == 2 && len(tx.TxIn) == 1, "version 2, one input")
	if len(tx.TxIn) != 1 {
		return
	}
	vAssert(tx.TxIn[0].PreviousOutPoint == w.op, "spends the funding outpoint")
	vAssert(tx.TxIn[0].Sequence == c17yRBFSeq, "sequence 0xfffffffd (RBF)")
	vAssert(tx.LockTime == lock, "locktime = the locktime announced in closing_complete")
	haveA, haveB = owedA >= w.dustA, w.owedB >= w.dustB
	n := 0
	if haveA {
		n++
	}
	if haveB {
		n++
	}
	vAssert(len(tx.TxOut) == n, "a party has an output iff what it is owed >= its own dust limit")
	if len(tx.TxOut) != n {
		return
	}
	isA := func(o *wire.TxOut) bool { return o.Value == int64(owedA) && bytes.Equal(o.PkScript, w.sA) }
	isB := func(o *wire.TxOut) bool { return o.Value == int64(w.owedB) && bytes.Equal(o.PkScript, w.sB) }
	switch {
	case haveA && haveB:
		vReach("two-outputs")
		o0, o1 := tx.TxOut[0], tx.TxOut[1]
		vAssert((isA(o0) && isB(o1)) || (isB(o0) && isA(o1)),
			"closer's output = its balance (+opener credits) - fee, closee's output = its balance (+opener credits)")
		vAssert(o0.Value+o1.Value+int64(fee) <= int64(w.capacity), "outputs + fee never exceed the capacity")
	case haveA:
		vReach("closer-only")
		vAssert(isA(tx.TxOut[0]), "single output pays the closer its balance - fee")
	case haveB:
		vReach("closee-only")
		vAssert(isB(tx.TxOut[0]), "single output pays the closee its full balance")
	}
	return
}

// c17yRound: one complete offer round, A = closer. Returns false when the round
// ended without a signed close (refused / nothing to sign).
func (w *c17yWorld) round(rate chainfee.SatPerVByte, k int, prevFee btcutil.Amount) (fee btcutil.Amount, ok bool) {
	a, b := w.a, w.b
	nA, nB := len(a.sg.signed), len(b.sg.signed)
	mA, mB := len(a.obs.marked), len(b.obs.marked)

	// ---- closer: SendOfferEvent ------------------------------------------------
	ext, err := a.step(&SendOfferEvent{TargetFeeRate: rate})
	o := c17ySplit(ext)
	vObserve("offerErr", err != nil)
	if err != nil {
		// the only legitimate failure: there is nothing to sign (no output
		// reaches its owner's dust limit, "transaction has no outputs")
		vReach("nothing-to-sign")
		vAssert(len(a.sg.signed) == nA && o.nMsgs == 0, "a failed offer signs and sends nothing")
		vAssert(!errors.Is(err, ErrInvalidStateTransition), "SendOfferEvent is legal in ClosingNegotiation")
		return 0, false
	}
	if ce, isErr := a.st.PeerState.Local.(*CloseErr); isErr {
		vReach("cannot-pay")
		vAssert(len(a.sg.signed) == nA && o.nMsgs == 0 && o.nBcast == 0, "an offer the closer cannot pay for is not signed and not sent")
		es, isFee := ce.ErrState.(*ErrStateCantPayForFee)
		vAssert(isFee, "CloseErr carries ErrStateCantPayForFee")
		if isFee {
			vAssert(es.attemptedFee > w.aSat && es.localBalance == w.aSat, "refused only when the fee exceeds the closer's balance")
		}
		return 0, false
	}
	los, isSent := a.st.PeerState.Local.(*LocalOfferSent)
	vAssert(isSent, "after a payable offer the local state is LocalOfferSent")
	if !isSent {
		return 0, false
	}
	vReach("offer-sent")
	vAssert(o.nSend == 1 && o.nMsgs == 1 && o.cc != nil && o.nBcast == 0, "exactly one closing_complete is sent, nothing is broadcast yet")
	vAssert(len(a.sg.signed) == nA+1, "the closer signs exactly one transaction per offer")
	if o.cc == nil || len(a.sg.signed) != nA+1 {
		return 0, false
	}
	cc := o.cc
	txA := a.sg.signed[nA]
	fee = cc.FeeSatoshis
	vObserve("fee", int64(fee))
	vAssert(fee >= 0 && fee <= w.aSat, "an offer is signed only if the closer's own balance covers the fee")
	vAssert(los.ProposedFee == fee && los.ProposedFeeRate == rate, "LocalOfferSent remembers the fee it announced")
	vAssert(bytes.Equal(cc.CloserScript, w.sA) && bytes.Equal(cc.CloseeScript, w.sB), "closing_complete names the closer's and the closee's script")
	if k > 0 {
		vReach("rbf-offer")
		vAssert(fee >= prevFee, "a higher fee rate never yields a lower absolute fee")
	}
	haveA, haveB := w.checkTx(txA, fee, cc.LockTime)
	kindA, nFieldsA := c17yFields(cc.ClosingSigs)
	vObserve("ccField", kindA)
	vAssert(nFieldsA == 1, "closing_complete carries exactly one signature field")
	vAssert(cc.TaprootClosingSigs.CloserNoClosee.IsNone() && cc.TaprootClosingSigs.NoCloserClosee.IsNone() &&
		cc.TaprootClosingSigs.CloserAndClosee.IsNone(), "no taproot signature on a non-taproot channel")
	// Which field: by the outputs of the transaction that was signed. The state
	// machine decides with the script-size dust limit on the raw commitment
	// balance; the transaction with the channel-config dust limit on the credited
	// balance. Outside the band between the two the field must match the tx
	// (strict mode asserts it everywhere: see NOTES, candidate finding).
	owedA := w.owedA0 - fee
	agree := (owedA >= w.sdA) == haveA && (w.bSat >= w.sdB) == haveB
	want := 3
	if !haveB {
		want = 1
	} else if !haveA {
		want = 2
	}
	if agree || w.strict {
		vAssert(kindA == want, "the populated field matches the outputs of the signed tx (closer_output_only / closee_output_only / closer_and_closee_outputs)")
	}
	if agree {
		vReach("dust-notions-agree")
	}

	// ---- closee: OfferReceivedEvent -------------------------------------------
	extB, errB := b.step(&OfferReceivedEvent{SigMsg: *cc})
	ob := c17ySplit(extB)
	vObserve("closeeErr", errB != nil)
	vAssert(errB == nil, "the closee accepts the honest closer's offer")
	if errB != nil {
		return fee, false
	}
	cpB, isCP := b.st.PeerState.Remote.(*ClosePending)
	vAssert(isCP && len(b.sg.signed) == nB+1, "the closee signs once and moves to ClosePending")
	if !isCP || len(b.sg.signed) != nB+1 {
		return fee, false
	}
	txB := b.sg.signed[nB]
	vAssert(c17ySameTx(txA, txB), "closer and closee sign the identical transaction (version, locktime, input, sequence, outputs in order)")
	vAssert(c17ySameTx(cpB.CloseTx, txA) && cpB.Party == lntypes.Remote, "the closee completes the very transaction the closer signed")
	vAssert(ob.nSend == 1 && ob.nMsgs == 1 && ob.cs != nil && ob.nBcast == 1 && ob.btx == cpB.CloseTx, "the closee sends one closing_sig and broadcasts the completed tx")
	vAssert(len(b.obs.marked) == mB+1 && b.obs.marked[mB] == cpB.CloseTx && !b.obs.markedLocal[mB], "the closee records the broadcast (remote-initiated)")
	if ob.cs == nil {
		return fee, false
	}
	cs := ob.cs
	kindB, nFieldsB := c17yFields(cs.ClosingSigs)
	vObserve("csField", kindB)
	vAssert(nFieldsB == 1, "closing_sig carries exactly one signature field")
	vAssert(cs.FeeSatoshis == fee && cs.LockTime == cc.LockTime && bytes.Equal(cs.CloserScript, w.sA) && bytes.Equal(cs.CloseeScript, w.sB),
		"closing_sig echoes fee, locktime and both scripts")
	if kindA != 2 || w.strict {
		vAssert(kindB == kindA, "closing_sig uses the field the closee verified")
	} else {
		// see NOTES, candidate finding 2: closee_output_only is answered in
		// closer_and_closee_outputs
		vReach("closee-only-answered")
		vAssert(kindB == 3 || kindB == 2, "closing_sig for closee_output_only")
	}

	// ---- closer: LocalSigReceived ---------------------------------------------
	extA2, errA2 := a.step(&LocalSigReceived{SigMsg: *cs})
	oa := c17ySplit(extA2)
	vObserve("finishErr", errA2 != nil)
	vAssert(errA2 == nil, "the closer accepts the closee's closing_sig")
	if errA2 != nil {
		return fee, false
	}
	cpA, isCPA := a.st.PeerState.Local.(*ClosePending)
	vAssert(isCPA, "the closer moves to ClosePending")
	if !isCPA {
		return fee, false
	}
	vReach("closed")
	vAssert(len(a.sg.signed) == nA+1, "the closer does not sign again when completing")
	vAssert(c17ySameTx(cpA.CloseTx, txA) && cpA.Party == lntypes.Local && cpA.FeeRate == rate, "the closer completes the very transaction it signed")
	vAssert(oa.nBcast == 1 && oa.btx == cpA.CloseTx && oa.nMsgs == 0, "the closer broadcasts the completed tx")
	vAssert(len(a.obs.marked) == mA+1 && a.obs.marked[mA] == cpA.CloseTx && a.obs.markedLocal[mA], "the closer records the broadcast (locally initiated)")
	return fee, true
}

func c17yRate(name string) chainfee.SatPerVByte {
	r := vU64(name)
	// 0 .. 10 000 sat/vB (above any fee rate ever seen on the network)
	vAssume(r <= 10_000)
	return chainfee.SatPerVByte(r)
}

// VerifC17yOfferPair: one offer round (LocalCloseStart+SendOfferEvent,
// RemoteCloseStart+OfferReceivedEvent, LocalOfferSent+LocalSigReceived).
func VerifC17yOfferPair() {
	w := c17yWorldNew(false, 3)
	if w.a == nil || w.b == nil {
		return
	}
	w.round(c17yRate("feeRate"), 0, 0)
}

// VerifC17yRbf: a first round, then a second SendOfferEvent with a higher fee
// rate (RBF), both driven through ClosePending -> LocalCloseStart /
// RemoteCloseStart with the re-emitted internal event.
func VerifC17yRbf() {
	w := c17yWorldNew(false, 1)
	if w.a == nil || w.b == nil {
		return
	}
	r1 := c17yRate("feeRate")
	r2 := c17yRate("feeRate2")
	vAssume(r2 > r1)
	fee1, ok := w.round(r1, 0, 0)
	if !ok {
		return
	}
	_, isCP := w.a.st.PeerState.Local.(*ClosePending)
	vAssert(isCP, "first round ends in ClosePending")
	fee2, ok2 := w.round(r2, 1, fee1)
	if ok2 {
		vReach("rbf-closed")
		vAssert(len(w.a.sg.signed) == 2 && len(w.b.sg.signed) == 2, "each side signed once per round")
		vAssert(fee2 >= fee1, "the replacement pays at least the earlier fee")
	}
}

// VerifC17yIllegal: events that are illegal for the current negotiation state
// are rejected with ErrInvalidStateTransition and nothing is signed.
func VerifC17yIllegal() {
	w := c17yWorldNew(false, 1)
	if w.a == nil || w.b == nil {
		return
	}
	a := w.a
	stage := vChoice("stage", 2)
	if stage == 1 {
		// move the local half to LocalOfferSent first
		_, err := a.step(&SendOfferEvent{TargetFeeRate: c17yRate("feeRate")})
		if err != nil {
			return
		}
		if _, ok := a.st.PeerState.Local.(*LocalOfferSent); !ok {
			return
		}
		vReach("in-offer-sent")
	}
	n := len(a.sg.signed)
	before := a.st
	var ev ProtocolEvent
	switch vChoice("event", 3) {
	case 0:
		if stage == 0 {
			// closing_sig without an outstanding offer (it names our script,
			// so it passes the close-terms check and reaches the routing)
			ev = &LocalSigReceived{SigMsg: lnwire.ClosingSig{CloserScript: w.sA, CloseeScript: w.sB}}
		} else {
			// a second offer while the first is unanswered
			ev = &SendOfferEvent{TargetFeeRate: c17yRate("feeRate2")}
		}
	case 1:
		ev = &ShutdownReceived{}
	case 2:
		ev = &SendShutdown{}
	}
	ext, err := a.step(ev)
	o := c17ySplit(ext)
	vAssert(err != nil && errors.Is(err, ErrInvalidStateTransition), "illegal event => ErrInvalidStateTransition")
	vAssert(len(a.sg.signed) == n && o.nMsgs == 0 && o.nBcast == 0 && len(a.obs.marked) == 0, "illegal event => no signature, no message, no broadcast")
	vAssert(a.st == before, "illegal event => state unchanged")
	if err != nil {
		vReach("rejected")
	}
}

// VerifC17yFieldStrict: as VerifC17yOfferPair but the field obligations are
// asserted without the carve-outs (NOT part of the green set: see NOTES.md,
// candidate findings).
func VerifC17yFieldStrict() {
	w := c17yWorldNew(true, 1)
	if w.a == nil || w.b == nil {
		return
	}
	w.round(c17yRate("feeRate"), 0, 0)
}
