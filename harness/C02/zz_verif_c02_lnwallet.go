package lnwallet

// Harness for C02, part K1: persist before release.
//
// Units executed symbolically (real lnd code):
//   (*LightningChannel).RevokeCurrentCommitment, generateRevocation,
//   (*commitment).toDiskCommit, getUnsignedAckedUpdates,
//   (*paymentDescriptor).toLogUpdate, commitmentChain advanceTail/tail/tip,
//   (*chanstate.OpenChannel).UpdateCommitment;
//   (*LightningChannel).ReceiveRevocation, unsignedLocalUpdates, compactLogs,
//   chanstate.NewFwdPkg / NewPkgFilter, (*chanstate.OpenChannel).
//   AdvanceCommitChainTail, lnwire.NewChanIDFromOutPoint.
//
// Fakes behind interfaces lnd already has: chanstate.Store (c02Store: only
// UpdateChannelCommitment and AdvanceCommitChainTail exist, each fails when a
// symbolic flag says so; every other method dereferences the nil embedded
// interface = panic obligation), shachain.Producer (ideal secret function
// sec(h) = vHash), shachain.Store (records AddNextEntry, fails on a symbolic
// flag), input.Signature (opaque serialisation bytes).
// Replaced under the symbolic engine only: input.ComputeCommitmentPoint (an
// injective stand-in: the point whose x coordinate is the secret) and
// findOutputIndexesFromRemote (its result on a commitment transaction that has
// neither a to_local nor a to_remote output; natively the real function runs
// on exactly such a transaction).
//
// Oracle (written from the property, no call into the code under test):
// a revoke_and_ack is handed out only after the store accepted the local
// commitment of height h+1 together with the current unsigned-acked updates;
// it carries sec(h) for the pre-call height h and the point of sec(h+2).

import (
	"bytes"
	"errors"
	"io"

	"github.com/btcsuite/btcd/btcec/v2"
	"github.com/btcsuite/btcd/btcutil/v2"
	"github.com/btcsuite/btcd/chainhash/v2"
	"github.com/btcsuite/btcd/wire/v2"
	"github.com/lightningnetwork/lnd/chanstate"
	"github.com/lightningnetwork/lnd/fn/v2"
	"github.com/lightningnetwork/lnd/input"
	"github.com/lightningnetwork/lnd/lntypes"
	"github.com/lightningnetwork/lnd/lnwallet/chainfee"
	"github.com/lightningnetwork/lnd/lnwire"
	"github.com/lightningnetwork/lnd/tlv"
)

// ---------------------------------------------------------------------------
// ideal secrets and points
// ---------------------------------------------------------------------------

func c02U64(h uint64) []byte {
	b := make([]byte, 8)
	for i := 0; i < 8; i++ {
		b[i] = byte(h >> (8 * uint(7-i)))
	}
	return b
}

// c02Sec is the per-commitment secret of party `chain` at height h.
func c02Sec(chain byte, h uint64) *chainhash.Hash {
	var r chainhash.Hash
	copy(r[:], vHash("c02sec", 32, []byte{chain}, c02U64(h)))
	return &r
}

// c02PointRepl stands in for input.ComputeCommitmentPoint under the symbolic
// engine (vReplace is symbolic-only; natively the real function runs): the
// point (secret, 1), injective in the secret.
func c02PointRepl(secret []byte) *btcec.PublicKey {
	var x, y btcec.FieldVal
	x.SetByteSlice(secret)
	y.SetInt(1)
	return btcec.NewPublicKey(&x, &y)
}

// c02Point: the commitment point of a secret, for building states and
// expected values in the harness.
func c02Point(secret []byte) *btcec.PublicKey {
	if vNative() {
		return input.ComputeCommitmentPoint(secret)
	}
	return c02PointRepl(secret)
}

// c02NoIndexes stands in for findOutputIndexesFromRemote under the symbolic
// engine: the remote commitment transaction of the harness has no outputs, so
// neither index exists.
func c02NoIndexes(*chainhash.Hash, *chanstate.OpenChannel, fn.Option[AuxLeafStore]) (uint32, uint32, error) {
	return uint32(chanstate.OutputIndexEmpty), uint32(chanstate.OutputIndexEmpty), nil
}

func c02Config() {
	vReplace("github.com/lightningnetwork/lnd/input.ComputeCommitmentPoint", "github.com/lightningnetwork/lnd/lnwallet.c02PointRepl")
	vReplace("github.com/lightningnetwork/lnd/lnwallet.findOutputIndexesFromRemote", "github.com/lightningnetwork/lnd/lnwallet.c02NoIndexes")
	vAssumption("C02-K1: per-commitment secrets are an ideal function sec(party, height) (vHash); commitment points are an injective function of the secret; the channel store, shachain producer/store and HTLC signatures are fakes behind chanstate.Store, shachain.Producer, shachain.Store, input.Signature; findOutputIndexesFromRemote is replaced by its value on a commitment transaction without to_local/to_remote outputs")
}

type c02Producer struct {
	chain byte
	calls []uint64
}

func (p *c02Producer) AtIndex(h uint64) (*chainhash.Hash, error) {
	p.calls = append(p.calls, h)
	return c02Sec(p.chain, h), nil
}
func (p *c02Producer) Encode(io.Writer) error { return nil }

type c02RevStore struct {
	fails bool
	added []*chainhash.Hash
}

func (s *c02RevStore) LookUp(uint64) (*chainhash.Hash, error) {
	return nil, errors.New("c02: unexpected LookUp")
}
func (s *c02RevStore) AddNextEntry(h *chainhash.Hash) error {
	if s.fails {
		return c02ErrRevStore
	}
	s.added = append(s.added, h)
	return nil
}
func (s *c02RevStore) Encode(io.Writer) error { return nil }

var (
	c02ErrRevStore = errors.New("c02: shachain store rejects the secret")
	c02ErrUpdate   = errors.New("c02: UpdateChannelCommitment failed")
	c02ErrAdvance  = errors.New("c02: AdvanceCommitChainTail failed")
)

// c02Sig is an HTLC signature whose serialisation is opaque bytes.
type c02Sig struct{ b []byte }

func (s *c02Sig) Serialize() []byte                   { return s.b }
func (s *c02Sig) Verify([]byte, *btcec.PublicKey) bool { return false }

// ---------------------------------------------------------------------------
// fake channel store
// ---------------------------------------------------------------------------

type c02Store struct {
	chanstate.Store

	updFails   bool
	updCalls   int
	updCommit  *chanstate.ChannelCommitment
	updUpdates []chanstate.LogUpdate
	updFinal   map[uint64]bool

	hasDiff    bool // a pending remote commitment is stored (commitDiffKey)
	advFails   bool
	advCalls   int
	advPkg     *chanstate.FwdPkg
	advUpdates []chanstate.LogUpdate
	advOur     uint32
	advTheir   uint32
	newRemote  chanstate.ChannelCommitment // what the stored CommitDiff holds
}

func (s *c02Store) UpdateChannelCommitment(ch *chanstate.OpenChannel, c *chanstate.ChannelCommitment,
	upds []chanstate.LogUpdate) (map[uint64]bool, error) {

	s.updCalls++
	if s.updFails {
		return nil, c02ErrUpdate
	}
	s.updCommit, s.updUpdates = c, upds
	return s.updFinal, nil
}

// AdvanceCommitChainTail: contract of the real store (channeldb): fails with
// ErrNoPendingCommit when no CommitDiff is stored; otherwise (one atomic
// transaction) stores package and updates and promotes the pending remote
// commitment to channel.RemoteCommitment.
func (s *c02Store) AdvanceCommitChainTail(ch *chanstate.OpenChannel, pkg *chanstate.FwdPkg,
	upds []chanstate.LogUpdate, our, their uint32) error {

	s.advCalls++
	if s.advFails {
		return c02ErrAdvance
	}
	if !s.hasDiff {
		return chanstate.ErrNoPendingCommit
	}
	s.advPkg, s.advUpdates, s.advOur, s.advTheir = pkg, upds, our, their
	s.hasDiff = false
	ch.RemoteCommitment = s.newRemote
	return nil
}

// ---------------------------------------------------------------------------
// symbolic in-memory state
// ---------------------------------------------------------------------------

var c02OnionPos = [...]int{0, 683, lnwire.OnionPacketSize - 1}

func c02Onion(name string) (r [lnwire.OnionPacketSize]byte) {
	b := vBytes(name, len(c02OnionPos))
	for i, p := range c02OnionPos {
		r[p] = b[i]
	}
	return r
}

func c02Arr32(name string) (r [32]byte) {
	copy(r[:], vBytes(name, 32))
	return r
}

// c02CommitHtlc: an HTLC as it sits in an in-memory commitment.
func c02CommitHtlc(withSig bool) paymentDescriptor {
	pd := paymentDescriptor{
		RHash:             c02Arr32("chRHash"),
		Amount:            lnwire.MilliSatoshi(vU64("chAmount")),
		Timeout:           vU32("chTimeout"),
		HtlcIndex:         vU64("chHtlcIndex"),
		LogIndex:          vU64("chLogIndex"),
		OnionBlob:         c02Onion("chOnion"),
		localOutputIndex:  vI32("chLocalOutputIndex"),
		remoteOutputIndex: vI32("chRemoteOutputIndex"),
		EntryType:         Add,
	}
	if withSig {
		pd.sig = &c02Sig{b: vBytes("chSig", 4)}
	}
	return pd
}

type c02Mem struct {
	c        *commitment
	out, in_ []paymentDescriptor // copies of what was put into the commitment
}

// c02MemCommit: an in-memory commitment of the given height with every
// persisted field symbolic. HTLC shapes by case split: quick = none / one
// outgoing / one incoming / one of each, all carrying the peer's signature
// (every HTLC of our own commitment does); thorough adds two outgoing + two
// incoming, the second of each without signature (nil sig branch).
func c02MemCommit(height uint64, who lntypes.ChannelParty, shapes int) *c02Mem {
	c := &commitment{
		height:         height,
		whoseCommit:    who,
		messageIndices: lntypes.Dual[uint64]{Local: vU64("cmLocalLogIndex"), Remote: vU64("cmRemoteLogIndex")},
		ourHtlcIndex:   vU64("cmOurHtlcIndex"),
		theirHtlcIndex: vU64("cmTheirHtlcIndex"),
		txn:            &wire.MsgTx{Version: 2, LockTime: vU32("cmTxLockTime")},
		sig:            vBytes("cmSig", 4),
		ourBalance:     lnwire.MilliSatoshi(vU64("cmOurBalance")),
		theirBalance:   lnwire.MilliSatoshi(vU64("cmTheirBalance")),
		fee:            btcutil.Amount(vI64("cmFee")),
		feePerKw:       chainfee.SatPerKWeight(vI64("cmFeePerKw")),
		dustLimit:      btcutil.Amount(vI64("cmDustLimit")),
	}
	m := &c02Mem{c: c}
	shape := -shapes // shapes < 0: pinned by the caller
	if shapes > 0 {
		shape = vChoice("htlcShape", shapes)
	}
	nOut, nIn := shape&1, shape>>1&1
	if shape == 4 {
		nOut, nIn = 2, 2
	}
	if shape >= 2 {
		c.customBlob = fn.Some[tlv.Blob](vBytes("cmCustomBlob", 3))
	}
	for i := 0; i < nOut; i++ {
		c.outgoingHTLCs = append(c.outgoingHTLCs, c02CommitHtlc(i == 0))
	}
	for i := 0; i < nIn; i++ {
		c.incomingHTLCs = append(c.incomingHTLCs, c02CommitHtlc(i == 0))
	}
	m.out = append(m.out, c.outgoingHTLCs...)
	m.in_ = append(m.in_, c.incomingHTLCs...)
	return m
}

const (
	c02KAdd = iota
	c02KSettle
	c02KFail
	c02KMalformed
	c02KFee
	c02NumK
)

var c02EntryTypes = [c02NumK]updateType{Add, Settle, Fail, MalformedFail, FeeUpdate}

// c02LogEntry: an update-log entry of the given kind with symbolic payload.
func c02LogEntry(kind int, chanID lnwire.ChannelID, logIndex uint64) *paymentDescriptor {
	pd := &paymentDescriptor{ChanID: chanID, LogIndex: logIndex, EntryType: c02EntryTypes[kind]}
	switch kind {
	case c02KAdd:
		pd.HtlcIndex = vU64("leHtlcIndex")
		pd.Amount = lnwire.MilliSatoshi(vU64("leAmount"))
		pd.RHash = c02Arr32("leRHash")
		pd.Timeout = vU32("leTimeout")
		pd.OnionBlob = c02Onion("leOnion")
	case c02KSettle:
		pd.ParentIndex = vU64("leParentIndex")
		pd.RPreimage = c02Arr32("lePreimage")
	case c02KFail:
		pd.ParentIndex = vU64("leParentIndex")
		pd.FailReason = vBytes("leFailReason", 4)
	case c02KMalformed:
		pd.ParentIndex = vU64("leParentIndex")
		pd.ShaOnionBlob = c02Arr32("leShaOnion")
		pd.FailCode = lnwire.FailCode(vU16("leFailCode"))
	case c02KFee:
		// the fee rate is held in msat (a whole number of satoshis: the
		// wire field is a uint32 sat/kw, ReceiveUpdateFee / UpdateFee)
		pd.Amount = lnwire.NewMSatFromSatoshis(btcutil.Amount(vU32("leFeePerKw")))
	}
	return pd
}

// c02UpdEq: does the persisted log update denote this log entry?
func c02UpdEq(u chanstate.LogUpdate, pd *paymentDescriptor) bool {
	if u.LogIndex != pd.LogIndex {
		return false
	}
	switch pd.EntryType {
	case Add:
		m, ok := u.UpdateMsg.(*lnwire.UpdateAddHTLC)
		return ok && m.ChanID == pd.ChanID && m.ID == pd.HtlcIndex && m.Amount == pd.Amount &&
			m.PaymentHash == [32]byte(pd.RHash) && m.Expiry == pd.Timeout && m.OnionBlob == pd.OnionBlob
	case Settle:
		m, ok := u.UpdateMsg.(*lnwire.UpdateFulfillHTLC)
		return ok && m.ChanID == pd.ChanID && m.ID == pd.ParentIndex && m.PaymentPreimage == [32]byte(pd.RPreimage)
	case Fail:
		m, ok := u.UpdateMsg.(*lnwire.UpdateFailHTLC)
		return ok && m.ChanID == pd.ChanID && m.ID == pd.ParentIndex && bytes.Equal(m.Reason, pd.FailReason)
	case MalformedFail:
		m, ok := u.UpdateMsg.(*lnwire.UpdateFailMalformedHTLC)
		return ok && m.ChanID == pd.ChanID && m.ID == pd.ParentIndex && m.ShaOnionBlob == pd.ShaOnionBlob &&
			m.FailureCode == pd.FailCode
	case FeeUpdate:
		m, ok := u.UpdateMsg.(*lnwire.UpdateFee)
		return ok && m.ChanID == pd.ChanID && uint64(m.FeePerKw)*1000 == uint64(pd.Amount)
	}
	return false
}

func c02UpdsEq(got []chanstate.LogUpdate, want []*paymentDescriptor) bool {
	if len(got) != len(want) {
		return false
	}
	ok := true
	for i := range want {
		ok = ok && c02UpdEq(got[i], want[i])
	}
	return ok
}

func c02Outpoint() wire.OutPoint {
	var op wire.OutPoint
	copy(op.Hash[:], vBytes("fundingTxid", 32))
	op.Index = vU32("fundingIndex")
	return op
}

// c02RefChanID: BOLT-2 channel_id = funding txid XOR the 16-bit output index
// on the last two bytes (big endian).
func c02RefChanID(op wire.OutPoint) (id lnwire.ChannelID) {
	copy(id[:], op.Hash[:])
	id[30] ^= byte(op.Index >> 8)
	id[31] ^= byte(op.Index)
	return id
}

// c02HtlcOnDisk: does the persisted HTLC denote this in-memory HTLC of a
// LOCAL commitment?
func c02HtlcOnDisk(h *chanstate.HTLC, pd *paymentDescriptor, incoming bool) bool {
	sigOK := len(h.Signature) == 0
	if pd.sig != nil {
		sigOK = bytes.Equal(h.Signature, pd.sig.Serialize())
	}
	return h.RHash == [32]byte(pd.RHash) && h.Amt == pd.Amount && h.RefundTimeout == pd.Timeout &&
		h.OutputIndex == pd.localOutputIndex && h.HtlcIndex == pd.HtlcIndex && h.LogIndex == pd.LogIndex &&
		h.Incoming == incoming && h.OnionBlob == pd.OnionBlob && sigOK
}

// ---------------------------------------------------------------------------
// RevokeCurrentCommitment
// ---------------------------------------------------------------------------

func c02Revoke(htlcShapes int, maxLog int, deep bool) {
	c02Config()
	h := vU64("height")
	// Domain: h+2 does not wrap (commitment numbers are 48 bits: BOLT-3
	// obscured commitment number; SetStateNumHint rejects larger ones).
	vAssume(h < ^uint64(0)-1)
	// outcome class (complete case split): 0 = store accepts, 1 = store
	// write fails, 2 = restored channel. Quick runs the two refusing classes
	// on the largest shape only (the code before the store call is the same
	// straight line for every class); thorough runs every class on every shape.
	mode := vChoice("mode", 3)
	restored := mode == 2
	// every channel type without the taproot bit (musig nonces are outside)
	ct := chanstate.ChannelType(vU64("chanType"))
	vAssume(!ct.IsTaproot())
	op := c02Outpoint()
	chanID := c02RefChanID(op)

	store := &c02Store{updFails: mode == 1, updFinal: map[uint64]bool{7: true}}
	prod := &c02Producer{chain: 1}
	st := &chanstate.OpenChannel{
		ChanType:           ct,
		FundingOutpoint:    op,
		RevocationProducer: prod,
		RevocationStore:    &c02RevStore{},
		Db:                 store,
	}
	if restored {
		st.SetChannelStatusForStore(chanstate.ChanStatusRestored)
	}
	st.LocalCommitment.CommitHeight = h

	// local chain: the commitment being revoked (h) and the one the peer just
	// signed (h+1, added by ReceiveNewCommitment)
	old := c02MemCommit(h, lntypes.Local, 1)
	var next *c02Mem
	if mode != 0 && !deep {
		next = c02MemCommit(h+1, lntypes.Local, -3)
	} else {
		next = c02MemCommit(h+1, lntypes.Local, htlcShapes)
	}
	lch := newCommitmentChain()
	lch.addCommitment(old.c)
	lch.addCommitment(next.c)
	// remote chain: only the tail's remote log index matters here
	remTailRemoteIdx := vU64("remoteTailRemoteLogIndex")
	rch := newCommitmentChain()
	rch.addCommitment(&commitment{
		height:         vU64("remoteHeight"),
		whoseCommit:    lntypes.Remote,
		messageIndices: lntypes.Dual[uint64]{Local: vU64("remoteTailLocalLogIndex"), Remote: remTailRemoteIdx},
	})

	// remote update log: up to maxLog entries of any kind, strictly increasing
	// log indexes
	remoteLog := newUpdateLog(vU64("remoteLogCounter"), vU64("remoteHtlcCounter"))
	var entries []*paymentDescriptor
	n := maxLog
	if mode == 0 || deep {
		n = vChoice("nRemoteLog", maxLog+1)
	}
	kind := 0
	for i := 0; i < n; i++ {
		if i == 0 || deep {
			kind = vChoice("logKind", c02NumK)
		} else {
			// quick: the next entry is of the next kind (every kind occurs
			// in every position; entries are converted independently)
			kind = (kind + 1) % c02NumK
		}
		pd := c02LogEntry(kind, chanID, vU64("leLogIndex"))
		if i > 0 {
			vAssume(entries[i-1].LogIndex < pd.LogIndex)
		}
		entries = append(entries, pd)
		remoteLog.PushBack(pd)
	}

	lc := &LightningChannel{
		channelState:  st,
		currentHeight: h,
		commitChains:  lntypes.Dual[*commitmentChain]{Local: lch, Remote: rch},
		updateLogs:    lntypes.Dual[*updateLog]{Local: newUpdateLog(0, 0), Remote: remoteLog},
	}
	if vNative() {
		lc.log = walletLog
	}

	msg, htlcs, final, err := lc.RevokeCurrentCommitment()

	if restored {
		vAssert(err == chanstate.ErrNoRestoredChannelMutation && msg == nil, "revoke: a restored channel releases nothing")
		vAssert(store.updCalls == 0, "revoke: a restored channel is not written")
		vReach("restored")
		return
	}
	vAssert(store.updCalls == 1, "revoke: the store is called exactly once")
	if store.updFails {
		vAssert(err != nil, "revoke: a failed store write is reported")
		vAssert(msg == nil, "revoke: no revoke_and_ack is released when the store write failed")
		vAssert(htlcs == nil && final == nil, "revoke: nothing else is returned when the store write failed")
		vAssert(st.LocalCommitment.CommitHeight == h, "revoke: the persisted-state mirror keeps the old height")
		vReach("store-failed")
		return
	}
	vAssert(err == nil, "revoke: succeeds when the store accepts the write")
	vAssert(msg != nil, "revoke: a revoke_and_ack is returned")
	if err != nil || msg == nil {
		return
	}

	// what was released
	vAssert(msg.Revocation == [32]byte(*c02Sec(1, h)), "revoke: the released secret is the one of the pre-call height")
	want2 := c02Point(c02Sec(1, h+2)[:])
	vAssert(msg.NextRevocationKey != nil && msg.NextRevocationKey.IsEqual(want2), "revoke: next point is the one of height+2")
	vAssert(msg.ChanID == chanID, "revoke: channel id")
	vAssert(msg.LocalNonce.IsNone() && msg.LocalNonces.IsNone(), "revoke: no nonce on a non-taproot channel")

	// what was persisted before
	d := store.updCommit
	vAssert(d != nil, "revoke: a commitment was handed to the store")
	if d == nil {
		return
	}
	nc := next.c
	vAssert(d.CommitHeight == h+1, "revoke: the persisted commitment has height+1")
	vAssert(d.LocalLogIndex == nc.messageIndices.Local && d.RemoteLogIndex == nc.messageIndices.Remote, "revoke: persisted log indexes")
	vAssert(d.LocalHtlcIndex == nc.ourHtlcIndex && d.RemoteHtlcIndex == nc.theirHtlcIndex, "revoke: persisted htlc indexes")
	vAssert(d.LocalBalance == nc.ourBalance && d.RemoteBalance == nc.theirBalance, "revoke: persisted balances")
	vAssert(d.CommitFee == nc.fee && int64(d.FeePerKw) == int64(nc.feePerKw), "revoke: persisted fee and fee rate")
	vAssert(d.CommitTx == nc.txn && bytes.Equal(d.CommitSig, nc.sig), "revoke: persisted transaction and signature")
	vAssert(d.CustomBlob.IsSome() == nc.customBlob.IsSome() &&
		bytes.Equal(d.CustomBlob.UnwrapOr(nil), nc.customBlob.UnwrapOr(nil)), "revoke: persisted custom blob")
	vAssert(len(d.Htlcs) == len(next.out)+len(next.in_), "revoke: every HTLC of the commitment is persisted")
	if len(d.Htlcs) == len(next.out)+len(next.in_) {
		for i := range next.out {
			vAssert(c02HtlcOnDisk(&d.Htlcs[i], &next.out[i], false), "revoke: persisted outgoing HTLC")
		}
		for i := range next.in_ {
			vAssert(c02HtlcOnDisk(&d.Htlcs[len(next.out)+i], &next.in_[i], true), "revoke: persisted incoming HTLC")
		}
	}
	// unsigned-acked updates: the peer's updates that our new commitment
	// includes (index below its remote log index) and that we have not yet
	// signed for on the peer's commitment (index at or above the remote
	// tail's remote log index), in log order
	var wantUpd []*paymentDescriptor
	for _, pd := range entries {
		if pd.LogIndex >= remTailRemoteIdx && pd.LogIndex < nc.messageIndices.Remote {
			wantUpd = append(wantUpd, pd)
		}
	}
	vAssert(c02UpdsEq(store.updUpdates, wantUpd), "revoke: the unsigned-acked updates handed to the store")

	// in-memory state follows
	vAssert(lc.currentHeight == h+1 && lc.commitChains.Local.tail() == nc && !lc.commitChains.Local.hasUnackedCommitment(),
		"revoke: the local chain advanced to height+1")
	vAssert(st.LocalCommitment.CommitHeight == h+1, "revoke: channelState.LocalCommitment is the persisted one")
	vAssert(len(htlcs) == len(d.Htlcs) && final[7], "revoke: returns the persisted HTLCs and the store's resolutions")
	vReach("released")
	if len(wantUpd) == 2 {
		vReach("released-two-unsigned-acked")
	}
	if len(d.Htlcs) >= 2 {
		vReach("released-two-htlcs")
	}
}

func VerifC02Revoke()     { c02Revoke(4, 2, false) }
func VerifC02RevokeDeep() { c02Revoke(5, 2, true) }

// ---------------------------------------------------------------------------
// ReceiveRevocation
// ---------------------------------------------------------------------------

// c02NativeKeys (native replay only): the real findOutputIndexesFromRemote
// derives a key ring from the channel configs; give it real points.
func c02NativeKeys(st *chanstate.OpenChannel) {
	k := func(i byte) *btcec.PublicKey {
		var s [32]byte
		s[31] = i
		_, pub := btcec.PrivKeyFromBytes(s[:])
		return pub
	}
	for i, cfg := range []*chanstate.ChannelConfig{&st.LocalChanCfg, &st.RemoteChanCfg} {
		b := byte(10 * (i + 1))
		cfg.MultiSigKey.PubKey = k(b + 1)
		cfg.RevocationBasePoint.PubKey = k(b + 2)
		cfg.PaymentBasePoint.PubKey = k(b + 3)
		cfg.DelayBasePoint.PubKey = k(b + 4)
		cfg.HtlcBasePoint.PubKey = k(b + 5)
	}
}

// c02PoolPoint: pairwise distinct points that are not the point of any secret
// used here (symbolically y = 2 while c02PointRepl has y = 1; natively real
// points of small scalars).
func c02PoolPoint(i byte) *btcec.PublicKey {
	if vNative() {
		var s [32]byte
		s[31] = i + 1
		return input.ComputeCommitmentPoint(s[:])
	}
	var x, y btcec.FieldVal
	x.SetInt(uint16(i) + 1)
	y.SetInt(2)
	return btcec.NewPublicKey(&x, &y)
}

var c02ChanTypes = [...]chanstate.ChannelType{
	chanstate.SingleFunderBit,
	chanstate.SingleFunderTweaklessBit,
	chanstate.SingleFunderTweaklessBit | chanstate.AnchorOutputsBit | chanstate.ZeroHtlcTxFeeBit,
	chanstate.SingleFunderTweaklessBit | chanstate.AnchorOutputsBit | chanstate.ZeroHtlcTxFeeBit | chanstate.LeaseExpirationBit,
}

type c02Heights struct{ addL, addR, rmvL, rmvR uint64 }

func c02SymHeights(pd *paymentDescriptor) {
	pd.addCommitHeights = lntypes.Dual[uint64]{Local: vU64("leAddLocal"), Remote: vU64("leAddRemote")}
	if pd.EntryType != Add {
		pd.removeCommitHeights = lntypes.Dual[uint64]{Local: vU64("leRmvLocal"), Remote: vU64("leRmvRemote")}
	}
	if pd.EntryType == FeeUpdate {
		// a fee update is added and removed at the same height
		// (paymentDescriptor.setCommitHeight)
		pd.removeCommitHeights = pd.addCommitHeights
	}
}

// c02Recv: scenario = which entries the two update logs hold. Log indexes,
// add/remove heights and payloads are symbolic; HTLC ids are the concrete
// 0,1 (they only name parents). Every settle/fail has its parent Add in the
// other log and no Add has two removals (the representation invariant of the
// logs; compactLogs dereferences the parent).
//
//	0: both logs empty
//	1: remote [Add a0]
//	2: remote [Add a0]           local [Settle|Fail|Malformed of a0]
//	3: remote [Add a0, Add a1]   local [Fail of a1]
//	4: remote [Settle of b0]     local [Add b0]
//	5: remote [Add a0, Fail of b0]  local [Add b0, FeeUpdate]
//	6: remote [FeeUpdate]        local [FeeUpdate]
func c02Recv(scenarios int, deep bool) {
	c02Config()
	r := vU64("remoteTailHeight")
	l := vU64("localTailHeight")
	// Domain: r+1 does not wrap (48-bit commitment numbers).
	vAssume(r < ^uint64(0))
	op := c02Outpoint()
	chanID := c02RefChanID(op)
	scid := lnwire.NewShortChanIDFromInt(vU64("scid"))

	// outcome class: 0 = everything accepted, 1 = shachain store rejects the
	// secret, 2 = secret does not match the current point, 3 = channel store
	// write fails, 4 = no pending commitment stored, 5 = restored channel.
	// Thorough: every class x every scenario x every channel type. Quick: the
	// refusing classes run on the largest scenario only and the channel type
	// (which the unit consults for the taproot bit only) is tied to the scenario.
	mode := vChoice("mode", 6)
	scenario := scenarios - 2
	if mode == 0 || deep {
		scenario = vChoice("scenario", scenarios)
	}
	ct := c02ChanTypes[scenario%len(c02ChanTypes)]
	if deep {
		ct = c02ChanTypes[vChoice("chanType", len(c02ChanTypes))]
	}

	store := &c02Store{advFails: mode == 3, hasDiff: mode != 4}
	store.newRemote = chanstate.ChannelCommitment{
		CommitHeight: r + 1,
		CommitTx:     &wire.MsgTx{Version: 2},
		Htlcs:        []chanstate.HTLC{{HtlcIndex: vU64("newRemoteHtlcIndex"), Amt: lnwire.MilliSatoshi(vU64("newRemoteHtlcAmt"))}},
	}
	revStore := &c02RevStore{fails: mode == 1}
	secret := *c02Sec(2, r)
	curPt, nextPt, msgPt := c02Point(secret[:]), c02PoolPoint(0), c02PoolPoint(1)
	st := &chanstate.OpenChannel{
		ChanType:                ct,
		FundingOutpoint:         op,
		ShortChannelID:          scid,
		RevocationProducer:      &c02Producer{chain: 1},
		RevocationStore:         revStore,
		RemoteCurrentRevocation: curPt,
		RemoteNextRevocation:    nextPt,
		Db:                      store,
	}
	if mode == 5 {
		st.SetChannelStatusForStore(chanstate.ChanStatusRestored)
	}
	st.LocalCommitment.CommitHeight = l
	st.RemoteCommitment = chanstate.ChannelCommitment{CommitHeight: r, CommitTx: &wire.MsgTx{Version: 2}}
	if vNative() {
		c02NativeKeys(st)
	}

	localTailLocalIdx, remoteTipLocalIdx := vU64("localTailLocalLogIndex"), vU64("remoteTipLocalLogIndex")
	lch := newCommitmentChain()
	lch.addCommitment(&commitment{height: l, whoseCommit: lntypes.Local,
		messageIndices: lntypes.Dual[uint64]{Local: localTailLocalIdx, Remote: vU64("localTailRemoteLogIndex")}})
	rch := newCommitmentChain()
	rTail := &commitment{height: r, whoseCommit: lntypes.Remote,
		messageIndices: lntypes.Dual[uint64]{Local: vU64("remoteTailLocalLogIndex"), Remote: vU64("remoteTailRemoteLogIndex")}}
	rTip := &commitment{height: r + 1, whoseCommit: lntypes.Remote,
		messageIndices: lntypes.Dual[uint64]{Local: remoteTipLocalIdx, Remote: vU64("remoteTipRemoteLogIndex")}}
	rch.addCommitment(rTail)
	rch.addCommitment(rTip)

	// the logs
	localLog, remoteLog := newUpdateLog(vU64("localLogCounter"), 2), newUpdateLog(vU64("remoteLogCounter"), 2)
	var lEntries, rEntries []*paymentDescriptor
	put := func(log *updateLog, list *[]*paymentDescriptor, kind int, id uint64) {
		pd := c02LogEntry(kind, chanID, vU64("leLogIndex"))
		if kind == c02KAdd {
			pd.HtlcIndex = id
		} else if kind != c02KFee {
			pd.ParentIndex = id
		}
		c02SymHeights(pd)
		if n := len(*list); n > 0 {
			vAssume((*list)[n-1].LogIndex < pd.LogIndex)
		}
		*list = append(*list, pd)
		if kind == c02KAdd {
			log.restoreHtlc(pd)
		} else {
			log.restoreUpdate(pd)
		}
	}
	switch scenario {
	case 1:
		put(remoteLog, &rEntries, c02KAdd, 0)
	case 2:
		put(remoteLog, &rEntries, c02KAdd, 0)
		put(localLog, &lEntries, c02KSettle+vChoice("removalKind", 3), 0)
	case 3:
		put(remoteLog, &rEntries, c02KAdd, 0)
		put(remoteLog, &rEntries, c02KAdd, 1)
		put(localLog, &lEntries, c02KFail, 1)
	case 4:
		put(localLog, &lEntries, c02KAdd, 0)
		put(remoteLog, &rEntries, c02KSettle, 0)
	case 5:
		put(localLog, &lEntries, c02KAdd, 0)
		put(localLog, &lEntries, c02KFee, 0)
		put(remoteLog, &rEntries, c02KAdd, 0)
		put(remoteLog, &rEntries, c02KFail, 0)
	case 6:
		put(remoteLog, &rEntries, c02KFee, 0)
		put(localLog, &lEntries, c02KFee, 0)
	}

	// reference: what becomes forwardable / must be remembered, from the
	// pre-call state (the call mutates the entries)
	var wantAdds, wantSettleFails, wantPeer []*paymentDescriptor
	for _, pd := range rEntries {
		switch {
		case pd.EntryType == FeeUpdate:
		case pd.EntryType == Add:
			if pd.addCommitHeights.Remote > 0 && pd.addCommitHeights.Local > 0 &&
				pd.addCommitHeights.Remote == r+1 && pd.addCommitHeights.Local <= l {
				wantAdds = append(wantAdds, pd)
			}
		default:
			if pd.removeCommitHeights.Remote > 0 && pd.removeCommitHeights.Local > 0 &&
				pd.removeCommitHeights.Remote == r+1 && pd.removeCommitHeights.Local <= l {
				wantSettleFails = append(wantSettleFails, pd)
			}
		}
	}
	for _, pd := range lEntries {
		if pd.EntryType != Add && pd.LogIndex < remoteTipLocalIdx && pd.LogIndex >= localTailLocalIdx {
			wantPeer = append(wantPeer, pd)
		}
	}

	lc := &LightningChannel{
		channelState:  st,
		currentHeight: l,
		commitChains:  lntypes.Dual[*commitmentChain]{Local: lch, Remote: rch},
		updateLogs:    lntypes.Dual[*updateLog]{Local: localLog, Remote: remoteLog},
	}
	if vNative() {
		lc.log = walletLog
	}

	msg := &lnwire.RevokeAndAck{ChanID: chanID, NextRevocationKey: msgPt}
	msg.Revocation = secret
	if mode == 2 {
		// a different secret: differs in the last byte only, so the two
		// values cannot be congruent modulo the field/group order
		msg.Revocation[31] ^= vU8("secretFlip") | 1
	}

	pkg, htlcs, err := lc.ReceiveRevocation(msg)

	unadvanced := lc.commitChains.Remote.tail() == rTail && lc.commitChains.Remote.tip() == rTip
	switch mode {
	case 1:
		vAssert(err == c02ErrRevStore && pkg == nil, "recv: a secret the shachain store rejects is refused")
		vAssert(store.advCalls == 0 && unadvanced, "recv: nothing is written and the remote chain stays")
		vReach("shachain-rejects")
		return
	case 2:
		vAssert(err != nil && pkg == nil, "recv: a secret that does not open the current point is refused")
		vAssert(store.advCalls == 0 && unadvanced, "recv: nothing is written and the remote chain stays")
		vReach("wrong-secret")
		return
	case 3:
		vAssert(err == c02ErrAdvance && pkg == nil && htlcs == nil, "recv: a failed store write is reported, nothing is returned")
		vAssert(store.advCalls == 1 && unadvanced, "recv: the in-memory remote chain is not advanced when the write failed")
		vReach("store-failed")
		return
	case 4:
		vAssert(err == chanstate.ErrNoPendingCommit && pkg == nil, "recv: without a stored pending commitment the store's error is returned")
		vAssert(unadvanced, "recv: the remote chain stays")
		vReach("no-pending-commit")
		return
	case 5:
		vAssert(err == chanstate.ErrNoRestoredChannelMutation && pkg == nil, "recv: a restored channel is not advanced")
		vAssert(store.advCalls == 0 && unadvanced, "recv: nothing is written and the remote chain stays")
		vReach("restored")
		return
	}
	vAssert(err == nil && pkg != nil, "recv: a correct revocation is accepted")
	if err != nil || pkg == nil {
		return
	}
	vAssert(store.advCalls == 1 && store.advPkg == pkg, "recv: the returned forwarding package is the one that was stored, once")
	vAssert(len(revStore.added) == 1 && *revStore.added[0] == secret, "recv: the secret went into the shachain store")
	vAssert(pkg.Height == r+1 && pkg.Source == scid && pkg.State == chanstate.FwdStateLockedIn, "recv: package is keyed by the new remote height and this channel")
	vAssert(c02UpdsEq(pkg.Adds, wantAdds), "recv: package Adds are exactly the freshly locked-in remote Adds")
	vAssert(c02UpdsEq(pkg.SettleFails, wantSettleFails), "recv: package SettleFails are exactly the freshly locked-in remote removals")
	vAssert(pkg.FwdFilter != nil && pkg.AckFilter != nil && pkg.SettleFailFilter != nil &&
		int(pkg.FwdFilter.Count()) == len(wantAdds) && int(pkg.AckFilter.Count()) == len(wantAdds) &&
		int(pkg.SettleFailFilter.Count()) == len(wantSettleFails), "recv: filters sized for the package")
	for i, pd := range wantAdds {
		vAssert(pd.SourceRef != nil && pd.SourceRef.Height == r+1 && int(pd.SourceRef.Index) == i, "recv: SourceRef of a forwarded Add")
	}
	for i, pd := range wantSettleFails {
		vAssert(pd.DestRef != nil && pd.DestRef.Source == scid && pd.DestRef.Height == r+1 && int(pd.DestRef.Index) == i,
			"recv: DestRef of a forwarded removal")
	}
	vAssert(c02UpdsEq(store.advUpdates, wantPeer), "recv: our removals the peer has signed for but we have not are stored")
	vAssert(lc.commitChains.Remote.tail() == rTip && !lc.commitChains.Remote.hasUnackedCommitment(), "recv: the remote chain advanced to the new tail")
	vAssert(st.RemoteCurrentRevocation == nextPt && st.RemoteNextRevocation == msgPt, "recv: revocation points rotated")
	vAssert(len(htlcs) == 1 && htlcs[0].HtlcIndex == store.newRemote.Htlcs[0].HtlcIndex && htlcs[0].Amt == store.newRemote.Htlcs[0].Amt,
		"recv: returns the HTLCs of the promoted remote commitment")
	vReach("accepted")
	if len(wantAdds) == 2 {
		vReach("accepted-two-adds")
	}
	if len(wantSettleFails) == 1 {
		vReach("accepted-settlefail")
	}
	if len(wantPeer) >= 1 {
		vReach("accepted-peer-updates")
	}
}

func VerifC02RecvRevocation()     { c02Recv(7, false) }
func VerifC02RecvRevocationDeep() { c02Recv(7, true) }
