package channeldb

// Harness for C02, part K2b: reload of what the real store functions write.
//
// Units executed symbolically (real lnd code):
//   putOpenChannel / fetchOpenChannel (the function behind FetchOpenChannels:
//   fetchChanInfo, fetchChanCommitments, fetchThawHeight,
//   fetchChanRevocationState), putChanInfo / writeChanConfig / readChanConfig,
//   openChannelTlvData encode / decode, extract/amendOpenChannelTlvData,
//   (*ChannelStateDB).UpdateChannelCommitment, AppendRemoteCommitChain,
//   RemoteCommitChainTip, UnsignedAckedUpdates, RemoteUnsignedLocalUpdates,
//   fetchChanBucket / fetchChanBucketRw, isChannelBorked, isOutpointClosed,
//   processFinalHtlc.
//
// Fake: c02DB, an in-memory kvdb.Backend (nested buckets, Get/Put, View and
// Update only; any other method dereferences the nil embedded interface =
// panic obligation). Update is atomic BY CONSTRUCTION: a transaction whose
// closure returns an error (here: the k-th Put fails, k by case split) leaves
// the store as it was. That atomicity is what bbolt/SQL provide and is
// assumed, not checked.
//
// Oracle: after the store call returns nil, what a reload reads (the functions
// NewLightningChannel is fed from) is field by field what was handed to the
// store; after it returns an error the reload reads the previous state.

import (
	"bytes"
	"errors"

	"github.com/btcsuite/btcd/btcutil/v2"
	"github.com/btcsuite/btcd/chainhash/v2"
	"github.com/btcsuite/btcd/wire/v2"
	"github.com/lightningnetwork/lnd/fn/v2"
	graphdb "github.com/lightningnetwork/lnd/graph/db"
	"github.com/lightningnetwork/lnd/keychain"
	"github.com/lightningnetwork/lnd/kvdb"
	"github.com/lightningnetwork/lnd/lnwire"
	"github.com/lightningnetwork/lnd/shachain"
	"github.com/lightningnetwork/lnd/tlv"
)

// ---------------------------------------------------------------------------
// fake kvdb backend
// ---------------------------------------------------------------------------

var c02ErrPut = errors.New("c02: Put failed")

type c02Node struct {
	kvdb.RwBucket
	db         *c02DB
	keys, vals [][]byte
	subKeys    [][]byte
	subs       []*c02Node
}

func (n *c02Node) Get(k []byte) []byte {
	for i := range n.keys {
		if bytes.Equal(n.keys[i], k) {
			return n.vals[i]
		}
	}
	return nil
}

func (n *c02Node) Put(k, v []byte) error {
	if n.db != nil {
		if n.db.puts == n.db.failAt {
			n.db.puts++
			return c02ErrPut
		}
		n.db.puts++
	}
	for i := range n.keys {
		if bytes.Equal(n.keys[i], k) {
			n.vals[i] = c02Clone(v)
			return nil
		}
	}
	n.keys = append(n.keys, c02Clone(k))
	n.vals = append(n.vals, c02Clone(v))
	return nil
}

func (n *c02Node) sub(k []byte) *c02Node {
	for i := range n.subKeys {
		if bytes.Equal(n.subKeys[i], k) {
			return n.subs[i]
		}
	}
	return nil
}

func (n *c02Node) NestedReadBucket(k []byte) kvdb.RBucket {
	if s := n.sub(k); s != nil {
		return s
	}
	return nil
}

func (n *c02Node) NestedReadWriteBucket(k []byte) kvdb.RwBucket {
	if s := n.sub(k); s != nil {
		return s
	}
	return nil
}

func (n *c02Node) mk(k []byte) *c02Node {
	s := &c02Node{db: n.db}
	n.subKeys = append(n.subKeys, c02Clone(k))
	n.subs = append(n.subs, s)
	return s
}

func (n *c02Node) clone() *c02Node {
	c := &c02Node{db: n.db}
	for i := range n.keys {
		c.keys = append(c.keys, c02Clone(n.keys[i]))
		c.vals = append(c.vals, c02Clone(n.vals[i]))
	}
	for i := range n.subs {
		c.subKeys = append(c.subKeys, c02Clone(n.subKeys[i]))
		c.subs = append(c.subs, n.subs[i].clone())
	}
	return c
}

type c02DB struct {
	kvdb.Backend
	top    *c02Node // top-level buckets are the sub-buckets of this node
	puts   int
	failAt int // the Put with this ordinal fails (-1: none)
	txs    int
}

type c02KvTx struct {
	kvdb.RwTx
	db *c02DB
}

func (t *c02KvTx) ReadBucket(k []byte) kvdb.RBucket {
	if s := t.db.top.sub(k); s != nil {
		return s
	}
	return nil
}

func (t *c02KvTx) ReadWriteBucket(k []byte) kvdb.RwBucket {
	if s := t.db.top.sub(k); s != nil {
		return s
	}
	return nil
}

func (d *c02DB) View(f func(tx kvdb.RTx) error, reset func()) error {
	reset()
	return f(&c02KvTx{db: d})
}

func (d *c02DB) Update(f func(tx kvdb.RwTx) error, reset func()) error {
	reset()
	d.txs++
	saved := d.top.clone()
	if err := f(&c02KvTx{db: d}); err != nil {
		d.top = saved // rollback: the transaction is atomic
		return err
	}
	return nil
}

// ---------------------------------------------------------------------------
// a channel and its bucket
// ---------------------------------------------------------------------------

func c02Cfg(name string) ChannelConfig {
	kd := func(n string) keychain.KeyDescriptor {
		return keychain.KeyDescriptor{KeyLocator: keychain.KeyLocator{
			Family: keychain.KeyFamily(vU32(name + n + "Family")), Index: vU32(name + n + "Index"),
		}}
	}
	var c ChannelConfig
	c.DustLimit = btcutil.Amount(vI64(name + "DustLimit"))
	c.MaxPendingAmount = lnwire.MilliSatoshi(vU64(name + "MaxPending"))
	c.ChanReserve = btcutil.Amount(vI64(name + "ChanReserve"))
	c.MinHTLC = lnwire.MilliSatoshi(vU64(name + "MinHTLC"))
	c.MaxAcceptedHtlcs = vU16(name + "MaxAcceptedHtlcs")
	c.CsvDelay = vU16(name + "CsvDelay")
	c.MultiSigKey, c.RevocationBasePoint = kd("MultiSig"), kd("RevBase")
	c.PaymentBasePoint, c.DelayBasePoint, c.HtlcBasePoint = kd("PayBase"), kd("DelayBase"), kd("HtlcBase")
	// public keys stay nil (the codec writes a presence flag): decoding a
	// compressed point needs a modular square root
	return c
}

func c02CfgEq(a, b *ChannelConfig) bool {
	kd := func(x, y keychain.KeyDescriptor) bool {
		return x.Family == y.Family && x.Index == y.Index && x.PubKey == nil && y.PubKey == nil
	}
	return a.DustLimit == b.DustLimit && a.MaxPendingAmount == b.MaxPendingAmount && a.ChanReserve == b.ChanReserve &&
		a.MinHTLC == b.MinHTLC && a.MaxAcceptedHtlcs == b.MaxAcceptedHtlcs && a.CsvDelay == b.CsvDelay &&
		kd(a.MultiSigKey, b.MultiSigKey) && kd(a.RevocationBasePoint, b.RevocationBasePoint) &&
		kd(a.PaymentBasePoint, b.PaymentBasePoint) && kd(a.DelayBasePoint, b.DelayBasePoint) && kd(a.HtlcBasePoint, b.HtlcBasePoint)
}

// channel type shapes: 0 = tweakless single funder (stores the funding
// transaction when we are the initiator), 1 = anchors zero-fee without stored
// funding transaction, 2 = script-enforced lease (stores a thaw height)
var c02ChanTypes = [...]ChannelType{
	SingleFunderTweaklessBit,
	SingleFunderTweaklessBit | AnchorOutputsBit | ZeroHtlcTxFeeBit | NoFundingTxBit,
	SingleFunderTweaklessBit | AnchorOutputsBit | ZeroHtlcTxFeeBit | LeaseExpirationBit | NoFundingTxBit,
}

type c02World struct {
	db   *c02DB
	cdb  *ChannelStateDB
	bkt  *c02Node
	ch   *OpenChannel
	root []byte // producer root
	raw  []byte // secret-store bytes
}

// c02Channel: a channel with every persisted scalar symbolic. Concrete: the
// bucket path (peer key, chain hash, funding outpoint), the two curve points.
// status is the persisted status word.
func c02Channel(status ChannelStatus, maxHtlcs int) *c02World {
	w := &c02World{db: &c02DB{top: &c02Node{}, failAt: -1}}
	w.db.top.db = w.db
	w.cdb = &ChannelStateDB{backend: w.db, parent: &DB{}}

	ct := c02ChanTypes[c02Choice("chanType", len(c02ChanTypes))]
	ch := &OpenChannel{
		ChanType:               ct,
		ChainHash:              chainhash.Hash{1, 2, 3},
		FundingOutpoint:        wire.OutPoint{Hash: chainhash.Hash{9, 8, 7}, Index: 1},
		ShortChannelID:         lnwire.NewShortChanIDFromInt(vU64("scid")),
		IsPending:              vBool("isPending"),
		IsInitiator:            vBool("isInitiator"),
		FundingBroadcastHeight: vU32("fundingBroadcastHeight"),
		NumConfsRequired:       vU16("numConfsRequired"),
		ChannelFlags:           lnwire.FundingFlag(vU8("channelFlags")),
		IdentityPub:            c02CurvePoint(1),
		Capacity:               btcutil.Amount(vI64("capacity")),
		TotalMSatSent:          lnwire.MilliSatoshi(vU64("totalSent")),
		TotalMSatReceived:      lnwire.MilliSatoshi(vU64("totalReceived")),
		InitialLocalBalance:    lnwire.MilliSatoshi(vU64("initialLocal")),
		InitialRemoteBalance:   lnwire.MilliSatoshi(vU64("initialRemote")),
		ConfirmationHeight:     vU32("confirmationHeight"),
		ThawHeight:             vU32("thawHeight"),
		LastWasRevoke:          false,
		RevocationKeyLocator:   keychain.KeyLocator{Family: keychain.KeyFamily(vU32("revLocFamily")), Index: vU32("revLocIndex")},
		LocalChanCfg:           c02Cfg("local"),
		RemoteChanCfg:          c02Cfg("remote"),
		Db:                     w.cdb,
	}
	ch.SetChannelStatusForStore(status)
	ch.SetConfirmedScidForStore(lnwire.NewShortChanIDFromInt(vU64("confirmedScid")))
	if c02Choice("extras", 2) == 1 {
		ch.Memo = vBytes("memo", 3)
		ch.CustomBlob = fn.Some[tlv.Blob](vBytes("chanCustomBlob", 2))
		ch.LocalShutdownScript = lnwire.DeliveryAddress(vBytes("localShutdown", 3))
	}
	if ch.ChanType.HasFundingTx() {
		// present on disk only for the initiator (fundingTxPresent)
		ch.FundingTxn = c02Tx(1)
	}
	ch.LocalCommitment = *c02Commit(maxHtlcs)
	if _, pinned := c02Pins["commitShape"]; !pinned && !c02DeepCommit {
		// the remote commitment takes the other shape
		c02Pins = map[string]int{"commitShape": 1 - c02LastShape}
		ch.RemoteCommitment = *c02Commit(0)
		c02Pins = nil
	} else {
		ch.RemoteCommitment = *c02Commit(0)
	}

	// revocation state: symbolic root, one symbolic bucket in the secret store
	w.raw = append([]byte{1}, vBytes("bucketIndex", 8)...)
	w.raw = append(w.raw, vBytes("bucketHash", 32)...)
	w.raw = append(w.raw, vBytes("storeIndex", 8)...)
	store, err := shachain.NewRevocationStoreFromBytes(bytes.NewReader(w.raw))
	vAssert(err == nil, "reload: the secret store is built")
	w.root = vBytes("producerRoot", 32)
	prod, err := shachain.NewRevocationProducerFromBytes(w.root)
	vAssert(err == nil, "reload: the producer is built")
	ch.RevocationProducer, ch.RevocationStore = prod, store
	ch.RemoteCurrentRevocation, ch.RemoteNextRevocation = c02CurvePoint(0), c02CurvePoint(1)

	// bucket path of the channel: open-chan-bucket / peer / chain / outpoint
	var kb bytes.Buffer
	vAssert(graphdb.WriteOutpoint(&kb, &ch.FundingOutpoint) == nil, "reload: outpoint key")
	w.bkt = w.db.top.mk(openChannelBucket).mk(ch.IdentityPub.SerializeCompressed()).mk(ch.ChainHash[:]).mk(kb.Bytes())
	w.ch = ch
	return w
}

// c02AssertStatic: everything fetchOpenChannel reads besides the two
// commitments and LastWasRevoke equals the original.
func c02AssertStatic(g, c *OpenChannel, w *c02World) {
	vAssert(g.ChanType == c.ChanType && g.ChainHash == c.ChainHash && g.FundingOutpoint == c.FundingOutpoint, "reload: type, chain, outpoint")
	vAssert(g.ShortChannelID == c.ShortChannelID, "reload: ShortChannelID")
	vAssert(g.IsPending == c.IsPending && g.IsInitiator == c.IsInitiator, "reload: IsPending, IsInitiator")
	vAssert(g.ChannelStatusForStore() == c.ChannelStatusForStore(), "reload: channel status")
	vAssert(g.FundingBroadcastHeight == c.FundingBroadcastHeight && g.NumConfsRequired == c.NumConfsRequired &&
		g.ChannelFlags == c.ChannelFlags, "reload: broadcast height, confs, flags")
	vAssert(g.IdentityPub != nil && g.IdentityPub.IsEqual(c.IdentityPub), "reload: IdentityPub")
	vAssert(g.Capacity == c.Capacity && g.TotalMSatSent == c.TotalMSatSent && g.TotalMSatReceived == c.TotalMSatReceived, "reload: capacity and totals")
	vAssert(g.InitialLocalBalance == c.InitialLocalBalance && g.InitialRemoteBalance == c.InitialRemoteBalance, "reload: initial balances")
	vAssert(g.ConfirmationHeight == c.ConfirmationHeight && g.ConfirmedScidForStore() == c.ConfirmedScidForStore(), "reload: confirmation height and scid")
	vAssert(g.RevocationKeyLocator == c.RevocationKeyLocator, "reload: RevocationKeyLocator")
	vAssert(c02CfgEq(&g.LocalChanCfg, &c.LocalChanCfg), "reload: LocalChanCfg")
	vAssert(c02CfgEq(&g.RemoteChanCfg, &c.RemoteChanCfg), "reload: RemoteChanCfg")
	vAssert(bytes.Equal(g.Memo, c.Memo), "reload: Memo")
	vAssert(g.CustomBlob.IsSome() == c.CustomBlob.IsSome() && bytes.Equal(g.CustomBlob.UnwrapOr(nil), c.CustomBlob.UnwrapOr(nil)), "reload: channel CustomBlob")
	vAssert(bytes.Equal(g.LocalShutdownScript, c.LocalShutdownScript) && len(g.RemoteShutdownScript) == 0, "reload: shutdown scripts")
	if c.ChanType.HasLeaseExpiration() {
		vAssert(g.ThawHeight == c.ThawHeight, "reload: ThawHeight")
	}
	if c.ChanType.HasFundingTx() && c.IsInitiator {
		vAssert(c02TxEq(g.FundingTxn, c.FundingTxn), "reload: FundingTxn")
	} else {
		vAssert(g.FundingTxn == nil, "reload: no FundingTxn")
	}
	vAssert(g.RemoteCurrentRevocation != nil && g.RemoteCurrentRevocation.IsEqual(c.RemoteCurrentRevocation), "reload: RemoteCurrentRevocation")
	vAssert(g.RemoteNextRevocation != nil && g.RemoteNextRevocation.IsEqual(c.RemoteNextRevocation), "reload: RemoteNextRevocation")
	vAssert(g.RevocationProducer != nil && g.RevocationStore != nil, "reload: producer and store present")
	if g.RevocationProducer != nil && g.RevocationStore != nil {
		var pb, sb bytes.Buffer
		vAssert(g.RevocationProducer.Encode(&pb) == nil && bytes.Equal(pb.Bytes(), w.root), "reload: producer root")
		vAssert(g.RevocationStore.Encode(&sb) == nil && bytes.Equal(sb.Bytes(), w.raw), "reload: secret store")
	}
}

// ---------------------------------------------------------------------------
// entries
// ---------------------------------------------------------------------------

// VerifC02Reload: fetchOpenChannel(putOpenChannel(x)) == x.
func c02Reload(maxHtlcs int) {
	c02Mode(false, false, false)
	// status word: default, or a few flags set. Not a restored (SCB) channel -
	// those carry no commitments at all.
	status := ChanStatusDefault
	if vChoice("statusShape", 2) == 1 {
		status = ChanStatusBorked | ChanStatusLocalDataLoss | ChanStatusRemoteCloseInitiator
	}
	w := c02Channel(status, maxHtlcs)
	w.db.failAt = -1
	vAssert(putOpenChannel(w.bkt, w.ch) == nil, "reload: putOpenChannel succeeds")
	g, err := fetchOpenChannel(w.bkt, &w.ch.FundingOutpoint)
	vAssert(err == nil && g != nil, "reload: fetchOpenChannel of what was written succeeds")
	if err != nil || g == nil {
		return
	}
	c02AssertStatic(g, w.ch, w)
	c02AssertCommit(&g.LocalCommitment, &w.ch.LocalCommitment)
	c02AssertCommit(&g.RemoteCommitment, &w.ch.RemoteCommitment)
	vAssert(!g.LastWasRevoke, "reload: LastWasRevoke defaults to false")
	if w.ch.IsInitiator && w.ch.ChanType.HasFundingTx() {
		vReach("reload-funding-tx")
	}
	if w.ch.ChanType.HasLeaseExpiration() {
		vReach("reload-lease")
	}
	if len(w.ch.Memo) > 0 {
		vReach("reload-extras")
	}
}

func VerifC02Reload() { c02Reload(1) }

// c02NumPutsUpdate: UpdateChannelCommitment issues at most this many Puts.
const c02NumPutsUpdate = 7

// VerifC02UpdateReload: the real UpdateChannelCommitment, then a reload.
func c02UpdateReload(maxUpd int, deep bool) {
	c02Mode(false, false, false)
	// the k-th Put of the transaction fails (k == c02NumPutsUpdate: none
	// does). Quick: the success class runs every shape of (new commitment,
	// acked updates, pending removals) on a channel whose static shape is tied
	// to them; each failure position runs one rich shape. Thorough: the product.
	k := vChoice("failPut", c02NumPutsUpdate+1)
	if !deep {
		c02Pins = map[string]int{"chanType": k % len(c02ChanTypes), "extras": k % 2, "commitShape": 0}
		if k < c02NumPutsUpdate {
			c02Pins["nPendingLocal"], c02Pins["pendKind"] = 1, k%3
		}
	}
	w := c02Channel(ChanStatusDefault, 0)
	vAssert(putOpenChannel(w.bkt, w.ch) == nil, "update: putOpenChannel succeeds")

	// previously stored: our removals the peer still has to sign for
	// (AdvanceCommitChainTail writes them), 0 or 1 of them
	var pending []LogUpdate
	if c02Choice("nPendingLocal", 2) == 1 {
		pending = []LogUpdate{{LogIndex: vU64("pendLogIndex"), UpdateMsg: c02Update(c02KindFulfill+c02Choice("pendKind", 3), 0)}}
		var pb bytes.Buffer
		vAssert(serializeLogUpdates(&pb, pending) == nil, "update: pending updates are encoded")
		vAssert(w.bkt.Put(remoteUnsignedLocalUpdatesKey, pb.Bytes()) == nil, "update: pending updates are stored")
	}
	old := w.ch.LocalCommitment

	if !deep {
		delete(c02Pins, "commitShape")
		if k < c02NumPutsUpdate {
			c02Pins["commitShape"], c02Pins["nUpdates"], c02Pins["updKind"] = 1, 2, k%c02NumKinds
		}
	}
	newC := c02Commit(c02Tied)
	upds := c02Updates(maxUpd)
	w.db.puts, w.db.failAt = 0, k
	final, err := w.cdb.UpdateChannelCommitment(w.ch, newC, upds)
	w.db.failAt = -1

	g, rerr := fetchOpenChannel(w.bkt, &w.ch.FundingOutpoint)
	vAssert(rerr == nil && g != nil, "update: the channel reloads after the call, whatever its outcome")
	if rerr != nil || g == nil {
		return
	}
	c02AssertStatic(g, w.ch, w)
	c02AssertCommit(&g.RemoteCommitment, &w.ch.RemoteCommitment)
	acked, aerr := w.cdb.UnsignedAckedUpdates(w.ch)
	vAssert(aerr == nil, "update: UnsignedAckedUpdates reads back")
	left, lerr := w.cdb.RemoteUnsignedLocalUpdates(w.ch)
	vAssert(lerr == nil, "update: RemoteUnsignedLocalUpdates reads back")
	if err != nil {
		// refused: a reload sees the previous state
		vAssert(final == nil, "update: no resolutions are reported for a failed write")
		c02AssertCommit(&g.LocalCommitment, &old)
		vAssert(!g.LastWasRevoke, "update: LastWasRevoke unchanged after a failed write")
		vAssert(len(acked) == 0, "update: no unsigned-acked updates appear after a failed write")
		c02AssertUpdates(left, pending)
		vAssert(w.db.puts > k, "update: the error comes from the failed Put")
		vReach("update-failed")
		return
	}
	vAssert(w.db.puts <= k, "update: success means no Put failed")
	c02AssertCommit(&g.LocalCommitment, newC)
	vAssert(g.LastWasRevoke, "update: a reload knows the last message was a revocation")
	c02AssertUpdates(acked, upds)
	// our pending removals: those the new local commitment covers are final
	// now (and reported), the others stay stored
	var wantLeft []LogUpdate
	for _, u := range pending {
		if u.LogIndex >= newC.LocalLogIndex {
			wantLeft = append(wantLeft, u)
		}
	}
	c02AssertUpdates(left, wantLeft)
	vAssert(len(final) == len(pending)-len(wantLeft), "update: one reported resolution per removal that became final")
	if len(pending) == 1 && len(wantLeft) == 0 {
		id, settled := c02RemovalID(pending[0].UpdateMsg)
		got, ok := final[id]
		vAssert(ok && got == settled, "update: the reported resolution names the HTLC and whether it was settled")
		vReach("update-final-htlc")
	}
	vReach("update-ok")
	if len(upds) == 2 {
		vReach("update-two-acked")
	}
}

func c02RemovalID(m lnwire.Message) (uint64, bool) {
	switch x := m.(type) {
	case *lnwire.UpdateFulfillHTLC:
		return x.ID, true
	case *lnwire.UpdateFailHTLC:
		return x.ID, false
	case *lnwire.UpdateFailMalformedHTLC:
		return x.ID, false
	}
	return 0, false
}

func VerifC02UpdateReload()     { c02UpdateReload(2, false) }
func VerifC02UpdateReloadDeep() { c02UpdateReload(2, true) }

// VerifC02AppendReload: the real AppendRemoteCommitChain, then
// RemoteCommitChainTip and a reload.
func c02AppendReload(maxUpd int, deep bool) {
	c02Mode(false, false, false)
	wasRevoke := vChoice("wasRevoke", 2)
	k := vChoice("failPut", 3) // Puts: lastWasRevoke, commitDiff; 2 = none fails
	if !deep {
		c02Pins = map[string]int{"chanType": (wasRevoke + k) % len(c02ChanTypes), "extras": wasRevoke, "commitShape": 0}
	}
	w := c02Channel(ChanStatusDefault, 0)
	delete(c02Pins, "commitShape")
	vAssert(putOpenChannel(w.bkt, w.ch) == nil, "append: putOpenChannel succeeds")
	// lastWasRevoke may be set from an earlier revocation
	if wasRevoke == 1 {
		var b bytes.Buffer
		vAssert(WriteElements(&b, true) == nil && w.bkt.Put(lastWasRevokeKey, b.Bytes()) == nil, "append: lastWasRevoke stored")
	}
	none, err := w.cdb.RemoteCommitChainTip(w.ch)
	vAssert(none == nil && err == ErrNoPendingCommit, "append: no pending commitment before")

	diff := &CommitDiff{Commitment: *c02Commit(c02Tied)}
	cs := &lnwire.CommitSig{ChanID: c02ChanID("sigChanID"), CommitSig: c02Sig("sigCommitSig")}
	if len(diff.Commitment.Htlcs) == 1 {
		cs.HtlcSigs = []lnwire.Sig{c02Sig("sigHtlcSig")}
	}
	diff.CommitSig = cs
	diff.LogUpdates = c02Updates(maxUpd)
	diff.OpenedCircuitKeys = c02Keys("opened", len(diff.LogUpdates))

	w.db.puts, w.db.failAt = 0, k
	err = w.cdb.AppendRemoteCommitChain(w.ch, diff)
	w.db.failAt = -1

	tip, terr := w.cdb.RemoteCommitChainTip(w.ch)
	if err != nil {
		vAssert(tip == nil && terr == ErrNoPendingCommit, "append: a failed write leaves no pending commitment")
		vReach("append-failed")
		return
	}
	vAssert(terr == nil && tip != nil, "append: the pending commitment reads back")
	if terr != nil || tip == nil {
		return
	}
	c02AssertCommit(&tip.Commitment, &diff.Commitment)
	vAssert(tip.CommitSig != nil && tip.CommitSig.ChanID == cs.ChanID && c02SigEq(tip.CommitSig.CommitSig, cs.CommitSig) &&
		len(tip.CommitSig.HtlcSigs) == len(cs.HtlcSigs), "append: CommitSig reads back")
	c02AssertUpdates(tip.LogUpdates, diff.LogUpdates)
	vAssert(c02KeysEq(tip.OpenedCircuitKeys, diff.OpenedCircuitKeys) && len(tip.ClosedCircuitKeys) == 0, "append: circuit keys read back")
	g, rerr := fetchOpenChannel(w.bkt, &w.ch.FundingOutpoint)
	vAssert(rerr == nil && g != nil, "append: the channel reloads")
	if rerr != nil || g == nil {
		return
	}
	vAssert(!g.LastWasRevoke, "append: a reload knows the last message was a signature")
	c02AssertCommit(&g.LocalCommitment, &w.ch.LocalCommitment)
	c02AssertCommit(&g.RemoteCommitment, &w.ch.RemoteCommitment)
	vReach("append-ok")
}

func VerifC02AppendReload()     { c02AppendReload(2, false) }
func VerifC02AppendReloadDeep() { c02AppendReload(2, true) }
