package channeldb

// Harness for C02, part K3b: what AdvanceCommitChainTail leaves under
// unsignedAckedUpdatesKey / remoteUnsignedLocalUpdatesKey.
//
// Unit executed symbolically (real lnd code):
//   (*ChannelStateDB).AdvanceCommitChainTail as a whole (fetchChanBucketRw,
//   isChannelBorked -> fetchOpenChannel, putChanRevocationState,
//   deserializeCommitDiff, putChanCommitment, putRevocationLog,
//   (*ChannelPackager).AddFwdPkg, deserializeLogUpdates / serializeLogUpdates
//   and the filter between them), then the readers a reload uses:
//   UnsignedAckedUpdates, RemoteUnsignedLocalUpdates, RemoteCommitChainTip,
//   fetchOpenChannel; set up by putOpenChannel, serializeCommitDiff,
//   serializeLogUpdates.
//
// Fake: c02fDB, an in-memory kvdb.Backend (nested buckets; Get / Put /
// Delete / CreateBucketIfNotExists / CreateTopLevelBucket / View / Update;
// every other method dereferences the nil embedded interface = panic
// obligation). No failure injection: atomicity is assumed (spec "outside").
//
// Symbolic: the log index of every stored unsigned-acked update (<= 2, any
// kind, every payload field), the index into the peer's log that the pending
// commitment covers (RemoteLogIndex), its height and other indexes, the local
// updates handed over. Concrete: the rest of the channel.
//
// Oracle (from the meaning of the key, lnwallet.getUnsignedAckedUpdates: "remote
// updates that we have acked but not yet signed for"): once the pending
// commitment - which covers the peer's updates below RemoteLogIndex - is the
// remote tail, exactly the stored updates with index >= RemoteLogIndex are
// still unsigned, in their order.

import (
	"bytes"

	"github.com/btcsuite/btcd/chainhash/v2"
	"github.com/btcsuite/btcd/wire/v2"
	graphdb "github.com/lightningnetwork/lnd/graph/db"
	"github.com/lightningnetwork/lnd/kvdb"
	"github.com/lightningnetwork/lnd/lnwire"
	"github.com/lightningnetwork/lnd/shachain"
)

type c02fNode struct {
	kvdb.RwBucket
	keys, vals [][]byte
	subKeys    [][]byte
	subs       []*c02fNode
}

func (n *c02fNode) Get(k []byte) []byte {
	for i := range n.keys {
		if bytes.Equal(n.keys[i], k) {
			return n.vals[i]
		}
	}
	return nil
}

func (n *c02fNode) Put(k, v []byte) error {
	for i := range n.keys {
		if bytes.Equal(n.keys[i], k) {
			n.vals[i] = c02Clone(v)
			return nil
		}
	}
	n.keys = append(n.keys, c02Clone(k))
	n.vals = append(n.vals, c02Clone(v))
	return nil
}

func (n *c02fNode) Delete(k []byte) error {
	for i := range n.keys {
		if bytes.Equal(n.keys[i], k) {
			n.keys = append(n.keys[:i:i], n.keys[i+1:]...)
			n.vals = append(n.vals[:i:i], n.vals[i+1:]...)
			return nil
		}
	}
	return nil
}

func (n *c02fNode) sub(k []byte) *c02fNode {
	for i := range n.subKeys {
		if bytes.Equal(n.subKeys[i], k) {
			return n.subs[i]
		}
	}
	return nil
}

func (n *c02fNode) mk(k []byte) *c02fNode {
	if s := n.sub(k); s != nil {
		return s
	}
	s := &c02fNode{}
	n.subKeys = append(n.subKeys, c02Clone(k))
	n.subs = append(n.subs, s)
	return s
}

func (n *c02fNode) NestedReadBucket(k []byte) kvdb.RBucket {
	if s := n.sub(k); s != nil {
		return s
	}
	return nil
}

func (n *c02fNode) NestedReadWriteBucket(k []byte) kvdb.RwBucket {
	if s := n.sub(k); s != nil {
		return s
	}
	return nil
}

func (n *c02fNode) CreateBucketIfNotExists(k []byte) (kvdb.RwBucket, error) {
	return n.mk(k), nil
}

type c02fDB struct {
	kvdb.Backend
	top *c02fNode // top-level buckets are the sub-buckets of this node
}

type c02fTx struct {
	kvdb.RwTx
	db *c02fDB
}

func (t *c02fTx) ReadBucket(k []byte) kvdb.RBucket {
	if s := t.db.top.sub(k); s != nil {
		return s
	}
	return nil
}

func (t *c02fTx) ReadWriteBucket(k []byte) kvdb.RwBucket {
	if s := t.db.top.sub(k); s != nil {
		return s
	}
	return nil
}

func (t *c02fTx) CreateTopLevelBucket(k []byte) (kvdb.RwBucket, error) {
	return t.db.top.mk(k), nil
}

func (d *c02fDB) View(f func(tx kvdb.RTx) error, reset func()) error {
	reset()
	return f(&c02fTx{db: d})
}

func (d *c02fDB) Update(f func(tx kvdb.RwTx) error, reset func()) error {
	reset()
	return f(&c02fTx{db: d})
}

func c02fKindOf(m lnwire.Message) int {
	switch m.(type) {
	case *lnwire.UpdateAddHTLC:
		return c02KindAdd
	case *lnwire.UpdateFulfillHTLC:
		return c02KindFulfill
	case *lnwire.UpdateFailHTLC:
		return c02KindFail
	case *lnwire.UpdateFailMalformedHTLC:
		return c02KindMalformed
	}
	return c02KindFee
}

// fresh: 0 = every case except the one of the CANDIDATE FINDING (NOTES.md);
// 1 = only that case: nothing stored under unsignedAckedUpdatesKey (we have
// never revoked on this channel) and a local update awaits the peer's signature.
func c02fTailFilter(maxUpd int, deep bool, fresh int) {
	// quick: 11 kind sequences of the stored updates; thorough: all 31
	c02Mode(false, false, false)
	c02AllPairs = deep
	db := &c02fDB{top: &c02fNode{}}
	cdb := &ChannelStateDB{backend: db, parent: &DB{}}

	store, err := shachain.NewRevocationStoreFromBytes(bytes.NewReader(make([]byte, 1+8)))
	vAssert(err == nil, "filter: the secret store is built")
	prod, err := shachain.NewRevocationProducerFromBytes(make([]byte, 32))
	vAssert(err == nil, "filter: the producer is built")

	r := vU64("remoteHeight")
	// 48-bit commitment numbers
	vAssume(r < 1<<48)
	tx := func(lock uint32) *wire.MsgTx {
		return &wire.MsgTx{Version: 2, LockTime: lock,
			TxIn:  []*wire.TxIn{{Sequence: 7}},
			TxOut: []*wire.TxOut{{Value: 1000, PkScript: []byte{0x51}}}}
	}
	ch := &OpenChannel{
		ChanType:                SingleFunderTweaklessBit | AnchorOutputsBit | ZeroHtlcTxFeeBit | NoFundingTxBit,
		ChainHash:               chainhash.Hash{1, 2, 3},
		FundingOutpoint:         wire.OutPoint{Hash: chainhash.Hash{9, 8, 7}, Index: 1},
		ShortChannelID:          lnwire.NewShortChanIDFromInt(0x0102030405060708),
		IdentityPub:             c02CurvePoint(1),
		RevocationProducer:      prod,
		RevocationStore:         store,
		RemoteCurrentRevocation: c02CurvePoint(0),
		RemoteNextRevocation:    c02CurvePoint(1),
		LocalCommitment:         ChannelCommitment{CommitHeight: vU64("localHeight"), CommitTx: tx(1), CommitSig: []byte{1}},
		RemoteCommitment: ChannelCommitment{CommitHeight: r, RemoteLogIndex: vU64("oldRemoteLogIndex"),
			LocalLogIndex: vU64("oldLocalLogIndex"), CommitTx: tx(2), CommitSig: []byte{2}},
		Db: cdb,
	}
	var kb bytes.Buffer
	vAssert(graphdb.WriteOutpoint(&kb, &ch.FundingOutpoint) == nil, "filter: outpoint key")
	bkt := db.top.mk(openChannelBucket).mk(ch.IdentityPub.SerializeCompressed()).mk(ch.ChainHash[:]).mk(kb.Bytes())
	vAssert(putOpenChannel(bkt, ch) == nil, "filter: putOpenChannel succeeds")

	// the pending remote commitment (what AppendRemoteCommitChain stored)
	bound := vU64("newRemoteLogIndex")
	newRemote := ChannelCommitment{CommitHeight: r + 1, RemoteLogIndex: bound, LocalLogIndex: vU64("newLocalLogIndex"),
		RemoteHtlcIndex: vU64("newRemoteHtlcIndex"), LocalHtlcIndex: vU64("newLocalHtlcIndex"),
		LocalBalance: lnwire.MilliSatoshi(vU64("newLocalBalance")), RemoteBalance: lnwire.MilliSatoshi(vU64("newRemoteBalance")),
		CommitTx: tx(3), CommitSig: []byte{3}}
	diff := &CommitDiff{Commitment: newRemote, CommitSig: &lnwire.CommitSig{ChanID: c02ChanID("sigChanID"), CommitSig: c02Sig("sigCommitSig")}}
	var db2 bytes.Buffer
	vAssert(serializeCommitDiff(&db2, diff) == nil && bkt.Put(commitDiffKey, db2.Bytes()) == nil, "filter: the pending commitment is stored")

	// the unsigned-acked updates RevokeCurrentCommitment stored (absent on a
	// channel that never revoked: the upgrade branch of the unit)
	stored := fresh == 0 && vChoice("ackedStored", 2) == 1
	var acked []LogUpdate
	if stored {
		acked = c02Updates(maxUpd)
		var ab bytes.Buffer
		vAssert(serializeLogUpdates(&ab, acked) == nil && bkt.Put(unsignedAckedUpdatesKey, ab.Bytes()) == nil, "filter: the unsigned-acked updates are stored")
	}
	// our removals / fee update the peer still has to sign (<= 1)
	// (quick: all five shapes with no stored update, otherwise tied to the
	// stored ones; thorough: the product)
	var peer []LogUpdate
	ps := 0
	if fresh == 1 {
		ps = 1 + vChoice("peerKind", 4)
	} else if !stored {
		ps = 0 // see fresh
	} else if deep || len(acked) == 0 {
		ps = vChoice("peerShape", 5)
	} else {
		ps = (2*len(acked) + c02fKindOf(acked[0].UpdateMsg)) % 5
	}
	if ps > 0 {
		peer = []LogUpdate{{LogIndex: vU64("peerLogIndex"), UpdateMsg: c02Update(c02KindFulfill+ps-1, 0)}}
	}
	pkg := NewFwdPkg(ch.ShortChannelID, r+1, nil, nil)

	err = cdb.AdvanceCommitChainTail(ch, pkg, peer, 0, 1)
	vAssert(err == nil, "filter: AdvanceCommitChainTail succeeds")
	if err != nil {
		return
	}

	// what a reload reads
	got, gerr := cdb.UnsignedAckedUpdates(ch)
	vAssert(gerr == nil, "filter: UnsignedAckedUpdates reads back")
	var want []LogUpdate
	for _, u := range acked {
		if u.LogIndex >= bound {
			want = append(want, u)
		}
	}
	vAssert(len(got) == len(want), "filter: exactly the unsigned-acked updates the new remote tail does not cover survive (index >= its RemoteLogIndex)")
	if len(got) == len(want) {
		for i := range want {
			vAssert(got[i].LogIndex == want[i].LogIndex && c02MsgEq(got[i].UpdateMsg, want[i].UpdateMsg),
				"filter: a surviving unsigned-acked update is unchanged and in order")
		}
	}
	left, lerr := cdb.RemoteUnsignedLocalUpdates(ch)
	vAssert(lerr == nil, "filter: RemoteUnsignedLocalUpdates reads back")
	// our updates the peer still has to sign for were handed over to be
	// stored "in case we go down" (OpenChannel.AdvanceCommitChainTail)
	vAssert(len(left) == len(peer), "filter: the local updates awaiting the peer's signature are stored")
	c02AssertUpdates(left, peer)
	tip, terr := cdb.RemoteCommitChainTip(ch)
	vAssert(tip == nil && terr == ErrNoPendingCommit, "filter: the pending commitment is consumed")
	vAssert(ch.RemoteCommitment.CommitHeight == r+1 && ch.RemoteCommitment.RemoteLogIndex == bound &&
		ch.RemoteCommitment.LocalLogIndex == newRemote.LocalLogIndex, "filter: the in-memory remote commitment is the promoted one")
	g, rerr := fetchOpenChannel(bkt, &ch.FundingOutpoint)
	vAssert(rerr == nil && g != nil, "filter: the channel reloads")
	if rerr == nil && g != nil {
		vAssert(g.RemoteCommitment.CommitHeight == r+1 && g.RemoteCommitment.RemoteLogIndex == bound &&
			g.RemoteCommitment.LocalLogIndex == newRemote.LocalLogIndex &&
			g.RemoteCommitment.RemoteHtlcIndex == newRemote.RemoteHtlcIndex &&
			g.RemoteCommitment.LocalHtlcIndex == newRemote.LocalHtlcIndex &&
			g.RemoteCommitment.LocalBalance == newRemote.LocalBalance &&
			g.RemoteCommitment.RemoteBalance == newRemote.RemoteBalance, "filter: a reload reads the promoted remote commitment")
		vAssert(g.LocalCommitment.CommitHeight == ch.LocalCommitment.CommitHeight, "filter: the local commitment is untouched")
	}
	logB := bkt.sub(revocationLogBucket)
	vAssert(logB != nil && len(logB.keys) == 1, "filter: the revoked commitment entered the revocation log")

	if !stored {
		vReach("filter-upgrade")
		if len(peer) == 1 {
			vReach("filter-fresh-peer-update")
		}
		return
	}
	vReach("filter-done")
	if len(acked) == 2 && len(want) == 1 {
		vReach("filter-kept-one-of-two")
	}
	if len(acked) >= 1 && len(want) == len(acked) {
		vReach("filter-kept-all")
	}
	if len(acked) >= 1 && len(want) == 0 {
		vReach("filter-dropped-all")
	}
	if len(peer) == 1 {
		vReach("filter-peer-update")
	}
}

func VerifC02TailFilter()     { c02fTailFilter(2, false, 0) }
func VerifC02TailFilterDeep() { c02fTailFilter(2, true, 0) }

// VerifC02TailFilterFresh: the case of the CANDIDATE FINDING alone.
func VerifC02TailFilterFresh() { c02fTailFilter(0, false, 1) }

// ---------------------------------------------------------------------------
// the mirror filter: UpdateChannelCommitment (RevokeCurrentCommitment's write)
// ---------------------------------------------------------------------------

func c02fMkTx(lock uint32) *wire.MsgTx {
	return &wire.MsgTx{Version: 2, LockTime: lock,
		TxIn:  []*wire.TxIn{{Sequence: 7}},
		TxOut: []*wire.TxOut{{Value: 1000, PkScript: []byte{0x51}}}}
}

// c02fRevokeFilter: the real UpdateChannelCommitment. Stored before: <= 2 of
// our settle/fail/fee updates awaiting the peer's signature (any kinds, symbolic
// indexes). Handed over: the new local commitment (symbolic LocalLogIndex = how
// far into our log the peer's signature reaches) and <= 1 unsigned-acked update.
// Oracle: afterwards exactly the stored updates the new commitment does not
// cover (index >= LocalLogIndex) still await the peer's signature; the others
// are final and reported (settled / failed by HTLC id); the unsigned-acked
// updates and the commitment read back as handed over.
func c02fRevokeFilter(deep bool) {
	c02Mode(false, false, false)
	db := &c02fDB{top: &c02fNode{}}
	cdb := &ChannelStateDB{backend: db, parent: &DB{}}
	store, err := shachain.NewRevocationStoreFromBytes(bytes.NewReader(make([]byte, 1+8)))
	vAssert(err == nil, "revoke-filter: the secret store is built")
	prod, err := shachain.NewRevocationProducerFromBytes(make([]byte, 32))
	vAssert(err == nil, "revoke-filter: the producer is built")
	l := vU64("localHeight")
	vAssume(l < 1<<48) // 48-bit commitment numbers
	ch := &OpenChannel{
		ChanType:                SingleFunderTweaklessBit | AnchorOutputsBit | ZeroHtlcTxFeeBit | NoFundingTxBit,
		ChainHash:               chainhash.Hash{1, 2, 3},
		FundingOutpoint:         wire.OutPoint{Hash: chainhash.Hash{9, 8, 7}, Index: 1},
		ShortChannelID:          lnwire.NewShortChanIDFromInt(0x0102030405060708),
		IdentityPub:             c02CurvePoint(1),
		RevocationProducer:      prod,
		RevocationStore:         store,
		RemoteCurrentRevocation: c02CurvePoint(0),
		RemoteNextRevocation:    c02CurvePoint(1),
		LocalCommitment:         ChannelCommitment{CommitHeight: l, LocalLogIndex: vU64("oldLocalLogIndex"), CommitTx: c02fMkTx(1), CommitSig: []byte{1}},
		RemoteCommitment:        ChannelCommitment{CommitHeight: vU64("remoteHeight"), CommitTx: c02fMkTx(2), CommitSig: []byte{2}},
		Db:                      cdb,
	}
	var kb bytes.Buffer
	vAssert(graphdb.WriteOutpoint(&kb, &ch.FundingOutpoint) == nil, "revoke-filter: outpoint key")
	bkt := db.top.mk(openChannelBucket).mk(ch.IdentityPub.SerializeCompressed()).mk(ch.ChainHash[:]).mk(kb.Bytes())
	vAssert(putOpenChannel(bkt, ch) == nil, "revoke-filter: putOpenChannel succeeds")

	// stored by the last AdvanceCommitChainTail (absent before the first one)
	var peer []LogUpdate
	stored := vChoice("peerStored", 2) == 1
	if stored {
		n := vChoice("nPeer", 3)
		k := 0
		for i := 0; i < n; i++ {
			if i == 0 || deep {
				k = vChoice("peerKind", 4)
			} else {
				k = (k + 1) % 4
			}
			peer = append(peer, LogUpdate{LogIndex: vU64("peerLogIndex"), UpdateMsg: c02Update(c02KindFulfill+k, 0)})
		}
		var pb bytes.Buffer
		vAssert(serializeLogUpdates(&pb, peer) == nil && bkt.Put(remoteUnsignedLocalUpdatesKey, pb.Bytes()) == nil, "revoke-filter: the local updates awaiting a signature are stored")
	}
	bound := vU64("newLocalLogIndex")
	newLocal := &ChannelCommitment{CommitHeight: l + 1, LocalLogIndex: bound, RemoteLogIndex: vU64("newRemoteLogIndex"),
		LocalHtlcIndex: vU64("newLocalHtlcIndex"), RemoteHtlcIndex: vU64("newRemoteHtlcIndex"),
		LocalBalance: lnwire.MilliSatoshi(vU64("newLocalBalance")), RemoteBalance: lnwire.MilliSatoshi(vU64("newRemoteBalance")),
		CommitTx: c02fMkTx(3), CommitSig: []byte{3}}
	var acked []LogUpdate
	if ak := vChoice("ackedShape", 3); ak > 0 {
		acked = []LogUpdate{{LogIndex: vU64("ackedLogIndex"), UpdateMsg: c02Update([...]int{c02KindAdd, c02KindFail}[ak-1], 0)}}
	}
	// reference, from the pre-state
	var wantLeft []LogUpdate
	type fin struct {
		id      uint64
		settled bool
	}
	var wantFinal []fin
	for _, u := range peer {
		if u.LogIndex >= bound {
			wantLeft = append(wantLeft, u)
			continue
		}
		switch m := u.UpdateMsg.(type) {
		case *lnwire.UpdateFulfillHTLC:
			wantFinal = append(wantFinal, fin{m.ID, true})
		case *lnwire.UpdateFailHTLC:
			wantFinal = append(wantFinal, fin{m.ID, false})
		case *lnwire.UpdateFailMalformedHTLC:
			wantFinal = append(wantFinal, fin{m.ID, false})
		}
	}
	if len(wantFinal) == 2 {
		// distinct HTLCs (an Add has at most one removal)
		vAssume(wantFinal[0].id != wantFinal[1].id)
	}

	final, err := cdb.UpdateChannelCommitment(ch, newLocal, acked)
	vAssert(err == nil, "revoke-filter: UpdateChannelCommitment succeeds")
	if err != nil {
		return
	}
	left, lerr := cdb.RemoteUnsignedLocalUpdates(ch)
	vAssert(lerr == nil, "revoke-filter: RemoteUnsignedLocalUpdates reads back")
	vAssert(len(left) == len(wantLeft), "revoke-filter: exactly the local updates the new local commitment does not cover still await the peer's signature (index >= its LocalLogIndex)")
	if len(left) == len(wantLeft) {
		for i := range wantLeft {
			vAssert(left[i].LogIndex == wantLeft[i].LogIndex && c02MsgEq(left[i].UpdateMsg, wantLeft[i].UpdateMsg),
				"revoke-filter: a surviving local update is unchanged and in order")
		}
	}
	vAssert(len(final) == len(wantFinal), "revoke-filter: one reported resolution per settle/fail that became final")
	for _, f := range wantFinal {
		got, ok := final[f.id]
		vAssert(ok && got == f.settled, "revoke-filter: the reported resolution names the HTLC and whether it was settled")
	}
	gotAcked, aerr := cdb.UnsignedAckedUpdates(ch)
	vAssert(aerr == nil, "revoke-filter: UnsignedAckedUpdates reads back")
	c02AssertUpdates(gotAcked, acked)
	g, rerr := fetchOpenChannel(bkt, &ch.FundingOutpoint)
	vAssert(rerr == nil && g != nil, "revoke-filter: the channel reloads")
	if rerr == nil && g != nil {
		c := &g.LocalCommitment
		vAssert(c.CommitHeight == l+1 && c.LocalLogIndex == bound && c.RemoteLogIndex == newLocal.RemoteLogIndex &&
			c.LocalHtlcIndex == newLocal.LocalHtlcIndex && c.RemoteHtlcIndex == newLocal.RemoteHtlcIndex &&
			c.LocalBalance == newLocal.LocalBalance && c.RemoteBalance == newLocal.RemoteBalance, "revoke-filter: a reload reads the new local commitment")
		vAssert(g.LastWasRevoke, "revoke-filter: a reload knows the last message was a revocation")
	}
	vReach("revoke-filter-done")
	if len(peer) == 2 && len(wantLeft) == 1 {
		vReach("revoke-filter-kept-one-of-two")
	}
	if len(peer) >= 1 && len(wantLeft) == 0 {
		vReach("revoke-filter-all-final")
	}
	if len(wantFinal) >= 1 {
		vReach("revoke-filter-resolution")
	}
	if !stored {
		vReach("revoke-filter-nothing-stored")
	}
}

func VerifC02RevokeFilter()     { c02fRevokeFilter(false) }
func VerifC02RevokeFilterDeep() { c02fRevokeFilter(true) }
