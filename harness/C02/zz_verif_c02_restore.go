package lnwallet

// Harness for C02, part K3: restore classification.
//
// Units executed symbolically (real lnd code):
//   NewLightningChannel, (*LightningChannel).restoreCommitState,
//   diskCommitToMemCommit, extractPayDescs, diskHtlcToPayDesc,
//   restoreStateLogs, restorePendingLocalUpdates, restorePendingRemoteUpdates,
//   restorePeerLocalUpdates, logUpdateToPayDesc, localLogUpdateToPayDesc,
//   remoteLogUpdateToPayDesc, entryTypeForHtlc, the updateLog methods
//   (newUpdateLog, restoreHtlc, restoreUpdate, appendHtlc, appendUpdate,
//   lookupHtlc, markHtlcModified), commitmentChain;
//   producing the disk form: (*commitment).toDiskCommit, createCommitDiff,
//   getUnsignedAckedUpdates, unsignedLocalUpdates, toLogUpdate;
//   evaluating afterwards: fetchHTLCView, computeView, evaluateHTLCView,
//   fetchParent.
//
// A symbolic in-memory channel (struct literal) that satisfies the
// representation invariant of the logs is written to its disk form by the real
// code, a fresh channel is built from that disk form by the real
// NewLightningChannel, and the two are compared.
//
// Replaced under the symbolic engine only (keys and scripts are not part of the
// obligation; natively the real functions run on real secp256k1 keys):
// DeriveCommitmentKeys, genHtlcScript, createStateHintObfuscator,
// (*LightningChannel).createSignDesc, chanstate.DeriveMusig2Shachain,
// input.ComputeCommitmentPoint.
// Fake behind chanstate.Store: c02k3Store returns the disk form from
// RemoteCommitChainTip / UnsignedAckedUpdates / RemoteUnsignedLocalUpdates.

import (
	"bytes"

	"github.com/btcsuite/btcd/btcec/v2"
	"github.com/btcsuite/btcd/btcutil/v2"
	"github.com/btcsuite/btcd/wire/v2"
	"github.com/lightningnetwork/lnd/chanstate"
	"github.com/lightningnetwork/lnd/fn/v2"
	"github.com/lightningnetwork/lnd/input"
	"github.com/lightningnetwork/lnd/lntypes"
	"github.com/lightningnetwork/lnd/lnwallet/chainfee"
	"github.com/lightningnetwork/lnd/lnwire"
	"github.com/lightningnetwork/lnd/shachain"
)

// ---------------------------------------------------------------------------
// ideal keys / scripts (symbolic run only)
// ---------------------------------------------------------------------------

type c02k3Script struct{ b []byte }

func (s c02k3Script) PkScript() []byte            { return s.b }
func (s c02k3Script) WitnessScriptToSign() []byte { return s.b }
func (s c02k3Script) WitnessScriptForPath(input.ScriptPath) ([]byte, error) {
	return s.b, nil
}

func c02k3GenHtlcScript(chanstate.ChannelType, bool, lntypes.ChannelParty, uint32, [32]byte,
	*CommitmentKeyRing, input.AuxTapLeaf) (input.ScriptDescriptor, error) {

	return c02k3Script{b: []byte{0x51}}, nil
}

func c02k3DeriveKeys(commitPoint *btcec.PublicKey, _ lntypes.ChannelParty, _ chanstate.ChannelType,
	_, _ *chanstate.ChannelConfig) *CommitmentKeyRing {

	return &CommitmentKeyRing{CommitPoint: commitPoint}
}

func c02k3Obfuscator(*chanstate.OpenChannel) (r [StateHintSize]byte) { return r }
func c02k3SignDesc(*LightningChannel) error                          { return nil }
func c02k3Musig(shachain.Producer) (shachain.Producer, error)         { return nil, nil }

func c02k3Config() {
	c02Config()
	const me = "github.com/lightningnetwork/lnd/lnwallet."
	vReplace(me+"DeriveCommitmentKeys", me+"c02k3DeriveKeys")
	vReplace(me+"genHtlcScript", me+"c02k3GenHtlcScript")
	vReplace(me+"createStateHintObfuscator", me+"c02k3Obfuscator")
	vReplace("(*github.com/lightningnetwork/lnd/lnwallet.LightningChannel).createSignDesc", me+"c02k3SignDesc")
	vReplace("github.com/lightningnetwork/lnd/chanstate.DeriveMusig2Shachain", me+"c02k3Musig")
	vMerge(me + "c02k3Same")
	vMerge(me + "c02k3SameKey")
	vMerge(me + "c02k3SamePayload")
	vMerge(me + "c02k3SameHeights")
	vAssumption("C02-K3: commitment key rings, HTLC scripts, the state-hint obfuscator, the sign descriptor and the musig2 shachain are not computed symbolically (replaced by constants; they are not part of the obligation); natively the real functions run on real keys")
	vAssumption("C02-K3: representation invariant of the in-memory state assumed, not proven inductive: (I-idx) localTail.ourIdx <= remoteTail.ourIdx <= pending.ourIdx <= localLog.logIndex and remoteTail.theirIdx <= pending.theirIdx <= localTail.theirIdx <= remoteLog.logIndex; (I-h) an update's add/remove height on a chain is 0 iff its log index is not below the chain tip's message index, equals the pending height iff its index lies between the remote tail's and the pending commitment's index, otherwise lies in [1, tail height]; (I-par) a settle/fail refers to an Add of the other log that is irrevocably committed (below both tails' indexes), carries its amount and payment hash, and an Add has at most one removal; (I-c) a commitment holds exactly the Adds included and not yet removed at it and has the fee rate of the last update_fee it covers; (I-cnt) the updates of the pending commitment are contiguous from the remote tail's local index / HTLC counter; fee updates only in the opener's log; the local chain holds the tail only (state after a durable write); logs are in log-index order")
}

// c02k3Store: what the channel bucket holds besides the two commitments.
type c02k3Store struct {
	chanstate.Store
	diff  *chanstate.CommitDiff
	acked []chanstate.LogUpdate
	peer  []chanstate.LogUpdate
}

func (s *c02k3Store) RemoteCommitChainTip(*chanstate.OpenChannel) (*chanstate.CommitDiff, error) {
	if s.diff == nil {
		return nil, chanstate.ErrNoPendingCommit
	}
	return s.diff, nil
}
func (s *c02k3Store) UnsignedAckedUpdates(*chanstate.OpenChannel) ([]chanstate.LogUpdate, error) {
	return s.acked, nil
}
func (s *c02k3Store) RemoteUnsignedLocalUpdates(*chanstate.OpenChannel) ([]chanstate.LogUpdate, error) {
	return s.peer, nil
}

// ---------------------------------------------------------------------------
// scenario
// ---------------------------------------------------------------------------

// Zones of a log entry = which commitments cover it. For an entry of OUR log
// (index i; a0/a1/a2 = our-log index of local tail / remote tail / pending):
//
//	0: i < a0          on both tails
//	1: a0 <= i < a1    on the remote tail, the peer has not signed for it
//	2: a1 <= i < a2    only on the pending remote commitment
//	3: a2 <= i         never signed by us (lost by a crash)
//
// For an entry of THEIR log (index j; b0/b1/b2 = their-log index of remote
// tail / pending / local tail):
//
//	0: j < b0          on both tails
//	1: b0 <= j < b1    on our tail and on the pending remote commitment
//	2: b1 <= j < b2    on our tail only (acked, not signed by us)
//	3: b2 <= j         received, never covered by a signature of theirs
type c02k3Ent struct {
	kind, zone, parent int
	pd                 *paymentDescriptor
}

type c02k3Scn struct {
	pending   bool
	initiator bool
	L, R      uint64
	a, b      [4]uint64
	// HTLC counters: cT = remote tail's ourHtlcIndex, cP = pending's,
	// dL = local tail's theirHtlcIndex
	cT, cP, dL uint64
	ents       [2][]c02k3Ent // 0 = our log, 1 = their log
	chanID     lnwire.ChannelID
	op         wire.OutPoint
}

func c02k3IsRm(k int) bool { return k == c02KSettle || k == c02KFail || k == c02KMalformed }

// remover: zone of the removal of Add i of log q (in log 1-q), 9 if none.
func (s *c02k3Scn) remover(q, i int) int {
	for _, e := range s.ents[1-q] {
		if c02k3IsRm(e.kind) && e.parent == i {
			return e.zone
		}
	}
	return 9
}

// c02k3Valid: the concrete part of the representation invariant.
func (s *c02k3Scn) valid() bool {
	for q := 0; q < 2; q++ {
		for i, e := range s.ents[q] {
			if i > 0 && s.ents[q][i-1].zone > e.zone {
				return false // log index order
			}
			if e.kind == c02KFee && (q == 0) != s.initiator {
				return false // only the opener sends update_fee
			}
			if !s.pending && ((q == 0 && e.zone == 2) || (q == 1 && e.zone == 1)) {
				return false
			}
			if c02k3IsRm(e.kind) {
				if e.parent >= len(s.ents[1-q]) {
					return false
				}
				p := s.ents[1-q][e.parent]
				if p.kind != c02KAdd || p.zone != 0 {
					return false
				}
				for j := 0; j < i; j++ {
					if c02k3IsRm(s.ents[q][j].kind) && s.ents[q][j].parent == e.parent {
						return false
					}
				}
			} else if e.parent != 0 {
				return false
			}
		}
	}
	return true
}

func (s *c02k3Scn) hasFee() bool {
	for q := 0; q < 2; q++ {
		for _, e := range s.ents[q] {
			if e.kind == c02KFee {
				return true
			}
		}
	}
	return false
}

// c02k3Fill: symbolic contents under the representation invariant.
func c02k3Fill(s *c02k3Scn) {
	s.op = c02Outpoint()
	s.chanID = c02RefChanID(s.op)
	s.L, s.R = vU64("L"), vU64("R")
	// 48-bit commitment numbers (BOLT-3 obscured commitment number)
	vAssume(s.L < 1<<48 && s.R < 1<<48)
	for k := 0; k < 4; k++ {
		s.a[k], s.b[k] = vU64("a"), vU64("b")
		// log indexes count messages: far below 2^62 (no wrap of index+2)
		vAssume(s.a[k] < 1<<62 && s.b[k] < 1<<62)
	}
	var nZ2, nZ2Adds uint64
	for _, e := range s.ents[0] {
		if e.zone == 2 {
			nZ2++
			if e.kind == c02KAdd {
				nZ2Adds++
			}
		}
	}
	vAssume(s.a[0] <= s.a[1])
	// (I-cnt) the pending commitment covers exactly the updates after the tail
	s.a[2] = s.a[1] + nZ2
	vAssume(s.a[2] <= s.a[3])
	vAssume(s.b[0] <= s.b[1] && s.b[1] <= s.b[2] && s.b[2] <= s.b[3])
	if !s.pending {
		s.b[1] = s.b[0]
	}
	s.cT, s.dL = vU64("cT"), vU64("dL")
	vAssume(s.cT < 1<<62 && s.dL < 1<<62)
	s.cP = s.cT + nZ2Adds

	var seenZ2, seenZ2Adds uint64
	for q := 0; q < 2; q++ {
		var lastIdx, lastHtlc *uint64
		for i := range s.ents[q] {
			e := &s.ents[q][i]
			idx := vU64("idx")
			vAssume(idx < 1<<62)
			if lastIdx != nil {
				vAssume(*lastIdx < idx)
			}
			pd := c02LogEntry(e.kind, s.chanID, idx)
			lastIdx = &pd.LogIndex
			// zone <-> index
			lo, hi := s.a, s.b
			if q == 1 {
				lo = s.b
			}
			_ = hi
			switch e.zone {
			case 0:
				vAssume(idx < lo[0])
			case 1:
				vAssume(lo[0] <= idx && idx < lo[1])
			case 2:
				vAssume(lo[1] <= idx && idx < lo[2])
			case 3:
				vAssume(lo[2] <= idx && idx < lo[3])
			}
			if q == 0 && e.zone == 2 {
				vAssume(idx == s.a[1]+seenZ2) // (I-cnt)
				seenZ2++
			}
			// (I-h) heights from the zone. ourChain/theirChain height of
			// the update.
			var hL, hR uint64
			if q == 0 {
				if e.zone == 0 {
					hL = vU64("hL")
					vAssume(1 <= hL && hL <= s.L)
				}
				if e.zone <= 1 {
					hR = vU64("hR")
					vAssume(1 <= hR && hR <= s.R)
				} else if e.zone == 2 {
					hR = s.R + 1
				}
			} else {
				if e.zone <= 2 {
					hL = vU64("hL")
					vAssume(1 <= hL && hL <= s.L)
				}
				if e.zone == 0 {
					hR = vU64("hR")
					vAssume(1 <= hR && hR <= s.R)
				} else if e.zone == 1 {
					hR = s.R + 1
				}
			}
			h := lntypes.Dual[uint64]{Local: hL, Remote: hR}
			switch {
			case e.kind == c02KAdd:
				pd.addCommitHeights = h
				pd.HtlcIndex = vU64("htlcIdx")
				vAssume(pd.HtlcIndex < 1<<62)
				if lastHtlc != nil {
					vAssume(*lastHtlc < pd.HtlcIndex)
				}
				lastHtlc = &pd.HtlcIndex
				if q == 0 {
					switch {
					case e.zone <= 1:
						vAssume(pd.HtlcIndex < s.cT)
					case e.zone == 2:
						vAssume(pd.HtlcIndex == s.cT+seenZ2Adds) // (I-cnt)
						seenZ2Adds++
					default:
						vAssume(pd.HtlcIndex >= s.cP)
					}
				} else {
					if e.zone <= 2 {
						vAssume(pd.HtlcIndex < s.dL)
					} else {
						vAssume(pd.HtlcIndex >= s.dL)
					}
				}
			case e.kind == c02KFee:
				pd.addCommitHeights, pd.removeCommitHeights = h, h
			default:
				pd.removeCommitHeights = h
			}
			e.pd = pd
		}
	}
	// (I-par) removals name their parent and carry its amount and hash
	for q := 0; q < 2; q++ {
		for i := range s.ents[q] {
			e := &s.ents[q][i]
			if c02k3IsRm(e.kind) {
				p := s.ents[1-q][e.parent].pd
				e.pd.ParentIndex, e.pd.Amount, e.pd.RHash = p.HtlcIndex, p.Amount, p.RHash
			}
		}
	}
}

// c02k3Commit: an in-memory commitment with symbolic balances that holds the
// given Adds (copies, as fetchCommitmentView makes them).
func c02k3Commit(name string, height uint64, who lntypes.ChannelParty, ourIdx, theirIdx, ourHtlc, theirHtlc uint64,
	out, in []*paymentDescriptor) *commitment {

	c := &commitment{
		height:         height,
		whoseCommit:    who,
		messageIndices: lntypes.Dual[uint64]{Local: ourIdx, Remote: theirIdx},
		ourHtlcIndex:   ourHtlc,
		theirHtlcIndex: theirHtlc,
		txn:            &wire.MsgTx{Version: 2},
		sig:            vBytes(name+"Sig", 2),
		ourBalance:     lnwire.MilliSatoshi(vU64(name + "OurBalance")),
		theirBalance:   lnwire.MilliSatoshi(vU64(name + "TheirBalance")),
		fee:            btcutil.Amount(vU32(name + "Fee")),
		feePerKw:       chainfee.SatPerKWeight(vU32(name + "FeePerKw")),
	}
	for _, pd := range out {
		h := *pd
		h.localOutputIndex, h.remoteOutputIndex = vI32(name+"OutIdx"), vI32(name+"OutIdx")
		c.outgoingHTLCs = append(c.outgoingHTLCs, h)
	}
	for _, pd := range in {
		h := *pd
		h.localOutputIndex, h.remoteOutputIndex = vI32(name+"OutIdx"), vI32(name+"OutIdx")
		c.incomingHTLCs = append(c.incomingHTLCs, h)
	}
	return c
}

type c02k3World struct {
	s            *c02k3Scn
	orig         *LightningChannel
	lT, rT, rP   *commitment
	store        *c02k3Store
	st2          *chanstate.OpenChannel
	ct           chanstate.ChannelType
	nextPt, curP *btcec.PublicKey
}

const c02k3ChanType = chanstate.SingleFunderTweaklessBit | chanstate.AnchorOutputsBit | chanstate.ZeroHtlcTxFeeBit

// c02k3Build: the in-memory channel before the crash and its disk form
// (computed by the real code).
func c02k3Build(s *c02k3Scn) *c02k3World {
	w := &c02k3World{s: s, ct: c02k3ChanType}
	// (I-c) which Adds each commitment holds
	var ltOut, ltIn, rtOut, rtIn, rpOut, rpIn []*paymentDescriptor
	for i, e := range s.ents[0] {
		if e.kind != c02KAdd {
			continue
		}
		y := s.remover(0, i)
		if e.zone == 0 && !(y <= 2) {
			ltOut = append(ltOut, e.pd)
		}
		if e.zone <= 1 && !(y == 0) {
			rtOut = append(rtOut, e.pd)
		}
		if e.zone <= 2 && !(y <= 1) {
			rpOut = append(rpOut, e.pd)
		}
	}
	for i, e := range s.ents[1] {
		if e.kind != c02KAdd {
			continue
		}
		z := s.remover(1, i)
		if e.zone <= 2 && !(z == 0) {
			ltIn = append(ltIn, e.pd)
		}
		if e.zone == 0 && !(z <= 1) {
			rtIn = append(rtIn, e.pd)
		}
		if e.zone <= 1 && !(z <= 2) {
			rpIn = append(rpIn, e.pd)
		}
	}
	// (I-c) fee rate of a commitment = the last update_fee it covers
	// (zone limits per commitment: our log / their log)
	feeOf := func(c *commitment, zOurs, zTheirs int) {
		q, zmax := 1, zTheirs
		if s.initiator {
			q, zmax = 0, zOurs
		}
		for _, e := range s.ents[q] {
			if e.kind == c02KFee && e.zone <= zmax {
				c.feePerKw = chainfee.SatPerKWeight(e.pd.Amount.ToSatoshis())
			}
		}
	}
	w.lT = c02k3Commit("lT", s.L, lntypes.Local, s.a[0], s.b[2], vU64("lTOurHtlc"), s.dL, ltOut, ltIn)
	w.rT = c02k3Commit("rT", s.R, lntypes.Remote, s.a[1], s.b[0], s.cT, vU64("rTTheirHtlc"), rtOut, rtIn)
	feeOf(w.lT, 0, 2)
	feeOf(w.rT, 1, 0)
	lch, rch := newCommitmentChain(), newCommitmentChain()
	lch.addCommitment(w.lT)
	rch.addCommitment(w.rT)
	if s.pending {
		w.rP = c02k3Commit("rP", s.R+1, lntypes.Remote, s.a[2], s.b[1], s.cP, vU64("rPTheirHtlc"), rpOut, rpIn)
		feeOf(w.rP, 2, 1)
		rch.addCommitment(w.rP)
	}

	logs := [2]*updateLog{newUpdateLog(s.a[3], vU64("localHtlcCounter")), newUpdateLog(s.b[3], vU64("remoteHtlcCounter"))}
	for q := 0; q < 2; q++ {
		for _, e := range s.ents[q] {
			if e.kind == c02KAdd {
				logs[q].restoreHtlc(e.pd)
			} else {
				logs[q].restoreUpdate(e.pd)
			}
		}
	}

	w.curP, w.nextPt = c02PoolPoint(0), c02PoolPoint(1)
	mkState := func() *chanstate.OpenChannel {
		st := &chanstate.OpenChannel{
			ChanType:                w.ct,
			IsInitiator:             s.initiator,
			FundingOutpoint:         s.op,
			RevocationProducer:      &c02Producer{chain: 1},
			RevocationStore:         &c02RevStore{},
			RemoteCurrentRevocation: w.curP,
			RemoteNextRevocation:    w.nextPt,
		}
		if vNative() {
			c02NativeKeys(st)
		}
		return st
	}
	st := mkState()
	w.orig = &LightningChannel{
		channelState:  st,
		currentHeight: s.L,
		commitChains:  lntypes.Dual[*commitmentChain]{Local: lch, Remote: rch},
		updateLogs:    lntypes.Dual[*updateLog]{Local: logs[0], Remote: logs[1]},
	}
	if vNative() {
		w.orig.log = walletLog
	}

	// ---- the disk form, by the real code ----
	w.store = &c02k3Store{}
	w.st2 = mkState()
	w.st2.Db = w.store
	w.st2.LocalCommitment = *w.lT.toDiskCommit(lntypes.Local)
	w.st2.RemoteCommitment = *w.rT.toDiskCommit(lntypes.Remote)
	if s.pending {
		diff, err := w.orig.createCommitDiff(w.rP, lnwire.Sig{}, nil, nil)
		vAssert(err == nil && diff != nil, "k3: createCommitDiff succeeds")
		w.store.diff = diff
	}
	// RevokeCurrentCommitment persists getUnsignedAckedUpdates(); every
	// later AdvanceCommitChainTail keeps those at or above the new remote
	// tail's index (VerifC02TailFilter): on disk is the list for the current
	// remote tail.
	w.store.acked = w.orig.getUnsignedAckedUpdates()
	// ReceiveRevocation persists unsignedLocalUpdates(new remote tail's index,
	// local tail's index); every later UpdateChannelCommitment keeps those at
	// or above the new local commitment's index.
	w.store.peer = w.orig.unsignedLocalUpdates(w.rT.messageIndices.Local, w.lT.messageIndices.Local)
	return w
}

// ---------------------------------------------------------------------------
// oracle
// ---------------------------------------------------------------------------

// c02k3SameCls: two heights are in the same class relative to a chain tail:
// 0 (not on the chain) / [1, tail] / tail+1 (the pending commitment) / beyond.
// lnd deliberately restores "the height of the tail even though the real
// height may be lower" (comments of remoteLogUpdateToPayDesc /
// localLogUpdateToPayDesc); every reader of these fields (evaluateHTLCView:
// == 0; createCommitDiff: == next height; ReceiveRevocation: == tail+1 and
// <= tail; compactLogs: <= tail) only distinguishes these classes.
func c02k3SameCls(h, g, tail uint64) bool {
	return (h == 0) == (g == 0) && (h <= tail) == (g <= tail) && (h == tail+1) == (g == tail+1)
}

func c02k3SameKey(o, g *paymentDescriptor) bool {
	return o.EntryType == g.EntryType && o.LogIndex == g.LogIndex && o.HtlcIndex == g.HtlcIndex &&
		o.ParentIndex == g.ParentIndex
}

func c02k3SamePayload(o, g *paymentDescriptor) bool {
	return c02k3SameKey(o, g) && o.ChanID == g.ChanID && o.Amount == g.Amount && o.RHash == g.RHash &&
		o.Timeout == g.Timeout && o.OnionBlob == g.OnionBlob && o.RPreimage == g.RPreimage &&
		bytes.Equal(o.FailReason, g.FailReason) && o.FailCode == g.FailCode && o.ShaOnionBlob == g.ShaOnionBlob
}

func c02k3SameHeights(o, g *paymentDescriptor, L, R uint64) bool {
	return c02k3SameKey(o, g) &&
		c02k3SameCls(o.addCommitHeights.Local, g.addCommitHeights.Local, L) &&
		c02k3SameCls(o.removeCommitHeights.Local, g.removeCommitHeights.Local, L) &&
		c02k3SameCls(o.addCommitHeights.Remote, g.addCommitHeights.Remote, R) &&
		c02k3SameCls(o.removeCommitHeights.Remote, g.removeCommitHeights.Remote, R)
}

func c02k3Same(o, g *paymentDescriptor, L, R uint64) bool {
	return c02k3SamePayload(o, g) && c02k3SameHeights(o, g, L, R)
}

func c02k3List(l *updateLog) (r []*paymentDescriptor) {
	for e := l.Front(); e != nil; e = e.Next() {
		r = append(r, e.Value)
	}
	return r
}

// live: is the update covered by a signature (ours on their commitment or
// theirs on ours) and not yet resolved on both tails?
func (s *c02k3Scn) live(q, i int) bool {
	e := s.ents[q][i]
	if e.zone == 3 {
		return false // never signed: dropped
	}
	if e.kind == c02KAdd {
		// an Add is gone once its removal is on both tails
		return s.remover(q, i) != 0
	}
	return e.zone != 0 // a removal / fee update on both tails is final
}

var c02k3LogName = [2]string{"our log", "their log"}
var c02Party = [2]lntypes.ChannelParty{lntypes.Local, lntypes.Remote}

// c02k3CheckLog: the restored log holds exactly the live updates.
func c02k3CheckLog(s *c02k3Scn, q int, got []*paymentDescriptor) {
	var want []*paymentDescriptor
	for i := range s.ents[q] {
		if s.live(q, i) {
			want = append(want, s.ents[q][i].pd)
		}
	}
	vAssert(len(got) == len(want), "k3: "+c02k3LogName[q]+" holds as many updates as were covered by a signature and are unresolved")
	for _, o := range want {
		key, payload, heights := false, false, false
		for _, g := range got {
			key = key || c02k3SameKey(o, g)
			payload = payload || c02k3SamePayload(o, g)
			heights = heights || c02k3SameHeights(o, g, s.L, s.R)
		}
		vAssert(key, "k3: "+c02k3LogName[q]+": every covered update is restored with its kind, log index, HTLC index and parent")
		vAssert(payload, "k3: "+c02k3LogName[q]+": a restored update carries the same payload (amount, hash, expiry, onion, preimage, reason, code)")
		vAssert(heights, "k3: "+c02k3LogName[q]+": a restored update has its add/remove heights in the same class on both chains")
	}
}

type c02k3View struct {
	ours, theirs lnwire.MilliSatoshi
	weight       lntypes.WeightUnit
	fee          chainfee.SatPerKWeight
	err          error
	out, in      []*paymentDescriptor
}

func c02k3Eval(lc *LightningChannel, whose lntypes.ChannelParty, theirIdx, ourIdx uint64) (v c02k3View) {
	view := lc.fetchHTLCView(theirIdx, ourIdx)
	var f *HtlcView
	v.ours, v.theirs, v.weight, f, v.err = lc.computeView(view, whose, false, fn.None[chainfee.SatPerKWeight]())
	if v.err == nil {
		v.fee, v.out, v.in = f.FeePerKw, f.Updates.Local, f.Updates.Remote
	}
	return v
}

func c02k3SameIDs(x, y []*paymentDescriptor) bool {
	if len(x) != len(y) {
		return false
	}
	// the same set of HTLC ids (order is not part of a commitment: BIP-69 sort)
	ok := true
	for _, a := range x {
		f := false
		for _, b := range y {
			f = f || (a.HtlcIndex == b.HtlcIndex && a.Amount == b.Amount)
		}
		ok = ok && f
	}
	return ok
}

func c02k3CheckView(o c02k3View, lc2 *LightningChannel, whose lntypes.ChannelParty, theirIdx, ourIdx uint64, name string) {
	g := c02k3Eval(lc2, whose, theirIdx, ourIdx)
	vAssert(g.err == nil, "k3: next "+name+" commitment: the reloaded channel evaluates the view as before the crash")
	if g.err != nil {
		return
	}
	vAssert(o.ours == g.ours && o.theirs == g.theirs, "k3: next "+name+" commitment: same balances as before the crash")
	vAssert(o.fee == g.fee, "k3: next "+name+" commitment: same fee rate as before the crash")
	vAssert(o.weight == g.weight, "k3: next "+name+" commitment: same weight as before the crash")
	vAssert(c02k3SameIDs(o.out, g.out) && c02k3SameIDs(o.in, g.in), "k3: next "+name+" commitment: same HTLC set as before the crash")
}

// c02k3CheckAll: reload and compare.
func c02k3CheckAll(w *c02k3World) {
	s := w.s
	// Reference: the next commitment of either chain before the crash,
	// restricted to the updates a signature covers (the others are
	// legitimately lost). Domain: these views are valid - every update in
	// them was evaluated successfully when the signature covering it was made.
	oR := c02k3Eval(w.orig, lntypes.Remote, s.b[2], s.a[2])
	vAssume(oR.err == nil)
	oL := c02k3Eval(w.orig, lntypes.Local, s.b[2], s.a[1])
	vAssume(oL.err == nil)

	lc2, err := NewLightningChannel(nil, w.st2, nil)
	vAssert(err == nil && lc2 != nil, "k3: the channel reloads without error")
	if err != nil || lc2 == nil {
		return
	}

	// chains
	lt, rt := lc2.commitChains.Local.tail(), lc2.commitChains.Remote.tail()
	vAssert(lc2.currentHeight == s.L && lt.height == s.L && lc2.commitChains.Local.tip() == lt, "k3: local chain = the persisted commitment")
	vAssert(rt.height == s.R, "k3: remote tail height")
	vAssert(lc2.commitChains.Remote.hasUnackedCommitment() == s.pending, "k3: a pending remote commitment is restored iff one was stored")
	if s.pending && lc2.commitChains.Remote.hasUnackedCommitment() {
		rp := lc2.commitChains.Remote.tip()
		vAssert(rp.height == s.R+1 && rp.messageIndices == w.rP.messageIndices && rp.ourBalance == w.rP.ourBalance &&
			rp.theirBalance == w.rP.theirBalance && rp.fee == w.rP.fee && rp.feePerKw == w.rP.feePerKw &&
			rp.ourHtlcIndex == w.rP.ourHtlcIndex && rp.theirHtlcIndex == w.rP.theirHtlcIndex &&
			len(rp.outgoingHTLCs) == len(w.rP.outgoingHTLCs) && len(rp.incomingHTLCs) == len(w.rP.incomingHTLCs),
			"k3: the pending remote commitment is the one that was signed")
	}
	vAssert(lt.messageIndices == w.lT.messageIndices && rt.messageIndices == w.rT.messageIndices &&
		lt.ourBalance == w.lT.ourBalance && lt.theirBalance == w.lT.theirBalance && rt.ourBalance == w.rT.ourBalance &&
		rt.theirBalance == w.rT.theirBalance && lt.fee == w.lT.fee && rt.fee == w.rT.fee &&
		lt.feePerKw == w.lT.feePerKw && rt.feePerKw == w.rT.feePerKw &&
		len(lt.outgoingHTLCs) == len(w.lT.outgoingHTLCs) && len(lt.incomingHTLCs) == len(w.lT.incomingHTLCs) &&
		len(rt.outgoingHTLCs) == len(w.rT.outgoingHTLCs) && len(rt.incomingHTLCs) == len(w.rT.incomingHTLCs),
		"k3: both tails carry the persisted indexes, balances, fees and HTLC counts")

	// log counters: rolled back to what a signature covers
	vAssert(lc2.updateLogs.Local.logIndex == s.a[2] && lc2.updateLogs.Local.htlcCounter == s.cP,
		"k3: our log counters = what our last signature covers")
	vAssert(lc2.updateLogs.Remote.logIndex == s.b[2] && lc2.updateLogs.Remote.htlcCounter == s.dL,
		"k3: their log counters = what their last signature covers")

	c02k3CheckLog(s, 0, c02k3List(lc2.updateLogs.Local))
	c02k3CheckLog(s, 1, c02k3List(lc2.updateLogs.Remote))

	c02k3CheckView(oR, lc2, lntypes.Remote, s.b[2], s.a[2], "remote")
	c02k3CheckView(oL, lc2, lntypes.Local, s.b[2], s.a[1], "local")

	vReach("reloaded")
	if s.pending {
		vReach("reloaded-pending")
	}
	for q := 0; q < 2; q++ {
		for i, e := range s.ents[q] {
			if !s.live(q, i) {
				if e.zone == 3 {
					vReach("dropped-unsigned")
				}
				continue
			}
			if c02k3IsRm(e.kind) {
				vAssert(lc2.updateLogs.GetForParty(c02Party[1-q]).htlcHasModification(e.pd.ParentIndex),
					"k3: the HTLC a restored settle/fail removes is marked as having a removal")
			}
			switch {
			case q == 1 && e.kind != c02KAdd:
				vReach("restored-unsigned-acked")
			case q == 0 && e.kind != c02KAdd && e.zone == 1:
				vReach("restored-peer-local")
			case q == 0 && e.zone == 2:
				vReach("restored-pending-local")
			}
			if e.kind == c02KMalformed {
				vReach("restored-malformed")
			}
			if e.kind == c02KFee {
				vReach("restored-fee")
			}
		}
	}
}

// ---------------------------------------------------------------------------
// shapes
// ---------------------------------------------------------------------------

var c02k3Digits = [...]string{"0", "1", "2", "3"}

// c02k3Decode: shape number idx of the generated table (gen_c02k3_shapes.py:
// every shape with <= 2 updates per log that satisfies valid()).
func c02k3Decode(s *c02k3Scn, idx int) {
	row := c02k3ShapeTab[idx*16 : idx*16+16]
	d := func(i int) int { return int(row[i] - '0') }
	s.pending, s.initiator = d(0) == 1, d(1) == 1
	for q := 0; q < 2; q++ {
		s.ents[q] = make([]c02k3Ent, d(2+q))
		for i := range s.ents[q] {
			o := 4 + 6*q + 3*i
			s.ents[q][i] = c02k3Ent{kind: d(o), zone: d(o + 1), parent: d(o + 2)}
		}
	}
	if !s.valid() {
		panic("c02k3: shape table row violates the representation invariant")
	}
}

const c02k3Block = 128 // shapes per shard unit

func c02k3Run(idx int) {
	var s c02k3Scn
	c02k3Decode(&s, idx)
	c02k3Fill(&s)
	w := c02k3Build(&s)
	c02k3CheckAll(w)
}

// c02k3FeeOrder: the shapes of the CANDIDATE FINDING (NOTES.md): two fee
// updates of ours, the older one on the remote tail and awaiting the peer's
// signature, the newer one on the pending remote commitment. They are decided
// by VerifC02RestoreFeeOrder alone so that one entry reports the finding.
func c02k3FeeOrder(idx int) bool {
	row := c02k3ShapeTab[idx*16 : idx*16+16]
	return row[2] == '2' && row[4] == '4' && row[5] == '1' && row[7] == '4' && row[8] == '2'
}

// VerifC02RestoreAll: the whole reload, every shape with <= 2 updates per log
// (6184 shapes in blocks of 128; shards pin "blk").
func VerifC02RestoreAll() {
	c02k3Config()
	idx := vChoice("blk", (c02k3NumShapes+c02k3Block-1)/c02k3Block)*c02k3Block + vChoice("off", c02k3Block)
	if idx >= c02k3NumShapes || c02k3FeeOrder(idx) {
		vAssume(false)
	}
	c02k3Run(idx)
}

// VerifC02Restore: quick slice: every shape with <= 1 update per log and every
// 16th of the larger ones.
const c02k3Stride = 16

func VerifC02Restore() {
	c02k3Config()
	nBig := (c02k3NumShapes - c02k3NumSmall + c02k3Stride - 1) / c02k3Stride
	nQ := c02k3NumSmall + nBig
	q := vChoice("qblk", (nQ+c02k3Block-1)/c02k3Block)*c02k3Block + vChoice("off", c02k3Block)
	if q >= nQ {
		vAssume(false)
	}
	idx := q
	if q >= c02k3NumSmall {
		idx = c02k3NumSmall + (q-c02k3NumSmall)*c02k3Stride
	}
	if c02k3FeeOrder(idx) {
		vAssume(false)
	}
	c02k3Run(idx)
}

// VerifC02RestoreFeeOrder: see c02k3FeeOrder.
func VerifC02RestoreFeeOrder() {
	c02k3Config()
	idx := c02k3FeeOrderShapes[vChoice("feeShape", len(c02k3FeeOrderShapes))]
	if !c02k3FeeOrder(idx) {
		panic("c02k3: fee-order shape list out of date")
	}
	c02k3Run(idx)
}

// ---------------------------------------------------------------------------
// the three restore loops alone (no representation invariant: any list)
// ---------------------------------------------------------------------------

// c02k3UnitChan: a channel with empty chains; `parents` Adds with symbolic ids
// and amounts sit in the log of `parentLog` (0 = ours, 1 = theirs).
func c02k3UnitChan(parentLog int, ourIdx, ourHtlc, theirIdx, theirHtlc uint64) (*LightningChannel, lnwire.ChannelID, []*paymentDescriptor) {
	op := c02Outpoint()
	chanID := c02RefChanID(op)
	logs := [2]*updateLog{newUpdateLog(ourIdx, ourHtlc), newUpdateLog(theirIdx, theirHtlc)}
	var parents []*paymentDescriptor
	for i := 0; i < 2; i++ {
		p := c02LogEntry(c02KAdd, chanID, vU64("parentLogIndex"))
		p.HtlcIndex = vU64("parentHtlcIndex")
		if i > 0 {
			vAssume(parents[0].HtlcIndex != p.HtlcIndex) // HTLC ids are unique
		}
		logs[parentLog].restoreHtlc(p)
		parents = append(parents, p)
	}
	lc := &LightningChannel{
		channelState: &chanstate.OpenChannel{ChanType: c02k3ChanType, FundingOutpoint: op},
		commitChains: lntypes.Dual[*commitmentChain]{Local: newCommitmentChain(), Remote: newCommitmentChain()},
		updateLogs:   lntypes.Dual[*updateLog]{Local: logs[0], Remote: logs[1]},
	}
	if vNative() {
		lc.log = walletLog
		c02NativeKeys(lc.channelState)
	}
	return lc, chanID, parents
}

// c02k3UnitUpdates: n <= 2 persisted updates of any kind; the k-th removal
// names the k-th parent. The descriptors they were made from are returned.
func c02k3UnitUpdates(chanID lnwire.ChannelID, parents []*paymentDescriptor, kinds int) ([]chanstate.LogUpdate, []*paymentDescriptor) {
	n := vChoice("nUpdates", 3)
	var upds []chanstate.LogUpdate
	var pds []*paymentDescriptor
	rm := 0
	for i := 0; i < n; i++ {
		k := vChoice("updKind"+c02k3Digits[i], kinds)
		pd := c02LogEntry(k, chanID, vU64("updLogIndex"))
		if k == c02KAdd {
			pd.HtlcIndex = vU64("updHtlcIndex")
		}
		if c02k3IsRm(k) {
			p := parents[rm]
			rm++
			pd.ParentIndex, pd.Amount, pd.RHash = p.HtlcIndex, p.Amount, p.RHash
		}
		pds = append(pds, pd)
		upds = append(upds, pd.toLogUpdate())
	}
	return upds, pds
}

// c02k3UnitSame: the restored entry is the update that was persisted, with the
// given remove/add heights.
func c02k3UnitSame(o, g *paymentDescriptor, hLocal, hRemote uint64) bool {
	ok := c02k3SamePayload(o, g)
	var zero lntypes.Dual[uint64]
	want := lntypes.Dual[uint64]{Local: hLocal, Remote: hRemote}
	switch o.EntryType {
	case Add:
		return ok && g.addCommitHeights == want && g.removeCommitHeights == zero
	case FeeUpdate:
		return ok && g.addCommitHeights == want && g.removeCommitHeights == want
	}
	return ok && g.addCommitHeights == zero && g.removeCommitHeights == want
}

// VerifC02RestoreRemoteUnit: restorePendingRemoteUpdates on any list of <= 2
// unsigned-acked updates.
func VerifC02RestoreRemoteUnit() {
	c02k3Config()
	theirIdx := vU64("remoteLogIndex")
	lc, chanID, parents := c02k3UnitChan(0, vU64("ourLogIndex"), vU64("ourHtlcCounter"), theirIdx, vU64("theirHtlcCounter"))
	upds, pds := c02k3UnitUpdates(chanID, parents, c02NumK)
	H := vU64("localHeight")
	var pc *commitment
	if vChoice("pending", 2) == 1 {
		pc = &commitment{height: vU64("pendingHeight"), whoseCommit: lntypes.Remote,
			messageIndices: lntypes.Dual[uint64]{Local: vU64("pendingOurIdx"), Remote: vU64("pendingTheirIdx")}}
	}
	// reference: the updates are refused from the first one the peer never
	// signed for (index not below their log counter)
	bad := -1
	for i := len(pds) - 1; i >= 0; i-- {
		if pds[i].LogIndex >= theirIdx {
			bad = i
		}
	}

	err := lc.restorePendingRemoteUpdates(upds, H, pc)

	vAssert((err != nil) == (bad >= 0), "k3 unit: unsigned-acked updates are refused iff one was never signed by the peer")
	if err != nil {
		vReach("remote-refused")
		return
	}
	got := c02k3List(lc.updateLogs.Remote)
	var want []*paymentDescriptor
	for _, pd := range pds {
		if pd.EntryType != Add {
			want = append(want, pd) // Adds come back from the local commitment
		}
	}
	vAssert(len(got) == len(want), "k3 unit: every unsigned-acked settle/fail/fee update enters their log, no Add does")
	if len(got) != len(want) {
		return
	}
	for i, o := range want {
		// on the pending remote commitment iff its index is below the
		// pending commitment's index into their log
		hR := uint64(0)
		if pc != nil && o.LogIndex < pc.messageIndices.Remote {
			hR = pc.height
		}
		vAssert(c02k3UnitSame(o, got[i], H, hR), "k3 unit: an unsigned-acked update is restored with kind, parent, index, payload; local height = our tail, remote height = pending height iff the pending commitment covers it")
		if o.EntryType != FeeUpdate {
			vAssert(lc.updateLogs.Local.htlcHasModification(o.ParentIndex), "k3 unit: the removed HTLC of ours is marked as having a removal")
			vReach("remote-removal")
		} else {
			vReach("remote-fee")
		}
	}
	vAssert(lc.updateLogs.Remote.logIndex == theirIdx, "k3 unit: their log counter is untouched")
	vReach("remote-restored")
}

// VerifC02RestorePeerUnit: restorePeerLocalUpdates on any list of <= 2 updates.
func VerifC02RestorePeerUnit() {
	c02k3Config()
	ourIdx := vU64("ourLogIndex")
	lc, chanID, parents := c02k3UnitChan(1, ourIdx, vU64("ourHtlcCounter"), vU64("remoteLogIndex"), vU64("theirHtlcCounter"))
	upds, pds := c02k3UnitUpdates(chanID, parents, c02NumK)
	H := vU64("remoteHeight")
	hasAdd := false
	for _, pd := range pds {
		hasAdd = hasAdd || pd.EntryType == Add
	}

	err := lc.restorePeerLocalUpdates(upds, H)

	// Adds are never stored under this key (unsignedLocalUpdates skips them)
	vAssert((err != nil) == hasAdd, "k3 unit: local updates awaiting the peer's signature are refused iff an Add is among them")
	if err != nil {
		vReach("peer-refused")
		return
	}
	got := c02k3List(lc.updateLogs.Local)
	vAssert(len(got) == len(parents)*0+len(pds), "k3 unit: every stored local update enters our log")
	if len(got) != len(pds) {
		return
	}
	for i, o := range pds {
		vAssert(c02k3UnitSame(o, got[i], 0, H), "k3 unit: a local update awaiting the peer's signature is restored with kind, parent, index, payload; on the remote tail, not on ours")
		if o.EntryType != FeeUpdate {
			vAssert(lc.updateLogs.Remote.htlcHasModification(o.ParentIndex), "k3 unit: the removed HTLC of theirs is marked as having a removal")
			vReach("peer-removal")
		} else {
			vReach("peer-fee")
		}
	}
	vAssert(lc.updateLogs.Local.logIndex == ourIdx, "k3 unit: our log counter is untouched")
	vReach("peer-restored")
}

// VerifC02RestorePendingUnit: restorePendingLocalUpdates on the log updates of
// a pending commitment (<= 2, contiguous from our log counters).
func VerifC02RestorePendingUnit() {
	c02k3Config()
	ourIdx, ourHtlc := vU64("ourLogIndex"), vU64("ourHtlcCounter")
	// counters count messages: no wrap of counter+2
	vAssume(ourIdx < 1<<62 && ourHtlc < 1<<62)
	lc, chanID, parents := c02k3UnitChan(1, ourIdx, ourHtlc, vU64("remoteLogIndex"), vU64("theirHtlcCounter"))
	upds, pds := c02k3UnitUpdates(chanID, parents, c02NumK)
	// the pending commitment's updates continue our log (createCommitDiff
	// takes them from the log in order; NewLightningChannel starts the
	// counters at the remote tail's)
	adds := uint64(0)
	for i, pd := range pds {
		vAssume(pd.LogIndex == ourIdx+uint64(i))
		if pd.EntryType == Add {
			vAssume(pd.HtlcIndex == ourHtlc+adds)
			adds++
		}
		if pd.EntryType == FeeUpdate && vChoice("legacyFee", 2) == 1 {
			// old databases stored fee updates without a log index
			upds[i].LogIndex = 0
		}
	}
	H := vU64("pendingHeight")
	diff := &chanstate.CommitDiff{
		Commitment: chanstate.ChannelCommitment{CommitHeight: H, CommitTx: &wire.MsgTx{Version: 2},
			FeePerKw: btcutil.Amount(vU32("pendingFeePerKw"))},
		LogUpdates: upds,
	}
	var keys *CommitmentKeyRing
	if vNative() {
		keys = DeriveCommitmentKeys(c02PoolPoint(0), lntypes.Remote, c02k3ChanType,
			&lc.channelState.LocalChanCfg, &lc.channelState.RemoteChanCfg)
	}

	err := lc.restorePendingLocalUpdates(diff, keys)

	vAssert(err == nil, "k3 unit: the updates of the pending commitment are restored")
	if err != nil {
		return
	}
	got := c02k3List(lc.updateLogs.Local)
	vAssert(len(got) == len(pds), "k3 unit: every update of the pending commitment enters our log")
	if len(got) != len(pds) {
		return
	}
	for i, o := range pds {
		vAssert(c02k3UnitSame(o, got[i], 0, H), "k3 unit: an update of the pending commitment is restored with kind, parent, index, payload; on the pending remote height only")
		switch {
		case o.EntryType == Add:
			vAssert(lc.updateLogs.Local.lookupHtlc(o.HtlcIndex) == got[i], "k3 unit: a pending Add is indexed by its HTLC id")
			vReach("pending-add")
		case o.EntryType == FeeUpdate:
			vReach("pending-fee")
		default:
			vAssert(lc.updateLogs.Remote.htlcHasModification(o.ParentIndex), "k3 unit: the removed HTLC of theirs is marked as having a removal")
			vReach("pending-removal")
		}
	}
	vAssert(lc.updateLogs.Local.logIndex == ourIdx+uint64(len(pds)) && lc.updateLogs.Local.htlcCounter == ourHtlc+adds,
		"k3 unit: our log counters advance over the pending updates")
	vReach("pending-restored")
}
