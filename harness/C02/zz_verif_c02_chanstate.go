package chanstate

// Harness for C02, part K2 (forwarding-package pieces): what a reload reads
// back for the three filters of a forwarding package and for an Add reference.
//
// Units: (*PkgFilter).Encode / Decode / Size / Count / Equal, NewPkgFilter,
// (*AddRef).Encode / Decode. SettleFailRef has no codec of its own in this
// tree (it is only used as an in-memory locator: ackSettleFails reads its
// Source/Height to find the bucket and sets bit Index of the stored
// SettleFailFilter), so there is nothing to round-trip for it beyond the
// filter.
//
// Oracle: decode(encode(x)) == x field by field (count and every byte of the
// bit vector; height and index), for every count whose vector has L bytes,
// L by case split.

import "bytes"

func c02RefLen(count uint16) int { return int((uint32(count) + 7) >> 3) }

func c02PkgFilter(maxLen int) {
	L := vChoice("len", maxLen+1)
	count := vU16("count")
	// the vector of a filter for `count` entries has ceil(count/8) bytes
	// (NewPkgFilter); L is that length
	vAssume(c02RefLen(count) == L)
	f := &PkgFilter{count: count, filter: vBytes("filter", L)}
	orig := make([]byte, L)
	copy(orig, f.filter)

	var buf bytes.Buffer
	vAssert(f.Encode(&buf) == nil, "filter: Encode succeeds")
	trail := vBytes("trail", 2)
	raw := append(append([]byte{}, buf.Bytes()...), trail...)
	r := bytes.NewReader(raw)
	g := &PkgFilter{}
	err := g.Decode(r)
	vAssert(err == nil, "filter: Decode of an encoding succeeds")
	if err != nil {
		return
	}
	vAssert(g.count == count, "filter: count")
	vAssert(bytes.Equal(g.filter, orig), "filter: bit vector")
	vAssert(r.Len() == 2, "filter: exactly the encoding is consumed")
	vAssert(g.Equal(f), "filter: Equal across the round trip")
	if L == 0 {
		vReach("filter-empty")
	}
	if L == maxLen {
		vReach("filter-max")
	}

	// a filter as the packager creates it (all clear) and after one Set
	i := vU16("i")
	vAssume(i < count)
	n := NewPkgFilter(count)
	n.Set(i)
	var b2 bytes.Buffer
	vAssert(n.Encode(&b2) == nil, "filter: Encode of a fresh filter succeeds")
	m := &PkgFilter{}
	vAssert(m.Decode(bytes.NewReader(b2.Bytes())) == nil, "filter: Decode of a fresh filter succeeds")
	j := vU16("j")
	vAssume(j < count)
	vAssert(m.Contains(j) == (j == i), "filter: membership survives the round trip")
	vReach("filter-set")
}

func VerifC02PkgFilter()     { c02PkgFilter(4) }
func VerifC02PkgFilterDeep() { c02PkgFilter(16) }

func VerifC02AddRef() {
	a := AddRef{Height: vU64("height"), Index: vU16("index")}
	var buf bytes.Buffer
	vAssert(a.Encode(&buf) == nil, "addref: Encode succeeds")
	vAssert(buf.Len() == 10, "addref: 10 bytes")
	var b AddRef
	vAssert(b.Decode(bytes.NewReader(buf.Bytes())) == nil, "addref: Decode of an encoding succeeds")
	vAssert(b.Height == a.Height, "addref: Height")
	vAssert(b.Index == a.Index, "addref: Index")
	vReach("addref")
}
