package channeldb

// Harness for C02, part K2: codec round trips of what a channel reload reads.
//
// Units executed symbolically (real lnd code):
//   putChanCommitment / fetchChanCommitment (the value stored under
//   chanCommitmentKey), serializeChanCommit / deserializeChanCommit,
//   SerializeHtlcs / DeserializeHtlcs, serializeHtlcExtraData /
//   deserializeHtlcExtraData, commitTlvData encode / decode,
//   extractCommitTlvData / amendCommitTlvData, serializeCommitDiff /
//   deserializeCommitDiff (commitDiffKey), serializeLogUpdates /
//   deserializeLogUpdates (unsignedAckedUpdatesKey, remoteUnsignedLocalUpdatesKey),
//   serializeLogUpdate / deserializeLogUpdate (forwarding-package entries),
//   WriteElement(s) / ReadElement(s) (codec.go) and below them the real
//   wire.MsgTx Serialize/Deserialize, lnwire.WriteMessage/ReadMessage with the
//   Encode/Decode of update_add_htlc, update_fulfill_htlc, update_fail_htlc,
//   update_fail_malformed_htlc, update_fee, commitment_signed, and the tlv
//   stream code.
//
// Fake: c02Bucket, a flat in-memory kvdb.RwBucket with Put/Get only (any other
// method dereferences the nil embedded interface: a panic obligation).
//
// Oracle: decode(encode(x)) = x, written field by field below with ==,
// bytes.Equal and map lookups only (no call into the code under test). A
// field that is dropped, reordered, truncated or mixed up with its neighbour on
// either side of the codec makes one of the comparisons (or the "decoding
// succeeds" obligation) fail for some value.

import (
	"bytes"
	"encoding/hex"

	"github.com/btcsuite/btcd/btcec/v2"
	"github.com/btcsuite/btcd/btcutil/v2"
	"github.com/btcsuite/btcd/wire/v2"
	"github.com/lightningnetwork/lnd/fn/v2"
	"github.com/lightningnetwork/lnd/graph/db/models"
	"github.com/lightningnetwork/lnd/kvdb"
	"github.com/lightningnetwork/lnd/lnwire"
	"github.com/lightningnetwork/lnd/shachain"
	"github.com/lightningnetwork/lnd/tlv"
)

// Set by the thorough entries: all shape combinations of that component
// instead of the representative ones.
var c02DeepCommit, c02DeepHtlc, c02DeepUpd bool

// c02AllPairs: every ordered pair of update kinds (instead of kind, kind+1).
var c02AllPairs bool

// c02Pins: shape choices pinned by an entry (to tie shapes together instead
// of exploring their product); c02Choice is vChoice unless pinned.
var c02Pins map[string]int

func c02Choice(name string, n int) int {
	if v, ok := c02Pins[name]; ok {
		return v
	}
	return vChoice(name, n)
}

func c02Mode(commit, htlc, upd bool) {
	c02Pins = nil
	c02DeepCommit, c02DeepHtlc, c02DeepUpd, c02AllPairs = commit, htlc, upd, false
}

// ---------------------------------------------------------------------------
// fake bucket
// ---------------------------------------------------------------------------

type c02Bucket struct {
	kvdb.RwBucket
	keys, vals [][]byte
	puts       int
}

func c02Clone(b []byte) []byte {
	c := make([]byte, len(b))
	copy(c, b)
	return c
}

func (b *c02Bucket) Put(k, v []byte) error {
	b.puts++
	for i := range b.keys {
		if bytes.Equal(b.keys[i], k) {
			b.vals[i] = c02Clone(v)
			return nil
		}
	}
	b.keys = append(b.keys, c02Clone(k))
	b.vals = append(b.vals, c02Clone(v))
	return nil
}

func (b *c02Bucket) Get(k []byte) []byte {
	for i := range b.keys {
		if bytes.Equal(b.keys[i], k) {
			return b.vals[i]
		}
	}
	return nil
}

// ---------------------------------------------------------------------------
// symbolic values
// ---------------------------------------------------------------------------

// c02Blob: an opaque byte field of concrete length n (n <= 4 everywhere).
func c02Blob(name string, n int) []byte {
	if n == 0 {
		return nil
	}
	return vBytes(name, n)
}

func c02Arr32(name string) (r [32]byte) {
	copy(r[:], vBytes(name, 32))
	return r
}

// c02OnionPos are the positions of the 1366-byte onion blob that carry
// symbolic bytes (both ends, so that a shifted or shortened copy is visible);
// every other position is zero.
var c02OnionPos = [...]int{0, 1, 683, lnwire.OnionPacketSize - 2, lnwire.OnionPacketSize - 1}

func c02Onion(name string) (r [lnwire.OnionPacketSize]byte) {
	b := vBytes(name, len(c02OnionPos))
	for i, p := range c02OnionPos {
		r[p] = b[i]
	}
	return r
}

// c02Records: nRec custom records with symbolic types in the custom range
// (>= 65536, lnwire.MinCustomRecordsTlvType: CustomRecords.Validate rejects
// anything else on both sides of the codec) and values of 4 and 1 bytes.
func c02Records(name string, nRec int) lnwire.CustomRecords {
	if nRec == 0 {
		return nil
	}
	cr := lnwire.CustomRecords{}
	k0 := vU64(name + "Type0")
	vAssume(k0 >= lnwire.MinCustomRecordsTlvType)
	cr[k0] = vBytes(name+"Val0", 4)
	if nRec >= 2 {
		k1 := vU64(name + "Type1")
		vAssume(k1 >= lnwire.MinCustomRecordsTlvType && k1 != k0)
		cr[k1] = vBytes(name+"Val1", 1)
	}
	return cr
}

func c02RecordsEq(got, want lnwire.CustomRecords) bool {
	if len(got) != len(want) {
		return false
	}
	ok := true
	for k, v := range want {
		g, present := got[k]
		ok = ok && present && bytes.Equal(g, v)
	}
	return ok
}

// c02Tx: a commitment transaction shape: version 2-style header, one input
// spending the funding outpoint without signature script or witness (lnd
// stores the commitment unsigned), nOut outputs with 4-byte scripts.
func c02Tx(nOut int) *wire.MsgTx {
	tx := &wire.MsgTx{Version: vI32("txVersion"), LockTime: vU32("txLockTime")}
	in := &wire.TxIn{Sequence: vU32("txSequence")}
	in.PreviousOutPoint.Hash = c02Arr32("txPrevHash")
	in.PreviousOutPoint.Index = vU32("txPrevIndex")
	tx.TxIn = []*wire.TxIn{in}
	for i := 0; i < nOut; i++ {
		tx.TxOut = append(tx.TxOut, &wire.TxOut{Value: vI64("txOutValue"), PkScript: vBytes("txOutScript", 4)})
	}
	return tx
}

func c02TxEq(a, b *wire.MsgTx) bool {
	if a == nil || b == nil {
		return false
	}
	if len(a.TxIn) != len(b.TxIn) || len(a.TxOut) != len(b.TxOut) {
		return false
	}
	ok := a.Version == b.Version && a.LockTime == b.LockTime
	for i := range a.TxIn {
		x, y := a.TxIn[i], b.TxIn[i]
		ok = ok && x.PreviousOutPoint.Hash == y.PreviousOutPoint.Hash && x.PreviousOutPoint.Index == y.PreviousOutPoint.Index &&
			x.Sequence == y.Sequence && bytes.Equal(x.SignatureScript, y.SignatureScript) && len(x.Witness) == len(y.Witness)
	}
	for i := range a.TxOut {
		ok = ok && a.TxOut[i].Value == b.TxOut[i].Value && bytes.Equal(a.TxOut[i].PkScript, b.TxOut[i].PkScript)
	}
	return ok
}

// c02Htlc: one HTLC of a commitment, every persisted field symbolic.
// BlindingPoint stays None (a compressed curve point cannot be decoded
// symbolically: btcec.ParsePubKey), ExtraData is derived by the codec from
// BlindingPoint and CustomRecords.
func c02Htlc(sigLen, nRec int) HTLC {
	return HTLC{
		Signature:     c02Blob("htlcSig", sigLen),
		RHash:         c02Arr32("htlcRHash"),
		Amt:           lnwire.MilliSatoshi(vU64("htlcAmt")),
		RefundTimeout: vU32("htlcRefundTimeout"),
		OutputIndex:   vI32("htlcOutputIndex"),
		Incoming:      vBool("htlcIncoming"),
		OnionBlob:     c02Onion("htlcOnion"),
		HtlcIndex:     vU64("htlcHtlcIndex"),
		LogIndex:      vU64("htlcLogIndex"),
		CustomRecords: c02Records("htlcRec", nRec),
	}
}

// c02Htlcs: the HTLC list of one commitment (max >= 0: 0..max HTLCs by case
// split; max < 0: exactly -max-1 HTLCs). Shapes: quick = the first HTLC
// has a 4-byte signature and one custom record, the second has neither (an
// HTLC on the remote commitment); thorough = every combination.
func c02Htlcs(max int) []HTLC {
	n := max
	if max >= 0 {
		n = c02Choice("nHtlcs", max+1)
	} else {
		n = -max - 1 // pinned by the caller (tied to another shape choice)
	}
	var hs []HTLC
	for i := 0; i < n; i++ {
		sigLen, nRec := 4*(1-i), 1-i
		if c02DeepHtlc {
			sigLen, nRec = 4*vChoice("htlcSigShape", 2), vChoice("htlcRecShape", 3)
		}
		hs = append(hs, c02Htlc(sigLen, nRec))
	}
	return hs
}

func c02HtlcEq(g, w *HTLC) bool {
	return bytes.Equal(g.Signature, w.Signature) && g.RHash == w.RHash && g.Amt == w.Amt &&
		g.RefundTimeout == w.RefundTimeout && g.OutputIndex == w.OutputIndex && g.Incoming == w.Incoming &&
		g.OnionBlob == w.OnionBlob && g.HtlcIndex == w.HtlcIndex && g.LogIndex == w.LogIndex &&
		g.BlindingPoint.IsNone() && c02RecordsEq(g.CustomRecords, w.CustomRecords) &&
		(len(g.ExtraData) == 0) == (len(w.CustomRecords) == 0)
}

func c02AssertHtlcs(got, want []HTLC) {
	vAssert(len(got) == len(want), "htlcs: same number of HTLCs")
	if len(got) != len(want) {
		return
	}
	for i := range want {
		g, w := &got[i], &want[i]
		vAssert(bytes.Equal(g.Signature, w.Signature), "htlc: Signature")
		vAssert(g.RHash == w.RHash, "htlc: RHash")
		vAssert(g.Amt == w.Amt, "htlc: Amt")
		vAssert(g.RefundTimeout == w.RefundTimeout, "htlc: RefundTimeout")
		vAssert(g.OutputIndex == w.OutputIndex, "htlc: OutputIndex")
		vAssert(g.Incoming == w.Incoming, "htlc: Incoming")
		vAssert(g.OnionBlob == w.OnionBlob, "htlc: OnionBlob")
		vAssert(g.HtlcIndex == w.HtlcIndex, "htlc: HtlcIndex")
		vAssert(g.LogIndex == w.LogIndex, "htlc: LogIndex")
		vAssert(g.BlindingPoint.IsNone(), "htlc: no blinding point appears")
		vAssert(c02RecordsEq(g.CustomRecords, w.CustomRecords), "htlc: CustomRecords")
		vAssert((len(g.ExtraData) == 0) == (len(w.CustomRecords) == 0), "htlc: ExtraData present iff there are records")
		vAssert(c02HtlcEq(g, w), "htlc: all fields")
	}
}

const c02Tied = -100

// c02LastShape: the shape the last c02Commit call used.
var c02LastShape int

func c02Commit(maxHtlcs int) *ChannelCommitment {
	// shapes: quick = {1 output, no signature, no blob} and {2 outputs,
	// 4-byte signature, 4-byte custom blob}; thorough = all 8 combinations.
	shape := c02Choice("commitShape", 2)
	c02LastShape = shape
	nOut, sigLen, blob := 1+shape, 4*shape, shape == 1
	if c02DeepCommit {
		nOut, sigLen, blob = 1+vChoice("nTxOut", 2), 4*vChoice("commitSigShape", 2), vChoice("customBlob", 2) == 1
	}
	c := &ChannelCommitment{
		CommitHeight:    vU64("commitHeight"),
		LocalLogIndex:   vU64("localLogIndex"),
		LocalHtlcIndex:  vU64("localHtlcIndex"),
		RemoteLogIndex:  vU64("remoteLogIndex"),
		RemoteHtlcIndex: vU64("remoteHtlcIndex"),
		LocalBalance:    lnwire.MilliSatoshi(vU64("localBalance")),
		RemoteBalance:   lnwire.MilliSatoshi(vU64("remoteBalance")),
		CommitFee:       btcutil.Amount(vI64("commitFee")),
		FeePerKw:        btcutil.Amount(vI64("feePerKw")),
		CommitTx:        c02Tx(nOut),
		CommitSig:       c02Blob("commitSig", sigLen),
	}
	if blob {
		c.CustomBlob = fn.Some[tlv.Blob](vBytes("customBlob", 4))
	}
	if maxHtlcs == c02Tied {
		// quick CommitDiff: shape 0 carries no HTLC, shape 1 carries one
		c.Htlcs = c02Htlcs(-shape - 1)
	} else {
		c.Htlcs = c02Htlcs(maxHtlcs)
	}
	return c
}

func c02AssertCommit(d, c *ChannelCommitment) {
	vAssert(d.CommitHeight == c.CommitHeight, "commit: CommitHeight")
	vAssert(d.LocalLogIndex == c.LocalLogIndex, "commit: LocalLogIndex")
	vAssert(d.LocalHtlcIndex == c.LocalHtlcIndex, "commit: LocalHtlcIndex")
	vAssert(d.RemoteLogIndex == c.RemoteLogIndex, "commit: RemoteLogIndex")
	vAssert(d.RemoteHtlcIndex == c.RemoteHtlcIndex, "commit: RemoteHtlcIndex")
	vAssert(d.LocalBalance == c.LocalBalance, "commit: LocalBalance")
	vAssert(d.RemoteBalance == c.RemoteBalance, "commit: RemoteBalance")
	vAssert(d.CommitFee == c.CommitFee, "commit: CommitFee")
	vAssert(d.FeePerKw == c.FeePerKw, "commit: FeePerKw")
	vAssert(c02TxEq(d.CommitTx, c.CommitTx), "commit: CommitTx")
	vAssert(bytes.Equal(d.CommitSig, c.CommitSig), "commit: CommitSig")
	vAssert(d.CustomBlob.IsSome() == c.CustomBlob.IsSome(), "commit: CustomBlob presence")
	vAssert(bytes.Equal(d.CustomBlob.UnwrapOr(nil), c.CustomBlob.UnwrapOr(nil)), "commit: CustomBlob")
	c02AssertHtlcs(d.Htlcs, c.Htlcs)
}

// ---------------------------------------------------------------------------
// entries: commitments
// ---------------------------------------------------------------------------

// c02ChanCommit: the commitment written by putChanCommitment under the local
// or the remote key is what fetchChanCommitment returns for that key, and the
// other key stays empty.
func c02ChanCommit(maxHtlcs int) {
	c := c02Commit(maxHtlcs)
	local := vBool("local")
	bkt := &c02Bucket{}
	err := putChanCommitment(bkt, c, local)
	vAssert(err == nil, "commit: putChanCommitment succeeds")
	vAssert(bkt.puts == 1 && len(bkt.keys) == 1, "commit: one key written")
	d, err := fetchChanCommitment(bkt, local)
	vAssert(err == nil, "commit: fetchChanCommitment of what was written succeeds")
	if err != nil {
		return
	}
	c02AssertCommit(&d, c)
	_, err = fetchChanCommitment(bkt, !local)
	vAssert(err == ErrNoCommitmentsFound, "commit: the other party's key is untouched")
	if len(c.Htlcs) == 0 {
		vReach("commit-no-htlcs")
	}
	if len(c.Htlcs) == 2 {
		vReach("commit-two-htlcs")
	}
	if c.CustomBlob.IsSome() {
		vReach("commit-custom-blob")
	}
}

func VerifC02ChanCommit()     { c02Mode(false, false, false); c02ChanCommit(2) }
func VerifC02ChanCommitDeep() { c02Mode(true, true, false); c02ChanCommit(2) }

// c02HtlcList: SerializeHtlcs / DeserializeHtlcs alone, followed by trailing
// bytes that must be left in the reader.
func c02HtlcList(maxHtlcs int) {
	hs := c02Htlcs(maxHtlcs)
	var b bytes.Buffer
	err := SerializeHtlcs(&b, hs...)
	vAssert(err == nil, "htlcs: SerializeHtlcs succeeds")
	trail := vBytes("trail", 3)
	r := bytes.NewReader(append(c02Clone(b.Bytes()), trail...))
	got, err := DeserializeHtlcs(r)
	vAssert(err == nil, "htlcs: DeserializeHtlcs of an encoding succeeds")
	if err != nil {
		return
	}
	c02AssertHtlcs(got, hs)
	vAssert(r.Len() == 3, "htlcs: exactly the encoding is consumed")
	switch len(hs) {
	case 0:
		vReach("htlcs-none")
	case 1:
		vReach("htlcs-one")
	case 2:
		vReach("htlcs-two")
	}
}

func VerifC02Htlcs()     { c02Mode(false, false, false); c02HtlcList(2) }
func VerifC02HtlcsDeep() { c02Mode(false, true, false); c02HtlcList(2) }

// ---------------------------------------------------------------------------
// log updates
// ---------------------------------------------------------------------------

const (
	c02KindAdd = iota
	c02KindFulfill
	c02KindFail
	c02KindMalformed
	c02KindFee
	c02NumKinds
)

func c02ChanID(name string) (id lnwire.ChannelID) {
	copy(id[:], vBytes(name, 32))
	return id
}

// c02Update: one update message of the given kind, every field symbolic,
// opaque fields <= 4 bytes. nRec custom records (add / fulfill only carry
// them).
func c02Update(kind, nRec int) lnwire.Message {
	switch kind {
	case c02KindAdd:
		return &lnwire.UpdateAddHTLC{
			ChanID:        c02ChanID("addChanID"),
			ID:            vU64("addID"),
			Amount:        lnwire.MilliSatoshi(vU64("addAmount")),
			PaymentHash:   c02Arr32("addHash"),
			Expiry:        vU32("addExpiry"),
			OnionBlob:     c02Onion("addOnion"),
			CustomRecords: c02Records("addRec", nRec),
		}
	case c02KindFulfill:
		return &lnwire.UpdateFulfillHTLC{
			ChanID:          c02ChanID("fulfillChanID"),
			ID:              vU64("fulfillID"),
			PaymentPreimage: c02Arr32("fulfillPreimage"),
			CustomRecords:   c02Records("fulfillRec", nRec),
		}
	case c02KindFail:
		return &lnwire.UpdateFailHTLC{
			ChanID: c02ChanID("failChanID"),
			ID:     vU64("failID"),
			Reason: lnwire.OpaqueReason(c02Blob("failReason", 4)),
		}
	case c02KindMalformed:
		return &lnwire.UpdateFailMalformedHTLC{
			ChanID:       c02ChanID("malformedChanID"),
			ID:           vU64("malformedID"),
			ShaOnionBlob: c02Arr32("malformedSha"),
			FailureCode:  lnwire.FailCode(vU16("malformedCode")),
		}
	}
	return &lnwire.UpdateFee{
		ChanID:   c02ChanID("feeChanID"),
		FeePerKw: vU32("feeFeePerKw"),
	}
}

// c02MsgEq compares two update messages field by field.
func c02MsgEq(got, want lnwire.Message) bool {
	switch w := want.(type) {
	case *lnwire.UpdateAddHTLC:
		g, ok := got.(*lnwire.UpdateAddHTLC)
		return ok && g.ChanID == w.ChanID && g.ID == w.ID && g.Amount == w.Amount && g.PaymentHash == w.PaymentHash &&
			g.Expiry == w.Expiry && g.OnionBlob == w.OnionBlob && g.BlindingPoint.IsNone() &&
			c02RecordsEq(g.CustomRecords, w.CustomRecords) && len(g.ExtraData) == 0
	case *lnwire.UpdateFulfillHTLC:
		g, ok := got.(*lnwire.UpdateFulfillHTLC)
		return ok && g.ChanID == w.ChanID && g.ID == w.ID && g.PaymentPreimage == w.PaymentPreimage &&
			c02RecordsEq(g.CustomRecords, w.CustomRecords) && len(g.ExtraData) == 0
	case *lnwire.UpdateFailHTLC:
		g, ok := got.(*lnwire.UpdateFailHTLC)
		return ok && g.ChanID == w.ChanID && g.ID == w.ID && bytes.Equal(g.Reason, w.Reason) && len(g.ExtraData) == 0
	case *lnwire.UpdateFailMalformedHTLC:
		g, ok := got.(*lnwire.UpdateFailMalformedHTLC)
		return ok && g.ChanID == w.ChanID && g.ID == w.ID && g.ShaOnionBlob == w.ShaOnionBlob &&
			g.FailureCode == w.FailureCode && len(g.ExtraData) == 0
	case *lnwire.UpdateFee:
		g, ok := got.(*lnwire.UpdateFee)
		return ok && g.ChanID == w.ChanID && g.FeePerKw == w.FeePerKw && len(g.ExtraData) == 0
	}
	return false
}

// c02Updates: k <= max log updates, kinds by case split. Quick: the first
// update carries one custom record when its kind allows it; thorough: 0..2.
func c02Updates(max int) []LogUpdate {
	k := c02Choice("nUpdates", max+1)
	var us []LogUpdate
	kind := 0
	for i := 0; i < k; i++ {
		if i == 0 || c02DeepUpd || c02AllPairs {
			kind = c02Choice("updKind", c02NumKinds)
		} else {
			// quick: the second update is of the next kind, so that every
			// kind occurs in both positions (updates are coded one after
			// the other, independently); thorough: all 25 ordered pairs
			kind = (kind + 1) % c02NumKinds
		}
		nRec := 0
		if kind == c02KindAdd || kind == c02KindFulfill {
			nRec = 1 - i
			if c02DeepUpd {
				nRec = vChoice("updRecShape", 3)
			}
		}
		us = append(us, LogUpdate{LogIndex: vU64("updLogIndex"), UpdateMsg: c02Update(kind, nRec)})
	}
	return us
}

func c02AssertUpdates(got, want []LogUpdate) {
	vAssert(len(got) == len(want), "updates: same number of log updates")
	if len(got) != len(want) {
		return
	}
	for i := range want {
		vAssert(got[i].LogIndex == want[i].LogIndex, "update: LogIndex")
		vAssert(c02MsgEq(got[i].UpdateMsg, want[i].UpdateMsg), "update: message type and every field")
	}
}

// c02LogUpdates: the list form (unsignedAckedUpdatesKey,
// remoteUnsignedLocalUpdatesKey) and the single form (forwarding packages).
func c02LogUpdates(max int) {
	us := c02Updates(max)
	var b bytes.Buffer
	err := serializeLogUpdates(&b, us)
	vAssert(err == nil, "updates: serializeLogUpdates succeeds")
	trail := vBytes("trail", 3)
	r := bytes.NewReader(append(c02Clone(b.Bytes()), trail...))
	got, err := deserializeLogUpdates(r)
	vAssert(err == nil, "updates: deserializeLogUpdates of an encoding succeeds")
	if err != nil {
		return
	}
	c02AssertUpdates(got, us)
	vAssert(r.Len() == 3, "updates: exactly the encoding is consumed")

	for i := range us {
		var sb bytes.Buffer
		err := serializeLogUpdate(&sb, &us[i])
		vAssert(err == nil, "update: serializeLogUpdate succeeds")
		one, err := deserializeLogUpdate(bytes.NewReader(sb.Bytes()))
		vAssert(err == nil && one != nil, "update: deserializeLogUpdate of an encoding succeeds")
		if err != nil || one == nil {
			return
		}
		vAssert(one.LogIndex == us[i].LogIndex, "update: LogIndex (single form)")
		vAssert(c02MsgEq(one.UpdateMsg, us[i].UpdateMsg), "update: message (single form)")
	}
	switch len(us) {
	case 0:
		vReach("updates-none")
	case 1:
		vReach("updates-one")
	case 2:
		vReach("updates-two")
	}
}

// all 25 ordered kind pairs in both tiers; thorough adds 0..2 custom records
// per update
func VerifC02LogUpdates()     { c02Mode(false, false, false); c02AllPairs = true; c02LogUpdates(2) }
func VerifC02LogUpdatesDeep() { c02Mode(false, false, true); c02LogUpdates(2) }

// ---------------------------------------------------------------------------
// commit diff
// ---------------------------------------------------------------------------

func c02Sig(name string) lnwire.Sig {
	s, err := lnwire.NewSigFromWireECDSA(vBytes(name, 64))
	vAssert(err == nil, "NewSigFromWireECDSA of 64 bytes")
	return s
}

func c02SigEq(a, b lnwire.Sig) bool { return bytes.Equal(a.RawBytes(), b.RawBytes()) }

func c02Keys(name string, n int) []models.CircuitKey {
	var ks []models.CircuitKey
	for i := 0; i < n; i++ {
		ks = append(ks, models.CircuitKey{
			ChanID: lnwire.NewShortChanIDFromInt(vU64(name + "Scid")),
			HtlcID: vU64(name + "HtlcID"),
		})
	}
	return ks
}

func c02KeysEq(a, b []models.CircuitKey) bool {
	if len(a) != len(b) {
		return false
	}
	ok := true
	for i := range a {
		ok = ok && a[i].ChanID == b[i].ChanID && a[i].HtlcID == b[i].HtlcID
	}
	return ok
}

// c02CommitDiff: the pending remote commitment stored under commitDiffKey.
func c02CommitDiff(maxHtlcs, maxUpd int) {
	diff := &CommitDiff{Commitment: *c02Commit(maxHtlcs)}
	// shapes of (HTLC signatures, opened keys, closed keys): (0,0,0), (1,2,1), (2,1,2)
	dshape := vChoice("diffShape", 3)
	nSigs, nOpened, nClosed := dshape, (3-dshape)%3, dshape
	cs := &lnwire.CommitSig{ChanID: c02ChanID("sigChanID"), CommitSig: c02Sig("sigCommitSig")}
	for i := 0; i < nSigs; i++ {
		cs.HtlcSigs = append(cs.HtlcSigs, c02Sig("sigHtlcSig"))
	}
	diff.CommitSig = cs
	diff.LogUpdates = c02Updates(maxUpd)
	diff.OpenedCircuitKeys = c02Keys("opened", nOpened)
	diff.ClosedCircuitKeys = c02Keys("closed", nClosed)

	var b bytes.Buffer
	err := serializeCommitDiff(&b, diff)
	vAssert(err == nil, "diff: serializeCommitDiff succeeds")
	got, err := deserializeCommitDiff(bytes.NewReader(b.Bytes()))
	vAssert(err == nil && got != nil, "diff: deserializeCommitDiff of an encoding succeeds")
	if err != nil || got == nil {
		return
	}
	c02AssertCommit(&got.Commitment, &diff.Commitment)
	vAssert(got.CommitSig != nil, "diff: CommitSig present")
	if got.CommitSig == nil {
		return
	}
	vAssert(got.CommitSig.ChanID == cs.ChanID, "diff: CommitSig.ChanID")
	vAssert(c02SigEq(got.CommitSig.CommitSig, cs.CommitSig), "diff: CommitSig.CommitSig")
	vAssert(len(got.CommitSig.HtlcSigs) == len(cs.HtlcSigs), "diff: number of HTLC signatures")
	if len(got.CommitSig.HtlcSigs) == len(cs.HtlcSigs) {
		for i := range cs.HtlcSigs {
			vAssert(c02SigEq(got.CommitSig.HtlcSigs[i], cs.HtlcSigs[i]), "diff: HTLC signature")
		}
	}
	vAssert(got.CommitSig.PartialSig.IsNone() && len(got.CommitSig.CustomRecords) == 0 && len(got.CommitSig.ExtraData) == 0,
		"diff: nothing appears in the optional CommitSig fields")
	c02AssertUpdates(got.LogUpdates, diff.LogUpdates)
	vAssert(c02KeysEq(got.OpenedCircuitKeys, diff.OpenedCircuitKeys), "diff: OpenedCircuitKeys")
	vAssert(c02KeysEq(got.ClosedCircuitKeys, diff.ClosedCircuitKeys), "diff: ClosedCircuitKeys")
	if len(diff.LogUpdates) == 2 && len(diff.Commitment.Htlcs) >= 1 {
		vReach("diff-two-updates")
	}
	if len(diff.LogUpdates) == 0 {
		vReach("diff-no-updates")
	}
	if len(diff.OpenedCircuitKeys) == 2 && len(diff.ClosedCircuitKeys) == 1 {
		vReach("diff-circuit-keys")
	}
}

func VerifC02CommitDiff()     { c02Mode(false, false, false); c02CommitDiff(c02Tied, 2) }
func VerifC02CommitDiffDeep() { c02Mode(false, false, true); c02CommitDiff(2, 2) }

// ---------------------------------------------------------------------------
// revocation state
// ---------------------------------------------------------------------------

// c02CurvePoint: two fixed points of secp256k1 (the generator G and 2G) given
// by their affine coordinates. Keys are concrete: a compressed point can only
// be decoded by a modular square root (btcec.ParsePubKey), which is run on
// concrete values.
func c02CurvePoint(i int) *btcec.PublicKey {
	xs := [2]string{
		"79be667ef9dcbbac55a06295ce870b07029bfcdb2dce28d959f2815b16f81798",
		"c6047f9441ed7d6d3045406e95c07cd85c778e4b8cef3ca7abac09b95c709ee5",
	}
	ys := [2]string{
		"483ada7726a3c4655da4fbfc0e1108a8fd17b448a68554199c47d08ffb10d4b8",
		"1ae168fea63dc339a3c58419466ceaeef7f632653266d0e1236431a950cfe52a",
	}
	xb, _ := hex.DecodeString(xs[i])
	yb, _ := hex.DecodeString(ys[i])
	var x, y btcec.FieldVal
	x.SetByteSlice(xb)
	y.SetByteSlice(yb)
	return btcec.NewPublicKey(&x, &y)
}

// c02RevocationState: what putChanRevocationState writes under
// revocationStateKey is what fetchChanRevocationState reads back: the peer's
// current point, our producer root, the peer's secret store (every bucket) and
// the optional next point. Producer root and store contents are symbolic; the
// store is built from its own byte form (its fields are private to shachain).
func c02RevocationState(maxBuckets int) {
	n := vChoice("nBuckets", maxBuckets+1)
	raw := []byte{byte(n)}
	for i := 0; i < n; i++ {
		raw = append(raw, vBytes("bucketIndex", 8)...)
		raw = append(raw, vBytes("bucketHash", 32)...)
	}
	raw = append(raw, vBytes("storeIndex", 8)...)
	store, err := shachain.NewRevocationStoreFromBytes(bytes.NewReader(raw))
	vAssert(err == nil && store != nil, "revstate: the store is built")
	root := vBytes("producerRoot", 32)
	prod, err := shachain.NewRevocationProducerFromBytes(root)
	vAssert(err == nil && prod != nil, "revstate: the producer is built")
	hasNext := vChoice("hasNext", 2) == 1
	ch := &OpenChannel{
		RemoteCurrentRevocation: c02CurvePoint(0),
		RevocationProducer:      prod,
		RevocationStore:         store,
	}
	if hasNext {
		ch.RemoteNextRevocation = c02CurvePoint(1)
	}
	bkt := &c02Bucket{}
	err = putChanRevocationState(bkt, ch)
	vAssert(err == nil, "revstate: putChanRevocationState succeeds")
	var got OpenChannel
	err = fetchChanRevocationState(bkt, &got)
	vAssert(err == nil, "revstate: fetchChanRevocationState of what was written succeeds")
	if err != nil {
		return
	}
	vAssert(got.RemoteCurrentRevocation != nil && got.RemoteCurrentRevocation.IsEqual(c02CurvePoint(0)), "revstate: RemoteCurrentRevocation")
	vAssert((got.RemoteNextRevocation != nil) == hasNext, "revstate: RemoteNextRevocation presence")
	if hasNext && got.RemoteNextRevocation != nil {
		vAssert(got.RemoteNextRevocation.IsEqual(c02CurvePoint(1)), "revstate: RemoteNextRevocation")
	}
	vAssert(got.RevocationProducer != nil && got.RevocationStore != nil, "revstate: producer and store present")
	if got.RevocationProducer == nil || got.RevocationStore == nil {
		return
	}
	var pb, sb bytes.Buffer
	vAssert(got.RevocationProducer.Encode(&pb) == nil && bytes.Equal(pb.Bytes(), root), "revstate: producer root")
	vAssert(got.RevocationStore.Encode(&sb) == nil && bytes.Equal(sb.Bytes(), raw), "revstate: every bucket and the index of the secret store")
	if hasNext && n == maxBuckets {
		vReach("revstate-next-point")
	}
	if !hasNext && n == 0 {
		vReach("revstate-fresh")
	}
}

func VerifC02RevocationState()     { c02RevocationState(2) }
func VerifC02RevocationStateDeep() { c02RevocationState(49) }
