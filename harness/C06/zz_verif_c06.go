package shachain

// Harness for C06: revocation secrets (shachain store / producer).
//
// Unit: (*RevocationStore).AddNextEntry / LookUp / Encode,
// NewRevocationStoreFromBytes, (*element).derive / isEqual,
// index.deriveBitTransformations, getBit / getPrefix / countTrailingZeros,
// (*RevocationProducer).AtIndex, newIndex. crypto/sha256 is an uninterpreted
// function symbolically and the real SHA-256 in native replay.
//
// The oracle is BOLT-3 ("per-commitment secret requirements" and "efficient
// per-commitment secret storage"), written out below in c06Flip/c06Generate
// and in plain bit arithmetic; it does not call any shachain function.

import (
	"bytes"
	"crypto/sha256"

	"github.com/btcsuite/btcd/chainhash/v2"
)

// c06Top is the first index of the chain (BOLT-3: 2^48-1, counting down).
const c06Top = uint64(1)<<48 - 1

func c06Hash(name string) chainhash.Hash {
	var h chainhash.Hash
	copy(h[:], vBytes(name, 32))
	return h
}

// c06Flip is one step of BOLT-3 generate_from_seed: "flip(B) in P; P = SHA256(P)".
func c06Flip(p chainhash.Hash, bit uint) chainhash.Hash {
	p[bit/8] ^= 1 << (bit % 8)
	return chainhash.Hash(sha256.Sum256(p[:]))
}

// c06Generate is BOLT-3 generate_from_seed(seed, I) restricted to the bits
// below `bits` (bits = 48 with seed = root gives the per-commitment secret I;
// with seed = the secret of an index whose low `bits` bits are zero it gives
// the secret of that index with the low bits replaced by those of I).
func c06Generate(seed chainhash.Hash, bits uint, I uint64) chainhash.Hash {
	p := seed
	for b := bits; b > 0; b-- {
		if (I>>(b-1))&1 == 1 {
			p = c06Flip(p, b-1)
		}
	}
	return p
}

// c06BitLen is the number of bits needed to write n (0 for n = 0).
func c06BitLen(n uint64) uint8 {
	var l uint8
	for n != 0 {
		l++
		n >>= 1
	}
	return l
}

// c06RoundTrip serialises the store, reads it back and checks that the
// serialised part (index, number of buckets, the used buckets) is unchanged
// and that the encoding has exactly the compact size. Returns the decoded
// store (nil if the codec failed).
func c06RoundTrip(st *RevocationStore) *RevocationStore {
	var buf bytes.Buffer
	if err := st.Encode(&buf); err != nil {
		vAssert(false, "Encode of a store succeeds")
		return nil
	}
	raw := buf.Bytes()
	vAssert(len(raw) == 1+40*int(st.lenBuckets)+8, "encoding is 1 + 40 per used bucket + 8 bytes")
	vAssert(len(raw) <= 1+40*49+8, "encoding holds at most 49 values")
	dec, err := NewRevocationStoreFromBytes(bytes.NewReader(raw))
	if err != nil || dec == nil {
		vAssert(false, "decoding an encoded store succeeds")
		return nil
	}
	vAssert(dec.index == st.index, "round trip keeps the next index")
	vAssert(dec.lenBuckets == st.lenBuckets, "round trip keeps the number of buckets")
	for i := uint8(0); i < st.lenBuckets && i < uint8(len(st.buckets)); i++ {
		vAssert(dec.buckets[i].index == st.buckets[i].index, "round trip keeps every bucket index")
		vAssert(dec.buckets[i].hash == st.buckets[i].hash, "round trip keeps every bucket secret")
	}
	return dec
}

// ---------------------------------------------------------------------------
// (1) small trees, exhaustive in the seed: the real producer feeds the real
// store from the real initial state; symbolic 256-bit root.
// ---------------------------------------------------------------------------

const c06MaxK = 32

func VerifC06SmallTree() {
	vInjective("sha256")
	vAssumption("SHA-256 is an uninterpreted function; collision-freeness is assumed only on the applications occurring in a query (needed for 'wrong secret is rejected')")
	K := vChoice("K", c06MaxK+1)
	root := c06Hash("root")
	prod := NewRevocationProducer(root)
	store := NewRevocationStore()
	var secrets [c06MaxK]chainhash.Hash

	for n := 0; n < K; n++ {
		v := uint64(n)

		// producer = BOLT-3 generate_from_seed(root, 2^48-1-v)
		sec, err := prod.AtIndex(v)
		if err != nil || sec == nil {
			vAssert(false, "producer yields every secret of the chain")
			return
		}
		vAssert(*sec == c06Generate(root, 48, c06Top-v), "producer secret equals BOLT-3 generate_from_seed")
		secrets[n] = *sec

		// a secret that is not the next one of the chain is rejected whenever
		// BOLT-3 can tell (index with at least one trailing zero <=> v odd)
		if n%2 == 1 {
			bad := c06Hash("bad")
			vAssume(bad != *sec)
			cp := *store
			errBad := cp.AddNextEntry(&bad)
			vAssert(errBad != nil, "a secret inconsistent with the earlier ones is rejected")
			vAssert(cp.index == store.index && cp.lenBuckets == store.lenBuckets, "a rejected secret does not advance the store")
			if errBad != nil {
				vReach("reject")
			}
		}

		if err := store.AddNextEntry(sec); err != nil {
			vAssert(false, "the next secret of the chain is accepted")
			return
		}

		// compactness: after n+1 secrets at most bitlen(n+1) <= 49 values
		vAssert(store.lenBuckets <= c06BitLen(v+1), "number of stored values is at most bitlen(received)")
		vAssert(store.lenBuckets <= 49, "at most 49 stored values")

		// across serialisation: continue with the decoded store
		dec := c06RoundTrip(store)
		if dec == nil {
			return
		}
		store = dec

		// every received secret is reproduced exactly
		for i := 0; i <= n; i++ {
			got, err := store.LookUp(uint64(i))
			if err != nil || got == nil {
				vAssert(false, "every received secret can be looked up")
				return
			}
			vAssert(*got == secrets[i], "looked-up secret equals the received one")
		}

		// nothing that was not received can be looked up (any uint64 beyond)
		u := vU64("unreceived")
		vAssume(u > v)
		_, errU := store.LookUp(u)
		vAssert(errU != nil, "a secret that was not received cannot be looked up")
	}
	vReach("filled")
}
