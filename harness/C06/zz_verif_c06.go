package shachain

// Harness for C06: revocation secrets (shachain store / producer).
//
// Unit: (*RevocationStore).AddNextEntry / LookUp / Encode,
// NewRevocationStoreFromBytes, (*element).derive / isEqual,
// index.deriveBitTransformations, getBit / getPrefix / countTrailingZeros,
// (*RevocationProducer).AtIndex, newIndex. crypto/sha256 is an uninterpreted
// function symbolically and the real SHA-256 in native replay.
//
// The oracle is BOLT-3 ("per-commitment secret requirements" and "efficient
// per-commitment secret storage"), written out below in c06Flip/c06Generate
// and in plain bit arithmetic; it does not call any shachain function.

import (
	"bytes"
	"crypto/sha256"

	"github.com/btcsuite/btcd/chainhash/v2"
)

// c06Top is the first index of the chain (BOLT-3: 2^48-1, counting down).
const c06Top = uint64(1)<<48 - 1

func c06Hash(name string) chainhash.Hash {
	var h chainhash.Hash
	copy(h[:], vBytes(name, 32))
	return h
}

// c06Flip is one step of BOLT-3 generate_from_seed: "flip(B) in P; P = SHA256(P)".
func c06Flip(p chainhash.Hash, bit uint) chainhash.Hash {
	p[bit/8] ^= 1 << (bit % 8)
	return chainhash.Hash(sha256.Sum256(p[:]))
}

// c06Generate is BOLT-3 generate_from_seed(seed, I) restricted to the bits
// below `bits` (bits = 48 with seed = root gives the per-commitment secret I;
// with seed = the secret of an index whose low `bits` bits are zero it gives
// the secret of that index with the low bits replaced by those of I).
func c06Generate(seed chainhash.Hash, bits uint, I uint64) chainhash.Hash {
	p := seed
	for b := bits; b > 0; b-- {
		if (I>>(b-1))&1 == 1 {
			p = c06Flip(p, b-1)
		}
	}
	return p
}

// c06BitLen is the number of bits needed to write n (0 for n = 0).
func c06BitLen(n uint64) uint8 {
	var l uint8
	for n != 0 {
		l++
		n >>= 1
	}
	return l
}

// c06RoundTrip serialises the store, reads it back and checks that the
// serialised part (index, number of buckets, the used buckets) is unchanged
// and that the encoding has exactly the compact size. Returns the decoded
// store (nil if the codec failed).
func c06RoundTrip(st *RevocationStore) *RevocationStore {
	var buf bytes.Buffer
	if err := st.Encode(&buf); err != nil {
		vAssert(false, "Encode of a store succeeds")
		return nil
	}
	raw := buf.Bytes()
	vAssert(len(raw) == 1+40*int(st.lenBuckets)+8, "encoding is 1 + 40 per used bucket + 8 bytes")
	vAssert(len(raw) <= 1+40*49+8, "encoding holds at most 49 values")
	dec, err := NewRevocationStoreFromBytes(bytes.NewReader(raw))
	if err != nil || dec == nil {
		vAssert(false, "decoding an encoded store succeeds")
		return nil
	}
	vAssert(dec.index == st.index, "round trip keeps the next index")
	vAssert(dec.lenBuckets == st.lenBuckets, "round trip keeps the number of buckets")
	for i := uint8(0); i < st.lenBuckets && i < uint8(len(st.buckets)); i++ {
		vAssert(dec.buckets[i].index == st.buckets[i].index, "round trip keeps every bucket index")
		vAssert(dec.buckets[i].hash == st.buckets[i].hash, "round trip keeps every bucket secret")
	}
	return dec
}

// ---------------------------------------------------------------------------
// (1) small trees, exhaustive in the seed: the real producer feeds the real
// store from the real initial state; symbolic 256-bit root.
// ---------------------------------------------------------------------------

const c06MaxK = 64

func VerifC06SmallTree() {
	vUnwind(4096)
	vInjective("sha256")
	vAssumption("SHA-256 is an uninterpreted function; collision-freeness is assumed only on the applications occurring in a query (needed for 'wrong secret is rejected')")
	K := vChoice("K", c06MaxK+1)
	root := c06Hash("root")
	prod := NewRevocationProducer(root)
	store := NewRevocationStore()

	// the producer survives its own serialisation
	var pbuf bytes.Buffer
	if err := prod.Encode(&pbuf); err != nil {
		vAssert(false, "producer Encode succeeds")
		return
	}
	prod2, err := NewRevocationProducerFromBytes(pbuf.Bytes())
	if err != nil || prod2 == nil {
		vAssert(false, "producer decodes")
		return
	}
	vAssert(prod2.root.index == prod.root.index && prod2.root.hash == root, "producer round trip keeps the root")
	prod = prod2
	var secrets [c06MaxK]chainhash.Hash

	for n := 0; n < K; n++ {
		v := uint64(n)

		// producer = BOLT-3 generate_from_seed(root, 2^48-1-v)
		sec, err := prod.AtIndex(v)
		if err != nil || sec == nil {
			vAssert(false, "producer yields every secret of the chain")
			return
		}
		vAssert(*sec == c06Generate(root, 48, c06Top-v), "producer secret equals BOLT-3 generate_from_seed")
		secrets[n] = *sec

		// a secret that is not the next one of the chain is rejected whenever
		// BOLT-3 can tell (index with at least one trailing zero <=> v odd)
		if n%2 == 1 {
			bad := c06Hash("bad")
			vAssume(bad != *sec)
			cp := *store
			errBad := cp.AddNextEntry(&bad)
			vAssert(errBad != nil, "a secret inconsistent with the earlier ones is rejected")
			vAssert(cp.index == store.index && cp.lenBuckets == store.lenBuckets, "a rejected secret does not advance the store")
			if errBad != nil {
				vReach("reject")
			}
		}

		if err := store.AddNextEntry(sec); err != nil {
			vAssert(false, "the next secret of the chain is accepted")
			return
		}

		// compactness: after n+1 secrets at most bitlen(n+1) <= 49 values
		vAssert(store.lenBuckets <= c06BitLen(v+1), "number of stored values is at most bitlen(received)")
		vAssert(store.lenBuckets <= 49, "at most 49 stored values")

		// across serialisation: continue with the decoded store
		dec := c06RoundTrip(store)
		if dec == nil {
			return
		}
		store = dec

		// every received secret is reproduced exactly
		for i := 0; i <= n; i++ {
			got, err := store.LookUp(uint64(i))
			if err != nil || got == nil {
				vAssert(false, "every received secret can be looked up")
				return
			}
			vAssert(*got == secrets[i], "looked-up secret equals the received one")
		}

		// nothing that was not received can be looked up (any uint64 beyond)
		u := vU64("unreceived")
		vAssume(u > v)
		_, errU := store.LookUp(u)
		vAssert(errU != nil, "a secret that was not received cannot be looked up")
	}
	vReach("filled")
}

// ---------------------------------------------------------------------------
// (2) inductive step of AddNextEntry over the whole 2^48 index space.
//
// Representation invariant G(I) of a store whose next index is I (all that a
// history of correct insertions 2^48-1, ..., I+1 can produce):
//   * index = I, lenBuckets = bitlen(2^48-1-I) (number of received secrets);
//   * for every used bucket i: buckets[i] = (J, secret(J)) where J is the most
//     recently received index with exactly i trailing zeros; in particular
//     I < J <= 2^48-1, and for i < ctz(I): J = I + 2^i, whose BOLT-3 secret is
//     flip-and-hash(secret(I), i).
// The pre-state below assumes only this much: buckets at or above ctz(I) are
// otherwise arbitrary (any index in (I, 2^48), any secret), unused buckets are
// completely arbitrary, the secret `a` of index I is arbitrary.
// ---------------------------------------------------------------------------

func c06StepState(b uint8, L uint8, I uint64, a chainhash.Hash) *RevocationStore {
	st := &RevocationStore{lenBuckets: L, index: index(I)}
	for i := uint8(0); i < maxHeight; i++ {
		if i < b {
			st.buckets[i] = element{index: index(I + uint64(1)<<i), hash: c06Flip(a, uint(i))}
			continue
		}
		e := element{hash: c06Hash("bucketHash")}
		if i < L {
			// G(I): a used bucket i holds an already received index with
			// exactly i trailing zeros
			e.index = index(c06Index48(vU64("bucketHi"), i))
			vAssume(uint64(e.index) > I)
		} else {
			e.index = index(vU64("bucketIndex"))
		}
		st.buckets[i] = e
	}
	return st
}

// c06QuickHeights are the tree heights (numbers of trailing zeros) sampled by
// the quick tier (two groups, 255 = unused slot); the thorough tier takes
// every height.
var c06QuickHeights = [2][4]uint8{{0, 1, 47, 48}, {2, 7, 23, 255}}

// c06Height picks a height in [lo, hi]. `deep` (0 quick, 1 thorough) is pinned
// by spec.json; the height choice is pinned per shard or explored in-process.
func c06Height(name string, deep int, lo, hi uint8) uint8 {
	var h uint8
	if deep == 0 {
		g := vChoice(name+"g", 2)
		h = c06QuickHeights[g][vChoice(name+"q", 4)]
	} else {
		h = uint8(4*vChoice(name+"G", 13) + vChoice(name+"K", 4))
	}
	if h < lo || h > hi {
		vAssume(false)
	}
	return h
}

// c06StepDomain draws (b, L, I) with ctz(I) = b stated in plain bit arithmetic
// and L = bitlen(received). `deep` is pinned by the tier (spec.json shards).
func c06StepDomain() (b uint8, L uint8, I uint64) {
	deep := vChoice("deep", 2)
	b = c06Height("b", deep, 0, 47)
	// number of stored values before the step: b (first index with b trailing
	// zeros: bucket b is new), b+2, b+3 (b+1 is impossible: the second index
	// with b trailing zeros arrives after 3*2^b - 1 secrets), half way, 47, 48
	var m int
	if deep == 0 {
		m = [...]int{0, 2, 5}[vChoice("Lq", 3)]
	} else {
		m = vChoice("Lt", 6)
	}
	switch m {
	case 0:
		L = b
	case 1:
		L = b + 3
	case 2:
		L = b + 2
	case 3:
		L = (b + 48) / 2
	case 4:
		L = 47
	default:
		L = 48
	}
	if L > 48 || (m != 5 && L == 48) || (m == 3 && L <= b+3) || (m == 4 && L <= (b+48)/2) {
		vAssume(false) // out of range or already covered by another case
	}
	I = c06Index48(vU64("Ihi"), b)     // any 48-bit index with exactly b trailing zeros
	vAssume(c06HasBitLen(c06Top-I, L)) // L values stored after 2^48-1-I secrets
	return b, L, I
}

// c06WithCtz returns hi*2^(z+1) + 2^z: every 64-bit number with exactly z
// trailing zeros (z < 64) is of this form for some hi, and only those.
func c06WithCtz(hi uint64, z uint8) uint64 {
	return hi<<(z+1) | uint64(1)<<z
}

// c06Index48 returns every 48-bit index with exactly z trailing zeros
// (z < 48): hi is cut to its low 47-z bits.
func c06Index48(hi uint64, z uint8) uint64 {
	return c06WithCtz(hi&(uint64(1)<<(47-z)-1), z)
}

// c06HasBitLen: l is the number of bits needed to write n, i.e.
// 2^(l-1) <= n < 2^l (l = 0 iff n = 0). No data-dependent control flow on n.
func c06HasBitLen(n uint64, l uint8) bool {
	if l == 0 {
		return n == 0
	}
	if l > 64 {
		return false
	}
	return n>>(l-1) == 1
}

func VerifC06Step() {
	vUnwind(4096)
	vInjective("sha256")
	vAssumption("SHA-256 is an uninterpreted function; collision-freeness is assumed only on the applications occurring in a query (needed for 'wrong secret is rejected')")
	vAssumption("pre-state of the inductive step: representation invariant G(I) as written in the harness; b = 48 (index 0) is the separate entry VerifC06StepLast")
	b, L, I := c06StepDomain()
	a := c06Hash("a")
	st := c06StepState(b, L, I, a)
	pre := *st

	// a different secret for the same index is rejected as soon as BOLT-3 can
	// tell (b >= 1); nothing is stored
	if b >= 1 {
		x := c06Hash("x")
		vAssume(x != a)
		cp := pre
		errX := cp.AddNextEntry(&x)
		vAssert(errX != nil, "step: a secret inconsistent with the stored ones is rejected")
		vAssert(cp.index == pre.index && cp.lenBuckets == pre.lenBuckets, "step: a rejected secret does not advance the store")
		for i := 0; i < int(maxHeight); i++ {
			vAssert(cp.buckets[i] == pre.buckets[i], "step: a rejected secret does not change a bucket")
		}
		if errX != nil {
			vReach("reject")
		}
	}

	// the secret of the chain is accepted and G(I-1) holds afterwards
	if err := st.AddNextEntry(&a); err != nil {
		vAssert(false, "step: the next secret of the chain is accepted")
		return
	}
	vReach("accept")
	vAssert(uint64(st.index) == I-1, "step: next index decreases by one")
	for i := 0; i < int(maxHeight); i++ {
		if uint8(i) == b {
			vAssert(uint64(st.buckets[i].index) == I && st.buckets[i].hash == a, "step: bucket ctz(I) holds the new secret")
		} else {
			vAssert(st.buckets[i] == pre.buckets[i], "step: the other buckets are unchanged")
		}
	}
	vAssert(c06HasBitLen(c06Top-I+1, st.lenBuckets), "step: number of stored values is bitlen(received)")
	vAssert(st.lenBuckets <= 49, "step: at most 49 stored values")

	// across serialisation
	dec := c06RoundTrip(st)
	if dec == nil {
		return
	}
	st = dec

	// the secret just received is reproduced
	got, err := st.LookUp(c06Top - I)
	if err != nil || got == nil {
		vAssert(false, "step: the secret just received can be looked up")
		return
	}
	vAssert(*got == a, "step: the looked-up secret equals the received one")

	// nothing below the next index (nor beyond 2^48) can be looked up
	u := vU64("unreceived")
	vAssume(u > c06Top-I)
	_, errU := st.LookUp(u)
	vAssert(errU != nil, "step: a secret that was not received cannot be looked up")
}

// The last index of the chain: I = 0 (48 trailing zeros), i.e. the 2^48-th
// secret. BOLT-3 stores it as the 49th value. The pre-state is G(0): all 48
// buckets in use, bucket i = (2^i, flip-and-hash(a, i)); it is taken through
// Encode / NewRevocationStoreFromBytes first, i.e. it is what lnd reads back
// from its database before the last revocation arrives.
func VerifC06StepLast() {
	vUnwind(4096)
	a := c06Hash("a")
	st := &RevocationStore{lenBuckets: maxHeight, index: 0}
	for i := uint8(0); i < maxHeight; i++ {
		st.buckets[i] = element{index: index(uint64(1) << i), hash: c06Flip(a, uint(i))}
	}
	st = c06RoundTrip(st)
	if st == nil {
		return
	}
	if err := st.AddNextEntry(&a); err != nil {
		vAssert(false, "last: the secret of index 0 (consistent with all 48 stored ones) is accepted")
		return
	}
	got, err := st.LookUp(c06Top)
	if err != nil || got == nil {
		vAssert(false, "last: the secret of index 0 can be looked up")
		return
	}
	vAssert(*got == a, "last: the looked-up secret of index 0 equals the received one")
	// the complete store (49 values, BOLT-3's maximum) survives a reload and
	// still yields the secrets
	vAssert(st.lenBuckets == maxHeight+1, "last: the complete store holds 49 values")
	dec := c06RoundTrip(st)
	if dec == nil {
		return
	}
	got2, err := dec.LookUp(c06Top)
	vAssert(err == nil && got2 != nil && *got2 == a, "last: the reloaded complete store still yields the secret of index 0")
	got3, err := dec.LookUp(c06Top - 1)
	vAssert(err == nil && got3 != nil && *got3 == c06Flip(a, 0), "last: the reloaded complete store still yields the secret of index 1")
}

// ---------------------------------------------------------------------------
// (2b) LookUp in the state the step leaves behind: after the secret of I
// (b trailing zeros) was stored, every index of I's subtree [I, I+2^b) is
// reproduced as BOLT-3 generates it from that secret. The low b bits of the
// target are sampled structurally: a window of w symbolic bits at position s,
// the remaining low bits all 0 or all 1.
// ---------------------------------------------------------------------------

// c06Window draws the low bits (below z) of a target: returns them and z' = z.
func c06Window(z uint8, deep int) uint64 {
	if z == 0 {
		return 0
	}
	w := uint8(3)
	if deep == 1 {
		w = 4
	}
	if w > z {
		w = z
	}
	// window positions: quick {0, z-w}; thorough 0, w, 2w, ... and z-w
	var s uint8
	if deep == 0 {
		if vChoice("win", 2) == 1 {
			s = z - w
		}
	} else {
		k := uint8(vChoice("win", 13))
		if k == 12 {
			s = z - w
		} else {
			s = k * w
			if s+w > z {
				vAssume(false)
			}
		}
	}
	fill := vChoice("fill", 2)
	pat := uint64(vU8("pattern")) & (uint64(1)<<w - 1)
	low := pat << s
	if fill == 1 {
		low |= (uint64(1)<<z - 1) &^ ((uint64(1)<<w - 1) << s)
	}
	return low
}

func VerifC06LookupSubtree() {
	vUnwind(4096)
	deep := vChoice("deep", 2)
	b := c06Height("b", deep, 1, 47)
	I := c06Index48(vU64("Ihi"), b)
	a := c06Hash("a")
	// the state asserted by VerifC06Step after storing (I, a); buckets above b
	// are not consulted before a lower one answers and stay unused here
	st := &RevocationStore{lenBuckets: b + 1, index: index(I - 1)}
	for i := uint8(0); i < b; i++ {
		st.buckets[i] = element{index: index(I + uint64(1)<<i), hash: c06Flip(a, uint(i))}
	}
	st.buckets[b] = element{index: index(I), hash: a}

	low := c06Window(b, deep)
	T := I | low
	want := c06Generate(a, uint(b), low)
	got, err := st.LookUp(c06Top - T)
	if err != nil || got == nil {
		vAssert(false, "subtree: every index below the stored one can be looked up")
		return
	}
	vAssert(*got == want, "subtree: looked-up secret equals BOLT-3 derivation from the stored secret")
	vReach("found")
}

// ---------------------------------------------------------------------------
// (3) element.derive / index.deriveBitTransformations against the plain
// definition of the BOLT-3 tree.
//   mode 0 (full width): for ALL 64-bit pairs (from, to) with to outside
//     from's subtree, or to == from: derivation succeeds iff to is in the
//     subtree.
//   mode 1: to inside the subtree (from any 64-bit index with z trailing
//     zeros, z capped at 48): succeeds, positions are exactly the bits in which
//     to differs from from in descending order, derived secret = BOLT-3.
//     Low bits of `to` sampled by window as above.
// ---------------------------------------------------------------------------

func c06InSubtree(from, to uint64) bool {
	// size of from's subtree: its lowest set bit, capped at 2^48 (tree height)
	span := from & (^from + 1)
	if span == 0 || span > uint64(1)<<48 {
		span = uint64(1) << 48
	}
	return to >= from && to-from < span
}

func c06CheckPositions(from, to uint64, z uint8) {
	pos, err := index(from).deriveBitTransformations(index(to))
	if err != nil {
		vAssert(false, "derive: bit transformations exist for a target inside the subtree")
		return
	}
	acc := from
	prev := uint8(64)
	for _, p := range pos {
		vAssert(p < prev && p < z, "derive: positions strictly descending and below ctz(from)")
		prev = p
		acc |= uint64(1) << p
	}
	vAssert(acc == to, "derive: flipping the returned positions turns from into to")
}

func VerifC06Derive() {
	vUnwind(4096)
	g := c06Hash("g")
	if vChoice("mode", 2) == 0 {
		from, to := vU64("from"), vU64("to")
		in := c06InSubtree(from, to)
		vAssume(!in || to == from)
		e := &element{index: index(from), hash: g}
		r, err := e.derive(index(to))
		vAssert((err == nil) == in, "derive: succeeds iff the target is in the subtree")
		_, err2 := index(from).deriveBitTransformations(index(to))
		vAssert((err2 == nil) == in, "deriveBitTransformations: succeeds iff the target is in the subtree")
		if err == nil && r != nil {
			vReach("same-index")
			vAssert(uint64(r.index) == to && r.hash == g, "derive: an index derives itself unchanged")
		} else {
			vReach("rejected")
		}
		return
	}
	deep := vChoice("deep", 2)
	z := c06Height("z", deep, 0, 48)
	var from uint64
	if z < 48 {
		from = c06WithCtz(vU64("fromHi"), z) // any 64-bit index with z trailing zeros
	} else {
		from = vU64("fromHi") << 48 // 48 or more trailing zeros: the tree is 48 high
	}
	low := c06Window(z, deep)
	to := from | low
	vAssert(c06InSubtree(from, to), "derive: sampled target is inside the subtree (self-check of the oracle)")
	e := &element{index: index(from), hash: g}
	r, err := e.derive(index(to))
	if err != nil || r == nil {
		vAssert(false, "derive: succeeds for a target inside the subtree")
		return
	}
	vAssert(uint64(r.index) == to, "derive: result carries the target index")
	vAssert(r.hash == c06Generate(g, uint(z), low), "derive: derived secret equals BOLT-3 derivation")
	c06CheckPositions(from, to, z)
	vReach("derived")
}

// ---------------------------------------------------------------------------
// (codec) any store content survives Encode / NewRevocationStoreFromBytes.
// ---------------------------------------------------------------------------

func VerifC06Codec() {
	vUnwind(4096)
	L := uint8(vChoice("L", 49))
	st := &RevocationStore{lenBuckets: L, index: index(vU64("index"))}
	for i := uint8(0); i < L; i++ {
		st.buckets[i] = element{index: index(vU64("bucketIndex")), hash: c06Hash("bucketHash")}
	}
	if c06RoundTrip(st) != nil {
		vReach("roundtrip")
	}
}
