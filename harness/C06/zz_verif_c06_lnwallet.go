package lnwallet

// Harness for C06, lnwallet part (DESIGN §7 C06 obligation 4 and the acceptance
// rule of ReceiveRevocation).
//
// Units executed symbolically (real lnd code):
//   (*LightningChannel).ReceiveRevocation up to and including the commitment
//   point check, and on the accepting path the rest of it (unsignedLocalUpdates,
//   chanstate.NewFwdPkg, (*chanstate.OpenChannel).AdvanceCommitChainTail,
//   commitmentChain.advanceTail, compactLogs on empty logs);
//   input.ComputeCommitmentPoint, btcec.PrivKeyFromBytes,
//   secp256k1.PrivKeyFromBytes, (*ModNScalar).SetByteSlice/SetBytes/overflows/
//   reduce256 (the reduction of the 32 wire bytes modulo the group order),
//   (*PublicKey).IsEqual, (*FieldVal).Equals;
//   (*LightningChannel).RevokeCurrentCommitment, generateRevocation,
//   (*commitment).toDiskCommit, getUnsignedAckedUpdates,
//   (*chanstate.OpenChannel).UpdateCommitment, lnwire.NewChanIDFromOutPoint;
//   in VerifC06RecvRejectKeepsStore additionally the real
//   shachain.RevocationStore (NewRevocationStore, AddNextEntry, LookUp, Encode).
//
// Idealised (vReplace, symbolic engine only; natively the real btcec code
// runs): (*secp256k1.PrivateKey).PubKey, i.e. scalar multiplication of the
// base point. The ideal curve (c06PubRepl):
//   * key -> compressed point is the uninterpreted function c06pub from the
//     reduced 256-bit scalar to 33 bytes whose first byte is 2 or 3 (parity of
//     y) and whose other 32 bytes are the x coordinate; injective;
//   * for the one scalar s the harness registers, negation is the second ideal
//     function c06neg: key(c06neg(s)) maps to the point with the SAME 32 x
//     bytes and the OTHER parity byte; no third scalar has that x coordinate.
// Natively the negated secret is n - s computed by btcec's ModNScalar.Negate.
// findOutputIndexesFromRemote is replaced by its value on a commitment
// transaction without outputs (as in C02; natively the real one runs on such a
// transaction).
//
// Fakes behind interfaces lnd already has: chanstate.Store (c06ChanStore: only
// UpdateChannelCommitment and AdvanceCommitChainTail exist), shachain.Store
// (c06RevStore: records AddNextEntry, rejects on a symbolic flag),
// shachain.Producer (c06Producer: ideal secret function sec(h), records the
// heights asked for).
//
// Oracle (from the property text, no call into the code under test): the
// offered 32 bytes are accepted exactly when they are, as a scalar modulo the
// group order, the private key of the point stored for the peer's current
// commitment; every refusal changes nothing. A revoke_and_ack we hand out
// carries sec(h) and the point of sec(h+2) for the height h that a newer,
// stored commitment h+1 supersedes; without such a newer commitment nothing is
// handed out.

import (
	"bytes"
	"errors"
	"io"

	"github.com/btcsuite/btcd/btcec/v2"
	"github.com/btcsuite/btcd/chainhash/v2"
	"github.com/btcsuite/btcd/wire/v2"
	"github.com/lightningnetwork/lnd/chanstate"
	"github.com/lightningnetwork/lnd/fn/v2"
	"github.com/lightningnetwork/lnd/input"
	"github.com/lightningnetwork/lnd/lntypes"
	"github.com/lightningnetwork/lnd/lnwire"
	"github.com/lightningnetwork/lnd/shachain"
)

// ---------------------------------------------------------------------------
// ideal curve
// ---------------------------------------------------------------------------

// c06Pair: the one scalar whose negation the harness offers (symbolic run
// only). s and neg are the reduced scalars, x the 32 x bytes of point(s).
var c06Pair struct {
	set    bool
	s, neg btcec.ModNScalar
	x      [32]byte
}

// c06KeyBytes: canonical 32-byte big-endian form of a reduced scalar (plain
// shifts; the argument of the ideal function).
func c06KeyBytes(k *btcec.ModNScalar) []byte {
	b := k.Bytes()
	return b[:]
}

// c06PubRepl stands in for (*secp256k1.PrivateKey).PubKey under the symbolic
// engine.
func c06PubRepl(p *btcec.PrivateKey) *btcec.PublicKey {
	k := p.Key
	flip := byte(0)
	if c06Pair.set && k.Equals(&c06Pair.neg) {
		// the negation of the registered scalar: same x, other parity
		k = c06Pair.s
		flip = 1
	}
	h := vHash("c06pub", 33, c06KeyBytes(&k))
	// range of the ideal function: compressed points
	vAssume(h[0] == 2 || h[0] == 3)
	if c06Pair.set && flip == 0 && !k.Equals(&c06Pair.s) {
		// an x coordinate belongs to exactly two scalars, s and n - s
		vAssume(!bytes.Equal(h[1:33], c06Pair.x[:]))
	}
	var x, y btcec.FieldVal
	x.SetByteSlice(h[1:33])
	y.SetInt(uint16(2 + (h[0]^flip)&1))
	return btcec.NewPublicKey(&x, &y)
}

// c06NoIndexes stands in for findOutputIndexesFromRemote under the symbolic
// engine: the remote commitment transaction of the harness has no outputs.
func c06NoIndexes(*chainhash.Hash, *chanstate.OpenChannel, fn.Option[AuxLeafStore]) (uint32, uint32, error) {
	return uint32(chanstate.OutputIndexEmpty), uint32(chanstate.OutputIndexEmpty), nil
}

func c06Config() {
	vReplace("(*github.com/decred/dcrd/dcrec/secp256k1/v4.PrivateKey).PubKey", "github.com/lightningnetwork/lnd/lnwallet.c06PubRepl")
	vReplace("github.com/lightningnetwork/lnd/lnwallet.findOutputIndexesFromRemote", "github.com/lightningnetwork/lnd/lnwallet.c06NoIndexes")
	vInjective("c06pub")
	vAssumption("C06-lnwallet: ideal curve: scalar (reduced mod n by the real ModNScalar code) -> compressed 33-byte point is an injective uninterpreted function with the parity byte part of the value; negation is a second ideal function giving the same 32 x bytes and the other parity byte, and no third scalar shares an x coordinate; natively the real btcec code runs and the negated secret is n - s; findOutputIndexesFromRemote is replaced by its value on a commitment transaction without outputs; channel store, shachain store and shachain producer are fakes behind chanstate.Store, shachain.Store, shachain.Producer")
}

// c06Key: the scalar the real code makes of 32 wire bytes.
func c06Key(b []byte) btcec.ModNScalar {
	var k btcec.ModNScalar
	k.SetByteSlice(b)
	return k
}

// c06Negated returns the 32 bytes of the negated scalar and registers the pair
// with the ideal curve.
func c06Negated(s []byte) []byte {
	if vNative() {
		k := c06Key(s)
		k.Negate()
		return c06KeyBytes(&k)
	}
	neg := vHash("c06neg", 32, s)
	c06Pair.s, c06Pair.neg = c06Key(s), c06Key(neg)
	ks := c06Pair.s
	copy(c06Pair.x[:], vHash("c06pub", 33, c06KeyBytes(&ks))[1:33])
	c06Pair.set = true
	return neg
}

// ---------------------------------------------------------------------------
// fakes
// ---------------------------------------------------------------------------

var (
	c06ErrRevStore = errors.New("c06: shachain store rejects the secret")
	c06ErrUpdate   = errors.New("c06: UpdateChannelCommitment failed")
)

type c06RevStore struct {
	fails bool
	added []chainhash.Hash
}

func (s *c06RevStore) LookUp(uint64) (*chainhash.Hash, error) {
	return nil, errors.New("c06: unexpected LookUp")
}
func (s *c06RevStore) AddNextEntry(h *chainhash.Hash) error {
	if s.fails {
		return c06ErrRevStore
	}
	s.added = append(s.added, *h)
	return nil
}
func (s *c06RevStore) Encode(io.Writer) error { return nil }

func c06U64(h uint64) []byte {
	b := make([]byte, 8)
	for i := 0; i < 8; i++ {
		b[i] = byte(h >> (8 * uint(7-i)))
	}
	return b
}

// c06Sec: our ideal per-commitment secret of height h.
func c06Sec(h uint64) *chainhash.Hash {
	var r chainhash.Hash
	copy(r[:], vHash("c06sec", 32, c06U64(h)))
	return &r
}

type c06Producer struct{ calls []uint64 }

func (p *c06Producer) AtIndex(h uint64) (*chainhash.Hash, error) {
	p.calls = append(p.calls, h)
	return c06Sec(h), nil
}
func (p *c06Producer) Encode(io.Writer) error { return nil }

// c06ChanStore: the channel database. AdvanceCommitChainTail follows the
// contract of the real store (one transaction: stores the package, writes the
// revocation state incl. the shachain store, promotes the pending remote
// commitment). It notes how many secrets the shachain store held when written.
type c06ChanStore struct {
	chanstate.Store

	updFails  bool
	updCalls  int
	updHeight uint64

	advCalls   int
	advPkg     *chanstate.FwdPkg
	advSecrets int
	newRemote  chanstate.ChannelCommitment
}

func (s *c06ChanStore) UpdateChannelCommitment(ch *chanstate.OpenChannel, c *chanstate.ChannelCommitment,
	upds []chanstate.LogUpdate) (map[uint64]bool, error) {

	s.updCalls++
	if s.updFails {
		return nil, c06ErrUpdate
	}
	s.updHeight = c.CommitHeight
	return nil, nil
}

func (s *c06ChanStore) AdvanceCommitChainTail(ch *chanstate.OpenChannel, pkg *chanstate.FwdPkg,
	upds []chanstate.LogUpdate, our, their uint32) error {

	s.advCalls++
	s.advPkg = pkg
	if rs, ok := ch.RevocationStore.(*c06RevStore); ok {
		s.advSecrets = len(rs.added)
	}
	ch.RemoteCommitment = s.newRemote
	return nil
}

// c06NativeKeys (native replay only): the real findOutputIndexesFromRemote
// derives a key ring from the channel configs; give it real points.
func c06NativeKeys(st *chanstate.OpenChannel) {
	k := func(i byte) *btcec.PublicKey {
		var s [32]byte
		s[31] = i
		_, pub := btcec.PrivKeyFromBytes(s[:])
		return pub
	}
	for i, cfg := range []*chanstate.ChannelConfig{&st.LocalChanCfg, &st.RemoteChanCfg} {
		b := byte(10 * (i + 1))
		cfg.MultiSigKey.PubKey = k(b + 1)
		cfg.RevocationBasePoint.PubKey = k(b + 2)
		cfg.PaymentBasePoint.PubKey = k(b + 3)
		cfg.DelayBasePoint.PubKey = k(b + 4)
		cfg.HtlcBasePoint.PubKey = k(b + 5)
	}
}

var c06ChanTypes = [...]chanstate.ChannelType{
	chanstate.SingleFunderBit,
	chanstate.SingleFunderTweaklessBit,
	chanstate.SingleFunderTweaklessBit | chanstate.AnchorOutputsBit | chanstate.ZeroHtlcTxFeeBit,
	chanstate.SingleFunderTweaklessBit | chanstate.AnchorOutputsBit | chanstate.ZeroHtlcTxFeeBit | chanstate.LeaseExpirationBit,
}

func c06Outpoint() wire.OutPoint {
	var op wire.OutPoint
	copy(op.Hash[:], vBytes("fundingTxid", 32))
	op.Index = uint32(vU16("fundingIndex"))
	return op
}

// ---------------------------------------------------------------------------
// (a) ReceiveRevocation: which secret is accepted
// ---------------------------------------------------------------------------

const (
	c06OfferRight = iota // the secret s of the stored current point
	c06OfferNeg          // n - s: same x coordinate, other parity
	c06OfferOther        // any scalar that is neither
	c06OfferNext         // the secret of the peer's NEXT point (out of order)
	c06NumOffers
)

type c06RecvWorld struct {
	lc            *LightningChannel
	st            *chanstate.OpenChannel
	db            *c06ChanStore
	rTail, rTip   *commitment
	curPt, nextPt *btcec.PublicKey
	msgPt         *btcec.PublicKey
	secret        [32]byte // s
	offered       [32]byte
	r             uint64
}

// c06RecvSetup builds a channel that waits for the peer's revoke_and_ack of
// remote height r (remote chain [r, r+1], a pending commitment stored) and the
// revocation the peer offers.
func c06RecvSetup(offer int, revStore shachain.Store) *c06RecvWorld {
	c06Config()
	w := &c06RecvWorld{}
	r := vU64("remoteTailHeight")
	l := vU64("localTailHeight")
	// Domain: r+1 does not wrap (48-bit commitment numbers).
	vAssume(r < ^uint64(0))
	w.r = r

	// the peer's per-commitment secret of height r: any 32 bytes whose
	// scalar is not 0 (the stored point was parsed from the wire by
	// btcec.ParsePubKey, which has no encoding for the point at infinity)
	s := vBytes("secret", 32)
	ks := c06Key(s)
	vAssume(!ks.IsZero())
	neg := c06Negated(s)
	kneg := c06Key(neg)
	// n is odd, so n - s differs from s and is not 0 either (a fact of the
	// real curve, an assumption on the ideal function c06neg)
	vAssume(!kneg.Equals(&ks) && !kneg.IsZero())
	// the secret of the peer's next point: any other scalar
	s2 := vBytes("nextSecret", 32)
	ks2 := c06Key(s2)
	vAssume(!ks2.Equals(&ks) && !ks2.Equals(&kneg))

	copy(w.secret[:], s)
	switch offer {
	case c06OfferRight:
		copy(w.offered[:], s)
	case c06OfferNeg:
		copy(w.offered[:], neg)
	case c06OfferOther:
		x := vBytes("otherSecret", 32)
		kx := c06Key(x)
		// complete case split over scalars: not s and not n - s
		vAssume(!kx.Equals(&ks) && !kx.Equals(&kneg))
		copy(w.offered[:], x)
	case c06OfferNext:
		copy(w.offered[:], s2)
	}

	w.curPt = input.ComputeCommitmentPoint(s)
	w.nextPt = input.ComputeCommitmentPoint(s2)
	var s3 [32]byte
	s3[31] = 7
	w.msgPt = input.ComputeCommitmentPoint(s3[:])

	ct := c06ChanTypes[vChoice("chanType", len(c06ChanTypes))]
	op := c06Outpoint()
	w.db = &c06ChanStore{}
	w.db.newRemote = chanstate.ChannelCommitment{CommitHeight: r + 1, CommitTx: &wire.MsgTx{Version: 2}}
	w.st = &chanstate.OpenChannel{
		ChanType:                ct,
		FundingOutpoint:         op,
		ShortChannelID:          lnwire.NewShortChanIDFromInt(vU64("scid")),
		RevocationProducer:      &c06Producer{},
		RevocationStore:         revStore,
		RemoteCurrentRevocation: w.curPt,
		RemoteNextRevocation:    w.nextPt,
		Db:                      w.db,
	}
	w.st.LocalCommitment.CommitHeight = l
	w.st.RemoteCommitment = chanstate.ChannelCommitment{CommitHeight: r, CommitTx: &wire.MsgTx{Version: 2}}
	if vNative() {
		c06NativeKeys(w.st)
	}

	lch := newCommitmentChain()
	lch.addCommitment(&commitment{height: l, whoseCommit: lntypes.Local})
	rch := newCommitmentChain()
	w.rTail = &commitment{height: r, whoseCommit: lntypes.Remote}
	w.rTip = &commitment{height: r + 1, whoseCommit: lntypes.Remote}
	rch.addCommitment(w.rTail)
	rch.addCommitment(w.rTip)
	w.lc = &LightningChannel{
		channelState:  w.st,
		currentHeight: l,
		commitChains:  lntypes.Dual[*commitmentChain]{Local: lch, Remote: rch},
		updateLogs:    lntypes.Dual[*updateLog]{Local: newUpdateLog(0, 0), Remote: newUpdateLog(0, 0)},
	}
	if vNative() {
		w.lc.log = walletLog
	}
	return w
}

func (w *c06RecvWorld) msg() *lnwire.RevokeAndAck {
	m := &lnwire.RevokeAndAck{ChanID: lnwire.NewChanIDFromOutPoint(w.st.FundingOutpoint), NextRevocationKey: w.msgPt}
	m.Revocation = w.offered
	return m
}

// unchanged: everything ReceiveRevocation may touch outside the shachain store
// is as before the call.
func (w *c06RecvWorld) assertRefused(pkg *chanstate.FwdPkg, htlcs []chanstate.HTLC, err error) {
	vAssert(err != nil, "recv: a secret that is not the private key of the stored current point is refused")
	vAssert(pkg == nil && htlcs == nil, "recv: a refusal returns no forwarding package and no HTLCs")
	vAssert(w.db.advCalls == 0, "recv: a refusal persists nothing")
	vAssert(w.lc.commitChains.Remote.tail() == w.rTail && w.lc.commitChains.Remote.tip() == w.rTip,
		"recv: a refusal does not advance the remote chain")
	vAssert(w.st.RemoteCurrentRevocation == w.curPt && w.st.RemoteNextRevocation == w.nextPt,
		"recv: a refusal does not rotate the peer's commitment points")
	vAssert(w.st.RemoteCommitment.CommitHeight == w.r, "recv: a refusal keeps the remote commitment")
}

// VerifC06RecvSecret: acceptance of the peer's secret, for every scalar.
func VerifC06RecvSecret() {
	offer := vChoice("offer", c06NumOffers)
	revStore := &c06RevStore{fails: vBool("revStoreRejects")}
	w := c06RecvSetup(offer, revStore)

	pkg, htlcs, err := w.lc.ReceiveRevocation(w.msg())

	if revStore.fails {
		// (which of the two reasons is reported for a secret that is wrong
		// on both counts is not part of the property)
		w.assertRefused(pkg, htlcs, err)
		vAssert(len(revStore.added) == 0, "recv: nothing entered the shachain store")
		vReach("shachain-rejects")
		return
	}
	if offer != c06OfferRight {
		w.assertRefused(pkg, htlcs, err)
		switch offer {
		case c06OfferNeg:
			vReach("refused-negated")
		case c06OfferOther:
			vReach("refused-other")
		case c06OfferNext:
			vReach("refused-next")
		}
		return
	}
	vAssert(err == nil && pkg != nil, "recv: the private key of the stored current point is accepted")
	if err != nil || pkg == nil {
		return
	}
	vAssert(w.db.advCalls == 1 && w.db.advPkg == pkg && pkg.Height == w.r+1, "recv: the forwarding package of the new remote height was stored, once")
	vAssert(len(revStore.added) == 1 && revStore.added[0] == chainhash.Hash(w.secret), "recv: exactly the accepted secret entered the shachain store")
	vAssert(w.db.advSecrets == 1, "recv: the secret was in the shachain store when the revocation state was written")
	vAssert(w.lc.commitChains.Remote.tail() == w.rTip && !w.lc.commitChains.Remote.hasUnackedCommitment(), "recv: the remote chain advanced by one")
	vAssert(w.st.RemoteCurrentRevocation == w.nextPt && w.st.RemoteNextRevocation == w.msgPt, "recv: the peer's commitment points rotated")
	vAssert(w.st.RemoteCommitment.CommitHeight == w.r+1, "recv: the pending remote commitment was promoted")
	vReach("accepted")
}

// VerifC06RecvRejectKeepsStore: "rejected with no state change" for the
// in-memory shachain store, on the REAL shachain.RevocationStore of a fresh
// channel (the first secret has an odd index, so the store itself can check
// nothing and accepts any value).
func VerifC06RecvRejectKeepsStore() {
	offer := c06OfferNeg + vChoice("offer", c06NumOffers-1)
	real := shachain.NewRevocationStore()
	w := c06RecvSetup(offer, real)
	var before bytes.Buffer
	errEnc := real.Encode(&before)

	pkg, htlcs, err := w.lc.ReceiveRevocation(w.msg())

	w.assertRefused(pkg, htlcs, err)
	if vChoice("probe", 2) == 0 {
		// vacuity witness of its own: a native witness run keeps going
		// after a failed assertion, so the label must not share a run
		// with the store assertions below while they fail (see NOTES.md,
		// CANDIDATE FINDING)
		vReach("refused")
		return
	}
	var after bytes.Buffer
	errEnc2 := real.Encode(&after)
	vAssert(errEnc == nil && errEnc2 == nil, "recv: the shachain store encodes")
	_, errLook := real.LookUp(0)
	vAssert(errLook != nil, "recv: a refused secret cannot be looked up in the shachain store")
	vAssert(bytes.Equal(before.Bytes(), after.Bytes()), "recv: a refused secret leaves the shachain store as it was")
	vReach("refused-store-kept")
}

// ---------------------------------------------------------------------------
// (b) RevokeCurrentCommitment: released only when safe, no repeats
// ---------------------------------------------------------------------------

// c06TryRevoke: a failure is an error or a Go panic; either way nothing is
// returned to the caller.
func c06TryRevoke(lc *LightningChannel) (msg *lnwire.RevokeAndAck, err error, panicked bool) {
	defer func() {
		if r := recover(); r != nil {
			if _, skip := r.(vSkip); skip {
				panic(r)
			}
			msg, err, panicked = nil, nil, true
		}
	}()
	msg, _, _, err = lc.RevokeCurrentCommitment()
	return msg, err, false
}

func c06LocalCommit(h uint64) *commitment {
	return &commitment{
		height:      h,
		whoseCommit: lntypes.Local,
		txn:         &wire.MsgTx{Version: 2},
		sig:         vBytes("cmSig", 4),
		ourBalance:  lnwire.MilliSatoshi(vU64("cmOurBalance")),
		messageIndices: lntypes.Dual[uint64]{
			Local: vU64("cmLocalLogIndex"), Remote: vU64("cmRemoteLogIndex"),
		},
	}
}

// VerifC06RevokeOnce: mode 0: local chain [h, h+1] (the peer's signature for
// h+1 was received): the first call releases sec(h) and point(sec(h+2)) after
// h+1 was stored; a second call without a new commitment fails and releases
// nothing. mode 1: local chain [h] alone (nothing new received, e.g. right
// after a reload): the call fails and releases nothing.
func VerifC06RevokeOnce() {
	c06Config()
	mode := vChoice("mode", 2)
	h := vU64("height")
	// Domain: h+3 does not wrap (48-bit commitment numbers).
	vAssume(h < ^uint64(0)-2)
	ct := chanstate.ChannelType(vU64("chanType"))
	vAssume(!ct.IsTaproot())

	db := &c06ChanStore{}
	prod := &c06Producer{}
	st := &chanstate.OpenChannel{
		ChanType:           ct,
		FundingOutpoint:    c06Outpoint(),
		RevocationProducer: prod,
		RevocationStore:    &c06RevStore{},
		Db:                 db,
	}
	st.LocalCommitment.CommitHeight = h
	lch := newCommitmentChain()
	lch.addCommitment(c06LocalCommit(h))
	if mode == 0 {
		lch.addCommitment(c06LocalCommit(h + 1))
	}
	rch := newCommitmentChain()
	rch.addCommitment(&commitment{height: vU64("remoteHeight"), whoseCommit: lntypes.Remote})
	lc := &LightningChannel{
		channelState:  st,
		currentHeight: h,
		commitChains:  lntypes.Dual[*commitmentChain]{Local: lch, Remote: rch},
		updateLogs:    lntypes.Dual[*updateLog]{Local: newUpdateLog(0, 0), Remote: newUpdateLog(0, 0)},
	}
	if vNative() {
		lc.log = walletLog
	}

	if mode == 0 {
		msg, err, panicked := c06TryRevoke(lc)
		vAssert(!panicked && err == nil && msg != nil, "revoke: with a newer commitment received the revocation is produced")
		if panicked || err != nil || msg == nil {
			return
		}
		vAssert(db.updCalls == 1 && db.updHeight == h+1 && st.LocalCommitment.CommitHeight == h+1,
			"revoke: commitment h+1 was stored before the secret of h is returned")
		vAssert(msg.Revocation == [32]byte(*c06Sec(h)), "revoke: the released secret is the one of the superseded height h")
		want := input.ComputeCommitmentPoint(c06Sec(h + 2)[:])
		vAssert(msg.NextRevocationKey != nil &&
			bytes.Equal(msg.NextRevocationKey.SerializeCompressed(), want.SerializeCompressed()),
			"revoke: the next point is the compressed point of sec(h+2), parity byte included")
		vAssert(len(prod.calls) == 2 && prod.calls[0] == h && prod.calls[1] == h+2,
			"revoke: the producer was asked for heights h and h+2 only")
		vReach("released")
	}

	// no commitment newer than the current one has been received
	stored := st.LocalCommitment.CommitHeight
	calls := db.updCalls
	msg, err, panicked := c06TryRevoke(lc)
	vAssert(msg == nil, "revoke: without a newer commitment no revoke_and_ack (no secret of the current height) is released")
	vAssert(panicked || err != nil, "revoke: without a newer commitment the call fails")
	vAssert(db.updCalls == calls && st.LocalCommitment.CommitHeight == stored,
		"revoke: a failed call stores nothing")
	vReach("refused")
	if panicked {
		// not listed in spec.json: how the call fails is not part of the property
		vReach("refused-by-panic")
	}
}
