package lnwallet

// Harness for C08 (reduced scope), lnwallet kernel K4: which settle / fail of
// an HTLC the channel state machine accepts.
//
// Units executed symbolically (real lnd code, nothing replaced):
//   (*LightningChannel).SettleHTLC, FailHTLC, MalformedFailHTLC  (we answer an
//       INCOMING HTLC: the HTLC sits in the remote update log, the answer is
//       appended to the local update log),
//   (*LightningChannel).ReceiveHTLCSettle, ReceiveFailHTLC        (the peer
//       answers our OUTGOING HTLC: the HTLC sits in the local update log, the
//       answer is appended to the remote update log),
//   updateLog.lookupHtlc / htlcHasModification / markHtlcModified /
//   appendUpdate / restoreHtlc, fn.List, fn.Set, ChannelID, ShortChanID,
//   lnwire.NewChanIDFromOutPoint.
// crypto/sha256.Sum256 is the engine's uninterpreted function sha256 (ideal
// hash); natively the real SHA-256 runs.
//
// World: a LightningChannel struct literal whose two update logs hold up to
// three HTLCs (target log) and up to one (other log), every field symbolic:
// HTLC ids (strictly increasing in log order: they come from a counter), log
// counters, amounts, payment hashes, and for every HTLC whether it already has
// a pending settle/fail (modifiedHtlcs). The payment hash of HTLC i is
// sha256(w_i) for a symbolic 32-byte w_i ("hashOf=0"; so that a counterexample
// replays through the real SHA-256), or 32 free bytes ("hashOf=1").
//
// Oracle (from the property text; no call into the code under test):
//  (S) a settle with preimage P for HTLC id x is accepted  <=>  the log that
//      holds the HTLCs offered by the other side contains an HTLC with id x,
//      that HTLC has no pending settle/fail yet, and sha256(P) equals ITS
//      payment hash; under collision-freeness P is then w_x itself;
//  (F) a fail is accepted <=> such an HTLC exists and has no pending
//      settle/fail yet;
//  an accepted answer appends exactly one entry of the right kind that names x,
//  carries P (settle) resp. the reason (fail) and exactly the SourceRef /
//  DestRef / ClosedCircuitKey handed in, and marks x (only x) as answered;
//  a refused answer changes nothing; any second answer to x is refused.

import (
	"bytes"
	"crypto/sha256"

	"github.com/lightningnetwork/lnd/chanstate"
	"github.com/lightningnetwork/lnd/graph/db/models"
	"github.com/lightningnetwork/lnd/lntypes"
	"github.com/lightningnetwork/lnd/lnwire"
)

const (
	c08lwOpSettle = iota
	c08lwOpFail
	c08lwOpMalformed // incoming side only
)

type c08lwHtlc struct {
	pd       *paymentDescriptor
	id       uint64
	rhash    [32]byte
	w        [32]byte // hashOf=0: rhash = sha256(w)
	amt      lnwire.MilliSatoshi
	modified bool
}

func c08lwArr32(name string) (r [32]byte) {
	copy(r[:], vBytes(name, 32))
	return r
}

// c08lwMkHtlc: an offered HTLC as it sits in an update log.
func c08lwMkHtlc(chanID lnwire.ChannelID, hashOf int, prev *c08lwHtlc) *c08lwHtlc {
	h := &c08lwHtlc{id: vU64("htlcId"), amt: lnwire.MilliSatoshi(vU64("htlcAmt"))}
	if prev != nil {
		// HTLC ids are handed out by a counter (updateLog.htlcCounter): strictly
		// increasing in log order.
		vAssume(prev.id < h.id)
	}
	if hashOf == 0 {
		h.w = c08lwArr32("htlcWitness")
		h.rhash = sha256.Sum256(h.w[:])
	} else {
		h.rhash = c08lwArr32("htlcRHash")
	}
	h.pd = &paymentDescriptor{
		ChanID:    chanID,
		EntryType: Add,
		HtlcIndex: h.id,
		LogIndex:  vU64("htlcLogIndex"),
		Amount:    h.amt,
		RHash:     h.rhash,
		Timeout:   vU32("htlcTimeout"),
	}
	return h
}

type c08lwLogSnap struct {
	n                     int
	logIndex, htlcCounter uint64
	nUpd, nHtlc, nMod     int
}

func c08lwSnap(l *updateLog) c08lwLogSnap {
	return c08lwLogSnap{n: l.Len(), logIndex: l.logIndex, htlcCounter: l.htlcCounter,
		nUpd: len(l.updateIndex), nHtlc: len(l.htlcIndex), nMod: len(l.modifiedHtlcs)}
}

// c08lwHtlcsIntact: the log still holds exactly these HTLCs, in order, with
// their identifying fields untouched, and `mods` says which are answered.
func c08lwHtlcsIntact(l *updateLog, hs []*c08lwHtlc, extra int) bool {
	if l.Len() != len(hs)+extra {
		return false
	}
	ok := true
	e := l.Front()
	for _, h := range hs {
		pd := e.Value
		ok = ok && pd == h.pd && pd.EntryType == Add && pd.HtlcIndex == h.id && pd.RHash == PaymentHash(h.rhash) &&
			pd.Amount == h.amt && l.htlcHasModification(h.id) == h.modified
		e = e.Next()
	}
	return ok
}

// c08lwAnswer calls the real method for (side, op).
func c08lwAnswer(lc *LightningChannel, side, op int, x uint64, pre [32]byte, reason []byte,
	code lnwire.FailCode, shaOnion [32]byte, src *chanstate.AddRef, dst *chanstate.SettleFailRef,
	ck *models.CircuitKey) error {

	if side == 0 {
		switch op {
		case c08lwOpSettle:
			return lc.SettleHTLC(pre, x, src, dst, ck)
		case c08lwOpFail:
			return lc.FailHTLC(x, reason, src, dst, ck)
		default:
			return lc.MalformedFailHTLC(x, code, shaOnion, src)
		}
	}
	if op == c08lwOpSettle {
		return lc.ReceiveHTLCSettle(pre, x)
	}
	return lc.ReceiveFailHTLC(x, reason)
}

func c08lwSettleFail(maxHtlcs int, deep bool) {
	vInjective("sha256")
	vAssumption("C08-K4: SHA-256 is an ideal (uninterpreted, collision-free) function; payment hashes in the log are sha256 of some 32-byte string (hashOf=0) or free 32 bytes (hashOf=1, thorough)")

	// side 0: we answer an incoming HTLC; side 1: the peer answers our
	// outgoing HTLC.
	side := vChoice("side", 2)
	nOps := 3 - side
	op := vChoice("op", nOps)
	hashOf := 0
	if deep {
		hashOf = vChoice("hashOf", 2)
	}

	var opnt = c08lwOutpoint()
	chanID := c08lwRefChanID(opnt)
	st := &chanstate.OpenChannel{
		FundingOutpoint: opnt,
		ShortChannelID:  lnwire.NewShortChanIDFromInt(vU64("scid")),
	}

	// target log: HTLCs offered by the party that does NOT answer.
	n := maxHtlcs
	if deep {
		n = vChoice("nHtlcs", maxHtlcs+1)
	}
	tlog := newUpdateLog(vU64("tLogCounter"), vU64("tHtlcCounter"))
	var hs []*c08lwHtlc
	for i := 0; i < n; i++ {
		var prev *c08lwHtlc
		if i > 0 {
			prev = hs[i-1]
		}
		h := c08lwMkHtlc(chanID, hashOf, prev)
		// ids in the log are below the counter
		vAssume(h.id < tlog.htlcCounter)
		tlog.restoreHtlc(h.pd)
		h.modified = vBool("htlcAnswered")
		if h.modified {
			tlog.markHtlcModified(h.id)
		}
		hs = append(hs, h)
	}
	// the other log (where the answer is appended) holds one HTLC offered by
	// the answering party; its id may coincide with ids of the target log (the
	// two id spaces are independent).
	alog := newUpdateLog(vU64("aLogCounter"), vU64("aHtlcCounter"))
	own := c08lwMkHtlc(chanID, hashOf, nil)
	vAssume(own.id < alog.htlcCounter && own.pd.LogIndex < alog.logIndex)
	alog.restoreHtlc(own.pd)
	own.modified = vBool("ownAnswered")
	if own.modified {
		alog.markHtlcModified(own.id)
	}
	// Domain: the log counter does not wrap (one increment per update message
	// ever sent on the channel).
	vAssume(alog.logIndex < ^uint64(0))

	lc := &LightningChannel{channelState: st}
	if side == 0 {
		lc.updateLogs = lntypes.Dual[*updateLog]{Local: alog, Remote: tlog}
	} else {
		lc.updateLogs = lntypes.Dual[*updateLog]{Local: tlog, Remote: alog}
	}
	if vNative() {
		lc.log = walletLog
	}

	// the answer
	x := vU64("answerHtlcId")
	pre := c08lwArr32("answerPreimage")
	reason := vBytes("answerReason", 3)
	code := lnwire.FailCode(vU16("answerFailCode"))
	shaOnion := c08lwArr32("answerShaOnion")
	var (
		src *chanstate.AddRef
		dst *chanstate.SettleFailRef
		ck  *models.CircuitKey
	)
	if vChoice("refs", 2) == 1 {
		src = &chanstate.AddRef{Height: vU64("srcHeight"), Index: vU16("srcIndex")}
		dst = &chanstate.SettleFailRef{Source: lnwire.NewShortChanIDFromInt(vU64("dstSource")),
			Height: vU64("dstHeight"), Index: vU16("dstIndex")}
		ck = &models.CircuitKey{ChanID: lnwire.NewShortChanIDFromInt(vU64("ckChan")), HtlcID: vU64("ckHtlc")}
	}

	// reference verdict, from the pre-state
	var target *c08lwHtlc
	for _, h := range hs {
		if h.id == x {
			target = h
		}
	}
	hashOK := false
	if target != nil {
		hashOK = sha256.Sum256(pre[:]) == target.rhash
	}
	want := target != nil && !target.modified && (op != c08lwOpSettle || hashOK)

	tBefore, aBefore := c08lwSnap(tlog), c08lwSnap(alog)

	err := c08lwAnswer(lc, side, op, x, pre, reason, code, shaOnion, src, dst, ck)

	if op == c08lwOpSettle {
		vAssert((err == nil) == want, "K4 (S): a settle is accepted iff the referenced HTLC exists, is not yet settled/failed, and sha256(preimage) is ITS payment hash")
	} else {
		vAssert((err == nil) == want, "K4 (F): a fail is accepted iff the referenced HTLC exists and is not yet settled/failed")
	}
	if (err == nil) != want {
		return
	}
	if err != nil {
		vAssert(c08lwSnap(tlog) == tBefore && c08lwSnap(alog) == aBefore &&
			c08lwHtlcsIntact(tlog, hs, 0) && c08lwHtlcsIntact(alog, []*c08lwHtlc{own}, 0),
			"K4: a refused settle/fail leaves both update logs untouched")
		switch {
		case target == nil:
			vReach("refused-unknown")
		case target.modified:
			vReach("refused-already-answered")
		default:
			vReach("refused-wrong-preimage")
		}
		return
	}

	// accepted
	if op == c08lwOpSettle && hashOf == 0 {
		// collision-freeness: the accepted preimage is the very string whose
		// hash the HTLC was offered with
		vAssert(pre == target.w, "K4 (S): the accepted preimage is the string the HTLC's payment hash was made of (collision-free sha256)")
	}
	target.modified = true
	vAssert(c08lwHtlcsIntact(tlog, hs, 0) && tlog.logIndex == tBefore.logIndex && tlog.htlcCounter == tBefore.htlcCounter &&
		len(tlog.modifiedHtlcs) == c08lwCountMod(hs),
		"K4: an accepted settle/fail marks exactly the referenced HTLC as answered and leaves the offered HTLCs in place")
	vAssert(alog.Len() == aBefore.n+1 && alog.logIndex == aBefore.logIndex+1 && alog.htlcCounter == aBefore.htlcCounter &&
		len(alog.updateIndex) == aBefore.nUpd+1 && c08lwHtlcsIntact(alog, []*c08lwHtlc{own}, 1),
		"K4: an accepted settle/fail appends exactly one update")
	if alog.Len() != aBefore.n+1 {
		return
	}
	pd := alog.Back().Value
	node := alog.updateIndex[aBefore.logIndex]
	vAssert(node != nil && node.Value == pd && pd.LogIndex == aBefore.logIndex && pd.ChanID == chanID,
		"K4: the appended update is indexed under the pre-call log counter of this channel")
	vAssert(pd.ParentIndex == x && pd.Amount == target.amt, "K4: the appended update names the referenced HTLC")
	switch op {
	case c08lwOpSettle:
		vAssert(pd.EntryType == Settle && pd.RPreimage == PaymentHash(pre), "K4 (S): the appended settle carries the offered preimage")
		vReach("settled")
	case c08lwOpFail:
		vAssert(pd.EntryType == Fail && bytes.Equal(pd.FailReason, reason) && pd.RHash == PaymentHash(target.rhash),
			"K4 (F): the appended fail carries the offered reason")
		vReach("failed")
	default:
		vAssert(pd.EntryType == MalformedFail && pd.FailCode == code && pd.ShaOnionBlob == shaOnion &&
			pd.RHash == PaymentHash(target.rhash), "K4 (F): the appended malformed fail carries code and onion hash")
		vReach("failed-malformed")
	}
	if side == 0 {
		vAssert(pd.SourceRef == src, "K4: the appended update carries the SourceRef handed in (ack of the Add commits with the signature)")
		if op != c08lwOpMalformed {
			vAssert(pd.DestRef == dst && pd.ClosedCircuitKey == ck,
				"K4: the appended update carries the DestRef and ClosedCircuitKey handed in")
		} else {
			vAssert(pd.DestRef == nil && pd.ClosedCircuitKey == nil, "K4: a malformed fail has no DestRef/ClosedCircuitKey")
		}
		if src != nil {
			vReach("with-refs")
		}
	} else {
		vAssert(pd.SourceRef == nil && pd.DestRef == nil && pd.ClosedCircuitKey == nil,
			"K4: an answer received from the peer carries no forwarding references yet")
	}
	// nothing is committed yet
	vAssert(pd.removeCommitHeights.Local == 0 && pd.removeCommitHeights.Remote == 0 && !pd.isForwarded,
		"K4: a fresh settle/fail is on no commitment and not forwarded")

	// any second answer to the same HTLC is refused (whatever its kind, even
	// with the right preimage)
	op2 := (op + 1) % nOps
	if deep {
		op2 = vChoice("op2", nOps)
	}
	pre2 := pre
	if vChoice("secondPreimage", 2) == 1 {
		pre2 = c08lwArr32("answerPreimage2")
	}
	t2, a2 := c08lwSnap(tlog), c08lwSnap(alog)
	err2 := c08lwAnswer(lc, side, op2, x, pre2, reason, code, shaOnion, src, dst, ck)
	vAssert(err2 != nil, "K4: at most one response per HTLC: a second settle/fail of the same HTLC is refused")
	vAssert(c08lwSnap(tlog) == t2 && c08lwSnap(alog) == a2 && alog.Back().Value == pd,
		"K4: the refused second answer appends nothing")
	vReach("second-refused")
}

func c08lwCountMod(hs []*c08lwHtlc) int {
	n := 0
	for _, h := range hs {
		if h.modified {
			n++
		}
	}
	return n
}

// quick: three HTLCs in the target log; thorough: 0..3 HTLCs, free payment
// hashes as well, every kind of second answer.
func VerifC08LwSettleFail()     { c08lwSettleFail(3, false) }
func VerifC08LwSettleFailDeep() { c08lwSettleFail(3, true) }
