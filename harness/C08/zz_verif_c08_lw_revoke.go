package lnwallet

// Harness for C08 (reduced scope), lnwallet kernel K5: what ReceiveRevocation
// hands to the forwarding layer.
//
// Unit executed symbolically (real lnd code): (*LightningChannel).
// ReceiveRevocation with unsignedLocalUpdates, compactLogs,
// (*paymentDescriptor).toLogUpdate, chanstate.NewFwdPkg / NewPkgFilter,
// (*chanstate.OpenChannel).AdvanceCommitChainTail, commitmentChain
// tail/tip/advanceTail, updateLog removeUpdate/removeHtlc.
//
// World (construction as in the C02/C06 lnwallet harnesses): a LightningChannel
// struct literal waiting for the revoke_and_ack of remote height r (remote
// chain [r, r+1], local tail l; r, l symbolic). The REMOTE update log holds up
// to three entries of any kind (Add, NoOpAdd, Settle, Fail, MalformedFail,
// FeeUpdate) whose add/remove commit heights on both chains, log indexes,
// payloads and isForwarded flag are symbolic; the parent HTLC of every
// settle/fail sits in the local update log. Fakes behind interfaces lnd already
// has: chanstate.Store (only AdvanceCommitChainTail), shachain.Store,
// shachain.Producer. Replaced under the symbolic engine only:
// input.ComputeCommitmentPoint (injective stand-in) and
// findOutputIndexesFromRemote (value on a commitment tx without outputs).
//
// Oracle (from the property: "failed back / settled only once the outgoing
// HTLC was irrevocably removed", "nothing left dangling", at most once):
//   a settle/fail enters the forwarding package  <=>  it was not forwarded
//   before and its removal is locked in on BOTH commitment chains at the new
//   remote tail: removeHeight.Remote == r+1, 0 < removeHeight.Local <= l;
//   an Add likewise with its add heights; entries appear in log order, each
//   once, with DestRef/SourceRef = (this channel, r+1, position); the package
//   is the one that was stored; forwarded entries are flagged isForwarded;
//   a settle/fail that was neither forwarded now nor before is still in the
//   log afterwards together with its parent HTLC (so that it can still be
//   forwarded later), for the pre-states a real history reaches
//   (removeHeight.Remote is 0 or r+1 for a not yet forwarded entry).

import (
	"bytes"
	"errors"
	"io"

	"github.com/btcsuite/btcd/btcec/v2"
	"github.com/btcsuite/btcd/btcutil/v2"
	"github.com/btcsuite/btcd/chainhash/v2"
	"github.com/btcsuite/btcd/wire/v2"
	"github.com/lightningnetwork/lnd/chanstate"
	"github.com/lightningnetwork/lnd/fn/v2"
	"github.com/lightningnetwork/lnd/input"
	"github.com/lightningnetwork/lnd/lntypes"
	"github.com/lightningnetwork/lnd/lnwire"
)

// ---------------------------------------------------------------------------
// world construction (same fakes as harness/C02/zz_verif_c02_lnwallet.go)
// ---------------------------------------------------------------------------

func c08lwOutpoint() wire.OutPoint {
	var op wire.OutPoint
	copy(op.Hash[:], vBytes("fundingTxid", 32))
	op.Index = vU32("fundingIndex")
	return op
}

// c08lwRefChanID: BOLT-2 channel_id = funding txid XOR the 16-bit output
// index on the last two bytes (big endian).
func c08lwRefChanID(op wire.OutPoint) (id lnwire.ChannelID) {
	copy(id[:], op.Hash[:])
	id[30] ^= byte(op.Index >> 8)
	id[31] ^= byte(op.Index)
	return id
}

func c08lwU64(h uint64) []byte {
	b := make([]byte, 8)
	for i := 0; i < 8; i++ {
		b[i] = byte(h >> (8 * uint(7-i)))
	}
	return b
}

// c08lwSec: the peer's per-commitment secret of height h (ideal function).
func c08lwSec(h uint64) *chainhash.Hash {
	var r chainhash.Hash
	copy(r[:], vHash("c08lwsec", 32, c08lwU64(h)))
	return &r
}

// c08lwPointRepl stands in for input.ComputeCommitmentPoint under the symbolic
// engine: the point (secret, 1), injective in the secret.
func c08lwPointRepl(secret []byte) *btcec.PublicKey {
	var x, y btcec.FieldVal
	x.SetByteSlice(secret)
	y.SetInt(1)
	return btcec.NewPublicKey(&x, &y)
}

func c08lwPoint(secret []byte) *btcec.PublicKey {
	if vNative() {
		return input.ComputeCommitmentPoint(secret)
	}
	return c08lwPointRepl(secret)
}

// c08lwPoolPoint: points that are not the point of any secret used here.
func c08lwPoolPoint(i byte) *btcec.PublicKey {
	if vNative() {
		var s [32]byte
		s[31] = i + 1
		return input.ComputeCommitmentPoint(s[:])
	}
	var x, y btcec.FieldVal
	x.SetInt(uint16(i) + 1)
	y.SetInt(2)
	return btcec.NewPublicKey(&x, &y)
}

func c08lwNoIndexes(*chainhash.Hash, *chanstate.OpenChannel, fn.Option[AuxLeafStore]) (uint32, uint32, error) {
	return uint32(chanstate.OutputIndexEmpty), uint32(chanstate.OutputIndexEmpty), nil
}

func c08lwConfig() {
	vReplace("github.com/lightningnetwork/lnd/input.ComputeCommitmentPoint", "github.com/lightningnetwork/lnd/lnwallet.c08lwPointRepl")
	vReplace("github.com/lightningnetwork/lnd/lnwallet.findOutputIndexesFromRemote", "github.com/lightningnetwork/lnd/lnwallet.c08lwNoIndexes")
	vAssumption("C08-K5: per-commitment secrets are an ideal function sec(height) (vHash); commitment points are an injective function of the secret (symbolic run only); channel store, shachain producer/store are fakes behind chanstate.Store, shachain.Producer, shachain.Store; findOutputIndexesFromRemote is replaced (symbolic run only) by its value on a commitment transaction without to_local/to_remote outputs")
}

type c08lwProducer struct{}

func (p *c08lwProducer) AtIndex(h uint64) (*chainhash.Hash, error) { return c08lwSec(h), nil }
func (p *c08lwProducer) Encode(io.Writer) error                    { return nil }

type c08lwRevStore struct{ added []*chainhash.Hash }

func (s *c08lwRevStore) LookUp(uint64) (*chainhash.Hash, error) {
	return nil, errors.New("c08lw: unexpected LookUp")
}
func (s *c08lwRevStore) AddNextEntry(h *chainhash.Hash) error {
	s.added = append(s.added, h)
	return nil
}
func (s *c08lwRevStore) Encode(io.Writer) error { return nil }

// c08lwStore: the channel database. AdvanceCommitChainTail follows the
// contract of the real store (channeldb): fails with ErrNoPendingCommit when no
// CommitDiff is stored; otherwise stores package and updates and promotes the
// pending remote commitment.
type c08lwStore struct {
	chanstate.Store

	hasDiff   bool
	advCalls  int
	advPkgs   []*chanstate.FwdPkg
	newRemote chanstate.ChannelCommitment
}

func (s *c08lwStore) AdvanceCommitChainTail(ch *chanstate.OpenChannel, pkg *chanstate.FwdPkg,
	upds []chanstate.LogUpdate, our, their uint32) error {

	s.advCalls++
	if !s.hasDiff {
		return chanstate.ErrNoPendingCommit
	}
	s.advPkgs = append(s.advPkgs, pkg)
	s.hasDiff = false
	ch.RemoteCommitment = s.newRemote
	return nil
}

// c08lwNativeKeys (native replay only): the real findOutputIndexesFromRemote
// derives a key ring from the channel configs; give it real points.
func c08lwNativeKeys(st *chanstate.OpenChannel) {
	k := func(i byte) *btcec.PublicKey {
		var s [32]byte
		s[31] = i
		_, pub := btcec.PrivKeyFromBytes(s[:])
		return pub
	}
	for i, cfg := range []*chanstate.ChannelConfig{&st.LocalChanCfg, &st.RemoteChanCfg} {
		b := byte(10 * (i + 1))
		cfg.MultiSigKey.PubKey = k(b + 1)
		cfg.RevocationBasePoint.PubKey = k(b + 2)
		cfg.PaymentBasePoint.PubKey = k(b + 3)
		cfg.DelayBasePoint.PubKey = k(b + 4)
		cfg.HtlcBasePoint.PubKey = k(b + 5)
	}
}

var c08lwOnionPos = [...]int{0, 683, lnwire.OnionPacketSize - 1}

func c08lwOnion(name string) (r [lnwire.OnionPacketSize]byte) {
	b := vBytes(name, len(c08lwOnionPos))
	for i, p := range c08lwOnionPos {
		r[p] = b[i]
	}
	return r
}

const (
	c08lwKAdd = iota
	c08lwKSettle
	c08lwKFail
	c08lwKMalformed
	c08lwKFee
	c08lwKNoOpAdd
	c08lwNumK
)

var c08lwEntryTypes = [c08lwNumK]updateType{Add, Settle, Fail, MalformedFail, FeeUpdate, NoOpAdd}

func c08lwIsAddKind(k int) bool { return k == c08lwKAdd || k == c08lwKNoOpAdd }
func c08lwIsRmvKind(k int) bool { return k == c08lwKSettle || k == c08lwKFail || k == c08lwKMalformed }

// c08lwEntry: a remote-log entry and what the harness remembers of it.
type c08lwEntry struct {
	kind                   int
	pd                     *paymentDescriptor
	addL, addR, rmvL, rmvR uint64
	wasForwarded           bool
	parent                 *paymentDescriptor // local-log HTLC a settle/fail removes
}

func c08lwLogEntry(kind int, chanID lnwire.ChannelID) *c08lwEntry {
	pd := &paymentDescriptor{ChanID: chanID, LogIndex: vU64("leLogIndex"), EntryType: c08lwEntryTypes[kind]}
	e := &c08lwEntry{kind: kind, pd: pd}
	switch {
	case c08lwIsAddKind(kind):
		pd.HtlcIndex = vU64("leHtlcIndex")
		pd.Amount = lnwire.MilliSatoshi(vU64("leAmount"))
		pd.RHash = c08lwArr32("leRHash")
		pd.Timeout = vU32("leTimeout")
		pd.OnionBlob = c08lwOnion("leOnion")
	case kind == c08lwKSettle:
		pd.RPreimage = c08lwArr32("lePreimage")
	case kind == c08lwKFail:
		pd.FailReason = vBytes("leFailReason", 4)
	case kind == c08lwKMalformed:
		pd.ShaOnionBlob = c08lwArr32("leShaOnion")
		pd.FailCode = lnwire.FailCode(vU16("leFailCode"))
	case kind == c08lwKFee:
		// the fee rate is held in msat (a whole number of satoshis: the wire
		// field is a uint32 sat/kw)
		pd.Amount = lnwire.NewMSatFromSatoshis(btcutil.Amount(vU32("leFeePerKw")))
	}
	e.addL, e.addR = vU64("leAddLocal"), vU64("leAddRemote")
	pd.addCommitHeights = lntypes.Dual[uint64]{Local: e.addL, Remote: e.addR}
	if !c08lwIsAddKind(kind) {
		e.rmvL, e.rmvR = vU64("leRmvLocal"), vU64("leRmvRemote")
		if kind == c08lwKFee {
			// a fee update is added and removed at the same height
			// (paymentDescriptor.setCommitHeight)
			e.rmvL, e.rmvR = e.addL, e.addR
		}
		pd.removeCommitHeights = lntypes.Dual[uint64]{Local: e.rmvL, Remote: e.rmvR}
	}
	e.wasForwarded = vBool("leIsForwarded")
	pd.isForwarded = e.wasForwarded
	return e
}

// c08lwUpdEq: does the persisted log update denote this log entry?
func c08lwUpdEq(u chanstate.LogUpdate, pd *paymentDescriptor) bool {
	if u.LogIndex != pd.LogIndex {
		return false
	}
	switch pd.EntryType {
	case Add, NoOpAdd:
		m, ok := u.UpdateMsg.(*lnwire.UpdateAddHTLC)
		return ok && m.ChanID == pd.ChanID && m.ID == pd.HtlcIndex && m.Amount == pd.Amount &&
			m.PaymentHash == [32]byte(pd.RHash) && m.Expiry == pd.Timeout && m.OnionBlob == pd.OnionBlob
	case Settle:
		m, ok := u.UpdateMsg.(*lnwire.UpdateFulfillHTLC)
		return ok && m.ChanID == pd.ChanID && m.ID == pd.ParentIndex && m.PaymentPreimage == [32]byte(pd.RPreimage)
	case Fail:
		m, ok := u.UpdateMsg.(*lnwire.UpdateFailHTLC)
		return ok && m.ChanID == pd.ChanID && m.ID == pd.ParentIndex && bytes.Equal(m.Reason, pd.FailReason)
	case MalformedFail:
		m, ok := u.UpdateMsg.(*lnwire.UpdateFailMalformedHTLC)
		return ok && m.ChanID == pd.ChanID && m.ID == pd.ParentIndex && m.ShaOnionBlob == pd.ShaOnionBlob &&
			m.FailureCode == pd.FailCode
	}
	return false
}

func c08lwUpdsEq(got []chanstate.LogUpdate, want []*c08lwEntry) bool {
	if len(got) != len(want) {
		return false
	}
	ok := true
	for i := range want {
		ok = ok && c08lwUpdEq(got[i], want[i].pd)
	}
	return ok
}

func c08lwInLog(l *updateLog, pd *paymentDescriptor) bool {
	for e := l.Front(); e != nil; e = e.Next() {
		if e.Value == pd {
			return true
		}
	}
	return false
}

func c08lwFilterEmpty(f *chanstate.PkgFilter, n int) bool {
	if f == nil || int(f.Count()) != n {
		return false
	}
	for i := 0; i < n; i++ {
		if f.Contains(uint16(i)) {
			return false
		}
	}
	return true
}

// c08lwWorld: the channel waiting for the revocation of remote height r.
type c08lwWorld struct {
	r, l       uint64
	scid       lnwire.ShortChannelID
	chanID     lnwire.ChannelID
	st         *chanstate.OpenChannel
	store      *c08lwStore
	revStore   *c08lwRevStore
	lc         *LightningChannel
	localLog   *updateLog
	remoteLog  *updateLog
	entries    []*c08lwEntry
	rTail, rTip *commitment
}

// kinds: the entry kinds of the remote log in log order.
func c08lwMkWorld(kinds []int) *c08lwWorld {
	c08lwConfig()
	w := &c08lwWorld{r: vU64("remoteTailHeight"), l: vU64("localTailHeight")}
	// Domain: r+2 does not wrap (48-bit commitment numbers).
	vAssume(w.r < ^uint64(0)-1)
	op := c08lwOutpoint()
	w.chanID = c08lwRefChanID(op)
	w.scid = lnwire.NewShortChanIDFromInt(vU64("scid"))

	w.store = &c08lwStore{hasDiff: true}
	w.store.newRemote = chanstate.ChannelCommitment{CommitHeight: w.r + 1, CommitTx: &wire.MsgTx{Version: 2}}
	w.revStore = &c08lwRevStore{}
	w.st = &chanstate.OpenChannel{
		ChanType:                chanstate.SingleFunderTweaklessBit | chanstate.AnchorOutputsBit | chanstate.ZeroHtlcTxFeeBit,
		FundingOutpoint:         op,
		ShortChannelID:          w.scid,
		RevocationProducer:      &c08lwProducer{},
		RevocationStore:         w.revStore,
		RemoteCurrentRevocation: c08lwPoint(c08lwSec(w.r)[:]),
		RemoteNextRevocation:    c08lwPoint(c08lwSec(w.r + 1)[:]),
		Db:                      w.store,
	}
	w.st.LocalCommitment.CommitHeight = w.l
	w.st.RemoteCommitment = chanstate.ChannelCommitment{CommitHeight: w.r, CommitTx: &wire.MsgTx{Version: 2}}
	if vNative() {
		c08lwNativeKeys(w.st)
	}

	lch := newCommitmentChain()
	lch.addCommitment(&commitment{height: w.l, whoseCommit: lntypes.Local,
		messageIndices: lntypes.Dual[uint64]{Local: vU64("localTailLocalLogIndex"), Remote: vU64("localTailRemoteLogIndex")}})
	rch := newCommitmentChain()
	w.rTail = &commitment{height: w.r, whoseCommit: lntypes.Remote,
		messageIndices: lntypes.Dual[uint64]{Local: vU64("remoteTailLocalLogIndex"), Remote: vU64("remoteTailRemoteLogIndex")}}
	w.rTip = &commitment{height: w.r + 1, whoseCommit: lntypes.Remote,
		messageIndices: lntypes.Dual[uint64]{Local: vU64("remoteTipLocalLogIndex"), Remote: vU64("remoteTipRemoteLogIndex")}}
	rch.addCommitment(w.rTail)
	rch.addCommitment(w.rTip)

	w.localLog, w.remoteLog = newUpdateLog(vU64("localLogCounter"), 100), newUpdateLog(vU64("remoteLogCounter"), vU64("remoteHtlcCounter"))
	for i, k := range kinds {
		e := c08lwLogEntry(k, w.chanID)
		if i > 0 {
			// log indexes are strictly increasing in log order
			vAssume(w.entries[i-1].pd.LogIndex < e.pd.LogIndex)
		}
		switch {
		case c08lwIsAddKind(k):
			// ids of the peer's HTLCs: a counter, strictly increasing
			for _, p := range w.entries {
				if c08lwIsAddKind(p.kind) {
					vAssume(p.pd.HtlcIndex < e.pd.HtlcIndex)
				}
			}
			w.remoteLog.restoreHtlc(e.pd)
		case c08lwIsRmvKind(k):
			// the HTLC of ours that the peer settles/fails: id 10+i, in our log
			// (representation invariant of the logs: a settle/fail has its
			// parent in the other log, no HTLC has two removals)
			e.pd.ParentIndex = uint64(10 + i)
			e.parent = &paymentDescriptor{ChanID: w.chanID, EntryType: Add, HtlcIndex: uint64(10 + i),
				LogIndex: uint64(i), Amount: lnwire.MilliSatoshi(vU64("parentAmount")), RHash: c08lwArr32("parentRHash"),
				addCommitHeights: lntypes.Dual[uint64]{Local: vU64("parentAddLocal"), Remote: vU64("parentAddRemote")}}
			w.localLog.restoreHtlc(e.parent)
			w.localLog.markHtlcModified(e.parent.HtlcIndex)
			w.remoteLog.restoreUpdate(e.pd)
		default:
			w.remoteLog.restoreUpdate(e.pd)
		}
		w.entries = append(w.entries, e)
	}

	w.lc = &LightningChannel{
		channelState:  w.st,
		currentHeight: w.l,
		commitChains:  lntypes.Dual[*commitmentChain]{Local: lch, Remote: rch},
		updateLogs:    lntypes.Dual[*updateLog]{Local: w.localLog, Remote: w.remoteLog},
	}
	if vNative() {
		w.lc.log = walletLog
	}
	return w
}

// c08lwWant: the reference. tail = the remote height that becomes the tail.
func (w *c08lwWorld) want(tail uint64) (adds, sfs []*c08lwEntry) {
	for _, e := range w.entries {
		switch {
		case e.wasForwarded:
		case c08lwIsAddKind(e.kind):
			if e.addR > 0 && e.addL > 0 && e.addR == tail && e.addL <= w.l {
				adds = append(adds, e)
			}
		case c08lwIsRmvKind(e.kind):
			if e.rmvR > 0 && e.rmvL > 0 && e.rmvR == tail && e.rmvL <= w.l {
				sfs = append(sfs, e)
			}
		}
	}
	return adds, sfs
}

func c08lwContains(list []*c08lwEntry, e *c08lwEntry) bool {
	for _, x := range list {
		if x == e {
			return true
		}
	}
	return false
}

func (w *c08lwWorld) checkPkg(pkg *chanstate.FwdPkg, tail uint64, wantAdds, wantSF []*c08lwEntry, nth int) {
	vAssert(w.store.advCalls == nth && len(w.store.advPkgs) == nth && w.store.advPkgs[nth-1] == pkg,
		"K5: the returned forwarding package is the one that was stored, once")
	vAssert(pkg.Height == tail && pkg.Source == w.scid && pkg.State == chanstate.FwdStateLockedIn,
		"K5: the package is keyed by this channel and the new remote tail height, state LockedIn")
	vAssert(c08lwUpdsEq(pkg.SettleFails, wantSF),
		"K5 (F/S): a settle/fail enters the forwarding package iff its removal is locked in on both commitment chains at the new remote tail (removeHeight.Remote == tail, 0 < removeHeight.Local <= local tail) and it was not forwarded before; log order, each once")
	vAssert(c08lwUpdsEq(pkg.Adds, wantAdds),
		"K5: an Add enters the forwarding package iff it is locked in on both commitment chains at the new remote tail and was not forwarded before; log order, each once")
	vAssert(c08lwFilterEmpty(pkg.SettleFailFilter, len(wantSF)) && c08lwFilterEmpty(pkg.FwdFilter, len(wantAdds)) &&
		c08lwFilterEmpty(pkg.AckFilter, len(wantAdds)), "K5: fresh package: filters sized for the package, nothing acked")
	for i, e := range wantSF {
		vAssert(e.pd.DestRef != nil && e.pd.DestRef.Source == w.scid && e.pd.DestRef.Height == tail &&
			int(e.pd.DestRef.Index) == i && e.pd.isForwarded, "K5: a forwarded settle/fail is flagged and its DestRef names (this channel, tail, position)")
	}
	for i, e := range wantAdds {
		vAssert(e.pd.SourceRef != nil && e.pd.SourceRef.Height == tail && int(e.pd.SourceRef.Index) == i && e.pd.isForwarded,
			"K5: a forwarded Add is flagged and its SourceRef names (tail, position)")
	}
}

func c08lwRevForward(n int, deep bool) {
	// kinds of the remote-log entries. Thorough: every sequence of length n.
	// Quick: n = 3, the sequence k0, k0+1, k0+2 (mod 6): every kind occurs in
	// every position and next to every other class of entry.
	kinds := make([]int, n)
	for i := range kinds {
		if i == 0 || deep {
			kinds[i] = vChoice("logKind", c08lwNumK)
		} else {
			kinds[i] = (kinds[i-1] + 1) % c08lwNumK
		}
	}
	w := c08lwMkWorld(kinds)
	tail := w.r + 1
	wantAdds, wantSF := w.want(tail)

	msg := &lnwire.RevokeAndAck{ChanID: w.chanID, NextRevocationKey: c08lwPoolPoint(1)}
	msg.Revocation = *c08lwSec(w.r)

	pkg, _, err := w.lc.ReceiveRevocation(msg)

	vAssert(err == nil && pkg != nil, "K5: a correct revocation is accepted")
	if err != nil || pkg == nil {
		return
	}
	w.checkPkg(pkg, tail, wantAdds, wantSF, 1)
	vAssert(w.lc.commitChains.Remote.tail() == w.rTip, "K5: the remote chain advanced to the new tail")

	// nothing dangling: a settle/fail that has not been handed over (now or
	// earlier) must still be there, with the HTLC it removes. Reachable
	// pre-states only: a not yet forwarded removal is on no remote commitment
	// or on the pending one (an older one would have been handed over when
	// that commitment became the tail).
	for _, e := range w.entries {
		if !c08lwIsRmvKind(e.kind) {
			continue
		}
		handed := e.wasForwarded || c08lwContains(wantSF, e)
		if !handed && (e.rmvR == 0 || e.rmvR == tail) {
			vAssert(c08lwInLog(w.remoteLog, e.pd) && c08lwInLog(w.localLog, e.parent) &&
				w.localLog.lookupHtlc(e.parent.HtlcIndex) == e.parent,
				"K5 (no dangling): a settle/fail that was never handed to the forwarding package stays in the update log with its HTLC")
			vReach("kept-unforwarded-removal")
		}
		if !e.wasForwarded && !c08lwContains(wantSF, e) {
			vAssert(!e.pd.isForwarded && e.pd.DestRef == nil, "K5: an entry that was not handed over is not flagged as forwarded")
		}
	}
	for _, e := range w.entries {
		if c08lwIsAddKind(e.kind) && !e.wasForwarded && !c08lwContains(wantAdds, e) {
			vAssert(!e.pd.isForwarded && e.pd.SourceRef == nil && c08lwInLog(w.remoteLog, e.pd),
				"K5: an Add that was not handed over is not flagged as forwarded and stays in the log")
		}
	}

	if len(wantSF) >= 1 {
		vReach("forwarded-settlefail")
	}
	if len(wantSF) >= 2 {
		vReach("forwarded-two-settlefails")
	}
	if len(wantAdds) >= 1 {
		vReach("forwarded-add")
	}
	if len(wantAdds) == 0 && len(wantSF) == 0 {
		vReach("forwarded-nothing")
	}
	if len(wantAdds) >= 1 && len(wantSF) >= 1 {
		vReach("forwarded-add-and-settlefail")
	}
}

// c08lwRevTwice: two consecutive revocations (remote heights r and r+1). In
// between, arbitrary sign/receive/revoke steps are summarised by the harness:
// the local tail moves to any height l2 >= l, the peer's next commitment r+2 is
// pending, and every commit height of a surviving entry that was still 0 gets
// an arbitrary value (heights that are set never change:
// paymentDescriptor.setCommitHeight is only applied to entries not yet on that
// chain). Oracle: the second package obeys the same rule at tail r+2, and no
// entry is handed over twice.
func c08lwRevTwice(n int, deep bool) {
	kinds := make([]int, n)
	for i := range kinds {
		if i == 0 || deep {
			kinds[i] = vChoice("logKind", c08lwNumK)
		} else {
			kinds[i] = (kinds[i-1] + 1) % c08lwNumK
		}
	}
	w := c08lwMkWorld(kinds)
	tail1, tail2 := w.r+1, w.r+2
	wantAdds1, wantSF1 := w.want(tail1)

	msg := &lnwire.RevokeAndAck{ChanID: w.chanID, NextRevocationKey: c08lwPoint(c08lwSec(tail2)[:])}
	msg.Revocation = *c08lwSec(w.r)
	pkg1, _, err := w.lc.ReceiveRevocation(msg)
	vAssert(err == nil && pkg1 != nil, "K5: a correct revocation is accepted")
	if err != nil || pkg1 == nil {
		return
	}
	w.checkPkg(pkg1, tail1, wantAdds1, wantSF1, 1)

	// in between
	l2 := vU64("localTailHeight2")
	vAssume(l2 >= w.l)
	w.lc.commitChains.Local.tail().height = l2
	w.lc.currentHeight = l2
	w.l = l2
	late := false
	for _, e := range w.entries {
		if c08lwContains(wantAdds1, e) || c08lwContains(wantSF1, e) {
			e.wasForwarded = true
			continue
		}
		if !c08lwInLog(w.remoteLog, e.pd) {
			continue
		}
		switch {
		case c08lwIsAddKind(e.kind):
			if e.addL == 0 {
				e.addL = vU64("leAddLocal2")
			}
			if e.addR == 0 {
				e.addR = vU64("leAddRemote2")
			}
			e.pd.addCommitHeights = lntypes.Dual[uint64]{Local: e.addL, Remote: e.addR}
		case c08lwIsRmvKind(e.kind):
			if e.rmvL == 0 {
				e.rmvL = vU64("leRmvLocal2")
			}
			if e.rmvR == 0 {
				e.rmvR = vU64("leRmvRemote2")
			}
			e.pd.removeCommitHeights = lntypes.Dual[uint64]{Local: e.rmvL, Remote: e.rmvR}
		}
	}
	w.lc.commitChains.Remote.addCommitment(&commitment{height: tail2, whoseCommit: lntypes.Remote,
		messageIndices: lntypes.Dual[uint64]{Local: vU64("remoteTip2LocalLogIndex"), Remote: vU64("remoteTip2RemoteLogIndex")}})
	w.store.hasDiff = true
	w.store.newRemote = chanstate.ChannelCommitment{CommitHeight: tail2, CommitTx: &wire.MsgTx{Version: 2}}
	wantAdds2, wantSF2 := w.want(tail2)

	msg2 := &lnwire.RevokeAndAck{ChanID: w.chanID, NextRevocationKey: c08lwPoolPoint(2)}
	msg2.Revocation = *c08lwSec(tail1)
	pkg2, _, err := w.lc.ReceiveRevocation(msg2)
	vAssert(err == nil && pkg2 != nil, "K5: the next correct revocation is accepted")
	if err != nil || pkg2 == nil {
		return
	}
	w.checkPkg(pkg2, tail2, wantAdds2, wantSF2, 2)

	// at most once, stated directly on the two packages
	for _, e := range w.entries {
		if !e.wasForwarded {
			continue
		}
		for _, u := range pkg2.Adds {
			vAssert(u.LogIndex != e.pd.LogIndex, "K5 (at most once): an Add handed over at one revocation is not handed over again at the next")
		}
		for _, u := range pkg2.SettleFails {
			vAssert(u.LogIndex != e.pd.LogIndex, "K5 (at most once): a settle/fail handed over at one revocation is not handed over again at the next")
		}
	}
	for _, e := range w.entries {
		if c08lwContains(wantAdds2, e) || c08lwContains(wantSF2, e) {
			late = true
		}
	}
	if late {
		vReach("second-forwards-later-lock-in")
	}
	if len(wantAdds1)+len(wantSF1) > 0 && len(pkg2.Adds)+len(pkg2.SettleFails) == 0 {
		vReach("second-forwards-nothing-again")
	}
}

// quick: one entry of every kind; thorough: two entries, every pair of kinds.
func VerifC08LwRevTwice()     { c08lwRevTwice(1, false) }
func VerifC08LwRevTwiceDeep() { c08lwRevTwice(2, true) }

// quick: 3 entries, rotating kinds (6 sequences).
func VerifC08LwRevForward() { c08lwRevForward(3, false) }

// thorough: every sequence of kinds of length 0..3 (shards pin n and the first kind).
func VerifC08LwRevForwardDeep() { c08lwRevForward(vChoice("nLog", 4), true) }
