package chanstate

// Harness for C07, part 1: the bit-set arithmetic of PkgFilter (the durable
// record of which Adds of a forwarding package were already forwarded / acked,
// and which settles/fails were already relayed) and the AddRef codec.
//
// Unit: NewPkgFilter, (*PkgFilter).Set / Contains / IsFull / Size / Count /
// Equal / Encode / Decode, (*AddRef).Encode / Decode.
//
// Oracle: the filter is the set { j < count : bit j }, where bit j is bit
// (7 - j%8) of byte j/8 (c07Bit/c07RefContains below, plain shifts on
// concrete byte positions, no call into the code under test):
//   Set(i) adds exactly i;  Contains(j) is membership;  IsFull is "every
//   j < count is a member";  the encoding is count (big-endian u16) followed
//   by ceil(count/8) bytes and Decode inverts Encode.

import (
	"bytes"
)

// c07MaxLen bounds the filter length in bytes (count <= 8*c07MaxLen); set by
// each entry (quick: 4 bytes, thorough: 8 bytes).
var c07MaxLen int

const (
	c07LenQuick = 4
	c07LenDeep  = 8
)

// c07RefLen is ceil(count/8) computed in 32 bits (cannot wrap).
func c07RefLen(count uint16) int { return int((uint32(count) + 7) >> 3) }

// c07Bits unpacks the raw filter bytes into one boolean per bit position, most
// significant bit of byte 0 first (all positions concrete).
func c07Bits(raw []byte) []bool {
	bits := make([]bool, 8*len(raw))
	for p := range bits {
		bits[p] = (raw[p>>3]>>(7-uint(p&7)))&1 == 1
	}
	return bits
}

// c07RefContains is membership of the symbolic index j, written as a
// disjunction over the concrete bit positions.
func c07RefContains(bits []bool, j uint16) bool {
	r := false
	for p := range bits {
		r = r || (uint16(p) == j && bits[p])
	}
	return r
}

// c07RefFull is "every j < count is a member".
func c07RefFull(bits []bool, count uint16) bool {
	r := true
	for p := range bits {
		r = r && (uint16(p) >= count || bits[p])
	}
	return r
}

func c07Copy(b []byte) []byte {
	c := make([]byte, len(b))
	copy(c, b)
	return c
}

// c07Filter builds a filter with a symbolic count whose byte length is the
// concrete L (case split) and arbitrary contents.
func c07Filter() (*PkgFilter, int) {
	L := vChoice("len", c07MaxLen+1)
	count := vU16("count")
	// count is the number of Adds (or Settle/Fails) of one forwarding
	// package; the length of the bit vector is ceil(count/8).
	vAssume(c07RefLen(count) == L)
	return &PkgFilter{count: count, filter: vBytes("filter", L)}, L
}

// VerifC07PkgFilterNew: a new filter has ceil(count/8) bytes, is empty, and is
// full only when count is 0.
func c07PkgFilterNew(maxLen int) {
	c07MaxLen = maxLen
	vUnwind(8*maxLen + 16)
	count := vU16("count")
	vAssume(int(count) <= 8*c07MaxLen)
	f := NewPkgFilter(count)
	vAssert(f.Count() == count, "new: Count() is the requested count")
	vAssert(len(f.filter) == c07RefLen(count), "new: ceil(count/8) bytes")
	vAssert(int(f.Size()) == 2+c07RefLen(count), "new: Size() is 2 + ceil(count/8)")
	j := vU16("j")
	vAssume(j < count)
	vAssert(!f.Contains(j), "new: contains nothing")
	vAssert(f.IsFull() == (count == 0), "new: full only when count is 0")
	if count > 0 {
		vReach("new-nonempty")
	}
}

// VerifC07PkgFilterSet: from arbitrary contents, Set(i) adds exactly i.
func c07PkgFilterSet(maxLen int) {
	c07MaxLen = maxLen
	vUnwind(8*maxLen + 16)
	f, _ := c07Filter()
	before := c07Copy(f.filter)
	i, j := vU16("i"), vU16("j")
	// "It is assumed that i is always less than count" (doc of Set/Contains).
	vAssume(i < f.count && j < f.count)
	bitsBefore := c07Bits(before)
	was := f.Contains(j)
	vAssert(was == c07RefContains(bitsBefore, j), "contains: agrees with bit j of the raw bytes")
	f.Set(i)
	vAssert(f.Contains(i), "set: i is a member afterwards")
	now := f.Contains(j)
	vAssert(now == (was || j == i), "set: membership of every other index is unchanged")
	bitsAfter := c07Bits(f.filter)
	vAssert(now == c07RefContains(bitsAfter, j), "contains: agrees with bit j of the raw bytes after Set")
	// the other bits of the raw bytes (including padding) are untouched
	same := true
	for p := range bitsBefore {
		same = same && (uint16(p) == i || bitsBefore[p] == bitsAfter[p])
	}
	vAssert(same, "set: no other bit of the vector changes")
	vAssert(f.Count() == f.count && len(f.filter) == len(before), "set: count and length unchanged")
	if j != i && was {
		vReach("set-other-member")
	}
	if j == i && !was {
		vReach("set-new-member")
	}
}

// VerifC07PkgFilterFull: IsFull is exactly "every index below count is a
// member", for arbitrary contents (padding bits arbitrary).
func c07PkgFilterFull(maxLen int) {
	c07MaxLen = maxLen
	vUnwind(8*maxLen + 16)
	f, _ := c07Filter()
	want := c07RefFull(c07Bits(f.filter), f.count)
	got := f.IsFull()
	vAssert(got == want, "isfull: true iff every index below count is set")
	if got && f.count > 0 {
		vReach("full")
	}
	if !got {
		vReach("not-full")
	}
}

// VerifC07PkgFilterCodec: Encode writes count and the vector, Decode inverts
// it; Decode of arbitrary bytes succeeds iff enough bytes are present and then
// re-encodes to the bytes consumed.
func c07PkgFilterCodec(maxLen int) {
	c07MaxLen = maxLen
	vUnwind(8*maxLen + 16)
	f, L := c07Filter()
	var buf bytes.Buffer
	err := f.Encode(&buf)
	vAssert(err == nil, "codec: Encode into a buffer succeeds")
	raw := buf.Bytes()
	vAssert(len(raw) == int(f.Size()) && len(raw) == 2+L, "codec: encoding has Size() = 2 + ceil(count/8) bytes")
	vAssert(raw[0] == byte(f.count>>8) && raw[1] == byte(f.count), "codec: count is written big-endian first")
	vAssert(bytes.Equal(raw[2:], f.filter), "codec: the vector follows unchanged")

	// decode what was written, followed by trailing bytes that must be left alone
	trail := vBytes("trail", 2)
	r := bytes.NewReader(append(c07Copy(raw), trail...))
	g := &PkgFilter{}
	err = g.Decode(r)
	vAssert(err == nil, "codec: Decode of an encoding succeeds")
	vAssert(g.count == f.count && bytes.Equal(g.filter, f.filter), "codec: round trip keeps count and vector")
	vAssert(g.Equal(f) && f.Equal(g), "codec: Equal holds across the round trip")
	vAssert(r.Len() == 2, "codec: Decode consumes exactly Size() bytes")
	vReach("roundtrip")

	// a truncated encoding is rejected
	cut := vChoice("cut", 2+c07MaxLen)
	if cut < len(raw) {
		h := &PkgFilter{}
		err = h.Decode(bytes.NewReader(c07Copy(raw[:cut])))
		vAssert(err != nil, "codec: Decode of a truncated encoding fails")
		vReach("truncated")
	}
}

// VerifC07AddRefCodec: AddRef is height (u64) then index (u16), big-endian,
// and Decode inverts Encode for every value.
func VerifC07AddRefCodec() {
	a := AddRef{Height: vU64("height"), Index: vU16("index")}
	var buf bytes.Buffer
	vAssert(a.Encode(&buf) == nil, "addref: Encode succeeds")
	raw := buf.Bytes()
	vAssert(len(raw) == 10, "addref: 10 bytes")
	ok := true
	for k := 0; k < 8; k++ {
		ok = ok && raw[k] == byte(a.Height>>(8*uint(7-k)))
	}
	ok = ok && raw[8] == byte(a.Index>>8) && raw[9] == byte(a.Index)
	vAssert(ok, "addref: big-endian height then index")
	var b AddRef
	vAssert(b.Decode(bytes.NewReader(raw)) == nil, "addref: Decode succeeds")
	vAssert(b == a, "addref: round trip")
	// arbitrary bytes decode to the value they denote
	in := vBytes("in", 10)
	var c AddRef
	vAssert(c.Decode(bytes.NewReader(in)) == nil, "addref: any 10 bytes decode")
	var h uint64
	for k := 0; k < 8; k++ {
		h = h<<8 | uint64(in[k])
	}
	vAssert(c.Height == h && c.Index == uint16(in[8])<<8|uint16(in[9]), "addref: decoded value is the big-endian reading")
	n := vChoice("short", 10)
	var d AddRef
	vAssert(d.Decode(bytes.NewReader(in[:n])) != nil, "addref: fewer than 10 bytes are rejected")
	vReach("addref")
}

func VerifC07PkgFilterNew()   { c07PkgFilterNew(c07LenQuick) }
func VerifC07PkgFilterSet()   { c07PkgFilterSet(c07LenQuick) }
func VerifC07PkgFilterFull()  { c07PkgFilterFull(c07LenQuick) }
func VerifC07PkgFilterCodec() { c07PkgFilterCodec(c07LenQuick) }

func VerifC07PkgFilterNewDeep()   { c07PkgFilterNew(c07LenDeep) }
func VerifC07PkgFilterSetDeep()   { c07PkgFilterSet(c07LenDeep) }
func VerifC07PkgFilterFullDeep()  { c07PkgFilterFull(c07LenDeep) }
func VerifC07PkgFilterCodecDeep() { c07PkgFilterCodec(c07LenDeep) }
