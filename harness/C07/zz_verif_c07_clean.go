package htlcswitch

// Harness for C07, part 3: the start-up sequence of the circuit map,
//   NewCircuitMap = initBuckets -> cleanClosedChannels -> restoreMemState ->
//   trimAllOpenCircuits,
// i.e. the third sentence of the property: "circuits of fully closed channels
// are purged except those still awaiting delivery of an on-chain resolution",
// and the start-up trim of keystones at or above the next local HTLC index.
//
// Unit (real lnd code, symbolically and in native replay): NewCircuitMap,
// (*circuitMap).initBuckets, cleanClosedChannels, restoreMemState,
// trimAllOpenCircuits, TrimOpenCircuits, decodeCircuit,
// (*resolutionStore).checkResolutionMsg (the REAL resolution store, wired as
// Switch.New wires it, over the same fake kvdb),
// (*chanstate.OpenChannel).ShortChanID / NextLocalHtlcIndex /
// RemoteCommitChainTip.
//
// Fakes (all behind interfaces / function-valued config fields lnd already
// has): c07DB (fake kvdb of part 2), cfg.FetchClosedChannels returning <= 2
// symbolic close summaries, cfg.FetchAllOpenChannels returning <= 2
// chanstate.OpenChannel literals whose Db is c07ChanStore (answers only
// RemoteCommitChainTip).
//
// This file only adds entries; everything of part 2 (c07DB, c07Build, the
// reference encoders) is reused unchanged.

import (
	"bytes"
	"errors"

	"github.com/btcsuite/btcwallet/walletdb"
	"github.com/lightningnetwork/lnd/chanstate"
	"github.com/lightningnetwork/lnd/lnwire"
)

// c07StartP are the structural bounds of the start-up entries.
type c07StartP struct {
	base      c07Params
	nClosed   int // at most this many closed-channel summaries
	minClosed int // and at least this many
	nRes      int // at most this many stored resolution messages
	nOpenCh   int // at most this many open channels
	minOpen   int // and at least this many
	// failUpTo: write failures are injected only when the store holds at most
	// this many circuits (every path forks at every commit otherwise, which
	// triples the work of the large shapes for a one-line `return err`)
	failUpTo int
}

// c07StartDB is c07DB with the failure injection switched off for the large
// shapes: transactions are still counted and recorded as "did not fail".
type c07StartDB struct {
	*c07DB
	inject bool
}

func (d c07StartDB) Update(f func(tx walletdb.ReadWriteTx) error, reset func()) error {
	if d.inject {
		return d.c07DB.Update(f, reset)
	}
	d.c07DB.txs++
	d.c07DB.fails = append(d.c07DB.fails, false)
	reset()
	return f(&c07Tx{db: d.c07DB, writable: true})
}

// c07QuietDB is c07DB without the injected write failure: used only for the
// harness's own re-read of the final store.
type c07QuietDB struct{ *c07DB }

func (d c07QuietDB) Update(f func(tx walletdb.ReadWriteTx) error, reset func()) error {
	reset()
	return f(&c07Tx{db: d.c07DB, writable: true})
}

// c07IsClosed: ch is the short channel id of a FULLY closed channel. The
// all-zero id is hop.Source (locally initiated payments, channels without a
// confirmed id) and never denotes a channel.
func c07IsClosed(scid []uint64, pend []bool, ch uint64) bool {
	r := false
	for j := range scid {
		r = r || (!pend[j] && scid[j] == ch)
	}
	return r && ch != 0
}

func c07HasKey(set []c07K, k c07K) bool {
	r := false
	for j := range set {
		r = r || (set[j].ch == k.ch && set[j].id == k.id)
	}
	return r
}

// ---------------------------------------------------------------------------
// (6) cleanClosedChannels inside NewCircuitMap
// ---------------------------------------------------------------------------

// c07Clean: the node restarts on a store holding an arbitrary consistent set
// of circuits and keystones; the channel DB reports a symbolic set of closed
// channels (fully closed or close pending), the resolution store holds
// messages under a symbolic set of outgoing circuit keys.
func c07Clean(p c07StartP) {
	c07Config(p.base)
	vAssumption("channel DB behind cfg.FetchClosedChannels / cfg.FetchAllOpenChannels is a fake returning symbolic close summaries / OpenChannel literals; distinct channels have distinct short channel ids unless the id is the all-zero one")
	vAssumption("the resolution store is the real resolutionStore.checkResolutionMsg over the same fake kvdb; its bucket holds <= nRes messages under arbitrary distinct 16-byte circuit keys")

	// the durable state the node went down with (the in-memory map that
	// c07Build also draws is the pre-crash memory and is discarded)
	w := c07Build(false)
	n := len(w.circ)

	// ---- closed channels as reported by the channel DB ----
	nc := p.minClosed + vChoice("nclosed", p.nClosed-p.minClosed+1)
	scid := make([]uint64, nc)
	pend := make([]bool, nc)
	sums := make([]*chanstate.ChannelCloseSummary, nc)
	for j := 0; j < nc; j++ {
		name := c07Name("closed", j)
		scid[j] = vU64(name + ".scid")
		pend[j] = vBool(name + ".pending")
		// a short channel id names one funding output; only channels that never
		// got a confirmed id share the zero id
		for i := 0; i < j; i++ {
			vAssume(scid[i] != scid[j] || scid[j] == 0)
		}
		sums[j] = &chanstate.ChannelCloseSummary{
			ShortChanID: lnwire.NewShortChanIDFromInt(scid[j]),
			IsPending:   pend[j],
		}
	}
	// ---- open channels (start-up entries only; reads of the channel DB do not
	// fail here, see c07TrimAll for that) ----
	oc := &c07OpenChans{}
	if p.nOpenCh > 0 {
		oc = c07DrawOpenChans(p.minOpen, p.nOpenCh)
		for j := range oc.chans {
			vAssume(!oc.tipFail[j])
			// CloseChannel moves a channel from the open to the closed bucket: no
			// channel is in both lists
			for i := range scid {
				vAssume(oc.scid[j] != scid[i] || scid[i] == 0)
			}
		}
	}
	fetchErr := vBool("closed.fetcherr")
	errFetch := errors.New("c07: channel DB read failed")
	sawPendingOnly := false
	fetchClosed := func(pendingOnly bool) ([]*chanstate.ChannelCloseSummary, error) {
		if fetchErr {
			return nil, errFetch
		}
		if !pendingOnly {
			return sums, nil
		}
		// what the channel DB does for pendingOnly (not asked for by lnd today)
		sawPendingOnly = true
		var r []*chanstate.ChannelCloseSummary
		for _, s := range sums {
			if s.IsPending {
				r = append(r, s)
			}
		}
		return r, nil
	}

	// ---- resolution messages still to be delivered, keyed by OUTGOING key ----
	nr := vChoice("nres", p.nRes+1)
	res := make([]c07K, nr)
	if nr > 0 {
		rb := w.db.mustBucket(string(resBucketKey))
		for j := 0; j < nr; j++ {
			name := c07Name("res", j)
			res[j] = c07Key(name)
			for i := 0; i < j; i++ {
				vAssume(res[i].key != res[j].key) // keys of one bucket
			}
			rb.kvs = append(rb.kvs, c07KV{c07RefKey(res[j]), vBytes(name+".msg", 1)})
		}
	}
	sdb := c07StartDB{c07DB: w.db, inject: n <= p.failUpTo}
	resStore := newResolutionStore(sdb)
	var asked []CircuitKey
	check := func(k *CircuitKey) error {
		asked = append(asked, *k)
		return resStore.checkResolutionMsg(k)
	}

	// ---- oracle: from the description of the inputs only ----
	inCl := make([]bool, n)
	outCl := make([]bool, n)
	held := make([]bool, n)
	purged := make([]bool, n)
	nKeep, nKeepOpen := 0, 0
	for i, e := range w.circ {
		inCl[i] = c07IsClosed(scid, pend, e.d.in.ch)
		if e.hasKs {
			outCl[i] = c07IsClosed(scid, pend, e.out.ch)
			held[i] = c07HasKey(res, e.out)
		}
		// incoming channel gone: nobody to deliver a response to; outgoing
		// channel gone: no response will come any more unless the contract
		// court left one in the resolution store
		purged[i] = inCl[i] || (outCl[i] && !held[i])
		if !purged[i] {
			nKeep++
		}
		if !purged[i] && e.hasKs {
			nKeepOpen++
		}
	}
	anyClosed := false
	for j := range pend {
		anyClosed = anyClosed || !pend[j]
	}
	// the keystones that survive the purge are trimmed as in c07TrimAll
	trimmed := make([]bool, n)
	trimAt, trimBelow := false, false
	for j := range oc.chans {
		run := 0
		going := true
		for d := 0; d < n; d++ {
			o := false
			for i, e := range w.circ {
				o = o || (e.hasKs && !purged[i] && e.out.ch == oc.scid[j] && e.out.id == oc.start[j]+uint64(d))
			}
			going = going && o
			if going {
				run++
			}
		}
		for i, e := range w.circ {
			mine := e.hasKs && !purged[i] && oc.active[j] && e.out.ch == oc.scid[j]
			r := mine && e.out.id >= oc.start[j] && e.out.id-oc.start[j] < uint64(run)
			trimmed[i] = trimmed[i] || r
			trimAt = trimAt || (r && e.out.id == oc.start[j])
			trimBelow = trimBelow || (mine && e.out.id+1 == oc.start[j])
		}
	}
	nTrim := 0
	for i := range w.circ {
		if trimmed[i] {
			nTrim++
		}
	}
	snap := w.db.snapshot()

	cfg := &CircuitMapConfig{
		DB:                  sdb,
		FetchClosedChannels: fetchClosed,
		FetchAllOpenChannels: func() ([]*chanstate.OpenChannel, error) {
			return oc.chans, nil
		},
		CheckResolutionMsg: check,
	}
	cmi, err := NewCircuitMap(cfg)

	// ---- which step ended the start-up ----
	// (how many transactions the start-up uses is lnd's business: only the
	// first one - bucket initialisation - is identified, any later failing one
	// is either the purge or the restore)
	vAssert(w.db.txs >= 1, "clean: the buckets are initialised first")
	if w.db.fails[0] {
		vAssert(err != nil && cmi == nil, "clean: a failed bucket initialisation aborts the start")
		vAssert(w.storeUnchanged(snap), "clean: an aborted start leaves the store unchanged")
		return
	}
	vAssert(!sawPendingOnly, "clean: the closed channels are read with the fully closed ones included")
	if fetchErr {
		vAssert(err != nil && cmi == nil, "clean: a failed channel DB read aborts the start")
		vAssert(w.storeUnchanged(snap), "clean: an aborted start leaves the store unchanged")
		vReach("fetch-closed-failed")
		return
	}
	for _, q := range asked {
		ok := false
		for _, e := range w.circ {
			ok = ok || (e.hasKs && q == e.out.key)
		}
		vAssert(ok, "clean: the resolution store is consulted with the OUTGOING key of a recorded keystone")
	}
	failed := false
	for _, f := range w.db.fails {
		failed = failed || f
	}
	vAssert((err != nil) == failed && (cmi == nil) == failed, "clean: error iff a transaction failed")
	if failed {
		// purge or restore failed. The purge is all or nothing; the restore
		// writes nothing here (no stray keystones).
		if w.storeUnchanged(snap) {
			vReach("start-failed-store-unchanged")
		} else {
			vAssert(len(w.adds().kvs) == nKeep && len(w.kss().kvs) <= nKeepOpen && len(w.kss().kvs) >= nKeepOpen-nTrim, "clean: after an aborted start the store is either unchanged or holds exactly the kept circuits and keystones (possibly trimmed)")
			vReach("start-failed-after-purge")
		}
		return
	}
	if !anyClosed {
		vReach("no-closed-channel")
	}

	// ---- the store after the purge ----
	for i, e := range w.circ {
		rec := w.adds().get(c07RefKey(e.d.in))
		vAssert((rec == nil) == purged[i], "clean: circuit record is deleted iff its incoming channel is fully closed, or its outgoing channel is and no resolution is stored under its outgoing key")
		if rec != nil {
			vAssert(bytes.Equal(rec, c07RefCircuit(e.d)), "clean: a kept circuit record is untouched")
		}
		if e.hasKs {
			ks := w.kss().get(c07RefKey(e.out))
			vAssert((ks == nil) == (purged[i] || trimmed[i]), "clean: keystone record is deleted iff its circuit is purged (or the keystone trimmed)")
			if ks != nil {
				vAssert(bytes.Equal(ks, c07RefKey(e.d.in)), "clean: a kept keystone record is untouched")
			}
		}
	}
	vAssert(len(w.adds().kvs) == nKeep && len(w.kss().kvs) == nKeepOpen-nTrim, "clean: the buckets hold exactly the kept circuits and keystones")
	if nr > 0 {
		vAssert(c07SameBucket(w.db.find(string(resBucketKey)), c07FindBucket(snap, string(resBucketKey))), "clean: the resolution store is only read")
	}
	// ---- the memory after the start ----
	cm := cmi.(*circuitMap)
	vAssert(cm.NumPending() == nKeep && cm.NumOpen() == nKeepOpen-nTrim, "clean: exactly the kept circuits are pending / open in memory")
	vAssert(cm.closed != nil && len(cm.closed) == 0, "clean: closed is empty after a start")
	for i, e := range w.circ {
		c := cm.LookupCircuit(e.d.in.key)
		vAssert((c == nil) == purged[i], "clean: a circuit is absent from memory iff it is purged")
		if c != nil {
			vAssert(c07SameDurable(c, e.d) && c.LoadedFromDisk, "clean: a kept circuit is restored with its recorded fields")
			vAssert(c.HasKeystone() == (e.hasKs && !trimmed[i]), "clean: a kept circuit keeps its keystone (unless trimmed)")
		}
		if e.hasKs {
			o := cm.LookupOpenCircuit(e.out.key)
			vAssert((o == nil) == (purged[i] || trimmed[i]), "clean: a keystone is absent from memory iff its circuit is purged (or the keystone trimmed)")
			vAssert(o == nil || o == c, "clean: a kept keystone leads to its circuit")
			if o != nil {
				vAssert(o.OutKey() == e.out.key, "clean: a kept keystone binds the same outgoing key")
			}
		}
	}

	// memory and store agree: re-reading the final store gives the same maps
	cm2 := &circuitMap{cfg: &CircuitMapConfig{DB: c07QuietDB{w.db}}}
	vAssert(cm2.restoreMemState() == nil, "clean: the final store can be re-read")
	vAssert(cm2.NumPending() == cm.NumPending() && cm2.NumOpen() == cm.NumOpen(), "clean: re-reading the final store gives as many circuits / keystones as memory holds")
	for _, e := range w.circ {
		a, b := cm.LookupCircuit(e.d.in.key), cm2.LookupCircuit(e.d.in.key)
		vAssert((a == nil) == (b == nil), "clean: memory and store agree on every circuit")
		if a != nil && b != nil {
			vAssert(a.HasKeystone() == b.HasKeystone() && a.OutKey() == b.OutKey(), "clean: memory and store agree on every keystone")
		}
	}

	// ---- which cases were seen ----
	if trimAt {
		vReach("startup-trimmed-at-index")
	}
	if trimBelow && nTrim == 0 {
		vReach("startup-kept-below-index")
	}
	if nTrim > 0 && nKeep < n {
		vReach("startup-purged-and-trimmed")
	}
	for i, e := range w.circ {
		if inCl[i] {
			vReach("purged-incoming-closed")
			if outCl[i] && held[i] {
				vReach("purged-incoming-closed-despite-resolution")
			}
		}
		if !inCl[i] && outCl[i] && !held[i] {
			vReach("purged-outgoing-closed")
		}
		if !inCl[i] && outCl[i] && held[i] {
			vReach("kept-resolution-stored")
		}
		if !inCl[i] && !outCl[i] && anyClosed {
			vReach("kept-untouched")
		}
		if !inCl[i] && !e.hasKs && anyClosed {
			vReach("kept-half-open")
		}
	}
	// cases the code under test does not branch on: one combined test each, last
	pendHit, zeroHit := false, false
	for i, e := range w.circ {
		for j := range scid {
			m := scid[j] != 0 && (scid[j] == e.d.in.ch || (e.hasKs && scid[j] == e.out.ch))
			pendHit = pendHit || (pend[j] && m && !purged[i])
			zeroHit = zeroHit || (!pend[j] && scid[j] == 0 && e.d.in.ch == 0 && !purged[i])
		}
	}
	// (only in the smallest shapes, so that the larger ones do not fork here)
	if n == 1 && pendHit {
		vReach("kept-pending-close")
	}
	if n == 1 && zeroHit {
		vReach("kept-zero-id")
	}
}

// ---------------------------------------------------------------------------
// (7) trimAllOpenCircuits
// ---------------------------------------------------------------------------

// c07ChanStore is the channel-state store behind an OpenChannel: only the
// pending remote commitment is ever asked for (any other method is a nil
// dereference, i.e. a reachable panic, should the code start using it).
type c07ChanStore struct {
	chanstate.Store
	tips []c07Tip
}

type c07Tip struct {
	ch   *chanstate.OpenChannel
	has  bool   // a commit diff we signed for the remote party is pending
	fail bool   // the read fails
	idx  uint64 // its LocalHtlcIndex
}

var errC07Tip = errors.New("c07: channel DB read failed")

func (s *c07ChanStore) RemoteCommitChainTip(c *chanstate.OpenChannel) (*chanstate.CommitDiff, error) {
	for _, t := range s.tips {
		if t.ch != c {
			continue
		}
		if t.fail {
			return nil, errC07Tip
		}
		if !t.has {
			return nil, chanstate.ErrNoPendingCommit
		}
		return &chanstate.CommitDiff{
			Commitment: chanstate.ChannelCommitment{LocalHtlcIndex: t.idx},
		}, nil
	}
	panic("c07 fake channel store: unknown channel")
}

// c07OpenChans draws <= max open channels. start[j] is the next local HTLC
// index the channel DB holds for channel j (pending remote commit if there is
// one, else the remote commitment).
type c07OpenChans struct {
	chans   []*chanstate.OpenChannel
	scid    []uint64
	pending []bool
	tipFail []bool
	hasTip  []bool
	start   []uint64
	active  []bool // not pending, id assigned: the channel is trimmed
}

func c07DrawOpenChans(min, max int) *c07OpenChans {
	oc := &c07OpenChans{}
	st := &c07ChanStore{}
	no := min + vChoice("nopen", max-min+1)
	for j := 0; j < no; j++ {
		name := c07Name("open", j)
		s := vU64(name + ".scid")
		for i := 0; i < j; i++ {
			vAssume(oc.scid[i] != s || s == 0) // see c07Clean
		}
		pending := vBool(name + ".pending")
		tipFail := vBool(name + ".tipfail")
		hasTip := vBool(name + ".hastip")
		remoteIdx := vU64(name + ".remoteidx")
		tipIdx := vU64(name + ".tipidx")
		// htlc indices are update counters of one channel (as in c07Trim)
		vAssume(remoteIdx < 1<<62 && tipIdx < 1<<62)
		ch := &chanstate.OpenChannel{
			ShortChannelID: lnwire.NewShortChanIDFromInt(s),
			IsPending:      pending,
			Db:             st,
		}
		ch.RemoteCommitment.LocalHtlcIndex = remoteIdx
		// channel type (zero-conf / scid-alias bits included) and the confirmed
		// id of a zero-conf channel are arbitrary: links and keystones are keyed
		// by ShortChanID() (the alias for a zero-conf channel) whatever they are
		ch.ChanType = chanstate.ChannelType(vU64(name + ".chantype"))
		ch.SetConfirmedScidForStore(lnwire.NewShortChanIDFromInt(vU64(name + ".confirmedscid")))
		st.tips = append(st.tips, c07Tip{ch: ch, has: hasTip, fail: tipFail, idx: tipIdx})
		start := remoteIdx
		if hasTip {
			start = tipIdx
		}
		oc.chans = append(oc.chans, ch)
		oc.scid = append(oc.scid, s)
		oc.pending = append(oc.pending, pending)
		oc.tipFail = append(oc.tipFail, tipFail)
		oc.hasTip = append(oc.hasTip, hasTip)
		oc.start = append(oc.start, start)
		oc.active = append(oc.active, !pending && s != 0)
	}
	return oc
}

// c07TrimAll: trimAllOpenCircuits on an arbitrary consistent map. A keystone
// (c,h) is trimmed iff c is an active open channel and every index from that
// channel's next local HTLC index up to h is an open keystone of c (the
// contiguous run the code scans; under the link's allocation discipline -
// keystones at or above the next unallocated index are consecutive - this is
// "every keystone at or above the index"); keystones below stay.
func c07TrimAll(p c07StartP) {
	c07Config(p.base)
	vAssumption("channel DB behind cfg.FetchClosedChannels / cfg.FetchAllOpenChannels is a fake returning symbolic close summaries / OpenChannel literals; distinct channels have distinct short channel ids unless the id is the all-zero one")
	w := c07Build(false)
	cm := w.cm
	oc := c07DrawOpenChans(p.minOpen, p.nOpenCh)
	fetchErr := vBool("open.fetcherr")
	errFetch := errors.New("c07: channel DB read failed")
	cm.cfg.FetchAllOpenChannels = func() ([]*chanstate.OpenChannel, error) {
		if fetchErr {
			return nil, errFetch
		}
		return oc.chans, nil
	}
	snap := w.db.snapshot()

	// ---- oracle ----
	n := len(w.circ)
	removed := make([]bool, n)
	atStart := false // a keystone exactly at the index is trimmed
	below := false   // a keystone of an active channel just below the index stays
	anyTipFail := false
	for j := range oc.chans {
		run := 0
		going := true
		for d := 0; d < n; d++ {
			o := false
			for _, e := range w.circ {
				o = o || (e.hasKs && e.out.ch == oc.scid[j] && e.out.id == oc.start[j]+uint64(d))
			}
			going = going && o
			if going {
				run++
			}
		}
		for i, e := range w.circ {
			mine := e.hasKs && oc.active[j] && e.out.ch == oc.scid[j]
			r := mine && e.out.id >= oc.start[j] && e.out.id-oc.start[j] < uint64(run)
			removed[i] = removed[i] || r
			atStart = atStart || (r && e.out.id == oc.start[j])
			below = below || (mine && e.out.id+1 == oc.start[j])
		}
		anyTipFail = anyTipFail || (oc.active[j] && oc.tipFail[j])
	}

	err := cm.trimAllOpenCircuits()

	if fetchErr {
		vAssert(err == errFetch && w.db.txs == 0, "trimall: a failed channel DB read is returned, nothing is trimmed")
		w.memCircuitsUnchanged("trimall/fetch error")
		vAssert(w.storeUnchanged(snap), "trimall: store unchanged")
		vReach("fetch-open-failed")
		return
	}
	anyWriteFail := false
	for _, f := range w.db.fails {
		anyWriteFail = anyWriteFail || f
	}
	vAssert((err != nil) == (anyWriteFail || anyTipFail), "trimall: error iff a write or the read of a channel's pending commitment failed")
	vAssert(c07SameBucket(w.adds(), c07FindBucket(snap, string(circuitAddKey))), "trimall: circuit bucket untouched")
	vAssert(len(cm.pending) == n, "trimall: every circuit stays pending")
	for i, e := range w.circ {
		vAssert(cm.LookupCircuit(e.d.in.key) == e.c, "trimall: every circuit stays pending (same pointer)")
		vAssert(c07SameDurable(e.c, e.d) && e.c.LoadedFromDisk == e.loaded, "trimall: durable fields and LoadedFromDisk unchanged")
		if !e.hasKs {
			vAssert(e.c.Outgoing == nil, "trimall: half-open circuits stay half-open")
			continue
		}
		gone := cm.LookupOpenCircuit(e.out.key) == nil
		inStore := w.kss().get(c07RefKey(e.out)) != nil
		if err != nil {
			// the start-up is aborted: whatever happened so far only touched
			// keystones that were to be trimmed
			vAssert(!gone || removed[i], "trimall: only keystones at or above a channel's next index are ever trimmed")
			vAssert(inStore || removed[i], "trimall: only records of such keystones are ever deleted")
			continue
		}
		vAssert(gone == removed[i], "trimall: a keystone is trimmed iff its channel is an active open channel and it lies in the run starting at that channel's next local HTLC index")
		vAssert((e.c.Outgoing == nil) == removed[i], "trimall: a circuit returns to half-open iff its keystone was trimmed")
		vAssert(inStore == !removed[i], "trimall: the keystone record is deleted iff trimmed")
		if !gone {
			vAssert(cm.LookupOpenCircuit(e.out.key) == e.c && *e.c.Outgoing == e.out.key, "trimall: untouched keystones keep their binding")
		} else {
			found := false
			for _, x := range cm.LookupByPaymentHash(e.d.hash) {
				found = found || x == e.c
			}
			vAssert(!found, "trimall: a trimmed circuit is no longer indexed by payment hash")
		}
	}
	if err != nil {
		if anyWriteFail {
			vReach("trimall-write-failed")
		}
		if anyTipFail && !anyWriteFail {
			vReach("tip-read-failed")
		}
		return
	}
	nRemoved := 0
	for i := range w.circ {
		if removed[i] {
			nRemoved++
		}
	}
	vAssert(len(cm.opened) == w.nOpen()-nRemoved && len(w.kss().kvs) == w.nOpen()-nRemoved, "trimall: opened and the keystone bucket shrink by exactly the trimmed keystones")

	if atStart {
		vReach("trimmed-at-index")
	}
	if below {
		vReach("kept-below-index")
	}
	if nRemoved >= 2 {
		vReach("trimmed-two")
	}
	skipPend, skipZero, tip, fallback := false, false, false, false
	for j := range oc.chans {
		skipPend = skipPend || oc.pending[j]
		skipZero = skipZero || (!oc.pending[j] && oc.scid[j] == 0)
		tip = tip || (oc.active[j] && oc.hasTip[j])
		fallback = fallback || (oc.active[j] && !oc.hasTip[j])
	}
	if skipPend {
		vReach("pending-channel-skipped")
	}
	if skipZero {
		vReach("zero-id-channel-skipped")
	}
	if tip {
		vReach("index-from-pending-commit")
	}
	if fallback {
		vReach("index-from-remote-commitment")
	}
}

// ---------------------------------------------------------------------------
// entries
// ---------------------------------------------------------------------------

// quick tier: <= 2 circuits with <= 1 closed channel, and <= 1 circuit with
// exactly 2 closed channels; <= 1 stored resolution message
func VerifC07Clean() {
	c07Clean(c07StartP{base: c07Quick(), nClosed: 1, nRes: 1, failUpTo: 1})
}
func VerifC07CleanTwo() {
	b := c07Quick()
	b.nPre = 1
	c07Clean(c07StartP{base: b, minClosed: 2, nClosed: 2, nRes: 1, failUpTo: 1})
}

// the whole start-up with one open channel: purge, restore, trim
func VerifC07Startup() {
	b := c07Quick()
	b.nPre = 1
	c07Clean(c07StartP{base: b, nClosed: 1, nRes: 1, minOpen: 1, nOpenCh: 1, failUpTo: 0})
}
func VerifC07TrimAll() {
	c07TrimAll(c07StartP{base: c07Quick(), nOpenCh: 2})
}

// thorough tier: <= 2 circuits, <= 2 closed channels, <= 2 stored messages,
// both failure points, equal payment hashes; and 3 circuits with <= 1 closed
// channel and <= 1 stored message (3 circuits x 2 closed channels x 1 message
// did not finish in 40 minutes: see NOTES.md)
func VerifC07CleanDeep() {
	c07Clean(c07StartP{base: c07Wide(), nClosed: 2, nRes: 2, failUpTo: 1})
}
func VerifC07CleanWide() {
	b := c07Quick()
	b.nPre = 3
	c07Clean(c07StartP{base: b, nClosed: 1, nRes: 1, failUpTo: 1})
}
func VerifC07StartupDeep() {
	c07Clean(c07StartP{base: c07Quick(), nClosed: 1, nRes: 1, minOpen: 1, nOpenCh: 1, failUpTo: 0})
}
func VerifC07TrimAllDeep() {
	b := c07Quick()
	b.nPre = 3
	c07TrimAll(c07StartP{base: b, nOpenCh: 2})
}
