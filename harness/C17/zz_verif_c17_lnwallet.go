package lnwallet

// Harness for C17 (cooperative close), lnwallet part.
//
// Units executed symbolically (real lnd code, nothing modelled):
//   CoopCloseBalance, CreateCooperativeCloseTx (+ btcutil/txsort.InPlaceSort,
//   input.ScriptIsOpReturn), (*LightningChannel).CreateCloseProposal up to the
//   Signer call (fake input.Signer behind the interface lnd already has).
//
// The oracles below are written from the property text / BOLT-2/BOLT-3 and do
// not call the functions under test.

import (
	"bytes"

	"github.com/btcsuite/btcd/btcec/v2"
	"github.com/btcsuite/btcd/btcutil/v2"
	"github.com/btcsuite/btcd/txscript/v2"
	"github.com/btcsuite/btcd/wire/v2"
	"github.com/lightningnetwork/lnd/chanstate"
	"github.com/lightningnetwork/lnd/fn/v2"
	"github.com/lightningnetwork/lnd/input"
	"github.com/lightningnetwork/lnd/keychain"
	"github.com/lightningnetwork/lnd/lntypes"
	"github.com/lightningnetwork/lnd/lnwire"
)

// 21e6 BTC in satoshi: no amount in Bitcoin exceeds it.
const c17MaxSat = btcutil.Amount(2_100_000_000_000_000)

// BOLT-3: each of the two anchor outputs carries 330 sat, taken from the
// funder ("opener").
const c17AnchorsTotal = btcutil.Amount(2 * 330)

// BIP-125: highest sequence that still signals replaceability.
const c17MaxRBFSeq = uint32(0xfffffffd)

// bit 3 of the channel type = anchor outputs (channeldb.AnchorOutputsBit),
// bit 10 = simple taproot (SimpleTaprootFeatureBit).
const (
	c17AnchorBit  = uint64(1) << 3
	c17TaprootBit = uint64(1) << 10
)

func c17Amt(name string) btcutil.Amount {
	v := btcutil.Amount(vI64(name))
	// domain: 0 <= amount <= 21e6 BTC (consensus money supply)
	vAssume(v >= 0 && v <= c17MaxSat)
	return v
}

// ---------------------------------------------------------------------------
// (1) CoopCloseBalance
// ---------------------------------------------------------------------------

type c17BalIn struct {
	ct                          uint64
	isInit                      bool
	payerSet                    bool
	payer                       lntypes.ChannelParty
	fee, ours, theirs, commitFee btcutil.Amount
}

// c17BalRef: what the property says. The opener is credited the dangling
// commitment fee and (anchor channels) both anchors; the payer (explicit, else
// the opener) is charged the closing fee; a negative result is an error.
// Every operation here is under an overflow obligation.
func c17BalRef(x c17BalIn) (ours, theirs btcutil.Amount, fails bool) {
	credit := x.commitFee
	if x.ct&c17AnchorBit != 0 {
		credit = credit + c17AnchorsTotal
	}
	payerLocal := x.isInit
	if x.payerSet {
		payerLocal = x.payer == lntypes.Local
	}
	ours, theirs = x.ours, x.theirs
	if x.isInit {
		ours = ours + credit
	} else {
		theirs = theirs + credit
	}
	if payerLocal {
		ours = ours - x.fee
	} else {
		theirs = theirs - x.fee
	}
	return ours, theirs, ours < 0 || theirs < 0
}

func c17PayerOpt(set bool, p lntypes.ChannelParty) fn.Option[lntypes.ChannelParty] {
	if set {
		return fn.Some(p)
	}
	return fn.None[lntypes.ChannelParty]()
}

// VerifC17Balance: for every channel type (all 64 bits), opener, explicit or
// default payer, and every balance / commit fee / close fee in [0, 21e6 BTC].
func VerifC17Balance() {
	vOverflow("github.com/lightningnetwork/lnd/lnwallet.CoopCloseBalance")
	vOverflow("github.com/lightningnetwork/lnd/lnwallet.c17BalRef")
	vAssumption("C17(1): balances, commit fee and close fee each in [0, 21e6 BTC]; channel type any 64-bit value; explicit payer is Local or Remote")
	x := c17BalIn{
		ct:       vU64("chanType"),
		isInit:   vBool("isInitiator"),
		payerSet: vBool("payerSet"),
		payer:    lntypes.ChannelParty(vU8("payer")),
	}
	vAssume(x.payer <= 1) // lntypes.ChannelParty has two values
	x.fee, x.ours, x.theirs, x.commitFee = c17Amt("closeFee"), c17Amt("ourBalance"), c17Amt("theirBalance"), c17Amt("commitFee")

	o, t, err := CoopCloseBalance(
		chanstate.ChannelType(x.ct), x.isInit, x.fee, x.ours, x.theirs, x.commitFee, c17PayerOpt(x.payerSet, x.payer),
	)

	wo, wt, wfail := c17BalRef(x)
	vObserve("failed", err != nil)
	vAssert((err != nil) == wfail, "CoopCloseBalance fails iff a final balance would be negative")
	if err != nil {
		vReach("cannot-afford")
		return
	}
	vObserve("ours", int64(o))
	vObserve("theirs", int64(t))
	vAssert(o == wo && t == wt, "final balances = balance (+ commit fee and anchors for the opener) - close fee for the payer")
	total := x.ours + x.theirs + x.commitFee
	if x.ct&c17AnchorBit != 0 {
		total = total + c17AnchorsTotal
		vReach("anchors")
	}
	vAssert(o+t+x.fee == total, "conservation: ours' + theirs' + closeFee = ours + theirs + commitFee (+ 2*330 for anchors)")
	vAssert(o >= 0 && t >= 0, "final balances are non-negative")
	if x.payerSet {
		vReach("explicit-payer")
	}
	if x.isInit {
		vReach("ok-opener")
	} else {
		vReach("ok-non-opener")
	}
}

// ---------------------------------------------------------------------------
// (2) CreateCooperativeCloseTx
// ---------------------------------------------------------------------------

// script shapes: lengths of real delivery scripts (P2WPKH 22, P2SH 23, P2PKH
// 25, P2WSH/P2TR 34), symbolic bytes.
var c17Lens = [][2]int{
	{22, 22}, {22, 34}, {34, 22}, // quick
	{34, 34}, {25, 23}, {23, 34}, {2, 3}, // thorough adds
}

// (index into c17Lens, kind of A's script, kind of B's script), see c17Script
var c17Combos = [][3]int{
	{0, 0, 0}, {0, 1, 0}, {0, 0, 2}, {0, 2, 1}, // quick
	{0, 0, 1}, {0, 2, 0}, {0, 1, 1}, {0, 1, 2}, {0, 2, 2}, {1, 0, 0}, {2, 0, 0}, {3, 0, 0},
}

// c17Script returns a delivery script. kind 0: n arbitrary bytes that are not
// an OP_RETURN script (first byte != 0x6a) when notOpRet is demanded, kind 1:
// the single byte OP_RETURN, kind 2: OP_RETURN <push 2 bytes> (symbolic data).
func c17Script(name string, kind, n int, notOpRet bool) (s []byte, isOpRet bool) {
	switch kind {
	case 1:
		return []byte{0x6a}, true
	case 2:
		d := vBytes(name+"Data", 2)
		return []byte{0x6a, 0x02, d[0], d[1]}, true
	}
	s = vBytes(name, n)
	if notOpRet {
		vAssume(s[0] != 0x6a)
	}
	return s, false
}

type c17TxIn struct {
	in                 wire.TxIn
	dustL, dustR       btcutil.Amount
	ours, theirs       btcutil.Amount
	sL, sR             []byte
	opRetL, opRetR     bool
	rbf                bool
	seqSet, lockSet    bool
	seq, lock          uint32
}

func c17Outpoint() wire.OutPoint {
	var op wire.OutPoint
	copy(op.Hash[:], vBytes("fundingTxid", 32))
	op.Index = vU32("fundingIndex")
	return op
}

// c17CheckTx states what the closing transaction must look like.
func c17CheckTx(x c17TxIn, tx *wire.MsgTx) {
	vAssert(tx.Version == 2, "version 2")
	vAssert(len(tx.TxIn) == 1, "exactly one input")
	ti := tx.TxIn[0]
	vAssert(ti.PreviousOutPoint == x.in.PreviousOutPoint, "the input spends the funding outpoint")
	vAssert(len(ti.SignatureScript) == 0, "no sigScript")
	wantSeq := x.in.Sequence
	if x.rbf {
		wantSeq = c17MaxRBFSeq
	}
	if x.seqSet {
		wantSeq = x.seq
	}
	vAssert(ti.Sequence == wantSeq, "sequence: custom, else RBF (0xfffffffd) when asked, else the funding input's")
	wantLock := uint32(0)
	if x.lockSet {
		wantLock = x.lock
	}
	vAssert(tx.LockTime == wantLock, "locktime: custom or 0")

	// expected outputs (unordered)
	haveL := x.ours >= x.dustL
	haveR := x.theirs >= x.dustR
	valL, valR := int64(x.ours), int64(x.theirs)
	// RBF-coop (custom sequence) flow, BOLT-2 closing_complete: an OP_RETURN
	// output carries 0 sat.
	if x.seqSet && x.opRetL {
		valL = 0
	}
	if x.seqSet && x.opRetR {
		valR = 0
	}
	n := 0
	if haveL {
		n++
	}
	if haveR {
		n++
	}
	vObserve("outputs", len(tx.TxOut))
	vAssert(len(tx.TxOut) == n, "an output exists for a party iff its balance >= its dust limit")
	isL := func(o *wire.TxOut) bool { return o.Value == valL && bytes.Equal(o.PkScript, x.sL) }
	isR := func(o *wire.TxOut) bool { return o.Value == valR && bytes.Equal(o.PkScript, x.sR) }
	switch {
	case haveL && haveR:
		vReach("two-outputs")
		if len(tx.TxOut) == 2 {
			o0, o1 := tx.TxOut[0], tx.TxOut[1]
			vAssert((isL(o0) && isR(o1)) || (isR(o0) && isL(o1)), "the two outputs are exactly (balance, script) of each party")
			// BIP-69: by amount, then lexicographically by script
			vAssert(o0.Value < o1.Value || (o0.Value == o1.Value && bytes.Compare(o0.PkScript, o1.PkScript) <= 0), "outputs in BIP-69 order")
			if o0.Value == o1.Value {
				vReach("tie-on-value")
			}
			if isR(o0) && !isL(o0) {
				vReach("remote-first")
			}
			vAssert(o0.Value+o1.Value <= int64(x.ours)+int64(x.theirs), "outputs never exceed the two balances")
		}
	case haveL:
		vReach("local-only")
		if len(tx.TxOut) == 1 {
			vAssert(isL(tx.TxOut[0]), "single output pays the local party its balance to its script")
		}
	case haveR:
		vReach("remote-only")
		if len(tx.TxOut) == 1 {
			vAssert(isR(tx.TxOut[0]), "single output pays the remote party its balance to its script")
		}
	default:
		vReach("no-outputs")
	}
}

func c17TxInputs(tier int) c17TxIn {
	var x c17TxIn
	x.in = wire.TxIn{PreviousOutPoint: c17Outpoint(), Sequence: vU32("fundingSequence")}
	x.dustL, x.dustR = c17Amt("localDust"), c17Amt("remoteDust")
	x.ours, x.theirs = c17Amt("ourBalance"), c17Amt("theirBalance")
	// options: 0 none, 1 RBF, 2 custom locktime, 3 custom sequence (+locktime), 4 RBF + custom sequence
	switch vChoice("opts", 5) {
	case 1:
		x.rbf = true
	case 2:
		x.lockSet, x.lock = true, vU32("lockTime")
	case 3:
		x.seqSet, x.seq = true, vU32("sequence")
		x.lockSet, x.lock = true, vU32("lockTime")
	case 4:
		x.rbf = true
		x.seqSet, x.seq = true, vU32("sequence")
	}
	kindL, kindR := 0, 0
	nShapes := 3
	if tier > 0 {
		nShapes = len(c17Lens)
	}
	shape := vChoice("scriptLens", nShapes)
	if x.seqSet {
		// OP_RETURN delivery scripts only matter in the custom-sequence flow
		kindL, kindR = vChoice("kindL", 3), vChoice("kindR", 3)
	}
	x.sL, x.opRetL = c17Script("ourScript", kindL, c17Lens[shape][0], x.seqSet)
	x.sR, x.opRetR = c17Script("theirScript", kindR, c17Lens[shape][1], x.seqSet)
	return x
}

func c17TxOpts(x c17TxIn) []CloseTxOpt {
	var opts []CloseTxOpt
	if x.rbf {
		opts = append(opts, WithRBFCloseTx())
	}
	if x.seqSet {
		opts = append(opts, WithCustomTxInSequence(x.seq))
	}
	if x.lockSet {
		opts = append(opts, WithCustomTxLockTime(x.lock))
	}
	return opts
}

func c17CloseTx(tier int) {
	vAssumption("C17(2): balances and dust limits each in [0, 21e6 BTC]; delivery scripts: symbolic bytes of lengths 22/23/25/34 (and 2/3), plus OP_RETURN and OP_RETURN<2 bytes> in the custom-sequence flow; no extra (aux) outputs, no custom sort")
	x := c17TxInputs(tier)
	tx, err := CreateCooperativeCloseTx(x.in, x.dustL, x.dustR, x.ours, x.theirs, x.sL, x.sR, c17TxOpts(x)...)
	vAssert(err == nil && tx != nil, "CreateCooperativeCloseTx succeeds without a custom sorter")
	if err != nil || tx == nil {
		return
	}
	c17CheckTx(x, tx)
}

func VerifC17CloseTx()         { c17CloseTx(0) }
func VerifC17CloseTxThorough() { c17CloseTx(1) }

// ---------------------------------------------------------------------------
// (3) both parties build the same transaction: real CreateCloseProposal on two
// LightningChannel values holding mirrored channel state.
// ---------------------------------------------------------------------------

// c17Sig is an ideal signature: it is the signed transaction itself plus the
// signer's identity; it verifies for exactly that transaction.
type c17Sig struct {
	who int
	tx  *wire.MsgTx
}

func (s *c17Sig) Serialize() []byte                   { return nil }
func (s *c17Sig) Verify([]byte, *btcec.PublicKey) bool { return false }

// c17Signer is a fake input.Signer: only SignOutputRaw is ever called by
// CreateCloseProposal.
type c17Signer struct {
	input.Signer
	who    int
	signed []*wire.MsgTx
	// real, when set (native replay of VerifC17Complete), really signs
	real input.Signer
}

func (s *c17Signer) SignOutputRaw(tx *wire.MsgTx, d *input.SignDescriptor) (input.Signature, error) {
	s.signed = append(s.signed, tx)
	if s.real != nil {
		return s.real.SignOutputRaw(tx, d)
	}
	return &c17Sig{who: s.who, tx: tx}, nil
}

func c17Chan(ct uint64, isInit bool, local, remote lnwire.MilliSatoshi, commitFee, dustL, dustR, capacity btcutil.Amount,
	op wire.OutPoint, who int) (*LightningChannel, *c17Signer) {

	st := &chanstate.OpenChannel{
		ChanType:        chanstate.ChannelType(ct),
		IsInitiator:     isInit,
		FundingOutpoint: op,
		Capacity:        capacity,
	}
	st.LocalCommitment.LocalBalance = local
	st.LocalCommitment.RemoteBalance = remote
	st.LocalCommitment.CommitFee = commitFee
	st.LocalChanCfg.DustLimit = dustL
	st.RemoteChanCfg.DustLimit = dustR
	sg := &c17Signer{who: who}
	return &LightningChannel{
		Signer:       sg,
		signDesc:     &input.SignDescriptor{},
		channelState: st,
		Capacity:     capacity,
	}, sg
}

// c17Fund gives the two channel values a 2-of-2 funding output. Natively the
// keys, scripts and signer are real (so that the real script VM runs in
// CompleteCooperativeClose); symbolically keys are opaque well-formed values
// and signatures are ideal.
func c17Fund(chA, chB *LightningChannel, sgA, sgB *c17Signer, capacity btcutil.Amount) (ws []byte) {
	var pubA, pubB *btcec.PublicKey
	var pk []byte
	if vNative() {
		var kA, kB [32]byte
		for i := range kA {
			kA[i], kB[i] = 0x11, 0x22
		}
		privA, pA := btcec.PrivKeyFromBytes(kA[:])
		privB, pB := btcec.PrivKeyFromBytes(kB[:])
		pubA, pubB = pA, pB
		ws, _ = input.GenMultiSigScript(pubA.SerializeCompressed(), pubB.SerializeCompressed())
		pk, _ = input.WitnessScriptHash(ws)
		sgA.real = input.NewMockSigner([]*btcec.PrivateKey{privA}, nil)
		sgB.real = input.NewMockSigner([]*btcec.PrivateKey{privB}, nil)
	} else {
		pubA, pubB = &btcec.PublicKey{}, &btcec.PublicKey{}
		ws = []byte{0x52, 0x52, 0xae}
		pk = make([]byte, 34)
	}
	desc := func(pub *btcec.PublicKey) *input.SignDescriptor {
		return &input.SignDescriptor{
			KeyDesc:       keychain.KeyDescriptor{PubKey: pub},
			WitnessScript: ws,
			Output:        &wire.TxOut{PkScript: pk, Value: int64(capacity)},
			HashType:      txscript.SigHashAll,
		}
	}
	chA.signDesc, chB.signDesc = desc(pubA), desc(pubB)
	chA.channelState.LocalChanCfg.MultiSigKey.PubKey = pubA
	chA.channelState.RemoteChanCfg.MultiSigKey.PubKey = pubB
	chB.channelState.LocalChanCfg.MultiSigKey.PubKey = pubB
	chB.channelState.RemoteChanCfg.MultiSigKey.PubKey = pubA
	return ws
}

// Symbolic stand-ins for the Bitcoin script VM (never interpreted
// symbolically; the native replay runs the real one).
func c17NewEngine(_ []byte, _ *wire.MsgTx, _ int, _ txscript.ScriptFlags, _ *txscript.SigCache,
	_ *txscript.TxSigHashes, _ int64, _ txscript.PrevOutputFetcher) (*txscript.Engine, error) {

	return &txscript.Engine{}, nil
}

func c17Execute(_ *txscript.Engine) error { return nil }

func c17SameTx(a, b *wire.MsgTx) bool {
	if a.Version != b.Version || a.LockTime != b.LockTime || len(a.TxIn) != len(b.TxIn) || len(a.TxOut) != len(b.TxOut) {
		return false
	}
	same := true
	for i := range a.TxIn {
		same = same && a.TxIn[i].PreviousOutPoint == b.TxIn[i].PreviousOutPoint &&
			a.TxIn[i].Sequence == b.TxIn[i].Sequence &&
			bytes.Equal(a.TxIn[i].SignatureScript, b.TxIn[i].SignatureScript)
	}
	for i := range a.TxOut {
		same = same && a.TxOut[i].Value == b.TxOut[i].Value && bytes.Equal(a.TxOut[i].PkScript, b.TxOut[i].PkScript)
	}
	return same
}

// c17Mirror: A's view and B's view of one channel without HTLCs.
//   flow 0: legacy negotiation (no options; the opener pays)
//   flow 1: RBF coop, A is the closer and pays  (A: payer Local,  B: payer Remote)
//   flow 2: RBF coop, B is the closer and pays  (A: payer Remote, B: payer Local)
func c17Mirror(tier int, complete bool) {
	vOverflow("github.com/lightningnetwork/lnd/lnwallet.CoopCloseBalance")
	vAssumption("C17(3): channel without HTLCs, both sides hold the same (mirrored) commitment balances in msat and the same commit fee; " +
		"local+remote+commitFee(+anchors) <= capacity <= 21e6 BTC (C01 conservation); both sides apply the same close fee, payer, sequence and locktime; ideal signatures (a signature is bound to the signed transaction)")
	// channel type: any 64-bit value; the two bits the close depends on are
	// case-split (shardable), all other bits stay symbolic
	ct := vU64("chanType")
	nCls := 4
	if complete {
		// finalising a taproot close needs a MuSig2 session (outside)
		nCls = 2
	}
	cls := vChoice("chanClass", nCls)
	vAssume((ct&c17AnchorBit != 0) == (cls&1 != 0) && (ct&c17TaprootBit != 0) == (cls&2 != 0))
	aInit := vChoice("aIsInitiator", 2) == 1
	capacity := c17Amt("capacity")
	fee := c17Amt("closeFee")
	commitFee := c17Amt("commitFee")
	// balances are kept in msat by lnd; the satoshi amounts are what
	// ToSatoshis() (truncation) makes of them
	aMsat := lnwire.MilliSatoshi(vU64("aBalanceMsat"))
	bMsat := lnwire.MilliSatoshi(vU64("bBalanceMsat"))
	vAssume(aMsat <= 2_100_000_000_000_000_000 && bMsat <= 2_100_000_000_000_000_000)
	aSat, bSat := aMsat.ToSatoshis(), bMsat.ToSatoshis()
	anch := btcutil.Amount(0)
	if ct&c17AnchorBit != 0 {
		anch = c17AnchorsTotal
	}
	// commitment-level conservation (established by C01, assumed here): what
	// the commitment distributes never exceeds the funding output. Stated in
	// satoshi (implied by the msat-level invariant).
	vAssume(commitFee <= capacity)
	vAssume(aSat+bSat+commitFee+anch <= capacity)
	dustA, dustB := c17Amt("aDust"), c17Amt("bDust")
	op := c17Outpoint()

	flow := vChoice("flow", 3)
	// legacy flow: script length pairs (quick 2, thorough 4; Complete: 1 / 2).
	// RBF flows: (length pair, script kinds) combinations from c17Combos
	// (quick 4, thorough all 12; Complete: 2 / 4).
	nShapes, nCombos := 2, 4
	if complete {
		nShapes, nCombos = 1, 2
	}
	if tier > 0 {
		nShapes, nCombos = 4, len(c17Combos)
		if complete {
			nShapes, nCombos = 2, 4
		}
	}
	shape, kA, kB := 0, 0, 0
	if flow == 0 {
		shape = vChoice("scriptLens", nShapes)
	} else {
		k := vChoice("scriptCombo", nCombos)
		shape, kA, kB = c17Combos[k][0], c17Combos[k][1], c17Combos[k][2]
	}
	sA, opRetA := c17Script("aScript", kA, c17Lens[shape][0], flow != 0)
	sB, opRetB := c17Script("bScript", kB, c17Lens[shape][1], flow != 0)

	chA, sgA := c17Chan(ct, aInit, aMsat, bMsat, commitFee, dustA, dustB, capacity, op, 0)
	chB, sgB := c17Chan(ct, !aInit, bMsat, aMsat, commitFee, dustB, dustA, capacity, op, 1)

	var ws []byte
	if complete {
		vReplace("github.com/btcsuite/btcd/txscript/v2.NewEngine", "github.com/lightningnetwork/lnd/lnwallet.c17NewEngine")
		vReplace("(*github.com/btcsuite/btcd/txscript/v2.Engine).Execute", "github.com/lightningnetwork/lnd/lnwallet.c17Execute")
		vAssumption("C17(3c): symbolically txscript.NewEngine/Execute are replaced by an ideal verdict (accept); the obligation 'the completed tx is the tx both signatures were made for' states when ideal signatures verify; natively the real keys, ECDSA signatures and script VM run")
		ws = c17Fund(chA, chB, sgA, sgB, capacity)
	}
	var optsA, optsB []ChanCloseOpt
	aPays := aInit
	if flow != 0 {
		seq, lock := vU32("sequence"), vU32("lockTime")
		pA, pB := lntypes.Local, lntypes.Remote
		aPays = true
		if flow == 2 {
			pA, pB = lntypes.Remote, lntypes.Local
			aPays = false
		}
		optsA = []ChanCloseOpt{WithCustomSequence(seq), WithCustomLockTime(lock), WithCustomPayer(pA)}
		optsB = []ChanCloseOpt{WithCustomSequence(seq), WithCustomLockTime(lock), WithCustomPayer(pB)}
	}

	sigA, txA, balA, errA := chA.CreateCloseProposal(fee, sA, sB, optsA...)
	sigB, txB, balB, errB := chB.CreateCloseProposal(fee, sB, sA, optsB...)

	vObserve("errA", errA != nil)
	vObserve("errB", errB != nil)
	vAssert((errA == nil) == (errB == nil), "both sides succeed or both fail")
	if errA != nil || errB != nil {
		vReach("both-fail")
		return
	}
	vReach("both-sign")
	vAssert(c17SameTx(txA, txB), "both sides build the identical transaction (version, locktime, input, sequence, outputs in order)")
	// ideal signatures: each side signed exactly the transaction it returned,
	// hence (by the previous obligation) the transaction the peer built
	vAssert(len(sgA.signed) == 1 && len(sgB.signed) == 1 && sgA.signed[0] == txA && sgB.signed[0] == txB,
		"each side signs the transaction it returns, once")
	if !complete {
		iA, okA := sigA.(*c17Sig)
		iB, okB := sigB.(*c17Sig)
		vAssert(okA && okB && iA.tx == txA && iB.tx == txB, "the returned signature is the one made for the returned transaction")
	}

	// what each party is owed, from the property text
	owedA := aSat
	owedB := bSat
	if aInit {
		owedA = owedA + commitFee + anch
	} else {
		owedB = owedB + commitFee + anch
	}
	if aPays {
		owedA = owedA - fee
	} else {
		owedB = owedB - fee
	}
	vAssert(owedA >= 0 && owedB >= 0, "success only when the payer can afford the fee")
	vAssert(balA == owedA && balB == owedB, "reported final balance of each side = its balance (+credits for the opener) - fee for the payer")
	valA, valB := int64(owedA), int64(owedB)
	if flow != 0 && opRetA {
		valA = 0
	}
	if flow != 0 && opRetB {
		valB = 0
	}
	haveA, haveB := owedA >= dustA, owedB >= dustB
	n := 0
	var sum int64
	if haveA {
		n++
		sum += valA
	}
	if haveB {
		n++
		sum += valB
	}
	vObserve("outputs", len(txA.TxOut))
	vAssert(len(txA.TxOut) == n, "a party has an output iff what it is owed >= its own dust limit")
	var got int64
	for _, o := range txA.TxOut {
		got += o.Value
	}
	vAssert(got == sum, "outputs pay exactly what each non-dust party is owed")
	vAssert(got+int64(fee) <= int64(capacity), "outputs + fee never exceed the channel capacity")
	isA := func(o *wire.TxOut) bool { return o.Value == valA && bytes.Equal(o.PkScript, sA) }
	isB := func(o *wire.TxOut) bool { return o.Value == valB && bytes.Equal(o.PkScript, sB) }
	switch {
	case haveA && haveB && len(txA.TxOut) == 2:
		vReach("two-outputs")
		o0, o1 := txA.TxOut[0], txA.TxOut[1]
		vAssert((isA(o0) && isB(o1)) || (isB(o0) && isA(o1)), "outputs are (owed, delivery script) of A and of B")
		vAssert(o0.Value < o1.Value || (o0.Value == o1.Value && bytes.Compare(o0.PkScript, o1.PkScript) <= 0), "outputs in BIP-69 order")
	case haveA && len(txA.TxOut) == 1:
		vReach("only-A")
		vAssert(isA(txA.TxOut[0]), "single output pays A")
	case haveB && len(txA.TxOut) == 1:
		vReach("only-B")
		vAssert(isB(txA.TxOut[0]), "single output pays B")
	}
	wantSeq := wire.MaxTxInSequenceNum
	if ct&c17TaprootBit != 0 {
		vReach("taproot")
		wantSeq = c17MaxRBFSeq
	}
	if flow == 0 {
		vAssert(txA.TxIn[0].Sequence == wantSeq && txA.LockTime == 0, "legacy flow: final sequence (RBF sequence for taproot), locktime 0")
	}
	vAssert(txA.TxIn[0].PreviousOutPoint == op, "spends the funding outpoint")
	if !complete {
		return
	}

	// ---- (3c) both sides finalise with the two signatures ----
	finA, fbalA, errFA := chA.CompleteCooperativeClose(sigA, sigB, sA, sB, fee, optsA...)
	finB, fbalB, errFB := chB.CompleteCooperativeClose(sigB, sigA, sB, sA, fee, optsB...)
	vObserve("errFinA", errFA != nil)
	vObserve("errFinB", errFB != nil)
	vAssert(errFA == nil && errFB == nil, "CompleteCooperativeClose succeeds on both sides with the two proposal signatures")
	if errFA != nil || errFB != nil {
		return
	}
	vReach("completed")
	// ideal signatures verify iff they were made for this very transaction
	vAssert(c17SameTx(finA, txA) && c17SameTx(finA, txB), "A completes the transaction both signatures were made for")
	vAssert(c17SameTx(finB, txA) && c17SameTx(finB, txB), "B completes the transaction both signatures were made for")
	vAssert(fbalA == owedA && fbalB == owedB, "final balances reported at completion = what each side is owed")
	vAssert(len(finA.TxIn[0].Witness) == 4 && bytes.Equal(finA.TxIn[0].Witness[3], ws) &&
		len(finB.TxIn[0].Witness) == 4 && bytes.Equal(finB.TxIn[0].Witness[3], ws), "2-of-2 witness: empty, two signatures, witness script")
	vAssert(chA.isClosed && chB.isClosed, "both channels are marked closed")
}

func VerifC17Mirror()           { c17Mirror(0, false) }
func VerifC17MirrorThorough()   { c17Mirror(1, false) }
func VerifC17Complete()         { c17Mirror(0, true) }
func VerifC17CompleteThorough() { c17Mirror(1, true) }
