package chancloser

// Harness for C17 (cooperative close), legacy fee negotiation part.
//
// Units executed symbolically (real lnd code): (*ChanCloser).ReceiveClosingSigned,
// proposeCloseSigned, auxCloseOutputs, calcCompromiseFee, feeInAcceptableRange,
// ratchetFee, BeginNegotiation/initFeeBaseline (entry 4b), lnwire.NewSigFromSignature /
// Sig.ToSignature. The channel behind the chancloser.Channel interface is a
// fake that records what was signed and completed (c17Chan).

import (
	"github.com/btcsuite/btcd/btcec/v2"
	"github.com/btcsuite/btcd/btcec/v2/ecdsa"
	"github.com/btcsuite/btcd/btcutil/v2"
	"github.com/btcsuite/btcd/wire/v2"
	"github.com/lightningnetwork/lnd/channeldb"
	"github.com/lightningnetwork/lnd/fn/v2"
	"github.com/lightningnetwork/lnd/input"
	"github.com/lightningnetwork/lnd/lntypes"
	"github.com/lightningnetwork/lnd/lnwallet"
	"github.com/lightningnetwork/lnd/lnwallet/chainfee"
	"github.com/lightningnetwork/lnd/lnwire"
	"github.com/lightningnetwork/lnd/tlv"
)

const c17MaxSat = btcutil.Amount(2_100_000_000_000_000)

// c17Chan is the fake channel: it signs every proposal with a fixed,
// well-formed ECDSA signature and records the fees it signed and completed.
type c17Chan struct {
	initiator  bool
	chanType   channeldb.ChannelType
	signedFees []btcutil.Amount
	completed  []btcutil.Amount
	broadcast  int
}

func c17FixedSig() *ecdsa.Signature {
	var r, s btcec.ModNScalar
	r.SetInt(1)
	s.SetInt(1)
	return ecdsa.NewSignature(&r, &s)
}

func (m *c17Chan) ChannelPoint() wire.OutPoint                { return wire.OutPoint{} }
func (m *c17Chan) LocalCommitmentBlob() fn.Option[tlv.Blob]   { return fn.None[tlv.Blob]() }
func (m *c17Chan) FundingBlob() fn.Option[tlv.Blob]           { return fn.None[tlv.Blob]() }
func (m *c17Chan) MarkShutdownSent(*channeldb.ShutdownInfo) error { return nil }
func (m *c17Chan) IsInitiator() bool                          { return m.initiator }
func (m *c17Chan) ShortChanID() lnwire.ShortChannelID         { return lnwire.ShortChannelID{} }
func (m *c17Chan) ChanType() channeldb.ChannelType            { return m.chanType }
func (m *c17Chan) FundingTxOut() *wire.TxOut                  { return nil }
func (m *c17Chan) AbsoluteThawHeight() (uint32, error)        { return 0, nil }
func (m *c17Chan) LocalBalanceDust() (bool, btcutil.Amount)   { return false, 0 }
func (m *c17Chan) RemoteBalanceDust() (bool, btcutil.Amount)  { return false, 0 }
func (m *c17Chan) CommitBalances() (btcutil.Amount, btcutil.Amount) { return 0, 0 }
func (m *c17Chan) CommitFee() btcutil.Amount                  { return 0 }
func (m *c17Chan) RemoteUpfrontShutdownScript() lnwire.DeliveryAddress {
	return lnwire.DeliveryAddress{}
}
func (m *c17Chan) MarkCoopBroadcasted(*wire.MsgTx, lntypes.ChannelParty) error { return nil }

func (m *c17Chan) CreateCloseProposal(fee btcutil.Amount, _, _ []byte,
	_ ...lnwallet.ChanCloseOpt) (input.Signature, *wire.MsgTx, btcutil.Amount, error) {

	m.signedFees = append(m.signedFees, fee)
	return c17FixedSig(), nil, 0, nil
}

func (m *c17Chan) CompleteCooperativeClose(_, _ input.Signature, _, _ []byte, fee btcutil.Amount,
	_ ...lnwallet.ChanCloseOpt) (*wire.MsgTx, btcutil.Amount, error) {

	m.completed = append(m.completed, fee)
	return wire.NewMsgTx(2), 0, nil
}

func (m *c17Chan) signed(f btcutil.Amount) bool {
	ok := false
	for _, g := range m.signedFees {
		ok = ok || g == f
	}
	return ok
}

// c17Est is a fake CoopFeeEstimator: the absolute fee for the closer's own
// fee rate is `ideal`, for the configured max fee rate `max`.
type c17Est struct {
	idealRate  chainfee.SatPerKWeight
	ideal, max btcutil.Amount
}

func (e *c17Est) EstimateFee(_ channeldb.ChannelType, _, _ *wire.TxOut, rate chainfee.SatPerKWeight) btcutil.Amount {
	if rate == e.idealRate {
		return e.ideal
	}
	return e.max
}

func c17Closer(ch *c17Chan) *ChanCloser {
	c := &ChanCloser{
		state: closeFeeNegotiation,
		cfg: ChanCloseCfg{
			Channel: ch,
			BroadcastTx: func(*wire.MsgTx, string) error {
				ch.broadcast++
				return nil
			},
			AuxCloser: fn.None[AuxChanCloser](),
		},
		priorFeeOffers:       make(map[btcutil.Amount]*lnwire.ClosingSigned),
		localDeliveryScript:  []byte{0x00, 0x14, 1, 2, 3, 4, 5, 6, 7, 8, 9, 10, 11, 12, 13, 14, 15, 16, 17, 18, 19, 20},
		remoteDeliveryScript: []byte{0x00, 0x14, 20, 19, 18, 17, 16, 15, 14, 13, 12, 11, 10, 9, 8, 7, 6, 5, 4, 3, 2, 1},
		closer:               lntypes.Local,
	}
	return c
}

func c17Fee(name string) btcutil.Amount {
	v := btcutil.Amount(vI64(name))
	// property domain: realistic fees, at least 100 sat; at most the money supply
	vAssume(v >= 100 && v <= c17MaxSat)
	return v
}

func c17Abs(a btcutil.Amount) btcutil.Amount {
	if a < 0 {
		return -a
	}
	return a
}

func c17Config() {
	vOverflow("github.com/lightningnetwork/lnd/lnwallet/chancloser.calcCompromiseFee")
	vOverflow("github.com/lightningnetwork/lnd/lnwallet/chancloser.ratchetFee")
	vOverflow("github.com/lightningnetwork/lnd/lnwallet/chancloser.feeInAcceptableRange")
	vAssumption("C17(4): fake chancloser.Channel (signs everything with a fixed well-formed ECDSA signature, records signed and completed fees, never fails); no aux closer; non-taproot channel; fees in [100 sat, 21e6 BTC]")
}

// VerifC17Round — obligation 4a: one ReceiveClosingSigned in state
// closeFeeNegotiation, from every pre-state that real proposeCloseSigned calls
// can produce with 0, 1 or 2 earlier offers.
func VerifC17Round() {
	c17Config()
	ch := &c17Chan{initiator: vBool("isInitiator")}
	c := c17Closer(ch)
	ideal := c17Fee("idealFee")
	maxFee := c17Fee("maxFee")
	// "within each other's fee cap": our own ideal fee is below our own cap
	vAssume(ideal <= maxFee)
	c.idealFeeSat, c.maxFee = ideal, maxFee

	// history: number of offers we already sent
	hist := vChoice("priorOffers", 3)
	var older btcutil.Amount
	if hist == 2 {
		older = c17Fee("olderOffer")
		vAssume(!ch.initiator || older <= maxFee)
		if _, err := c.proposeCloseSigned(older); err != nil {
			vAssert(false, "proposeCloseSigned failed on the fake channel")
			return
		}
	}
	var last btcutil.Amount
	if hist >= 1 {
		last = c17Fee("lastOffer")
		// our earlier offers never exceeded our cap (the initiator checks
		// every proposal against maxFee; the first offer is the ideal fee)
		vAssume((!ch.initiator || last <= maxFee) && last != older)
		if _, err := c.proposeCloseSigned(last); err != nil {
			vAssert(false, "proposeCloseSigned failed on the fake channel")
			return
		}
	}
	vAssert(c.lastFeeProposal == last, "history: lastFeeProposal is the last offer")
	nSigned := len(ch.signedFees)

	remote := c17Fee("remoteFee")
	if ch.initiator {
		// "within each other's fee cap": the peer's offer does not exceed the
		// cap of the side that pays (the initiator)
		vAssume(remote <= maxFee)
	}
	wsig, err := lnwire.NewSigFromSignature(c17FixedSig())
	if err != nil {
		vAssert(false, "fixed signature does not convert")
		return
	}
	msg := lnwire.ClosingSigned{ChannelID: c.cid, FeeSatoshis: remote, Signature: wsig}

	resp, err := c.ReceiveClosingSigned(msg)

	vObserve("err", err != nil)
	vAssert(err == nil, "negotiation step does not fail when the remote fee is within the local cap")
	if err != nil {
		return
	}
	vObserve("state", uint8(c.state))
	if c.state == closeFinished {
		vReach("accept")
		vAssert(len(ch.completed) == 1 && ch.completed[0] == remote, "the close is completed exactly once, at the fee the peer signed")
		vAssert(ch.signed(remote), "we signed the accepted fee ourselves")
		vAssert(ch.broadcast == 1, "the closing tx is broadcast once")
		vAssert(resp.IsSome(), "the matching offer is returned")
		m := resp.UnwrapOr(lnwire.ClosingSigned{})
		vAssert(m.FeeSatoshis == remote, "the returned ClosingSigned carries the agreed fee")
		prior := (hist >= 1 && remote == last) || (hist == 2 && remote == older)
		if prior {
			vReach("accept-echo")
			vAssert(len(ch.signedFees) == nSigned, "an echoed offer is not signed again")
		} else {
			vReach("accept-new")
		}
		return
	}
	vReach("counter")
	vAssert(c.state == closeFeeNegotiation, "state stays closeFeeNegotiation")
	vAssert(len(ch.completed) == 0 && ch.broadcast == 0, "nothing completed or broadcast while negotiating")
	vAssert(resp.IsSome(), "a counter-proposal is returned")
	m := resp.UnwrapOr(lnwire.ClosingSigned{})
	p := m.FeeSatoshis
	vObserve("proposal", int64(p))
	vAssert(p != remote, "a counter-proposal differs from the peer's fee")
	vAssert(c.lastFeeProposal == p && ch.signed(p) && len(ch.signedFees) == nSigned+1, "the counter-proposal is signed and remembered")
	if _, ok := c.priorFeeOffers[p]; !ok {
		vAssert(false, "the counter-proposal is recorded in priorFeeOffers")
	}
	if ch.initiator {
		vAssert(p <= maxFee, "the initiator never proposes above its cap")
	}
	if hist == 0 {
		vReach("first-offer")
		vAssert(p == ideal, "the first offer is the ideal fee")
		return
	}
	// progress: strictly between our last offer and theirs, gap shrinks by
	// floor(last/10) >= 10
	lo, hi := last, remote
	if lo > hi {
		lo, hi = hi, lo
		vReach("ratchet-down")
	} else {
		vReach("ratchet-up")
	}
	vAssert(lo < p && p < hi, "counter-proposal strictly between our last offer and the peer's (no overshoot)")
	vAssert(last/10 >= 10, "step is at least 10 sat")
	vAssert(c17Abs(remote-p) <= c17Abs(remote-last)-last/10, "the gap to the peer's offer shrinks by at least floor(last/10)")
}

// ---------------------------------------------------------------------------
// obligation 4b: two real closers negotiate with each other.
// ---------------------------------------------------------------------------

func c17Party(initiator bool, ideal, maxAbs btcutil.Amount, explicitMax bool) (*ChanCloser, *c17Chan) {
	ch := &c17Chan{initiator: initiator}
	c := c17Closer(ch)
	c.state = closeAwaitingFlush
	c.idealFeeRate = chainfee.SatPerKWeight(253)
	c.cfg.FeeEstimator = &c17Est{idealRate: c.idealFeeRate, ideal: ideal, max: maxAbs}
	if explicitMax {
		c.cfg.MaxFee = chainfee.SatPerKWeight(1000) // any rate != idealRate: the estimator maps it to maxAbs
	}
	return c, ch
}

// c17Negotiate: A is the channel initiator (pays the fee, sends the first
// offer), B the other side. Ideal fees in [100, F]; B's ideal fee within A's
// cap (3x A's ideal fee by default, or an explicit cap >= both ideal fees).
// Messages are delivered alternately for at most R ReceiveClosingSigned calls.
func c17Negotiate(F btcutil.Amount, R int, explicitMax bool) {
	c17Config()
	idealA, idealB := c17Fee("idealA"), c17Fee("idealB")
	vAssume(idealA <= F && idealB <= F)
	capA := idealA * 3
	if explicitMax {
		capA = c17Fee("maxFeeA")
		vAssume(idealA <= capA)
	}
	// "within each other's fee cap"
	vAssume(idealB <= capA)
	a, chA := c17Party(true, idealA, capA, explicitMax)
	b, chB := c17Party(false, idealB, idealB*3, false)

	offerA, errA := a.BeginNegotiation()
	offerB, errB := b.BeginNegotiation()
	vAssert(errA == nil && errB == nil, "BeginNegotiation succeeds")
	if errA != nil || errB != nil {
		return
	}
	vAssert(offerA.IsSome() && offerB.IsNone(), "only the initiator sends the first offer")
	vAssert(a.idealFeeSat == idealA && a.maxFee == capA && b.idealFeeSat == idealB, "fee baseline taken from the estimator")
	if offerA.IsNone() {
		return
	}
	wsig, err := lnwire.NewSigFromSignature(c17FixedSig())
	if err != nil {
		vAssert(false, "fixed signature does not convert")
		return
	}
	msg := offerA.UnwrapOr(lnwire.ClosingSigned{})
	vAssert(msg.FeeSatoshis == idealA, "first offer is the initiator's ideal fee")
	toB := true
	rounds := 0
	for i := 0; i < R; i++ {
		recv := a
		if toB {
			recv = b
		}
		// what travels is (fee, signature): re-create the wire message
		in := lnwire.ClosingSigned{ChannelID: recv.cid, FeeSatoshis: msg.FeeSatoshis, Signature: wsig}
		resp, err := recv.ReceiveClosingSigned(in)
		vAssert(err == nil, "no negotiation step fails (ideal fees within the caps)")
		if err != nil {
			return
		}
		rounds++
		if resp.IsNone() {
			break
		}
		msg = resp.UnwrapOr(lnwire.ClosingSigned{})
		toB = !toB
	}
	vObserve("rounds", rounds)
	done := a.state == closeFinished && b.state == closeFinished
	vAssert(done, "both sides reach closeFinished within the round bound")
	if !done {
		return
	}
	vReach("agreed")
	vAssert(len(chA.completed) == 1 && len(chB.completed) == 1 && chA.completed[0] == chB.completed[0], "both sides complete the close exactly once at the same fee")
	fee := chA.completed[0]
	vObserve("fee", int64(fee))
	vAssert(chA.signed(fee) && chB.signed(fee), "the agreed fee was signed by both sides")
	vAssert(fee <= capA, "the agreed fee is within the payer's cap")
	vAssert(chA.broadcast == 1 && chB.broadcast == 1, "each side broadcasts once")
	if rounds >= 5 {
		vReach("long")
	}
	if idealA == idealB {
		vReach("immediate")
	}
}

func VerifC17Negotiate()         { c17Negotiate(200, 9, false) }
func VerifC17NegotiateThorough() { c17Negotiate(400, 16, false) }
func VerifC17NegotiateMaxFee()   { c17Negotiate(200, 9, true) }
