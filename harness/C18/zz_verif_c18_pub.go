package sweep

// Harness for C18, part 2: the budget side of the fee bumper.
//
// Unit (real lnd code, executed by gosmt): (*BumpRequest).MaxFeeRateAllowed
// with the real calcSweepTxWeight / weight estimator, chainfee.NewSatPerKWeight,
// (*TxPublisher).initializeFeeFunction / initializeTx / createRBFCompliantTx /
// createAndCheckTx / createSweepTx / prepareSweepTx / updateRecord / broadcast /
// createAndPublishTx, calcCurrentConfTarget, and the fee function of part 1.
//
// Fakes (behind interfaces lnd already has): input.Input (c18Input: value,
// optional required output, real StandardWitnessType for the weight), Wallet
// (c18Wallet: arbitrary mempool verdicts, records what is published),
// chainfee.Estimator (c18Est), FeeFunction (c18Fee: arbitrary rate, only in
// VerifC18Create).

import (
	"errors"

	"github.com/btcsuite/btcd/btcutil/v2"
	"github.com/btcsuite/btcd/chainhash/v2"
	"github.com/btcsuite/btcd/rpcclient"
	"github.com/btcsuite/btcd/txscript/v2"
	"github.com/btcsuite/btcd/wire/v2"
	"github.com/btcsuite/btcwallet/chain"
	"github.com/lightningnetwork/lnd/fn/v2"
	"github.com/lightningnetwork/lnd/input"
	"github.com/lightningnetwork/lnd/lntypes"
	"github.com/lightningnetwork/lnd/lnwallet"
	"github.com/lightningnetwork/lnd/lnwallet/chainfee"
	"github.com/lightningnetwork/lnd/tlv"
)

// 21e6 BTC in sat.
const c18MaxSat = int64(2_100_000_000_000_000)

// ---- fake input ----

type c18Input struct {
	op       wire.OutPoint
	wt       input.StandardWitnessType
	sd       input.SignDescriptor
	required *wire.TxOut
}

func (i *c18Input) OutPoint() wire.OutPoint            { return i.op }
func (i *c18Input) RequiredTxOut() *wire.TxOut         { return i.required }
func (i *c18Input) RequiredLockTime() (uint32, bool)   { return 0, false }
func (i *c18Input) WitnessType() input.WitnessType     { return i.wt }
func (i *c18Input) SignDesc() *input.SignDescriptor    { return &i.sd }
func (i *c18Input) BlocksToMaturity() uint32           { return 0 }
func (i *c18Input) HeightHint() uint32                 { return 0 }
func (i *c18Input) UnconfParent() *input.TxInfo        { return nil }
func (i *c18Input) ResolutionBlob() fn.Option[tlv.Blob] { return fn.None[tlv.Blob]() }
func (i *c18Input) Preimage() fn.Option[lntypes.Preimage] {
	return fn.None[lntypes.Preimage]()
}
func (i *c18Input) CraftInputScript(input.Signer, *wire.MsgTx, *txscript.TxSigHashes,
	txscript.PrevOutputFetcher, int) (*input.Script, error) {

	return &input.Script{}, nil
}

// 34-byte P2WSH script (required outputs of second-level HTLC inputs) and
// 22-byte P2WKH script (the sweep/change address).
func c18P2WSH() []byte {
	s := make([]byte, 34)
	s[0], s[1] = txscript.OP_0, txscript.OP_DATA_32
	return s
}
func c18P2WKH() []byte {
	s := make([]byte, 22)
	s[0], s[1] = txscript.OP_0, txscript.OP_DATA_20
	return s
}

// Dust limits of Bitcoin Core's default policy (3000 sat/kvB): 294 sat for a
// P2WPKH output, 330 sat for P2WSH.
const c18DustP2WKH = 294

// c18DustLimit stands in (symbolically only; the native replay runs the real
// function) for lnwallet.DustLimitForSize, whose script construction goes
// through text/template + reflect. The values are Bitcoin Core's defaults.
func c18DustLimit(scriptSize int) btcutil.Amount {
	switch scriptSize {
	case input.P2WPKHSize:
		return 294
	case input.P2WSHSize:
		return 330
	}
	vAssert(false, "c18DustLimit: unexpected script size")
	return 330
}

// c18Inputs builds n fake inputs with symbolic values; input k commits to a
// required output (symbolic value) when bit k of reqMask is set.
func c18Inputs(n int, reqMask int) ([]input.Input, []*c18Input) {
	var ins []input.Input
	var raw []*c18Input
	for k := 0; k < n; k++ {
		v := vI64("inValue")
		vAssume(v >= 0 && v <= c18MaxSat)
		in := &c18Input{
			op: wire.OutPoint{Hash: chainhash.Hash{byte(k + 1)}, Index: uint32(k)},
			wt: input.CommitmentTimeLock,
			sd: input.SignDescriptor{Output: &wire.TxOut{Value: v, PkScript: c18P2WSH()}},
		}
		if reqMask&(1<<k) != 0 {
			rv := vI64("reqValue")
			vAssume(rv >= 0 && rv <= c18MaxSat)
			in.wt = input.HtlcAcceptedSuccessSecondLevel
			in.required = &wire.TxOut{Value: rv, PkScript: c18P2WSH()}
		}
		ins = append(ins, in)
		raw = append(raw, in)
	}
	return ins, raw
}

// ---- fake wallet ----

type c18Wallet struct {
	verdict func() error // mempool verdict for the next CheckMempoolAcceptance
	checked []*wire.MsgTx
	onPub   func(tx *wire.MsgTx)
}

func (w *c18Wallet) PublishTransaction(tx *wire.MsgTx, _ string) error {
	if w.onPub != nil {
		w.onPub(tx)
	}
	return nil
}
func (w *c18Wallet) ListUnspentWitnessFromDefaultAccount(int32, int32) ([]*lnwallet.Utxo, error) {
	return nil, nil
}
func (w *c18Wallet) WithCoinSelectLock(f func() error) error { return f() }
func (w *c18Wallet) RemoveDescendants(*wire.MsgTx) error     { return nil }
func (w *c18Wallet) FetchTx(chainhash.Hash) (*wire.MsgTx, error) {
	return nil, nil
}
func (w *c18Wallet) CancelRebroadcast(chainhash.Hash) {}
func (w *c18Wallet) CheckMempoolAcceptance(tx *wire.MsgTx) error {
	w.checked = append(w.checked, tx)
	return w.verdict()
}
func (w *c18Wallet) GetTransactionDetails(*chainhash.Hash) (*lnwallet.TransactionDetail, error) {
	return nil, nil
}
func (w *c18Wallet) BackEnd() string { return "c18" }

var c18ErrMempoolOther = errors.New("c18: mempool rejects for another reason")

const (
	c18VAccept = iota
	c18VInsufficientFee
	c18VMinRelay
	c18VBackendVersion
	c18VUnimplemented
	c18VOther
	c18VMissingInputs
	c18NumVerdicts
)

func c18Verdict(k int) error {
	switch k {
	case c18VAccept:
		return nil
	case c18VInsufficientFee:
		return chain.ErrInsufficientFee
	case c18VMinRelay:
		return chain.ErrMinRelayFeeNotMet
	case c18VBackendVersion:
		return rpcclient.ErrBackendVersion
	case c18VUnimplemented:
		return chain.ErrUnimplemented
	case c18VMissingInputs:
		return chain.ErrMissingInputs
	}
	return c18ErrMempoolOther
}

// ---- fake fee function (arbitrary rate) ----

type c18Fee struct{ rate chainfee.SatPerKWeight }

func (f *c18Fee) FeeRate() chainfee.SatPerKWeight        { return f.rate }
func (f *c18Fee) Increment() (bool, error)               { return false, ErrMaxPosition }
func (f *c18Fee) IncreaseFeeRate(uint32) (bool, error)   { return false, nil }

func c18PubConfig(ovf bool) {
	// logging-only computations
	vNoop("(*github.com/btcsuite/btcd/wire/v2.MsgTx).TxHash")
	vNoop("github.com/lightningnetwork/lnd/sweep.inputTypeSummary")
	// sighash midstate cache: only consumed by CraftInputScript (fake input)
	vNoop("github.com/btcsuite/btcd/txscript/v2.NewTxSigHashes")
	// records map (lnutils.SyncMap over sync.Map): storage only
	vNoop("(*github.com/lightningnetwork/lnd/lnutils.SyncMap[uint64, *github.com/lightningnetwork/lnd/sweep.monitorRecord]).Store[uint64 *github.com/lightningnetwork/lnd/sweep.monitorRecord]")
	vNoop("github.com/lightningnetwork/lnd/labels.MakeLabel")
	vReplace("github.com/lightningnetwork/lnd/lnwallet.DustLimitForSize", "github.com/lightningnetwork/lnd/sweep.c18DustLimit")
	if ovf {
		vOverflow("github.com/lightningnetwork/lnd/sweep.prepareSweepTx")
		vOverflow("(github.com/lightningnetwork/lnd/lnwallet/chainfee.SatPerKWeight).FeeForWeight")
		vOverflow("github.com/lightningnetwork/lnd/sweep.c18TxFee")
	}
	vAssumption("input and required-output values in [0, 21e6 BTC]; budget in [0, 21e6 BTC]; fee rates in [0, 2^40) sat/kw")
	vAssumption("inputs are fakes of input.Input with real StandardWitnessTypes (weight from the real estimator); scripts are never executed; TxHash/NewTxSigHashes/inputTypeSummary/records-map Store are no-ops symbolically; lnwallet.DustLimitForSize replaced symbolically by its constants 294 (P2WPKH) / 330 (P2WSH), the real one runs in replay")
}

func c18Publisher(w *c18Wallet, est chainfee.Estimator, height int32) *TxPublisher {
	t := &TxPublisher{
		cfg: &TxPublisherConfig{
			Wallet:     w,
			Estimator:  est,
			AuxSweeper: fn.None[AuxSweeper](),
		},
	}
	t.currentHeight.Store(height)
	return t
}

// c18TxFee is the oracle's fee of a transaction: what goes in minus what comes
// out, computed from the transaction itself. Every operation is overflow
// checked (vOverflow) so the machine result is the mathematical one.
func c18TxFee(raw []*c18Input, tx *wire.MsgTx) int64 {
	var in, out int64
	for _, i := range raw {
		in += i.sd.Output.Value
	}
	for _, o := range tx.TxOut {
		out += o.Value
	}
	return in - out
}

// c18CheckTx: the per-transaction clauses of the property.
func c18CheckTx(tag string, raw []*c18Input, tx *wire.MsgTx, budget btcutil.Amount) {
	fee := c18TxFee(raw, tx)
	vAssert(fee >= 0 && fee <= int64(budget), tag+": fee (inputs - outputs) <= budget")
	// spends all the inputs it was asked to sweep, each exactly once
	vAssert(len(tx.TxIn) == len(raw), tag+": spends exactly the inputs requested")
	nReq := 0
	for _, i := range raw {
		found := 0
		for _, ti := range tx.TxIn {
			if ti.PreviousOutPoint == i.op {
				found++
			}
		}
		vAssert(found == 1, tag+": every requested input is spent once")
		if i.required != nil {
			nReq++
		}
	}
	// outputs: the required ones (given, value untouched) plus at most one
	// change output, which is never dust
	vAssert(len(tx.TxOut) == nReq || len(tx.TxOut) == nReq+1, tag+": outputs are the required ones plus at most one change")
	vAssert(len(tx.TxOut) > 0, tag+": at least one output")
	if len(tx.TxOut) == nReq+1 {
		ch := tx.TxOut[len(tx.TxOut)-1]
		vAssert(ch.Value >= c18DustP2WKH, tag+": change output not below dust")
	}
}

// VerifC18Create: createAndCheckTx with the real createSweepTx/prepareSweepTx
// for an ARBITRARY current fee rate (fake FeeFunction), arbitrary input and
// required-output values, arbitrary budget and any mempool verdict: whatever
// it hands back as publishable pays at most the budget.
func VerifC18Create() {
	c18PubConfig(true)
	n := vChoice("n", 2) + 1
	reqMask := vChoice("req", 1<<n)
	ins, raw := c18Inputs(n, reqMask)
	budget := btcutil.Amount(vI64("budget"))
	rate := chainfee.SatPerKWeight(vI64("rate"))
	vAssume(budget >= 0 && int64(budget) <= c18MaxSat)
	vAssume(rate >= 0 && int64(rate) < c18MaxRate)
	verdict := vChoice("verdict", c18NumVerdicts)
	w := &c18Wallet{verdict: func() error { return c18Verdict(verdict) }}
	t := c18Publisher(w, &c18Est{}, 800000)
	req := &BumpRequest{
		Budget:          budget,
		Inputs:          ins,
		DeadlineHeight:  800100,
		DeliveryAddress: lnwallet.AddrWithKey{DeliveryAddress: c18P2WKH()},
		MaxFeeRate:      chainfee.SatPerKWeight(c18MaxRate),
	}
	r := &monitorRecord{requestID: 1, req: req, feeFunction: &c18Fee{rate: rate}}

	ctx, err := t.createAndCheckTx(r)

	// nothing above budget is even offered to the mempool
	for _, tx := range w.checked {
		c18CheckTx("mempool-tested tx", raw, tx, budget)
	}
	if err != nil {
		vReach("refused")
		if errors.Is(err, ErrNotEnoughBudget) {
			vReach("refused-budget")
			vAssert(len(w.checked) == 0, "over-budget tx is not offered to the mempool")
			// a refusal names a rule that is actually violated
			vAssert(ctx != nil && ctx.tx != nil && c18TxFee(raw, ctx.tx) > int64(budget),
				"ErrNotEnoughBudget only when the fee of the built tx exceeds the budget")
		}
		vAssert(verdict != c18VAccept || len(w.checked) == 0, "an accepted tx is not refused")
		return
	}
	vReach("publishable")
	vAssert(ctx != nil && ctx.tx != nil, "publishable: tx returned")
	vAssert(verdict == c18VAccept || verdict == c18VBackendVersion || verdict == c18VUnimplemented,
		"publishable only if the mempool accepts or cannot be asked")
	vAssert(int64(ctx.fee) == c18TxFee(raw, ctx.tx), "reported fee is the fee of the transaction")
	c18CheckTx("publishable tx", raw, ctx.tx, budget)
}

// VerifC18MaxRate: MaxFeeRateAllowed with the real weight estimate: succeeds,
// never above MaxFeeRate, never negative, zero budget gives rate zero.
// (The rounding slack of NewSatPerKWeight against budget/weight is NOT claimed:
// see NOTES.md "outside".)
func VerifC18MaxRate() {
	c18PubConfig(false)
	vMerge("github.com/btcsuite/btcd/btcutil/v2.round")
	vOverflow("github.com/btcsuite/btcd/btcutil/v2.round")
	n := vChoice("n", 3) + 1
	reqMask := 0
	if vChoice("req", 2) == 1 {
		reqMask = 1
	}
	ins, _ := c18Inputs(n, reqMask)
	budget := btcutil.Amount(vI64("budget"))
	maxRate := chainfee.SatPerKWeight(vI64("maxFeeRate"))
	vAssume(budget >= 0 && int64(budget) <= c18MaxSat)
	vAssume(maxRate >= 0 && int64(maxRate) < c18MaxRate)
	req := &BumpRequest{
		Budget:          budget,
		Inputs:          ins,
		DeliveryAddress: lnwallet.AddrWithKey{DeliveryAddress: c18P2WKH()},
		MaxFeeRate:      maxRate,
	}
	weight, werr := calcSweepTxWeight(ins, [][]byte{req.DeliveryAddress.DeliveryAddress})
	vAssert(werr == nil && weight >= 400 && weight < 4_000_000, "weight estimate is a standard tx weight")
	vObserve("weight", int64(weight))

	got, err := req.MaxFeeRateAllowed()

	vAssert(err == nil, "MaxFeeRateAllowed succeeds")
	vAssert(got >= 0 && got <= maxRate, "0 <= allowed rate <= MaxFeeRate")
	if budget == 0 {
		vReach("zero-budget")
		vAssert(got == 0, "zero budget gives rate zero")
	}
	if got < maxRate {
		vReach("budget-bound")
	} else {
		vReach("max-bound")
	}
}

// ---- the publisher flow ----

const (
	c18PubMain    = iota // ceiling >= 1, and relay floor <= ceiling when the deadline is >= 1008 blocks away
	c18PubFinding        // the complement
)

// VerifC18Publish: initial broadcast (initializeTx: initializeFeeFunction +
// createRBFCompliantTx with up to two fee-related mempool rejections, then
// broadcast) followed by one block beat (IncreaseFeeRate(calcCurrentConfTarget)
// + createAndPublishTx) through the real publisher code. The oracle sits in the
// fake wallet's PublishTransaction: every published transaction pays at most
// the budget, at a rate <= MaxFeeRate and <= the ceiling, never below the
// previously published rate, the first one at no less than the relay floor,
// and from one block before the deadline on at the ceiling.
func VerifC18Publish() { c18Publish(c18PubMain, 0) }

// VerifC18PublishT: thorough tier, additionally one fee-related mempool
// rejection (createRBFCompliantTx's Increment loop) per flow.
func VerifC18PublishT() { c18Publish(c18PubMain, 1) }

// VerifC18FindPublishAboveMax: the same flow on the complementary region. On
// the unchanged tree this reports the CANDIDATE FINDING of NOTES.md at the
// publisher level (a sweep published above MaxFeeRate).
func VerifC18FindPublishAboveMax() { c18Publish(c18PubFinding, 0) }

func c18Publish(region int, maxRejects int) {
	reach := func(label string) {
		// reach labels (replayed witnesses must pass every assertion) only
		// on the main region
		if region == c18PubMain {
			vReach(label)
		}
	}
	// integer overflow inside prepareSweepTx / FeeForWeight is an obligation in
	// VerifC18Create (arbitrary rate); not repeated here
	c18PubConfig(false)
	c18FeeFnConfig()
	reqMask := vChoice("req", 2)
	ins, raw := c18Inputs(1, reqMask)
	// The budget is one of a few concrete values here (it is symbolic in
	// VerifC18Create and VerifC18MaxRate): with a symbolic budget the ceiling
	// is a float64 function of the budget that later meets the integer product
	// rate*weight/1000 in the budget guard, which no solver decides (NOTES.md).
	budgets := []btcutil.Amount{0, 1000, 5_000_000, 40_000_000_000}
	budget := budgets[vChoice("budgetK", len(budgets))]
	maxRate := chainfee.SatPerKWeight(vI64("maxFeeRate"))
	vAssume(maxRate >= 0 && int64(maxRate) < c18MaxRate)
	est := &c18Est{
		rate:  chainfee.SatPerKWeight(vI64("estRate")),
		fail:  vBool("estFails"),
		relay: chainfee.SatPerKWeight(vI64("relay")),
	}
	// estimator answers are fee rates: same domain as every other rate
	vAssume(est.rate >= 0 && est.relay >= 0 && int64(est.rate) < c18MaxRate && int64(est.relay) < c18MaxRate)
	if region == c18PubFinding {
		// a MaxFeeRate that lncfg accepts (>= MaxFeeRateFloor = 100 sat/vb)
		vAssume(maxRate >= 25_000)
	}

	// deadline distance at the initial broadcast
	dists := []int32{0, 1, 2, 3, 4, 1008, 1500}
	dist := dists[vChoice("dist", len(dists))]
	const h0 = int32(800000)
	deadline := h0 + dist

	req := &BumpRequest{
		Budget:          budget,
		Inputs:          ins,
		DeadlineHeight:  deadline,
		DeliveryAddress: lnwallet.AddrWithKey{DeliveryAddress: c18P2WKH()},
		MaxFeeRate:      maxRate,
		StartingFeeRate: fn.None[chainfee.SatPerKWeight](),
	}
	// the ceiling of the property: the lesser of budget-over-size and MaxFeeRate
	ceiling, cerr := req.MaxFeeRateAllowed()
	vAssert(cerr == nil && ceiling <= maxRate, "ceiling computed, <= MaxFeeRate")
	inMain := ceiling >= 1 && (dist < 1008 || est.relay <= ceiling)
	if region == c18PubMain {
		vAssume(inMain)
	} else {
		vAssume(!inMain)
	}

	var (
		r         *monitorRecord
		height    = h0
		published = 0
		lastRate  chainfee.SatPerKWeight
		rejects   = 0
	)
	w := &c18Wallet{}
	w.verdict = func() error {
		// at most maxRejects fee-related rejections per flow, then accept
		if rejects < maxRejects {
			switch vChoice("verdict", 3) {
			case 1:
				rejects++
				return chain.ErrInsufficientFee
			case 2:
				rejects++
				return chain.ErrMinRelayFeeNotMet
			}
		}
		return nil
	}
	w.onPub = func(tx *wire.MsgTx) {
		rate := r.feeFunction.FeeRate()
		if published == 0 {
			vObserve("publishedRate0", int64(rate))
		} else {
			vObserve("publishedRate1", int64(rate))
		}
		c18CheckTx("published tx", raw, tx, budget)
		vAssert(rate <= maxRate, "published tx: fee rate <= MaxFeeRate")
		vAssert(rate <= ceiling, "published tx: fee rate <= ceiling (lesser of budget rate and MaxFeeRate)")
		if published == 0 {
			reach("published-initial")
			if est.relay <= ceiling {
				vAssert(rate >= est.relay, "published tx: first rate >= relay floor")
			}
		} else {
			reach("published-bump")
			vAssert(rate >= lastRate, "published tx: fee rate never decreases")
		}
		if height >= deadline-1 {
			reach("published-at-deadline-minus-one")
			vAssert(rate == ceiling, "published tx: at the ceiling from one block before the deadline on")
		}
		lastRate = rate
		published++
	}
	t := c18Publisher(w, est, h0)
	r = &monitorRecord{requestID: 1, req: req}

	// --- initial broadcast (handleInitialBroadcast without the result plumbing) ---
	rec, err := t.initializeTx(r)
	if err != nil {
		reach("initial-refused")
		vAssert(published == 0, "nothing published when the initial tx is refused")
		return
	}
	res, err := t.broadcast(rec)
	vAssert(err == nil && res != nil && published == 1, "initial tx handed to the wallet exactly once")
	vAssert(res.Fee <= budget && res.FeeRate <= ceiling, "initial result: fee <= budget, rate <= ceiling")

	// --- one block beat (handleFeeBumpTx without the result plumbing) ---
	// 0: the same height again, 1: the next block, 2: a skip to one block
	// before the deadline, 3: a skip to one block past the deadline
	switch vChoice("adv", 4) {
	case 0:
	case 1:
		height = h0 + 1
	case 2:
		height = deadline - 1
	case 3:
		height = deadline + 1
	}
	if height < h0 {
		vAssume(false)
	}
	t.currentHeight.Store(height)
	increased, ierr := r.feeFunction.IncreaseFeeRate(calcCurrentConfTarget(height, deadline))
	if height >= deadline-1 {
		reach("beat-at-deadline-minus-one")
		vAssert(r.feeFunction.FeeRate() == ceiling, "fee function at the ceiling from one block before the deadline on")
	}
	if ierr != nil || !increased {
		reach("no-bump")
		vAssert(r.feeFunction.FeeRate() == lastRate, "no bump: offered rate unchanged")
		return
	}
	before := published
	out := t.createAndPublishTx(r)
	if published > before {
		reach("bumped")
	} else {
		reach("bump-refused")
		vAssert(out.IsNone() || out.UnwrapOr(BumpResult{}).Event != TxReplaced, "no replacement reported when nothing was published")
	}
}
