package sweep

// Harness for C18, part 1: the linear fee function.
//
// Unit (real lnd code, executed by gosmt): NewLinearFeeFunction,
// (*LinearFeeFunction).Increment / IncreaseFeeRate / increaseFeeRate /
// feeRateAtPosition / estimateFeeRate / FeeRate, FeeEstimateInfo.Estimate,
// btcutil.Amount.MulF64 + btcutil.round (float64), calcCurrentConfTarget.
//
// Floating point: width and position are always concrete on a path (vChoice /
// concrete loops), rates and the estimator's answers are symbolic.

import (
	"errors"

	"github.com/lightningnetwork/lnd/fn/v2"
	"github.com/lightningnetwork/lnd/lnwallet/chainfee"
)

// c18MaxRate bounds the symbolic fee rates: 2^40 sat/kw is ~4.4e6 sat/vb, far
// above lncfg.MaxAllowedFeeRate (10_000 sat/vb = 2.5e6 sat/kw).
const c18MaxRate = int64(1) << 40

// c18Est is a fake chainfee.Estimator (the interface lnd already has) whose
// answers are arbitrary.
type c18Est struct {
	rate  chainfee.SatPerKWeight
	fail  bool
	relay chainfee.SatPerKWeight
	calls int
}

var c18ErrEst = errors.New("c18: estimator failed")

func (e *c18Est) EstimateFeePerKW(uint32) (chainfee.SatPerKWeight, error) {
	e.calls++
	if e.fail {
		return 0, c18ErrEst
	}
	return e.rate, nil
}
func (e *c18Est) Start() error                          { return nil }
func (e *c18Est) Stop() error                           { return nil }
func (e *c18Est) RelayFeePerKW() chainfee.SatPerKWeight { return e.relay }

func c18FeeFnConfig() {
	vMerge("(*github.com/lightningnetwork/lnd/sweep.LinearFeeFunction).feeRateAtPosition")
	vMerge("github.com/btcsuite/btcd/btcutil/v2.round")
	vOverflow("github.com/lightningnetwork/lnd/sweep.NewLinearFeeFunction")
	vOverflow("(*github.com/lightningnetwork/lnd/sweep.LinearFeeFunction).feeRateAtPosition")
	vOverflow("(*github.com/lightningnetwork/lnd/sweep.LinearFeeFunction).IncreaseFeeRate")
	vOverflow("(*github.com/lightningnetwork/lnd/sweep.LinearFeeFunction).Increment")
	vOverflow("(github.com/btcsuite/btcd/btcutil/v2.Amount).MulF64")
	vOverflow("github.com/btcsuite/btcd/btcutil/v2.round")
	vOverflow("github.com/lightningnetwork/lnd/sweep.calcCurrentConfTarget")
	vAssumption("fee rates (ceiling, caller-supplied start) in [0, 2^40) sat/kw; estimator and relay-floor answers any non-negative int64")
	vAssumption("fee-function width and position are concrete per path (case split); float64 encoded bit-precisely (RNE, Go conversions)")
}

// c18ConfTargets lists the conf targets the construction entry is split over.
// quick: the small widths, the values around chainfee.MaxBlockTarget and two
// large ones; thorough: additionally every conf target up to C18_NEW_W+1.
func c18ConfTarget(extra int) uint32 {
	special := []uint32{0, 1, 2, 3, 4, 7, 145, 1007, 1008, 1009, 2016, 4000000}
	k := vChoice("ct", len(special)+extra)
	if k < len(special) {
		return special[k]
	}
	return uint32(k-len(special)) + 5
}

// VerifC18New: construction through the estimator, any estimator answers.
// Region: relay floor <= ceiling whenever the conf target is >= 1008 (the
// complementary region is the subject of VerifC18NewFloorAboveCeiling).
func VerifC18New() {
	c18FeeFnConfig()
	c18New(true, 0)
}

// VerifC18NewT: thorough tier, additionally every conf target 5..148.
func VerifC18NewT() {
	c18FeeFnConfig()
	c18New(true, 144)
}

// VerifC18NewFloorAboveCeiling: the same entry without the region restriction.
// On the unchanged tree this reports the CANDIDATE FINDING described in
// NOTES.md (start rate above the ceiling for conf targets >= 1008).
func VerifC18NewFloorAboveCeiling() {
	c18FeeFnConfig()
	c18New(false, 0)
}

func c18New(restrict bool, extra int) {
	ct := c18ConfTarget(extra)
	end := chainfee.SatPerKWeight(vI64("end"))
	est := &c18Est{
		rate:  chainfee.SatPerKWeight(vI64("estRate")),
		fail:  vBool("estFails"),
		relay: chainfee.SatPerKWeight(vI64("relay")),
	}
	vAssume(end >= 0 && int64(end) < c18MaxRate)
	vAssume(est.rate >= 0 && est.relay >= 0)
	if restrict {
		if ct >= 1008 {
			vAssume(est.relay <= end)
		}
	} else {
		vAssume(ct >= 1008 && est.relay > end)
	}

	l, err := NewLinearFeeFunction(end, ct, est, fn.None[chainfee.SatPerKWeight]())

	if ct <= 1 {
		vReach("deadline-reached")
		vAssert(err == nil && l != nil, "confTarget<=1: construction succeeds")
		vAssert(l.FeeRate() == end && l.startingFeeRate == end && l.endingFeeRate == end,
			"confTarget<=1: the ceiling is used immediately")
		vAssert(est.calls == 0, "confTarget<=1: estimator not consulted")
		return
	}
	if err != nil {
		vAssert(l == nil, "failed construction returns no fee function")
		switch {
		case errors.Is(err, ErrZeroFeeRateDelta):
			vReach("refused-zero-delta")
		case errors.Is(err, c18ErrEst):
			vReach("refused-estimator-error")
			vAssert(est.fail && ct < 1008, "estimator error reported only when the estimator failed")
		case errors.Is(err, ErrFeePreferenceTooLow):
			vReach("refused-below-relay")
			vAssert(est.rate < est.relay, "ErrFeePreferenceTooLow only when the estimate is below the relay floor")
		default:
			vAssert(false, "unexpected construction error")
		}
		return
	}
	vReach("constructed")
	vObserve("start", int64(l.startingFeeRate))
	vObserve("delta", int64(l.deltaFeeRate))
	// cap: never start above the ceiling
	vAssert(l.startingFeeRate <= l.endingFeeRate, "start rate <= ceiling")
	vAssert(l.endingFeeRate == end, "ceiling is the maximum handed in")
	// floor: start at no less than the relay floor (when the ceiling allows it)
	if est.relay <= end {
		vAssert(l.startingFeeRate >= est.relay, "start rate >= relay floor")
	}
	vAssert(int64(l.deltaFeeRate) >= 0, "delta >= 0 (rate never decreases)")
	vAssert(l.deltaFeeRate != 0 || l.width == 1, "zero delta only with width 1")
	vAssert(l.currentFeeRate == l.startingFeeRate && l.FeeRate() == l.startingFeeRate, "current rate initialised to start")
	vAssert(l.width == ct-1 && l.position == 0, "width = confTarget-1, position 0")
	if ct < 1008 {
		vAssert(!est.fail, "estimator failure is not swallowed")
	}
}

// c18Make builds a fee function through the real constructor with a
// caller-supplied start rate (start <= end is the constructor's documented
// contract for that parameter: "endingFeeRate specifies the max allowed fee
// rate").
func c18Make(w uint32) (*LinearFeeFunction, chainfee.SatPerKWeight, chainfee.SatPerKWeight) {
	start := chainfee.SatPerKWeight(vI64("start"))
	end := chainfee.SatPerKWeight(vI64("end"))
	vAssume(start >= 0 && start <= end && int64(end) < c18MaxRate)
	l, err := NewLinearFeeFunction(end, w+1, &c18Est{}, fn.Some(start))
	if err != nil {
		vAssert(errors.Is(err, ErrZeroFeeRateDelta) && w != 1, "only a zero delta with width != 1 is refused")
		vReach("refused-zero-delta")
		vAssume(false)
	}
	vAssert(l.startingFeeRate == start && l.endingFeeRate == end && l.width == w, "constructor keeps start, end, width")
	return l, start, end
}

// VerifC18Position: for every width w <= W and position p <= w of a fee
// function built by the real constructor: start <= rate(p) <= end,
// rate(p) <= rate(p+1), rate(0) = start, rate(w) = end.
func VerifC18Position() { c18Position(1, 6) }

// VerifC18PositionT: thorough tier, widths wblk*9+1 .. wblk*9+9 (wblk pinned
// per shard, 16 shards: W = 144).
func VerifC18PositionT() { c18Position(16, 9) }

func c18Position(blocks, per int) {
	c18FeeFnConfig()
	w := uint32(vChoice("wblk", blocks)*per + vChoice("w", per) + 1)
	l, start, end := c18Make(w)
	vReach("constructed")
	p := uint32(vChoice("p", int(w)+1))
	if p > w {
		vAssume(false)
	}
	r := l.feeRateAtPosition(p)
	vAssert(r >= start, "rate(p) >= start")
	vAssert(r <= end, "rate(p) <= ceiling")
	if p == 0 {
		vAssert(r == start, "rate(0) = start")
	}
	if p >= w {
		vAssert(r == end, "rate(width) = ceiling")
	}
	r1 := l.feeRateAtPosition(p + 1)
	vAssert(r <= r1, "rate(p) <= rate(p+1)")
	vAssert(r1 <= end, "rate(p+1) <= ceiling")
}

// VerifC18Mono: monotonicity of feeRateAtPosition for an arbitrary delta
// (independent of how delta was derived), positions p < q.
func VerifC18Mono() { c18Mono(1, 8, 2) }

// VerifC18MonoT: thorough tier, every p < 1008 (16 blocks of 63), q-p in 1..3.
func VerifC18MonoT() { c18Mono(16, 63, 3) }

func c18Mono(blocks, perBlock, steps int) {
	c18FeeFnConfig()
	start := chainfee.SatPerKWeight(vI64("start"))
	end := chainfee.SatPerKWeight(vI64("end"))
	delta := vI64("delta")
	vAssume(start >= 0 && start <= end && int64(end) < c18MaxRate)
	// delta = (end-start)*1000/width <= 2^40*1000 < 2^50
	vAssume(delta >= 0 && delta < 1<<50)
	blk := vChoice("blk", blocks)
	step := uint32(vChoice("step", steps) + 1)
	l := &LinearFeeFunction{
		startingFeeRate: start, endingFeeRate: end, currentFeeRate: start,
		width: 100000, deltaFeeRate: mSatPerKWeight(delta),
	}
	for i := 0; i < perBlock; i++ {
		p := uint32(blk*perBlock + i)
		rp, rq := l.feeRateAtPosition(p), l.feeRateAtPosition(p+step)
		vAssert(rp <= rq, "rate(p) <= rate(q) for p < q, any delta >= 0")
		vAssert(rp >= start && rq <= end, "start <= rate <= ceiling, any delta >= 0")
	}
	vReach("done")
}

// VerifC18Walk: a fee function built by the real constructor is driven by a
// sequence of block arrivals (heights may be skipped or repeated, or the
// caller uses Increment); after every step the offered rate is observed.
func VerifC18Walk() { c18Walk(4, 2) }

// VerifC18WalkT: thorough tier, widths 1..6, three steps.
func VerifC18WalkT() { c18Walk(6, 3) }

func c18Walk(maxW, steps int) {
	c18FeeFnConfig()
	w := uint32(vChoice("w", maxW) + 1)
	l, start, end := c18Make(w)
	const h0 = int32(800000)
	deadline := h0 + int32(w) + 1
	vAssert(calcCurrentConfTarget(h0, deadline) == w+1, "initial conf target")
	prev := l.FeeRate()
	vAssert(prev == start, "first offered rate is the start rate")
	height := h0
	for i := 0; i < steps; i++ {
		// op 0: Increment; op k>0: a block beat at height+k-1 (k-1 = 0
		// repeats the height, k-1 > 1 skips heights), up to two blocks
		// past the deadline.
		op := vChoice("op", int(w)+4)
		posBefore := l.position
		var inc bool
		var err error
		if op == 0 {
			inc, err = l.Increment()
			if posBefore >= w {
				vReach("max-position")
				vAssert(errors.Is(err, ErrMaxPosition) && !inc, "Increment at the end returns ErrMaxPosition")
				vAssert(l.FeeRate() == prev && l.position == posBefore, "ErrMaxPosition leaves the state")
			} else {
				vAssert(err == nil, "Increment before the end succeeds")
				vAssert(l.position == posBefore+1, "Increment moves one position")
			}
		} else {
			height += int32(op - 1)
			if height > deadline+2 {
				vAssume(false)
			}
			ct := calcCurrentConfTarget(height, deadline)
			inc, err = l.IncreaseFeeRate(ct)
			if err != nil {
				vReach("max-position-beat")
				vAssert(errors.Is(err, ErrMaxPosition) && posBefore >= w, "IncreaseFeeRate fails only at the end")
				vAssert(l.FeeRate() == prev && l.position == posBefore, "ErrMaxPosition leaves the state")
			}
			if height >= deadline-1 {
				// one block before the deadline (or later): ceiling
				vReach("deadline-minus-one")
				vAssert(l.FeeRate() == end, "ceiling reached no later than one block before the deadline")
			}
			vAssert(l.position >= posBefore, "position never moves back")
		}
		cur := l.FeeRate()
		vAssert(cur >= prev, "offered rate never decreases")
		vAssert(cur <= end, "offered rate <= ceiling")
		vAssert(inc == (cur > prev), "the 'increased' result is true iff the rate went up")
		if l.position >= w {
			vAssert(cur == end, "at the last position the rate is the ceiling")
		}
		prev = cur
	}
	vReach("walked")
}
