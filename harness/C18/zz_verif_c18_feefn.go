package sweep

// Harness for C18, part 1: the linear fee function.
//
// Unit (real lnd code, executed by gosmt): NewLinearFeeFunction,
// (*LinearFeeFunction).Increment / IncreaseFeeRate / increaseFeeRate /
// feeRateAtPosition / estimateFeeRate / FeeRate, FeeEstimateInfo.Estimate,
// btcutil.Amount.MulF64 + btcutil.round (float64), calcCurrentConfTarget.
//
// Floating point: width and position are always concrete on a path (vChoice /
// concrete loops), rates and the estimator's answers are symbolic.

import (
	"errors"

	"github.com/lightningnetwork/lnd/fn/v2"
	"github.com/lightningnetwork/lnd/lnwallet/chainfee"
)

// c18MaxRate bounds the symbolic fee rates: 2^40 sat/kw is ~4.4e6 sat/vb, far
// above lncfg.MaxAllowedFeeRate (10_000 sat/vb = 2.5e6 sat/kw).
const c18MaxRate = int64(1) << 40

// c18Est is a fake chainfee.Estimator (the interface lnd already has) whose
// answers are arbitrary.
type c18Est struct {
	rate  chainfee.SatPerKWeight
	fail  bool
	relay chainfee.SatPerKWeight
	calls int
}

var c18ErrEst = errors.New("c18: estimator failed")

func (e *c18Est) EstimateFeePerKW(uint32) (chainfee.SatPerKWeight, error) {
	e.calls++
	if e.fail {
		return 0, c18ErrEst
	}
	return e.rate, nil
}
func (e *c18Est) Start() error                          { return nil }
func (e *c18Est) Stop() error                           { return nil }
func (e *c18Est) RelayFeePerKW() chainfee.SatPerKWeight { return e.relay }

func c18FeeFnConfig() {
	vMerge("(*github.com/lightningnetwork/lnd/sweep.LinearFeeFunction).feeRateAtPosition")
	vMerge("github.com/btcsuite/btcd/btcutil/v2.round")
	vOverflow("(*github.com/lightningnetwork/lnd/sweep.LinearFeeFunction).IncreaseFeeRate")
	vOverflow("github.com/lightningnetwork/lnd/sweep.calcCurrentConfTarget")
	vAssumption("fee rates (ceiling, caller-supplied start) in [0, 2^40) sat/kw; estimator and relay-floor answers any non-negative int64")
	vAssumption("fee-function width and position are concrete per path (case split); float64 encoded bit-precisely (RNE, Go conversions)")
}

// c18Inv is the state invariant of a LinearFeeFunction. The construction
// entries prove it for every fee function the real constructor returns; the
// step/kernel entries assume exactly this and nothing else about the state.
//
//	0 <= start <= end < 2^40, 0 <= delta < 2^50 (delta = (end-start)*1000/width
//	<= 2^40*1000), position <= width+1, and the current rate is the rate at
//	the current position.
func c18Inv(l *LinearFeeFunction) bool {
	return l.startingFeeRate >= 0 && l.startingFeeRate <= l.endingFeeRate &&
		int64(l.endingFeeRate) < c18MaxRate &&
		int64(l.deltaFeeRate) >= 0 && int64(l.deltaFeeRate) < 1<<50 &&
		l.position <= l.width+1
}

// c18ConfTarget lists the conf targets the construction entry is split over:
// the small widths, the values around chainfee.MaxBlockTarget (1008), large
// ones, and (thorough) every conf target 5..extra+4.
func c18ConfTarget(extra int) uint32 {
	special := []uint32{0, 1, 2, 3, 4, 7, 145, 1007, 1008, 1009, 2016, 4000000, 4294967295}
	k := vChoice("ct", len(special)+extra)
	if k < len(special) {
		return special[k]
	}
	return uint32(k-len(special)) + 5
}

const (
	c18RegionMain        = iota // ceiling >= 1, and relay floor <= ceiling when confTarget >= 1008
	c18RegionFloorAbove         // confTarget >= 1008, relay floor > ceiling >= 1
	c18RegionZeroCeiling        // ceiling == 0 (budget rate rounds to zero)
)

// VerifC18New: construction (estimator or caller-supplied start), any
// estimator answers, on the main region.
func VerifC18New() { c18New(c18RegionMain, 0) }

// VerifC18NewT: thorough tier, additionally every conf target 5..52.
func VerifC18NewT() { c18New(c18RegionMain, 48) }

// VerifC18FindFloorAboveCeiling / VerifC18FindZeroCeiling: the same oracle on
// the two complementary regions. On the unchanged tree these report the
// CANDIDATE FINDING described in NOTES.md (start rate above the ceiling).
func VerifC18FindFloorAboveCeiling() { c18New(c18RegionFloorAbove, 0) }
func VerifC18FindZeroCeiling()       { c18New(c18RegionZeroCeiling, 0) }

func c18New(region int, extra int) {
	c18FeeFnConfig()
	ct := c18ConfTarget(extra)
	end := chainfee.SatPerKWeight(vI64("end"))
	est := &c18Est{
		rate:  chainfee.SatPerKWeight(vI64("estRate")),
		fail:  vBool("estFails"),
		relay: chainfee.SatPerKWeight(vI64("relay")),
	}
	vAssume(end >= 0 && int64(end) < c18MaxRate)
	vAssume(est.rate >= 0 && est.relay >= 0)
	given := false
	switch region {
	case c18RegionMain:
		vAssume(end >= 1)
		if ct >= 1008 {
			vAssume(est.relay <= end)
		}
		given = vChoice("given", 2) == 1
	case c18RegionFloorAbove:
		vAssume(ct >= 1008 && est.relay > end && end >= 1)
		vAssume(int64(est.relay) < c18MaxRate && int64(est.rate) < c18MaxRate)
	case c18RegionZeroCeiling:
		vAssume(end == 0 && ct > 1)
		vAssume(int64(est.relay) < c18MaxRate && int64(est.rate) < c18MaxRate)
	}
	startOpt := fn.None[chainfee.SatPerKWeight]()
	var givenStart chainfee.SatPerKWeight
	if given {
		// caller-supplied start rate: within the ceiling (the constructor's
		// contract: "endingFeeRate specifies the max allowed fee rate").
		givenStart = chainfee.SatPerKWeight(vI64("start"))
		vAssume(givenStart >= 0 && givenStart <= end)
		startOpt = fn.Some(givenStart)
	}

	l, err := NewLinearFeeFunction(end, ct, est, startOpt)

	reach := func(label string) {
		// reach labels (replayed witnesses must pass every assertion) only
		// on the main region
		if region == c18RegionMain {
			vReach(label)
		}
	}
	if ct <= 1 {
		reach("deadline-reached")
		vAssert(err == nil && l != nil, "confTarget<=1: construction succeeds")
		vAssert(l.FeeRate() == end && l.startingFeeRate == end && l.endingFeeRate == end,
			"confTarget<=1: the ceiling is used immediately")
		vAssert(est.calls == 0, "confTarget<=1: estimator not consulted")
		vAssert(c18Inv(l) && l.position == 0 && l.width == 0, "invariant established (width 0)")
		return
	}
	if err != nil {
		vAssert(l == nil, "failed construction returns no fee function")
		switch {
		case errors.Is(err, ErrZeroFeeRateDelta):
			reach("refused-zero-delta")
			vAssert(ct != 2, "a zero delta is accepted when the width is 1")
		case errors.Is(err, c18ErrEst):
			reach("refused-estimator-error")
			vAssert(est.fail && ct < 1008 && !given, "estimator error reported only when the estimator was asked and failed")
		case errors.Is(err, ErrFeePreferenceTooLow):
			reach("refused-below-relay")
			vAssert(est.rate < est.relay && !given, "ErrFeePreferenceTooLow only when the estimate is below the relay floor")
		default:
			vAssert(false, "unexpected construction error")
		}
		return
	}
	reach("constructed")
	vObserve("start", int64(l.startingFeeRate))
	vObserve("delta", int64(l.deltaFeeRate))
	// cap: never start above the ceiling
	vAssert(l.startingFeeRate <= l.endingFeeRate, "start rate <= ceiling")
	vAssert(l.endingFeeRate == end, "ceiling is the maximum handed in")
	if given {
		vAssert(l.startingFeeRate == givenStart && est.calls == 0, "caller-supplied start rate is used")
	} else if est.relay <= end {
		// floor: start at no less than the relay floor (when the ceiling allows it)
		vAssert(l.startingFeeRate >= est.relay, "start rate >= relay floor")
	}
	if !given && ct < 1008 {
		vAssert(!est.fail, "estimator failure is not swallowed")
	}
	vAssert(l.width == ct-1 && l.position == 0, "width = confTarget-1, position 0")
	vAssert(l.currentFeeRate == l.startingFeeRate && l.FeeRate() == l.startingFeeRate, "current rate initialised to start")
	vAssert(l.deltaFeeRate != 0 || l.width == 1, "zero delta only with width 1")
	// --- floating point from here on ---
	vAssert(c18Inv(l), "invariant established: 0 <= start <= end < 2^40, 0 <= delta < 2^50")
	vAssert(l.feeRateAtPosition(0) == l.currentFeeRate, "invariant established: current rate = rate(position 0)")
}

// c18State builds an arbitrary fee-function state satisfying the invariant,
// with concrete width and position.
func c18State(w, p uint32) *LinearFeeFunction {
	l := c18StateRaw(w, p)
	l.currentFeeRate = l.feeRateAtPosition(p)
	return l
}

func c18StateRaw(w, p uint32) *LinearFeeFunction {
	l := &LinearFeeFunction{
		startingFeeRate: chainfee.SatPerKWeight(vI64("start")),
		endingFeeRate:   chainfee.SatPerKWeight(vI64("end")),
		deltaFeeRate:    mSatPerKWeight(vI64("delta")),
		width:           w,
		position:        p,
		estimator:       &c18Est{},
	}
	vAssume(c18Inv(l))
	return l
}

// VerifC18Step: the inductive step. From ANY state satisfying the invariant
// (width w <= W (4 quick / 8 thorough), position p <= w+1) ANY single operation -- Increment, or a
// block beat IncreaseFeeRate(confTarget) with confTarget 0..w+2 (repeated,
// consecutive or skipped heights, past the deadline) -- never lowers the
// offered rate, keeps it <= ceiling, re-establishes the invariant, and puts
// the rate at the ceiling when the deadline is at most one block away.
func VerifC18Step() { c18Step(4) }

// VerifC18StepT: thorough tier, W = 8.
func VerifC18StepT() { c18Step(8) }

func c18Step(maxW int) {
	c18FeeFnConfig()
	p := uint32(vChoice("p", maxW+2))
	w := uint32(vChoice("w", maxW+1))
	if p > w+1 || (w == 0 && p > 0) {
		vAssume(false)
	}
	l := c18State(w, p)
	prev := l.FeeRate()
	end := l.endingFeeRate
	if p >= w {
		vAssert(prev == end, "invariant: at or past the last position the rate is the ceiling")
	}
	op := vChoice("op", int(w)+4)
	var inc bool
	var err error
	if op == 0 {
		inc, err = l.Increment()
		if err == nil {
			vReach("incremented")
			vAssert(p < w && l.position == p+1, "Increment moves exactly one position, only before the end")
		}
	} else {
		ct := uint32(op - 1)
		inc, err = l.IncreaseFeeRate(ct)
		if ct <= 1 {
			vReach("deadline-minus-one")
			vAssert(l.FeeRate() == end, "ceiling reached no later than one block before the deadline")
		}
	}
	cur := l.FeeRate()
	if err != nil {
		vReach("max-position")
		vAssert(errors.Is(err, ErrMaxPosition) && p >= w, "the only error is ErrMaxPosition, only at or past the last position")
		vAssert(!inc && cur == prev && l.position == p, "ErrMaxPosition leaves the state")
	}
	vAssert(l.position >= p && l.position <= w+1, "position never moves back, stays <= width+1")
	vAssert(cur == l.feeRateAtPosition(l.position), "invariant re-established: current rate = rate(position)")
	vAssert(inc == (cur > prev), "the 'increased' result is true iff the rate went up")
	// --- floating point ---
	vAssert(cur >= prev && cur <= end, "offered rate never decreases and stays <= ceiling")
	vReach("stepped")
}

// VerifC18Deadline: the deadline clause for ALL widths (symbolic width and
// position, conf targets 0..2^32-1 at construction): a block beat with the
// deadline at most one block away puts the rate at the ceiling (or reports
// ErrMaxPosition, in which case it already was there). Integer-only: the
// floating-point branch of feeRateAtPosition is unreachable here.
func VerifC18Deadline() {
	vOverflow("(*github.com/lightningnetwork/lnd/sweep.LinearFeeFunction).IncreaseFeeRate")
	vOverflow("github.com/lightningnetwork/lnd/sweep.calcCurrentConfTarget")
	l := &LinearFeeFunction{
		startingFeeRate: chainfee.SatPerKWeight(vI64("start")),
		endingFeeRate:   chainfee.SatPerKWeight(vI64("end")),
		currentFeeRate:  chainfee.SatPerKWeight(vI64("cur")),
		deltaFeeRate:    mSatPerKWeight(vI64("delta")),
		width:           vU32("width"),
		position:        vU32("position"),
	}
	// width = confTarget-1 with confTarget >= 2, or 0
	vAssume(l.width <= 0xfffffffe)
	vAssume(c18Inv(l))
	// invariant "current = rate(position)" for positions at or past the end
	if l.position >= l.width {
		vAssume(l.currentFeeRate == l.endingFeeRate)
	} else {
		vAssume(l.currentFeeRate <= l.endingFeeRate)
	}
	height, deadline := vI32("height"), vI32("deadline")
	vAssume(height >= 0 && deadline >= 0)
	vAssume(int64(height) >= int64(deadline)-1)
	ct := calcCurrentConfTarget(height, deadline)
	vAssert(ct <= 1, "conf target <= 1 from one block before the deadline on")
	p := l.position
	_, err := l.IncreaseFeeRate(ct)
	if err != nil {
		vReach("already-at-end")
		vAssert(errors.Is(err, ErrMaxPosition) && p >= l.width, "only ErrMaxPosition, only at the end")
	} else {
		vReach("moved")
	}
	vAssert(l.FeeRate() == l.endingFeeRate, "any width: ceiling reached no later than one block before the deadline")
	vAssert(l.position >= p && l.position <= l.width+1, "any width: position monotone and bounded")
}

// VerifC18Kernel: feeRateAtPosition for an arbitrary state satisfying the
// invariant (arbitrary delta), per position p: no integer overflow / float
// conversion out of range inside, start <= rate(p) <= end,
// rate(p) <= rate(p+1).
func VerifC18Kernel() { c18Kernel(1, 4) }

// VerifC18KernelT: thorough tier, every p < 96 (16 shards of 6).
func VerifC18KernelT() { c18Kernel(16, 6) }

func c18Kernel(blocks, perBlock int) {
	c18FeeFnConfig()
	vOverflow("(*github.com/lightningnetwork/lnd/sweep.LinearFeeFunction).feeRateAtPosition")
	vOverflow("(github.com/btcsuite/btcd/btcutil/v2.Amount).MulF64")
	vOverflow("github.com/btcsuite/btcd/btcutil/v2.round")
	p := uint32(vChoice("blk", blocks)*perBlock + vChoice("i", perBlock))
	l := c18StateRaw(100000, 0)
	start, end := l.startingFeeRate, l.endingFeeRate
	rp := l.feeRateAtPosition(p)
	vAssert(rp >= start && rp <= end, "any delta >= 0: start <= rate(p) <= ceiling")
	rq := l.feeRateAtPosition(p + 1)
	vAssert(rp <= rq, "any delta >= 0: rate(p) <= rate(p+1)")
	vReach("done")
}

// VerifC18Walk: end-to-end statement on a fee function built by the real
// constructor and driven by a sequence of block beats (heights may repeat or
// be skipped) and Increments; the offered rate is observed after every step.
func VerifC18Walk() { c18Walk(2, 2) }

// VerifC18WalkT: thorough tier, widths 1..4, two steps.
func VerifC18WalkT() { c18Walk(4, 2) }

func c18Walk(maxW, steps int) {
	c18FeeFnConfig()
	w := uint32(vChoice("w", maxW) + 1)
	start := chainfee.SatPerKWeight(vI64("start"))
	end := chainfee.SatPerKWeight(vI64("end"))
	vAssume(start >= 0 && start <= end && int64(end) < c18MaxRate)
	l, err := NewLinearFeeFunction(end, w+1, &c18Est{}, fn.Some(start))
	if err != nil {
		vAssume(false)
	}
	const h0 = int32(800000)
	deadline := h0 + int32(w) + 1
	prev := l.FeeRate()
	vAssert(prev == start, "first offered rate is the start rate")
	height := h0
	for i := 0; i < steps; i++ {
		// op 0: Increment; op k>0: a block beat at height+k-1 (k-1 = 0
		// repeats the height, k-1 > 1 skips heights), up to two blocks
		// past the deadline.
		op := vChoice("op", int(w)+4)
		if op == 0 {
			l.Increment()
		} else {
			height += int32(op - 1)
			if height > deadline+2 {
				vAssume(false)
			}
			l.IncreaseFeeRate(calcCurrentConfTarget(height, deadline))
			if height >= deadline-1 {
				vReach("deadline-minus-one")
				vAssert(l.FeeRate() == end, "walk: ceiling reached no later than one block before the deadline")
			}
		}
		cur := l.FeeRate()
		vAssert(cur >= prev && cur <= end, "walk: offered rate never decreases and stays <= ceiling")
		prev = cur
	}
	vReach("walked")
}
