package graphdb

// Harness for C20, "zombie rules": which node may resurrect a channel that was
// pruned as a zombie. The gossiper (processZombieUpdate) verifies a
// resurrecting channel_update of direction i against the key stored in slot i
// of the zombie index, and refuses when that slot is blank. The keys are
// chosen by makeZombiePubkeys when the edge is marked zombie under strict
// zombie pruning. An update is authentic only if it is signed by the node that
// owns its direction, so slot i must hold node i's key or be blank.

import "time"

func VerifC20ZombieKeys() {
	var n1, n2, blank [33]byte
	copy(n1[:], vBytes("node1", 33))
	copy(n2[:], vBytes("node2", 33))
	vAssume(n1 != n2 && n1 != blank && n2 != blank) // two different real node keys
	var e1, e2 *time.Time
	has1, has2 := vBool("hasEdge1"), vBool("hasEdge2")
	s1, s2 := vI64("ts1"), vI64("ts2")
	vAssume(s1 >= 0 && s1 < 1<<33 && s2 >= 0 && s2 < 1<<33) // unix seconds (uint32 on the wire)
	if has1 {
		t := time.Unix(s1, 0)
		e1 = &t
	}
	if has2 {
		t := time.Unix(s2, 0)
		e2 = &t
	}
	k1, k2 := makeZombiePubkeys(n1, n2, e1, e2)

	vAssert(k1 == n1 || k1 == blank, "zombie: slot 1 holds node 1's key or is blank (a direction-0 update is only ever checked against node 1's key)")
	vAssert(k2 == n2 || k2 == blank, "zombie: slot 2 holds node 2's key or is blank (a direction-1 update is only ever checked against node 2's key)")
	vAssert(k1 != blank || k2 != blank, "zombie: at least one party can resurrect the channel")
	switch {
	case !has1 && !has2:
		vReach("neither-policy")
		vAssert(k1 == n1 && k2 == n2, "zombie: without any policy either party may resurrect")
	case !has1 || (has2 && s1 < s2):
		vReach("edge1-lagging")
		vAssert(k1 == n1 && k2 == blank, "zombie: only the lagging node 1 may resurrect")
	default:
		vReach("edge2-lagging")
		vAssert(k1 == blank && k2 == n2, "zombie: only the lagging node 2 may resurrect")
	}
}
