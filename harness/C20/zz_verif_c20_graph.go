package graph

// Harness for C20, unit graph: the freshness predicates the gossiper asks
// before it applies a channel_update or node_announcement:
//
//   (*Builder).IsStaleEdgePolicy   (with (*graphdb.ChannelGraph).HasV1ChannelEdge)
//   (*Builder).IsStaleNode -> assertNodeAnnFreshness (HasV1Node)
//
// The graph database is a fake graphdb.Store (the interface ChannelGraph is
// built on) that returns symbolic timestamps / exists / zombie answers; the
// same fake runs in the native replay.

import (
	"context"
	"errors"
	"time"

	graphdb "github.com/lightningnetwork/lnd/graph/db"
	"github.com/lightningnetwork/lnd/lnwire"
	"github.com/lightningnetwork/lnd/routing/route"
)

// c20Store implements only the two lookups the unit uses; any other method of
// the embedded (nil) interface would panic.
type c20Store struct {
	graphdb.Store

	e1, e2           time.Time
	exists, isZombie bool

	nodeTime   time.Time
	nodeExists bool
	nodeErr    error

	askedChan uint64
	askedNode [33]byte
}

func (s *c20Store) HasV1ChannelEdge(_ context.Context, chanID uint64) (time.Time, time.Time, bool, bool, error) {
	s.askedChan = chanID
	return s.e1, s.e2, s.exists, s.isZombie, nil
}

func (s *c20Store) HasV1Node(_ context.Context, pub [33]byte) (time.Time, bool, error) {
	s.askedNode = pub
	return s.nodeTime, s.nodeExists, s.nodeErr
}

// c20ZeroUnix is time.Time{}.Unix(): what the store reports for a direction
// that has no policy yet (kv_store caches it as this Unix value).
const c20ZeroUnix = -62135596800

// c20Stored is a stored last-update time: whole seconds (the stores keep Unix
// seconds) from "no policy yet" (the zero time) up to 2^40 (year 36812; wire
// timestamps are 32 bit, locally generated ones are time.Now()).
func c20Stored(name string) (time.Time, int64) {
	s := vI64(name)
	vAssume(s >= c20ZeroUnix && s < 1<<40)
	return time.Unix(s, 0), s
}

// vC20Since replaces time.Since in the symbolic run: exact for the
// whole-second instants the engine's time.Now model and time.Unix(sec, 0)
// produce (time.Time.Sub goes through a 64-bit multiply/divide by 1e9 that no
// solver back end finishes). The native replay runs the real time.Since.
func vC20Since(t time.Time) time.Duration {
	d := time.Now().Unix() - t.Unix()
	// explicit range (proved, then assumed): lets the back ends bound the
	// constant multiplication below
	vLemma(d > -(1<<33) && d < 1<<33, "now - t fits 34 bits")
	r := time.Duration(d) * time.Second
	// x -> x*1e9 is strictly monotone on |x| < 2^33 (no 64-bit wrap). With a
	// compound x the back ends do not find this; it is proved for a plain
	// variable by VerifC20MulLemma and used here for the configured expiry.
	e := c20ExpirySec
	vAssume((r > time.Duration(e)*time.Second) == (d > e))
	vAssume((r < time.Duration(e)*time.Second) == (d < e))
	return r
}

// c20ExpirySec is the configured ChannelPruneExpiry of the current run in
// seconds (concrete).
var c20ExpirySec int64

// VerifC20MulLemma proves the monotonicity fact vC20Since assumes, for each
// configured expiry.
func VerifC20MulLemma() {
	x := vI64("x")
	vAssume(x > -(1<<33) && x < 1<<33)
	e := c20Expiries[vChoice("expiry", len(c20Expiries))]
	r := time.Duration(x) * time.Second
	vAssert((r > time.Duration(e)*time.Second) == (x > e), "x*1e9 > e*1e9 iff x > e")
	vAssert((r < time.Duration(e)*time.Second) == (x < e), "x*1e9 < e*1e9 iff x < e")
}

var c20Expiries = []int64{14 * 24 * 3600, 24 * 3600, 0}

func c20Builder(st *c20Store, assumeValid bool, expiry time.Duration) *Builder {
	g, err := graphdb.NewChannelGraph(st, graphdb.WithUseGraphCache(false))
	if err != nil {
		panic(err)
	}
	return &Builder{cfg: &Config{Graph: g, AssumeChannelValid: assumeValid, ChannelPruneExpiry: expiry}}
}

// VerifC20StaleEdge: IsStaleEdgePolicy says "fresh" (false) only if the
// channel is unknown, or the policy stored for THAT direction is strictly
// older than the update (equal timestamps are stale); for a zombie channel:
// only if (with AssumeChannelValid) the update is not a disable and the
// update's timestamp is within ChannelPruneExpiry of now.
func VerifC20StaleEdge() {
	vReplace("time.Since", "github.com/lightningnetwork/lnd/graph.vC20Since")
	vAssumption("time.Since(t) = (now - t) in whole seconds, for t = time.Unix(sec, 0) and the engine's whole-second time.Now; x*1e9 is monotone for |x| < 2^33 (proved separately by VerifC20MulLemma)")
	st := &c20Store{}
	var s1, s2 int64
	st.e1, s1 = c20Stored("e1")
	st.e2, s2 = c20Stored("e2")
	// store invariant: an id is a live edge or in the zombie index, not both
	// (kv_store sets isZombie=false when the edge exists).
	switch vChoice("state", 3) {
	case 1:
		st.exists = true
	case 2:
		st.isZombie = true
	}
	assumeValid := vBool("assumeValid")
	// configured prune expiry: concrete cases (a symbolic one needs
	// a*1e9 < b*1e9 <=> a < b over 64 bits, which no back end finishes)
	expirySec := c20Expiries[vChoice("expiry", len(c20Expiries))]
	c20ExpirySec = expirySec
	expiry := time.Duration(expirySec) * time.Second
	b := c20Builder(st, assumeValid, expiry)

	ts := vU32("ts") // wire width of channel_update.timestamp
	flags := lnwire.ChanUpdateChanFlags(vU8("flags"))
	scid := lnwire.ShortChannelID{BlockHeight: vU32("block"), TxIndex: vU32("tx"), TxPosition: vU16("pos")}
	vAssume(scid.BlockHeight < 1<<24 && scid.TxIndex < 1<<24)

	before := time.Now().Unix()
	// exactly what handleChanUpdate passes
	stale := b.IsStaleEdgePolicy(scid, time.Unix(int64(ts), 0), flags)
	after := time.Now().Unix()

	vAssert(st.askedChan == scid.ToUint64(), "IsStaleEdgePolicy looked up another channel id")
	if !st.isZombie { // the zombie verdict depends on the wall clock of the run
		vObserve("stale", stale)
	}
	switch {
	case st.isZombie:
		disabled := flags&2 != 0
		if assumeValid && disabled {
			vReach("zombie-still-disabled")
			vAssert(stale, "zombie + AssumeChannelValid: a disable update must be stale")
			return
		}
		// age of the update is now-ts for some now in [before, after]
		if before-int64(ts) > expirySec {
			vAssert(stale, "zombie: an update older than ChannelPruneExpiry must be stale")
		}
		if after+1-int64(ts) <= expirySec { // +1: the replay clock has sub-second resolution
			vAssert(!stale, "zombie: an update within ChannelPruneExpiry is fresh")
		}
		// witnesses that do not depend on the wall clock of the replay
		// (valid while the replay runs between 2024 and 2095)
		if int64(ts) < 1_700_000_000-366*24*3600 {
			vReach("zombie-old")
		}
		if int64(ts) > 4_000_000_000 {
			vReach("zombie-future")
		}
	case !st.exists:
		vReach("unknown-edge")
		vAssert(!stale, "unknown channel: the update is not stale")
	default:
		stored := s1
		if flags&1 == 1 {
			stored = s2
		}
		if stale {
			vReach("known-stale")
		} else {
			vReach("known-fresh")
		}
		vAssert(stale == (stored >= int64(ts)), "known channel: stale iff the stored policy of that direction is not strictly older")
	}
}

// VerifC20StaleNode: IsStaleNode says "fresh" (false) only if the node is
// known to the graph (has a channel) and the stored announcement is strictly
// older.
func VerifC20StaleNode() {
	st := &c20Store{}
	var stored int64
	st.nodeTime, stored = c20Stored("last")
	st.nodeExists = vBool("exists")
	if vBool("dberr") {
		st.nodeErr = errors.New("c20: db failure")
	}
	b := c20Builder(st, false, DefaultChannelPruneExpiry)
	ts := vU32("ts")
	var node route.Vertex
	copy(node[:], vBytes("node", 33))

	stale := b.IsStaleNode(context.Background(), node, time.Unix(int64(ts), 0))

	vAssert(st.askedNode == node, "IsStaleNode looked up another node")
	vObserve("stale", stale)
	fresh := st.nodeErr == nil && st.nodeExists && stored < int64(ts)
	if stale {
		vReach("stale")
	} else {
		vReach("fresh")
	}
	vAssert(stale == !fresh, "node announcement is fresh iff the node is known and the stored announcement is strictly older")
}
