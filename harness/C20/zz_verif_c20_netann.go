package netann

// Harness for C20 (only authentic, fresh gossip changes the channel graph),
// unit netann: the validation predicates the gossiper relies on.
//
//   validateChannelAnn1 (via ValidateChannelAnn)     all four signatures, digest covers all fields
//   ValidateChannelUpdateAnn                          signature under the supplied key + field rules
//   ValidateNodeAnn                                   signature under the announced node id + address rules
//   (*ChannelAnnouncement1/ChannelUpdate1/NodeAnnouncement1).DataToSign    = BOLT-7 layout, injective
//
// Ideal cryptography (symbolic run only, through vReplace; the native replay
// runs the real btcec/ecdsa/sha256 code):
//
//   signature(digest, key)  = vHash("sig", 64, digest, key)           (UF, injective)
//   Verify(sig, digest, key) <=> sig == vHash("sig", 64, digest, key)
//   DoubleHashB(data)        = vHash("dsha", 32, len(data) || data padded to 192)   (UF, injective)
//   ParsePubKey(b)           = opaque handle for the 33 bytes b (always succeeds)
//
// A signature slot of a message is described by (signer key index, which
// message the signer signed, 64-byte xor mask). Natively the harness really
// signs that message's BOLT-7 serialisation with the fixed test private key
// and xors the mask into the 64 wire bytes, so that every model of the solver
// is a concrete wire message the real code can be run on.

import (
	"bytes"
	"errors"
	"image/color"
	"net"

	"github.com/btcsuite/btcd/btcec/v2"
	"github.com/btcsuite/btcd/btcec/v2/ecdsa"
	"github.com/btcsuite/btcd/btcutil/v2"
	"github.com/btcsuite/btcd/chainhash/v2"
	"github.com/lightningnetwork/lnd/input"
	"github.com/lightningnetwork/lnd/lnwire"
)

// ---------------------------------------------------------------------------
// fixed test keys
// ---------------------------------------------------------------------------

// c20Pubs[i] is the compressed public key of the private key whose 32 bytes
// are all 0x10*(i+1)+1 (checked natively in c20Priv).
var c20Pubs = [4][33]byte{
	{0x03, 0x4f, 0x35, 0x5b, 0xdc, 0xb7, 0xcc, 0x0a, 0xf7, 0x28, 0xef, 0x3c, 0xce, 0xb9, 0x61, 0x5d, 0x90, 0x68, 0x4b, 0xb5, 0xb2, 0xca, 0x5f, 0x85, 0x9a, 0xb0, 0xf0, 0xb7, 0x04, 0x07, 0x58, 0x71, 0xaa},
	{0x02, 0x8d, 0x75, 0x00, 0xdd, 0x4c, 0x12, 0x68, 0x5d, 0x1f, 0x56, 0x8b, 0x4c, 0x2b, 0x50, 0x48, 0xe8, 0x53, 0x4b, 0x87, 0x33, 0x19, 0xf3, 0xa8, 0xda, 0xa6, 0x12, 0xb4, 0x69, 0x13, 0x2e, 0xc7, 0xf7},
	{0x03, 0x69, 0x30, 0xf4, 0x6d, 0xd0, 0xb1, 0x6d, 0x86, 0x6d, 0x59, 0xd1, 0x05, 0x4a, 0xa6, 0x32, 0x98, 0xb3, 0x57, 0x49, 0x9c, 0xd1, 0x86, 0x2e, 0xf1, 0x6f, 0x3f, 0x55, 0xf1, 0xca, 0xfc, 0xeb, 0x82},
	{0x02, 0xee, 0xc7, 0x24, 0x5d, 0x6b, 0x7d, 0x2c, 0xcb, 0x30, 0x38, 0x0b, 0xfb, 0xe2, 0xa3, 0x64, 0x8c, 0xd7, 0xa9, 0x42, 0x65, 0x3f, 0x5a, 0xa3, 0x40, 0xed, 0xce, 0xa1, 0xf2, 0x83, 0x68, 0x66, 0x19},
}

// c20Pub selects c20Pubs[i] (i < 4) without branching, so that a symbolic
// index gives one term per byte instead of four paths:
// x0 ^ (x0^x1)&b0 ^ (x0^x2)&b1 ^ (x0^x1^x2^x3)&b0&b1 with b0, b1 the bits of i
// spread over a byte.
func c20Pub(i uint8) [33]byte {
	b0 := -(i & 1)
	b1 := -((i >> 1) & 1)
	b01 := b0 & b1
	var out [33]byte
	for j := 0; j < 33; j++ {
		x0, x1, x2, x3 := c20Pubs[0][j], c20Pubs[1][j], c20Pubs[2][j], c20Pubs[3][j]
		out[j] = x0 ^ (x0^x1)&b0 ^ (x0^x2)&b1 ^ (x0^x1^x2^x3)&b01
	}
	return out
}

// c20Priv is only called natively.
func c20Priv(i uint8) *btcec.PrivateKey {
	var b [32]byte
	for j := range b {
		b[j] = 0x10*(i+1) + 1
	}
	priv, pub := btcec.PrivKeyFromBytes(b[:])
	if !bytes.Equal(pub.SerializeCompressed(), c20Pubs[i][:]) {
		panic("c20: public key table does not match the private keys")
	}
	return priv
}

// ---------------------------------------------------------------------------
// ideal crypto: replacements used by the symbolic run only
// ---------------------------------------------------------------------------

type c20IdealSig struct{ raw [64]byte }

func (s *c20IdealSig) Serialize() []byte { return s.raw[:] }

// c20SigUF selects how the injective function F(digest, key, corruption) that
// stands for "ECDSA signature, then xor" is represented in the symbolic run:
// true: an uninterpreted function (any injective F); false: one concrete
// injective F, digest || signer index || corruption (3-4x cheaper for the
// solver; lnd never looks inside signature bytes other than through the two
// replaced functions, so its behaviour cannot depend on which F it is).
var c20SigUF bool

// Verify: the value verifies iff it is the unaltered signature F(digest, key, no corruption).
func (s *c20IdealSig) Verify(digest []byte, key *btcec.PublicKey) bool {
	kb := c20KeyBytes(key)
	if c20SigUF {
		want := vHash("sig", 64, digest, kb, []byte{0, 0})
		return bytes.Equal(want, s.raw[:])
	}
	d := s.raw[32] &^ 3
	for i := 0; i < 32; i++ {
		d |= s.raw[i] ^ digest[i]
	}
	k := c20Pub(s.raw[32] & 3)
	for i := 0; i < 33; i++ {
		d |= k[i] ^ kb[i]
	}
	for i := 33; i < 64; i++ {
		d |= s.raw[i]
	}
	return d == 0
}

// vC20ToSignature replaces (*lnwire.Sig).ToSignature: the 64 wire bytes are
// the signature value.
func vC20ToSignature(s *lnwire.Sig) (input.Signature, error) {
	x := &c20IdealSig{}
	copy(x.raw[:], s.RawBytes())
	return x, nil
}

type c20KeyEntry struct {
	p *btcec.PublicKey
	b []byte
}

var c20KeyTab []c20KeyEntry

// c20KeyFacts: what the harness knows about the key fields it generated
// (bytes, and whether they are a point on the curve; see c20Key).
type c20KeyFact struct {
	b       [33]byte
	onCurve bool
}

var c20Facts []c20KeyFact

var c20ErrBadKey = errors.New("c20: malformed public key")

// vC20ParsePubKey replaces btcec.ParsePubKey: an opaque handle for the bytes.
// It fails like the real one for a format byte other than 02/03 and for
// x coordinates the harness knows are not on the curve.
func vC20ParsePubKey(b []byte) (*btcec.PublicKey, error) {
	bad := b[0] != 2 && b[0] != 3
	for i := range c20Facts {
		f := &c20Facts[i]
		d := uint8(0)
		for j := 1; j < 33; j++ { // x coordinate
			d |= f.b[j] ^ b[j]
		}
		bad = bad || (d == 0 && !f.onCurve)
	}
	if bad {
		return nil, c20ErrBadKey
	}
	p := new(btcec.PublicKey)
	cp := make([]byte, len(b))
	copy(cp, b)
	c20KeyTab = append(c20KeyTab, c20KeyEntry{p, cp})
	return p, nil
}

func c20KeyBytes(p *btcec.PublicKey) []byte {
	for i := range c20KeyTab {
		if c20KeyTab[i].p == p {
			return c20KeyTab[i].b
		}
	}
	panic("c20: public key not produced by ParsePubKey")
}

const c20Pad = 192

// vC20DoubleHashB replaces chainhash.DoubleHashB: one collision-free function
// over byte strings of any length up to c20Pad (the engine's sha256 UF is one
// function per input length, which says nothing about two inputs of different
// lengths).
func vC20DoubleHashB(b []byte) []byte {
	if len(b) > c20Pad {
		panic("c20: message longer than the hash model's padding")
	}
	in := make([]byte, 2+c20Pad)
	in[0] = byte(len(b) >> 8)
	in[1] = byte(len(b))
	copy(in[2:], b)
	return vHash("dsha", 32, in)
}

func c20Ideal() {
	vReplace("(*github.com/lightningnetwork/lnd/lnwire.Sig).ToSignature", "github.com/lightningnetwork/lnd/netann.vC20ToSignature")
	vReplace("github.com/btcsuite/btcd/btcec/v2.ParsePubKey", "github.com/lightningnetwork/lnd/netann.vC20ParsePubKey")
	vReplace("github.com/btcsuite/btcd/chainhash/v2.DoubleHashB", "github.com/lightningnetwork/lnd/netann.vC20DoubleHashB")
	vInjective("sig")
	vInjective("dsha")
	vAssumption("ideal signatures: wire bytes are F(digest, key, corruption) for one collision-free F; they verify for (d, k) iff they equal F(d, k, none). Natively F is ECDSA under fixed test keys followed by the xor")
	vAssumption("ideal hash: chainhash.DoubleHashB is one collision-free function of the byte string")
	vAssumption("Sig.ToSignature succeeds on every input in the symbolic run; natively a malformed signature is an error, which the oracle classes as 'does not verify' as well")
	vAssumption("ParsePubKey fails iff the format byte is not 02/03 or the x coordinate is off the curve; the latter is a precomputed fact for the corrupted test keys (checked natively)")
	c20KeyTab = nil
	c20Facts = nil
	c20SigUF = vChoice("sigmodel", 2) == 1
	vUnwind(512)
}

// c20Sign produces the 64 wire bytes of a signature by test key `signer` over
// `digest`, with byte number pos (< 64) xored with val afterwards.
//
// Symbolically the wire bytes are F(digest, key, (pos,val)) for ONE injective
// F: every (digest, key, corruption) gives its own 64-byte value, and only the
// uncorrupted one verifies (Dolev-Yao: the only values that verify are the
// ones the key holder issued). Natively F is ECDSA with the test key, xor.
func c20Sign(digest []byte, signer uint8, pos, val uint8) lnwire.Sig {
	var out []byte
	if vNative() {
		sig := ecdsa.Sign(c20Priv(signer), digest)
		ws, err := lnwire.NewSigFromSignature(sig)
		if err != nil {
			panic(err)
		}
		out = append([]byte{}, ws.RawBytes()...)
		out[pos] ^= val
	} else {
		k := c20Pub(signer)
		if val == 0 {
			pos = 0 // xor with 0 at any position is "unaltered"
		}
		if c20SigUF {
			out = vHash("sig", 64, digest, k[:], []byte{pos, val})
		} else {
			out = make([]byte, 64)
			copy(out, digest)
			out[32], out[33], out[34] = signer, pos, val
		}
	}
	s, err := lnwire.NewSigFromWireECDSA(out)
	if err != nil {
		panic(err)
	}
	return s
}

// c20SigSlot is one signature slot of a message: who signed, what, and how the
// wire bytes were corrupted afterwards.
type c20SigSlot struct {
	signer   uint8 // index of the test key that produced the signature
	other    uint8 // 1: the signer signed the OTHER message (a different one), 0: this one
	pos, val uint8 // wire byte pos is xored with val
}

func c20Slot(name string) c20SigSlot {
	s := c20SigSlot{signer: vU8(name + ".signer"), other: vU8(name + ".other"), pos: vU8(name + ".pos"), val: vU8(name + ".val")}
	vAssume(s.signer < 4 && s.other < 2 && s.pos < 64)
	return s
}

// authentic is the property's notion: made by the owner of `key` over exactly
// this message and not altered since.
//
// The oracle helpers below accumulate differences with | instead of using
// && / ==, so that the symbolic run does not fork inside the oracle.
func (s c20SigSlot) authentic(key [33]byte) bool {
	k := c20Pub(s.signer)
	d := s.other | s.val
	for j := range k {
		d |= k[j] ^ key[j]
	}
	return d == 0
}

func (s c20SigSlot) make(dThis, dOther []byte) lnwire.Sig {
	m := -s.other // 0x00 or 0xff
	d := make([]byte, 32)
	for i := range d {
		d[i] = dThis[i]&^m | dOther[i]&m
	}
	return c20Sign(d, s.signer, s.pos, s.val)
}

// c20OnCurve[i] bit p-1: test key i with the lowest bit of byte p (1..32, the
// x coordinate) flipped is still the x coordinate of a curve point.
var c20OnCurve = [4]uint32{0xe3b5a441, 0xb9c30645, 0x8d778226, 0xd551e88c}

// c20Key is a key field of a message: one of the test keys with a single-byte
// corruption (val == 0: the genuine key): the format byte xor any value, or
// one byte of the x coordinate with its lowest bit flipped (for those the
// harness knows whether the result is on the curve, which the symbolic
// ParsePubKey cannot compute).
func c20Key(name string) [33]byte {
	i, pos, val := vU8(name+".idx"), vU8(name+".pos"), vU8(name+".val")
	vAssume(i < 4 && pos < 33 && (pos == 0 || val <= 1))
	k := c20Pub(i)
	for j := range k {
		hit := byte((uint16(uint8(j)^pos) - 1) >> 8) // 0xff iff j == pos
		k[j] ^= val & hit
	}
	b0, b1 := -uint32(i&1), -uint32((i>>1)&1)
	t := c20OnCurve[0] ^ (c20OnCurve[0]^c20OnCurve[1])&b0 ^ (c20OnCurve[0]^c20OnCurve[2])&b1 ^
		(c20OnCurve[0]^c20OnCurve[1]^c20OnCurve[2]^c20OnCurve[3])&b0&b1
	on := pos == 0 || val == 0 || (t>>((pos-1)&31))&1 == 1
	if vNative() {
		_, err := btcec.ParsePubKey(k[:])
		if (err == nil) != (on && (k[0] == 2 || k[0] == 3)) {
			panic("c20: on-curve table is wrong")
		}
	} else {
		c20Facts = append(c20Facts, c20KeyFact{k, on})
	}
	return k
}

// ---------------------------------------------------------------------------
// BOLT-7 reference serialisations (what a remote signer signs)
// ---------------------------------------------------------------------------

func c20U16(b []byte, v uint16) []byte { return append(b, byte(v>>8), byte(v)) }
func c20U32(b []byte, v uint32) []byte {
	return append(b, byte(v>>24), byte(v>>16), byte(v>>8), byte(v))
}
func c20U64(b []byte, v uint64) []byte {
	return append(c20U32(b, uint32(v>>32)), byte(v>>24), byte(v>>16), byte(v>>8), byte(v))
}
func c20Scid(b []byte, s lnwire.ShortChannelID) []byte {
	b = append(b, byte(s.BlockHeight>>16), byte(s.BlockHeight>>8), byte(s.BlockHeight))
	b = append(b, byte(s.TxIndex>>16), byte(s.TxIndex>>8), byte(s.TxIndex))
	return c20U16(b, s.TxPosition)
}

// feature vector shapes (a RawFeatureVector is a set; its serialisation is
// the shortest bit field containing the highest bit)
const c20NFeat = 4

func c20Features(shape int) (*lnwire.RawFeatureVector, []byte) {
	switch shape {
	case 0:
		return lnwire.NewRawFeatureVector(), []byte{0, 0}
	case 1:
		return lnwire.NewRawFeatureVector(1), []byte{0, 1, 0x02}
	case 2:
		return lnwire.NewRawFeatureVector(8), []byte{0, 2, 0x01, 0x00}
	}
	return lnwire.NewRawFeatureVector(0, 9), []byte{0, 2, 0x02, 0x01}
}

// ---------------------------------------------------------------------------
// channel_announcement
// ---------------------------------------------------------------------------

type c20Ann struct {
	feat   int
	chain  [32]byte
	scid   lnwire.ShortChannelID
	keys   [4][33]byte // node_id_1, node_id_2, bitcoin_key_1, bitcoin_key_2
	extra  []byte
}

func c20SymScid(name string) lnwire.ShortChannelID {
	s := lnwire.ShortChannelID{BlockHeight: vU32(name + ".block"), TxIndex: vU32(name + ".tx"), TxPosition: vU16(name + ".pos")}
	// wire width: block height and tx index are 3-byte fields; Decode cannot
	// produce larger values.
	vAssume(s.BlockHeight < 1<<24 && s.TxIndex < 1<<24)
	return s
}

func c20AnnRef(a *c20Ann) []byte {
	_, f := c20Features(a.feat)
	b := append([]byte{}, f...)
	b = append(b, a.chain[:]...)
	b = c20Scid(b, a.scid)
	for k := 0; k < 4; k++ {
		b = append(b, a.keys[k][:]...)
	}
	return append(b, a.extra...)
}

func c20AnnWire(a *c20Ann) *lnwire.ChannelAnnouncement1 {
	fv, _ := c20Features(a.feat)
	return &lnwire.ChannelAnnouncement1{
		Features:        fv,
		ChainHash:       a.chain,
		ShortChannelID:  a.scid,
		NodeID1:         a.keys[0],
		NodeID2:         a.keys[1],
		BitcoinKey1:     a.keys[2],
		BitcoinKey2:     a.keys[3],
		ExtraOpaqueData: a.extra,
	}
}

func c20AnnSame(a, b *c20Ann) bool {
	if a.feat != b.feat || len(a.extra) != len(b.extra) { // concrete
		return false
	}
	d := uint32(0)
	for i := range a.chain {
		d |= uint32(a.chain[i] ^ b.chain[i])
	}
	d |= a.scid.BlockHeight ^ b.scid.BlockHeight
	d |= a.scid.TxIndex ^ b.scid.TxIndex
	d |= uint32(a.scid.TxPosition ^ b.scid.TxPosition)
	for k := 0; k < 4; k++ {
		for i := 0; i < 33; i++ {
			d |= uint32(a.keys[k][i] ^ b.keys[k][i])
		}
	}
	for i := range a.extra {
		d |= uint32(a.extra[i] ^ b.extra[i])
	}
	return d == 0
}

// c20AnnOther builds the "other" announcement a signer may have signed
// instead: `how` picks the shape relation, all field values are fresh.
func c20AnnOther(a *c20Ann, how int) *c20Ann {
	o := &c20Ann{feat: a.feat}
	copy(o.chain[:], vBytes("o.chain", 32))
	o.scid = c20SymScid("o.scid")
	for k := 0; k < 4; k++ {
		copy(o.keys[k][:], vBytes("o.key", 33))
	}
	switch how {
	case 0: // same shape, any field values
		o.extra = vBytes("o.extra", len(a.extra))
	case 1: // one more byte of extra data
		o.extra = vBytes("o.extra", len(a.extra)+1)
	case 2: // another feature vector, extra data one byte shorter (if any)
		o.feat = (a.feat + 1 + vChoice("o.feat", c20NFeat-1)) % c20NFeat
		n := len(a.extra)
		if n > 0 {
			n--
		}
		o.extra = vBytes("o.extra", n)
	}
	return o
}

// VerifC20ChanAnn: ValidateChannelAnn(a) == nil  <=>  every one of the four
// signatures is authentic for the key it is paired with by BOLT-7
// (node_signature_1 <-> node_id_1, node_signature_2 <-> node_id_2,
// bitcoin_signature_1 <-> bitcoin_key_1, bitcoin_signature_2 <-> bitcoin_key_2).
func VerifC20ChanAnn() {
	c20Ideal()
	a := &c20Ann{feat: vChoice("feat", c20NFeat)}
	copy(a.chain[:], vBytes("chain", 32))
	a.scid = c20SymScid("scid")
	names := [4]string{"node1", "node2", "btc1", "btc2"}
	for k := 0; k < 4; k++ {
		a.keys[k] = c20Key(names[k])
	}
	a.extra = vBytes("extra", C20_EXTRA*vChoice("extra.len", 2))
	o := c20AnnOther(a, vChoice("other", 3))
	// "other" means a different message: it differs in at least one field.
	vAssume(!c20AnnSame(a, o))

	this, other := chainhash.DoubleHashB(c20AnnRef(a)), chainhash.DoubleHashB(c20AnnRef(o))
	var slot [4]c20SigSlot
	for k := 0; k < 4; k++ {
		slot[k] = c20Slot(names[k] + ".sig")
	}
	w := c20AnnWire(a)
	w.NodeSig1 = slot[0].make(this, other)
	w.NodeSig2 = slot[1].make(this, other)
	w.BitcoinSig1 = slot[2].make(this, other)
	w.BitcoinSig2 = slot[3].make(this, other)

	err := ValidateChannelAnn(w, nil)

	auth := [4]bool{}
	for k := 0; k < 4; k++ {
		auth[k] = slot[k].authentic(a.keys[k])
	}
	want := auth[0] && auth[1] && auth[2] && auth[3]
	vObserve("accepted", err == nil)
	if err == nil {
		vReach("accept")
	} else {
		vReach("reject")
	}
	vAssert((err == nil) == want, "channel_announcement accepted iff all four signatures are authentic for their paired keys")
}

// VerifC20ChanAnnDigest: ChannelAnnouncement1.DataToSign is byte for byte the
// BOLT-7 layout (features, chain hash, scid, node ids, bitcoin keys, extra
// data) and two announcements with the same DataToSign agree in every one of
// those fields.
func VerifC20ChanAnnDigest() {
	vUnwind(512)
	mk := func(p string, feat, nextra int) *c20Ann {
		a := &c20Ann{feat: feat}
		copy(a.chain[:], vBytes(p+"chain", 32))
		a.scid = c20SymScid(p + "scid")
		for k := 0; k < 4; k++ {
			copy(a.keys[k][:], vBytes(p+"key", 33))
		}
		a.extra = vBytes(p+"extra", nextra)
		return a
	}
	// b has the same or the next feature shape / extra length as a
	fa, ea := vChoice("a.feat", c20NFeat), vChoice("a.extra.len", C20_EXTRA+1)
	a := mk("a.", fa, ea)
	b := mk("b.", (fa+vChoice("b.dfeat", 2))%c20NFeat, (ea+vChoice("b.dextra", 2))%(C20_EXTRA+1))
	da, err := c20AnnWire(a).DataToSign()
	vAssert(err == nil, "DataToSign(a) fails")
	db, err := c20AnnWire(b).DataToSign()
	vAssert(err == nil, "DataToSign(b) fails")
	vAssert(bytes.Equal(da, c20AnnRef(a)), "channel_announcement DataToSign is the BOLT-7 serialisation")
	if bytes.Equal(da, db) {
		vReach("same-data")
		vAssert(c20AnnSame(a, b), "channel_announcement: equal DataToSign implies equal fields")
	} else {
		vReach("different-data")
	}
}

// ---------------------------------------------------------------------------
// channel_update
// ---------------------------------------------------------------------------

type c20Upd struct {
	chain          [32]byte
	scid           lnwire.ShortChannelID
	ts             uint32
	mflags, cflags uint8
	tld            uint16
	min, max       uint64
	base, rate     uint32
	extra          []byte
}

func c20SymUpd(p string, nextra int) *c20Upd {
	u := &c20Upd{
		scid: c20SymScid(p + "scid"), ts: vU32(p + "ts"), mflags: vU8(p + "mflags"), cflags: vU8(p + "cflags"),
		tld: vU16(p + "tld"), min: vU64(p + "min"), max: vU64(p + "max"), base: vU32(p + "base"), rate: vU32(p + "rate"),
		extra: vBytes(p+"extra", nextra),
	}
	copy(u.chain[:], vBytes(p+"chain", 32))
	return u
}

func c20UpdRef(u *c20Upd) []byte {
	b := append([]byte{}, u.chain[:]...)
	b = c20Scid(b, u.scid)
	b = c20U32(b, u.ts)
	b = append(b, u.mflags, u.cflags)
	b = c20U16(b, u.tld)
	b = c20U64(b, u.min)
	b = c20U32(b, u.base)
	b = c20U32(b, u.rate)
	if u.mflags&1 != 0 { // option_channel_htlc_max
		b = c20U64(b, u.max)
	}
	return append(b, u.extra...)
}

func c20UpdWire(u *c20Upd) *lnwire.ChannelUpdate1 {
	return &lnwire.ChannelUpdate1{
		ChainHash:       u.chain,
		ShortChannelID:  u.scid,
		Timestamp:       u.ts,
		MessageFlags:    lnwire.ChanUpdateMsgFlags(u.mflags),
		ChannelFlags:    lnwire.ChanUpdateChanFlags(u.cflags),
		TimeLockDelta:   u.tld,
		HtlcMinimumMsat: lnwire.MilliSatoshi(u.min),
		BaseFee:         u.base,
		FeeRate:         u.rate,
		HtlcMaximumMsat: lnwire.MilliSatoshi(u.max),
		ExtraOpaqueData: u.extra,
	}
}

// c20UpdSame: equal in every field that is on the wire (htlc_maximum_msat is
// on the wire only with message flag bit 0).
func c20UpdSame(a, b *c20Upd) bool {
	if len(a.extra) != len(b.extra) { // concrete
		return false
	}
	d := uint64(0)
	for i := range a.chain {
		d |= uint64(a.chain[i] ^ b.chain[i])
	}
	d |= uint64(a.scid.BlockHeight ^ b.scid.BlockHeight)
	d |= uint64(a.scid.TxIndex ^ b.scid.TxIndex)
	d |= uint64(a.scid.TxPosition ^ b.scid.TxPosition)
	d |= uint64(a.ts ^ b.ts)
	d |= uint64(a.mflags ^ b.mflags)
	d |= uint64(a.cflags ^ b.cflags)
	d |= uint64(a.tld ^ b.tld)
	d |= a.min ^ b.min
	d |= uint64(a.base ^ b.base)
	d |= uint64(a.rate ^ b.rate)
	hasMax := -uint64(a.mflags & 1) // all ones iff the field is present
	d |= (a.max ^ b.max) & hasMax
	for i := range a.extra {
		d |= uint64(a.extra[i] ^ b.extra[i])
	}
	return d == 0
}

// c20MaxSat: no funding output can hold more than the 21e6 BTC that will ever
// exist (consensus); capacity*1000 then fits 64 bits, as lnd assumes.
const c20MaxSat = 21_000_000 * 100_000_000

// VerifC20ChanUpdate: ValidateChannelUpdateAnn(key, capacity, u) == nil  <=>
// the signature is authentic for the supplied key AND message flag bit 0
// (htlc_maximum_msat present) is set, 0 < max, min <= max, and max <= capacity
// when the capacity is known (!= 0).
func VerifC20ChanUpdate() {
	c20Ideal()
	u := c20SymUpd("", C20_EXTRA*vChoice("extra.len", 2))
	no := len(u.extra)
	if vChoice("other", 2) == 1 {
		no++
	}
	o := c20SymUpd("o.", no)
	vAssume(!c20UpdSame(u, o))

	kidx := vU8("key.idx")
	vAssume(kidx < 4)
	key := c20Pub(kidx)
	slot := c20Slot("sig")
	capSat := vI64("capacity")
	vAssume(capSat >= 0 && capSat <= c20MaxSat)

	w := c20UpdWire(u)
	w.Signature = slot.make(chainhash.DoubleHashB(c20UpdRef(u)), chainhash.DoubleHashB(c20UpdRef(o)))
	pk, perr := btcec.ParsePubKey(key[:])
	if perr != nil {
		panic(perr)
	}

	err := ValidateChannelUpdateAnn(pk, btcutil.Amount(capSat), w)

	fieldsOK := u.mflags&1 != 0 && u.max != 0 && u.min <= u.max &&
		(capSat == 0 || u.max <= uint64(capSat)*1000)
	auth := slot.authentic(key)
	vObserve("accepted", err == nil)
	if err == nil {
		vReach("accept")
	} else if !fieldsOK {
		vReach("reject-fields")
	} else {
		vReach("reject-signature")
	}
	vAssert((err == nil) == (fieldsOK && auth), "channel_update accepted iff fields are consistent and the signature is authentic for the supplied key")

	// The signature check on its own (used by the gossiper for zombie
	// resurrection and by the router for updates in failure messages).
	err2 := VerifyChannelUpdateSignature(w, pk)
	vAssert((err2 == nil) == auth, "VerifyChannelUpdateSignature accepts iff the signature is authentic for the supplied key")
}

// VerifC20ChanUpdDigest: ChannelUpdate1.DataToSign is the BOLT-7 layout and is
// injective in every field that is on the wire.
func VerifC20ChanUpdDigest() {
	vUnwind(512)
	ea := vChoice("a.extra.len", C20_EXTRA+1)
	a := c20SymUpd("a.", ea)
	b := c20SymUpd("b.", (ea+vChoice("b.dextra", 2))%(C20_EXTRA+1))
	da, err := c20UpdWire(a).DataToSign()
	vAssert(err == nil, "DataToSign(a) fails")
	db, err := c20UpdWire(b).DataToSign()
	vAssert(err == nil, "DataToSign(b) fails")
	vAssert(bytes.Equal(da, c20UpdRef(a)), "channel_update DataToSign is the BOLT-7 serialisation")
	if bytes.Equal(da, db) {
		vReach("same-data")
		vAssert(c20UpdSame(a, b), "channel_update: equal DataToSign implies equal fields")
	} else {
		vReach("different-data")
	}
}

// ---------------------------------------------------------------------------
// node_announcement
// ---------------------------------------------------------------------------

type c20Node struct {
	feat  int
	ts    uint32
	id    [33]byte
	rgb   [3]byte
	alias [32]byte
	addrs int // shape, see c20Addrs
	ip    [4]byte
	port  uint16
	extra []byte
}

const c20NAddr = 6

// c20Addrs returns the address list of shape n, its BOLT-7 serialisation
// (without the length prefix) and whether BOLT-7 / lnd's field rules allow it
// (at most one DNS hostname, which must be non-empty ASCII letters, digits,
// '-' and '.', with a non-zero port).
func c20Addrs(n *c20Node) ([]net.Addr, []byte, bool) {
	tcp := &net.TCPAddr{IP: net.IP(n.ip[:]), Port: int(n.port)}
	tcpB := c20U16(append([]byte{1}, n.ip[:]...), n.port)
	dns := func(h string) (net.Addr, []byte) {
		b := append([]byte{5, byte(len(h))}, h...)
		return &lnwire.DNSAddress{Hostname: h, Port: n.port}, c20U16(b, n.port)
	}
	switch n.addrs {
	case 0:
		return nil, nil, true
	case 1:
		return []net.Addr{tcp}, tcpB, true
	case 2:
		d, b := dns("ln.example-1.org")
		return []net.Addr{tcp, d}, append(tcpB, b...), n.port != 0
	case 3:
		d1, b1 := dns("a.org")
		d2, b2 := dns("b.org")
		return []net.Addr{d1, d2}, append(b1, b2...), false
	case 4:
		d, b := dns("bad_host.org")
		return []net.Addr{d}, b, false
	}
	d, b := dns("")
	return []net.Addr{d}, b, false
}

// c20SymNode: a node announcement with symbolic field values; with rel != nil
// its shape is related to rel's: kind 0 the same, 1 one more byte of extra
// data, 2 the next feature vector, 3 the next address list.
func c20SymNode(p string, rel *c20Node, nextra int) *c20Node {
	n := &c20Node{ts: vU32(p + "ts"), port: vU16(p + "port")}
	if rel == nil {
		n.feat, n.addrs = vChoice(p+"feat", c20NFeat), vChoice(p+"addrs", c20NAddr)
	} else {
		n.feat, n.addrs, nextra = rel.feat, rel.addrs, len(rel.extra)
		switch vChoice(p+"kind", 4) {
		case 1:
			nextra++
		case 2:
			n.feat = (rel.feat + 1) % c20NFeat
		case 3:
			n.addrs = (rel.addrs + 1) % c20NAddr
		}
	}
	copy(n.rgb[:], vBytes(p+"rgb", 3))
	copy(n.alias[:], vBytes(p+"alias", 32))
	copy(n.ip[:], vBytes(p+"ip", 4))
	n.extra = vBytes(p+"extra", nextra)
	return n
}

func c20NodeRef(n *c20Node) []byte {
	_, f := c20Features(n.feat)
	b := append([]byte{}, f...)
	b = c20U32(b, n.ts)
	b = append(b, n.id[:]...)
	b = append(b, n.rgb[:]...)
	b = append(b, n.alias[:]...)
	_, ab, _ := c20Addrs(n)
	b = c20U16(b, uint16(len(ab)))
	b = append(b, ab...)
	return append(b, n.extra...)
}

func c20NodeWire(n *c20Node) *lnwire.NodeAnnouncement1 {
	fv, _ := c20Features(n.feat)
	addrs, _, _ := c20Addrs(n)
	return &lnwire.NodeAnnouncement1{
		Features:        fv,
		Timestamp:       n.ts,
		NodeID:          n.id,
		RGBColor:        color.RGBA{R: n.rgb[0], G: n.rgb[1], B: n.rgb[2]},
		Alias:           lnwire.NodeAlias(n.alias),
		Addresses:       addrs,
		ExtraOpaqueData: n.extra,
	}
}

func c20NodeSame(a, b *c20Node) bool {
	if a.feat != b.feat || a.addrs != b.addrs || len(a.extra) != len(b.extra) { // concrete
		return false
	}
	d := a.ts ^ b.ts
	for i := range a.id {
		d |= uint32(a.id[i] ^ b.id[i])
	}
	for i := range a.rgb {
		d |= uint32(a.rgb[i] ^ b.rgb[i])
	}
	for i := range a.alias {
		d |= uint32(a.alias[i] ^ b.alias[i])
	}
	if a.addrs == 1 || a.addrs == 2 {
		for i := range a.ip {
			d |= uint32(a.ip[i] ^ b.ip[i])
		}
	}
	if a.addrs != 0 {
		d |= uint32(a.port ^ b.port)
	}
	for i := range a.extra {
		d |= uint32(a.extra[i] ^ b.extra[i])
	}
	return d == 0
}

// VerifC20NodeAnn: ValidateNodeAnn(n) == nil  <=>  the address list obeys the
// field rules AND the signature is authentic for the announced node id.
func VerifC20NodeAnn() {
	c20Ideal()
	n := c20SymNode("", nil, C20_EXTRA*vChoice("extra.len", 2))
	n.id = c20Key("node")
	o := c20SymNode("o.", n, 0)
	copy(o.id[:], vBytes("o.id", 33))
	vAssume(!c20NodeSame(n, o))
	slot := c20Slot("sig")

	w := c20NodeWire(n)
	w.Signature = slot.make(chainhash.DoubleHashB(c20NodeRef(n)), chainhash.DoubleHashB(c20NodeRef(o)))

	err := ValidateNodeAnn(w)

	_, _, addrsOK := c20Addrs(n)
	auth := slot.authentic(n.id)
	vObserve("accepted", err == nil)
	if err == nil {
		vReach("accept")
	} else if !addrsOK {
		vReach("reject-fields")
	} else {
		vReach("reject-signature")
	}
	vAssert((err == nil) == (addrsOK && auth), "node_announcement accepted iff addresses are well-formed and the signature is authentic for the node id")
}

// VerifC20NodeAnnDigest: NodeAnnouncement1.DataToSign is the BOLT-7 layout and
// injective in features, timestamp, node id, colour, alias, addresses, extra.
func VerifC20NodeAnnDigest() {
	vUnwind(512)
	a := c20SymNode("a.", nil, vChoice("a.extra.len", C20_EXTRA+1))
	b := c20SymNode("b.", a, 0)
	copy(a.id[:], vBytes("a.id", 33))
	copy(b.id[:], vBytes("b.id", 33))
	da, err := c20NodeWire(a).DataToSign()
	vAssert(err == nil, "DataToSign(a) fails")
	db, err := c20NodeWire(b).DataToSign()
	vAssert(err == nil, "DataToSign(b) fails")
	vAssert(bytes.Equal(da, c20NodeRef(a)), "node_announcement DataToSign is the BOLT-7 serialisation")
	if bytes.Equal(da, db) {
		vReach("same-data")
		vAssert(c20NodeSame(a, b), "node_announcement: equal DataToSign implies equal fields")
	} else {
		vReach("different-data")
	}
}
